(* C12 - the round trip with EVERY stage of the pipeline instantiated by the model of
   the code that implements it:
     walk           walk_ports with the runtime object          C09   Save/WalkStage.v
     comparison     rtosc_arg_vals_eq                           C16   Save/EqStage.v
     print / scan   rtosc_print_message, the body loop          C10   Save/PrintLines.v
     sort           scan_deps + Kahn                            C13   Save/SortStage.v
     dispatch       Ports::dispatch + the macros' callbacks     C04 + C14   Save/TreeStage.v
   What is left of the print/scan stage as a premise is per LINE: the lines outside
   C10's goodc0 fragment (floats, plain option symbols, "[...]" array lines) are assumed
   to read back ([line_reads]); for the lines inside it that is proved. *)
From Coq Require Import List ZArith Bool Lia Arith Permutation.
From RtoscV Require Import Ports.NameModel Ports.WalkModel Ports.DispatchModel Ports.TreeProofs
     Ports.DispatchWalk Ports.NamesModel.
From RtoscV Require Import Pretty.Tok Pretty.PrintModel Pretty.ScanModel Pretty.RunProofs Pretty.ListProofs.
From RtoscV Require Import Save.PrintStage Save.PrintLines.
From RtoscV Require Import Save.TopoModel Save.TopoProofs Save.SaveModel Save.SaveProofs Save.RoundProofs Save.RoundFull
     Save.PermApp Save.SortStage Save.EqStage Save.TreeApp Save.DispatchStage Save.TreeStage Save.WalkStage.
Import ListNotations.

(* ---- the composition, with every stage hypothesis about the SAVED lines only ------------------ *)
Theorem roundtrip_pipeline_gen :
  forall text walk av_eq print_lines scan_text dispatch sort_lines a st,
    walk a st = filter (live a st) (seq 0 (length a)) ->
    (forall i, (i < length a)%nat -> av_eq (val_at st i) (default_of a st i)
                                     = same_value (val_at st i) (default_of a st i)) ->
    (exists rds, length rds = length (save_lines a st) /\
                 scan_text (print_lines (save_lines a st))
                 = map (fun lr => Msg (fst lr) (snd lr)) (combine (save_lines a st) rds)) ->
    (exists s, sort_lines a (save_lines a st) = Some s /\ Permutation s (save_lines a st) /\
               respects (line_must_precede a) s /\
               forall fin, apply_all a s (initial a) = (fin, true) -> real_apply dispatch a s (initial a) = (fin, true)) ->
    full_conditions a st ->
    exists fin,
      real_load text scan_text dispatch sort_lines a
                (real_save text walk av_eq print_lines a st) (initial a)
      = Some (Z.of_nat (length (save_lines a st)), fin) /\
      forall q, (q < length a)%nat -> p_nodef (port_at a q) = false -> live a st q = true ->
                restored_val (port_at a q) (val_at st q) (val_at fin q).
Proof.
  intros text walk av_eq print_lines scan_text dispatch sort_lines a st H9 H16 H10 H13 Hfull.
  rewrite (real_save_lines_cmp text walk av_eq print_lines a st H9 H16). unfold real_load.
  destruct H10 as (rds & Hlen & Hscan).
  rewrite Hscan. destruct (scan_items_msgs (save_lines a st) rds Hlen) as [tot Htot]. rewrite Htot.
  destruct H13 as (s & Hs & Hperm & Hresp & Hdisp). rewrite Hs.
  rewrite save_lines_saved in Hperm.
  apply Permutation_map_inv in Hperm. destruct Hperm as (ord & Hseq & Hpo). subst s.
  assert (Hrb : respects (must_precede a) ord).
  { apply respects_map in Hresp. eapply respects_ext; [|exact Hresp].
    intros x y Hxy. exists x, y. unfold the_line. simpl. auto. }
  destruct (roundtrip_abstract_full a st ord Hfull (Permutation_sym Hpo) Hrb) as (fin & Hfin & Hcount & Hrest).
  rewrite (Hdisp fin Hfin). exists fin. split; [reflexivity | assumption].
Qed.

Section Real.
Variables dec2f dec2d : list Z -> Z.
Variable o : popts.

(* load_from_file's body scan on the text save_to_file made (None: the printer's model gave up) *)
Definition scan_text_real (t : option (list Z)) : list item :=
  match t with
  | Some b => scan_body dec2f dec2d (S (length b)) b
  | None => [Junk]
  end.

Lemma print_body_some : forall ls, Forall (line_reads dec2f dec2d o) ls ->
  exists b, print_body o ls = Some b /\ (length ls <= length b)%nat.
Proof.
  induction ls as [|l r IH]; intros H; [exists []; split; [reflexivity | cbn; lia]|].
  inversion H as [|? ? (t & w & slots & Hp & _) Hr]; subst.
  destruct (IH Hr) as (b & Hb & Hlen). exists ((t ++ [10%Z]) ++ b). split.
  - cbn [print_body]. unfold print_line. rewrite Hp, Hb. reflexivity.
  - rewrite !app_length. cbn [length]. lia.
Qed.

(* the print/scan stage for the lines that read back *)
Theorem print_scan_lines : forall ls, Forall (line_reads dec2f dec2d o) ls ->
  exists rds, length rds = length ls /\ Forall (fun rd => (0 <= rd)%Z) rds /\
    scan_text_real (print_body o ls) = map (fun lr => Msg (fst lr) (snd lr)) (combine ls rds).
Proof.
  intros ls H. destruct (print_body_some ls H) as (b & Hb & Hlen).
  destruct (body_scans dec2f dec2d o ls b H Hb) as (rds & Hl & Hpos & Hscan).
  exists rds. split; [exact Hl|]. split; [exact Hpos|]. rewrite Hb. cbn [scan_text_real]. apply Hscan. lia.
Qed.

Theorem roundtrip_tree_real :
  forall hp tid t apropos fuel F st ps,
    let a := app_of_tree t in
    names_ok (sports_of t) = true -> tree_ok (to_tree hp tid (sports_of t)) -> Forall pt_wf t ->
    switches_ok t = true ->
    NoDup (map dir_addr (dirs_root t)) -> NoDup (app_addresses a) ->
    full_conditions a st -> comparable a st -> cstrings st ->
    declared a apropos ->
    pushes line apropos fuel (msgs (save_lines a st)) = Some ps -> ranked ps ->
    Forall (line_reads dec2f dec2d o) (save_lines a st) ->
    exists fin,
      real_load (option (list Z)) scan_text_real (fun _ l s => tree_apply_line hp tid t l s)
                (fun _ ls => sort_by_load_order apropos fuel ls) a
                (real_save (option (list Z)) (fun _ s => walk_tree t s) (av_eq_real F) (print_body o) a st)
                (initial a)
      = Some (Z.of_nat (length (save_lines a st)), fin) /\
      forall q, (q < length a)%nat -> p_nodef (port_at a q) = false -> live a st q = true ->
                restored_val (port_at a q) (val_at st q) (val_at fin q).
Proof.
  intros hp tid t apropos fuel F st ps a Hnames Htree Hwf Hsw Hdirs Haddr Hfull Hcmp Hstr Hdecl Hp Hr Hlines.
  unfold a in *. clear a.
  pose proof Hfull as (WF & _).
  apply roundtrip_pipeline_gen; try assumption.
  - apply walk_stage; try assumption; [exact (w_paths _ WF)|]. intros i Hi. apply (w_shape _ WF i Hi).
  - intros i Hi. destruct (Hcmp i Hi) as [Hu Hw]. apply (eq_stage F _ _ Hu Hw).
  - destruct (print_scan_lines _ Hlines) as (rds & Hl & _ & Hs). exists rds. split; assumption.
  - destruct (sort_stage (app_of_tree t) st apropos fuel WF Hdecl ps Hp Hr) as (s & Hs & Hperm & Hresp).
    exists s. split; [exact Hs|]. split; [exact Hperm|]. split; [exact Hresp|].
    intros fin Hfin.
    rewrite (dispatch_stage hp tid t st Hnames Htree Hwf Hfull Hcmp Hstr s).
    + apply real_apply_is_apply_all; [intros; reflexivity | exact Hfin].
    + intros l Hl. eapply Permutation_in; eassumption.
Qed.

(* the per-line premise is proved for the lines inside C10's fragment *)
Theorem saved_lines_read : forall a st,
  compress o = true ->
  (forall l, In l (save_lines a st) ->
     (goodc_line l /\ exists t w, print_message o (l_path l) (line_avs l) 0 = Some (t, w)) \/
     line_reads dec2f dec2d o l) ->
  Forall (line_reads dec2f dec2d o) (save_lines a st).
Proof.
  intros a st Hon H. apply Forall_forall. intros l Hl. destruct (H l Hl) as [[Hg (t & w & Hp)]|Hr]; [|exact Hr].
  exact (goodc_line_reads dec2f dec2d o l t w Hon Hg Hp).
Qed.

(* ---- stage 6: the per-line premise for the lines of EVERY parameter kind ------------------------
   good_line (Save/PrintLines.v): a scalar port's line carries one value - a 32-bit int, a char, a
   finite float (both zeroes), a boolean, a string or quoted symbol without NUL, a bare symbol; a
   "name#N" port's line carries one array of such elements of one type (C10's list-level conditions:
   no '.' in quoted text, +0.0 and -0.0 not both).  Excluded: NaN and the infinities (their text is
   not read back: nan / inf are not float literals of the scanner), arrays mixing types (an option
   array holding a number without symbol).  Savefiles are printed with the default options, which
   are lossless. *)
Theorem good_lines_read : forall ls,
  lossless o = true -> Forall good_line ls -> Forall (line_reads dec2f dec2d o) ls.
Proof.
  intros ls Hl H. eapply Forall_impl; [|exact H]. intros l Hg.
  exact (good_line_reads_total dec2f dec2d o l Hl Hg).
Qed.

Theorem roundtrip_tree_real_lines :
  forall hp tid t apropos fuel F st ps,
    let a := app_of_tree t in
    names_ok (sports_of t) = true -> tree_ok (to_tree hp tid (sports_of t)) -> Forall pt_wf t ->
    switches_ok t = true ->
    NoDup (map dir_addr (dirs_root t)) -> NoDup (app_addresses a) ->
    full_conditions a st -> comparable a st -> cstrings st ->
    declared a apropos ->
    pushes line apropos fuel (msgs (save_lines a st)) = Some ps -> ranked ps ->
    lossless o = true -> Forall good_line (save_lines a st) ->
    exists fin,
      real_load (option (list Z)) scan_text_real (fun _ l s => tree_apply_line hp tid t l s)
                (fun _ ls => sort_by_load_order apropos fuel ls) a
                (real_save (option (list Z)) (fun _ s => walk_tree t s) (av_eq_real F) (print_body o) a st)
                (initial a)
      = Some (Z.of_nat (length (save_lines a st)), fin) /\
      forall q, (q < length a)%nat -> p_nodef (port_at a q) = false -> live a st q = true ->
                restored_val (port_at a q) (val_at st q) (val_at fin q).
Proof.
  intros hp tid t apropos fuel F st ps a Hnames Htree Hwf Hsw Hdirs Haddr Hfull Hcmp Hstr Hdecl Hp Hr Hl Hlines.
  apply (roundtrip_tree_real hp tid t apropos fuel F st ps); try assumption.
  apply good_lines_read; assumption.
Qed.
End Real.

(* ---- non-vacuity: the tree of TreeStage.v, switch on and /s/x = 9 (the array at its default):
   the saved body is "/e true\n/s/x 9\n", both lines inside the fragment ----------------------- *)
Definition fx_state2 : state := [[SaveModel.VT true]; [SaveModel.VI 9]; [SaveModel.VI 1; SaveModel.VI 1; SaveModel.VI 1]; [SaveModel.VI 8]].

Lemma fx_full2 : full_conditions fx_tapp fx_state2.
Proof.
  destruct fx_full as (WF & _). split; [exact WF|]. split; [reflexivity|]. split.
  - intros i Hi. three i; reflexivity.
  - intros i x Hi Hx. change (saved fx_tapp fx_state2) with [0%nat; 1%nat] in Hi.
    destruct Hi as [Hi|[Hi|[]]]; subst i; simpl in Hx;
      repeat (destruct Hx as [Hx|Hx]; [subst x; reflexivity|]); contradiction.
Qed.

Theorem roundtrip_tree_real_nonvacuous : forall dec2f dec2d,
  let a := app_of_tree fx_tree in
  full_conditions a fx_state2 /\ comparable a fx_state2 /\ cstrings fx_state2 /\
  declared a apropos_fx /\
  (exists ps, pushes line apropos_fx 20 (msgs (save_lines a fx_state2)) = Some ps /\ ranked ps) /\
  (* the body save_to_file writes *)
  print_body opts_default (save_lines a fx_state2)
    = Some [47; 101; 32; 116; 114; 117; 101; 10;  47; 115; 47; 120; 32; 57; 10]%Z /\
  (* every saved line reads back, whatever follows it *)
  Forall (line_reads dec2f dec2d opts_default) (save_lines a fx_state2).
Proof.
  intros dec2f dec2d a. unfold a. rewrite fx_tapp_eq.
  split; [exact fx_full2|].
  split.
  { intros i Hi. three i; split; unfold value_comparable; repeat constructor. }
  split.
  { intros i x Hx. destruct i as [|[|[|[|i]]]]; simpl in Hx;
      repeat (destruct Hx as [Hx|Hx]; [subst x; exact I|]); try contradiction.
    unfold val_at in Hx. destruct i; simpl in Hx; contradiction. }
  split; [apply DeclProofs.declared_b_sound; vm_compute; reflexivity|].
  split.
  { exists [(0%nat, 1%nat)]. split; [vm_compute; reflexivity|].
    exists (fun n => n). intros d p [H|[]]. inversion H; subst. lia. }
  split; [vm_compute; reflexivity|].
  apply saved_lines_read; [reflexivity|]. intros l Hl. left.
  change (save_lines fx_tapp fx_state2)
    with [ {| l_path := [47; 101]%Z; l_array := false; l_vals := [SaveModel.VT true] |};
           {| l_path := [47; 115; 47; 120]%Z; l_array := false; l_vals := [SaveModel.VI 9] |} ] in Hl.
  destruct Hl as [<-|[<-|[]]]; (split; [|eexists; eexists; vm_compute; reflexivity]);
    unfold goodc_line; cbn [l_array l_path l_vals map av_of length];
    (split; [reflexivity|]); (split; [split; [eexists; reflexivity | repeat constructor]|]);
    (split; [repeat constructor; cbn; unfold small_k; cbn; lia | cbn; lia]).
Qed.

(* ---- stage 6 non-vacuity: the same tree with the array changed: /t holds [1 5 1], its line is the
   array line "/t [1 5]" (the suffix equal to the default is trimmed); and lines of the other kinds:
   a float, a bare option symbol, a float array with a constant run ------------------------------- *)
Theorem roundtrip_tree_real_lines_nonvacuous : forall dec2f dec2d,
  let a := app_of_tree fx_tree in
  full_conditions a fx_state /\
  print_body opts_default (save_lines a fx_state)
    = Some [47; 101; 32; 116; 114; 117; 101; 10;  47; 115; 47; 120; 32; 57; 10;
            47; 116; 32; 91; 49; 32; 53; 93; 10]%Z /\
  Forall good_line (save_lines a fx_state) /\
  Forall (line_reads dec2f dec2d opts_default) (save_lines a fx_state).
Proof.
  intros dec2f dec2d a. unfold a. rewrite fx_tapp_eq.
  split; [exact fx_full|]. split; [vm_compute; reflexivity|].
  assert (H : Forall good_line (save_lines fx_tapp fx_state)).
  { change (save_lines fx_tapp fx_state)
      with [ {| l_path := [47; 101]%Z; l_array := false; l_vals := [SaveModel.VT true] |};
             {| l_path := [47; 115; 47; 120]%Z; l_array := false; l_vals := [SaveModel.VI 9] |};
             {| l_path := [47; 116]%Z; l_array := true; l_vals := [SaveModel.VI 1; SaveModel.VI 5] |} ].
    repeat constructor; unfold good_line; cbn [l_array l_path l_vals];
      try (eexists; reflexivity); try (intros; discriminate); try (eexists; split; [reflexivity|]; cbn; lia);
      try discriminate; try (cbn; lia).
    - cbn. intuition discriminate.
    - cbn. intuition discriminate.
    - intros x y [<-|[<-|[]]] [<-|[<-|[]]]; reflexivity. }
  split; [exact H|]. apply good_lines_read; [reflexivity | exact H].
Qed.

Definition ex_float_line : line :=   (* /f 0.10 (0x1.99999ap-4) *)
  {| l_path := [47; 102]%Z; l_array := false; l_vals := [SaveModel.VF 1036831949] |}.
Definition ex_symbol_line : line :=  (* /o sine *)
  {| l_path := [47; 111]%Z; l_array := false; l_vals := [SaveModel.VSym [115; 105; 110; 101]%Z] |}.
Definition ex_dotted_line : line :=  (* /s "a...b" : dots are no obstacle on a one-value line *)
  {| l_path := [47; 115]%Z; l_array := false; l_vals := [SaveModel.VS [97; 46; 46; 46; 98]%Z] |}.
Definition ex_farray_line : line :=  (* /a [0.50 (0x1p-1) 5x-0.00 (-0x0p+0)] *)
  {| l_path := [47; 97]%Z; l_array := true;
     l_vals := SaveModel.VF 1056964608 :: repeat (SaveModel.VF 2147483648) 5 |}.

Theorem good_line_examples : forall dec2f dec2d,
  Forall good_line [ex_float_line; ex_symbol_line; ex_dotted_line; ex_farray_line] /\
  Forall (line_reads dec2f dec2d opts_default) [ex_float_line; ex_symbol_line; ex_dotted_line; ex_farray_line] /\
  print_body opts_default [ex_float_line; ex_symbol_line; ex_dotted_line; ex_farray_line] =
  Some ([47; 102; 32; 48; 46; 49; 48; 32; 40; 48; 120; 49; 46; 57; 57; 57; 57; 57; 97; 112; 45; 52; 41; 10] ++
        [47; 111; 32; 115; 105; 110; 101; 10] ++
        [47; 115; 32; 34; 97; 46; 46; 46; 98; 34; 10] ++
        [47; 97; 32; 91; 48; 46; 53; 48; 32; 40; 48; 120; 49; 112; 45; 49; 41; 32; 53; 120; 45; 48; 46; 48; 48; 32;
         40; 45; 48; 120; 48; 112; 43; 48; 41; 93; 10])%Z.
Proof.
  intros dec2f dec2d.
  assert (H : Forall good_line [ex_float_line; ex_symbol_line; ex_dotted_line; ex_farray_line]).
  { repeat constructor; unfold good_line; cbn [l_array l_path l_vals ex_float_line ex_symbol_line ex_dotted_line ex_farray_line];
      try (eexists; reflexivity); try (intros; discriminate); try discriminate.
    - eexists; split; [reflexivity|]. cbn. split; [lia | reflexivity].
    - eexists; split; [reflexivity|]. cbn. left. reflexivity.
    - eexists; split; [reflexivity|]. cbn. repeat constructor; lia.
    - cbn. intros H. repeat (destruct H as [H|H]; [inversion H|]). exact H.
    - cbn. intros H. repeat (destruct H as [H|H]; [inversion H|]). exact H.
    - intros x y Hx Hy. cbn in Hx, Hy.
      repeat (destruct Hx as [<-|Hx]; [|]); try contradiction;
      repeat (destruct Hy as [<-|Hy]; [|]); try contradiction; reflexivity. }
  split; [exact H|]. split; [apply good_lines_read; [reflexivity | exact H]|].
  vm_compute. reflexivity.
Qed.
