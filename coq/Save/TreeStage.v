(* C12 - the round trip through the pipeline with the dispatch stage instantiated by
   the port tree: loading = scan, sort (scan_deps + Kahn), then every line handed to
   Ports::dispatch on the tree (C04's model) whose leaf callbacks are the macros'
   (C14's model).  The premise "C04 + C14" of C12_roundtrip_pipeline_sorted_eq_partial
   is gone; in exchange the statement is about applications that ARE port trees
   ([app_of_tree t]) with names of the macro shape. *)
From Coq Require Import List ZArith Bool Lia Arith Permutation.
From RtoscV Require Import Ports.NameModel Ports.WalkModel Ports.DispatchModel Ports.TreeProofs
     Ports.WalkProofs Ports.DispatchWalk Ports.NamesModel.
From RtoscV Require Ports.SugarModel.
From RtoscV Require Import Save.TopoModel Save.TopoProofs Save.SaveModel Save.SaveProofs Save.RoundProofs Save.RoundFull
     Save.PermApp Save.SortStage Save.EqStage Save.TreeApp Save.DispatchStage.
Import ListNotations.

(* the strings of a state are C strings *)
Definition cstrings (st : state) : Prop :=
  forall i x, In x (val_at st i) -> match x with VS s => SM.nul_free s | _ => True end.

(* ---- two dispatchers that agree on the lines of a run ------------------------------------- *)
Lemma real_apply_ext : forall (d1 d2 : app -> line -> state -> option state) a (Inv : state -> Prop) ls s,
  Inv s ->
  (forall l s, In l ls -> Inv s -> d1 a l s = d2 a l s) ->
  (forall l s s', In l ls -> Inv s -> d2 a l s = Some s' -> Inv s') ->
  real_apply d1 a ls s = real_apply d2 a ls s.
Proof.
  intros d1 d2 a Inv ls. induction ls as [|l ls IH]; intros s Hs Heq Hinv; [reflexivity|].
  cbn [real_apply]. rewrite (Heq l s (or_introl eq_refl) Hs).
  destruct (d2 a l s) as [s'|] eqn:E; [|reflexivity].
  apply IH.
  - exact (Hinv l s s' (or_introl eq_refl) Hs E).
  - intros l' s0 Hl'. apply Heq. right. exact Hl'.
  - intros l' s0 s1 Hl'. apply Hinv. right. exact Hl'.
Qed.

Lemma real_load_ext : forall text scan_text (d1 d2 : app -> line -> state -> option state) sort a txt s0,
  (forall ls tot sorted, scan_items (scan_text txt) = (ls, tot, true) -> sort a ls = Some sorted ->
     real_apply d1 a sorted s0 = real_apply d2 a sorted s0) ->
  real_load text scan_text d1 sort a txt s0 = real_load text scan_text d2 sort a txt s0.
Proof.
  intros text scan_text d1 d2 sort a txt s0 H. unfold real_load.
  destruct (scan_items (scan_text txt)) as [[ls tot] [|]]; [|reflexivity].
  destruct (sort a ls) as [sorted|] eqn:Es; [|reflexivity].
  rewrite (H ls tot sorted eq_refl Es). reflexivity.
Qed.

(* ---- the lines save_lines produces are lines the ports accept --------------------------- *)
Lemma in_firstn : forall A m (l : list A) x, In x (firstn m l) -> In x l.
Proof. intros A m l x H. rewrite <- (firstn_skipn m l). apply in_or_app. left. exact H. Qed.

Lemma trim_incl : forall c d x, In x (trim c d) -> In x c.
Proof.
  intros c d x H. destruct (trim_spec c d (VI 0)) as (m & _ & E & _). rewrite E in H.
  eapply in_firstn. exact H.
Qed.

Lemma trim_length : forall c d, (length (trim c d) <= length c)%nat.
Proof.
  intros c d. destruct (trim_spec c d (VI 0)) as (m & Hm & E & _). rewrite E, firstn_length. lia.
Qed.

Lemma shown_arg_wf : forall p x,
  match x with VS s => SM.nul_free s | VF b => SM.nonan b | _ => True end -> arg_wf (shown p x).
Proof.
  intros p x H. unfold shown. destruct (p_kind p); destruct x; try exact H.
  destruct (sym_of (p_opts p) z); exact I.
Qed.

Section Tree.
  Variable hp : list sport -> list Z * list Z.
  Variable tid : list sport -> Z.
  Variable t : list pt.
  Local Notation A := (app_of_tree t).
  Variable st : state.

  Hypothesis Hnames : names_ok (sports_of t) = true.
  Hypothesis Htree : tree_ok (to_tree hp tid (sports_of t)).
  Hypothesis Hwf : Forall pt_wf t.
  Hypothesis Hfull : full_conditions A st.
  Hypothesis Hcmp : comparable A st.
  Hypothesis Hstr : cstrings st.

  (* C12_saved_lines_accepted *)
  Lemma saved_line_for : forall i, In i (saved A st) -> line_for t i (the_line A st i).
  Proof.
    intros i Hi. destruct Hfull as (WF & Hlen & Hshape & Hstable).
    pose proof Hi as Hi'. unfold saved in Hi'. apply filter_In in Hi'. destruct Hi' as [Hseq Hsv].
    apply in_seq in Hseq. assert (Hlt : (i < length A)%nat) by lia.
    unfold is_saved in Hsv. apply andb_true_iff in Hsv. destruct Hsv as [Hsv _].
    apply andb_true_iff in Hsv. destruct Hsv as [Hnd _]. apply negb_true_iff in Hnd.
    unfold line_for, the_line. cbn [l_path l_array l_vals].
    split; [exact Hlt|]. split; [reflexivity|]. split; [reflexivity|]. split; [exact Hnd|].
    assert (Hall : Forall (fun v => arg_wf v /\ store (port_at A i) v <> None) (map (shown (port_at A i)) (val_at st i))).
    { apply Forall_forall. intros v Hv. apply in_map_iff in Hv. destruct Hv as (x & <- & Hx). split.
      - apply shown_arg_wf. pose proof (Hstr i x Hx) as Hs.
        destruct (Hcmp i Hlt) as [Hc _]. unfold value_comparable in Hc. rewrite Forall_forall in Hc.
        specialize (Hc x Hx). destruct x; try exact I; [apply Hc | exact Hs].
      - rewrite (Hstable i x Hi Hx). discriminate. }
    destruct (p_array (port_at A i)).
    - split.
      + eapply Nat.le_trans; [apply trim_length|]. rewrite map_length, Hshape by assumption. lia.
      + apply Forall_forall. intros v Hv. rewrite Forall_forall in Hall. apply Hall.
        eapply trim_incl. exact Hv.
    - split; [rewrite map_length, Hshape by assumption; lia | exact Hall].
  Qed.

  (* the dispatch stage: on the lines of the saved file, in any order, starting from a
     default-initialised instance, handing the lines to the tree is apply_all *)
  Theorem dispatch_stage : forall ls,
    (forall l, In l ls -> In l (save_lines A st)) ->
    real_apply (fun _ l s => tree_apply_line hp tid t l s) A ls (initial A)
    = real_apply (fun a l s => apply_line a l s) A ls (initial A).
  Proof.
    intros ls Hin. destruct Hfull as (WF & _).
    apply (real_apply_ext _ _ A (shaped A)).
    - apply shaped_initial. exact WF.
    - intros l s Hl Hs. specialize (Hin l Hl). rewrite save_lines_saved in Hin.
      apply in_map_iff in Hin. destruct Hin as (i & <- & Hi).
      exact (dispatch_line hp tid t Hnames Htree Hwf WF i _ s (saved_line_for i Hi) Hs).
    - intros l s s' Hl Hs Happ. specialize (Hin l Hl). rewrite save_lines_saved in Hin.
      apply in_map_iff in Hin. destruct Hin as (i & <- & Hi).
      pose proof (saved_line_for i Hi) as (Hlt & Hp & Ha & _).
      (* apply_line keeps the shape: it is a sequence of set_elem *)
      unfold apply_line in Happ. rewrite Hp, (find_port_at A i (w_paths A WF) Hlt), Ha, Bool.eqb_reflx in Happ.
      destruct (p_array (port_at A i)).
      + revert Happ. generalize (l_vals (the_line A st i)). generalize 0%nat. intros k vs. revert k s Hs.
        induction vs as [|v r IH]; intros k s Hs Happ; cbn [apply_elems] in Happ.
        * inversion Happ; subst. exact Hs.
        * destruct (set_elem A s i k v) as [s1|] eqn:E; [|discriminate].
          apply (IH (S k) s1); [eapply shaped_set_elem; eassumption | exact Happ].
      + destruct (l_vals (the_line A st i)) as [|v [|w r]]; try discriminate.
        eapply shaped_set_elem; eassumption.
  Qed.
End Tree.

(* ---- the pipeline ------------------------------------------------------------------------- *)
(* what is still assumed of the other stages, for the application of the tree *)
Definition stage_hypotheses2 (text : Type) (walk : app -> state -> list nat)
           (print_lines : list line -> text) (scan_text : text -> list item) (a : app) (st : state) : Prop :=
  (* C09 *) walk a st = filter (live a st) (seq 0 (length a)) /\
  (* C10 *) (forall ls, exists rds, length rds = length ls /\ Forall (fun rd => (0 <= rd)%Z) rds /\
               scan_text (print_lines ls) = map (fun lr => Msg (fst lr) (snd lr)) (combine ls rds)).

Theorem roundtrip_pipeline_tree :
  forall text walk print_lines scan_text hp tid t apropos fuel F st ps,
    let a := app_of_tree t in
    names_ok (sports_of t) = true -> tree_ok (to_tree hp tid (sports_of t)) -> Forall pt_wf t ->
    stage_hypotheses2 text walk print_lines scan_text a st ->
    full_conditions a st -> comparable a st -> cstrings st ->
    declared a apropos ->
    pushes line apropos fuel (msgs (save_lines a st)) = Some ps -> ranked ps ->
    exists fin,
      real_load text scan_text (fun _ l s => tree_apply_line hp tid t l s)
                (fun _ ls => sort_by_load_order apropos fuel ls) a
                (real_save text walk (av_eq_real F) print_lines a st) (initial a)
      = Some (Z.of_nat (length (save_lines a st)), fin) /\
      forall q, (q < length a)%nat -> p_nodef (port_at a q) = false -> live a st q = true ->
                restored_val (port_at a q) (val_at st q) (val_at fin q).
Proof.
  intros text walk print_lines scan_text hp tid t apropos fuel F st ps a
         Hnames Htree Hwf (H9 & H10) Hfull Hcmp Hstr Hdecl Hp Hr.
  destruct (roundtrip_pipeline_sorted_eq text walk print_lines scan_text (fun a l s => apply_line a l s)
              apropos fuel F a st ps) as (fin & Hload & Hrest); try assumption.
  { repeat split; try assumption. }
  exists fin. split; [|exact Hrest]. rewrite <- Hload.
  apply real_load_ext. intros ls tot sorted Hscan Hsort.
  apply (dispatch_stage hp tid t st Hnames Htree Hwf Hfull Hcmp Hstr).
  (* the sorted lines are the saved lines *)
  assert (Hsave : real_save text walk (av_eq_real F) print_lines a st = print_lines (save_lines a st)).
  { apply real_save_lines_cmp; [exact H9|]. intros i Hi. destruct (Hcmp i Hi) as [Hu Hw].
    apply (eq_stage F _ _ Hu Hw). }
  rewrite Hsave in Hscan. destruct (H10 (save_lines a st)) as (rds & Hlen & _ & Hsc). rewrite Hsc in Hscan.
  destruct (scan_items_msgs (save_lines a st) rds Hlen) as [tot' Ht]. rewrite Ht in Hscan.
  inversion Hscan; subst ls tot'.
  destruct Hfull as (WF & _).
  destruct (sort_stage a st apropos fuel WF Hdecl ps Hp Hr) as (s' & Hs' & Hperm & _).
  rewrite Hs' in Hsort. inversion Hsort; subst s'.
  intros l Hl. eapply Permutation_in; eassumption.
Qed.

(* ---- tables served by the linear scan (perfect-hash search gave up): tree_ok for every tree *)
Lemma tables_nohash : forall tid l, tables_of (mk_table no_hash_search tid l) = None.
Proof.
  intros tid l. unfold tables_of.
  destruct (existsb _ _); [reflexivity|]. destruct (existsb _ _); [reflexivity|].
  cbn [mk_table t_ports t_pos no_hash_search fst]. destruct (map _ l); reflexivity.
Qed.

Lemma tree_ok_nohash : forall tid root, tree_ok (to_tree no_hash_search tid root).
Proof.
  intros tid root.
  assert (H : forall q : sport, match q with
                               | SPort _ _ _ (Some l) => tree_ok (to_tree no_hash_search tid l)
                               | _ => True
                               end).
  { induction q as [sg a m s IHs] using sport_ind2. destruct s as [l|]; [|exact I].
    unfold to_tree. constructor.
    - intros n name sub En. cbn [mk_table t_ports] in En. rewrite nth_error_map in En.
      rewrite nth_error_map. destruct (nth_error l n) as [q|]; [|discriminate]. cbn [option_map] in *.
      inversion En; subst. destruct q as [sg' a' m' [l'|]]; cbn [is_sub to_tree_port]; split.
      + intros _. eexists. reflexivity.
      + reflexivity.
      + discriminate.
      + intros [s Hs]. discriminate.
    - left. apply tables_nohash.
    - intros n s En. rewrite nth_error_map in En. destruct (nth_error l n) as [q|] eqn:Eq; [|discriminate].
      cbn [option_map] in En. rewrite Forall_forall in IHs. pose proof (IHs q (nth_error_In _ _ Eq)) as Hq.
      destruct q as [sg' a' m' [l'|]]; [|discriminate]. rewrite to_tree_port_sub in En. inversion En; subst. exact Hq. }
  exact (H (SPort [] [] None (Some root))).
Qed.

(* ---- non-vacuity: { e::T:F, s/ -> { x::i } (exists while e is on), t#3::i } ------------------ *)
From RtoscV Require Import Save.DeclModel Save.DeclProofs.
Local Open Scope Z_scope.

Definition ld (k : skind) (d : value) : leafdata :=
  {| ld_kind := k; ld_min := None; ld_max := None; ld_opts := []; ld_default := d; ld_sel := None;
     ld_table := []; ld_nodef := false; ld_init := [] |}.
Definition fx_tree : list pt :=
  [ PLeaf [101] None (ld KT [VT false]);                                     (* rToggle(e)            *)
    PSub [115] None (Some [101]) None [ PLeaf [120] None (ld KI [VI 3]) ];   (* rRecurp(s) -> rParamI(x) *)
    PLeaf [116] (Some 3%nat) (ld KB [VI 1; VI 1; VI 1]);                     (* rArrayI(t, 3)         *)
    PLeaf [110] None {| ld_kind := KI; ld_min := None; ld_max := None; ld_opts := []; ld_default := [];
                        ld_sel := None; ld_table := []; ld_nodef := true; ld_init := [VI 7] |} ].
                                                                             (* rParamI(n) without rDefault *)
Definition fx_tapp : app :=
  [mkp [47; 101] KT false 1 [VT false] [];
   mkp [47; 115; 47; 120] KI false 1 [VI 3] [0%nat];
   mkp [47; 116] KB true 3 [VI 1; VI 1; VI 1] [];
   mkp_nodef [47; 110] KI [VI 7]].
(* the metadata lookup: "s/" is enabled by "e" *)
Definition apropos_fx (p : str) : option pmeta :=
  if str_eqb p [47; 115; 47]
  then Some {| enabled_by := Some [101]; depends := None; default_depends := None; port_name := [115; 47] |}
  else None.

Lemma fx_tapp_eq : app_of_tree fx_tree = fx_tapp.
Proof. vm_compute. reflexivity. Qed.

Lemma fx_full : full_conditions fx_tapp fx_state.
Proof.
  split; [|split; [reflexivity|split]].
  - constructor.
    + simpl. repeat constructor; simpl; intuition discriminate.
    + intros i s Hi Hs. three i; simpl in Hs; discriminate.
    + intros q s Hq Hs. three q; simpl in Hs; discriminate.
    + intros q g Hq Hg. three q; simpl in Hg; try contradiction.
      destruct Hg as [Hg|[]]. subst g. simpl. repeat split; try lia; try reflexivity;
        try (intros x []); intros [].
    + intros i Hi. three i; simpl; (split; [lia|]); (split; [try reflexivity; discriminate|]);
        (split; [intros Hnd; try discriminate Hnd; intros selv; unfold default_with; simpl;
                 destruct selv as [v|]; try reflexivity; destruct (sel_key v); reflexivity
                |intros Hnd; try discriminate Hnd; split; reflexivity]).
  - intros i Hi. three i; reflexivity.
  - intros i x Hi Hx. change (saved fx_tapp fx_state) with [0%nat; 1%nat; 2%nat] in Hi.
    destruct Hi as [Hi|[Hi|[Hi|[]]]]; subst i; simpl in Hx;
      repeat (destruct Hx as [Hx|Hx]; [subst x; reflexivity|]); contradiction.
Qed.

Theorem pipeline_tree_nonvacuous :
  let a := app_of_tree fx_tree in
  (* the hypotheses of roundtrip_pipeline_tree *)
  names_ok (sports_of fx_tree) = true /\
  tree_ok (to_tree no_hash_search one_id (sports_of fx_tree)) /\ Forall pt_wf fx_tree /\
  full_conditions a fx_state /\ comparable a fx_state /\ cstrings fx_state /\
  declared a apropos_fx /\
  (exists ps, pushes line apropos_fx 20 (msgs (save_lines a fx_state)) = Some ps /\ ranked ps) /\
  (* the lines of the saved file handed to the tree: switch first restores the state ... *)
  real_apply (fun _ l s => tree_apply_line no_hash_search one_id fx_tree l s) a
             (map (the_line a fx_state) [0; 2; 1]%nat) (initial a) = (fx_loaded, true) /\
  (* ... the line below the pointer sub-tree in front of its switch reaches no port *)
  tree_apply_line no_hash_search one_id fx_tree (the_line a fx_state 1) (initial a) = None.
Proof.
  intros a. unfold a. rewrite fx_tapp_eq.
  split; [vm_compute; reflexivity|]. split; [apply tree_ok_nohash|].
  split; [repeat constructor|]. split; [exact fx_full|].
  split.
  { intros i Hi. three i; split; unfold value_comparable; repeat constructor. }
  split.
  { intros i x Hx. destruct i as [|[|[|[|i]]]]; simpl in Hx;
      repeat (destruct Hx as [Hx|Hx]; [subst x; exact I|]); try contradiction.
    unfold val_at in Hx. destruct i; simpl in Hx; contradiction. }
  split; [apply declared_b_sound; vm_compute; reflexivity|].
  split.
  { exists [(0%nat, 1%nat)]. split; [vm_compute; reflexivity|].
    exists (fun n => n). intros d p [H|[]]. inversion H; subst. lia. }
  rewrite <- fx_tapp_eq. split; vm_compute; reflexivity.
Qed.
