(* C12 - the value-equality stage of the round-trip pipeline instantiated with
   the model of rtosc_arg_vals_eq (ArgVal/AvModel.vals_eq) and its theorem
   C16_eq_is_key_equality (AvCmpProofs.vals_eq_spec): the hypothesis "C16"
   disappears from C12_roundtrip's premises.  What it asks instead is what the
   C16 theorem asks: no NaN among the compared values (C's == is no equality
   on NaN) - [comparable a st]. *)
From Coq Require Import List ZArith Bool Lia Permutation Arith.
From RtoscV Require Ports.SugarModel.
From RtoscV Require ArgVal.AvModel ArgVal.AvSpec ArgVal.AvCmpProofs.
From RtoscV Require Import Save.TopoModel Save.KahnProofs Save.TopoProofs Save.TopoEdges Save.TopoPerm
                           Save.SaveModel Save.SaveProofs Save.RoundProofs Save.RoundFull
                           Save.CommuteProofs Save.PermApp Save.SortStage.
Import ListNotations.

Module AV := AvModel.
Module AS := AvSpec.

(* ---- a stored / shown value as rtosc_arg_val_t slots ---------------------------------- *)
(* tags: 'i' 105, 'c' 99, 'f' 102, 'T' 84, 'F' 70, 's' 115, 'S' 83 *)
Definition enc_scalar (x : scalar) : AV.slot :=
  match x with
  | VI z => AV.SV 105 (AV.VI z)
  | VC z => AV.SV 99 (AV.VI z)
  | VF b => AV.SV 102 (AV.VF b)
  | VT true => AV.SV 84 AV.VNone
  | VT false => AV.SV 70 AV.VNone
  | VS s => AV.SV 115 (AV.VS (Some s))
  | VSym s => AV.SV 83 (AV.VS (Some s))
  end.
Definition enc_value (v : value) : list AV.slot := map enc_scalar v.

(* the written-out values the slots stand for (Spec side of C16) *)
Definition val_scalar (x : scalar) : AV.value :=
  match enc_scalar x with AV.SV t sv => AV.Val t sv | _ => AV.Val 78 AV.VNone end.
Definition val_value (v : value) : list AV.value := map val_scalar v.

(* rtosc_arg_vals_eq(lhs, rhs, lsize, rsize, NULL) on the two slot lists *)
Definition av_eq_real (F : AV.fops) (u w : value) : bool :=
  match AV.vals_eq F (enc_value u) (enc_value w) (Zlength (enc_value u)) (Zlength (enc_value w)) with
  | Some b => b
  | None => false        (* the comparison ran out of the buffers: excluded below *)
  end.

(* no NaN, bit patterns of a 32-bit float *)
Definition scalar_comparable (x : scalar) : Prop :=
  match x with VF b => (0 <= b < 2^32)%Z /\ SugarModel.f_is_nan b = false | _ => True end.
Definition value_comparable (v : value) : Prop := Forall scalar_comparable v.

Lemma denote_enc : forall F v, AS.denote F (enc_value v) (val_value v).
Proof.
  intros F. induction v as [|x v IH]; simpl; [constructor|].
  change (enc_scalar x :: enc_value v) with ([enc_scalar x] ++ enc_value v).
  apply AS.D_elem; [|exact IH].
  unfold val_scalar. destruct x as [z|z|b|[|]|s|s]; simpl; constructor; constructor.
Qed.

Lemma nan_same : forall b, (0 <= b < 2^32)%Z -> AV.isnan32 b = SugarModel.f_is_nan b.
Proof.
  intros b Hb. unfold AV.isnan32, SugarModel.f_is_nan.
  change (2^31)%Z with 2147483648%Z.
  rewrite Z.gtb_ltb. reflexivity.
Qed.

Lemma nonan_enc : forall v, value_comparable v -> AvCmpProofs.all_nonan (val_value v).
Proof.
  unfold AvCmpProofs.all_nonan. induction v as [|x v IH]; intros H; simpl; [reflexivity|].
  inversion H as [|? ? Hx Hv]; subst. rewrite (IH Hv), andb_true_r.
  destruct x as [z|z|b|[|]|s|s]; simpl; try reflexivity.
  destruct Hx as [Hr Hn]. rewrite (nan_same b Hr), Hn. reflexivity.
Qed.

Lemma lexZ_eq : forall l r, AS.lex Z.compare l r = Eq <-> l = r.
Proof.
  induction l as [|x l IH]; intros [|y r]; simpl; split; intro H; try reflexivity; try discriminate.
  - destruct (Z.compare x y) eqn:E; try discriminate. apply Z.compare_eq in E. subst y.
    f_equal. apply IH. assumption.
  - inversion H; subst. rewrite Z.compare_refl. apply IH. reflexivity.
Qed.

Lemma fkey_same : forall b, AV.fkey32 b = SugarModel.fkey b.
Proof. intros b. unfold AV.fkey32, SugarModel.fkey. change (2^31)%Z with 2147483648%Z. reflexivity. Qed.

(* two leaves compare equal exactly when rtosc_arg_vals_eq's C comparison says so *)
Lemma leaf_eq : forall x y, scalar_comparable x -> scalar_comparable y ->
  AS.is_eq (AS.cmpa (AS.abs (val_scalar x)) (AS.abs (val_scalar y))) = same_scalar x y.
Proof.
  intros x y Hx Hy.
  assert (K : forall h h', AS.is_eq (AS.cmpa (AS.Node h []) (AS.Node h' [])) =
                           AS.is_eq (AS.lex Z.compare h h')).
  { intros h h'. simpl. destruct (AS.lex Z.compare h h'); reflexivity. }
  assert (D : forall h h' (b : bool), (h = h' <-> b = true) ->
                AS.is_eq (AS.lex Z.compare h h') = b).
  { intros h h' b Hb. destruct (AS.lex Z.compare h h') eqn:E; simpl.
    - apply lexZ_eq in E. symmetry. apply Hb. assumption.
    - destruct b; [|reflexivity]. destruct Hb as [_ Hb]. rewrite (Hb eq_refl) in E.
      assert (E' : AS.lex Z.compare h' h' = Eq) by (apply lexZ_eq; reflexivity). congruence.
    - destruct b; [|reflexivity]. destruct Hb as [_ Hb]. rewrite (Hb eq_refl) in E.
      assert (E' : AS.lex Z.compare h' h' = Eq) by (apply lexZ_eq; reflexivity). congruence. }
  destruct x as [a|a|a|[|]|a|a]; destruct y as [b|b|b|[|]|b|b];
    unfold val_scalar, enc_scalar, AS.abs; rewrite K; apply D; unfold AS.skey, same_scalar, scalar_eqb;
    try (split; intro H; discriminate H);
    try (split; intro H; [reflexivity | reflexivity]).
  - split; intro H; [inversion H; apply Z.eqb_refl | apply Z.eqb_eq in H; subst; reflexivity].
  - split; intro H; [inversion H; apply Z.eqb_refl | apply Z.eqb_eq in H; subst; reflexivity].
  - (* floats: == on the bit patterns *)
    destruct Hx as [_ Na], Hy as [_ Nb]. unfold SugarModel.fneqb. rewrite Na, Nb. simpl.
    rewrite negb_involutive, !fkey_same.
    split; intro H; [inversion H as [H1]; rewrite H1; apply Z.eqb_refl | apply Z.eqb_eq in H; rewrite H; reflexivity].
  - split; intro H; [inversion H; apply streqb_true; reflexivity | apply streqb_true in H; subst; reflexivity].
  - split; intro H; [inversion H; apply streqb_true; reflexivity | apply streqb_true in H; subst; reflexivity].
Qed.

Lemma values_eq : forall u w, value_comparable u -> value_comparable w ->
  AS.is_eq (AS.cmp_values (val_value u) (val_value w)) = same_value u w.
Proof.
  unfold AS.cmp_values.
  induction u as [|x u IH]; intros [|y w] Hu Hw; simpl; try reflexivity.
  inversion Hu as [|? ? Hx Hu']; inversion Hw as [|? ? Hy Hw']; subst.
  rewrite <- (leaf_eq x y Hx Hy), <- (IH w Hu' Hw').
  destruct (AS.cmpa (AS.abs (val_scalar x)) (AS.abs (val_scalar y))); reflexivity.
Qed.

(* the stage: the model of rtosc_arg_vals_eq on the encoded values is same_value
   (by C16_eq_is_key_equality) *)
Theorem eq_stage : forall F u w, value_comparable u -> value_comparable w ->
  AV.vals_eq F (enc_value u) (enc_value w) (Zlength (enc_value u)) (Zlength (enc_value w))
    = Some (same_value u w) /\
  av_eq_real F u w = same_value u w.
Proof.
  intros F u w Hu Hw.
  assert (E := AvCmpProofs.vals_eq_spec F (enc_value u) (enc_value w) (val_value u) (val_value w)
                 (denote_enc F u) (denote_enc F w) (nonan_enc u Hu) (nonan_enc w Hw)).
  rewrite (values_eq u w Hu Hw) in E. split; [exact E|]. unfold av_eq_real. rewrite E. reflexivity.
Qed.

(* ---- the round trip with the sort and the equality stages instantiated --------------------- *)
(* what the equality stage needs of the application and the state *)
Definition comparable (a : app) (st : state) : Prop :=
  forall i, (i < length a)%nat ->
    value_comparable (val_at st i) /\ value_comparable (default_of a st i).

Lemma real_save_lines_cmp : forall text walk (av_eq : value -> value -> bool) print_lines a st,
  walk a st = filter (live a st) (seq 0 (length a)) ->
  (forall i, (i < length a)%nat -> av_eq (val_at st i) (default_of a st i)
                                   = same_value (val_at st i) (default_of a st i)) ->
  real_save text walk av_eq print_lines a st = print_lines (save_lines a st).
Proof.
  intros text walk av_eq print_lines a st H9 H16.
  unfold real_save. f_equal. rewrite H9. unfold save_lines.
  assert (Hin : forall i, In i (seq 0 (length a)) -> (i < length a)%nat) by (intros i Hi; apply in_seq in Hi; lia).
  revert Hin. generalize (seq 0 (length a)).
  induction l as [|i l IH]; intros Hin; simpl; [reflexivity|].
  unfold line_of at 1.
  destruct (live a st i) eqn:El; simpl.
  - rewrite IH by (intros k Hk; apply Hin; right; assumption).
    rewrite H16 by (apply Hin; left; reflexivity).
    destruct (p_nodef (port_at a i)); simpl; [reflexivity|].
    destruct (same_value (val_at st i) (default_of a st i)); reflexivity.
  - rewrite IH by (intros k Hk; apply Hin; right; assumption). rewrite andb_false_r. reflexivity.
Qed.

Definition stage_hypotheses3 (text : Type) (walk : app -> state -> list nat)
           (print_lines : list line -> text)
           (scan_text : text -> list item) (dispatch : app -> line -> state -> option state)
           (a : app) (st : state) : Prop :=
  (* C09 *) walk a st = filter (live a st) (seq 0 (length a)) /\
  (* C10 *) (forall ls, exists rds, length rds = length ls /\ Forall (fun rd => (0 <= rd)%Z) rds /\
               scan_text (print_lines ls) = map (fun lr => Msg (fst lr) (snd lr)) (combine ls rds)) /\
  (* C04 + C14 *) (forall l s, dispatch a l s = apply_line a l s).

Theorem roundtrip_pipeline_sorted_eq :
  forall text walk print_lines scan_text dispatch apropos fuel F a st ps,
    stage_hypotheses3 text walk print_lines scan_text dispatch a st ->
    full_conditions a st ->
    comparable a st ->
    declared a apropos ->
    pushes line apropos fuel (msgs (save_lines a st)) = Some ps -> ranked ps ->
    exists fin,
      real_load text scan_text dispatch (fun _ ls => sort_by_load_order apropos fuel ls) a
                (real_save text walk (av_eq_real F) print_lines a st) (initial a)
      = Some (Z.of_nat (length (save_lines a st)), fin) /\
      forall q, (q < length a)%nat -> p_nodef (port_at a q) = false -> live a st q = true ->
                restored_val (port_at a q) (val_at st q) (val_at fin q).
Proof.
  intros text walk print_lines scan_text dispatch apropos fuel F a st ps
         (H9 & H10 & H4) Hfull Hcmp Hdecl Hp Hr.
  (* the real comparison can be replaced by same_value on the compared pairs *)
  assert (Hsave : real_save text walk (av_eq_real F) print_lines a st
                  = real_save text walk same_value print_lines a st).
  { rewrite (real_save_lines_cmp text walk (av_eq_real F) print_lines a st H9).
    - symmetry. apply real_save_lines_cmp; [assumption | reflexivity].
    - intros i Hi. destruct (Hcmp i Hi) as [Hu Hw]. apply (eq_stage F _ _ Hu Hw). }
  rewrite Hsave.
  apply (roundtrip_pipeline_sorted text walk same_value print_lines scan_text dispatch apropos fuel a st ps);
    try assumption.
  repeat split; try assumption.
Qed.

(* non-vacuity: the state of RoundFull's example is comparable, and the real
   comparison tells the saved ports from the untouched ones *)
Ltac cmpb := repeat (first [apply Forall_nil | apply Forall_cons]); simpl;
             try exact I; try (split; [lia | vm_compute; reflexivity]).

Theorem eq_stage_nonvacuous :
  comparable fx_app fx_state /\
  forall F, av_eq_real F [VF 1065353216; VI 3] [VF 1065353216; VI 3] = true /\
            av_eq_real F [VF 0] [VF 2147483648] = true /\          (* 0.0 == -0.0 *)
            av_eq_real F [VI 1; VI 5; VI 1] [VI 1; VI 5; VI 2] = false.
Proof.
  split.
  - intros i Hi. destruct i as [|[|[|[|k]]]]; simpl in Hi; try lia; split;
      unfold value_comparable; cbn; cmpb.
  - intros F.
    assert (C1 : value_comparable [VF 1065353216; VI 3]) by (unfold value_comparable; cmpb).
    assert (C2 : value_comparable [VF 0]) by (unfold value_comparable; cmpb).
    assert (C3 : value_comparable [VF 2147483648]) by (unfold value_comparable; cmpb).
    assert (C4 : forall z, value_comparable [VI 1; VI 5; VI z]) by (intros; unfold value_comparable; cmpb).
    rewrite (proj2 (eq_stage F _ _ C1 C1)), (proj2 (eq_stage F _ _ C2 C3)), (proj2 (eq_stage F _ _ (C4 1%Z) (C4 2%Z))).
    repeat split; reflexivity.
Qed.

(* ---- the 'a'-header form ------------------------------------------------------------------
   For a "name#N" port get_changed_values compares two ARRAYS: slot 0 is the header
   (type 'a', element type, length), the elements follow (savefile.cpp: the runtime
   side takes the type of its first element, the default side what the scanner wrote).
   C16's theorem covers the Arr node: two arrays are equal iff their element types are
   of one class (booleans T/F form one) and the elements are equal one by one - the same
   answer as the element-sequence form above. *)
Definition enc_array (h : Z) (v : value) : list AV.slot :=
  AV.SArr h (Zlength (enc_value v)) :: enc_value v.

Definition av_eq_array (F : AV.fops) (hu hw : Z) (u w : value) : bool :=
  match AV.vals_eq F (enc_array hu u) (enc_array hw w)
                   (Zlength (enc_array hu u)) (Zlength (enc_array hw w)) with
  | Some b => b
  | None => false
  end.

Lemma denote_enc_array : forall F h v, AS.denote F (enc_array h v) [AV.Arr h (val_value v)].
Proof.
  intros F h v. unfold enc_array.
  rewrite <- (app_nil_r (AV.SArr h (Zlength (enc_value v)) :: enc_value v)).
  apply AS.D_elem; [|constructor]. apply AS.DE_arr. apply denote_enc.
Qed.

Lemma cmpa_children : forall l r,
  (fix go (l r : list AS.aval) {struct l} : comparison :=
     match l, r with
     | [], [] => Eq
     | [], _ :: _ => Lt
     | _ :: _, [] => Gt
     | a :: l', b :: r' => match AS.cmpa a b with Eq => go l' r' | o => o end
     end) l r = AS.lex AS.cmpa l r.
Proof. induction l as [|x l IH]; intros [|y r]; simpl; try reflexivity. rewrite IH. reflexivity. Qed.

Theorem eq_stage_array : forall F hu hw u w, value_comparable u -> value_comparable w ->
  AV.vals_eq F (enc_array hu u) (enc_array hw w) (Zlength (enc_array hu u)) (Zlength (enc_array hw w))
    = Some ((AV.arr_class hu =? AV.arr_class hw)%Z && same_value u w) /\
  av_eq_array F hu hw u w = ((AV.arr_class hu =? AV.arr_class hw)%Z && same_value u w).
Proof.
  intros F hu hw u w Hu Hw.
  assert (Na : forall h v, value_comparable v -> AvCmpProofs.all_nonan [AV.Arr h (val_value v)]).
  { intros h v Hv. unfold AvCmpProofs.all_nonan. simpl. rewrite andb_true_r. exact (nonan_enc v Hv). }
  assert (E := AvCmpProofs.vals_eq_spec F (enc_array hu u) (enc_array hw w) _ _
                 (denote_enc_array F hu u) (denote_enc_array F hw w) (Na hu u Hu) (Na hw w Hw)).
  assert (V : AS.is_eq (AS.cmp_values [AV.Arr hu (val_value u)] [AV.Arr hw (val_value w)])
              = ((AV.arr_class hu =? AV.arr_class hw)%Z && same_value u w)).
  { unfold AS.cmp_values. cbn [map AS.abs AS.lex AS.cmpa]. rewrite Z.compare_refl.
    destruct (Z.compare (AV.arr_class hu) (AV.arr_class hw)) eqn:Ec.
    - apply Z.compare_eq in Ec. rewrite Ec, Z.eqb_refl. cbn [andb].
      rewrite cmpa_children. rewrite <- (values_eq u w Hu Hw). unfold AS.cmp_values.
      destruct (AS.lex AS.cmpa (map AS.abs (val_value u)) (map AS.abs (val_value w))); reflexivity.
    - replace (AV.arr_class hu =? AV.arr_class hw)%Z with false; [reflexivity|].
      symmetry. apply Z.eqb_neq. intro Hc. rewrite Hc, Z.compare_refl in Ec. discriminate.
    - replace (AV.arr_class hu =? AV.arr_class hw)%Z with false; [reflexivity|].
      symmetry. apply Z.eqb_neq. intro Hc. rewrite Hc, Z.compare_refl in Ec. discriminate. }
  rewrite V in E. split; [exact E|]. unfold av_eq_array. rewrite E. reflexivity.
Qed.

(* with element types of one class the header form and the element-sequence form agree *)
Corollary eq_stage_array_same : forall F hu hw u w,
  AV.arr_class hu = AV.arr_class hw -> value_comparable u -> value_comparable w ->
  av_eq_array F hu hw u w = av_eq_real F u w.
Proof.
  intros F hu hw u w Hc Hu Hw.
  rewrite (proj2 (eq_stage_array F hu hw u w Hu Hw)), (proj2 (eq_stage F u w Hu Hw)), Hc, Z.eqb_refl.
  reflexivity.
Qed.

Theorem eq_stage_array_nonvacuous : forall F,
  (* [1 5 1] against the default [1 1 1], both 'i' arrays *)
  av_eq_array F 105 105 [VI 1; VI 5; VI 1] [VI 1; VI 1; VI 1] = false /\
  av_eq_array F 105 105 [VI 1; VI 5; VI 1] [VI 1; VI 5; VI 1] = true /\
  (* booleans: header 'T' (first element true) against header 'F' *)
  av_eq_array F 84 70 [VT true; VT false] [VT true; VT false] = true /\
  (* an 'i' array is never equal to an 'f' array *)
  av_eq_array F 105 102 [] [] = false.
Proof.
  intros F.
  assert (C : forall v, Forall (fun x => match x with VF _ => False | _ => True end) v -> value_comparable v).
  { intros v H. unfold value_comparable. eapply Forall_impl; [|exact H]. intros x Hx. destruct x; try exact I. contradiction. }
  repeat split;
    match goal with |- av_eq_array _ ?h ?h' ?u ?w = _ =>
      rewrite (proj2 (eq_stage_array F h h' u w (C u ltac:(repeat constructor)) (C w ltac:(repeat constructor))));
      vm_compute; reflexivity
    end.
Qed.
