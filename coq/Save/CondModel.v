(* C12 / C13 - the side conditions of the round-trip and permutation theorems in decidable
   form: wf_app_b (RoundFull.wf_app), full_conditions_b (RoundFull.full_conditions), ranked_b
   (TopoModel.ranked: the dependency edges of a file are acyclic).  No proofs in this file;
   it is extracted and evaluated by the tie on every generated case.  Soundness
   (b = true -> the condition): Save/CondProofs.v. *)
From Coq Require Import List ZArith Bool Arith.
From RtoscV Require Import Save.TopoModel Save.SaveModel.
Import ListNotations.

Definition all_idx (n : nat) (f : nat -> bool) : bool := forallb f (seq 0 n).
Definition is_none {A} (o : option A) : bool := match o with None => true | Some _ => false end.

Fixpoint nodup_b (l : list str) : bool :=
  match l with
  | [] => true
  | x :: r => negb (existsb (str_eqb x) r) && nodup_b r
  end.

Fixpoint natlist_eqb (a b : list nat) : bool :=
  match a, b with
  | [], [] => true
  | x :: a', y :: b' => Nat.eqb x y && natlist_eqb a' b'
  | _, _ => false
  end.
Definition incl_b (l1 l2 : list nat) : bool := forallb (fun x => mem_nat x l2) l1.

Definition sel_plain_b (a : app) : bool :=
  all_idx (length a) (fun i =>
    match p_sel (port_at a i) with
    | None => true
    | Some s => (s <? length a)%nat && is_none (p_sel (port_at a s)) && negb (p_nodef (port_at a s))
    end).

Definition beside_b (a : app) : bool :=
  all_idx (length a) (fun q =>
    match p_sel (port_at a q) with
    | None => true
    | Some s => natlist_eqb (p_soft (port_at a s)) (p_soft (port_at a q)) &&
                natlist_eqb (p_hard (port_at a s)) (p_hard (port_at a q)) &&
                negb (p_array (port_at a s))
    end).

Definition guard_b (a : app) : bool :=
  all_idx (length a) (fun q =>
    forallb (fun g =>
      (g <? length a)%nat && is_none (p_sel (port_at a g)) && negb (p_nodef (port_at a g)) &&
      negb (p_array (port_at a g)) && incl_b (p_hard (port_at a g)) (p_hard (port_at a q)) &&
      incl_b (p_soft (port_at a g)) (p_soft (port_at a q)) && negb (mem_nat g (p_hard (port_at a g))))
      (p_hard (port_at a q))).

Definition shape_b (a : app) : bool :=
  all_idx (length a) (fun i =>
    let p := port_at a i in
    (0 <? p_len p)%nat && (p_array p || Nat.eqb (p_len p) 1) &&
    (if p_nodef p then Nat.eqb (length (p_init p)) (p_len p) && is_none (p_sel p)
     else Nat.eqb (length (p_default p)) (p_len p) &&
          forallb (fun kv => Nat.eqb (length (snd kv)) (p_len p)) (p_table p))).

Definition wf_app_b (a : app) : bool :=
  nodup_b (map p_path a) && sel_plain_b a && beside_b a && guard_b a && shape_b a.

(* RoundProofs.saved: the ports that get a line *)
Definition saved_idx (a : app) (st : state) : list nat :=
  filter (fun i => negb (p_nodef (port_at a i)) && live a st i && negb (same_value (val_at st i) (default_of a st i)))
         (seq 0 (length a)).

Definition stable_b (a : app) (st : state) : bool :=
  forallb (fun i =>
    forallb (fun x => match store (port_at a i) (shown (port_at a i) x) with
                      | Some y => scalar_eqb y x
                      | None => false
                      end) (val_at st i)) (saved_idx a st).

(* ReachProofs.elem_stable / defaults_stable / msg_ok *)
Definition elem_stable_b (p : port) (x : scalar) : bool :=
  match store p (shown p x) with Some y => scalar_eqb y x | None => false end.
Definition defaults_stable_b (a : app) : bool :=
  all_idx (length a) (fun i =>
    let p := port_at a i in
    p_nodef p || (forallb (elem_stable_b p) (p_default p) &&
                  forallb (fun kv => forallb (elem_stable_b p) (snd kv)) (p_table p))).
Definition msg_ok_b (p : port) (v : scalar) : bool :=
  match store p v with Some v' => elem_stable_b p v' | None => true end.

Definition full_conditions_b (a : app) (st : state) : bool :=
  wf_app_b a && Nat.eqb (length st) (length a) &&
  all_idx (length a) (fun i => Nat.eqb (length (val_at st i)) (p_len (port_at a i))) &&
  stable_b a st.

(* a ranking of the edges by relaxation: rank p > rank d for every edge (d, p) that was
   looked at; |ps| + 1 rounds reach a fixed point when the edges are acyclic.  ranked_b
   CHECKS the result, so it is sound whatever the rounds computed. *)
Definition relax (ps : list (nat * nat)) (r : nat -> nat) : nat -> nat :=
  fold_left (fun r e => if (r (fst e) <? r (snd e))%nat then r
                        else fun x => if Nat.eqb x (snd e) then S (r (fst e)) else r x) ps r.
Fixpoint relax_n (k : nat) (ps : list (nat * nat)) (r : nat -> nat) : nat -> nat :=
  match k with O => r | S k' => relax_n k' ps (relax ps r) end.
Definition ranking (ps : list (nat * nat)) : nat -> nat := relax_n (S (length ps)) ps (fun _ => O).
Definition ranked_b (ps : list (nat * nat)) : bool :=
  let r := ranking ps in forallb (fun e => (r (fst e) <? r (snd e))%nat) ps.
