(* C12 - the text of a savefile body and the loader's first loop over it: definitions
   (no proofs in this file; it is extracted for the tie).  A saved line as the printer's
   input, the body = every line printed by rtosc_print_message's model + a line feed,
   scan_body = the first loop of dispatch_printed_messages with C10's recognisers, and
   the decidable class of lines for which Save/PrintLines.v proves that they read back. *)
From Coq Require Import List ZArith Bool.
From RtoscV Require Import Pretty.Tok Pretty.FloatFmt Pretty.PrintModel Pretty.ScanModel.
From RtoscV Require Import Save.TopoModel Save.SaveModel.
Import ListNotations.
Local Open Scope Z_scope.

(* ---- a line as the printer's input ------------------------------------------------------ *)
Definition av_of (x : scalar) : av :=
  match x with
  | SaveModel.VI z => Tok.VI z | SaveModel.VC z => Tok.VC z | SaveModel.VF b => Tok.VFl b
  | SaveModel.VT true => Tok.VT | SaveModel.VT false => Tok.VF
  | SaveModel.VS s => Tok.VS s | SaveModel.VSym s => Tok.VSym s
  end.
Definition scalar_of (v : av) : option scalar :=
  match v with
  | Tok.VI z => Some (SaveModel.VI z) | Tok.VC z => Some (SaveModel.VC z) | Tok.VFl b => Some (SaveModel.VF b)
  | Tok.VT => Some (SaveModel.VT true) | Tok.VF => Some (SaveModel.VT false)
  | Tok.VS s => Some (SaveModel.VS s) | Tok.VSym s => Some (SaveModel.VSym s)
  | _ => None
  end.

(* an array line carries the 'a' header in front of its elements (element type: that
   of the first element, as get_changed_values sets it) *)
Definition line_avs (l : line) : list av :=
  let es := map av_of (l_vals l) in
  if l_array l then Tok.VArr (match es with e :: _ => av_type e | [] => 105 end) (Z.of_nat (length es)) :: es
  else es.

Fixpoint map_opt' {A B} (f : A -> option B) (l : list A) : option (list B) :=
  match l with
  | [] => Some []
  | x :: r => match f x, map_opt' f r with Some y, Some ys => Some (y :: ys) | _, _ => None end
  end.

(* what the loader makes of the scanned slots: ranges and repetitions written out
   (C10's expand), an 'a' header in front means an array line *)
Definition line_of_slots (addr : list Z) (slots : list av) : option line :=
  match slots with
  | Tok.VArr _ _ :: es =>
      match expand es with
      | Some vs => match map_opt' scalar_of vs with
                   | Some xs => Some {| l_path := addr; l_array := true; l_vals := xs |}
                   | None => None
                   end
      | None => None
      end
  | _ =>
      match expand slots with
      | Some vs => match map_opt' scalar_of vs with
                   | Some xs => Some {| l_path := addr; l_array := false; l_vals := xs |}
                   | None => None
                   end
      | None => None
      end
  end.

Section Body.
Variables dec2f dec2d : list Z -> Z.
Variable o : popts.

(* save_to_file's body: every line printed (rtosc_print_message's text), a line feed behind it *)
Definition print_line (l : line) : option (list Z) :=
  match print_message o (l_path l) (line_avs l) 0 with
  | Some (t, _) => Some (t ++ [10])
  | None => None
  end.
Fixpoint print_body (ls : list line) : option (list Z) :=
  match ls with
  | [] => Some []
  | l :: r => match print_line l, print_body r with
              | Some t, Some b => Some (t ++ b)
              | _, _ => None
              end
  end.

(* the first loop of dispatch_printed_messages:
     while( *msg_ptr && ok) { nargs = rtosc_count_printed_arg_vals_of_msg(msg_ptr);
       if(nargs >= 0) { rd = rtosc_scan_message(...); msg_ptr += rd; }
       else if(nargs == INT_MIN) while( *++msg_ptr) ;        -- white space only
       else ok = false; }                                                        *)
Fixpoint scan_body (fuel : nat) (txt : list Z) : list item :=
  match fuel with
  | O => [Junk]
  | S f =>
      match txt with
      | [] => []
      | _ =>
          match count_printed_arg_vals_of_msg dec2f dec2d txt with
          | Ok (true, n) =>
              match scan_message dec2f dec2d txt n with
              | Ok (addr, slots, r) =>
                  match line_of_slots addr slots with
                  | Some l => Msg l (len txt - len r) :: scan_body f r
                  | None => [Junk]
                  end
              | _ => [Junk]
              end
          | Ok (false, n) => if n =? 2 ^ 31 then [] else [Junk]
          | _ => [Junk]
          end
      end
  end.

End Body.

(* default_print_options of src/cpp/pretty-format.c: what savefiles are printed with *)
Definition opts_default : popts := {| lossless := true; prec := 2; linelength := 80; compress := true |}.

(* ---- the class of lines, decidable form (PrintLines.good_line_b_sound) ------------------ *)
Definition nonul_b (s : list Z) : bool := forallb (fun c => negb (c =? 0)) s.
Definition nodot_b (s : list Z) : bool := forallb (fun c => negb (c =? 46)) s.
Definition good_addr_b (a : list Z) : bool :=
  match a with 47 :: _ => forallb (fun c => negb (isspace c)) a | _ => false end.
Definition good_scalar1_b (x : scalar) : bool :=
  match x with
  | SaveModel.VI z => (- 2 ^ 31 <=? z) && (z <? 2 ^ 31)
  | SaveModel.VC z => (0 <=? z) && (z <=? 255)
  | SaveModel.VF b => (0 <=? b) && (b <? 2 ^ 32) && f32_finite b
  | SaveModel.VT _ => true
  | SaveModel.VS s => nonul_b s
  | SaveModel.VSym s => sym_plain s || nonul_b s
  end.
Definition good_elem_b (x : scalar) : bool :=
  match x with
  | SaveModel.VI z => (- 2 ^ 31 <=? z) && (z <? 2 ^ 31)
  | SaveModel.VC z => (0 <=? z) && (z <=? 255) && negb (z =? 46)
  | SaveModel.VF b => (0 <=? b) && (b <? 2 ^ 32) && f32_finite b
  | SaveModel.VT _ => true
  | SaveModel.VS s => nonul_b s && nodot_b s
  | SaveModel.VSym s => sym_plain s || (nonul_b s && nodot_b s)
  end.
Definition is_fzero (z : Z) (x : scalar) : bool := match x with SaveModel.VF b => b =? z | _ => false end.
Definition nozmix_b (xs : list scalar) : bool :=
  negb (existsb (is_fzero 0) xs) || negb (existsb (is_fzero (2 ^ 31)) xs).
Definition homog_b (xs : list scalar) : bool :=
  match xs with
  | [] => true
  | x :: _ => forallb (fun y => types_match (av_type (av_of x)) (av_type (av_of y))) xs
  end.
Definition good_line_b (l : line) : bool :=
  good_addr_b (l_path l) &&
  if l_array l
  then negb (match l_vals l with [] => true | _ => false end) && forallb good_elem_b (l_vals l) &&
       nozmix_b (l_vals l) && homog_b (l_vals l) && (Z.of_nat (length (l_vals l)) + 1 <? 2 ^ 31)
  else match l_vals l with [x] => good_scalar1_b x | _ => false end.
