(* C12 - the printer model is total on a message whose value is ONE array,
   range compression on or off.

   Proved here: the FULL statement (theorem array_message_prints), for the
   whole element class goodc of the list-level theorems (integers, chars,
   true / false / nil / inf, strings, quoted and bare symbols, midi, rgba,
   blobs, and with the lossless option finite floats and doubles), for every
   option record (compress o = true and compress o = false, every linelength
   and precision), every address and every length below 2^31.  The hypotheses
   homog and elems <> [] are not used by the proof: the stronger theorem
   array_message_prints_any does without them, and array_message_prints is
   the instance asked for.  The restriction to the class elemc was not
   needed.

   Nothing false was found: on these inputs the model never takes a path that
   returns None.

   The steps:
     print_scalar_total   print_scalar is Some for every scalar (time tags included)
     print_array_total    the whole array - since the merge with stage 7 of the
                          pretty-printer development the instance more = [] of
                          Pretty/TotalProofs.print_array_total (there: the second
                          loop of rtosc_convert_to_range ends and stays inside the
                          model, convert_to_range is not CUnmod, the range it writes
                          is printed, the loop over the elements)
     array_message_prints_any, array_message_prints *)
From Coq Require Import List ZArith Bool Lia.
From RtoscV Require Import Pretty.Tok Pretty.FloatFmt Pretty.PrintModel Pretty.ScanModel Pretty.PrettyProofs
  Pretty.RangeProofs Pretty.RunProofs Pretty.ListProofs Pretty.ArrayProofs Pretty.TotalProofs.
Import ListNotations.
Local Open Scope Z_scope.

(* ------------------------------------------------------------------------- *)
(* single values                                                              *)
Lemma print_scalar_total o v cols :
  scalar v -> exists t w c, print_scalar o v cols = Some (t, w, c).
Proof.
  destruct v; cbn [scalar]; intros Hs; try contradiction; cbn [print_scalar];
    try (eexists _, _, _; reflexivity).
  - destruct (print_string o false s cols) as [t c]. eexists _, _, _; reflexivity.
  - destruct (print_string o true s cols) as [t c]. eexists _, _, _; reflexivity.
  - destruct (print_blob o d cols) as [[t w] c]. eexists _, _, _; reflexivity.
Qed.

Lemma goodc_not_tm o zf zd v : goodc o zf zd v -> forall t, v <> VTm t.
Proof. intros [H|[H|[_ H]]] t E; subst v; cbn in H; contradiction. Qed.

Lemma print_scalar_goodc o zf zd v cols :
  goodc o zf zd v -> exists t w c, print_scalar o v cols = Some (t, w, c).
Proof.
  intros Hg. apply print_scalar_total. apply (goodc_facts o zf zd v Hg).
Qed.

(* ------------------------------------------------------------------------- *)
(* the whole array: the instance "nothing follows the array" of the general
   lemma of the pretty-printer development (Pretty/TotalProofs.v:
   conv_total_scalar - convert_to_range is not CUnmod -, print_conv_total,
   print_array_loop_total, print_array_total, stated for every nesting fuel
   and for any good slots behind the array)                                   *)
Section Loop.
Variable o : popts.
Variables zf zd : Z.
Hypothesis Hz : zchoice zf zd.
Variable parr : parr_t.

Lemma print_array_total ty elems cols blank :
  Forall (goodc o zf zd) elems -> Z.of_nat (length elems) < 2 ^ 31 ->
  exists r, print_array print_arg_val parr o (VArr ty (Z.of_nat (length elems)) :: elems) cols blank = Some r.
Proof.
  intros Hg Hlen.
  pose proof (TotalProofs.print_array_total (fun _ => 0) (fun _ => 0) o zf zd Hz parr 4 ty elems [] cols blank Hg
                (Forall_nil _)) as H.
  rewrite app_nil_r in H. apply H. exact Hlen.
Qed.
End Loop.

(* ------------------------------------------------------------------------- *)
(* the message                                                                *)
Theorem array_message_prints_any o zf zd addr ty elems :
  zchoice zf zd -> Forall (goodc o zf zd) elems ->
  Z.of_nat (length elems) + 1 < 2 ^ 31 ->
  exists text w, print_message o addr (VArr ty (Z.of_nat (length elems)) :: elems) 0 = Some (text, w).
Proof.
  intros Hz Hg Hlen. unfold print_message. cbn [length].
  remember (S (length elems)) as f1 eqn:Ef1. cbn [print_vals_loop].
  replace (Z.of_nat f1 <=? 0) with false by lia.
  replace (Z.of_nat f1 - 0) with (Z.of_nat (length elems) + 1) by lia.
  rewrite conv_single_array. cbn [print_arg_val_top].
  destruct (print_array_total o zf zd Hz print_arr ty elems (0 + (len addr + 1)) true Hg ltac:(lia))
    as [[[[t tmp] cols1] bb] Epa].
  rewrite Epa.
  change (breaks_itself (av_type (VArr ty (Z.of_nat (length elems))))) with true.
  cbv beta iota zeta. cbn [orb negb andb]. rewrite andb_false_r.
  cbn [next_arg_offset].
  replace (0 + (Z.of_nat (length elems) + 1) <? Z.of_nat f1) with false by lia.
  subst f1. cbn [print_vals_loop].
  assert (E : Z.of_nat (S (length elems)) <=? 0 + (Z.of_nat (length elems) + 1) = true) by (apply Z.leb_le; lia).
  rewrite E. eexists _, _. reflexivity.
Qed.

(* the statement asked for; homog and elems <> [] are not needed *)
Theorem array_message_prints o zf zd addr ty elems :
  zchoice zf zd -> Forall (goodc o zf zd) elems -> homog elems -> elems <> [] ->
  Z.of_nat (length elems) + 1 < 2 ^ 31 ->
  exists text w, print_message o addr (VArr ty (Z.of_nat (length elems)) :: elems) 0 = Some (text, w).
Proof. intros Hz Hg _ _ Hlen. exact (array_message_prints_any o zf zd addr ty elems Hz Hg Hlen). Qed.

(* ------------------------------------------------------------------------- *)
(* not vacuous: a line with an elided run and a value repeated                *)
Definition pt_ex_opts : popts := {| lossless := true; prec := 2; linelength := 80; compress := true |}.
Definition pt_ex_elems : list av := map VI [1; 2; 3; 4; 5; 6; 9; 9].

Example ex_hyps : zchoice 0 0 /\ Forall (goodc pt_ex_opts 0 0) pt_ex_elems /\ homog pt_ex_elems /\ pt_ex_elems <> [] /\
  Z.of_nat (length pt_ex_elems) + 1 < 2 ^ 31.
Proof.
  split; [split; left; reflexivity|]. split; [|split; [|split; [discriminate|cbn; lia]]].
  - unfold pt_ex_elems. cbn [map]. repeat (constructor; [left; cbn; unfold small_k, good_k; lia|]). constructor.
  - intros a b Ha Hb. unfold pt_ex_elems in *. apply in_map_iff in Ha as (x & <- & _).
    apply in_map_iff in Hb as (y & <- & _). reflexivity.
Qed.

Example ex_prints :
  print_message {| lossless := true; prec := 2; linelength := 80; compress := true |} [47; 97]
    (VArr 105 8 :: map VI [1; 2; 3; 4; 5; 6; 9; 9]) 0
  = Some ([47; 97; 32; 91; 49; 32; 46; 46; 46; 32; 54; 32; 57; 32; 57; 93], 16).
Proof. vm_compute. reflexivity. Qed.
