(* C12 - the printer model is total on a message whose value is ONE array,
   range compression on or off.

   Proved here: the FULL statement (theorem array_message_prints), for the
   whole element class goodc of the list-level theorems (integers, chars,
   true / false / nil / inf, strings, quoted and bare symbols, midi, rgba,
   blobs, and with the lossless option finite floats and doubles), for every
   option record (compress o = true and compress o = false, every linelength
   and precision), every address and every length below 2^31.  The hypotheses
   homog and elems <> [] are not used by the proof: the stronger theorem
   array_message_prints_any does without them, and array_message_prints is
   the instance asked for.  The restriction to the class elemc was not
   needed.

   Nothing false was found: on these inputs the model never takes a path that
   returns None.

   The steps:
     print_scalar_total   print_scalar is Some for every scalar but a time tag
     run_const_total, run_delta_total
                          the second loop of rtosc_convert_to_range ends
                          (fuel) and never meets a comparison outside the
                          model when size does not exceed the number of slots
     conv_total           convert_to_range is not CUnmod on scalars
     print_yes_total      the range it writes is printed (print_range)
     arr_loop_total       the loop over the elements of an array
     print_array_total    the whole array
     array_message_prints_any, array_message_prints *)
From Coq Require Import List ZArith Bool Lia.
From RtoscV Require Import Pretty.Tok Pretty.FloatFmt Pretty.PrintModel Pretty.ScanModel Pretty.PrettyProofs
  Pretty.RangeProofs Pretty.RunProofs Pretty.ListProofs Pretty.ArrayProofs.
Import ListNotations.
Local Open Scope Z_scope.

(* ------------------------------------------------------------------------- *)
(* single values                                                              *)
Lemma print_scalar_total o v cols :
  scalar v -> (forall t, v <> VTm t) -> exists t w c, print_scalar o v cols = Some (t, w, c).
Proof.
  destruct v; cbn [scalar]; intros Hs Ht; try contradiction; cbn [print_scalar];
    try (eexists _, _, _; reflexivity).
  - destruct (print_string o false s cols) as [t c]. eexists _, _, _; reflexivity.
  - destruct (print_string o true s cols) as [t c]. eexists _, _, _; reflexivity.
  - destruct (print_blob o d cols) as [[t w] c]. eexists _, _, _; reflexivity.
  - exfalso. eapply Ht. reflexivity.
Qed.

Lemma goodc_not_tm o zf zd v : goodc o zf zd v -> forall t, v <> VTm t.
Proof. intros [H|[H|[_ H]]] t E; subst v; cbn in H; contradiction. Qed.

Lemma print_scalar_goodc o zf zd v cols :
  goodc o zf zd v -> exists t w c, print_scalar o v cols = Some (t, w, c).
Proof.
  intros Hg. apply print_scalar_total; [apply (goodc_facts o zf zd v Hg)|exact (goodc_not_tm o zf zd v Hg)].
Qed.

Lemma scalar_exact v : scalar v -> exact v.
Proof. destruct v; cbn; tauto. Qed.

Lemma eq_single_total a z : scalar a -> scalar z -> exists b, av_eq_single a z = Some b.
Proof. destruct a, z; cbn; intros Ha Hz; try contradiction; eexists; reflexivity. Qed.

Lemma fits_total k x a t d : exists b, range_step_fits (mk k x) (mk k a) (mk k t) (mk k d) = Some b.
Proof. destruct k; eexists; reflexivity. Qed.

(* ------------------------------------------------------------------------- *)
(* the second loop of rtosc_convert_to_range                                  *)
Section Run.
Variable args : list av.
Hypothesis Hsc : Forall scalar args.
Variable size : Z.
Hypothesis Hsize : size <= Z.of_nat (length args).

Lemma nth_in_range j : (j < length args)%nat -> exists z, nth_error args j = Some z /\ scalar z.
Proof.
  intros Hj. destruct (nth_error args j) as [z|] eqn:E.
  - exists z. split; [reflexivity|]. exact (nth_scalar args Hsc j z E).
  - apply nth_error_None in E. lia.
Qed.

Lemma run_const_total a0 dl : nth_error args 0 = Some a0 ->
  forall fuel s nc, (s < length args)%nat -> (length args <= fuel + s)%nat ->
  exists r, run_loop fuel args size false dl (Z.of_nat s) nc = Some r.
Proof.
  intros H0. assert (Hs0 : scalar a0) by exact (nth_scalar args Hsc 0 a0 H0).
  induction fuel as [|fuel IH]; intros s nc Hs Hf; [lia|].
  cbn [run_loop]. rewrite skipz_nth, (incsize_skipn args Hsc).
  destruct (size <=? Z.of_nat s + 1) eqn:Esz; [eexists; reflexivity|].
  apply Z.leb_gt in Esz.
  replace (Z.of_nat s + 1) with (Z.of_nat (S s)) by lia. rewrite skipz_nth, (skipn_hd args (S s)).
  destruct (nth_in_range (S s) ltac:(lia)) as (z & Ez & Hzs). rewrite Ez.
  destruct args as [|x rest] eqn:Ea; [discriminate|]. cbn in H0. inversion H0; subst x.
  rewrite (elem_eq_exact a0 z rest _ (scalar_exact a0 Hs0) Hzs). rewrite <- Ea in *.
  destruct (av_type a0 =? av_type z); [|eexists; reflexivity].
  destruct (eq_single_total a0 z Hs0 Hzs) as [[|] Eq]; rewrite Eq; [|eexists; reflexivity].
  apply IH; lia.
Qed.

Lemma run_delta_total k d x : nth_error args 0 = Some (mk k x) ->
  forall fuel s nc a, nth_error args s = Some (mk k a) -> (length args <= fuel + s)%nat ->
  exists r, run_loop fuel args size true (mk k d) (Z.of_nat s) nc = Some r.
Proof.
  intros H0.
  induction fuel as [|fuel IH]; intros s nc a Ha Hf.
  - assert (nth_error args s <> None) by (rewrite Ha; discriminate). apply nth_error_Some in H. lia.
  - assert (Hs : (s < length args)%nat) by (apply nth_error_Some; rewrite Ha; discriminate).
    cbn [run_loop]. rewrite skipz_nth, (incsize_skipn args Hsc).
    rewrite (skipn_hd args s), Ha, add_mk.
    destruct (size <=? Z.of_nat s + 1) eqn:Esz; [eexists; reflexivity|].
    apply Z.leb_gt in Esz.
    replace (Z.of_nat s + 1) with (Z.of_nat (S s)) by lia. rewrite skipz_nth, (skipn_hd args (S s)).
    destruct (nth_in_range (S s) ltac:(lia)) as (z & Ez & Hzs). rewrite Ez.
    rewrite (elem_eq_mk k _ z _ Hzs).
    destruct (av_type (mk k (wr k (a + d))) =? av_type z) eqn:Et; [|eexists; reflexivity].
    apply Z.eqb_eq in Et. symmetry in Et. destruct (type_mk_inj _ _ _ Hzs Et) as (b & ->).
    rewrite eq_mk. destruct (wr k (a + d) =? b) eqn:Eb; [|eexists; reflexivity].
    destruct args as [|h0 t0] eqn:Eargs; [discriminate|]. cbn in H0. inversion H0; subst h0.
    rewrite <- Eargs in *.
    destruct (fits_total k x a (wr k (a + d)) d) as [[|] Ef]; rewrite Ef; [|eexists; reflexivity].
    apply (IH (S s) (nc + 1) b Ez). lia.
Qed.
End Run.


(* ------------------------------------------------------------------------- *)
(* rtosc_convert_to_range stays inside the model                              *)
Lemma conv_total o args size :
  Forall scalar args -> size <= Z.of_nat (length args) -> convert_to_range o args size <> CUnmod.
Proof.
  intros Hsc Hsize. unfold convert_to_range.
  destruct ((size <? 5) || (hd_type args =? 45) || negb (compress o)); [discriminate|].
  destruct (count_common (length args) (hd_type args) args 0 size 0 <? 5) eqn:Ecc; [discriminate|].
  destruct args as [|a0 [|a1 rest]] eqn:Ea.
  - cbn in Ecc. discriminate.
  - cbn [length count_common hd_type] in Ecc. destruct (size <=? 0); [discriminate|].
    destruct (av_type a0 =? av_type a0); discriminate.
  - assert (Hs0 : scalar a0) by now inversion Hsc.
    assert (Hs1 : scalar a1) by (inversion Hsc as [|? ? _ H]; now inversion H).
    assert (Hty : av_type a1 = av_type a0).
    { destruct (Z.eq_dec (av_type a1) (av_type a0)) as [E|E]; [exact E|exfalso].
      pose proof (count_common_second (length (a0 :: a1 :: rest)) (av_type a0) a0 a1 rest size Hs0 E).
      cbn [hd_type] in Ecc. lia. }
    rewrite (incsize_scalar a0 _ Hs0). change (skipz 1 (a0 :: a1 :: rest)) with (a1 :: rest).
    rewrite (elem_eq_exact a0 a1 _ _ (scalar_exact a0 Hs0) Hs1). rewrite Hty, Z.eqb_refl.
    destruct (eq_single_total a0 a1 Hs0 Hs1) as [e Ee]. rewrite Ee.
    rewrite <- Ea in *.
    assert (H0 : nth_error args 0 = Some a0) by now rewrite Ea.
    assert (H1 : nth_error args 1 = Some a1) by now rewrite Ea.
    assert (Hl : (2 <= length args)%nat) by (rewrite Ea; cbn [length]; lia).
    destruct e; cbn [negb andb].
    + destruct (run_const_total args Hsc size Hsize a0 VN H0 (length args) 1%nat 1 ltac:(lia) ltac:(lia))
        as [[skipped nc] Er].
      change (Z.of_nat 1) with 1 in Er. rewrite Er. destruct (nc <? 5); discriminate.
    + destruct (range_convertible (hd_type args)) eqn:Erc; [|discriminate]. cbn [negb].
      rewrite Ea in Erc. cbn [hd_type] in Erc.
      destruct (exact_kind a0 (scalar_exact a0 Hs0) Erc) as [(k & x & ->)|[->| ->]];
        [|destruct a1; cbn in Hs1, Ee, Hty; try contradiction; discriminate
         |destruct a1; cbn in Hs1, Ee, Hty; try contradiction; discriminate].
      destruct (type_mk_inj k x a1 Hs1 Hty) as (y & ->).
      rewrite sub_mk.
      destruct (fits_total k x x y (wr k (y - x))) as [[|] Ef]; rewrite Ef; [|discriminate].
      destruct (run_delta_total args Hsc size Hsize k (wr k (y - x)) x H0 (length args) 1%nat 1 y H1 ltac:(lia))
        as [[skipped nc] Er].
      change (Z.of_nat 1) with 1 in Er. rewrite Er. destruct (nc <? 5); discriminate.
Qed.

(* ------------------------------------------------------------------------- *)
(* the range written by the conversion is printed                             *)
Section Loop.
Variable o : popts.
Variables zf zd : Z.
Hypothesis Hz : zchoice zf zd.

Lemma goodc_scalars l : Forall (goodc o zf zd) l -> Forall scalar l.
Proof. intros H. eapply Forall_impl; [|exact H]. intros a Ha. apply (goodc_facts o zf zd a Ha). Qed.
Lemma goodc_inrvs l : Forall (goodc o zf zd) l -> Forall (inrv zf zd) l.
Proof. intros H. eapply Forall_impl; [|exact H]. intros a Ha. apply (goodc_facts o zf zd a Ha). Qed.

Lemma conv_yes_on args size c kk : convert_to_range o args size = CYes c kk -> compress o = true.
Proof.
  unfold convert_to_range. destruct (compress o); [reflexivity|].
  cbn [negb]. rewrite orb_true_r. discriminate.
Qed.

Lemma print_yes_total a0 rest size c kk cols prev :
  Forall (goodc o zf zd) (a0 :: rest) -> Z.of_nat (length (a0 :: rest)) < 2 ^ 31 ->
  (forall p, prev = Some p -> scalar p) ->
  convert_to_range o (a0 :: rest) size = CYes c kk ->
  exists n t w c1, kk = Z.of_nat n /\ (1 <= n <= length (a0 :: rest))%nat /\ hd_type c = 45 /\
    print_arg_val o c cols prev = Some (t, w, c1, false).
Proof.
  intros Hg Hlen Hprev Hcv. pose proof (conv_yes_on _ _ _ _ Hcv) as Hon.
  pose proof (Forall_inv Hg) as Hg0. destruct (goodc_facts o zf zd a0 Hg0) as (Hs0 & _ & Hex0).
  destruct (range_expand_shape zf zd (proj1 Hz) (proj2 Hz) o (a0 :: rest) size c kk (goodc_scalars _ Hg)
              (goodc_inrvs _ Hg) Hex0 Hlen Hcv) as (n & -> & [Hn5 Hnl] & _ & Hshape).
  destruct Hshape as [[[y Ec] _]|(k & d & x & y & Ec & Hdr & Hhd & Hd0 & Hexj)]; subst c; cbn [hd] in *.
  - destruct (print_scalar_goodc o zf zd a0 (cols + len (print_d (Z.of_nat n) ++ [120])) Hg0) as (t & w & c1 & Eps).
    eexists n, _, _, _. split; [reflexivity|]. split; [lia|]. split; [reflexivity|].
    exact (print_range_const o (Z.of_nat n) a0 y cols prev t w c1 Hon ltac:(lia) Hs0 Eps).
  - assert (Hsec : wr k (x + 1 * d) = x + d).
    { replace (x + 1 * d) with (x + Z.of_nat 1 * d) by lia. rewrite wr_id by (apply (Hexj 1%nat); lia). lia. }
    destruct (print_range_delta o k d x (Z.of_nat n) y cols prev _ Hon ltac:(lia) Hd0 Hsec eq_refl Hprev)
      as (sp & t & c1 & _ & Hpr & _).
    eexists n, _, _, _. split; [reflexivity|]. split; [lia|]. split; [reflexivity|]. exact Hpr.
Qed.

(* ------------------------------------------------------------------------- *)
(* the loop over the elements of an array                                     *)
Variable parr : parr_t.

Lemma arr_loop_total : forall fuel elems prev i n acc first bb wrt cols awtl,
  Forall (goodc o zf zd) elems -> Z.of_nat (length elems) < 2 ^ 31 -> n + 1 - i = Z.of_nat (length elems) ->
  (forall p, prev = Some p -> scalar p) -> (length elems < fuel)%nat ->
  exists r, print_array_loop print_arg_val parr fuel o elems prev i n acc first bb wrt cols awtl = Some r.
Proof.
  induction fuel as [|fuel IH]; intros elems prev i n acc first bb wrt cols awtl Hg Hlen Hn Hprev Hf; [lia|].
  cbn [print_array_loop].
  destruct elems as [|a0 rest].
  - cbn [length] in Hn. replace (n <? i) with true by lia. eexists; reflexivity.
  - cbn [length] in Hn, Hf. replace (n <? i) with false by lia.
    pose proof (Forall_inv Hg) as Hg0. destruct (goodc_facts o zf zd a0 Hg0) as (Hs0 & _ & _).
    assert (Hnth : forall j p, nth_error (a0 :: rest) j = Some p -> scalar p).
    { intros j p E. apply (goodc_facts o zf zd p). eapply Forall_forall; [exact Hg|]. eapply nth_error_In; exact E. }
    destruct (convert_to_range o (a0 :: rest) (n + 1 - i)) as [|c kk|] eqn:Ecv.
    + assert (Hty : hd_type (a0 :: rest) =? 97 = false)
        by (destruct a0; cbn in Hs0; try contradiction; reflexivity).
      rewrite Hty. unfold print_arg_val at 1. rewrite (pav_scalar o a0 rest cols prev 5 Hs0).
      destruct (print_scalar_goodc o zf zd a0 cols Hg0) as (t & w & c1 & Eps). rewrite Eps.
      cbn [andb]. cbv beta iota.
      destruct (lb_check (linelength o) c1 w awtl) as [[brk_ cols2] awtl2].
      rewrite (next_arg_offset_scalar a0 rest Hs0). change (skipz 1 (a0 :: rest)) with rest.
      apply IH.
      * exact (Forall_inv_tail Hg).
      * cbn [length] in Hlen. lia.
      * lia.
      * intros p Ep. exact (Hnth _ _ Ep).
      * lia.
    + destruct (print_yes_total a0 rest _ c kk cols prev Hg Hlen Hprev Ecv) as (m & t & w & c1 & -> & Hm & Hhd & Hpr).
      rewrite Hhd. change (45 =? 97) with false. cbv beta iota. rewrite Hpr.
      cbn [andb]. cbv beta iota.
      destruct (lb_check (linelength o) c1 w awtl) as [[brk_ cols2] awtl2].
      rewrite skipz_nth.
      assert (Hl2 : length (skipn m (a0 :: rest)) = (length (a0 :: rest) - m)%nat) by apply skipn_length.
      apply IH.
      * rewrite <- (firstn_skipn m (a0 :: rest)) in Hg. now apply Forall_app in Hg as [_ Hg].
      * rewrite Hl2. cbn [length] in *. lia.
      * rewrite Hl2. cbn [length] in *. lia.
      * intros p Ep. exact (Hnth _ _ Ep).
      * rewrite Hl2. cbn [length] in *. lia.
    + exfalso. apply (conv_total o (a0 :: rest) (n + 1 - i)); [exact (goodc_scalars _ Hg)| |exact Ecv].
      cbn [length]. lia.
Qed.

Lemma print_array_total ty elems cols blank :
  Forall (goodc o zf zd) elems -> Z.of_nat (length elems) < 2 ^ 31 ->
  exists r, print_array print_arg_val parr o (VArr ty (Z.of_nat (length elems)) :: elems) cols blank = Some r.
Proof.
  intros Hg Hlen. unfold print_array.
  destruct (Z.of_nat (length elems) =? 0); [eexists; reflexivity|].
  destruct (arr_loop_total (S (length elems)) elems None 1 (Z.of_nat (length elems)) [91] true false 1 (cols + 1)
              (if (cols =? 0) || negb blank then 0 else 1) Hg Hlen ltac:(lia) ltac:(discriminate) ltac:(lia))
    as [[[[t w] c] bb] E].
  rewrite E. eexists; reflexivity.
Qed.
End Loop.

(* ------------------------------------------------------------------------- *)
(* the message                                                                *)
Theorem array_message_prints_any o zf zd addr ty elems :
  zchoice zf zd -> Forall (goodc o zf zd) elems ->
  Z.of_nat (length elems) + 1 < 2 ^ 31 ->
  exists text w, print_message o addr (VArr ty (Z.of_nat (length elems)) :: elems) 0 = Some (text, w).
Proof.
  intros Hz Hg Hlen. unfold print_message. cbn [length].
  remember (S (length elems)) as f1 eqn:Ef1. cbn [print_vals_loop].
  replace (Z.of_nat f1 <=? 0) with false by lia.
  replace (Z.of_nat f1 - 0) with (Z.of_nat (length elems) + 1) by lia.
  rewrite conv_single_array. cbn [print_arg_val_top].
  destruct (print_array_total o zf zd Hz print_arr ty elems (0 + (len addr + 1)) true Hg ltac:(lia))
    as [[[[t tmp] cols1] bb] Epa].
  rewrite Epa.
  change (breaks_itself (av_type (VArr ty (Z.of_nat (length elems))))) with true.
  cbv beta iota zeta. cbn [orb negb andb]. rewrite andb_false_r.
  cbn [next_arg_offset].
  replace (0 + (Z.of_nat (length elems) + 1) <? Z.of_nat f1) with false by lia.
  subst f1. cbn [print_vals_loop].
  assert (E : Z.of_nat (S (length elems)) <=? 0 + (Z.of_nat (length elems) + 1) = true) by (apply Z.leb_le; lia).
  rewrite E. eexists _, _. reflexivity.
Qed.

(* the statement asked for; homog and elems <> [] are not needed *)
Theorem array_message_prints o zf zd addr ty elems :
  zchoice zf zd -> Forall (goodc o zf zd) elems -> homog elems -> elems <> [] ->
  Z.of_nat (length elems) + 1 < 2 ^ 31 ->
  exists text w, print_message o addr (VArr ty (Z.of_nat (length elems)) :: elems) 0 = Some (text, w).
Proof. intros Hz Hg _ _ Hlen. exact (array_message_prints_any o zf zd addr ty elems Hz Hg Hlen). Qed.

(* ------------------------------------------------------------------------- *)
(* not vacuous: a line with an elided run and a value repeated                *)
Definition pt_ex_opts : popts := {| lossless := true; prec := 2; linelength := 80; compress := true |}.
Definition pt_ex_elems : list av := map VI [1; 2; 3; 4; 5; 6; 9; 9].

Example ex_hyps : zchoice 0 0 /\ Forall (goodc pt_ex_opts 0 0) pt_ex_elems /\ homog pt_ex_elems /\ pt_ex_elems <> [] /\
  Z.of_nat (length pt_ex_elems) + 1 < 2 ^ 31.
Proof.
  split; [split; left; reflexivity|]. split; [|split; [|split; [discriminate|cbn; lia]]].
  - unfold pt_ex_elems. cbn [map]. repeat (constructor; [left; cbn; unfold small_k, good_k; lia|]). constructor.
  - intros a b Ha Hb. unfold pt_ex_elems in *. apply in_map_iff in Ha as (x & <- & _).
    apply in_map_iff in Hb as (y & <- & _). reflexivity.
Qed.

Example ex_prints :
  print_message {| lossless := true; prec := 2; linelength := 80; compress := true |} [47; 97]
    (VArr 105 8 :: map VI [1; 2; 3; 4; 5; 6; 9; 9]) 0
  = Some ([47; 97; 32; 91; 49; 32; 46; 46; 46; 32; 54; 32; 57; 32; 57; 93], 16).
Proof. vm_compute. reflexivity. Qed.
