(* C13 - the ROOT table's "self:" port.  scan_deps never visits the root as a
   directory (its loop ends when cur_portname becomes empty); the root's "self:"
   is reached from the iteration of the root-level component: rel2abs("self:", "/x")
   = "/self:".  So a root table switched as a whole by one of its own toggles
   (rSelf(.., rEnabledBy(on)) on the table handed to load_from_file) gives the edge
   (/on, line) for every other line. *)
From Coq Require Import List ZArith Bool Lia.
From RtoscV Require Import Save.TopoModel Save.TopoEdges.
Import ListNotations.
Local Open Scope Z_scope.

Lemma upto_last_slash_none : forall x, ~ In slash x -> upto_last_slash x = None.
Proof.
  induction x as [|c x IH]; intro H; simpl; [reflexivity|].
  rewrite IH by (intro H1; apply H; right; exact H1).
  destruct (c =? slash) eqn:E; [|reflexivity].
  apply Z.eqb_eq in E. exfalso. apply H. left. exact E.
Qed.

Lemma before_last_slash_none : forall x, ~ In slash x -> before_last_slash x = None.
Proof.
  induction x as [|c x IH]; intro H; simpl; [reflexivity|].
  rewrite IH by (intro H1; apply H; right; exact H1).
  destruct (c =? slash) eqn:E; [|reflexivity].
  apply Z.eqb_eq in E. exfalso. apply H. left. exact E.
Qed.

(* a root-level address "/x": its only round is (not a parent, "/x"), and the "self:"
   looked up in that round is the root table's *)
Lemma root_level_round : forall x, ~ In slash x ->
  flagged (ancestors (slash :: x)) = [(false, slash :: x)] /\
  rel2abs self_name (slash :: x) = Some (slash :: self_name).
Proof.
  intros x H. split.
  - unfold ancestors. cbn [length ancestors_from before_last_slash].
    rewrite (before_last_slash_none x H). cbn. reflexivity.
  - unfold rel2abs. cbn [upto_last_slash]. rewrite (upto_last_slash_none x H). cbn. reflexivity.
Qed.

Lemma root_self_in_lookups : forall x, ~ In slash x ->
  In {| lk_path := slash :: self_name; lk_base := slash :: x; lk_parent := false |} (lookups (slash :: x)).
Proof.
  intros x H. destruct (root_level_round x H) as [Hf Hs].
  apply (self_in_lookups (slash :: x) (false, slash :: x) (slash :: self_name)); [|exact Hs].
  rewrite Hf. left. reflexivity.
Qed.

(* every entry of the root's "self:" port whose target has a line gives the edge to a root-level line *)
Theorem edges_complete_root_self : forall A apropos fuel (ms : list (message A)) ps x o m e t i,
  pushes A apropos fuel ms = Some ps ->
  ~ In slash x ->
  In (slash :: x) (map_keys A ms) -> index_of A (slash :: x) ms = Some o ->
  apropos (slash :: self_name) = Some m ->
  In e (dep_values m) -> resolve_entry false (port_name m) e (slash :: x) = Some t ->
  index_of A t ms = Some i -> has_key (map_keys A ms) t = true -> t <> slash :: x ->
  In (i, o) ps.
Proof.
  intros A apropos fuel ms ps x o m e t i Hp Hx Hk Ho Hm He Hr Hi Hkey Hne.
  destruct (root_level_round x Hx) as [Hf Hs].
  apply (edges_complete_self A apropos fuel ms ps (slash :: x) o (false, slash :: x) (slash :: self_name) m e t i);
    try assumption.
  rewrite Hf. left. reflexivity.
Qed.

(* non-vacuity, and the lines below the root: root { self: enabled by "on", on, x, sub/ { y } };
   the file holds /x, /sub/y, /on in that order: /on (index 2) is pushed for /x (0) and for /sub/y (1) *)
Definition ex_root_apropos (p : str) : option pmeta :=
  if str_eqb p [47; 115; 101; 108; 102; 58]
  then Some {| enabled_by := Some [111; 110]; depends := None; default_depends := None; port_name := [115; 101; 108; 102; 58] |}
  else None.
Example root_self_example :
  let ms := [([47; 120], tt); ([47; 115; 117; 98; 47; 121], tt); ([47; 111; 110], tt)] in
  pushes unit ex_root_apropos 10%nat ms = Some [(2%nat, 1%nat); (2%nat, 0%nat)].
Proof. vm_compute. reflexivity. Qed.
