(* C13 - the edges scan_deps produces: they depend only on the set of addresses
   that have a line (same_edges), and every declared reference whose target has
   a line yields an edge (edges_complete). *)
From Coq Require Import List ZArith Bool Lia Permutation Arith.
From RtoscV Require Import Save.TopoModel.
Import ListNotations.

Lemma streqb_true : forall a b, str_eqb a b = true <-> a = b.
Proof.
  induction a as [|x a IH]; destruct b as [|y b]; simpl; split; intro H; try discriminate; try reflexivity.
  - apply andb_true_iff in H. destruct H as [H1 H2]. apply Z.eqb_eq in H1. apply IH in H2. subst. reflexivity.
  - inversion H; subst. rewrite Z.eqb_refl. simpl. apply IH. reflexivity.
Qed.

Lemma fold_left_ext : forall (A B : Type) (f g : A -> B -> A) l a0,
  (forall acc x, f acc x = g acc x) -> fold_left f l a0 = fold_left g l a0.
Proof. induction l as [|x l IH]; intros a0 H; simpl; [reflexivity|]. rewrite H. apply IH. assumption. Qed.

Lemma existsb_perm : forall (A : Type) (f : A -> bool) l l', Permutation l l' -> existsb f l = existsb f l'.
Proof.
  intros A f l l' H. induction H; simpl; try congruence.
  - destruct (f x); destruct (f y); reflexivity.
Qed.

(* the address / the parents as "name/" are among the lookups; so is the "self:"
   port of each directory on the way *)
Lemma flagged_in_lookups : forall cur ic,
  In ic (flagged (ancestors cur)) ->
  In {| lk_path := lookup_path ic; lk_base := snd ic; lk_parent := fst ic |} (lookups cur).
Proof.
  intros cur ic H. unfold lookups. apply in_flat_map. exists ic. split; [assumption | left; reflexivity].
Qed.

Lemma self_in_lookups : forall cur ic s,
  In ic (flagged (ancestors cur)) -> rel2abs self_name (snd ic) = Some s ->
  In {| lk_path := s; lk_base := snd ic; lk_parent := fst ic |} (lookups cur).
Proof.
  intros cur ic s H Hs. unfold lookups. apply in_flat_map. exists ic. split; [assumption|].
  rewrite Hs. right. left. reflexivity.
Qed.

(* ---- same_edges ------------------------------------------------------------------ *)
Section KeysExt.
  Variable apropos : str -> option pmeta.
  Variables k1 k2 : list str.
  Hypothesis same_members : forall p, has_key k1 p = has_key k2 p.

  Lemma scan_deps_keys_ext : forall fuel orig cur,
    scan_deps apropos k1 fuel orig cur = scan_deps apropos k2 fuel orig cur.
  Proof.
    induction fuel as [|f IH]; intros orig cur; simpl; [reflexivity|].
    apply fold_left_ext. intros acc ic.
    destruct (apropos (lk_path ic)) as [m|]; [|reflexivity].
    apply fold_left_ext. intros acc' e.
    destruct acc' as [l|]; [|reflexivity].
    destruct (resolve_entry (lk_parent ic) (port_name m) e (lk_base ic)) as [t|]; [|reflexivity].
    destruct (str_eqb t orig || str_eqb t cur); [reflexivity|].
    rewrite same_members, IH. reflexivity.
  Qed.
End KeysExt.

Section MapKeys.
  Variable A : Type.

  Lemma existsb_insert_key : forall p q l,
    existsb (str_eqb p) (insert_key q l) = str_eqb p q || existsb (str_eqb p) l.
  Proof.
    induction l as [|x l IH]; simpl.
    - reflexivity.
    - destruct (str_ltb q x); simpl; [reflexivity|].
      destruct (str_eqb q x) eqn:E; simpl.
      + apply streqb_true in E. subst x. destruct (str_eqb p q); reflexivity.
      + rewrite IH. destruct (str_eqb p q); destruct (str_eqb p x); reflexivity.
  Qed.

  Lemma has_key_map_keys : forall (ms : list (message A)) p,
    has_key (map_keys A ms) p = existsb (str_eqb p) (map fst ms).
  Proof.
    intros ms p. unfold has_key, map_keys.
    assert (H : forall l0, existsb (str_eqb p) (fold_left (fun l m => insert_key (fst m) l) ms l0)
                           = existsb (str_eqb p) (map fst ms) || existsb (str_eqb p) l0).
    { induction ms as [|m ms IH]; intros l0; simpl; [reflexivity|].
      rewrite IH, existsb_insert_key.
      destruct (str_eqb p (fst m)); destruct (existsb (str_eqb p) (map fst ms)); reflexivity. }
    rewrite H. simpl. apply orb_false_r.
  Qed.

  (* the edges of a file depend only on the addresses present, not on their positions *)
  Theorem same_edges : forall apropos fuel (ms1 ms2 : list (message A)) orig cur,
    Permutation ms1 ms2 ->
    scan_deps apropos (map_keys A ms1) fuel orig cur = scan_deps apropos (map_keys A ms2) fuel orig cur.
  Proof.
    intros apropos fuel ms1 ms2 orig cur H. apply scan_deps_keys_ext.
    intros p. rewrite !has_key_map_keys. apply existsb_perm. apply Permutation_map. assumption.
  Qed.
End MapKeys.

(* ---- accumulating folds over option lists ------------------------------------------ *)
Section Accum.
  Variables (X Y : Type) (g : X -> option (list Y)).
  Definition acc_step (acc : option (list Y)) (x : X) : option (list Y) :=
    match acc, g x with
    | Some l, Some l' => Some (l ++ l')
    | _, _ => None
    end.

  Lemma acc_none : forall xs, fold_left acc_step xs None = None.
  Proof. induction xs as [|x xs IH]; simpl; [reflexivity | assumption]. Qed.

  Lemma acc_some : forall xs l0 r, fold_left acc_step xs (Some l0) = Some r ->
    incl l0 r /\ forall x, In x xs -> exists l', g x = Some l' /\ incl l' r.
  Proof.
    induction xs as [|x xs IH]; intros l0 r H; simpl in H.
    - inversion H; subst. split; [apply incl_refl | intros x []].
    - destruct (g x) as [l'|] eqn:E; [|rewrite acc_none in H; discriminate].
      destruct (IH _ _ H) as [Hi Hx]. split.
      + intros y Hy. apply Hi. apply in_or_app. left. assumption.
      + intros x' [Hx'|Hx'].
        * subst x'. exists l'. split; [assumption|]. intros y Hy. apply Hi. apply in_or_app. right. assumption.
        * apply Hx. assumption.
  Qed.
End Accum.

(* ---- edges_complete ------------------------------------------------------------------ *)
Section Complete.
  Variable apropos : str -> option pmeta.
  Variable keys : list str.

  (* what one entry contributes *)
  Variables orig start : str.      (* the message's address; the address this scan started from *)

  Definition entry_deps (f : nat) (par : bool) (name c e : str) : option (list str) :=
    match resolve_entry par name e c with
    | Some t => if str_eqb t orig || str_eqb t start then Some []
                else if has_key keys t then Some [t] else scan_deps apropos keys f orig t
    | None => None
    end.

  Definition level_step (f : nat) (acc : option (list str)) (ic : lookup) : option (list str) :=
    match apropos (lk_path ic) with
    | None => acc
    | Some m => fold_left (acc_step str str (entry_deps f (lk_parent ic) (port_name m) (lk_base ic))) (dep_values m) acc
    end.

  Lemma scan_deps_unfold : forall f,
    scan_deps apropos keys (S f) orig start = fold_left (level_step f) (lookups start) (Some []).
  Proof.
    intros f. simpl. apply fold_left_ext. intros acc ic. unfold level_step.
    destruct (apropos (lk_path ic)) as [m|]; [|reflexivity].
    apply fold_left_ext. intros acc' e. unfold acc_step, entry_deps.
    destruct acc' as [l|]; destruct (resolve_entry (lk_parent ic) (port_name m) e (lk_base ic)) as [t|]; try reflexivity.
    destruct (str_eqb t orig || str_eqb t start); [rewrite app_nil_r; reflexivity|].
    destruct (has_key keys t); [reflexivity|].
    destruct (scan_deps apropos keys f orig t); reflexivity.
  Qed.

  Lemma level_none : forall f ics, fold_left (level_step f) ics None = None.
  Proof.
    induction ics as [|ic ics IH]; simpl; [reflexivity|].
    unfold level_step at 2. destruct (apropos _); [rewrite acc_none|]; assumption.
  Qed.

  Lemma level_some : forall f ics l0 r, fold_left (level_step f) ics (Some l0) = Some r ->
    incl l0 r /\
    forall ic m e, In ic ics -> apropos (lk_path ic) = Some m ->
                   In e (dep_values m) ->
                   exists l', entry_deps f (lk_parent ic) (port_name m) (lk_base ic) e = Some l' /\ incl l' r.
  Proof.
    induction ics as [|ic ics IH]; intros l0 r H; simpl in H.
    - inversion H; subst. split; [apply incl_refl | intros ? ? ? []].
    - unfold level_step at 2 in H.
      destruct (apropos (lk_path ic)) as [m|] eqn:Ea.
      + destruct (fold_left (acc_step str str (entry_deps f (lk_parent ic) (port_name m) (lk_base ic))) (dep_values m) (Some l0)) as [l1|] eqn:E1;
          [|rewrite level_none in H; discriminate].
        destruct (acc_some _ _ _ _ _ _ E1) as [Hi1 Hx1].
        destruct (IH _ _ H) as [Hi Hx]. split.
        * intros y Hy. apply Hi, Hi1. assumption.
        * intros ic' m' e [Hic|Hic] Hm He.
          -- subst ic'. rewrite Ea in Hm. inversion Hm; subst m'.
             destruct (Hx1 e He) as [l' [Hl' Hinc]]. exists l'. split; [assumption|].
             intros y Hy. apply Hi, Hinc. assumption.
          -- eapply Hx; eassumption.
      + destruct (IH _ _ H) as [Hi Hx]. split; [assumption|].
        intros ic' m' e [Hic|Hic] Hm He.
        * subst ic'. rewrite Ea in Hm. discriminate.
        * eapply Hx; eassumption.
  Qed.

  (* every reference (of the port or of one of its parents) to an address that has
     a line is among the addresses the message is made to wait for *)
  Theorem scan_complete : forall fuel r ic m e t,
    scan_deps apropos keys fuel orig start = Some r ->
    In ic (lookups start) ->
    apropos (lk_path ic) = Some m ->
    In e (dep_values m) -> resolve_entry (lk_parent ic) (port_name m) e (lk_base ic) = Some t -> has_key keys t = true ->
    t <> orig -> t <> start ->
    In t r.
  Proof.
    intros fuel r ic m e t H Hic Hm He Hr Hk Hno Hns.
    destruct fuel as [|f]; [discriminate|].
    rewrite scan_deps_unfold in H.
    destruct (level_some _ _ _ _ H) as [_ Hx].
    destruct (Hx ic m e Hic Hm He) as [l' [Hl' Hinc]].
    unfold entry_deps in Hl'. rewrite Hr in Hl'.
    assert (E1 : str_eqb t orig = false) by (destruct (str_eqb t orig) eqn:E; [apply streqb_true in E; contradiction | reflexivity]).
    assert (E2 : str_eqb t start = false) by (destruct (str_eqb t start) eqn:E; [apply streqb_true in E; contradiction | reflexivity]).
    rewrite E1, E2, Hk in Hl'. simpl in Hl'. inversion Hl'; subst.
    apply Hinc. left. reflexivity.
  Qed.
End Complete.

(* ---- references THROUGH ports that have no line ("including files where a depended-on port is
   itself absent"): the scan goes on at such a port (the recursive call of scan_deps), so what it
   refers to - directly or again through ports without a line - is waited for too ------------------ *)
Section Through.
  Variable apropos : str -> option pmeta.
  Variable keys : list str.
  Variable orig : str.

  (* [cur] refers to [t] by an entry of its own, of a parent's or of a "self:" port's metadata *)
  Definition refers (cur t : str) : Prop :=
    exists ic m e, In ic (lookups cur) /\ apropos (lk_path ic) = Some m /\ In e (dep_values m) /\
                   resolve_entry (lk_parent ic) (port_name m) e (lk_base ic) = Some t /\
                   t <> orig /\ t <> cur.

  (* a chain of references from [cur] to an address that has a line, all links in between without one *)
  Inductive reaches : str -> str -> Prop :=
  | R_direct : forall cur t, refers cur t -> has_key keys t = true -> reaches cur t
  | R_through : forall cur u t, refers cur u -> has_key keys u = false -> reaches u t -> reaches cur t.

  Theorem scan_complete_through : forall cur t, reaches cur t ->
    forall fuel r, scan_deps apropos keys fuel orig cur = Some r -> In t r.
  Proof.
    induction 1 as [cur t (ic & m & e & Hic & Hm & He & Hr & Hno & Hns) Hk
                   |cur u t (ic & m & e & Hic & Hm & He & Hr & Hno & Hns) Hk Hreach IH]; intros fuel r H.
    - exact (scan_complete apropos keys orig cur fuel r ic m e t H Hic Hm He Hr Hk Hno Hns).
    - destruct fuel as [|f]; [discriminate|].
      rewrite scan_deps_unfold in H.
      destruct (level_some _ _ _ _ _ _ _ _ H) as [_ Hx].
      destruct (Hx ic m e Hic Hm He) as [l' [Hl' Hinc]].
      unfold entry_deps in Hl'. rewrite Hr in Hl'.
      assert (E1 : str_eqb u orig = false) by (destruct (str_eqb u orig) eqn:E; [apply streqb_true in E; contradiction | reflexivity]).
      assert (E2 : str_eqb u cur = false) by (destruct (str_eqb u cur) eqn:E; [apply streqb_true in E; contradiction | reflexivity]).
      rewrite E1, E2, Hk in Hl'. simpl in Hl'.
      apply Hinc. exact (IH f l' Hl').
  Qed.
End Through.

Section Pushed.
  Variable A : Type.
  Variable apropos : str -> option pmeta.
  Variable fuel : nat.

  Definition push_of (ms : list (message A)) (k : str) : option (list (nat * nat)) :=
    match scan_deps apropos (map_keys A ms) fuel k k, index_of A k ms with
    | Some ds, Some o => Some (flat_map (fun d => match index_of A d ms with
                                                  | Some i => [(i, o)]
                                                  | None => []
                                                  end) ds)
    | _, _ => None
    end.

  Lemma pushes_unfold : forall ms,
    pushes A apropos fuel ms = fold_left (acc_step str (nat * nat) (push_of ms)) (map_keys A ms) (Some []).
  Proof.
    intros ms. unfold pushes. apply fold_left_ext. intros acc k. unfold acc_step, push_of.
    destruct acc as [l|]; [|reflexivity].
    destruct (scan_deps apropos (map_keys A ms) fuel k k); [|reflexivity].
    destruct (index_of A k ms); reflexivity.
  Qed.

  (* C13_edges_complete *)
  Theorem edges_complete : forall (ms : list (message A)) ps k o ic m e t i,
    pushes A apropos fuel ms = Some ps ->
    In k (map_keys A ms) -> index_of A k ms = Some o ->
    In ic (lookups k) ->
    apropos (lk_path ic) = Some m ->
    In e (dep_values m) -> resolve_entry (lk_parent ic) (port_name m) e (lk_base ic) = Some t ->
    index_of A t ms = Some i -> has_key (map_keys A ms) t = true -> t <> k ->
    In (i, o) ps.
  Proof.
    intros ms ps k o ic m e t i Hp Hk Ho Hic Hm He Hr Hi Hkey Hne.
    rewrite pushes_unfold in Hp.
    destruct (acc_some _ _ _ _ _ _ Hp) as [_ Hx].
    destruct (Hx k Hk) as [l' [Hl' Hinc]].
    unfold push_of in Hl'.
    destruct (scan_deps apropos (map_keys A ms) fuel k k) as [ds|] eqn:Es; [|discriminate].
    rewrite Ho in Hl'. inversion Hl'; subst l'.
    apply Hinc. apply in_flat_map. exists t. split.
    - eapply scan_complete; eassumption.
    - rewrite Hi. left. reflexivity.
  Qed.

  (* C13_edges_complete_through: ... also through ports that have no line in the file *)
  Theorem edges_complete_through : forall (ms : list (message A)) ps k o t i,
    pushes A apropos fuel ms = Some ps ->
    In k (map_keys A ms) -> index_of A k ms = Some o ->
    reaches apropos (map_keys A ms) k k t -> index_of A t ms = Some i ->
    In (i, o) ps.
  Proof.
    intros ms ps k o t i Hp Hk Ho Hreach Hi.
    rewrite pushes_unfold in Hp.
    destruct (acc_some _ _ _ _ _ _ Hp) as [_ Hx].
    destruct (Hx k Hk) as [l' [Hl' Hinc]].
    unfold push_of in Hl'.
    destruct (scan_deps apropos (map_keys A ms) fuel k k) as [ds|] eqn:Es; [|discriminate].
    rewrite Ho in Hl'. inversion Hl'; subst l'.
    apply Hinc. apply in_flat_map. exists t. split.
    - exact (scan_complete_through apropos (map_keys A ms) k k t Hreach fuel ds Es).
    - rewrite Hi. left. reflexivity.
  Qed.

  (* the two kinds of lookups spelt out: the port / its parents ... *)
  Corollary edges_complete_port : forall (ms : list (message A)) ps k o (ic : bool * str) m e t i,
    pushes A apropos fuel ms = Some ps ->
    In k (map_keys A ms) -> index_of A k ms = Some o ->
    In ic (flagged (ancestors k)) ->
    apropos (if fst ic then snd ic ++ [slash] else snd ic) = Some m ->
    In e (dep_values m) -> resolve_entry (fst ic) (port_name m) e (snd ic) = Some t ->
    index_of A t ms = Some i -> has_key (map_keys A ms) t = true -> t <> k ->
    In (i, o) ps.
  Proof.
    intros ms ps k o ic m e t i Hp Hk Ho Hic Hm He Hr Hi Hkey Hne.
    apply flagged_in_lookups in Hic.
    exact (edges_complete ms ps k o _ m e t i Hp Hk Ho Hic Hm He Hr Hi Hkey Hne).
  Qed.

  (* ... and the "self:" port of every directory above the address
     (rSelf(.., rEnabledBy(x)): x is applied before every other line below that directory) *)
  Corollary edges_complete_self : forall (ms : list (message A)) ps k o (ic : bool * str) s m e t i,
    pushes A apropos fuel ms = Some ps ->
    In k (map_keys A ms) -> index_of A k ms = Some o ->
    In ic (flagged (ancestors k)) ->
    rel2abs self_name (snd ic) = Some s -> apropos s = Some m ->
    In e (dep_values m) -> resolve_entry (fst ic) (port_name m) e (snd ic) = Some t ->
    index_of A t ms = Some i -> has_key (map_keys A ms) t = true -> t <> k ->
    In (i, o) ps.
  Proof.
    intros ms ps k o ic s m e t i Hp Hk Ho Hic Hs Hm He Hr Hi Hkey Hne.
    pose proof (self_in_lookups _ _ _ Hic Hs) as Hl.
    exact (edges_complete ms ps k o _ m e t i Hp Hk Ho Hl Hm He Hr Hi Hkey Hne).
  Qed.
End Pushed.

(* non-vacuity: /a depends on b, b has no line and depends on c, /c has a line: /c is pushed for /a *)
Local Open Scope Z_scope.
Definition ex_thr_apropos (p : str) : option pmeta :=
  if str_eqb p [47; 97] then Some {| enabled_by := None; depends := Some [98]; default_depends := None; port_name := [97] |}
  else if str_eqb p [47; 98] then Some {| enabled_by := None; depends := Some [99]; default_depends := None; port_name := [98] |}
  else None.
Example edges_through_example :
  let ms := [([47; 97], tt); ([47; 99], tt)] in
  reaches ex_thr_apropos (map_keys unit ms) [47; 97] [47; 97] [47; 99] /\
  has_key (map_keys unit ms) [47; 98] = false /\
  pushes unit ex_thr_apropos 5 ms = Some [(1%nat, 0%nat)].
Proof.
  cbv zeta. split; [|split; vm_compute; reflexivity].
  apply R_through with (u := [47; 98]).
  - exists {| lk_path := [47; 97]; lk_base := [47; 97]; lk_parent := false |},
           {| enabled_by := None; depends := Some [98]; default_depends := None; port_name := [97] |}, [98].
    repeat split; try (vm_compute; reflexivity); try discriminate.
    + vm_compute. left. reflexivity.
    + vm_compute. left. reflexivity.
  - vm_compute. reflexivity.
  - apply R_direct.
    + exists {| lk_path := [47; 98]; lk_base := [47; 98]; lk_parent := false |},
             {| enabled_by := None; depends := Some [99]; default_depends := None; port_name := [98] |}, [99].
      repeat split; try (vm_compute; reflexivity); try discriminate.
      * vm_compute. left. reflexivity.
      * vm_compute. left. reflexivity.
    + vm_compute. reflexivity.
Qed.
