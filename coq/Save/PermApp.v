(* C13 - permuting the lines of a savefile of the abstract application changes
   neither the state the loader leaves nor the count: the commutation of
   independent messages is proved (CommuteProofs.v), not assumed. *)
From Coq Require Import List ZArith Bool Lia Permutation Arith.
From RtoscV Require Import Save.TopoModel Save.KahnProofs Save.TopoProofs Save.TopoEdges Save.TopoPerm
                           Save.SaveModel Save.SaveProofs Save.RoundProofs Save.RoundFull Save.CommuteProofs.
Import ListNotations.

(* ---- linear extensions agree, with a state invariant and commutation only among
   the messages of the file -------------------------------------------------------- *)
Section LinExtInv.
  Variables (X S : Type) (R : X -> X -> Prop) (f : X -> S -> S) (P : S -> Prop) (U : list X).
  Hypothesis pres : forall x s, P s -> P (f x s).
  Hypothesis commute : forall x y s, In x U -> In y U -> P s -> ~ R x y -> ~ R y x ->
                                     f x (f y s) = f y (f x s).

  Lemma move_front_inv : forall pre a post s,
    (forall p, In p pre -> In p U /\ ~ R a p /\ ~ R p a) -> In a U -> P s ->
    run X S f (pre ++ a :: post) s = run X S f (a :: pre ++ post) s.
  Proof.
    induction pre as [|p pre IH]; intros a post s H Ha Hs.
    - reflexivity.
    - unfold run in *. simpl.
      rewrite IH; [|intros q Hq; apply H; right; assumption | assumption | apply pres; assumption].
      simpl. destruct (H p (or_introl eq_refl)) as (Hp & Hap & Hpa).
      rewrite (commute a p s Ha Hp Hs Hap Hpa). reflexivity.
  Qed.

  Theorem linext_unique_inv : forall l1 l2,
    incl l1 U -> NoDup l1 -> Permutation l1 l2 -> respects R l1 -> respects R l2 ->
    forall s, P s -> run X S f l1 s = run X S f l2 s.
  Proof.
    induction l1 as [|a l1 IH]; intros l2 Hu Hnd Hp H1 H2 s Hs.
    - apply Permutation_nil in Hp. subst l2. reflexivity.
    - assert (Ha : In a l2) by (eapply Permutation_in; [exact Hp | left; reflexivity]).
      apply in_split in Ha. destruct Ha as [pre [post Hl2]]. subst l2.
      assert (Hnd2 : NoDup (pre ++ a :: post)) by (eapply Permutation_NoDup; eassumption).
      rewrite move_front_inv.
      + simpl. apply IH.
        * intros x Hx. apply Hu. right. assumption.
        * inversion Hnd; assumption.
        * eapply Permutation_cons_app_inv; eassumption.
        * simpl in H1. tauto.
        * eapply respects_remove; eassumption.
        * apply pres. assumption.
      + intros p Hpin.
        assert (Hin : In p (a :: l1)).
        { eapply Permutation_in; [apply Permutation_sym; exact Hp|]. apply in_or_app. left. assumption. }
        split; [apply Hu; assumption|]. split.
        * eapply respects_before; eassumption.
        * simpl in H1. destruct H1 as [H1 _]. apply H1.
          destruct Hin as [Hin|Hin]; [|assumption].
          subst p. exfalso. apply NoDup_remove_2 in Hnd2. apply Hnd2. apply in_or_app. left. assumption.
      + apply Hu. left. reflexivity.
      + assumption.
  Qed.
End LinExtInv.

Lemma nodup_map_inj : forall (X Y : Type) (g : X -> Y) l x y,
  NoDup (map g l) -> In x l -> In y l -> g x = g y -> x = y.
Proof.
  induction l as [|h t IH]; intros x y Hnd Hx Hy He; simpl in *; [contradiction|].
  inversion Hnd as [|? ? Hn Hnd']; subst.
  destruct Hx as [Hx|Hx]; destruct Hy as [Hy|Hy]; subst.
  - reflexivity.
  - exfalso. apply Hn. rewrite He. apply in_map. assumption.
  - exfalso. apply Hn. rewrite <- He. apply in_map. assumption.
  - apply IH; assumption.
Qed.

Section App.
  Variable a : app.
  Variable apropos : str -> option pmeta.
  Variable fuel : nat.
  Hypothesis WF : wf_app a.

  (* the metadata the lookup returns declares the application's dependencies: the
     selector of a port / the switch of a sub-tree above it is named by an entry of
     "default depends" / "enabled by" of the port or of one of its parents *)
  Definition declared : Prop :=
    forall i j, (i < length a)%nat -> (j < length a)%nat -> must_precede a i j ->
      exists ic m e, In ic (flagged (ancestors (p_path (port_at a j)))) /\
                     apropos (if fst ic then snd ic ++ [slash] else snd ic) = Some m /\
                     In e (dep_values m) /\ resolve_entry (fst ic) (port_name m) e (snd ic) = Some (p_path (port_at a i)).
  Hypothesis DECL : declared.

  Definition msgs (ls : list line) : list (message line) := map (fun l => (l_path l, l)) ls.
  Definition step_msg (m : message line) (o : option state) : option state := step_line a (snd m) o.

  Lemma msgs_fst : forall ls, map fst (msgs ls) = map l_path ls.
  Proof. intros ls. unfold msgs. rewrite map_map. reflexivity. Qed.

  (* C13_perm_invariant *)
  Theorem perm_invariant_app : forall (ls1 ls2 : list line) ps1 ps2 d,
    NoDup (map l_path ls1) -> Permutation ls1 ls2 ->
    pushes line apropos fuel (msgs ls1) = Some ps1 -> pushes line apropos fuel (msgs ls2) = Some ps2 ->
    ranked ps1 -> ranked ps2 ->
    exists o1 o2,
      load_order apropos fuel (msgs ls1) = Some o1 /\ load_order apropos fuel (msgs ls2) = Some o2 /\
      length o1 = length o2 /\
      forall s0, length s0 = length a ->
        run _ _ step_msg (map (fun i => nth i (msgs ls1) d) o1) (Some s0)
        = run _ _ step_msg (map (fun i => nth i (msgs ls2) d) o2) (Some s0).
  Proof.
    intros ls1 ls2 ps1 ps2 d Hnd Hperm Hp1 Hp2 Hr1 Hr2.
    set (ms1 := msgs ls1) in *. set (ms2 := msgs ls2) in *.
    assert (Hndm : NoDup (map fst ms1)) by (unfold ms1; rewrite msgs_fst; assumption).
    assert (Hpm : Permutation ms1 ms2) by (unfold ms1, ms2, msgs; apply Permutation_map; assumption).
    destruct (load_order_topo line apropos fuel ms1 ps1 Hp1 Hr1) as (o1 & Ho1 & Hpo1 & Hres1).
    destruct (load_order_topo line apropos fuel ms2 ps2 Hp2 Hr2) as (o2 & Ho2 & Hpo2 & Hres2).
    exists o1, o2. split; [assumption|]. split; [assumption|].
    assert (Hnd2 : NoDup (map fst ms2)).
    { eapply Permutation_NoDup; [apply Permutation_map; exact Hpm | exact Hndm]. }
    assert (Hlen : length ms1 = length ms2) by (apply Permutation_length; assumption).
    split.
    { rewrite (Permutation_length Hpo1), (Permutation_length Hpo2), !seq_length. assumption. }
    set (s1 := map (fun i => nth i ms1 d) o1). set (s2 := map (fun i => nth i ms2 d) o2).
    assert (Hs1 : Permutation s1 ms1).
    { unfold s1. eapply Permutation_trans; [apply Permutation_map; exact Hpo1|]. rewrite map_nth_seq. apply Permutation_refl. }
    assert (Hs2 : Permutation s2 ms2).
    { unfold s2. eapply Permutation_trans; [apply Permutation_map; exact Hpo2|]. rewrite map_nth_seq. apply Permutation_refl. }
    assert (Hlt1 : forall x, In x o1 -> (x < length ms1)%nat).
    { intros x Hx. eapply Permutation_in in Hx; [|exact Hpo1]. apply in_seq in Hx. lia. }
    assert (Hlt2 : forall x, In x o2 -> (x < length ms2)%nat).
    { intros x Hx. eapply Permutation_in in Hx; [|exact Hpo2]. apply in_seq in Hx. lia. }
    set (W := waits_for line apropos fuel (map_keys line ms1)).
    assert (Hw1 : respects W s1).
    { unfold s1. eapply respects_map_inv; [|exact Hres1].
      intros y x Hy Hx Hw. exact (waits_is_edge line apropos fuel ms1 ps1 d y x Hndm Hp1 (Hlt1 y Hy) (Hlt1 x Hx) Hw). }
    assert (Hw2 : respects W s2).
    { unfold s2. eapply respects_map_inv; [|exact Hres2].
      intros y x Hy Hx [ds [Hs Hin]].
      apply (waits_is_edge line apropos fuel ms2 ps2 d y x Hnd2 Hp2 (Hlt2 y Hy) (Hlt2 x Hx)).
      exists ds. split; [|assumption].
      rewrite <- (same_edges line apropos fuel ms1 ms2 _ _ Hpm). assumption. }
    assert (Hnd_s1 : NoDup s1).
    { eapply Permutation_NoDup; [apply Permutation_sym; exact Hs1|]. eapply NoDup_map_inv; exact Hndm. }
    (* every address of the file has its scan *)
    assert (Hscan : forall m, In m ms1 -> exists ds, scan_deps apropos (map_keys line ms1) fuel (fst m) (fst m) = Some ds).
    { intros m Hm. rewrite pushes_unfold in Hp1. destruct (acc_some _ _ _ _ _ _ Hp1) as [_ Hall].
      assert (Hk : In (fst m) (map_keys line ms1)) by (apply in_map_keys; apply in_map; assumption).
      destruct (Hall _ Hk) as [l' [Hl' _]]. unfold push_of in Hl'.
      destruct (scan_deps apropos (map_keys line ms1) fuel (fst m) (fst m)) as [ds|]; [exists ds; reflexivity | discriminate]. }
    (* a declared dependency between two lines of the file is an edge *)
    assert (Hdecl : forall x y i vs j ws, In x ms1 -> In y ms1 ->
              line_target a (snd x) = Some (i, vs) -> line_target a (snd y) = Some (j, ws) ->
              must_precede a i j -> W x y).
    { intros x y i vs j ws Hx Hy Tx Ty Hm.
      destruct (target_facts a (snd x) i vs Tx) as [Hi Hpi]. destruct (target_facts a (snd y) j ws Ty) as [Hj Hpj].
      assert (Fx : fst x = l_path (snd x)).
      { unfold ms1, msgs in Hx. apply in_map_iff in Hx. destruct Hx as [l [Hl _]]. subst x. reflexivity. }
      assert (Fy : fst y = l_path (snd y)).
      { unfold ms1, msgs in Hy. apply in_map_iff in Hy. destruct Hy as [l [Hl _]]. subst y. reflexivity. }
      destruct (DECL i j Hi Hj Hm) as (ic & m & e & Hic & Hap & He & Hrel).
      destruct (Hscan y Hy) as [ds Hds]. unfold W, waits_for. exists ds. split; [assumption|].
      rewrite Fx, <- Hpi. rewrite Fy, <- Hpj in Hds.
      assert (Hne : p_path (port_at a i) <> p_path (port_at a j)).
      { intro Hc. pose proof (find_port_at a i (w_paths a WF) Hi) as F1.
        pose proof (find_port_at a j (w_paths a WF) Hj) as F2. rewrite Hc in F1.
        assert (i = j) by congruence. subst j. exact (not_self a WF i Hi Hm). }
      apply flagged_in_lookups in Hic.
      eapply (scan_complete apropos _ _ _ fuel ds {| lk_path := lookup_path ic; lk_base := snd ic; lk_parent := fst ic |} m e); try eassumption.
      rewrite has_key_map_keys. apply existsb_exists. exists (fst x). split; [apply in_map; assumption|].
      rewrite Fx, <- Hpi. apply streqb_true. reflexivity. }
    intros s0 Hs0.
    apply (linext_unique_inv (message line) (option state) W step_msg (okstate a) ms1).
    - intros x o Ho. apply step_line_ok; assumption.
    - intros x y o Hx Hy Ho Hnxy Hnyx. unfold step_msg.
      destruct (list_eq_dec Z.eq_dec (fst x) (fst y)) as [E|E].
      + assert (x = y) by (apply (nodup_map_inj _ _ fst ms1 x y Hndm Hx Hy E)). subst y. reflexivity.
      + apply lines_commute; [assumption | assumption|].
        intros i vs j ws Tx Ty. split; [|split].
        * intro Hij. subst j. apply E.
          destruct (target_facts a (snd x) i vs Tx) as [_ Hpi]. destruct (target_facts a (snd y) i ws Ty) as [_ Hpj].
          assert (Fx : fst x = l_path (snd x)).
          { unfold ms1, msgs in Hx. apply in_map_iff in Hx. destruct Hx as [l [Hl _]]. subst x. reflexivity. }
          assert (Fy : fst y = l_path (snd y)).
          { unfold ms1, msgs in Hy. apply in_map_iff in Hy. destruct Hy as [l [Hl _]]. subst y. reflexivity. }
          congruence.
        * intro Hm. apply Hnxy. eapply Hdecl; eassumption.
        * intro Hm. apply Hnyx. eapply Hdecl; eassumption.
    - intros x Hx. eapply Permutation_in; eassumption.
    - assumption.
    - eapply Permutation_trans; [exact Hs1|]. eapply Permutation_trans; [exact Hpm|]. apply Permutation_sym. exact Hs2.
    - assumption.
    - assumption.
    - exact Hs0.
  Qed.
End App.

(* ---- in terms of the loader's own loop (apply_all: stops at the first line no port accepts) *)
Section Loader.
  Variable a : app.

  Lemma run_none : forall ms, run _ _ (step_msg a) ms None = None.
  Proof. induction ms as [|m ms IH]; [reflexivity | exact IH]. Qed.

  Lemma run_apply_all : forall ms s,
    run _ _ (step_msg a) ms (Some s) =
    if snd (apply_all a (map snd ms) s) then Some (fst (apply_all a (map snd ms) s)) else None.
  Proof.
    induction ms as [|m ms IH]; intros s; [reflexivity|].
    unfold run in *. simpl. unfold step_msg at 1. unfold step_line. simpl.
    destruct (apply_line a (snd m) s) as [s'|]; [apply IH|].
    simpl. apply run_none.
  Qed.
End Loader.

Theorem perm_invariant_loader : forall a apropos fuel, wf_app a -> declared a apropos ->
  forall (ls1 ls2 : list line) ps1 ps2 d,
    NoDup (map l_path ls1) -> Permutation ls1 ls2 ->
    pushes line apropos fuel (msgs ls1) = Some ps1 -> pushes line apropos fuel (msgs ls2) = Some ps2 ->
    ranked ps1 -> ranked ps2 ->
    exists o1 o2,
      load_order apropos fuel (msgs ls1) = Some o1 /\ load_order apropos fuel (msgs ls2) = Some o2 /\
      length o1 = length o2 /\
      forall s0, length s0 = length a ->
        let r1 := apply_all a (map snd (map (fun i => nth i (msgs ls1) d) o1)) s0 in
        let r2 := apply_all a (map snd (map (fun i => nth i (msgs ls2) d) o2)) s0 in
        snd r1 = snd r2 /\ (snd r1 = true -> fst r1 = fst r2).
Proof.
  intros a apropos fuel WF DECL ls1 ls2 ps1 ps2 d Hnd Hperm Hp1 Hp2 Hr1 Hr2.
  destruct (perm_invariant_app a apropos fuel WF DECL ls1 ls2 ps1 ps2 d Hnd Hperm Hp1 Hp2 Hr1 Hr2)
    as (o1 & o2 & Ho1 & Ho2 & Hlen & Hrun).
  exists o1, o2. split; [assumption|]. split; [assumption|]. split; [assumption|].
  intros s0 Hs0. specialize (Hrun s0 Hs0). rewrite !run_apply_all in Hrun. simpl.
  destruct (snd (apply_all a (map snd (map (fun i => nth i (msgs ls1) d) o1)) s0));
    destruct (snd (apply_all a (map snd (map (fun i => nth i (msgs ls2) d) o2)) s0));
    try discriminate; split; try reflexivity; intros; try discriminate.
  inversion Hrun. reflexivity.
Qed.

(* ---- the REPORTED value: dispatch_printed on two files that are permutations of each other --- *)
Definition item_lines (its : list item) : list line :=
  flat_map (fun it => match it with Msg l _ => [l] | Junk => [] end) its.
Definition item_bytes (its : list item) : Z :=
  fold_right (fun it acc => match it with Msg _ rd => (rd + acc)%Z | Junk => acc end) 0%Z its.

Lemma scan_items_ok : forall its ls tot, scan_items its = (ls, tot, true) ->
  ls = item_lines its /\ tot = item_bytes its.
Proof.
  induction its as [|it its IH]; intros ls tot H; simpl in H.
  - inversion H; subst. split; reflexivity.
  - destruct it as [l rd|]; [|discriminate].
    destruct (scan_items its) as [[ls' tot'] ok'] eqn:E. inversion H; subst.
    destruct (IH ls' tot' eq_refl) as [-> ->]. split; reflexivity.
Qed.

Lemma item_bytes_perm : forall its1 its2, Permutation its1 its2 -> item_bytes its1 = item_bytes its2.
Proof.
  induction 1 as [|x l l' _ IH|x y l|l l' l'' _ IH1 _ IH2]; simpl.
  - reflexivity.
  - destruct x; rewrite IH; reflexivity.
  - destruct x, y; lia.
  - congruence.
Qed.

Lemma item_lines_perm : forall its1 its2, Permutation its1 its2 -> Permutation (item_lines its1) (item_lines its2).
Proof. intros. unfold item_lines. apply Permutation_flat_map. assumption. Qed.

Lemma pick_msgs : forall ls o,
  map snd (map (fun i => nth i (msgs ls) (l_path dummy_line, dummy_line)) o) = pick ls dummy_line o.
Proof.
  intros ls o. unfold pick, msgs. rewrite map_map. apply map_ext. intros i.
  change (l_path dummy_line, dummy_line) with ((fun l => (l_path l, l)) dummy_line).
  rewrite map_nth. reflexivity.
Qed.

(* C13_perm_invariant for what load_from_file's body loop REPORTS: two files holding the same
   scanned messages (with the bytes each took) in any order give the same return value - the
   number of lines when every line is accepted, -rd_total-1 otherwise - and, when accepted, the
   same state *)
Theorem perm_invariant_reported : forall a apropos fuel, wf_app a -> declared a apropos ->
  forall (its1 its2 : list item) ls1 ls2 tot1 tot2 ps1 ps2,
    scan_items its1 = (ls1, tot1, true) -> scan_items its2 = (ls2, tot2, true) ->
    rd_nonneg its1 -> Permutation its1 its2 -> NoDup (map l_path ls1) ->
    pushes line apropos fuel (msgs ls1) = Some ps1 -> pushes line apropos fuel (msgs ls2) = Some ps2 ->
    ranked ps1 -> ranked ps2 ->
    forall s0, length s0 = length a ->
    exists r st1 st2,
      dispatch_printed apropos fuel a its1 s0 = Some (r, st1) /\
      dispatch_printed apropos fuel a its2 s0 = Some (r, st2) /\
      ((0 <= r)%Z -> st1 = st2 /\ r = Z.of_nat (length ls1)) /\
      ((r < 0)%Z -> r = (- tot1 - 1)%Z).
Proof.
  intros a apropos fuel WF DECL its1 its2 ls1 ls2 tot1 tot2 ps1 ps2 Hs1 Hs2 Hnn Hperm Hnd Hp1 Hp2 Hr1 Hr2 s0 Hs0.
  destruct (scan_items_ok _ _ _ Hs1) as [El1 Et1]. destruct (scan_items_ok _ _ _ Hs2) as [El2 Et2].
  assert (Hpl : Permutation ls1 ls2) by (subst; apply item_lines_perm; assumption).
  assert (Htot : tot1 = tot2) by (subst; apply item_bytes_perm; assumption).
  destruct (perm_invariant_loader a apropos fuel WF DECL ls1 ls2 ps1 ps2 (l_path dummy_line, dummy_line)
              Hnd Hpl Hp1 Hp2 Hr1 Hr2) as (o1 & o2 & Ho1 & Ho2 & Hlen & Hrun).
  specialize (Hrun s0 Hs0). cbv zeta in Hrun. rewrite !pick_msgs in Hrun.
  unfold dispatch_printed. rewrite Hs1, Hs2.
  change (map (fun l : line => (l_path l, l)) ls1) with (msgs ls1).
  change (map (fun l : line => (l_path l, l)) ls2) with (msgs ls2).
  rewrite Ho1, Ho2.
  destruct (apply_all a (pick ls1 dummy_line o1) s0) as [st1 g1].
  destruct (apply_all a (pick ls2 dummy_line o2) s0) as [st2 g2].
  cbn [fst snd] in Hrun. destruct Hrun as [Hg Hst]. subst g2.
  assert (Hll : length ls1 = length ls2) by (apply Permutation_length; assumption).
  destruct (scan_items_spec its1 ls1 tot1 true Hnn Hs1) as [Ht _].
  destruct g1.
  - exists (Z.of_nat (length ls1)), st1, st2. rewrite <- Hll.
    split; [reflexivity|]. split; [reflexivity|]. split; [intros _; split; [exact (Hst eq_refl) | reflexivity]|]. lia.
  - exists (- tot1 - 1)%Z, st1, st2. rewrite <- Htot.
    split; [reflexivity|]. split; [reflexivity|]. split; [lia | reflexivity].
Qed.
