(* C13 - correctness of the sort as coded (kahn / kahn_loop / release /
   count_inputs of TopoModel.v): on ranked (acyclic) dependencies the result is
   a permutation of all message indices that respects every edge, and the
   fuel (= number of messages) never runs out. *)
From Coq Require Import List ZArith Bool Lia Permutation Arith.
From RtoscV Require Import Save.TopoModel.
Import ListNotations.
Local Open Scope Z_scope.

Definition occ (l : list nat) (v : nat) : Z := Z.of_nat (count_occ Nat.eq_dec l v).
Definition get (cnt : list Z) (v : nat) : Z := nth v cnt 1.

Lemma occ_nonneg : forall l v, 0 <= occ l v.
Proof. intros. unfold occ. lia. Qed.
Lemma occ_cons : forall d l v, occ (d :: l) v = (if Nat.eq_dec d v then 1 else 0) + occ l v.
Proof. intros. unfold occ. simpl. destruct (Nat.eq_dec d v); lia. Qed.
Lemma occ_pos_in : forall l v, occ l v <> 0 <-> In v l.
Proof.
  intros l v. unfold occ. rewrite (count_occ_In Nat.eq_dec). lia.
Qed.

(* ---- bump ---------------------------------------------------------------- *)
Lemma bump_spec : forall d cnt delta, (d < length cnt)%nat ->
  length (bump cnt d delta) = length cnt /\
  forall v, get (bump cnt d delta) v = if Nat.eq_dec v d then get cnt v + delta else get cnt v.
Proof.
  unfold get, bump. induction d as [|d IH]; intros cnt delta H; destruct cnt as [|c t]; simpl in H; try lia.
  - simpl. split; [reflexivity|]. intros v. destruct v; destruct (Nat.eq_dec _ 0); try lia; reflexivity.
  - simpl. destruct (IH t delta ltac:(lia)) as [Hl Hv]. split.
    + simpl in *. rewrite Hl. reflexivity.
    + intros v. destruct v as [|v].
      * destruct (Nat.eq_dec 0 (S d)); [lia | reflexivity].
      * specialize (Hv v). simpl in Hv. rewrite Hv.
        destruct (Nat.eq_dec v d); destruct (Nat.eq_dec (S v) (S d)); try lia; reflexivity.
Qed.

(* ---- counting the inputs -------------------------------------------------- *)
Fixpoint indeg (deps : nat -> list nat) (srcs : list nat) (v : nat) : Z :=
  match srcs with
  | [] => 0
  | m :: t => occ (deps m) v + indeg deps t v
  end.

Lemma indeg_app : forall deps a b v, indeg deps (a ++ b) v = indeg deps a v + indeg deps b v.
Proof. induction a; intros; simpl; [lia | rewrite IHa; lia]. Qed.
Lemma indeg_nonneg : forall deps l v, 0 <= indeg deps l v.
Proof. induction l; intros; simpl; [lia | pose proof (occ_nonneg (deps a) v); specialize (IHl v); lia]. Qed.
Lemma indeg_perm : forall deps a b v, Permutation a b -> indeg deps a v = indeg deps b v.
Proof. intros deps a b v H. induction H; simpl; lia. Qed.
Lemma indeg_ge : forall deps l m v, In m l -> occ (deps m) v <= indeg deps l v.
Proof.
  induction l as [|x l IH]; intros m v H; simpl in *; [contradiction|].
  pose proof (occ_nonneg (deps x) v). pose proof (indeg_nonneg deps l v).
  destruct H as [H|H]; [subst; lia | specialize (IH m v H); lia].
Qed.
Lemma indeg_pos : forall deps l v, indeg deps l v <> 0 -> exists u, In u l /\ In v (deps u).
Proof.
  induction l as [|x l IH]; intros v H; simpl in H; [lia|].
  destruct (Z.eq_dec (occ (deps x) v) 0) as [E|E].
  - destruct (IH v ltac:(lia)) as [u [Hu Hv]]. exists u. split; [right|]; assumption.
  - exists x. split; [left; reflexivity | apply occ_pos_in; assumption].
Qed.

Section Kahn.
  Variable n : nat.
  Variable deps : nat -> list nat.
  Hypothesis deps_lt : forall m d, In d (deps m) -> (d < n)%nat.

  Lemma add_all : forall ds cnt, length cnt = n -> (forall d, In d ds -> (d < n)%nat) ->
    length (fold_left (fun c d => bump c d 1) ds cnt) = n /\
    forall v, get (fold_left (fun c d => bump c d 1) ds cnt) v = get cnt v + occ ds v.
  Proof.
    induction ds as [|d ds IH]; intros cnt Hl Hd; simpl.
    - split; [assumption|]. intros v. unfold occ. simpl. lia.
    - destruct (bump_spec d cnt 1 ltac:(rewrite Hl; apply Hd; left; reflexivity)) as [Hl1 Hv1].
      destruct (IH (bump cnt d 1) ltac:(lia) ltac:(intros; apply Hd; right; assumption)) as [Hl2 Hv2].
      split; [assumption|]. intros v. rewrite Hv2, Hv1, occ_cons.
      destruct (Nat.eq_dec v d); destruct (Nat.eq_dec d v); try lia.
  Qed.

  Lemma count_inputs_from : forall srcs cnt, length cnt = n ->
    length (fold_left (fun cnt m => fold_left (fun c d => bump c d 1) (deps m) cnt) srcs cnt) = n /\
    forall v, get (fold_left (fun cnt m => fold_left (fun c d => bump c d 1) (deps m) cnt) srcs cnt) v
              = get cnt v + indeg deps srcs v.
  Proof.
    induction srcs as [|m srcs IH]; intros cnt Hl; simpl.
    - split; [assumption | intros; lia].
    - destruct (add_all (deps m) cnt Hl (deps_lt m)) as [Hl1 Hv1].
      destruct (IH _ Hl1) as [Hl2 Hv2]. split; [assumption|].
      intros v. rewrite Hv2, Hv1. lia.
  Qed.

  Definition total (v : nat) : Z := indeg deps (seq 0 n) v.

  Lemma count_inputs_spec :
    length (count_inputs n deps) = n /\
    forall v, (v < n)%nat -> get (count_inputs n deps) v = total v.
  Proof.
    unfold count_inputs.
    destruct (count_inputs_from (seq 0 n) (repeat 0 n) (repeat_length _ _)) as [Hl Hv].
    split; [assumption|]. intros v Hlt. rewrite Hv. unfold get.
    assert (Hr : forall k w, (w < k)%nat -> nth w (repeat 0 k) 1 = 0).
    { induction k as [|k IHk]; intros w Hw; [lia|]. destruct w; simpl; [reflexivity | apply IHk; lia]. }
    rewrite (Hr n v Hlt). unfold total. lia.
  Qed.

  (* ---- the inner loop: release the messages that waited for m ------------- *)
  Definition rel_step (cq : list Z * list nat) (d : nat) : list Z * list nat :=
    let c' := bump (fst cq) d (-1) in
    (c', if nth d c' 1 =? 0 then snd cq ++ [d] else snd cq).

  Lemma release_spec : forall ds cnt q,
    length cnt = n -> (forall d, In d ds -> (d < n)%nat) -> (forall v, occ ds v <= get cnt v) ->
    length (fst (fold_left rel_step ds (cnt, q))) = n /\
    (forall v, get (fst (fold_left rel_step ds (cnt, q))) v = get cnt v - occ ds v) /\
    exists pushed, snd (fold_left rel_step ds (cnt, q)) = q ++ pushed /\ NoDup pushed /\
                   forall x, In x pushed <-> (In x ds /\ get cnt x - occ ds x = 0).
  Proof.
    induction ds as [|d r IH]; intros cnt q Hl Hd Hge.
    - simpl. split; [assumption|]. split; [intros v; unfold occ; simpl; lia|].
      exists []. rewrite app_nil_r. split; [reflexivity|]. split; [constructor|].
      intros x. simpl. tauto.
    - simpl fold_left.
      destruct (bump_spec d cnt (-1) ltac:(rewrite Hl; apply Hd; left; reflexivity)) as [Hl1 Hv1].
      set (c1 := bump cnt d (-1)) in *.
      assert (Hge1 : forall v, occ r v <= get c1 v).
      { intros v. specialize (Hge v). rewrite occ_cons in Hge. rewrite Hv1.
        destruct (Nat.eq_dec v d); destruct (Nat.eq_dec d v); try lia. }
      set (q1 := if nth d c1 1 =? 0 then q ++ [d] else q).
      change (rel_step (cnt, q) d) with (c1, q1).
      destruct (IH c1 q1 ltac:(lia) ltac:(intros; apply Hd; right; assumption) Hge1)
        as (Hlen & Hget & pushed & Hsnd & Hnd & Hin).
      split; [assumption|]. split.
      { intros v. rewrite Hget, Hv1, occ_cons.
        destruct (Nat.eq_dec v d); destruct (Nat.eq_dec d v); try lia. }
      assert (Hd1 : get c1 d = get cnt d - 1).
      { rewrite Hv1. destruct (Nat.eq_dec d d); [lia | congruence]. }
      assert (Hocc_d : occ (d :: r) d = 1 + occ r d).
      { rewrite occ_cons. destruct (Nat.eq_dec d d); [lia | congruence]. }
      destruct (nth d c1 1 =? 0) eqn:E.
      + apply Z.eqb_eq in E. change (nth d c1 1) with (get c1 d) in E.
        assert (Hr0 : occ r d = 0).
        { pose proof (Hge1 d). pose proof (occ_nonneg r d). lia. }
        assert (Hnotin : ~ In d r) by (intro Hc; apply occ_pos_in in Hc; lia).
        exists (d :: pushed). subst q1. rewrite Hsnd, <- app_assoc. split; [reflexivity|]. split.
        * constructor; [|assumption]. intro Hc. apply Hin in Hc. tauto.
        * intros x. simpl. rewrite Hin. destruct (Nat.eq_dec x d) as [Ex|Ex].
          -- subst x. split; [intros _; split; [left; reflexivity | lia] | intros _; left; reflexivity].
          -- rewrite Hv1, occ_cons. destruct (Nat.eq_dec x d); [congruence|].
             destruct (Nat.eq_dec d x); [congruence|].
             split.
             ++ intros [Hc|[H1 H2]]; [congruence|]. split; [right; assumption | lia].
             ++ intros [[Hc|H1] H2]; [congruence|]. right. split; [assumption | lia].
      + apply Z.eqb_neq in E. change (nth d c1 1) with (get c1 d) in E.
        exists pushed. subst q1. split; [assumption|]. split; [assumption|].
        intros x. rewrite Hin. destruct (Nat.eq_dec x d) as [Ex|Ex].
        * subst x. rewrite Hocc_d. split.
          -- intros [H1 H2]. split; [left; reflexivity | lia].
          -- intros [_ H2]. split; [|lia].
             apply occ_pos_in. lia.
        * rewrite Hv1, occ_cons. destruct (Nat.eq_dec x d); [congruence|].
          destruct (Nat.eq_dec d x); [congruence|]. simpl.
          split.
          -- intros [H1 H2]. split; [right; assumption | lia].
          -- intros [[Hc|H1] H2]; [congruence|]. split; [assumption | lia].
  Qed.

  Lemma release_is_fold : forall m cq, release deps m cq = fold_left rel_step (deps m) cq.
  Proof. reflexivity. Qed.

  (* ---- small list facts ---------------------------------------------------- *)
  Lemma nodup_app : forall (a b : list nat), NoDup a -> NoDup b ->
    (forall x, In x a -> ~ In x b) -> NoDup (a ++ b).
  Proof.
    induction a as [|x a IH]; intros b Ha Hb Hd; simpl; [assumption|].
    inversion Ha; subst. constructor.
    - intro Hc. apply in_app_or in Hc. destruct Hc as [Hc|Hc]; [contradiction|].
      apply (Hd x); [left; reflexivity | assumption].
    - apply IH; [assumption | assumption | intros y Hy; apply Hd; right; assumption].
  Qed.
  Lemma nodup_app_disj : forall (a b : list nat) x, NoDup (a ++ b) -> In x a -> ~ In x b.
  Proof.
    induction a as [|y a IH]; intros b x H Hx; simpl in *; [contradiction|].
    inversion H; subst. destruct Hx as [Hx|Hx].
    - subst y. intro Hc. apply H2. apply in_or_app. right. assumption.
    - apply IH; assumption.
  Qed.
  Lemma nodup_app_r : forall (a b : list nat), NoDup (a ++ b) -> NoDup b.
  Proof. induction a as [|x a IH]; intros b H; simpl in *; [assumption|]. inversion H; subst. apply IH; assumption. Qed.
  Lemma nodup_app_l : forall (a b : list nat), NoDup (a ++ b) -> NoDup a.
  Proof.
    induction a as [|x a IH]; intros b H; simpl in *; [constructor|]. inversion H; subst. constructor.
    - intro Hc. apply H2. apply in_or_app. left. assumption.
    - eapply IH; eassumption.
  Qed.
  Lemma respects_snoc : forall (R : nat -> nat -> Prop) l m,
    respects R l -> (forall x, In x l -> ~ R m x) -> respects R (l ++ [m]).
  Proof.
    induction l as [|x l IH]; intros m H Hm; simpl.
    - split; [intros y []|exact I].
    - simpl in H. destruct H as [H1 H2]. split.
      + intros y Hy. apply in_app_or in Hy. destruct Hy as [Hy|[Hy|[]]].
        * apply H1; assumption.
        * subst y. apply Hm. left. reflexivity.
      + apply IH; [assumption | intros y Hy; apply Hm; right; assumption].
  Qed.

  (* ---- the messages not handed out yet -------------------------------------- *)
  Definition notin (done : list nat) (u : nat) : bool := negb (existsb (Nat.eqb u) done).
  Definition remaining (done : list nat) : list nat := filter (notin done) (seq 0 n).

  Lemma notin_spec : forall done u, notin done u = true <-> ~ In u done.
  Proof.
    intros done u. unfold notin. rewrite negb_true_iff. split.
    - intros H Hc. assert (existsb (Nat.eqb u) done = true).
      { apply existsb_exists. exists u. split; [assumption | apply Nat.eqb_refl]. }
      congruence.
    - intros H. destruct (existsb (Nat.eqb u) done) eqn:E; [|reflexivity].
      apply existsb_exists in E. destruct E as [x [Hx Hux]]. apply Nat.eqb_eq in Hux. subst x. contradiction.
  Qed.
  Lemma remaining_in : forall done u, In u (remaining done) <-> ((u < n)%nat /\ ~ In u done).
  Proof.
    intros done u. unfold remaining. rewrite filter_In, in_seq, notin_spec. split; intros [H1 H2]; split; try assumption; lia.
  Qed.

  Lemma split_done : forall done v, NoDup done -> (forall x, In x done -> (x < n)%nat) ->
    total v - indeg deps done v = indeg deps (remaining done) v.
  Proof.
    intros done v Hnd Hlt. unfold total.
    assert (Hp : Permutation (seq 0 n) (done ++ remaining done)).
    { apply NoDup_Permutation.
      - apply seq_NoDup.
      - apply nodup_app; [assumption | apply NoDup_filter; apply seq_NoDup |].
        intros x Hx Hc. apply remaining_in in Hc. tauto.
      - intros x. rewrite in_seq, in_app_iff, remaining_in. split.
        + intros H. destruct (in_dec Nat.eq_dec x done); [left; assumption | right; split; [lia | assumption]].
        + intros [H|[H _]]; [specialize (Hlt x H); lia | lia]. }
    rewrite (indeg_perm deps _ _ v Hp), indeg_app. lia.
  Qed.

  (* ---- the invariant of while(!queue.empty()) -------------------------------- *)
  Definition waits (y x : nat) : Prop := In x (deps y).     (* y has to come before x *)

  Record Inv (cnt : list Z) (queue done : list nat) : Prop := {
    i_len : length cnt = n;
    i_cnt : forall v, (v < n)%nat -> get cnt v = total v - indeg deps done v;
    i_nodup : NoDup (queue ++ done);
    i_lt : forall x, In x (queue ++ done) -> (x < n)%nat;
    i_zero : forall v, (v < n)%nat -> (In v (queue ++ done) <-> get cnt v = 0);
    i_resp : respects waits done }.

  Lemma inv_done_facts : forall cnt queue done, Inv cnt queue done ->
    NoDup done /\ (forall x, In x done -> (x < n)%nat).
  Proof.
    intros cnt queue done I. split.
    - eapply nodup_app_r. apply (i_nodup _ _ _ I).
    - intros x Hx. apply (i_lt _ _ _ I). apply in_or_app. right. assumption.
  Qed.

  Lemma inv_cnt_rem : forall cnt queue done v, Inv cnt queue done -> (v < n)%nat ->
    get cnt v = indeg deps (remaining done) v.
  Proof.
    intros cnt queue done v I Hv. destruct (inv_done_facts _ _ _ I) as [Hnd Hlt].
    rewrite (i_cnt _ _ _ I v Hv). apply split_done; assumption.
  Qed.

  Lemma step_inv : forall cnt m q done, Inv cnt (m :: q) done ->
    Inv (fst (release deps m (cnt, q))) (snd (release deps m (cnt, q))) (done ++ [m]).
  Proof.
    intros cnt m q done I.
    destruct (inv_done_facts _ _ _ I) as [Hnd_done Hlt_done].
    pose proof (i_nodup _ _ _ I) as Hnd. simpl in Hnd. inversion Hnd as [|? ? Hm_notin Hnd_qd]; subst.
    assert (Hm_lt : (m < n)%nat) by (apply (i_lt _ _ _ I); left; reflexivity).
    assert (Hm_rem : In m (remaining done)).
    { apply remaining_in. split; [assumption|]. intro Hc. apply Hm_notin. apply in_or_app. right. assumption. }
    assert (Hge : forall v, occ (deps m) v <= get cnt v).
    { intros v. destruct (lt_dec v n) as [Hv|Hv].
      - rewrite (inv_cnt_rem _ _ _ v I Hv). apply indeg_ge. assumption.
      - assert (occ (deps m) v = 0).
        { destruct (Z.eq_dec (occ (deps m) v) 0) as [E|E]; [assumption|].
          apply occ_pos_in in E. apply deps_lt in E. lia. }
        unfold get. rewrite nth_overflow by (rewrite (i_len _ _ _ I); lia). lia. }
    rewrite release_is_fold.
    destruct (release_spec (deps m) cnt q (i_len _ _ _ I) (deps_lt m) Hge)
      as (Hlen & Hget & pushed & Hsnd & Hnd_p & Hin_p).
    rewrite Hsnd.
    assert (Hpushed_new : forall x, In x pushed -> (x < n)%nat /\ ~ In x ((m :: q) ++ done)).
    { intros x Hx. apply Hin_p in Hx. destruct Hx as [Hx1 Hx2].
      assert (Hxl : (x < n)%nat) by (eapply deps_lt; eassumption). split; [assumption|].
      intro Hc. apply (i_zero _ _ _ I x Hxl) in Hc.
      assert (occ (deps m) x <> 0) by (apply occ_pos_in; assumption). lia. }
    constructor.
    - assumption.
    - intros v Hv. rewrite Hget, (i_cnt _ _ _ I v Hv), indeg_app. simpl. lia.
    - (* NoDup ((q ++ pushed) ++ done ++ [m]) *)
      apply nodup_app.
      + apply nodup_app; [eapply nodup_app_l; eassumption | assumption |].
        intros x Hx Hc. destruct (Hpushed_new x Hc) as [_ Hn]. apply Hn.
        right. apply in_or_app. left. assumption.
      + apply nodup_app; [assumption | constructor; [intros [] | constructor] |].
        intros x Hx [Hc|[]]. subst x. apply Hm_notin. apply in_or_app. right. assumption.
      + intros x Hx Hc. apply in_app_or in Hx. apply in_app_or in Hc.
        destruct Hx as [Hx|Hx]; destruct Hc as [Hc|[Hc|[]]].
        * eapply nodup_app_disj; eassumption.
        * subst x. apply Hm_notin. apply in_or_app. left. assumption.
        * destruct (Hpushed_new x Hx) as [_ Hn]. apply Hn. right. apply in_or_app. right. assumption.
        * subst x. destruct (Hpushed_new m Hx) as [_ Hn]. apply Hn. left. reflexivity.
    - intros x Hx. apply in_app_or in Hx. destruct Hx as [Hx|Hx].
      + apply in_app_or in Hx. destruct Hx as [Hx|Hx].
        * apply (i_lt _ _ _ I). right. apply in_or_app. left. assumption.
        * apply Hpushed_new. assumption.
      + apply in_app_or in Hx. destruct Hx as [Hx|[Hx|[]]].
        * apply Hlt_done. assumption.
        * subst x. assumption.
    - intros v Hv. rewrite Hget. split.
      + intros Hx.
        assert (Hold : In v ((m :: q) ++ done) \/ In v pushed).
        { apply in_app_or in Hx. destruct Hx as [Hx|Hx].
          - apply in_app_or in Hx. destruct Hx as [Hx|Hx]; [left; right; apply in_or_app; left; assumption | right; assumption].
          - apply in_app_or in Hx. destruct Hx as [Hx|[Hx|[]]].
            + left. right. apply in_or_app. right. assumption.
            + left. left. assumption. }
        destruct Hold as [Hold|Hold].
        * apply (i_zero _ _ _ I v Hv) in Hold. pose proof (Hge v). pose proof (occ_nonneg (deps m) v). lia.
        * apply Hin_p in Hold. tauto.
      + intros Hz. destruct (Z.eq_dec (get cnt v) 0) as [E|E].
        * apply (i_zero _ _ _ I v Hv) in E. simpl in E. destruct E as [E|E].
          -- subst v. apply in_or_app. right. apply in_or_app. right. left. reflexivity.
          -- apply in_app_or in E. destruct E as [E|E].
             ++ apply in_or_app. left. apply in_or_app. left. assumption.
             ++ apply in_or_app. right. apply in_or_app. left. assumption.
        * apply in_or_app. left. apply in_or_app. right. apply Hin_p. split; [|assumption].
          apply occ_pos_in. lia.
    - apply respects_snoc; [apply (i_resp _ _ _ I)|].
      intros x Hx. unfold waits. intro Hc.
      assert (Hxl : (x < n)%nat) by (apply Hlt_done; assumption).
      assert (Hz : get cnt x = 0).
      { apply (i_zero _ _ _ I x Hxl). right. apply in_or_app. right. assumption. }
      assert (occ (deps m) x <> 0) by (apply occ_pos_in; assumption).
      pose proof (Hge x). pose proof (occ_nonneg (deps m) x). lia.
  Qed.

  Lemma loop_correct : forall fuel cnt queue done,
    Inv cnt queue done -> (n <= fuel + length done)%nat ->
    exists order cnt', kahn_loop fuel deps cnt queue done = Some order /\ Inv cnt' [] order.
  Proof.
    induction fuel as [|f IH]; intros cnt queue done I Hf.
    - destruct queue as [|m q].
      + exists done, cnt. split; [reflexivity | assumption].
      + exfalso.
        assert (Hle : (length ((m :: q) ++ done) <= length (seq 0 n))%nat).
        { apply NoDup_incl_length; [apply (i_nodup _ _ _ I)|].
          intros x Hx. apply in_seq. pose proof (i_lt _ _ _ I x Hx). lia. }
        rewrite seq_length, app_length in Hle. simpl in Hle. lia.
    - destruct queue as [|m q].
      + exists done, cnt. split; [reflexivity | assumption].
      + simpl. apply IH.
        * apply step_inv. assumption.
        * rewrite app_length. simpl. lia.
  Qed.

  (* ---- acyclic dependencies: every message is handed out --------------------- *)
  Definition ranked_deps : Prop :=
    exists rank : nat -> nat, forall m d, (m < n)%nat -> In d (deps m) -> (rank m < rank d)%nat.

  Theorem kahn_correct : ranked_deps ->
    exists order, kahn n deps = Some order /\
                  Permutation order (seq 0 n) /\ respects waits order.
  Proof.
    intros [rank Hrank]. unfold kahn.
    destruct count_inputs_spec as [Hl0 Hv0].
    set (cnt0 := count_inputs n deps) in *.
    assert (I0 : Inv cnt0 (filter (fun i => nth i cnt0 1 =? 0) (seq 0 n)) []).
    { constructor.
      - assumption.
      - intros v Hv. rewrite Hv0 by assumption. simpl. lia.
      - rewrite app_nil_r. apply NoDup_filter. apply seq_NoDup.
      - intros x Hx. rewrite app_nil_r in Hx. apply filter_In in Hx. destruct Hx as [Hx _]. apply in_seq in Hx. lia.
      - intros v Hv. rewrite app_nil_r, filter_In, in_seq, Z.eqb_eq. unfold get. split; [tauto | intros; split; [lia | assumption]].
      - exact I. }
    destruct (loop_correct n cnt0 _ [] I0 ltac:(simpl; lia)) as (order & cnt' & Hk & If).
    exists order. split; [assumption|].
    assert (Hall : forall k v, (rank v < k)%nat -> (v < n)%nat -> In v order).
    { induction k as [|k IHk]; intros v Hr Hv; [lia|].
      destruct (in_dec Nat.eq_dec v order) as [Hin|Hnin]; [assumption|]. exfalso.
      assert (Hnz : get cnt' v <> 0).
      { intro Hz. apply (i_zero _ _ _ If v Hv) in Hz. simpl in Hz. contradiction. }
      rewrite (inv_cnt_rem _ _ _ v If Hv) in Hnz.
      apply indeg_pos in Hnz. destruct Hnz as [u [Hu Hvu]].
      apply remaining_in in Hu. destruct Hu as [Hul Hun].
      apply Hun. apply IHk; [|assumption].
      specialize (Hrank u v Hul Hvu). lia. }
    split.
    - apply NoDup_Permutation.
      + pose proof (i_nodup _ _ _ If) as H. simpl in H. assumption.
      + apply seq_NoDup.
      + intros x. rewrite in_seq. split.
        * intros Hx. pose proof (i_lt _ _ _ If x Hx). lia.
        * intros Hx. apply (Hall (S (rank x))); lia.
    - apply (i_resp _ _ _ If).
  Qed.
End Kahn.
