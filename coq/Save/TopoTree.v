(* C13 - the lookup scan_deps performs, instantiated with the models of the code
   it calls: Ports::apropos (C18, Ports/PathModel.v) on a port tree and
   Port::MetaContainer::operator[] (C17, Ports/MetaModel.v) on the port's
   metadata block. *)
From Coq Require Import List ZArith Bool.
From RtoscV Require Ports.MetaModel Ports.NameModel Ports.PathModel.
From RtoscV Require Import Save.TopoModel Save.TopoProofs.
Import ListNotations.
Local Open Scope Z_scope.

Definition key_enabled_by : str := [101; 110; 97; 98; 108; 101; 100; 32; 98; 121].
Definition key_depends : str := [100; 101; 112; 101; 110; 100; 115].
Definition key_default_depends : str :=
  [100; 101; 102; 97; 117; 108; 116; 32; 100; 101; 112; 101; 110; 100; 115].

(* port->meta()[key]; an unreadable block counts as "no such key" *)
Definition meta_value (m : option (list Z)) (key : str) : option str :=
  match m with
  | None => None
  | Some block =>
      (* Port::meta() skips the ':' in front of the first title *)
      match MetaModel.meta block with
      | Some p => match MetaModel.lookup p key with
                  | Some v => v
                  | None => None
                  end
      | None => None
      end
  end.

Definition apropos_of_tree (root : list NameModel.port) (path : str) : option pmeta :=
  match PathModel.apropos root path with
  | PathModel.AFound id =>
      match NameModel.get_port root id with
      | Some q => Some {| enabled_by := meta_value (NameModel.pmeta q) key_enabled_by;
                          depends := meta_value (NameModel.pmeta q) key_depends;
                          default_depends := meta_value (NameModel.pmeta q) key_default_depends;
                          port_name := NameModel.pname q |}
      | None => None
      end
  | _ => None
  end.

(* C13_topo for a concrete port tree *)
Theorem load_order_topo_tree : forall A (root : list NameModel.port) fuel (ms : list (message A)) ps,
  pushes A (apropos_of_tree root) fuel ms = Some ps -> ranked ps ->
  exists order, load_order (apropos_of_tree root) fuel ms = Some order /\
                Permutation.Permutation order (seq 0 (length ms)) /\
                respects (edge ps) order.
Proof. intros A root. apply load_order_topo. Qed.
