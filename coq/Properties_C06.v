(* C06 - ThreadLink is a lossless FIFO between two threads under every
   interleaving.  Only the property theorems, each closed by [exact]; the
   model is Ring/RingModel.v, the invariant Ring/RingInv.v, the proofs
   Ring/RingProofs.v.

   Common premises:  0 < N (ring size), [frame_ok frame wf] = the framing
   function returns the length of a well-formed message that is followed by
   anything ([frame (m ++ rest) = zlen m]), [script_ok wf ws] = every message of
   the writer's script is well-formed and non-empty.  The reader's script
   (hasNext / hasNextLookahead / guarded read / guarded read_lookahead) and the
   schedule (a list of thread ids, one entry per shared access) are arbitrary.
   [reach N MM frame ws rs sched] is the state after the schedule. *)
From Coq Require Import List ZArith.
From RtoscV Require Import Ring.RingModel Ring.RingFrame Ring.RingInv Ring.RingProofs Ring.RingExamples
  Ring.RingRegress.
Import ListNotations.
Local Open Scope Z_scope.

(* the invariant is inductive: one more shared access of either thread keeps it *)
Theorem C06_inv_step : forall N MM frame wf, 0 < N -> frame_ok frame wf ->
  forall s t, Inv N MM wf s -> Inv N MM wf (step N MM frame s t).
Proof. exact top_inv_step. Qed.

(* it holds in every state reachable by any schedule *)
Theorem C06_inv_reach : forall N MM frame wf, 0 < N -> frame_ok frame wf ->
  forall ws rs sched, script_ok wf ws -> Inv N MM wf (reach N MM frame ws rs sched).
Proof. exact reach_inv. Qed.

(* FIFO: the messages returned by normal reads are, byte for byte and in
   order, an initial segment of the accepted messages: none lost, duplicated,
   torn or reordered *)
Theorem C06_fifo : forall N MM frame wf, 0 < N -> frame_ok frame wf ->
  forall ws rs sched, script_ok wf ws ->
  let s := reach N MM frame ws rs sched in
  nreads (out s) = firstn (length (nreads (out s))) (accs_of (out s)).
Proof. exact top_fifo. Qed.

(* every written message is accepted or dropped exactly once, in script order
   (log of the writer ++ message in flight ++ rest of the script = the script) *)
Theorem C06_written : forall N MM frame ws rs sched,
  let s := reach N MM frame ws rs sched in
  wlog (out s) ++ inflight (wp s) ++ map wmsg (wscr s) = map wmsg ws.
Proof. exact top_accepted_written. Qed.

(* lookahead: replaying the reader's log on the abstract queue succeeds - a
   lookahead read returns the message after the ones already looked at and
   consumes nothing, a normal read returns the oldest unconsumed message and
   puts the lookahead position back to the read position *)
Theorem C06_lookahead : forall N MM frame wf, 0 < N -> frame_ok frame wf ->
  forall ws rs sched, script_ok wf ws ->
  let s := reach N MM frame ws rs sched in
  reads_ok (accs_of (out s)) (out s) O O.
Proof. exact top_lookahead. Qed.

(* hasNext(la) answers exactly "the (lookahead) queue was non-empty when write
   was loaded" (gn = accepted messages at that load, gc consumed, gp looked
   ahead), and once it has answered true the queue stays non-empty until the
   reader's read has gone through *)
Theorem C06_hasnext_lin : forall N MM frame wf, 0 < N -> frame_ok frame wf ->
  forall ws rs sched, script_ok wf ws ->
  let s := reach N MM frame ws rs sched in
  Forall has_ok (out s) /\
  (forall la, reading (rp s) = Some la -> (j0 s la < length (acc s))%nat).
Proof. exact top_hasnext_lin. Qed.

(* dropped whole: (a) no step of a write whose encoding exceeds MaxMsg touches
   the buffer, an index or the queue; (b) the fit test is exact w.r.t. the free
   space at the load of read, and a write that does not fit ends at once with
   nothing changed; (c) nothing longer than MaxMsg is ever queued *)
Theorem C06_drop_whole : forall N MM frame wf, 0 < N -> frame_ok frame wf ->
  forall ws rs sched, script_ok wf ws ->
  let s := reach N MM frame ws rs sched in
  (wp_len (wp s) = Some 0 -> shared_eq s (wstep N MM s)) /\
  (forall m len wv, wp s = WSizeR m len wv ->
     (len <= N - 1 - (Wv s - Rv s) -> wp (wstep N MM s) = WNextW m len) /\
     (N - 1 - (Wv s - Rv s) < len ->
        shared_eq s (wstep N MM s) /\ wp (wstep N MM s) = WIdle /\ out (wstep N MM s) = out s ++ [ODrop m])) /\
  Forall (fun m => zlen m <= MM) (acc s).
Proof. exact top_drop_whole. Qed.

(* a message is dropped only for the two reasons the property names: longer than
   MaxMsg, or no room in the free space when the writer loads read ("none is
   lost") *)
Theorem C06_drop_only_if : forall N MM frame wf, 0 < N -> frame_ok frame wf ->
  forall ws rs sched, script_ok wf ws ->
  let s := reach N MM frame ws rs sched in
  forall m, out (wstep N MM s) = out s ++ [ODrop m] ->
  MM < zlen m \/ N - 1 - (Wv s - Rv s) < zlen m.
Proof. exact top_drop_reason. Qed.

(* hasNext that is not overtaken by a publishing store answers false exactly
   when everything accepted has been consumed (looked at, for the lookahead
   flavour) *)
Theorem C06_hasnext_exact : forall N MM frame wf, 0 < N -> frame_ok frame wf ->
  forall ws rs sched, script_ok wf ws ->
  let s := reach N MM frame ws rs sched in
  forall la try, rp s = RHasW la try ->
  out (rstep N MM frame (rstep N MM frame s)) =
  out s ++ [OHas la (j0 s la <? length (acc s))%nat (length (acc s)) (cons s) (peek s)].
Proof. exact top_hasnext_exact. Qed.

(* wait-freedom: every step of an operation lowers a rank that depends only on
   the thread's own program counter (writer: <= len + 9, reader: <= 2N + 11), so
   an operation ends after that many of its own steps whatever the other thread
   does; with C06_written and C06_drop_only_if: a write that fits is accepted *)
Theorem C06_wait_free : forall N MM frame wf, 0 < N -> frame_ok frame wf ->
  forall ws rs sched, script_ok wf ws ->
  let s := reach N MM frame ws rs sched in
  (wp s <> WIdle -> 0 <= wrank (wp (wstep N MM s)) < wrank (wp s)) /\
  (rp s <> RIdle -> 0 <= rrank N (rp (rstep N MM frame s)) < rrank N (rp s)).
Proof. exact top_wait_free. Qed.

(* data-race freedom: the buffer cell the writer is about to store to is never
   one the reader is about to load *)
Theorem C06_drf : forall N MM frame wf, 0 < N -> frame_ok frame wf ->
  forall ws rs sched, script_ok wf ws ->
  let s := reach N MM frame ws rs sched in
  forall i, wfoot s = Some i -> rfoot N s i = false.
Proof. exact top_drf. Qed.

(* no access outside the ring buffer or the MaxMsg bytes of read_buffer *)
Theorem C06_safe : forall N MM frame wf, 0 < N -> frame_ok frame wf ->
  forall ws rs sched, script_ok wf ws ->
  err (reach N MM frame ws rs sched) = false.
Proof. exact top_safe. Qed.

(* the premises are satisfiable and a concrete interleaved run shows both kinds
   of drop, wrap-around and lookahead *)
Theorem C06_nonvacuous : frame_ok toy_frame toy_wf /\ script_ok toy_wf ex_ws /\
  nreads (out ex_state) = [[3; 1; 2]; [4; 5; 6; 7]] /\
  wlog (out ex_state) = [[3; 1; 2]; [4; 5; 6; 7]; [5; 0; 0; 0; 0]; [2; 9]].
Proof. exact (conj toy_frame_ok (conj ex_script_ok (conj ex_reads ex_wlog))). Qed.

(* regression: raw_write before the fix queued a message longer than MaxMsg and
   read() then wrote past read_buffer *)
Theorem C06_raw_write_old_refuted :
  exists N MM ws rs sched, err (run_old N MM ring_length (init N ws rs) sched) = true.
Proof. exact raw_write_overflow_refuted. Qed.

(* known finding bundle-not-last: the real framing function does not satisfy
   frame_ok on bundles - a bundle followed by a message is framed as length 0 *)
Theorem C06_frame_bundle_refuted :
  exists b rest, is_bundle b = true /\ ring_length b = zlen b /\ ring_length (b ++ rest) <> zlen b.
Proof. exact frame_bundle_refuted. Qed.

(* ---- instantiation with the OSC framing function -------------------------
   The abstract [frame] above is instantiated with the model of
   rtosc_message_ring_length (Osc/OscModel.v, the function C01/C07 verify and
   tie to the code): [frame_ok] holds for it on every well-formed OSC message
   (C01_length_roundtrip), and the two-segment call the reader makes equals
   its value on the concatenated view. *)
From RtoscV Require Ring.RingOsc.

Theorem C06_frame_ok_osc : frame_ok RingOsc.osc_frame RingOsc.osc_wf.
Proof. exact RingOsc.osc_frame_ok. Qed.

Theorem C06_frame_is_ring_length : forall s0 s1,
  RingOsc.osc_frame (s0 ++ s1) =
  match OscModel.message_ring_length (RingOsc.ring2 s0 s1) with OscModel.Ok L => L | _ => 0 end.
Proof. exact RingOsc.osc_frame_is_ring_length. Qed.

(* FIFO for real OSC messages.  PARTIAL: osc_wf (Ring/RingOsc.v) admits only
   well-formed NON-BUNDLE messages - a script with a bundle anywhere, also a
   lone one, does not satisfy script_ok osc_wf.  The side condition "no bundles"
   contains the class of finding bundle-not-last; the part of it that is not the
   finding (a bundle as the LAST message of the script) is
   C06_fifo_osc_bundle_last below.  Full statement: the same for every script of
   well-formed OSC messages and bundles - false of the code
   (C06_bundle_not_last_refuted). *)
Theorem C06_fifo_osc_partial : forall N MM, 0 < N ->
  forall ws rs sched, script_ok RingOsc.osc_wf ws ->
  let s := reach N MM RingOsc.osc_frame ws rs sched in
  nreads (out s) = firstn (length (nreads (out s))) (accs_of (out s)).
Proof. exact (fun N MM HN => top_fifo N MM RingOsc.osc_frame RingOsc.osc_wf HN RingOsc.osc_frame_ok). Qed.

(* the hypothesis is satisfiable by a non-empty script of real messages, and
   the run (OSC framing, ring of 32 bytes, third message wrapped) returns them *)
From RtoscV Require Ring.RingOscExamples Ring.RingLast.

Theorem C06_fifo_osc_nonvacuous :
  script_ok RingOsc.osc_wf RingOscExamples.osc_ws /\ RingOscExamples.osc_ws <> [] /\
  nreads (out (reach 32 16 RingOsc.osc_frame RingOscExamples.osc_ws RingOscExamples.osc_rs
                     RingOscExamples.osc_sched))
    = [RingOscExamples.oscA; RingOscExamples.oscB; RingOscExamples.oscA] /\
  accs_of (out (reach 32 16 RingOsc.osc_frame RingOscExamples.osc_ws RingOscExamples.osc_rs
                      RingOscExamples.osc_sched))
    = [RingOscExamples.oscA; RingOscExamples.oscB; RingOscExamples.oscA].
Proof. exact RingOscExamples.fifo_osc_nonvacuous. Qed.

(* the complement of the finding class: every message a well-formed OSC message
   or a well-formed bundle, every message of the script but the LAST one a
   non-bundle.  FIFO, lookahead, hasNext and memory safety hold for every
   schedule (the last bundle is framed by C08's length theorem: nothing follows
   it in the reader's view). *)
Theorem C06_fifo_osc_bundle_last : forall N MM, 0 < N ->
  forall ws rs sched, script_ok RingLast.osc_or_bundle ws ->
  Forall RingOsc.osc_wf (removelast (map wmsg ws)) ->
  let s := reach N MM RingOsc.osc_frame ws rs sched in
  nreads (out s) = firstn (length (nreads (out s))) (accs_of (out s)) /\
  reads_ok (accs_of (out s)) (out s) O O /\ Forall has_ok (out s) /\ err s = false.
Proof. exact RingLast.fifo_osc_bundle_last. Qed.

Theorem C06_bundle_last_nonvacuous :
  script_ok RingLast.osc_or_bundle RingLast.last_ws /\
  Forall RingOsc.osc_wf (removelast (map wmsg RingLast.last_ws)) /\
  RingFrame.is_bundle (wmsg (last RingLast.last_ws (WRaw []))) = true /\
  nreads (out (reach 64 32 RingOsc.osc_frame RingLast.last_ws RingOscExamples.osc_rs RingLast.last_sched))
    = [RingOscExamples.oscA; RingOscExamples.oscB; RingLast.bunB].
Proof. exact RingLast.bundle_last_nonvacuous. Qed.

(* known finding bundle-not-last on the model: raw_write(bundle), raw_write(message),
   four guarded reads - every read returns nothing, the read index stays 0, the
   reads are not a prefix of the accepted messages *)
Theorem C06_bundle_not_last_refuted :
  script_ok RingLast.osc_or_bundle RingLast.wedge_ws /\
  accs_of (out RingLast.wedge_state) = [RingLast.bunB; RingOscExamples.oscB] /\
  nreads (out RingLast.wedge_state) = [[]; []; []; []] /\
  ir RingLast.wedge_state = 0 /\ iw RingLast.wedge_state = 36 /\
  nreads (out RingLast.wedge_state) <> firstn 4 (accs_of (out RingLast.wedge_state)).
Proof. exact RingLast.bundle_not_last_refuted. Qed.
