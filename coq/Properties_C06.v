(* C06 - ThreadLink is a lossless FIFO between two threads under every
   interleaving.  Only the property theorems, each closed by [exact]. *)
From Coq Require Import List ZArith.
From RtoscV Require Import Ring.RingModel Ring.RingInv.
Import ListNotations.
Local Open Scope Z_scope.

(* every index stays inside the ring and the buffer keeps its size, for all
   scripts and all schedules *)
Theorem C06_indices : forall N MM frame ws rs sched, 0 < N ->
  Inv0 N (run N MM frame (init N ws rs) sched).
Proof. exact (fun N MM frame ws rs sched H => inv0_run N MM frame H sched _ (inv0_init N H ws rs)). Qed.
