(* C12 - Savefiles restore the saved state and contain only differences from
   defaults.  Only theorem statements closed by [exact]; proofs in
   Save/SaveProofs.v. *)
From Coq Require Import List ZArith Bool.
From Coq Require Import Permutation.
From RtoscV Require Import Save.TopoModel Save.SaveModel Save.SaveProofs Save.RoundProofs.
Import ListNotations.
Local Open Scope Z_scope.

(* A parameter appears in the savefile exactly when it declares a default, the
   walk reaches it and its current value differs from the default the state
   selects for it. *)
Theorem C12_minimal : forall a st l,
  In l (save_lines a st) <->
  exists i, (i < length a)%nat /\ p_nodef (port_at a i) = false /\ live a st i = true /\
            same_value (val_at st i) (default_of a st i) = false /\ l = the_line a st i.
Proof. exact save_lines_spec. Qed.

(* An untouched application saves only the two header lines. *)
Theorem C12_untouched : forall a,
  selectors_plain a -> defaults_comparable a -> save_lines a (initial a) = [].
Proof. exact untouched_saves_nothing. Qed.

(* A file with a wrong header ... *)
Theorem C12_reject_header : forall apropos fuel a name f st,
  f_h1 f = None -> load_file apropos fuel a name f st = Some (-1, st).
Proof. exact reject_header. Qed.

(* ... another application's name ... *)
Theorem C12_reject_appname : forall apropos fuel a name f st n1,
  f_h1 f = Some n1 -> 0 <= n1 ->
  (f_h2 f = None \/ exists nm n2, f_h2 f = Some (nm, n2) /\ str_eqb nm name = false) ->
  exists r, load_file apropos fuel a name f st = Some (r, st) /\ r < 0.
Proof. exact reject_appname. Qed.

(* ... an unparsable line (nothing is dispatched) ... *)
Theorem C12_reject_unparsable : forall apropos fuel a its st,
  rd_nonneg its -> In Junk its ->
  exists r, dispatch_printed apropos fuel a its st = Some (r, st) /\ r < 0.
Proof. exact reject_unparsable. Qed.

(* ... or a line no port accepts is rejected with a negative result. *)
Theorem C12_reject_unmatched : forall apropos fuel a its st ls tot order l r st',
  rd_nonneg its -> scan_items its = (ls, tot, true) ->
  load_order apropos fuel (map (fun l => (l_path l, l)) ls) = Some order ->
  In l (pick ls dummy_line order) -> find_port a (l_path l) = None ->
  dispatch_printed apropos fuel a its st = Some (r, st') -> r < 0.
Proof. exact reject_unmatched. Qed.

Theorem C12_reject_propagates : forall apropos fuel a name f st n1 n2 r st',
  f_h1 f = Some n1 -> f_h2 f = Some (name, n2) -> 0 <= n1 -> 0 <= n2 ->
  dispatch_printed apropos fuel a (f_items f) st = Some (r, st') -> r < 0 ->
  load_file apropos fuel a name f st = Some (r - (n1 + n2), st') /\ r - (n1 + n2) < 0.
Proof. exact reject_propagates. Qed.

(* The per-port heart of the round trip (uses C14's clamp_idem): a value a
   callback has stored is stored unchanged when it is sent again - for every
   kind but options, whose saved symbol goes through enum_key instead. *)
Theorem C12_stored_value_is_a_fixed_point : forall p v v', store p v = Some v' ->
  match p_kind p with KO => True | _ => store p v' = Some v' end.
Proof. exact store_idem. Qed.

(* ROUND TRIP.  Full statement: for any state an application can reach, the
   savefile loaded into a default-initialised instance reproduces that state and
   loading reports one message per saved line.
   Proved as a composition over the stages of the real pipeline (Section
   variables of Save/RoundProofs.v); the hypotheses [stage_hypotheses] are the
   other properties' statements about those stages:
     C09  the walk reaches exactly the live ports, each once
     C16  rtosc_arg_vals_eq is the value equality same_value
     C10  scanning the printed lines gives the lines back (with non-negative byte counts)
     C04 (+C14)  a rebuilt message is delivered to the port with that address and stored by its callback
     C13  the sort returns a permutation of the lines that puts a preset selector in front of its dependents
   _partial because of [side_conditions]: (1) no pointer sub-trees, (2) no "#N"
   leaf arrays, (3) distinct addresses, (4) a preset selector has a plain default
   and (5) stands beside its dependents, (6-8) state and defaults hold one value
   per port, (9) the state is stable (sending a saved value stores that value:
   C12_stable_non_option gives it for every stored value of a non-option port).
   "Reproduces": every live parameter that declares a default holds the saved
   value, or one that rtosc_arg_vals_eq identifies with it (-0.0 / 0.0). *)
Theorem C12_roundtrip_partial :
  forall text walk av_eq print_lines scan_text dispatch sort_lines a st,
    stage_hypotheses text walk av_eq print_lines scan_text dispatch sort_lines a st ->
    side_conditions a st ->
    exists fin,
      real_load text scan_text dispatch sort_lines a
                (real_save text walk av_eq print_lines a st) (initial a)
      = Some (Z.of_nat (length (save_lines a st)), fin) /\
      forall q, (q < length a)%nat -> p_nodef (port_at a q) = false -> live a st q = true ->
                restored st fin q.
Proof. exact roundtrip_partial. Qed.

(* the same for the abstract application's own load loop, for ANY order of the
   saved lines that is a permutation respecting selector-before-dependent *)
Theorem C12_roundtrip_abstract_partial : forall a st ord,
  side_conditions a st -> Permutation ord (saved a st) -> respects (before a) ord ->
  exists fin, apply_all a (map (the_line a st) ord) (initial a) = (fin, true) /\
    length ord = length (save_lines a st) /\
    forall q, (q < length a)%nat -> p_nodef (port_at a q) = false -> live a st q = true ->
              restored st fin q.
Proof. exact roundtrip_abstract. Qed.

Theorem C12_stable_non_option : forall p v v', p_kind p <> KO -> store p v = Some v' ->
  store p (shown p v') = Some v'.
Proof. exact stable_non_option. Qed.

(* non-vacuity of the round trip: a preset selector (1, default 0) and a
   dependent (9; preset 1 selects 7) satisfy the side conditions; selector first
   restores the state, dependent first loses its value - the order matters. *)
Theorem C12_roundtrip_nonvacuous :
  side_conditions ex_app ex_state /\ saved ex_app ex_state = [0%nat; 1%nat] /\
  respects (before ex_app) [0%nat; 1%nat] /\
  apply_all ex_app (map (the_line ex_app ex_state) [0%nat; 1%nat]) (initial ex_app) = (ex_state, true) /\
  apply_all ex_app (map (the_line ex_app ex_state) [1%nat; 0%nat]) (initial ex_app) = ([[VI 1]; [VI 7]], true).
Proof. exact roundtrip_nonvacuous. Qed.
