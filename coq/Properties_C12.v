(* C12 - Savefiles restore the saved state and contain only differences from
   defaults.  Only theorem statements closed by [exact]; proofs in
   Save/SaveProofs.v. *)
From Coq Require Import List ZArith Bool.
From RtoscV Require Import Save.TopoModel Save.SaveModel Save.SaveProofs.
Import ListNotations.
Local Open Scope Z_scope.

(* A parameter appears in the savefile exactly when it declares a default, the
   walk reaches it and its current value differs from the default the state
   selects for it. *)
Theorem C12_minimal : forall a st l,
  In l (save_lines a st) <->
  exists i, (i < length a)%nat /\ p_nodef (port_at a i) = false /\ live a st i = true /\
            same_value (val_at st i) (default_of a st i) = false /\ l = the_line a st i.
Proof. exact save_lines_spec. Qed.

(* An untouched application saves only the two header lines. *)
Theorem C12_untouched : forall a,
  selectors_plain a -> defaults_comparable a -> save_lines a (initial a) = [].
Proof. exact untouched_saves_nothing. Qed.

(* A file with a wrong header ... *)
Theorem C12_reject_header : forall apropos fuel a name f st,
  f_h1 f = None -> load_file apropos fuel a name f st = Some (-1, st).
Proof. exact reject_header. Qed.

(* ... another application's name ... *)
Theorem C12_reject_appname : forall apropos fuel a name f st n1,
  f_h1 f = Some n1 -> 0 <= n1 ->
  (f_h2 f = None \/ exists nm n2, f_h2 f = Some (nm, n2) /\ str_eqb nm name = false) ->
  exists r, load_file apropos fuel a name f st = Some (r, st) /\ r < 0.
Proof. exact reject_appname. Qed.

(* ... an unparsable line (nothing is dispatched) ... *)
Theorem C12_reject_unparsable : forall apropos fuel a its st,
  rd_nonneg its -> In Junk its ->
  exists r, dispatch_printed apropos fuel a its st = Some (r, st) /\ r < 0.
Proof. exact reject_unparsable. Qed.

(* ... or a line no port accepts is rejected with a negative result. *)
Theorem C12_reject_unmatched : forall apropos fuel a its st ls tot order l r st',
  rd_nonneg its -> scan_items its = (ls, tot, true) ->
  load_order apropos fuel (map (fun l => (l_path l, l)) ls) = Some order ->
  In l (pick ls dummy_line order) -> find_port a (l_path l) = None ->
  dispatch_printed apropos fuel a its st = Some (r, st') -> r < 0.
Proof. exact reject_unmatched. Qed.

Theorem C12_reject_propagates : forall apropos fuel a name f st n1 n2 r st',
  f_h1 f = Some n1 -> f_h2 f = Some (name, n2) -> 0 <= n1 -> 0 <= n2 ->
  dispatch_printed apropos fuel a (f_items f) st = Some (r, st') -> r < 0 ->
  load_file apropos fuel a name f st = Some (r - (n1 + n2), st') /\ r - (n1 + n2) < 0.
Proof. exact reject_propagates. Qed.

(* The per-port heart of the round trip (uses C14's clamp_idem): a value a
   callback has stored is stored unchanged when it is sent again - for every
   kind but options, whose saved symbol goes through enum_key instead. *)
Theorem C12_stored_value_is_a_fixed_point : forall p v v', store p v = Some v' ->
  match p_kind p with KO => True | _ => store p v' = Some v' end.
Proof. exact store_idem. Qed.
