(* C12 - Savefiles restore the saved state and contain only differences from
   defaults.  Only theorem statements closed by [exact]; proofs in
   Save/SaveProofs.v. *)
From Coq Require Import List ZArith Bool.
From Coq Require Import Permutation.
From RtoscV Require ArgVal.AvModel.
From RtoscV Require Import Save.TopoModel Save.SaveModel Save.SaveProofs Save.RoundProofs Save.RoundFull Save.PermApp Save.SortStage Save.EqStage Save.SaveRegress.
From RtoscV Require Import Ports.WalkModel Ports.DispatchModel Ports.TreeProofs Ports.DispatchWalk Ports.NamesModel.
From RtoscV Require Import Save.TreeApp Save.DispatchStage Save.TreeStage Save.WalkStage Save.TreePipeline.
From RtoscV Require Pretty.Tok Pretty.PrintModel Pretty.ScanModel Pretty.PrettyProofs Pretty.RunProofs Pretty.ListProofs Pretty.ArrayProofs.
From RtoscV Require Import Save.PrintStage Save.PrintTotal Save.PrintLines Save.PipelineReal.
From RtoscV Require Import Save.CondModel Save.CondProofs Save.ReachProofs.
Import ListNotations.
Local Open Scope Z_scope.

(* A parameter appears in the savefile exactly when it declares a default, the
   walk reaches it and its current value differs from the default the state
   selects for it. *)
Theorem C12_minimal : forall a st l,
  In l (save_lines a st) <->
  exists i, (i < length a)%nat /\ p_nodef (port_at a i) = false /\ live a st i = true /\
            same_value (val_at st i) (default_of a st i) = false /\ l = the_line a st i.
Proof. exact save_lines_spec. Qed.

(* An untouched application saves only the two header lines. *)
Theorem C12_untouched : forall a,
  selectors_plain a -> defaults_comparable a -> save_lines a (initial a) = [].
Proof. exact untouched_saves_nothing. Qed.

(* A file with a wrong header ... *)
Theorem C12_reject_header : forall apropos fuel a name f st,
  f_h1 f = None -> load_file apropos fuel a name f st = Some (-1, st).
Proof. exact reject_header. Qed.

(* ... another application's name ... *)
Theorem C12_reject_appname : forall apropos fuel a name f st n1,
  f_h1 f = Some n1 -> 0 <= n1 ->
  (f_h2 f = None \/ exists nm n2, f_h2 f = Some (nm, n2) /\ str_eqb nm name = false) ->
  exists r, load_file apropos fuel a name f st = Some (r, st) /\ r < 0.
Proof. exact reject_appname. Qed.

(* ... an unparsable line (nothing is dispatched) ... *)
Theorem C12_reject_unparsable : forall apropos fuel a its st,
  rd_nonneg its -> In Junk its ->
  exists r, dispatch_printed apropos fuel a its st = Some (r, st) /\ r < 0.
Proof. exact reject_unparsable. Qed.

(* ... or a line no port accepts is rejected with a negative result. *)
Theorem C12_reject_unmatched : forall apropos fuel a its st ls tot order l r st',
  rd_nonneg its -> scan_items its = (ls, tot, true) ->
  load_order apropos fuel (map (fun l => (l_path l, l)) ls) = Some order ->
  In l (pick ls dummy_line order) -> find_port a (l_path l) = None ->
  dispatch_printed apropos fuel a its st = Some (r, st') -> r < 0.
Proof. exact reject_unmatched. Qed.

(* "a line no port accepts", in general: whatever the reason no port accepts the line when its
   turn comes in the load order - the result is negative and nothing behind it is dispatched;
   the reasons: unknown address (above), an argument the port does not take, a line / port
   array mismatch, a port below a pointer sub-tree that is absent at that moment *)
Theorem C12_reject_unaccepted : forall apropos fuel a its st ls tot order pre l post s r st',
  rd_nonneg its -> scan_items its = (ls, tot, true) ->
  load_order apropos fuel (map (fun l => (l_path l, l)) ls) = Some order ->
  pick ls dummy_line order = pre ++ l :: post ->
  apply_all a pre st = (s, true) -> apply_line a l s = None ->
  dispatch_printed apropos fuel a its st = Some (r, st') -> r < 0 /\ st' = partial_line a l s.
Proof. exact reject_unaccepted. Qed.

(* ... of a line that is not accepted a scalar line changes nothing; an array line is sent element
   by element, the elements in front of the rejected one have been applied (apply_elems_partial) *)
Theorem C12_partial_line_scalar : forall a l s, l_array l = false -> partial_line a l s = s.
Proof. exact partial_line_scalar. Qed.

Theorem C12_unaccepted_causes : forall a l i v s,
  find_port a (l_path l) = Some i ->
  (l_array l = false -> l_vals l = [v] -> store (port_at a i) v = None -> apply_line a l s = None) /\
  (l_array l <> p_array (port_at a i) -> apply_line a l s = None) /\
  (l_array l = false -> l_vals l = [v] -> exists_ a s i = false -> apply_line a l s = None).
Proof. exact unaccepted_causes. Qed.

Theorem C12_reject_propagates : forall apropos fuel a name f st n1 n2 r st',
  f_h1 f = Some n1 -> f_h2 f = Some (name, n2) -> 0 <= n1 -> 0 <= n2 ->
  dispatch_printed apropos fuel a (f_items f) st = Some (r, st') -> r < 0 ->
  load_file apropos fuel a name f st = Some (r - (n1 + n2), st') /\ r - (n1 + n2) < 0.
Proof. exact reject_propagates. Qed.

(* The per-port heart of the round trip (uses C14's clamp_idem): a value a
   callback has stored is stored unchanged when it is sent again - for every
   kind but options, whose saved symbol goes through enum_key instead. *)
Theorem C12_stored_value_is_a_fixed_point : forall p v v', store p v = Some v' ->
  match p_kind p with KO => True | _ => store p v' = Some v' end.
Proof. exact store_idem. Qed.

(* ROUND TRIP.  For any state an application can reach, the savefile loaded into
   a default-initialised instance reproduces that state and loading reports one
   message per saved line.

   C12_roundtrip_abstract: for the abstract application - preset selectors,
   switches with pointer sub-trees (the object below exists only while the switch
   is on; switching on allocates a default-initialised one), "enabled by" toggles
   on embedded sub-trees, "#N" leaf arrays (lines trimmed by first_equal_index),
   ports without default - and ANY order of the saved lines that is a permutation
   of them in which a selector stands in front of its dependents and a switch in
   front of the lines below its sub-tree (what C13_topo provides): every line is
   accepted, the count is the number of lines, and every live parameter that
   declares a default is restored element by element (equal, or identified with the
   saved one by rtosc_arg_vals_eq on the stored or on the shown value: -0.0 / 0.0,
   the trimmed suffix of an array).
   What remains as side condition, [full_conditions a st]:
     wf_app a   distinct addresses; a selector is a scalar port with a plain default
                in the same object as its dependents; the switch of a pointer
                sub-tree is a scalar port with a plain default outside that
                sub-tree and below the same outer switches; every default holds as
                many values as the port has elements;
     the state has one value per element, and every saved element is stable:
     sending its shown value stores it (C12_stable_non_option: true of everything
     a non-option callback ever stored; for options: the symbol names the number). *)
Theorem C12_roundtrip_abstract : forall a st ord,
  full_conditions a st -> Permutation ord (saved a st) -> respects (must_precede a) ord ->
  exists fin, apply_all a (map (the_line a st) ord) (initial a) = (fin, true) /\
    length ord = length (save_lines a st) /\
    forall q, (q < length a)%nat -> p_nodef (port_at a q) = false -> live a st q = true ->
              restored_val (port_at a q) (val_at st q) (val_at fin q).
Proof. exact roundtrip_abstract_full. Qed.

(* The same for the pipeline real_load (real_save st) (initial a) whose stages are
   Section variables; _partial: [stage_hypotheses_full] are the other properties'
   statements about those stages (C09 walk, C16 value equality, C10 print/scan,
   C04+C14 dispatch and callback, C13 sort), still hypotheses here. *)
Theorem C12_roundtrip_pipeline_partial :
  forall text walk av_eq print_lines scan_text dispatch sort_lines a st,
    stage_hypotheses_full text walk av_eq print_lines scan_text dispatch sort_lines a st ->
    full_conditions a st ->
    exists fin,
      real_load text scan_text dispatch sort_lines a
                (real_save text walk av_eq print_lines a st) (initial a)
      = Some (Z.of_nat (length (save_lines a st)), fin) /\
      forall q, (q < length a)%nat -> p_nodef (port_at a q) = false -> live a st q = true ->
                restored_val (port_at a q) (val_at st q) (val_at fin q).
Proof. exact roundtrip_pipeline_full. Qed.

(* The pipeline with the SORT stage instantiated: sort_lines is the model of the
   real algorithm (scan_deps + Kahn: TopoModel.load_order over the lookup
   [apropos], e.g. TopoTree.apropos_of_tree root = C18's Ports::apropos + C17's
   metadata lookup) and its correctness comes from C13_topo / C13_edges_complete,
   not from a hypothesis.  Remaining stage hypotheses [stage_hypotheses4]: C09
   (walk), C16 (value equality), C10 (print/scan), C04+C14 (dispatch, callback).
   In exchange the theorem asks what C13_topo asks: the metadata declares the
   application's dependencies, the scan of the saved file ends, its edges are
   acyclic. *)
Theorem C12_roundtrip_pipeline_sorted_partial :
  forall text walk av_eq print_lines scan_text dispatch apropos fuel a st ps,
    stage_hypotheses4 text walk av_eq print_lines scan_text dispatch a st ->
    full_conditions a st ->
    declared a apropos ->
    pushes line apropos fuel (msgs (save_lines a st)) = Some ps -> ranked ps ->
    exists fin,
      real_load text scan_text dispatch (fun _ ls => sort_by_load_order apropos fuel ls) a
                (real_save text walk av_eq print_lines a st) (initial a)
      = Some (Z.of_nat (length (save_lines a st)), fin) /\
      forall q, (q < length a)%nat -> p_nodef (port_at a q) = false -> live a st q = true ->
                restored_val (port_at a q) (val_at st q) (val_at fin q).
Proof. exact roundtrip_pipeline_sorted. Qed.

(* non-vacuity: a switch with a pointer sub-tree and a three-element array whose
   line is trimmed to two; switch first restores the state, the line below the
   sub-tree in front of its switch is not accepted *)
Theorem C12_roundtrip_full_nonvacuous :
  full_conditions fx_app fx_state /\ saved fx_app fx_state = [0%nat; 1%nat; 2%nat] /\
  respects (must_precede fx_app) [0%nat; 2%nat; 1%nat] /\
  l_vals (the_line fx_app fx_state 2) = [VI 1; VI 5] /\
  apply_all fx_app (map (the_line fx_app fx_state) [0%nat; 2%nat; 1%nat]) (initial fx_app) = (fx_loaded, true) /\
  snd (apply_all fx_app (map (the_line fx_app fx_state) [1%nat; 0%nat; 2%nat]) (initial fx_app)) = false.
Proof. exact roundtrip_full_nonvacuous. Qed.

Theorem C12_stable_non_option : forall p v v', p_kind p <> KO -> store p v = Some v' ->
  store p (shown p v') = Some v'.
Proof. exact stable_non_option. Qed.

(* non-vacuity of the round trip: a preset selector (1, default 0) and a
   dependent (9; preset 1 selects 7) satisfy the side conditions; selector first
   restores the state, dependent first loses its value - the order matters. *)
Theorem C12_roundtrip_nonvacuous :
  side_conditions ex_app ex_state /\ saved ex_app ex_state = [0%nat; 1%nat] /\
  respects (before ex_app) [0%nat; 1%nat] /\
  apply_all ex_app (map (the_line ex_app ex_state) [0%nat; 1%nat]) (initial ex_app) = (ex_state, true) /\
  apply_all ex_app (map (the_line ex_app ex_state) [1%nat; 0%nat]) (initial ex_app) = ([[VI 1]; [VI 7]], true).
Proof. exact roundtrip_nonvacuous. Qed.

(* The VALUE-EQUALITY stage instantiated: rtosc_arg_vals_eq's model (ArgVal/AvModel.vals_eq,
   C16) on the arg-val slots of two stored values answers same_value - by
   C16_eq_is_key_equality - whenever neither holds a NaN. *)
Theorem C12_eq_stage : forall F u w, value_comparable u -> value_comparable w ->
  AvModel.vals_eq F (enc_value u) (enc_value w) (Zlength (enc_value u)) (Zlength (enc_value w))
    = Some (same_value u w) /\
  av_eq_real F u w = same_value u w.
Proof. exact eq_stage. Qed.

(* The pipeline with the SORT and the VALUE-EQUALITY stages instantiated (av_eq is
   av_eq_real: the C16 model on the encoded values).  Remaining stage hypotheses
   [stage_hypotheses3]: C09 (walk), C10 (print/scan), C04+C14 (dispatch, callback).
   In exchange the theorem asks what the C16 theorem asks: no NaN in the state and
   in the defaults it selects ([comparable]). *)
Theorem C12_roundtrip_pipeline_sorted_eq_partial :
  forall text walk print_lines scan_text dispatch apropos fuel F a st ps,
    stage_hypotheses3 text walk print_lines scan_text dispatch a st ->
    full_conditions a st ->
    comparable a st ->
    declared a apropos ->
    pushes line apropos fuel (msgs (save_lines a st)) = Some ps -> ranked ps ->
    exists fin,
      real_load text scan_text dispatch (fun _ ls => sort_by_load_order apropos fuel ls) a
                (real_save text walk (av_eq_real F) print_lines a st) (initial a)
      = Some (Z.of_nat (length (save_lines a st)), fin) /\
      forall q, (q < length a)%nat -> p_nodef (port_at a q) = false -> live a st q = true ->
                restored_val (port_at a q) (val_at st q) (val_at fin q).
Proof. exact roundtrip_pipeline_sorted_eq. Qed.

Theorem C12_eq_stage_nonvacuous :
  comparable fx_app fx_state /\
  forall F, av_eq_real F [VF 1065353216; VI 3] [VF 1065353216; VI 3] = true /\
            av_eq_real F [VF 0] [VF 2147483648] = true /\
            av_eq_real F [VI 1; VI 5; VI 1] [VI 1; VI 5; VI 2] = false.
Proof. exact eq_stage_nonvacuous. Qed.

(* The walker call for a switched-off "enabled by" port (port_is_enabled): the
   name it is given is the enabling port's own name, in the parent-relative and
   in the rSelf form (D30: fixed; the old arithmetic is in Save/SaveRegress.v). *)
Theorem C12_enabling_port_walked_by_name : forall rel loc en, old_end rel loc en = Some en.
Proof. exact old_end_is_the_port_name. Qed.

Theorem C12_rself_walker_offset_before_fix_refuted :
  (forall loc en, old_end_before_fix true loc en = Some en) /\
  old_end_before_fix false [47; 113; 47] [108; 101; 118; 101; 108] = Some [101; 108] /\
  old_end_before_fix false [47; 113; 47] [111; 110] = None.
Proof. exact rself_walker_offset_before_fix_refuted. Qed.

(* ======================================================================== *)
(* Stage 5: the dispatch stage instantiated (C04 + C14)                        *)
(* ======================================================================== *)
(* Port trees [t : list pt] (Save/TreeApp.v): parameter leaves made by the macros C14
   models (rParam rParamI rParamF rToggle rOption rString, rArrayI/F/T/Option "name#N"),
   sub-tree ports of one component - embedded (rRecur), enumerated (rRecurs "name#N/"),
   pointer (rRecurp, the object exists while a toggle of the parent table is on) -,
   optionally "enabled by" a toggle of the parent table ("tg") or a toggle inside the
   sub-tree itself ("name/tg", "name#N/tg": element name<i>/ is switched by name<i>/tg; the
   switch governs the other ports below, not itself); non-parameter ports "name:", among them
   rSelf's "self:" whose 'enabled by' names a toggle of the same table (it governs every other
   port of the table and below).  [app_of_tree t] is the abstract application: one port per
   leaf under every expansion of the sub-trees above it; a non-parameter port has an entry
   without default (walked, never saved, no theorem sends it a message).

   The callback of a leaf (C14's model of the macro, SugarModel.step) stores exactly
   what SaveModel.store says - clamp(v) (rLIMIT = clampK: the core of C14_clamp; for
   char-sized variables after the wrap to 8 bits), the number of the first "map" entry
   for a symbol, a string cut to the declared length (C14_string_trunc) - in the element
   the address names (boils_idx).  [leaf_wf]: kind and '#N' as the macros combine them,
   rString with length >= 1, float bounds that are no NaN; [arg_wf]: a float argument
   that is no NaN, a string argument without NUL. *)
Theorem C12_callback_stores : forall nm arr d path loc msg v v' old j,
  leaf_wf arr d -> arg_wf v ->
  store (leaf_port path arr d) v = Some v' ->
  length old = p_len (leaf_port path arr d) -> (j < length old)%nat ->
  match arr with Some _ => Z.to_nat (SM.boils_idx (cenv nm arr d) msg) = j | None => j = O end ->
  exists zs o,
    SM.step (ckind (ld_kind d) (is_some arr)) (cenv nm arr d) loc msg (enc_field (ld_kind d) old) [enc_arg v]
      = Some (zs, o) /\
    dec_elem (ld_kind d) zs j = Some v'.
Proof. exact cb_store. Qed.

(* One parameter message - the address of element k of port i, one argument the port's
   specification accepts - dispatched at the root of the tree (C04's model of
   Ports::dispatch with a location buffer; [tree_dispatch] runs the callbacks it logs in
   order: sub-tree ports descend, a pointer sub-tree only while its switch is on, the
   leaf runs its macro's callback on the state's entry for its address) does exactly
   what SaveModel.set_elem does: the value lands in that element of that port and in no
   other, after the callback's clamping; no match when a pointer on the way is NULL.
   From C04_exactly_one_leaf (the callbacks are the chain along the leaf's index path,
   each loc the address so far) through C09's reaches_addressed.
   Side conditions: names of the macro shape, siblings not clashing ([names_ok], decidable);
   C04's [tree_ok] (holds for every tree whose tables are served by the linear scan:
   tree_ok_nohash); distinct addresses; a state with one value per element ([shaped]:
   kept by every accepted message, shaped_set_elem). *)
Theorem C12_dispatch_elem : forall hp tid (t : list pt),
  names_ok (sports_of t) = true -> tree_ok (to_tree hp tid (sports_of t)) ->
  Forall pt_wf t -> NoDup (map p_path (app_of_tree t)) ->
  forall i k v s,
    (i < length (app_of_tree t))%nat -> (k < p_len (port_at (app_of_tree t) i))%nat ->
    p_nodef (port_at (app_of_tree t) i) = false ->
    arg_wf v -> store (port_at (app_of_tree t) i) v <> None -> shaped (app_of_tree t) s ->
    tree_dispatch hp tid t (elem_addr (port_at (app_of_tree t) i) k) v s
    = set_elem (app_of_tree t) s i k v.
Proof. exact dispatch_elem. Qed.

(* The lines of the saved file, in any order, handed to the tree from a default-initialised
   instance (an array line element by element): the run is apply_all's - the former
   premise "C04 + C14" for every run the pipeline makes. *)
Theorem C12_dispatch_stage : forall hp tid (t : list pt) st,
  names_ok (sports_of t) = true -> tree_ok (to_tree hp tid (sports_of t)) -> Forall pt_wf t ->
  full_conditions (app_of_tree t) st -> comparable (app_of_tree t) st -> cstrings st ->
  forall ls, (forall l, In l ls -> In l (save_lines (app_of_tree t) st)) ->
    real_apply (fun _ l s => tree_apply_line hp tid t l s) (app_of_tree t) ls (initial (app_of_tree t))
    = real_apply (fun a l s => apply_line a l s) (app_of_tree t) ls (initial (app_of_tree t)).
Proof. exact dispatch_stage. Qed.

(* C12_roundtrip through the pipeline for the application of a port tree; loading hands
   the sorted lines to Ports::dispatch on the tree.  _partial: the stages still assumed
   are the walk (C09: reaches exactly the live ports) and print/scan (C10: a printed body
   scans back line by line); beside them [full_conditions], [comparable] (no NaN),
   [cstrings] (strings without NUL), [declared] (decidable, C13_declared_computed) and an
   acyclic dependency scan. *)
Theorem C12_roundtrip_pipeline_tree_partial :
  forall text walk print_lines scan_text hp tid (t : list pt) apropos fuel F st ps,
    let a := app_of_tree t in
    names_ok (sports_of t) = true -> tree_ok (to_tree hp tid (sports_of t)) -> Forall pt_wf t ->
    stage_hypotheses2 text walk print_lines scan_text a st ->
    full_conditions a st -> comparable a st -> cstrings st ->
    declared a apropos ->
    pushes line apropos fuel (msgs (save_lines a st)) = Some ps -> ranked ps ->
    exists fin,
      real_load text scan_text (fun _ l s => tree_apply_line hp tid t l s)
                (fun _ ls => sort_by_load_order apropos fuel ls) a
                (real_save text walk (av_eq_real F) print_lines a st) (initial a)
      = Some (Z.of_nat (length (save_lines a st)), fin) /\
      forall q, (q < length a)%nat -> p_nodef (port_at a q) = false -> live a st q = true ->
                restored_val (port_at a q) (val_at st q) (val_at fin q).
Proof. exact roundtrip_pipeline_tree. Qed.

(* { rToggle(e), rRecurp(s) -> { rParamI(x) } existing while e is on, rArrayI(t, 3) }: the
   hypotheses hold; the saved lines handed to the tree with the switch first restore the
   state, the line below the sub-tree in front of its switch reaches no port. *)
Theorem C12_pipeline_tree_nonvacuous :
  let a := app_of_tree fx_tree in
  names_ok (sports_of fx_tree) = true /\
  tree_ok (to_tree no_hash_search one_id (sports_of fx_tree)) /\ Forall pt_wf fx_tree /\
  full_conditions a fx_state /\ comparable a fx_state /\ cstrings fx_state /\
  declared a apropos_fx /\
  (exists ps, pushes line apropos_fx 20 (msgs (save_lines a fx_state)) = Some ps /\ ranked ps) /\
  real_apply (fun _ l s => tree_apply_line no_hash_search one_id fx_tree l s) a
             (map (the_line a fx_state) [0; 2; 1]%nat) (initial a) = (fx_loaded, true) /\
  tree_apply_line no_hash_search one_id fx_tree (the_line a fx_state 1) (initial a) = None.
Proof. exact pipeline_tree_nonvacuous. Qed.

(* ======================================================================== *)
(* Stage 5: C12_eq_stage with the 'a'-header array form                        *)
(* ======================================================================== *)
(* For a "name#N" port the two lists get_changed_values compares are ARRAYS: slot 0 is the
   header (type 'a', element type, number of slots), the elements follow.  By C16's theorem
   (the Arr node): equal iff the element types are of one class (T and F form one) and the
   elements compare equal one by one ([same_value], C's == on floats).  No NaN
   ([value_comparable]) as in C12_eq_stage. *)
Theorem C12_eq_stage_array : forall F hu hw u w, value_comparable u -> value_comparable w ->
  AvModel.vals_eq F (enc_array hu u) (enc_array hw w) (Zlength (enc_array hu u)) (Zlength (enc_array hw w))
    = Some ((AvModel.arr_class hu =? AvModel.arr_class hw) && same_value u w) /\
  av_eq_array F hu hw u w = ((AvModel.arr_class hu =? AvModel.arr_class hw) && same_value u w).
Proof. exact eq_stage_array. Qed.

(* so with element types of one class the header form gives the answer of the element-sequence
   form the pipeline theorems use *)
Theorem C12_eq_stage_array_same : forall F hu hw u w,
  AvModel.arr_class hu = AvModel.arr_class hw -> value_comparable u -> value_comparable w ->
  av_eq_array F hu hw u w = av_eq_real F u w.
Proof. exact eq_stage_array_same. Qed.

Theorem C12_eq_stage_array_nonvacuous : forall F,
  av_eq_array F 105 105 [VI 1; VI 5; VI 1] [VI 1; VI 1; VI 1] = false /\
  av_eq_array F 105 105 [VI 1; VI 5; VI 1] [VI 1; VI 5; VI 1] = true /\
  av_eq_array F 84 70 [VT true; VT false] [VT true; VT false] = true /\
  av_eq_array F 105 102 [] [] = false.
Proof. exact eq_stage_array_nonvacuous. Qed.

(* ======================================================================== *)
(* Stage 5: the walk stage instantiated (C09)                                  *)
(* ======================================================================== *)
(* walk_ports over the names of the tree, no runtime object: the walker is called with
   exactly the element addresses of app_of_tree, port by port in the application's order,
   every element once (C09_enumerates; the model expands "name#N" leaves, the save walk asks
   for one report per port and expands the elements itself). *)
Theorem C12_walk_addresses : forall t,
  names_ok (sports_of t) = true ->
  walk None (map render_port (sports_of t)) [] =
  WOk (flat_map (fun fp => map (fun k => (f_id (fst fp), elem_addr (snd fp) k)) (seq 0 (p_len (snd fp))))
                (combine (flat_root t) (app_of_tree t))) [47].
Proof. exact walk_addresses. Qed.

(* with the runtime object of a state [st] - the oracle C09's model asks: a pointer
   sub-tree is NULL while its switch is off, an 'enabled by' toggle answers the state's
   value - the walker is called for exactly the live ports (C09_pruning_enumerated, put
   together for the whole tree: walk_pruned_wf).  The sub-tree ports carry the metadata
   rEnabledBy writes; both forms of the property are covered: a toggle of the parent table,
   and the inner switch "name/tg" / "name#N/tg" (the walk does not enter the disabled
   sub-tree but is applied to the switch, C09's skipped_reports: the switch is the one live
   port below).  Likewise the rSelf form: while the toggle the table's "self:" port names is
   off, walk_ports does not look at the table but is applied to that toggle (C09's
   self_toggle).  switches_ok (decidable, Save/TreeApp.v): the property is a C string; the
   inner form names a toggle leaf that Ports::operator[] finds in the sub-table (the same one
   as that table's rSelf, if it has one), the other form is one name (no '/'); the rSelf
   port is the one Ports::operator[]("self:") finds and names a toggle leaf of its table.
   Distinct port addresses: the switch is told from the ports it governs by its address. *)
Theorem C12_walk_live_reports : forall t st,
  names_ok (sports_of t) = true -> switches_ok t = true ->
  NoDup (map dir_addr (dirs_root t)) -> NoDup (map p_path (app_of_tree t)) ->
  walk (Some (oracle_of (app_of_tree t) (dirs_root t) st)) (map render_port (sports_of t)) [] =
  WOk (flat_map (live_reports (app_of_tree t) st) (flat_root t)) [47].
Proof. exact walk_live_reports. Qed.

(* the former premise "C09": the ports the walk reaches are the live ports, in order.
   Side conditions: switches_ok, distinct sub-tree addresses, distinct port and element
   addresses, no empty array. *)
Theorem C12_walk_stage : forall t st,
  let a := app_of_tree t in
  names_ok (sports_of t) = true -> switches_ok t = true ->
  NoDup (map dir_addr (dirs_root t)) -> NoDup (map p_path a) ->
  NoDup (app_addresses a) -> (forall i, (i < length a)%nat -> (0 < p_len (port_at a i))%nat) ->
  walk_tree t st = filter (live a st) (seq 0 (length a)).
Proof. exact walk_stage. Qed.

(* C12_roundtrip through the pipeline with the walk, the value comparison, the sort and the
   dispatch instantiated by the models of the code (C09, C16, C13, C04 + C14).  _partial:
   the one stage still assumed is print/scan (C10: [print_scan_hypothesis]); beside it
   [full_conditions] (well-formed application, state of the right shape, saved values
   stable), [comparable] (no NaN), [cstrings], [declared] (decidable), an acyclic
   dependency scan, and the decidable conditions on the tree: names_ok, tree_ok (C04's),
   pt_wf, switches_ok, distinct sub-tree and element addresses. *)
Theorem C12_roundtrip_pipeline_tree_walk_partial :
  forall text print_lines scan_text hp tid (t : list pt) apropos fuel F st ps,
    let a := app_of_tree t in
    names_ok (sports_of t) = true -> tree_ok (to_tree hp tid (sports_of t)) -> Forall pt_wf t ->
    switches_ok t = true ->
    NoDup (map dir_addr (dirs_root t)) -> NoDup (app_addresses a) ->
    print_scan_hypothesis text print_lines scan_text ->
    full_conditions a st -> comparable a st -> cstrings st ->
    declared a apropos ->
    pushes line apropos fuel (msgs (save_lines a st)) = Some ps -> ranked ps ->
    exists fin,
      real_load text scan_text (fun _ l s => tree_apply_line hp tid t l s)
                (fun _ ls => sort_by_load_order apropos fuel ls) a
                (real_save text (fun _ s => walk_tree t s) (av_eq_real F) print_lines a st) (initial a)
      = Some (Z.of_nat (length (save_lines a st)), fin) /\
      forall q, (q < length a)%nat -> p_nodef (port_at a q) = false -> live a st q = true ->
                restored_val (port_at a q) (val_at st q) (val_at fin q).
Proof. exact roundtrip_pipeline_tree_walk. Qed.

Theorem C12_pipeline_tree_walk_nonvacuous :
  NoDup (map dir_addr (dirs_root fx_tree)) /\ NoDup (app_addresses (app_of_tree fx_tree)) /\
  walk_tree fx_tree fx_state = [0; 1; 2; 3]%nat /\
  walk_tree fx_tree (initial (app_of_tree fx_tree)) = [0; 2; 3]%nat.
Proof. exact pipeline_tree_walk_nonvacuous. Qed.

(* the inner-switch form: { sub/ (enabled by "sub/on") -> { on, x }, a#2/ (enabled by "a#2/on")
   -> { y, on } } - a0/ is switched by a0/on, a1/ by a1/on.  All side conditions of
   C12_walk_stage hold; a switch governs the other ports of its sub-tree, not itself; from a
   default-initialised instance the walk reaches the three switches only, with /sub/on and
   /a1/on on also /sub/x and /a1/y (not /a0/y): the live ports. *)
Theorem C12_walk_inner_switch_nonvacuous :
  let a := app_of_tree sw_tree in
  names_ok (sports_of sw_tree) = true /\ switches_ok sw_tree = true /\
  NoDup (map dir_addr (dirs_root sw_tree)) /\ NoDup (map p_path a) /\ NoDup (app_addresses a) /\
  (forall i, (i < length a)%nat -> (0 < p_len (port_at a i))%nat) /\
  map (fun p => (p_path p, p_soft p)) a =
    [ ([47; 115; 117; 98; 47; 111; 110], []);       ([47; 115; 117; 98; 47; 120], [0%nat]);
      ([47; 97; 48; 47; 121], [3%nat]);             ([47; 97; 48; 47; 111; 110], []);
      ([47; 97; 49; 47; 121], [5%nat]);             ([47; 97; 49; 47; 111; 110], []) ] /\
  walk_tree sw_tree (initial a) = [0; 3; 5]%nat /\
  filter (live a (initial a)) (seq 0 (length a)) = [0; 3; 5]%nat /\
  walk_tree sw_tree sw_state = [0; 1; 3; 4; 5]%nat /\
  filter (live a sw_state) (seq 0 (length a)) = [0; 1; 3; 4; 5]%nat.
Proof. exact walk_inner_switch_nonvacuous. Qed.

(* the rSelf form: { x, d/ -> { self: (enabled by "on"), on, y, e/ -> { z } },
   b/ (enabled by "b/on") -> { self: (enabled by "on"), w, on } } (in b/ both forms name one
   switch).  "self:" has an entry without default; the switch governs everything else in its
   table and below.  From a default-initialised instance the walk reaches /x, /d/on, /b/on;
   with /d/on on everything below d/ as well. *)
Theorem C12_walk_rself_nonvacuous :
  let a := app_of_tree self_tree in
  names_ok (sports_of self_tree) = true /\ switches_ok self_tree = true /\
  NoDup (map dir_addr (dirs_root self_tree)) /\ NoDup (map p_path a) /\ NoDup (app_addresses a) /\
  (forall i, (i < length a)%nat -> (0 < p_len (port_at a i))%nat) /\
  map (fun p => (p_path p, p_soft p, p_nodef p)) a =
    [ ([47; 120], [], false);
      ([47; 100; 47; 115; 101; 108; 102], [2%nat], true);    ([47; 100; 47; 111; 110], [], false);
      ([47; 100; 47; 121], [2%nat], false);                  ([47; 100; 47; 101; 47; 122], [2%nat], false);
      ([47; 98; 47; 115; 101; 108; 102], [7%nat; 7%nat], true);
      ([47; 98; 47; 119], [7%nat; 7%nat], false);            ([47; 98; 47; 111; 110], [], false) ] /\
  walk_tree self_tree (initial a) = [0; 2; 7]%nat /\
  filter (live a (initial a)) (seq 0 (length a)) = [0; 2; 7]%nat /\
  walk_tree self_tree self_state = [0; 1; 2; 3; 4; 7]%nat /\
  filter (live a self_state) (seq 0 (length a)) = [0; 1; 2; 3; 4; 7]%nat.
Proof. exact walk_rself_nonvacuous. Qed.

(* ======================================================================== *)
(* Stage 5: the print/scan stage (C10)                                         *)
(* ======================================================================== *)
(* A savefile line is  address SP printed-values NL  - the text rtosc_print_message makes
   (C10's print_message) and a line feed.  With range compression on (the default options)
   and values in C10's goodc0 fragment, the checker and the scanner read the message back
   ALSO WHEN MORE TEXT FOLLOWS the line feed - nothing, or the next message: the scanner
   stops in front of the next '/' (C10's own theorems are about a text that ends with the
   message).  The slots do not depend on what follows. *)
Theorem C12_message_reads_tl : forall (dec2f dec2d : list Z -> Z) o addr vs text w,
  PrintModel.compress o = true -> RunProofs.good_addr addr -> Forall ListProofs.goodc0 vs ->
  Z.of_nat (length vs) < 2 ^ 31 ->
  PrintModel.print_message o addr vs 0 = Some (text, w) ->
  exists slots,
    PrintModel.expand slots = Some vs /\ (exists sfx, text = addr ++ sfx) /\
    forall tl, tail_ok tl ->
    ScanModel.count_printed_arg_vals_of_msg dec2f dec2d (text ++ 10 :: tl)
      = ScanModel.Ok (true, Z.of_nat (length slots)) /\
    ScanModel.scan_message dec2f dec2d (text ++ 10 :: tl) (Z.of_nat (length slots))
      = ScanModel.Ok (addr, slots, tl).
Proof. exact message_reads_tl. Qed.

(* a scalar line of the file with goodc values (int, char, T/F, strings and quoted symbols
   without '.') reads back: the loader's line is the saved line *)
Theorem C12_goodc_line_reads : forall (dec2f dec2d : list Z -> Z) o l t w,
  PrintModel.compress o = true -> goodc_line l ->
  PrintModel.print_message o (l_path l) (line_avs l) 0 = Some (t, w) -> line_reads dec2f dec2d o l.
Proof. exact goodc_line_reads. Qed.

(* lines do not interfere: if every line reads back whatever follows it, the first loop of
   dispatch_printed_messages reads the body back line by line, each with the bytes it took *)
Theorem C12_body_scans : forall (dec2f dec2d : list Z -> Z) o ls b,
  Forall (line_reads dec2f dec2d o) ls -> print_body o ls = Some b ->
  exists rds, length rds = length ls /\ Forall (fun rd => 0 <= rd) rds /\
    forall fuel, (length ls < fuel)%nat ->
      scan_body dec2f dec2d fuel b = map (fun lr => Msg (fst lr) (snd lr)) (combine ls rds).
Proof. exact body_scans. Qed.

(* C12_roundtrip with EVERY stage of the pipeline the model of the code that implements it:
   walk_ports with the runtime object (C09), rtosc_arg_vals_eq (C16), rtosc_print_message and
   the body loop (C10), scan_deps + Kahn (C13), Ports::dispatch and the macros' callbacks
   (C04 + C14).  _partial - what remains:
     * [full_conditions] (well-formed application, shape of the state, saved values stable),
       [comparable] (no NaN), [cstrings] (no NUL in strings);
     * [declared] (decidable, C13_declared_computed) and an acyclic dependency scan;
     * decidable conditions on the tree: names_ok, C04's tree_ok, pt_wf, switches_ok, distinct
       sub-tree and element addresses;
     * per saved LINE: [line_reads] - proved for scalar lines with goodc values
       (C12_goodc_line_reads); for lines with floats ("the float-text premise"), plain option
       symbols and "[...]" array lines it is assumed. *)
Theorem C12_roundtrip_tree_real_partial :
  forall (dec2f dec2d : list Z -> Z) o hp tid (t : list pt) apropos fuel F st ps,
    let a := app_of_tree t in
    names_ok (sports_of t) = true -> tree_ok (to_tree hp tid (sports_of t)) -> Forall pt_wf t ->
    switches_ok t = true ->
    NoDup (map dir_addr (dirs_root t)) -> NoDup (app_addresses a) ->
    full_conditions a st -> comparable a st -> cstrings st ->
    declared a apropos ->
    pushes line apropos fuel (msgs (save_lines a st)) = Some ps -> ranked ps ->
    Forall (line_reads dec2f dec2d o) (save_lines a st) ->
    exists fin,
      real_load (option (list Z)) (scan_text_real dec2f dec2d) (fun _ l s => tree_apply_line hp tid t l s)
                (fun _ ls => sort_by_load_order apropos fuel ls) a
                (real_save (option (list Z)) (fun _ s => walk_tree t s) (av_eq_real F) (print_body o) a st)
                (initial a)
      = Some (Z.of_nat (length (save_lines a st)), fin) /\
      forall q, (q < length a)%nat -> p_nodef (port_at a q) = false -> live a st q = true ->
                restored_val (port_at a q) (val_at st q) (val_at fin q).
Proof. exact roundtrip_tree_real. Qed.

(* the tree of C12_pipeline_tree_nonvacuous with the switch on and /s/x = 9: all premises
   hold, the body is "/e true\n/s/x 9\n", both lines read back *)
Theorem C12_roundtrip_tree_real_nonvacuous : forall (dec2f dec2d : list Z -> Z),
  let a := app_of_tree fx_tree in
  full_conditions a fx_state2 /\ comparable a fx_state2 /\ cstrings fx_state2 /\
  declared a apropos_fx /\
  (exists ps, pushes line apropos_fx 20 (msgs (save_lines a fx_state2)) = Some ps /\ ranked ps) /\
  print_body opts_default (save_lines a fx_state2)
    = Some [47; 101; 32; 116; 114; 117; 101; 10;  47; 115; 47; 120; 32; 57; 10] /\
  Forall (line_reads dec2f dec2d opts_default) (save_lines a fx_state2).
Proof. exact roundtrip_tree_real_nonvacuous. Qed.

(* ======================================================================== *)
(* Stage 6: the lines of every parameter kind                                  *)
(* ======================================================================== *)
(* C12_message_reads_tl over C10's widened class (stage 6 of C10): bare symbols, blobs, and
   with the lossless option every finite float / double; +0.0 and -0.0 of one type not both
   in the list ([nozmix], the predicate of C10's finding class signed-zero-run) *)
Theorem C12_message_reads_tl_any : forall (dec2f dec2d : list Z -> Z) o addr vs text w,
  PrintModel.compress o = true -> RunProofs.good_addr addr -> Forall (ListProofs.goodv o) vs ->
  ListProofs.nozmix vs -> Z.of_nat (length vs) < 2 ^ 31 ->
  PrintModel.print_message o addr vs 0 = Some (text, w) ->
  exists slots,
    PrintModel.expand slots = Some vs /\ (exists sfx, text = addr ++ sfx) /\
    forall tl, tail_ok tl ->
    ScanModel.count_printed_arg_vals_of_msg dec2f dec2d (text ++ 10 :: tl)
      = ScanModel.Ok (true, Z.of_nat (length slots)) /\
    ScanModel.scan_message dec2f dec2d (text ++ 10 :: tl) (Z.of_nat (length slots))
      = ScanModel.Ok (addr, slots, tl).
Proof. exact message_reads_tl_nz. Qed.

(* a message with ONE value - the line of a scalar port - for ANY option record and every
   value C10 has a token theorem for: no condition on dots (fewer than five values are never
   compressed, no range tail can follow), both zeroes *)
Theorem C12_one_message_reads_tl : forall (dec2f dec2d : list Z -> Z) o addr v text w,
  RunProofs.good_addr addr -> good1 o v ->
  PrintModel.print_message o addr [v] 0 = Some (text, w) ->
  (exists sfx, text = addr ++ sfx) /\
  forall tl, tail_ok tl ->
    ScanModel.count_printed_arg_vals_of_msg dec2f dec2d (text ++ 10 :: tl) = ScanModel.Ok (true, 1) /\
    ScanModel.scan_message dec2f dec2d (text ++ 10 :: tl) 1 = ScanModel.Ok (addr, [v], tl).
Proof. exact one_message_reads_tl. Qed.

(* a message whose values are ONE array "[e1 e2 ...]" - the line of a "name#N" port - for any
   option record: the scanner writes the array header and slots that expand to the elements *)
Theorem C12_array_message_reads_tl : forall (dec2f dec2d : list Z -> Z) o addr ty elems text w,
  RunProofs.good_addr addr -> Forall (ListProofs.goodv o) elems -> ListProofs.nozmix elems ->
  ArrayProofs.homog elems -> elems <> [] -> Z.of_nat (length elems) + 1 < 2 ^ 31 ->
  PrintModel.print_message o addr (Tok.VArr ty (Z.of_nat (length elems)) :: elems) 0 = Some (text, w) ->
  exists ty' slots,
    PrintModel.expand slots = Some elems /\ (exists sfx, text = addr ++ sfx) /\
    forall tl, tail_ok tl ->
    ScanModel.count_printed_arg_vals_of_msg dec2f dec2d (text ++ 10 :: tl)
      = ScanModel.Ok (true, 1 + Z.of_nat (length slots)) /\
    ScanModel.scan_message dec2f dec2d (text ++ 10 :: tl) (1 + Z.of_nat (length slots))
      = ScanModel.Ok (addr, Tok.VArr ty' (Z.of_nat (length slots)) :: slots, tl).
Proof. exact array_message_reads_tl_nz. Qed.

(* the printer's model is total on one-value lines, compression on or off *)
Theorem C12_scalar_line_prints : forall o l x, l_array l = false -> l_vals l = [x] ->
  exists t w, PrintModel.print_message o (l_path l) (line_avs l) 0 = Some (t, w).
Proof. exact scalar_line_prints. Qed.

(* a saved line of the class [good_line] reads back, whatever message follows it:
     scalar port:  one value - 32-bit int, char 0..255, finite float (both zeroes), T/F, string or
                   quoted symbol without NUL, bare symbol                          [good_scalar1]
     name#N port:  one non-empty array of elements of one type ([homog]; T and F are one type),
                   each an int, char other than '.', finite float, T/F, string / quoted symbol
                   without NUL and '.', bare symbol [good_elem]; +0.0 and -0.0 not both [nozmix]
   Excluded: NaN, infinities; arrays mixing types; C10's two list-level findings inside arrays. *)
Theorem C12_good_line_reads : forall (dec2f dec2d : list Z -> Z) o l,
  PrintModel.lossless o = true -> good_line l -> line_reads dec2f dec2d o l.
Proof. exact good_line_reads_total. Qed.

(* printer totality with compression ON (open since stage 5): a message whose values are one
   array of C10's goodc values is printed by the model for every option record, address and
   length - the range conversion inside the array loop (rtosc_convert_to_range, the run loops,
   rtosc_print_range) never takes a path the model does not cover *)
Theorem C12_array_message_prints : forall o zf zd addr ty elems,
  ListProofs.zchoice zf zd -> Forall (ListProofs.goodc o zf zd) elems ->
  Z.of_nat (length elems) + 1 < 2 ^ 31 ->
  exists text w, PrintModel.print_message o addr (Tok.VArr ty (Z.of_nat (length elems)) :: elems) 0 = Some (text, w).
Proof. exact array_message_prints_any. Qed.

Theorem C12_good_line_prints : forall o l,
  PrintModel.lossless o = true -> good_line l ->
  exists t w, PrintModel.print_message o (l_path l) (line_avs l) 0 = Some (t, w).
Proof. exact good_line_prints. Qed.

(* C12_roundtrip_tree_real_partial WITHOUT the per-line premise: every saved line is in the
   class [good_line] (conditions on the saved VALUES only, see C12_good_line_reads) and the
   option record is lossless (default_print_options, with which savefiles are written, is).
   Still _partial: the other premises of C12_roundtrip_tree_real_partial (application well formed,
   no NaN, metadata declares the dependencies, decidable conditions on the tree). *)
Theorem C12_roundtrip_tree_real_lines_partial :
  forall (dec2f dec2d : list Z -> Z) o hp tid (t : list pt) apropos fuel F st ps,
    let a := app_of_tree t in
    names_ok (sports_of t) = true -> tree_ok (to_tree hp tid (sports_of t)) -> Forall pt_wf t ->
    switches_ok t = true ->
    NoDup (map dir_addr (dirs_root t)) -> NoDup (app_addresses a) ->
    full_conditions a st -> comparable a st -> cstrings st ->
    declared a apropos ->
    pushes line apropos fuel (msgs (save_lines a st)) = Some ps -> ranked ps ->
    PrintModel.lossless o = true -> Forall good_line (save_lines a st) ->
    exists fin,
      real_load (option (list Z)) (scan_text_real dec2f dec2d) (fun _ l s => tree_apply_line hp tid t l s)
                (fun _ ls => sort_by_load_order apropos fuel ls) a
                (real_save (option (list Z)) (fun _ s => walk_tree t s) (av_eq_real F) (print_body o) a st)
                (initial a)
      = Some (Z.of_nat (length (save_lines a st)), fin) /\
      forall q, (q < length a)%nat -> p_nodef (port_at a q) = false -> live a st q = true ->
                restored_val (port_at a q) (val_at st q) (val_at fin q).
Proof. exact roundtrip_tree_real_lines. Qed.

(* the tree of C12_pipeline_tree_nonvacuous with /t = [1 5 1]: the body is
   "/e true\n/s/x 9\n/t [1 5]\n" (array line, suffix equal to the default trimmed) *)
Theorem C12_roundtrip_tree_real_lines_nonvacuous : forall (dec2f dec2d : list Z -> Z),
  let a := app_of_tree fx_tree in
  full_conditions a fx_state /\
  print_body opts_default (save_lines a fx_state)
    = Some [47; 101; 32; 116; 114; 117; 101; 10;  47; 115; 47; 120; 32; 57; 10;
            47; 116; 32; 91; 49; 32; 53; 93; 10] /\
  Forall good_line (save_lines a fx_state) /\
  Forall (line_reads dec2f dec2d opts_default) (save_lines a fx_state).
Proof. exact roundtrip_tree_real_lines_nonvacuous. Qed.

(* lines of the other kinds: /f 0.10 (0x1.99999ap-4), /o sine, /s "a...b" (dots are no obstacle on
   a one-value line), /a [0.50 (0x1p-1) 5x-0.00 (-0x0p+0)] *)
Theorem C12_good_line_examples : forall (dec2f dec2d : list Z -> Z),
  Forall good_line [ex_float_line; ex_symbol_line; ex_dotted_line; ex_farray_line] /\
  Forall (line_reads dec2f dec2d opts_default) [ex_float_line; ex_symbol_line; ex_dotted_line; ex_farray_line] /\
  print_body opts_default [ex_float_line; ex_symbol_line; ex_dotted_line; ex_farray_line] =
  Some ([47; 102; 32; 48; 46; 49; 48; 32; 40; 48; 120; 49; 46; 57; 57; 57; 57; 57; 97; 112; 45; 52; 41; 10] ++
        [47; 111; 32; 115; 105; 110; 101; 10] ++
        [47; 115; 32; 34; 97; 46; 46; 46; 98; 34; 10] ++
        [47; 97; 32; 91; 48; 46; 53; 48; 32; 40; 48; 120; 49; 112; 45; 49; 41; 32; 53; 120; 45; 48; 46; 48; 48; 32;
         40; 45; 48; 120; 48; 112; 43; 48; 41; 93; 10]).
Proof. exact good_line_examples. Qed.

(* the class of lines is decidable: the tie evaluates good_line_b on every saved line *)
Theorem C12_good_line_computed : forall l, good_line_b l = true -> good_line l.
Proof. exact good_line_b_sound. Qed.

(* the side conditions on the application and the state are decidable: the tie evaluates
   wf_app_b / full_conditions_b on every generated case (Save/CondModel.v) *)
Theorem C12_wf_app_computed : forall a, wf_app_b a = true -> wf_app a.
Proof. exact wf_app_b_sound. Qed.
Theorem C12_full_conditions_computed : forall a st, full_conditions_b a st = true -> full_conditions a st.
Proof. exact full_conditions_b_sound. Qed.

(* "For any state an application can reach through its parameter ports": the states reached from
   a default-initialised instance by parameter messages (send: a message no port accepts leaves the
   state as it is) satisfy what the round-trip theorems ask of the state.  Asked of the application:
   wf_app and defaults that its own callbacks store (defaults_stable: inside the declared range);
   of a message: msg_ok - the value it stores is stored again when sent as the file shows it.  That
   holds for EVERY message to a port that is no option port (C12_msg_ok_non_option, from C14's
   clamp idempotence); for option ports it excludes exactly the messages of the finding class
   option-outside-range (a symbol whose number lies outside the declared range).  All three are
   decidable and evaluated by the tie (defaults_stable_b, msg_ok_b). *)
Theorem C12_reachable_full_conditions : forall a, wf_app a -> defaults_stable a ->
  forall s, reachable a s -> full_conditions a s.
Proof. exact reachable_full_conditions. Qed.
Theorem C12_msg_ok_non_option : forall p v, p_kind p <> KO -> msg_ok p v.
Proof. exact msg_ok_non_option. Qed.
Theorem C12_defaults_stable_computed : forall a, defaults_stable_b a = true -> defaults_stable a.
Proof. exact defaults_stable_b_sound. Qed.
Theorem C12_msg_ok_computed : forall p v, msg_ok_b p v = true -> msg_ok p v.
Proof. exact msg_ok_b_sound. Qed.
Theorem C12_reachable_nonvacuous :
  wf_app fx_app /\ defaults_stable fx_app /\ reachable fx_app fx_state /\ full_conditions fx_app fx_state.
Proof. exact reachable_nonvacuous. Qed.
