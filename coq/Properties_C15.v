(* C15 - Undo history rewinds and replays exactly.
   Only the property theorems, each closed by [exact]; proofs live in
   Undo/UndoProofs.v, the model in Undo/UndoModel.v. *)
From Coq Require Import List ZArith.
From RtoscV Require Import Undo.UndoModel Undo.UndoProofs.
Import ListNotations.
Local Open Scope Z_scope.

(* seeks beyond either end stop at the end: a seek by k is the seek by k
   clamped to [-pos, size-pos] *)
Theorem C15_seek_clamped : forall s k, pos_ok s -> seek k s = seek (clamp_dist s k) s.
Proof. exact seek_clamped. Qed.
