(* C15 - Undo history rewinds and replays exactly.
   Only the property theorems, each closed by [exact]; proofs live in
   Undo/UndoProofs.v (and Undo/UndoRegress.v for the D13 witness), the model
   in Undo/UndoModel.v.

   [run ops init = Some (s, mss)]: s is the state after the operation history
   ops (record / seek / advance-clock), for ANY list ops and addresses of any
   length (after the long-address repair the set-message buffer is sized from
   the message; the 256-byte version is refuted in C15_long_address_regress).
   [op_ok]: advance-clock steps are non-negative. *)
From Coq Require Import List ZArith.
From RtoscV Require Import Undo.UndoModel Undo.UndoProofs Undo.UndoRegress Undo.UndoPortsModel Undo.UndoPortsProofs Undo.UndoPortsTotal.
Import ListNotations.
Local Open Scope Z_scope.

(* no history ever indexes outside the deque (seek/record are total) *)
Theorem C15_safe : forall ops, exists s mss, run ops init = Some (s, mss).
Proof. exact run_total. Qed.

(* seeking back k steps emits, newest first, one message per event that sets
   its address to the event's old value *)
Theorem C15_seek_back : forall ops s mss (k : nat),
  run ops init = Some (s, mss) -> (k <= pos s)%nat ->
  seek (- Z.of_nat k) s =
  Some (mkH (hist s) (pos s - k) (clock s), map set_old (firstn k (applied_newest_first s))).
Proof. exact hist_seek_back. Qed.

(* seeking forward replays the new values oldest first *)
Theorem C15_seek_forward : forall ops s mss (k : nat),
  run ops init = Some (s, mss) -> (pos s + k <= length (hist s))%nat ->
  seek (Z.of_nat k) s =
  Some (mkH (hist s) (pos s + k) (clock s), map set_new (firstn k (undone_oldest_first s))).
Proof. exact hist_seek_forward. Qed.

(* seeks beyond either end stop at the end: a seek by any k is the seek by k
   clamped to [-pos, size-pos] *)
Theorem C15_seek_clamped : forall ops s mss k,
  run ops init = Some (s, mss) -> seek k s = seek (clamp_dist s k) s.
Proof. exact hist_seek_clamped. Qed.

(* recording after an undo discards the undone tail: the result does not
   depend on it and the cursor ends at the end *)
Theorem C15_truncate_on_record : forall ops s mss a ty old nw,
  run ops init = Some (s, mss) ->
  record a ty old nw s = record a ty old nw (mkH (firstn (pos s) (hist s)) (pos s) (clock s)) /\
  pos (record a ty old nw s) = length (hist (record a ty old nw s)).
Proof. exact hist_truncate. Qed.

(* only 20 events are retained ... *)
Theorem C15_cap : forall ops s mss, run ops init = Some (s, mss) ->
  (pos s <= length (hist s) <= 20)%nat.
Proof. exact hist_cap. Qed.

(* ... the 20 most recent: without a recent event of the same address the new
   event is appended to the applied events and the last 20 are kept *)
Theorem C15_cap_most_recent : forall ops s mss a ty old nw,
  run ops init = Some (s, mss) ->
  Forall (fun e => ~ recent (clock s) a e) (firstn (pos s) (hist s)) ->
  let h' := lastn 20 (firstn (pos s) (hist s) ++ [mkEv (clock s) a ty old nw]) in
  record a ty old nw s = mkH h' (length h') (clock s).
Proof. exact hist_append. Qed.

(* events for the same address recorded within two seconds merge into one
   (first old value, last new value): the merged-into event is the newest
   event of that address and the only one recorded within two seconds *)
Theorem C15_merge : forall ops s mss a ty old nw,
  Forall op_ok ops -> run ops init = Some (s, mss) ->
  Exists (recent (clock s) a) (firstn (pos s) (hist s)) ->
  exists l1 h l2, firstn (pos s) (hist s) = l1 ++ h :: l2 /\ recent (clock s) a h /\
    Forall (fun e => eaddr e <> a) l2 /\
    Forall (fun e => ~ recent (clock s) a e) l1 /\
    record a ty old nw s = mkH (l1 ++ merged (clock s) a ty nw h :: l2) (pos s) (clock s).
Proof. exact hist_merge. Qed.

(* consequently no two retained events of one address were recorded within
   two seconds of each other *)
Theorem C15_merge_separated : forall ops s mss,
  Forall op_ok ops -> run ops init = Some (s, mss) -> sep (hist s).
Proof. exact hist_separated. Qed.

(* end to end (events recorded by parameter ports, undo messages dispatched
   back): undoing everything retained returns every parameter to the value it
   had before its oldest retained change, redoing returns the latest values *)
Theorem C15_undo_all : forall ops f0, Forall eop_ok ops ->
  exists f s, erun ops (f0, init) = Some (f, s) /\
    (exists f' s' ms, estep (f, s) (ESeek (- Z.of_nat (pos s))) = Some ((f', s'), ms) /\
       pos s' = 0%nat /\ forall a, f' a = value_before_oldest (hist s) a (f a)) /\
    (exists f' s' ms, estep (f, s) (ESeek (Z.of_nat (length (hist s) - pos s))) = Some ((f', s'), ms) /\
       pos s' = length (hist s) /\ forall a, f' a = value_latest (hist s) a (f a)).
Proof. exact e2e_undo_redo. Qed.

(* the invariant behind it: the application's values are the base values
   with the applied events replayed, and the old/new values form a chain *)
Theorem C15_chain_invariant : forall ops st, e_inv st -> Forall eop_ok ops ->
  exists st', erun ops st = Some st' /\ e_inv st'.
Proof. exact erun_inv. Qed.

(* D13 regression: with the scan as it was (stop at the first entry older than
   two seconds) the merge clause fails on A@0 B@0 A@1 A@3 *)
Theorem C15_merge_regress :
  Exists (recent (clock d13_state) A) (firstn (pos d13_state) (hist d13_state)) /\
  length (hist (record_old A 105 2 3 d13_state)) = S (length (hist d13_state)) /\
  ~ sep (hist (record_old A 105 2 3 d13_state)).
Proof. exact merge_old_refuted. Qed.

(* long-address regression: with the fixed 256-byte buffer the undo of an event
   whose address has 248 bytes delivered an empty message and its redo nothing *)
Theorem C15_long_address_regress :
  set_len long_addr = 260 /\
  rewind_old long_ev = [EmptyMsgOld] /\ replay_old long_ev = [] /\
  rewind long_ev = [SetMsg long_addr 105 1] /\ replay long_ev = [SetMsg long_addr 105 2].
Proof. exact long_address_refuted. Qed.

(* the hypotheses are satisfiable: a history in which the recent event of /a
   is not the newest event, and an end-to-end history *)
Theorem C15_nonvacuous :
  exists s mss, Forall op_ok ex_ops /\ run ex_ops init = Some (s, mss) /\
    Exists (recent (clock s) ex_A) (firstn (pos s) (hist s)) /\
    hist s = [mkEv 1001 ex_A 105 0 2; mkEv 1000 ex_B 105 0 5] /\
    hist (record ex_A 105 2 3 s) = [mkEv 1003 ex_A 105 0 3; mkEv 1000 ex_B 105 0 5].
Proof. exact merge_nonvacuous. Qed.

Theorem C15_nonvacuous_e2e :
  Forall eop_ok ex_eops /\
  exists f s, erun ex_eops (zero_store, init) = Some (f, s) /\
    pos s = 2%nat /\ length (hist s) = 3%nat /\ f ex_A = 7 /\ f ex_B = 3.
Proof. exact e2e_nonvacuous. Qed.

(* ---- end to end through C14's ports (Undo/UndoPortsModel.v) ------------------
   The application is a table of macro-generated ports with the contents of
   their fields; a set message runs the matching port's callback (C14's model)
   and what it hands to reply("/undo_change") is recorded; a seek dispatches the
   history's set-messages back into the table.
   [table_ok]: every port is of a kind with a modelled callback, its declared
   range is ordered, its option numbers lie inside it, no two ports answer the
   same address.  [cells_ok]: the fields hold values inside the declared ranges.
   [pop_ok]: addresses from U (one spelling per element: "/n1", not also
   "/n01"), never "/undo_change"; the set messages are those of C14's quantifier;
   float values are ordered and not -0.0 (for those the ports' "!=" and bit
   equality differ); the clock does not run backwards.
   [abs U t a] is the value of the field element the address names.

   Every such history is run by the model to its end (C15_ports_total below:
   None = a callback would read outside its field or meet an argument its
   specification does not promise - excluded for all of them, so the premise
   "prun ... = Some" is no restriction); seeking back over everything delivers every undo message
   to a port (ports reached = messages) and returns every parameter to the value
   it had before its oldest retained change; seeking forward returns the latest
   values.  The fields stay inside their ranges. *)
Theorem C15_ports_undo_all : forall ps U t0 ops t s,
  table_ok ps -> one_spelling ps U -> ports t0 = ps -> cells_ok t0 ->
  Forall (pop_ok ps U) ops -> prun ops (t0, init) = Some (t, s) ->
  (exists t' s' ms,
     pstep (t, s) (PSeek (- Z.of_nat (pos s))) = Some ((t', s'), ms, Z.of_nat (length ms)) /\
     pos s' = 0%nat /\ cells_ok t' /\
     forall a, abs U t' a = value_before_oldest (hist s) a (abs U t a)) /\
  (exists t' s' ms,
     pstep (t, s) (PSeek (Z.of_nat (length (hist s) - pos s))) = Some ((t', s'), ms, Z.of_nat (length ms)) /\
     pos s' = length (hist s) /\ cells_ok t' /\
     forall a, abs U t' a = value_latest (hist s) a (abs U t a)).
Proof. exact ports_undo_redo. Qed.

(* every seek, wherever the cursor is: all its messages reach a port, and the
   fields afterwards are the store of the abstract application with the
   messages applied (so C15_seek_back / C15_seek_forward speak about the
   fields); the invariant - the retained events carry their port's own type
   tag and values the port stores unchanged - is kept *)
Theorem C15_ports_seek : forall ps U t s k,
  table_ok ps -> one_spelling ps U -> pinv ps U (t, s) ->
  exists t' s' ms, pstep (t, s) (PSeek k) = Some ((t', s'), ms, Z.of_nat (length ms)) /\
    seek k s = Some (s', ms) /\ pinv ps U (t', s') /\
    forall a, abs U t' a = apply_msgs (abs U t) ms a.
Proof. exact pseek_inv. Qed.

Theorem C15_ports_invariant : forall ps U ops st st',
  table_ok ps -> one_spelling ps U -> pinv ps U st -> Forall (pop_ok ps U) ops ->
  prun ops st = Some st' -> pinv ps U st'.
Proof. exact prun_inv. Qed.

(* totality: on a well-formed table every operation of the quantifier - a set
   message that reaches any port of the table (numeric, option, toggle, array,
   rParams alias), a seek, a clock step - is executed (never None) and keeps
   the invariant; hence every history of the quantifier runs to its end.  The
   premise "prun ops (t0, init) = Some (t, s)" of C15_ports_undo_all and
   "prun ops st = Some st'" of C15_ports_invariant always holds. *)
Theorem C15_ports_step_total : forall ps U st o,
  table_ok ps -> one_spelling ps U -> pinv ps U st -> pop_ok ps U o ->
  exists st' ms n, pstep st o = Some (st', ms, n) /\ pinv ps U st'.
Proof. exact pstep_total. Qed.

Theorem C15_ports_total : forall ps U t0 ops,
  table_ok ps -> one_spelling ps U -> ports t0 = ps -> cells_ok t0 -> Forall (pop_ok ps U) ops ->
  exists t s, prun ops (t0, init) = Some (t, s) /\ pinv ps U (t, s).
Proof. exact prun_total_init. Qed.

(* the hypotheses are satisfiable: a clamped rParamI, an rArrayI and an rToggle *)
Theorem C15_nonvacuous_ports :
  table_ok ex_ports /\ one_spelling ex_ports ex_U /\ cells_ok ex_table /\
  Forall (pop_ok ex_ports ex_U) ex_pops /\
  exists t s, prun ex_pops (ex_table, init) = Some (t, s) /\
    t = [(ex_pi, [100]); (ex_pn, [0; 5; -3; 0]); (ex_pt, [1])] /\
    hist s = [mkEv 1000 [47; 105] 105 0 100; mkEv 1000 [47; 110; 49] 105 0 5;
              mkEv 1003 [47; 110; 50] 105 0 (-3)] /\ pos s = 3%nat.
Proof. exact ports_nonvacuous. Qed.

(* the type tag of the event matters (C14_undo_event_replays supplies it): the
   set-message of an event with 'c' payloads for an element of "n#4::i" reaches
   no port and restores nothing, the one with 'i' payloads does *)
Theorem C15_event_tag_matters :
  replay_msgs [(ex_pn, [0; 5; 0; 0])] [SetMsg [47; 110; 49] 99 0] = Some ([(ex_pn, [0; 5; 0; 0])], 0) /\
  replay_msgs [(ex_pn, [0; 5; 0; 0])] [SetMsg [47; 110; 49] 105 0] = Some ([(ex_pn, [0; 0; 0; 0])], 1).
Proof. exact wrong_tag_not_replayed. Qed.
