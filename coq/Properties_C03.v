(* C03 - Realtime safety: the message path never allocates and never locks.
   Only the property theorems, each closed by [exact]; the generic
   reachability proofs live in RtGraph/Reach.v, the checks on the regenerated
   graph in RtGraph/GraphProofs.v, the graph itself (GCC's call graph of the
   compiled library and of every instantiated sugar callback) in
   RtGraph/Graph_gen.v, rewritten from the source on every check.

   [calls a b] = b is a direct callee of a in the compiled code, or the
   indirect-call table resolves a call site of a to b, and (a,b) is not one of
   the excluded abort-only edges. *)
From Coq Require Import List NArith.
From RtoscV Require Import RtGraph.ReachModel RtGraph.Graph_gen RtGraph.GraphProofs.
Import ListNotations.
Local Open Scope N_scope.

(* no chain of calls leads from an RT entry point (message build / measure /
   read, bundles, rtosc_match*, Ports::dispatch, every sugar callback,
   RtData::reply/broadcast, ThreadLink write/read/hasNext) to malloc, free,
   operator new/delete, pthread_mutex_lock, a throw, std::string growth ... *)
Theorem C03_no_forbidden_reachable :
  forall e f, In e entries -> In f forbidden -> ~ path calls e f.
Proof. exact no_forbidden_reachable. Qed.

(* the verified search terminates within its fuel on this graph and computes
   exactly the set of functions some RT entry point can reach *)
Theorem C03_reachable_set_exact :
  exists s, reach direct indirect_table excluded entries = Some s /\
    forall x, memb x s = true <-> exists e, In e entries /\ path calls e x.
Proof. exact reachable_set_exact. Qed.

(* closed world: whatever an RT entry point can reach is either a function
   whose body is in the graph or one of the listed libc leaf functions
   (memcpy strlen strcmp ... strtol strtod) *)
Theorem C03_reachable_closed_world :
  forall e x, In e entries -> path calls e x ->
    defined direct x \/ In x allowed_external.
Proof. exact reachable_closed_world. Qed.

(* every indirect call site that can be reached is resolved by the table *)
Theorem C03_indirect_calls_resolved :
  In unresolved_indirect forbidden /\
  forall e, In e entries -> ~ path calls e unresolved_indirect.
Proof. exact (conj unresolved_is_forbidden indirect_calls_resolved). Qed.

(* the only edges left out are edges into the abort-only functions *)
Theorem C03_excluded_edges_abort_only :
  forall a b, In (a, b) excluded -> In b abort_only.
Proof. exact excluded_abort_only. Qed.

(* the entry points are functions whose bodies are in the graph (no theorem
   above is vacuous because an entry is a leaf without edges), and each of the
   seven groups build / read / match / dispatch / sugar / reply / link is
   non-empty and part of [entries] *)
Theorem C03_entries_defined : forall e, In e entries -> defined direct e.
Proof. exact entries_defined. Qed.

Theorem C03_entry_groups :
  map fst entry_groups = [1; 2; 3; 4; 5; 6; 7] /\
  forall g l, In (g, l) entry_groups -> l <> [] /\ forall e, In e l -> In e entries.
Proof. exact groups_are_entries. Qed.

(* non-vacuity: Ports::dispatch is an entry point and does reach the message
   builder, by a path whose first edge exists only through the table *)
Theorem C03_nonvacuous :
  In dispatch_entry entries /\ path calls dispatch_entry witness_target /\
  ~ edge direct dispatch_entry witness_second /\ witness_target <> dispatch_entry.
Proof. exact dispatch_reaches_builder. Qed.
