(* C16 - model of the argument-value arrays of rtosc
     src/cpp/arg-val-itr.c   rtosc_arg_val_itr_init / _get / _next
     src/cpp/arg-val-math.c  rtosc_arg_val_from_int / _mult / _add / _range_arg
     src/cpp/arg-val-cmp.c   rtosc_arg_vals_eq_single / _cmp_single / _eq / _cmp,
                             _cmp_has_next, _eq_after_abort   (opt = NULL: tolerance 0)
     src/cpp/arg-val.c       rtosc_avmessage (ending in rtosc_amessage = Osc/OscModel.amessage)
     src/cpp/arg-ext.c       the packed 'a' and '-' headers

   A value list is the flat C layout: a [list slot].  A pointer into it is
   the *suffix* starting at the pointee (all pointer motion is forward);
   dereferencing the empty suffix is an out-of-bounds read and makes every
   model function return None, so does reading a union member that the type
   tag does not select (garbage) and so does running out of fuel.
   Type tags are the ASCII codes.  Bytes are Z.  Numeric payloads: 'i' 'c'
   'r' the signed 32-bit value, 'h' the signed 64-bit value, 't' the unsigned
   64-bit value, 'f'/'d' the IEEE bit pattern.  The only float *arithmetic*
   in this code (ranges with a float delta) goes through the record [fops];
   nothing is assumed about it (the theorems hold for every [fops]); the
   extracted model instantiates it with Flocq's binary32/binary64
   (ArgVal/AvFloat.v).  Float *comparison* is done on the bit patterns.
   No proofs in this file. *)
From Coq Require Import List ZArith Bool.
From RtoscV Require Osc.OscModel.
Import ListNotations.
Local Open Scope Z_scope.

(* ---- data ----------------------------------------------------------------- *)
Inductive sval :=
| VNone                              (* T F N I : no payload is ever read *)
| VI (i : Z)                         (* val.i : i c r *)
| VH (h : Z)                         (* val.h *)
| VT (t : Z)                         (* val.t *)
| VF (bits : Z)                      (* val.f as bits *)
| VD (bits : Z)                      (* val.d as bits *)
| VM (m : list Z)                    (* val.m[4] *)
| VS (s : option (list Z))           (* val.s : NULL or the bytes before the NUL *)
| VB (len : Z) (data : list Z).      (* val.b.len, the memory val.b.data points to *)

Inductive slot :=
| SV (ty : Z) (v : sval)             (* one rtosc_arg_val_t holding a value *)
| SArr (ety : Z) (len : Z)           (* type 'a', packed element type and length (in slots) *)
| SRep (num : Z) (has_delta : Z).    (* type '-', packed repeat count (0 = endless) and has_delta *)

Definition slot_type (s : slot) : Z :=
  match s with SV t _ => t | SArr _ _ => 97 | SRep _ _ => 45 end.

(* float arithmetic used by ranges with a float delta (bit patterns in and out) *)
Record fops := {
  f32_of_int : Z -> Z;  f32_mul : Z -> Z -> Z;  f32_add : Z -> Z -> Z;
  f64_of_int : Z -> Z;  f64_mul : Z -> Z -> Z;  f64_add : Z -> Z -> Z }.

Definition wrap32 (x : Z) : Z := (x + 2^31) mod 2^32 - 2^31.
Definition wrap64 (x : Z) : Z := (x + 2^63) mod 2^64 - 2^63.

Definition is_bool_ty (t : Z) : bool := (t =? 84) || (t =? 70).

(* ---- arg-val-math.c (the three functions range_arg calls) ---------------- *)
Definition tv := (Z * sval)%type.

(* rtosc_arg_val_from_int(av, type, number) *)
Definition av_from_int (F : fops) (ty : Z) (n : Z) : option tv :=
  if ty =? 104 then Some (ty, VH n)
  else if ty =? 100 then Some (ty, VD (f64_of_int F n))
  else if ty =? 102 then Some (ty, VF (f32_of_int F n))
  else if (ty =? 99) || (ty =? 105) then Some (ty, VI n)
  else if is_bool_ty ty then Some ((if n =? 0 then 70 else 84), VNone)
  else None.

(* rtosc_arg_val_mult *)
Definition av_mult (F : fops) (l r : tv) : option tv :=
  let '(lt, lv) := l in let '(rt, rv) := r in
  if negb (lt =? rt) then
    if ((lt =? 70) && (rt =? 84)) || ((lt =? 84) && (rt =? 70))
    then Some (70, VNone) else None
  else if lt =? 100 then
    match lv, rv with VD a, VD b => Some (lt, VD (f64_mul F a b)) | _, _ => None end
  else if lt =? 102 then
    match lv, rv with VF a, VF b => Some (lt, VF (f32_mul F a b)) | _, _ => None end
  else if lt =? 104 then
    match lv, rv with VH a, VH b => Some (lt, VH (wrap64 (a * b))) | _, _ => None end
  else if (lt =? 99) || (lt =? 105) then
    match lv, rv with VI a, VI b => Some (lt, VI (wrap32 (a * b))) | _, _ => None end
  else if lt =? 84 then Some (84, VNone)
  else if lt =? 70 then Some (70, VNone)
  else None.

(* rtosc_arg_val_add *)
Definition av_add (F : fops) (l r : tv) : option tv :=
  let '(lt, lv) := l in let '(rt, rv) := r in
  if negb (lt =? rt) then
    if ((lt =? 70) && (rt =? 84)) || ((lt =? 84) && (rt =? 70))
    then Some (84, VNone) else None
  else if lt =? 100 then
    match lv, rv with VD a, VD b => Some (lt, VD (f64_add F a b)) | _, _ => None end
  else if lt =? 102 then
    match lv, rv with VF a, VF b => Some (lt, VF (f32_add F a b)) | _, _ => None end
  else if lt =? 104 then
    match lv, rv with VH a, VH b => Some (lt, VH (wrap64 (a + b))) | _, _ => None end
  else if (lt =? 99) || (lt =? 105) then
    match lv, rv with VI a, VI b => Some (lt, VI (wrap32 (a + b))) | _, _ => None end
  else if is_bool_ty lt then Some (70, VNone)
  else None.

(* rtosc_arg_val_range_arg(range_arg, ith, result): range_arg[1] = delta,
   range_arg[2] = start.  None = the C function returns NULL and leaves the
   caller's buffer uninitialised. *)
Definition range_arg (F : fops) (delta start : slot) (ith : Z) : option tv :=
  match delta, start with
  | SV dt dv, SV st sv =>
      match av_from_int F dt ith with
      | None => None
      | Some n =>
          match av_mult F n (dt, dv) with
          | None => None
          | Some m => av_add F (st, sv) m
          end
      end
  | _, _ => None
  end.

(* ---- arg-val-itr.c --------------------------------------------------------- *)
Record itr := mk_itr { av : list slot; idx : Z; range_i : Z }.

Definition itr_init (a : list slot) : itr := mk_itr a 0 0.

(* rtosc_arg_val_itr_get: the returned pointer, as the suffix it points to.
   [whole_elem = true] is the code after "fix: ... repeated array" (a
   delta-less range returns a pointer to its value inside the list);
   [false] is the code before (a copy of the one slot av[1] in the caller's
   buffer, so nothing is addressable behind it). *)
Definition itr_get_gen (whole_elem : bool) (F : fops) (it : itr) : option (list slot) :=
  match av it with
  | [] => None
  | s :: rest =>
      if slot_type s =? 45 then
        match s with
        | SRep n hd =>
            if hd =? 0 then
              if whole_elem then Some rest
              else match rest with v :: _ => Some [v] | [] => None end
            else
              match rest with
              | d :: st :: _ =>
                  match range_arg F d st (range_i it) with
                  | Some (t, v) => Some [SV t v]
                  | None => None
                  end
              | _ => None
              end
        | _ => None
        end
      else Some (av it)
  end.

Definition itr_get := itr_get_gen true.

(* rtosc_arg_val_itr_next, first half: "increase the range index" *)
Definition next_range (it : itr) : option itr :=
  match av it with
  | [] => None
  | s :: rest =>
      if slot_type s =? 45 then
        match s with
        | SRep n hd =>
            let ri := range_i it + 1 in
            if (ri >=? n) && negb (n =? 0) then
              if negb (hd =? 0) then Some (mk_itr (tl rest) (idx it + 2) 0)
              else Some (mk_itr rest (idx it + 1) 0)
            else Some (mk_itr (av it) (idx it) ri)
        | _ => None
        end
      else Some it
  end.

(* second half: "if not inside a range (or at its beginning), increase the index" *)
Definition next_plain (it1 : itr) : option itr :=
  if range_i it1 =? 0 then
    match av it1 with
    | [] => None
    | s1 :: rest1 =>
        if slot_type s1 =? 97 then
          match s1 with
          | SArr _ len =>
              if len <? 0 then None
              else Some (mk_itr (skipn (Z.to_nat len) rest1) (idx it1 + len + 1) 0)
          | _ => None
          end
        else Some (mk_itr rest1 (idx it1 + 1) 0)
    end
  else Some it1.

Definition itr_next (it : itr) : option itr :=
  match next_range it with
  | None => None
  | Some it1 => next_plain it1
  end.

(* ---- libc --------------------------------------------------------------- *)
(* strcmp on NUL-free strings, memcmp: only the sign is specified by C; the
   model returns -1/0/1 *)
Fixpoint lex_bytes (a b : list Z) : Z :=
  match a, b with
  | [], [] => 0
  | [], _ :: _ => -1
  | _ :: _, [] => 1
  | x :: a', y :: b' => if x <? y then -1 else if y <? x then 1 else lex_bytes a' b'
  end.

Definition memcmp (a b : list Z) (n : Z) : option Z :=
  if (n <? 0) || (Zlength a <? n) || (Zlength b <? n) then None
  else Some (lex_bytes (firstn (Z.to_nat n) a) (firstn (Z.to_nat n) b)).

(* ---- float comparison on bit patterns ----------------------------------- *)
Definition isnan32 (b : Z) : bool := (b mod 2^31) >? 2139095040.        (* 0x7f800000 *)
Definition isnan64 (b : Z) : bool := (b mod 2^63) >? 9218868437227405312. (* 0x7ff0000000000000 *)
(* monotone key of a non-NaN pattern: sign-magnitude to integer; +0 and -0 both 0 *)
Definition fkey32 (b : Z) : Z := if b <? 2^31 then b else - (b - 2^31).
Definition fkey64 (b : Z) : Z := if b <? 2^63 then b else - (b - 2^63).
(* C's == and > on floats *)
Definition feq32 (a b : Z) : bool := negb (isnan32 a) && negb (isnan32 b) && (fkey32 a =? fkey32 b).
Definition fgt32 (a b : Z) : bool := negb (isnan32 a) && negb (isnan32 b) && (fkey32 a >? fkey32 b).
Definition feq64 (a b : Z) : bool := negb (isnan64 a) && negb (isnan64 b) && (fkey64 a =? fkey64 b).
Definition fgt64 (a b : Z) : bool := negb (isnan64 a) && negb (isnan64 b) && (fkey64 a >? fkey64 b).

Definition cmp3 (a b : Z) : Z := if a =? b then 0 else if a >? b then 1 else -1.

(* ---- arg-val-cmp.c ---------------------------------------------------------- *)
(* rtosc_arg_vals_cmp_has_next *)
Definition has_next (l r : itr) (ls rs : Z) : option bool :=
  if (idx l <? ls) && (idx r <? rs) then
    match av l with
    | [] => None
    | sl :: _ =>
        if negb (slot_type sl =? 45) then Some true
        else match av r with
             | [] => None
             | sr :: _ =>
                 if negb (slot_type sr =? 45) then Some true
                 else match sl, sr with
                      | SRep nl _, SRep nr _ => Some (negb (nl =? 0) || negb (nr =? 0))
                      | _, _ => None
                      end
             end
    end
  else Some false.

(* one conjunct of rtosc_arg_vals_eq_after_abort *)
Definition abort_side (it : itr) (sz : Z) : option bool :=
  if idx it =? sz then Some true
  else match av it with
       | [] => None
       | s :: _ =>
           if slot_type s =? 45 then
             match s with SRep n _ => Some (n =? 0) | _ => None end
           else Some false
       end.

Definition eq_after_abort (l r : itr) (ls rs : Z) : option bool :=
  match abort_side l ls with
  | None => None
  | Some false => Some false
  | Some true => abort_side r rs
  end.

(* the array case of eq_single: "types differ and are not the pair T/F" *)
Definition arr_types_differ (lt rt : Z) : bool :=
  negb (lt =? rt) && negb ((lt =? 84) && (rt =? 70)) && negb ((lt =? 70) && (rt =? 84)).

(* rtosc_arg_vals_eq_single; [rec] is the recursive call rtosc_arg_vals_eq
   for arrays *)
Definition eq_single (rec : list slot -> list slot -> Z -> Z -> option bool)
           (lp rp : list slot) : option bool :=
  match lp, rp with
  | l :: lrest, r :: rrest =>
      let t := slot_type l in
      if t =? slot_type r then
        if (t =? 105) || (t =? 99) || (t =? 114) then
          match l, r with SV _ (VI a), SV _ (VI b) => Some (a =? b) | _, _ => None end
        else if (t =? 73) || (t =? 84) || (t =? 70) || (t =? 78) then Some true
        else if t =? 102 then
          match l, r with SV _ (VF a), SV _ (VF b) => Some (feq32 a b) | _, _ => None end
        else if t =? 100 then
          match l, r with SV _ (VD a), SV _ (VD b) => Some (feq64 a b) | _, _ => None end
        else if t =? 104 then
          match l, r with SV _ (VH a), SV _ (VH b) => Some (a =? b) | _, _ => None end
        else if t =? 116 then
          match l, r with SV _ (VT a), SV _ (VT b) => Some (a =? b) | _, _ => None end
        else if t =? 109 then
          match l, r with
          | SV _ (VM a), SV _ (VM b) =>
              match memcmp a b 4 with Some c => Some (c =? 0) | None => None end
          | _, _ => None
          end
        else if (t =? 115) || (t =? 83) then
          match l, r with
          | SV _ (VS a), SV _ (VS b) =>
              match a, b with
              | None, None => Some true
              | None, Some _ | Some _, None => Some false
              | Some x, Some y => Some (lex_bytes x y =? 0)
              end
          | _, _ => None
          end
        else if t =? 98 then
          match l, r with
          | SV _ (VB ll ld), SV _ (VB rl rd) =>
              if ll =? rl then
                match memcmp ld rd ll with Some c => Some (c =? 0) | None => None end
              else Some false
          | _, _ => None
          end
        else if t =? 97 then
          match l, r with
          | SArr lt ll, SArr rt rl =>
              if arr_types_differ lt rt then Some false
              else rec lrest rrest ll rl
          | _, _ => None
          end
        else None                        (* default: exit(1) *)
      else Some false
  | _, _ => None
  end.

(* rtosc_arg_vals_eq: the for loop with its condition at the top.  [G]:
   which rtosc_arg_val_itr_get (see itr_get_gen). *)
Fixpoint eq_loop (G : bool) (F : fops) (fuel : nat) (l r : itr) (ls rs : Z) (rval : bool)
  : option bool :=
  match fuel with
  | O => None
  | S f =>
      match has_next l r ls rs with
      | None => None
      | Some hn =>
          if hn && rval then
            match itr_get_gen G F l, itr_get_gen G F r with
            | Some lp, Some rp =>
                match eq_single (fun a b n m => eq_loop G F f (itr_init a) (itr_init b) n m true) lp rp with
                | None => None
                | Some rv =>
                    match itr_next l, itr_next r with
                    | Some l', Some r' => eq_loop G F f l' r' ls rs rv
                    | _, _ => None
                    end
                end
            | _, _ => None
            end
          else if rval then eq_after_abort l r ls rs else Some false
      end
  end.

Definition vals_eq_gen (G : bool) (F : fops) (fuel : nat) (a b : list slot) (ls rs : Z) : option bool :=
  eq_loop G F fuel (itr_init a) (itr_init b) ls rs true.

Definition vals_eq_fuel := vals_eq_gen true.

(* The two places of rtosc_arg_vals_cmp_single that "fix:" commits changed
   are parameters, so that the functions before the fixes stay available
   (AvRegress.v):
     arr_rule lt rt = Some c : arrays of element types lt, rt are ordered by
                               type, result c;  None : compare the elements
     blob_tail longer_left ldata rdata minlen : the result for blobs of
                               different length that agree on minlen bytes *)
Definition arr_rule_t := Z -> Z -> option Z.
Definition blob_tail_t := bool -> list Z -> list Z -> Z -> option Z.

(* boolean arrays form one class, ordered like 'F' *)
Definition arr_class (t : Z) : Z := if t =? 84 then 70 else t.

Definition arr_rule_fixed : arr_rule_t := fun lt rt =>
  if arr_types_differ lt rt
  then Some (if arr_class lt >? arr_class rt then 1 else -1)
  else None.

Definition blob_tail_fixed : blob_tail_t := fun longer_left _ _ _ =>
  Some (if longer_left then 1 else -1).

(* rtosc_arg_vals_cmp_single *)
Definition cmp_single (AR : arr_rule_t) (BT : blob_tail_t)
           (rec : list slot -> list slot -> Z -> Z -> option Z)
           (lp rp : list slot) : option Z :=
  match lp, rp with
  | l :: lrest, r :: rrest =>
      let t := slot_type l in
      if t =? slot_type r then
        if (t =? 105) || (t =? 99) || (t =? 114) then
          match l, r with SV _ (VI a), SV _ (VI b) => Some (cmp3 a b) | _, _ => None end
        else if (t =? 73) || (t =? 84) || (t =? 70) || (t =? 78) then Some 0
        else if t =? 102 then
          match l, r with
          | SV _ (VF a), SV _ (VF b) => Some (if feq32 a b then 0 else if fgt32 a b then 1 else -1)
          | _, _ => None
          end
        else if t =? 100 then
          match l, r with
          | SV _ (VD a), SV _ (VD b) => Some (if feq64 a b then 0 else if fgt64 a b then 1 else -1)
          | _, _ => None
          end
        else if t =? 104 then
          match l, r with SV _ (VH a), SV _ (VH b) => Some (cmp3 a b) | _, _ => None end
        else if t =? 116 then
          match l, r with
          | SV _ (VT a), SV _ (VT b) =>
              Some (if a =? 1 then (if b =? 1 then 0 else -1)
                    else if b =? 1 then 1 else cmp3 a b)
          | _, _ => None
          end
        else if t =? 109 then
          match l, r with SV _ (VM a), SV _ (VM b) => memcmp a b 4 | _, _ => None end
        else if (t =? 115) || (t =? 83) then
          match l, r with
          | SV _ (VS a), SV _ (VS b) =>
              match a, b with
              | None, None => Some 0
              | None, Some _ => Some (-1)
              | Some _, None => Some 1
              | Some x, Some y => Some (lex_bytes x y)
              end
          | _, _ => None
          end
        else if t =? 98 then
          match l, r with
          | SV _ (VB ll ld), SV _ (VB rl rd) =>
              let minlen := if ll <? rl then ll else rl in
              match memcmp ld rd minlen with
              | None => None
              | Some c =>
                  if negb (ll =? rl) && (c =? 0) then BT (ll >? rl) ld rd minlen
                  else Some c
              end
          | _, _ => None
          end
        else if t =? 97 then
          match l, r with
          | SArr lt ll, SArr rt rl =>
              match AR lt rt with
              | Some c => Some c
              | None => rec lrest rrest ll rl
              end
          | _, _ => None
          end
        else Some (-1)                   (* '-' and default: rval = -1 (assert is off) *)
      else Some (if t >? slot_type r then 1 else -1)
  | _, _ => None
  end.

(* rtosc_arg_vals_cmp: the loop and the expression after it *)
Fixpoint cmp_loop (G : bool) (AR : arr_rule_t) (BT : blob_tail_t) (F : fops) (fuel : nat)
         (l r : itr) (ls rs : Z) (rval : Z) : option Z :=
  match fuel with
  | O => None
  | S f =>
      match has_next l r ls rs with
      | None => None
      | Some hn =>
          if hn && (rval =? 0) then
            match itr_get_gen G F l, itr_get_gen G F r with
            | Some lp, Some rp =>
                match cmp_single AR BT
                        (fun a b n m => cmp_loop G AR BT F f (itr_init a) (itr_init b) n m 0) lp rp with
                | None => None
                | Some rv =>
                    match itr_next l, itr_next r with
                    | Some l', Some r' => cmp_loop G AR BT F f l' r' ls rs rv
                    | _, _ => None
                    end
                end
            | _, _ => None
            end
          else if rval =? 0 then
            match eq_after_abort l r ls rs with
            | None => None
            | Some true => Some 0
            | Some false => Some (if (ls - idx l) >? (rs - idx r) then 1 else -1)
            end
          else Some rval
      end
  end.

Definition vals_cmp_gen G AR BT (F : fops) (fuel : nat) (a b : list slot) (ls rs : Z) : option Z :=
  cmp_loop G AR BT F fuel (itr_init a) (itr_init b) ls rs 0.

Definition vals_cmp_fuel := vals_cmp_gen true arr_rule_fixed blob_tail_fixed.

(* fuel: every loop iteration consumes one value of the left list; an array
   costs one more level.  [weight] bounds both from the slots alone. *)
Definition slot_weight (s : slot) : nat :=
  match s with SRep n _ => S (Z.to_nat n) | SArr _ _ => 2%nat | SV _ _ => 1%nat end.
Definition weight (a : list slot) : nat := fold_right (fun s acc => (slot_weight s + acc)%nat) O a.
Definition fuel_of (a : list slot) : nat := S (weight a).

(* the entry points, sizes in slots as in C *)
Definition vals_eq (F : fops) (a b : list slot) (ls rs : Z) : option bool :=
  vals_eq_fuel F (fuel_of a) a b ls rs.
Definition vals_cmp (F : fops) (a b : list slot) (ls rs : Z) : option Z :=
  vals_cmp_fuel F (fuel_of a) a b ls rs.

(* ---- what iteration yields ------------------------------------------------- *)
(* The values a consumer sees when it walks a list with the iterator
   (init; while(itr.i < size) { get; next }), entering arrays the way
   eq_single/cmp_single do (a fresh iterator on the slots behind the 'a'
   header, size = its length). *)
Inductive value :=
| Val (ty : Z) (v : sval)
| Arr (ety : Z) (es : list value).

Fixpoint iterate_from (G : bool) (F : fops) (fuel : nat) (it : itr) (size : Z) : option (list value) :=
  match fuel with
  | O => None
  | S f =>
      if idx it <? size then
        match itr_get_gen G F it with
        | Some (s :: prest) =>
            let item :=
              match s with
              | SV t v => if (t =? 97) || (t =? 45) then None else Some (Val t v)
              | SArr t len =>
                  match iterate_from G F f (itr_init prest) len with
                  | Some es => Some (Arr t es)
                  | None => None
                  end
              | SRep _ _ => None
              end in
            match item, itr_next it with
            | Some v, Some it' =>
                match iterate_from G F f it' size with
                | Some vs => Some (v :: vs)
                | None => None
                end
            | _, _ => None
            end
        | _ => None
        end
      else Some []
  end.

Definition iterate (F : fops) (a : list slot) (size : Z) : option (list value) :=
  iterate_from true F (fuel_of a) (itr_init a) size.

(* ---- rtosc_avmessage -------------------------------------------------------- *)
(* first pass: for(val_max = 0; itr2.i < nargs; ++val_max) next(&itr2) *)
Fixpoint count_vals (fuel : nat) (it : itr) (nargs : Z) : option nat :=
  match fuel with
  | O => None
  | S f =>
      if idx it <? nargs then
        match itr_next it with
        | Some it' => match count_vals f it' nargs with Some n => Some (S n) | None => None end
        | None => None
        end
      else Some O
  end.

(* second pass: val_max times get, copy type and union, next *)
Fixpoint collect (F : fops) (n : nat) (it : itr) : option (list slot) :=
  match n with
  | O => Some []
  | S n' =>
      match itr_get F it with
      | Some (s :: _) =>
          match itr_next it with
          | Some it' => match collect F n' it' with Some l => Some (s :: l) | None => None end
          | None => None
          end
      | _ => None
      end
  end.

(* the values rtosc_avmessage stores an rtosc_arg_t for:
   strchr("isbfhtdSrmc", cur->type) *)
Definition has_reserved (t : Z) : bool :=
  (t =? 105) || (t =? 115) || (t =? 98) || (t =? 102) || (t =? 104) || (t =? 116) ||
  (t =? 100) || (t =? 83) || (t =? 114) || (t =? 109) || (t =? 99).

Definition slot_val (s : slot) : sval := match s with SV _ v => v | _ => VNone end.

(* the rtosc_arg_t union holding v, as rtosc_amessage reads it under the tag t
   (the payload type of the byte codec, Osc/OscModel.v).  None: it
   dereferences a NULL string, or the tag selects a member the value does not
   have. *)
Definition arg_payload (t : Z) (v : sval) : option OscModel.payload :=
  if t =? 109 then
    match v with
    | VM [a; b; c; d] => Some (OscModel.P4 (OscModel.unbe32 a b c d))
    | _ => None
    end
  else
    match OscModel.kind_of t, v with
    | OscModel.K4, VI x | OscModel.K4, VF x => Some (OscModel.P4 x)
    | OscModel.K8, VH x | OscModel.K8, VT x | OscModel.K8, VD x => Some (OscModel.P8 x)
    | OscModel.KS, VS (Some s) => Some (OscModel.PStr s)
    | OscModel.KB, VB len d => Some (OscModel.PBlob len (Some d))
    | _, _ => None
    end.

(* rtosc_amessage takes the next entry of vals at every tag with payload *)
Fixpoint arg_payloads (types : list Z) (vals : list sval) : option (list OscModel.payload) :=
  match types with
  | [] => Some []
  | t :: ts =>
      if has_reserved t then
        match vals with
        | [] => None
        | v :: vs =>
            match arg_payload t v, arg_payloads ts vs with
            | Some p, Some ps => Some (p :: ps)
            | _, _ => None
            end
        end
      else arg_payloads ts vals
  end.

(* rtosc_avmessage(buffer, len, address, nargs, args): buf = None is the NULL
   probe, Some b a destination of capacity |b|; result (return value, buffer
   afterwards) as for OscModel.amessage, which it ends in.
   [payload_only = true]: the code after "fix: rtosc_avmessage ..." (vals gets
   an entry only for values with payload); false: before (one entry per value,
   so every payload behind a T/F/N/I or an array is taken from the wrong
   entry; the union of a payload-less value is modelled as VNone, which no
   payload tag can read: the model then reports None where the C code sends
   whatever bytes that union holds). *)
Definition avmessage_gen (payload_only : bool) (F : fops) (buf : option (list Z)) (addr : list Z)
           (a : list slot) (nargs : Z) : option (Z * option (list Z)) :=
  match count_vals (fuel_of a) (itr_init a) nargs with
  | None => None
  | Some n =>
      match collect F n (itr_init a) with
      | None => None
      | Some heads =>
          let types := map slot_type heads in
          let vals := if payload_only
                      then map slot_val (filter (fun s => has_reserved (slot_type s)) heads)
                      else map slot_val heads in
          match arg_payloads types vals with
          | None => None
          | Some ps =>
              match OscModel.amessage buf addr types ps with
              | OscModel.Ok r => Some r
              | _ => None
              end
          end
      end
  end.

Definition avmessage := avmessage_gen true.
