(* C16 - the order key on float bit patterns (AvModel.fkey32/fkey64, isnan32/64,
   feq/fgt) IS the IEEE-754 comparison: proved against Flocq 4.1
   (IEEE754.Bits.b32_of_bits / b64_of_bits, Binary.Bcompare,
   BinarySingleNaN.Beqb / Bltb).  Also: the float arithmetic of the extracted
   model (AvFloat.flocq_ops) in range_arg.  Kept apart from the stdlib-only
   files so that their theorems stay closed under the global context. *)
From Coq Require Import ZArith Lia Bool List Reals Floats.SpecFloat.
From Flocq Require Import Core IEEE754.BinarySingleNaN IEEE754.Binary IEEE754.Bits.
From RtoscV Require Import ArgVal.AvModel ArgVal.AvSpec ArgVal.AvFloat ArgVal.AvCmpProofs.
Import ListNotations.
Local Open Scope Z_scope.
Ltac Zify.zify_post_hook ::= Z.div_mod_to_equations.

Definition ff2sf (ff : full_float) : spec_float :=
  match ff with
  | F754_zero s => S754_zero s | F754_infinity s => S754_infinity s
  | F754_nan _ _ => S754_nan | F754_finite s m e => S754_finite s m e
  end.

Lemma FF2B_sf : forall prec emax ff H,
  BinarySingleNaN.B2SF (B2BSN prec emax (FF2B prec emax ff H)) = ff2sf ff.
Proof. intros prec emax [s|s|s pl|s m e] H; reflexivity. Qed.

Ltac cmp_solve :=
  repeat match goal with
  | |- context [(?a ?= ?b)%Z] => let H := fresh in destruct (Z.compare_spec a b) as [H|H|H]
  end; cbn [CompOpp]; try reflexivity; try lia.

(* sign and magnitude to the key *)
Definition smkey (s : bool) (y : Z) : Z := if s then - y else y.

Lemma SFcompare_nan_r : forall x, SFcompare x S754_nan = None.
Proof. destruct x; reflexivity. Qed.

(* ======================= binary32 ============================================ *)
(* the float a magnitude (the low 31 bits) and a sign bit stand for *)
Definition dec32 (s : bool) (y : Z) : spec_float :=
  if y =? 0 then S754_zero s
  else if y <? 8388608 then S754_finite s (Z.to_pos y) (-149)
  else if y <? 2139095040 then S754_finite s (Z.to_pos (y mod 8388608 + 8388608)) (y / 8388608 - 150)
  else if y =? 2139095040 then S754_infinity s else S754_nan.

Lemma aux32_dec : forall x, 0 <= x < 4294967296 ->
  ff2sf (binary_float_of_bits_aux 23 8 x) = dec32 (2147483648 <=? x) (x mod 2147483648).
Proof.
  intros x Hx. unfold binary_float_of_bits_aux, split_bits.
  change (Zpower 2 23) with 8388608. change (Zpower 2 8) with 256.
  change (8388608 * 256) with 2147483648.
  change (Zle_bool 2147483648 x) with (2147483648 <=? x).
  set (mx := x mod 8388608). set (ex := (x / 8388608) mod 256).
  assert (Hy : x mod 2147483648 = ex * 8388608 + mx) by (unfold ex, mx; lia).
  assert (Hmx : 0 <= mx < 8388608) by (unfold mx; lia).
  assert (Hex : 0 <= ex < 256) by (unfold ex; lia).
  rewrite Hy. unfold dec32.
  destruct (Zeq_bool ex 0) eqn:E0.
  - apply Zeq_bool_eq in E0. rewrite E0. cbn [Z.mul Z.add].
    destruct mx as [|p|p] eqn:Em; cbn; try lia.
    + reflexivity.
    + replace (Z.pos p <? 8388608) with true by (symmetry; apply Z.ltb_lt; lia). reflexivity.
  - apply Zeq_bool_neq in E0.
    replace (ex * 8388608 + mx =? 0) with false by (symmetry; apply Z.eqb_neq; lia).
    replace (ex * 8388608 + mx <? 8388608) with false by (symmetry; apply Z.ltb_ge; lia).
    destruct (Zeq_bool ex (256 - 1)) eqn:E1.
    + apply Zeq_bool_eq in E1.
      replace (ex * 8388608 + mx <? 2139095040) with false by (symmetry; apply Z.ltb_ge; lia).
      destruct mx as [|p|p] eqn:Em; try lia.
      * replace (ex * 8388608 + 0 =? 2139095040) with true by (symmetry; apply Z.eqb_eq; lia). reflexivity.
      * replace (ex * 8388608 + Z.pos p =? 2139095040) with false by (symmetry; apply Z.eqb_neq; lia). reflexivity.
    + apply Zeq_bool_neq in E1.
      replace (ex * 8388608 + mx <? 2139095040) with true by (symmetry; apply Z.ltb_lt; lia).
      replace ((ex * 8388608 + mx) mod 8388608) with mx by lia.
      replace ((ex * 8388608 + mx) / 8388608) with ex by lia.
      destruct (mx + 8388608) as [|p|p] eqn:Em; try lia.
      cbn [ff2sf Z.to_pos]. change (emin (23 + 1) (2 ^ (8 - 1))) with (-149). f_equal. lia.
Qed.

Lemma dec32_cmp : forall s1 s2 y1 y2, 0 <= y1 <= 2139095040 -> 0 <= y2 <= 2139095040 ->
  SFcompare (dec32 s1 y1) (dec32 s2 y2) = Some (smkey s1 y1 ?= smkey s2 y2).
Proof.
  intros s1 s2 y1 y2 H1 H2. unfold dec32, smkey.
  destruct (Z.eqb_spec y1 0); [|destruct (Z.ltb_spec y1 8388608); [|destruct (Z.ltb_spec y1 2139095040);
    [|destruct (Z.eqb_spec y1 2139095040); [|lia]]]];
  (destruct (Z.eqb_spec y2 0); [|destruct (Z.ltb_spec y2 8388608); [|destruct (Z.ltb_spec y2 2139095040);
    [|destruct (Z.eqb_spec y2 2139095040); [|lia]]]]);
  destruct s1; destruct s2; cbn [SFcompare]; f_equal;
  change (Pos.compare_cont Eq) with Pos.compare;
  rewrite <- ?Z2Pos.inj_compare by lia;
  cmp_solve.
Qed.

Lemma dec32_nan : forall s y, 2139095040 < y -> dec32 s y = S754_nan.
Proof.
  intros s y H. unfold dec32.
  replace (y =? 0) with false by (symmetry; apply Z.eqb_neq; lia).
  replace (y <? 8388608) with false by (symmetry; apply Z.ltb_ge; lia).
  replace (y <? 2139095040) with false by (symmetry; apply Z.ltb_ge; lia).
  replace (y =? 2139095040) with false by (symmetry; apply Z.eqb_neq; lia). reflexivity.
Qed.

Lemma b32_sf : forall x, 0 <= x < 4294967296 ->
  BinarySingleNaN.B2SF (B2BSN 24 128 (b32_of_bits x)) = dec32 (2147483648 <=? x) (x mod 2147483648).
Proof.
  intros x Hx. unfold b32_of_bits, binary_float_of_bits. rewrite FF2B_sf. now apply aux32_dec.
Qed.

Lemma fkey32_smkey : forall x, 0 <= x < 4294967296 ->
  fkey32 x = smkey (2147483648 <=? x) (x mod 2147483648).
Proof.
  intros x Hx. unfold fkey32, smkey. change (2 ^ 31) with 2147483648.
  destruct (Z.ltb_spec x 2147483648); destruct (Z.leb_spec 2147483648 x); lia.
Qed.

Lemma isnan32_mag : forall x, isnan32 x = (2139095040 <? x mod 2147483648).
Proof. intros. unfold isnan32. change (2 ^ 31) with 2147483648. now rewrite Z.gtb_ltb. Qed.

(* C's comparison of two floats that are not NaN is the comparison of their keys
   (+0 and -0 have the same key 0 and compare Eq) *)
Theorem fkey32_Bcompare : forall a b, 0 <= a < 2 ^ 32 -> 0 <= b < 2 ^ 32 ->
  isnan32 a = false -> isnan32 b = false ->
  Bcompare 24 128 (b32_of_bits a) (b32_of_bits b) = Some (fkey32 a ?= fkey32 b).
Proof.
  intros a b Ha Hb Na Nb. change (2 ^ 32) with 4294967296 in *.
  rewrite isnan32_mag in Na, Nb. apply Z.ltb_ge in Na. apply Z.ltb_ge in Nb.
  unfold Bcompare, BinarySingleNaN.Bcompare. rewrite !b32_sf by assumption.
  rewrite dec32_cmp by lia. now rewrite <- !fkey32_smkey.
Qed.

(* a NaN is unordered with everything *)
Theorem isnan32_Bcompare : forall a b, 0 <= a < 2 ^ 32 -> 0 <= b < 2 ^ 32 ->
  isnan32 a = true \/ isnan32 b = true ->
  Bcompare 24 128 (b32_of_bits a) (b32_of_bits b) = None.
Proof.
  intros a b Ha Hb N. change (2 ^ 32) with 4294967296 in *.
  unfold Bcompare, BinarySingleNaN.Bcompare. rewrite !b32_sf by assumption.
  rewrite !isnan32_mag in N. destruct N as [N|N]; apply Z.ltb_lt in N.
  - now rewrite (dec32_nan _ _ N).
  - rewrite (dec32_nan _ _ N). apply SFcompare_nan_r.
Qed.

(* the model's == and > on bit patterns are IEEE equality and "less than" swapped,
   for every pair of bit patterns (NaN included) *)
Theorem feq32_Beqb : forall a b, 0 <= a < 2 ^ 32 -> 0 <= b < 2 ^ 32 ->
  feq32 a b = Beqb (B2BSN 24 128 (b32_of_bits a)) (B2BSN 24 128 (b32_of_bits b)) /\
  fgt32 a b = Bltb (B2BSN 24 128 (b32_of_bits b)) (B2BSN 24 128 (b32_of_bits a)).
Proof.
  intros a b Ha Hb. unfold Beqb, Bltb, SFeqb, SFltb.
  pose proof (fkey32_Bcompare a b Ha Hb) as Hab. pose proof (fkey32_Bcompare b a Hb Ha) as Hba.
  pose proof (isnan32_Bcompare a b Ha Hb) as Nab. pose proof (isnan32_Bcompare b a Hb Ha) as Nba.
  unfold Bcompare, BinarySingleNaN.Bcompare in Hab, Hba, Nab, Nba.
  unfold feq32, fgt32.
  destruct (isnan32 a) eqn:Ea; [rewrite Nab, Nba by auto; split; reflexivity|].
  destruct (isnan32 b) eqn:Eb; [rewrite Nab, Nba by auto; split; reflexivity|].
  rewrite Hab, Hba by reflexivity. cbn [negb andb]. rewrite Z.gtb_ltb. split.
  - destruct (Z.compare_spec (fkey32 a) (fkey32 b)); [apply Z.eqb_eq | apply Z.eqb_neq | apply Z.eqb_neq]; lia.
  - destruct (Z.compare_spec (fkey32 b) (fkey32 a)); [apply Z.ltb_ge | apply Z.ltb_lt | apply Z.ltb_ge]; lia.
Qed.

(* ======================= binary64 ============================================ *)
(* the float a magnitude (the low 63 bits) and a sign bit stand for *)
Definition dec64 (s : bool) (y : Z) : spec_float :=
  if y =? 0 then S754_zero s
  else if y <? 4503599627370496 then S754_finite s (Z.to_pos y) (-1074)
  else if y <? 9218868437227405312 then S754_finite s (Z.to_pos (y mod 4503599627370496 + 4503599627370496)) (y / 4503599627370496 - 1075)
  else if y =? 9218868437227405312 then S754_infinity s else S754_nan.

Lemma aux64_dec : forall x, 0 <= x < 18446744073709551616 ->
  ff2sf (binary_float_of_bits_aux 52 11 x) = dec64 (9223372036854775808 <=? x) (x mod 9223372036854775808).
Proof.
  intros x Hx. unfold binary_float_of_bits_aux, split_bits.
  change (Zpower 2 52) with 4503599627370496. change (Zpower 2 11) with 2048.
  change (4503599627370496 * 2048) with 9223372036854775808.
  change (Zle_bool 9223372036854775808 x) with (9223372036854775808 <=? x).
  set (mx := x mod 4503599627370496). set (ex := (x / 4503599627370496) mod 2048).
  assert (Hy : x mod 9223372036854775808 = ex * 4503599627370496 + mx) by (unfold ex, mx; lia).
  assert (Hmx : 0 <= mx < 4503599627370496) by (unfold mx; lia).
  assert (Hex : 0 <= ex < 2048) by (unfold ex; lia).
  rewrite Hy. unfold dec64.
  destruct (Zeq_bool ex 0) eqn:E0.
  - apply Zeq_bool_eq in E0. rewrite E0. cbn [Z.mul Z.add].
    destruct mx as [|p|p] eqn:Em; cbn; try lia.
    + reflexivity.
    + replace (Z.pos p <? 4503599627370496) with true by (symmetry; apply Z.ltb_lt; lia). reflexivity.
  - apply Zeq_bool_neq in E0.
    replace (ex * 4503599627370496 + mx =? 0) with false by (symmetry; apply Z.eqb_neq; lia).
    replace (ex * 4503599627370496 + mx <? 4503599627370496) with false by (symmetry; apply Z.ltb_ge; lia).
    destruct (Zeq_bool ex (2048 - 1)) eqn:E1.
    + apply Zeq_bool_eq in E1.
      replace (ex * 4503599627370496 + mx <? 9218868437227405312) with false by (symmetry; apply Z.ltb_ge; lia).
      destruct mx as [|p|p] eqn:Em; try lia.
      * replace (ex * 4503599627370496 + 0 =? 9218868437227405312) with true by (symmetry; apply Z.eqb_eq; lia). reflexivity.
      * replace (ex * 4503599627370496 + Z.pos p =? 9218868437227405312) with false by (symmetry; apply Z.eqb_neq; lia). reflexivity.
    + apply Zeq_bool_neq in E1.
      replace (ex * 4503599627370496 + mx <? 9218868437227405312) with true by (symmetry; apply Z.ltb_lt; lia).
      replace ((ex * 4503599627370496 + mx) mod 4503599627370496) with mx by lia.
      replace ((ex * 4503599627370496 + mx) / 4503599627370496) with ex by lia.
      destruct (mx + 4503599627370496) as [|p|p] eqn:Em; try lia.
      cbn [ff2sf Z.to_pos]. change (emin (52 + 1) (2 ^ (11 - 1))) with (-1074). f_equal. lia.
Qed.

Lemma dec64_cmp : forall s1 s2 y1 y2, 0 <= y1 <= 9218868437227405312 -> 0 <= y2 <= 9218868437227405312 ->
  SFcompare (dec64 s1 y1) (dec64 s2 y2) = Some (smkey s1 y1 ?= smkey s2 y2).
Proof.
  intros s1 s2 y1 y2 H1 H2. unfold dec64, smkey.
  destruct (Z.eqb_spec y1 0); [|destruct (Z.ltb_spec y1 4503599627370496); [|destruct (Z.ltb_spec y1 9218868437227405312);
    [|destruct (Z.eqb_spec y1 9218868437227405312); [|lia]]]];
  (destruct (Z.eqb_spec y2 0); [|destruct (Z.ltb_spec y2 4503599627370496); [|destruct (Z.ltb_spec y2 9218868437227405312);
    [|destruct (Z.eqb_spec y2 9218868437227405312); [|lia]]]]);
  destruct s1; destruct s2; cbn [SFcompare]; f_equal;
  change (Pos.compare_cont Eq) with Pos.compare;
  rewrite <- ?Z2Pos.inj_compare by lia;
  cmp_solve.
Qed.

Lemma dec64_nan : forall s y, 9218868437227405312 < y -> dec64 s y = S754_nan.
Proof.
  intros s y H. unfold dec64.
  replace (y =? 0) with false by (symmetry; apply Z.eqb_neq; lia).
  replace (y <? 4503599627370496) with false by (symmetry; apply Z.ltb_ge; lia).
  replace (y <? 9218868437227405312) with false by (symmetry; apply Z.ltb_ge; lia).
  replace (y =? 9218868437227405312) with false by (symmetry; apply Z.eqb_neq; lia). reflexivity.
Qed.

Lemma b64_sf : forall x, 0 <= x < 18446744073709551616 ->
  BinarySingleNaN.B2SF (B2BSN 53 1024 (b64_of_bits x)) = dec64 (9223372036854775808 <=? x) (x mod 9223372036854775808).
Proof.
  intros x Hx. unfold b64_of_bits, binary_float_of_bits. rewrite FF2B_sf. now apply aux64_dec.
Qed.

Lemma fkey64_smkey : forall x, 0 <= x < 18446744073709551616 ->
  fkey64 x = smkey (9223372036854775808 <=? x) (x mod 9223372036854775808).
Proof.
  intros x Hx. unfold fkey64, smkey. change (2 ^ 63) with 9223372036854775808.
  destruct (Z.ltb_spec x 9223372036854775808); destruct (Z.leb_spec 9223372036854775808 x); lia.
Qed.

Lemma isnan64_mag : forall x, isnan64 x = (9218868437227405312 <? x mod 9223372036854775808).
Proof. intros. unfold isnan64. change (2 ^ 63) with 9223372036854775808. now rewrite Z.gtb_ltb. Qed.

(* C's comparison of two floats that are not NaN is the comparison of their keys
   (+0 and -0 have the same key 0 and compare Eq) *)
Theorem fkey64_Bcompare : forall a b, 0 <= a < 2 ^ 64 -> 0 <= b < 2 ^ 64 ->
  isnan64 a = false -> isnan64 b = false ->
  Bcompare 53 1024 (b64_of_bits a) (b64_of_bits b) = Some (fkey64 a ?= fkey64 b).
Proof.
  intros a b Ha Hb Na Nb. change (2 ^ 64) with 18446744073709551616 in *.
  rewrite isnan64_mag in Na, Nb. apply Z.ltb_ge in Na. apply Z.ltb_ge in Nb.
  unfold Bcompare, BinarySingleNaN.Bcompare. rewrite !b64_sf by assumption.
  rewrite dec64_cmp by lia. now rewrite <- !fkey64_smkey.
Qed.

(* a NaN is unordered with everything *)
Theorem isnan64_Bcompare : forall a b, 0 <= a < 2 ^ 64 -> 0 <= b < 2 ^ 64 ->
  isnan64 a = true \/ isnan64 b = true ->
  Bcompare 53 1024 (b64_of_bits a) (b64_of_bits b) = None.
Proof.
  intros a b Ha Hb N. change (2 ^ 64) with 18446744073709551616 in *.
  unfold Bcompare, BinarySingleNaN.Bcompare. rewrite !b64_sf by assumption.
  rewrite !isnan64_mag in N. destruct N as [N|N]; apply Z.ltb_lt in N.
  - now rewrite (dec64_nan _ _ N).
  - rewrite (dec64_nan _ _ N). apply SFcompare_nan_r.
Qed.

(* the model's == and > on bit patterns are IEEE equality and "less than" swapped,
   for every pair of bit patterns (NaN included) *)
Theorem feq64_Beqb : forall a b, 0 <= a < 2 ^ 64 -> 0 <= b < 2 ^ 64 ->
  feq64 a b = Beqb (B2BSN 53 1024 (b64_of_bits a)) (B2BSN 53 1024 (b64_of_bits b)) /\
  fgt64 a b = Bltb (B2BSN 53 1024 (b64_of_bits b)) (B2BSN 53 1024 (b64_of_bits a)).
Proof.
  intros a b Ha Hb. unfold Beqb, Bltb, SFeqb, SFltb.
  pose proof (fkey64_Bcompare a b Ha Hb) as Hab. pose proof (fkey64_Bcompare b a Hb Ha) as Hba.
  pose proof (isnan64_Bcompare a b Ha Hb) as Nab. pose proof (isnan64_Bcompare b a Hb Ha) as Nba.
  unfold Bcompare, BinarySingleNaN.Bcompare in Hab, Hba, Nab, Nba.
  unfold feq64, fgt64.
  destruct (isnan64 a) eqn:Ea; [rewrite Nab, Nba by auto; split; reflexivity|].
  destruct (isnan64 b) eqn:Eb; [rewrite Nab, Nba by auto; split; reflexivity|].
  rewrite Hab, Hba by reflexivity. cbn [negb andb]. rewrite Z.gtb_ltb. split.
  - destruct (Z.compare_spec (fkey64 a) (fkey64 b)); [apply Z.eqb_eq | apply Z.eqb_neq | apply Z.eqb_neq]; lia.
  - destruct (Z.compare_spec (fkey64 b) (fkey64 a)); [apply Z.ltb_ge | apply Z.ltb_lt | apply Z.ltb_ge]; lia.
Qed.

(* ======================= range arithmetic, binary32 ========================== *)
(* the float the C code gets from "av->val.f = number" *)
Definition i2f32 (i : Z) : binary32 := binary_normalize 24 128 eq_refl eq_refl mode_NE i 0 false.

Lemma b32_bits_id : forall x : binary32, b32_of_bits (bits_of_b32 x) = x.
Proof. intros. apply (binary_float_of_bits_of_binary_float 23 8). Qed.

(* range_arg of the model run with Flocq's arithmetic: start + i*delta in
   binary32, every step rounded to nearest even *)
Theorem range_arg_flocq32 : forall d s i,
  range_arg flocq_ops (SV 102 (VF d)) (SV 102 (VF s)) i =
  Some (102, VF (bits_of_b32 (b32_plus mode_NE (b32_of_bits s)
                                (b32_mult mode_NE (i2f32 i) (b32_of_bits d))))).
Proof.
  intros. cbn. unfold fl32_add, fl32_mul, fl32_of_int. rewrite !b32_bits_id. reflexivity.
Qed.

Theorem range_spec_flocq32 : forall d s i,
  range_spec flocq_ops 102 (VF d) 102 (VF s) i =
  Some (102, VF (bits_of_b32 (b32_plus mode_NE (b32_of_bits s)
                                (b32_mult mode_NE (i2f32 i) (b32_of_bits d))))).
Proof.
  intros. cbn. unfold fl32_add, fl32_mul, fl32_of_int. rewrite !b32_bits_id. reflexivity.
Qed.

(* its real-number meaning when nothing overflows: rnd (start + rnd (rnd i * delta)) *)
Theorem range_arg_flocq32_real : forall d s i,
  let rnd := round radix2 (SpecFloat.fexp 24 128) (round_mode mode_NE) in
  let fd := b32_of_bits d in
  let fs := b32_of_bits s in
  let ri := rnd (IZR i) in
  let p := rnd (ri * B2R 24 128 fd)%R in
  let r := rnd (B2R 24 128 fs + p)%R in
  is_finite 24 128 fd = true -> is_finite 24 128 fs = true ->
  (Rabs ri < bpow radix2 128)%R -> (Rabs p < bpow radix2 128)%R -> (Rabs r < bpow radix2 128)%R ->
  exists res, range_arg flocq_ops (SV 102 (VF d)) (SV 102 (VF s)) i = Some (102, VF (bits_of_b32 res)) /\
              B2R 24 128 res = r /\ is_finite 24 128 res = true.
Proof.
  intros d s i rnd fd fs ri p r Fd Fs Hi Hp Hr.
  eexists. split; [apply range_arg_flocq32|].
  fold fd fs.
  assert (HF : F2R (Float radix2 i 0) = IZR i) by (unfold F2R; cbn; ring).
  pose proof (@binary_normalize_correct 24 128 eq_refl eq_refl mode_NE i 0 false) as Hn.
  rewrite HF in Hn. fold rnd in Hn. fold ri in Hn. rewrite Rlt_bool_true in Hn by exact Hi.
  destruct Hn as (Rn & Fn & _). fold (i2f32 i) in Rn, Fn.
  pose proof (@Bmult_correct 24 128 eq_refl eq_refl binop_nan_pl32 mode_NE (i2f32 i) fd) as Hm.
  rewrite Rn in Hm. fold rnd in Hm. fold p in Hm. rewrite Rlt_bool_true in Hm by exact Hp.
  destruct Hm as (Rm & Fm & _). rewrite Fn, Fd in Fm. cbn [andb] in Fm.
  pose proof (@Bplus_correct 24 128 eq_refl eq_refl binop_nan_pl32 mode_NE fs
                (Bmult 24 128 eq_refl eq_refl binop_nan_pl32 mode_NE (i2f32 i) fd) Fs Fm) as Ha.
  rewrite Rm in Ha. fold rnd in Ha. fold r in Ha. rewrite Rlt_bool_true in Ha by exact Hr.
  destruct Ha as (Ra & Fa & _).
  split; [exact Ra | exact Fa].
Qed.

(* ======================= range arithmetic, binary64 ========================== *)
(* the float the C code gets from "av->val.d = number" *)
Definition i2f64 (i : Z) : binary64 := binary_normalize 53 1024 eq_refl eq_refl mode_NE i 0 false.

Lemma b64_bits_id : forall x : binary64, b64_of_bits (bits_of_b64 x) = x.
Proof. intros. apply (binary_float_of_bits_of_binary_float 52 11). Qed.

(* range_arg of the model run with Flocq's arithmetic: start + i*delta in
   binary64, every step rounded to nearest even *)
Theorem range_arg_flocq64 : forall d s i,
  range_arg flocq_ops (SV 100 (VD d)) (SV 100 (VD s)) i =
  Some (100, VD (bits_of_b64 (b64_plus mode_NE (b64_of_bits s)
                                (b64_mult mode_NE (i2f64 i) (b64_of_bits d))))).
Proof.
  intros. cbn. unfold fl64_add, fl64_mul, fl64_of_int. rewrite !b64_bits_id. reflexivity.
Qed.

Theorem range_spec_flocq64 : forall d s i,
  range_spec flocq_ops 100 (VD d) 100 (VD s) i =
  Some (100, VD (bits_of_b64 (b64_plus mode_NE (b64_of_bits s)
                                (b64_mult mode_NE (i2f64 i) (b64_of_bits d))))).
Proof.
  intros. cbn. unfold fl64_add, fl64_mul, fl64_of_int. rewrite !b64_bits_id. reflexivity.
Qed.

(* its real-number meaning when nothing overflows: rnd (start + rnd (rnd i * delta)) *)
Theorem range_arg_flocq64_real : forall d s i,
  let rnd := round radix2 (SpecFloat.fexp 53 1024) (round_mode mode_NE) in
  let fd := b64_of_bits d in
  let fs := b64_of_bits s in
  let ri := rnd (IZR i) in
  let p := rnd (ri * B2R 53 1024 fd)%R in
  let r := rnd (B2R 53 1024 fs + p)%R in
  is_finite 53 1024 fd = true -> is_finite 53 1024 fs = true ->
  (Rabs ri < bpow radix2 1024)%R -> (Rabs p < bpow radix2 1024)%R -> (Rabs r < bpow radix2 1024)%R ->
  exists res, range_arg flocq_ops (SV 100 (VD d)) (SV 100 (VD s)) i = Some (100, VD (bits_of_b64 res)) /\
              B2R 53 1024 res = r /\ is_finite 53 1024 res = true.
Proof.
  intros d s i rnd fd fs ri p r Fd Fs Hi Hp Hr.
  eexists. split; [apply range_arg_flocq64|].
  fold fd fs.
  assert (HF : F2R (Float radix2 i 0) = IZR i) by (unfold F2R; cbn; ring).
  pose proof (@binary_normalize_correct 53 1024 eq_refl eq_refl mode_NE i 0 false) as Hn.
  rewrite HF in Hn. fold rnd in Hn. fold ri in Hn. rewrite Rlt_bool_true in Hn by exact Hi.
  destruct Hn as (Rn & Fn & _). fold (i2f64 i) in Rn, Fn.
  pose proof (@Bmult_correct 53 1024 eq_refl eq_refl binop_nan_pl64 mode_NE (i2f64 i) fd) as Hm.
  rewrite Rn in Hm. fold rnd in Hm. fold p in Hm. rewrite Rlt_bool_true in Hm by exact Hp.
  destruct Hm as (Rm & Fm & _). rewrite Fn, Fd in Fm. cbn [andb] in Fm.
  pose proof (@Bplus_correct 53 1024 eq_refl eq_refl binop_nan_pl64 mode_NE fs
                (Bmult 53 1024 eq_refl eq_refl binop_nan_pl64 mode_NE (i2f64 i) fd) Fs Fm) as Ha.
  rewrite Rm in Ha. fold rnd in Ha. fold r in Ha. rewrite Rlt_bool_true in Ha by exact Hr.
  destruct Ha as (Ra & Fa & _).
  split; [exact Ra | exact Fa].
Qed.


(* ======================= the comparison of two 'f' values, in IEEE terms ===== *)
Theorem numeric_float_IEEE32 : forall F x y c, 0 <= x < 2 ^ 32 -> 0 <= y < 2 ^ 32 ->
  Bcompare 24 128 (b32_of_bits x) (b32_of_bits y) = Some c ->
  vals_cmp F [SV 102 (VF x)] [SV 102 (VF y)] 1 1 = Some (z_of_cmp c).
Proof.
  intros F x y c Hx Hy Hc.
  destruct (isnan32 x) eqn:Nx; [rewrite isnan32_Bcompare in Hc by auto; discriminate|].
  destruct (isnan32 y) eqn:Ny; [rewrite isnan32_Bcompare in Hc by auto; discriminate|].
  rewrite fkey32_Bcompare in Hc by auto. inversion Hc; subst c.
  now apply numeric_float.
Qed.

(* ======================= the comparison of two 'd' values, in IEEE terms ===== *)
Theorem numeric_double_IEEE64 : forall F x y c, 0 <= x < 2 ^ 64 -> 0 <= y < 2 ^ 64 ->
  Bcompare 53 1024 (b64_of_bits x) (b64_of_bits y) = Some c ->
  vals_cmp F [SV 100 (VD x)] [SV 100 (VD y)] 1 1 = Some (z_of_cmp c).
Proof.
  intros F x y c Hx Hy Hc.
  destruct (isnan64 x) eqn:Nx; [rewrite isnan64_Bcompare in Hc by auto; discriminate|].
  destruct (isnan64 y) eqn:Ny; [rewrite isnan64_Bcompare in Hc by auto; discriminate|].
  rewrite fkey64_Bcompare in Hc by auto. inversion Hc; subst c.
  now apply numeric_double.
Qed.
