(* C16 - Spec side: what a flat argument-value list *denotes* (its written
   out values: "N x value" is N copies, a range with delta is
   start + i*delta), and the order the property text describes, as plain
   definitions that do not mention the iterator or the comparison loops.
   No proofs in this file. *)
From Coq Require Import List ZArith Bool.
From RtoscV Require Osc.OscModel.
From RtoscV Require Import ArgVal.AvModel.
Import ListNotations.
Local Open Scope Z_scope.

(* ---- well-formed single values: the union member the tag selects -------- *)
Inductive simple_ok : Z -> sval -> Prop :=
| ok_i : forall x, simple_ok 105 (VI x)
| ok_c : forall x, simple_ok 99 (VI x)
| ok_r : forall x, simple_ok 114 (VI x)
| ok_h : forall x, simple_ok 104 (VH x)
| ok_t : forall x, simple_ok 116 (VT x)
| ok_f : forall b, simple_ok 102 (VF b)
| ok_d : forall b, simple_ok 100 (VD b)
| ok_m : forall m, Zlength m = 4 -> simple_ok 109 (VM m)
| ok_s : forall s, simple_ok 115 (VS s)
| ok_S : forall s, simple_ok 83 (VS s)
| ok_b : forall d, simple_ok 98 (VB (Zlength d) d)
| ok_T : simple_ok 84 VNone
| ok_F : simple_ok 70 VNone
| ok_N : simple_ok 78 VNone
| ok_I : simple_ok 73 VNone.

(* ---- ranges with delta: the i-th value is start + i*delta ---------------- *)
Definition range_elem (F : fops) (t : Z) (dv sv : sval) (i : Z) : option tv :=
  match dv, sv with
  | VI d, VI s => if (t =? 105) || (t =? 99) then Some (t, VI (wrap32 (s + i * d))) else None
  | VH d, VH s => if t =? 104 then Some (t, VH (wrap64 (s + i * d))) else None
  | VF d, VF s => if t =? 102 then Some (t, VF (f32_add F s (f32_mul F (f32_of_int F i) d))) else None
  | VD d, VD s => if t =? 100 then Some (t, VD (f64_add F s (f64_mul F (f64_of_int F i) d))) else None
  | _, _ => None
  end.

(* booleans: "times" is and, "plus" is exclusive or, i counts as true iff i <> 0 *)
Definition bool_range_elem (dt st i : Z) : tv :=
  (if xorb (st =? 84) (negb (i =? 0) && (dt =? 84)) then 84 else 70, VNone).

Definition range_spec (F : fops) (dt : Z) (dv : sval) (st : Z) (sv : sval) (i : Z) : option tv :=
  if is_bool_ty dt && is_bool_ty st then Some (bool_range_elem dt st i)
  else if dt =? st then range_elem F dt dv sv i
  else None.

(* the values number i, i+1, ..., i+k-1 of the range *)
Fixpoint range_from (F : fops) (dt : Z) (dv : sval) (st : Z) (sv : sval) (i : Z) (k : nat)
  : option (list value) :=
  match k with
  | O => Some []
  | S k' =>
      match range_spec F dt dv st sv i, range_from F dt dv st sv (i + 1) k' with
      | Some (t, v), Some r => Some (Val t v :: r)
      | _, _ => None
      end
  end.

(* ---- denotation of the flat layout ------------------------------------------ *)
(* [denote F a vs]: the slots a are a well-formed list and stand for the
   values vs.  Ranges are finite (count >= 1); a range without delta repeats
   one value or one whole array; a range with delta has a defined i-th value
   for every i below its count. *)
Inductive denote (F : fops) : list slot -> list value -> Prop :=
| D_nil : denote F [] []
| D_elem : forall e v rest vs,
    denote_elem F e v -> denote F rest vs -> denote F (e ++ rest) (v :: vs)
| D_rep : forall n e v rest vs,
    1 <= n -> denote_elem F e v -> denote F rest vs ->
    denote F (SRep n 0 :: e ++ rest) (repeat v (Z.to_nat n) ++ vs)
| D_range : forall n hd dt dv st sv es rest vs,
    hd <> 0 -> 1 <= n ->
    range_from F dt dv st sv 0 (Z.to_nat n) = Some es -> denote F rest vs ->
    denote F (SRep n hd :: SV dt dv :: SV st sv :: rest) (es ++ vs)
with denote_elem (F : fops) : list slot -> value -> Prop :=
| DE_val : forall t sv, simple_ok t sv -> denote_elem F [SV t sv] (Val t sv)
| DE_arr : forall t body es,
    denote F body es -> denote_elem F (SArr t (Zlength body) :: body) (Arr t es).

Scheme denote_mut := Induction for denote Sort Prop
  with denote_elem_mut := Induction for denote_elem Sort Prop.

(* no NaN anywhere (C's == and > are not an order on NaN) *)
Fixpoint nonan (v : value) : bool :=
  match v with
  | Val _ (VF b) => negb (isnan32 b)
  | Val _ (VD b) => negb (isnan64 b)
  | Val _ _ => true
  | Arr _ es => forallb nonan es
  end.

(* ---- the order, on keys ------------------------------------------------------ *)
(* lexicographic extension of a three-way comparison; a proper prefix comes first *)
Fixpoint lex {A : Type} (c : A -> A -> comparison) (l r : list A) : comparison :=
  match l, r with
  | [], [] => Eq
  | [], _ :: _ => Lt
  | _ :: _, [] => Gt
  | x :: l', y :: r' => match c x y with Eq => lex c l' r' | o => o end
  end.

(* key of a single value: its tag, then
     numbers: the number (floats: the monotone key of the bit pattern);
     time tags: 'immediately' (1) below every other;
     strings: NULL below every string, then the bytes; blobs and MIDI: the bytes;
     T F N I: nothing *)
Definition skey (t : Z) (v : sval) : list Z :=
  t :: match v with
       | VNone => []
       | VI x => [x]
       | VH x => [x]
       | VT x => [if x =? 1 then 0 else 1; x]
       | VF b => [fkey32 b]
       | VD b => [fkey64 b]
       | VM m => m
       | VS None => [0]
       | VS (Some s) => 1 :: s
       | VB _ d => d
       end.

(* a value as a tree of keys: a single value is a leaf, an array is the node
   ['a'; class of its element type] over its elements *)
Inductive aval := Node (h : list Z) (c : list aval).

Fixpoint abs (v : value) : aval :=
  match v with
  | Val t sv => Node (skey t sv) []
  | Arr t es => Node [97; arr_class t] (map abs es)
  end.

Fixpoint cmpa (x y : aval) {struct x} : comparison :=
  match x, y with
  | Node h c, Node h' c' =>
      match lex Z.compare h h' with
      | Eq =>
          (fix go (l r : list aval) {struct l} : comparison :=
             match l, r with
             | [], [] => Eq
             | [], _ :: _ => Lt
             | _ :: _, [] => Gt
             | a :: l', b :: r' => match cmpa a b with Eq => go l' r' | o => o end
             end) c c'
      | o => o
      end
  end.

(* the comparison of two lists of values the text describes *)
Definition cmp_values (va vb : list value) : comparison := lex cmpa (map abs va) (map abs vb).

Definition z_of_cmp (c : comparison) : Z := match c with Lt => -1 | Eq => 0 | Gt => 1 end.
Definition is_eq (c : comparison) : bool := match c with Eq => true | _ => false end.

(* ---- the message a list of values is sent as --------------------------------- *)
(* The OSC 1.0 encoding (Osc/OscModel.enc_spec, the Spec encoder of the byte
   codec) of the address, the tags of the written-out values and the payloads
   of the values that have one.  A top-level array contributes the bare tag
   'a' (97) and nothing else: its elements are not sent.  Not defined when a
   top-level string is NULL (rtosc_amessage dereferences it). *)
Definition vtype (v : value) : Z := match v with Val t _ => t | Arr _ _ => 97 end.
Definition has_payload (t : Z) : bool :=
  match OscModel.kind_of t with OscModel.K0 => false | _ => true end.
Fixpoint payloads_of (vs : list value) : option (list OscModel.payload) :=
  match vs with
  | [] => Some []
  | Val t sv :: r =>
      if has_payload t then
        match arg_payload t sv, payloads_of r with
        | Some p, Some ps => Some (p :: ps)
        | _, _ => None
        end
      else payloads_of r
  | Arr _ _ :: r => payloads_of r
  end.
Definition message_enc (addr : list Z) (vs : list value) : option (list Z) :=
  match payloads_of vs with
  | Some ps => Some (OscModel.enc_spec addr (map vtype vs) ps)
  | None => None
  end.

(* ---- fuel needed to walk a list of values ------------------------------------- *)
Fixpoint need_v (v : value) : nat :=
  match v with
  | Val _ _ => O
  | Arr _ es =>
      S ((fix go (l : list value) : nat :=
            match l with [] => O | e :: l' => S (Nat.max (need_v e) (go l')) end) es)
  end.
Fixpoint need (l : list value) : nat :=
  match l with [] => O | e :: l' => S (Nat.max (need_v e) (need l')) end.
