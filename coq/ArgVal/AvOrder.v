(* C16 - the order on keys (AvSpec.cmpa, lex) is a total preorder:
   antisymmetric in the three-way sense and transitive.  Pure list / Z
   reasoning, nothing about the C code. *)
From Coq Require Import List ZArith Bool Lia.
From RtoscV Require Import ArgVal.AvModel ArgVal.AvSpec.
Import ListNotations.
Local Open Scope Z_scope.

(* transitivity of a three-way comparison at x, in the form that survives
   lexicographic extension without help from antisymmetry *)
Definition tr {A : Type} (c : A -> A -> comparison) (x : A) : Prop :=
  forall y z,
    (c x y = Eq -> c x z = c y z) /\
    (c x y = Lt -> c y z <> Gt -> c x z = Lt) /\
    (c x y = Gt -> c y z <> Lt -> c x z = Gt).

Definition asym {A : Type} (c : A -> A -> comparison) (x : A) : Prop :=
  forall y, c y x = CompOpp (c x y).

Lemma lex_asym : forall {A} (c : A -> A -> comparison) l,
  Forall (asym c) l -> asym (lex c) l.
Proof.
  intros A c l H. induction H as [|x l Hx Hl IH]; intros r.
  - destruct r; reflexivity.
  - destruct r as [|y r]; [reflexivity|].
    cbn [lex]. rewrite (Hx y). destruct (c x y) eqn:E; cbn; auto.
Qed.

Lemma lex_tr : forall {A} (c : A -> A -> comparison) l,
  Forall (tr c) l -> tr (lex c) l.
Proof.
  intros A c l H. induction H as [|x l Hx Hl IH]; intros r m.
  - destruct r as [|y r]; destruct m as [|z m]; cbn; repeat split; intros; try congruence.
  - destruct r as [|y r]; destruct m as [|z m]; cbn [lex]; repeat split; intros H1; try congruence;
      try (intros H2; try congruence).
    + (* Eq *)
      destruct (Hx y z) as (He & _ & _).
      destruct (c x y) eqn:Exy; try discriminate.
      rewrite (He eq_refl). destruct (c y z); auto.
      destruct (IH r m) as (IHe & _ & _). auto.
    + (* Lt *)
      destruct (Hx y z) as (He & Hl' & _).
      destruct (c x y) eqn:Exy; try discriminate.
      * rewrite (He eq_refl). destruct (c y z) eqn:Eyz; auto; try congruence.
        destruct (IH r m) as (_ & IHl & _). auto.
      * rewrite Hl'; auto. destruct (c y z); congruence.
    + (* Gt *)
      destruct (Hx y z) as (He & _ & Hg').
      destruct (c x y) eqn:Exy; try discriminate.
      * rewrite (He eq_refl). destruct (c y z) eqn:Eyz; auto; try congruence.
        destruct (IH r m) as (_ & _ & IHg). auto.
      * rewrite Hg'; auto. destruct (c y z); congruence.
Qed.

Lemma Zcompare_asym : forall x, asym Z.compare x.
Proof. intros x y. apply Z.compare_antisym. Qed.

Lemma Zcompare_tr : forall x, tr Z.compare x.
Proof.
  intros x y z. repeat split; intros H1.
  - apply Z.compare_eq_iff in H1. now subst.
  - intros H2. change (x < y) in H1. change (y <= z) in H2. change (x < z). lia.
  - intros H2. change (x > y) in H1. change (y >= z) in H2. change (x > z). lia.
Qed.

Lemma lexZ_asym : forall l, asym (lex Z.compare) l.
Proof. intros. apply lex_asym. apply Forall_forall. intros; apply Zcompare_asym. Qed.
Lemma lexZ_tr : forall l, tr (lex Z.compare) l.
Proof. intros. apply lex_tr. apply Forall_forall. intros; apply Zcompare_tr. Qed.

(* ---- cmpa ---------------------------------------------------------------- *)
Lemma cmpa_node : forall h c h' c',
  cmpa (Node h c) (Node h' c') =
  match lex Z.compare h h' with Eq => lex cmpa c c' | o => o end.
Proof.
  intros. cbn [cmpa]. destruct (lex Z.compare h h'); auto.
  revert c'. induction c as [|a l IH]; intros [|b r]; auto.
  cbn [lex]. destruct (cmpa a b); auto.
Qed.

Fixpoint aval_ind' (P : aval -> Prop) (H : forall h c, Forall P c -> P (Node h c)) (x : aval) : P x :=
  match x with
  | Node h c =>
      H h c ((fix go (l : list aval) : Forall P l :=
                match l with
                | [] => Forall_nil P
                | a :: l' => Forall_cons a (aval_ind' P H a) (go l')
                end) c)
  end.

Lemma cmpa_asym : forall x, asym cmpa x.
Proof.
  induction x as [h c IH] using aval_ind'. intros [h' c'].
  rewrite !cmpa_node. rewrite (lexZ_asym h h').
  destruct (lex Z.compare h h'); cbn; auto.
  apply (lex_asym cmpa c IH).
Qed.

Lemma cmpa_tr : forall x, tr cmpa x.
Proof.
  induction x as [h c IH] using aval_ind'. intros [h' c'] [h'' c''].
  rewrite !cmpa_node.
  destruct (lexZ_tr h h' h'') as (He & Hl & Hg).
  destruct (lex_tr cmpa c IH c' c'') as (Ce & Cl & Cg).
  repeat split; intros H1; try intros H2.
  - destruct (lex Z.compare h h') eqn:E1; try discriminate.
    rewrite (He eq_refl). destruct (lex Z.compare h' h''); auto.
  - destruct (lex Z.compare h h') eqn:E1; try discriminate.
    + rewrite (He eq_refl). destruct (lex Z.compare h' h'') eqn:E2; auto; try congruence.
    + rewrite Hl; auto. destruct (lex Z.compare h' h''); congruence.
  - destruct (lex Z.compare h h') eqn:E1; try discriminate.
    + rewrite (He eq_refl). destruct (lex Z.compare h' h'') eqn:E2; auto; try congruence.
    + rewrite Hg; auto. destruct (lex Z.compare h' h''); congruence.
Qed.

(* ---- the laws for lists of values ---------------------------------------- *)
Lemma cmp_values_asym : forall va vb, cmp_values vb va = CompOpp (cmp_values va vb).
Proof.
  intros. unfold cmp_values. apply lex_asym. apply Forall_forall. intros; apply cmpa_asym.
Qed.

Lemma cmp_values_refl : forall va, cmp_values va va = Eq.
Proof.
  intros. pose proof (cmp_values_asym va va) as H. destruct (cmp_values va va); cbn in H; congruence.
Qed.

Lemma cmp_values_tr : forall va, tr (fun a b => cmp_values a b) va.
Proof.
  intros va vb vc. unfold cmp_values.
  apply (lex_tr cmpa (map abs va)). apply Forall_forall. intros; apply cmpa_tr.
Qed.

(* a <= b, b <= c gives a <= c, strictly if one of the two is strict *)
Lemma cmp_values_trans : forall va vb vc,
  cmp_values va vb <> Gt -> cmp_values vb vc <> Gt ->
  cmp_values va vc <> Gt /\
  (cmp_values va vb = Lt \/ cmp_values vb vc = Lt -> cmp_values va vc = Lt).
Proof.
  intros va vb vc H1 H2.
  destruct (cmp_values_tr va vb vc) as (He & Hl & _).
  destruct (cmp_values va vb) eqn:E1; try congruence.
  - rewrite (He eq_refl). split; auto. intros [H|H]; congruence.
  - rewrite (Hl eq_refl H2). split; [congruence|auto].
Qed.
