(* C16 - the iterator of the model walks exactly the denotation of a
   well-formed list: one get/next step yields the next value. *)
From Coq Require Import List ZArith Bool Lia.
From RtoscV Require Import ArgVal.AvModel ArgVal.AvSpec.
Import ListNotations.
Local Open Scope Z_scope.
Local Arguments Zlength : simpl never.
Local Arguments skipn : simpl never.

(* ---- lists ------------------------------------------------------------------ *)
Lemma Zlength_app' : forall {A} (l r : list A), Zlength (l ++ r) = Zlength l + Zlength r.
Proof. intros. rewrite !Zlength_correct, app_length. lia. Qed.

Lemma Zlength_nonneg' : forall {A} (l : list A), 0 <= Zlength l.
Proof. intros. rewrite Zlength_correct. lia. Qed.

Lemma skipn_Zlength_app : forall {A} (l r : list A), skipn (Z.to_nat (Zlength l)) (l ++ r) = r.
Proof.
  intros. rewrite Zlength_correct, Nat2Z.id. rewrite skipn_app, skipn_all, Nat.sub_diag. reflexivity.
Qed.

(* ---- iterator states and what is still to come ------------------------------ *)
(* [itr_den F size it vs]: the iterator it over a list of [size] slots (junk
   may follow in memory) has exactly the values vs ahead of it *)
Inductive itr_den (F : fops) (size : Z) : itr -> list value -> Prop :=
| ID_at : forall a junk vs i,
    denote F a vs -> i + Zlength a = size ->
    itr_den F size (mk_itr (a ++ junk) i 0) vs
| ID_rep : forall n k e v rest junk vs i,
    0 <= k < n -> denote_elem F e v -> denote F rest vs ->
    i + 1 + Zlength e + Zlength rest = size ->
    itr_den F size (mk_itr (SRep n 0 :: e ++ rest ++ junk) i k)
            (repeat v (Z.to_nat (n - k)) ++ vs)
| ID_range : forall n hd k dt dv st sv es rest junk vs i,
    hd <> 0 -> 0 <= k < n ->
    range_from F dt dv st sv k (Z.to_nat (n - k)) = Some es -> denote F rest vs ->
    i + 3 + Zlength rest = size ->
    itr_den F size (mk_itr (SRep n hd :: SV dt dv :: SV st sv :: rest ++ junk) i k) (es ++ vs).

(* the head slot is not an endless range *)
Definition head_fin (it : itr) : Prop :=
  exists s rest, av it = s :: rest /\
    (slot_type s = 45 -> exists n hd, s = SRep n hd /\ n <> 0).

(* ---- elements ---------------------------------------------------------------- *)
Lemma simple_ok_tag : forall t sv, simple_ok t sv -> t <> 45 /\ t <> 97.
Proof. intros t sv H; destruct H; split; discriminate. Qed.

Lemma elem_head : forall F e v, denote_elem F e v ->
  exists s e', e = s :: e' /\ slot_type s <> 45.
Proof.
  intros F e v H; destruct H.
  - exists (SV t sv), []. split; auto. cbn. apply (simple_ok_tag _ _ H).
  - exists (SArr t (Zlength body)), body. split; auto. cbn. discriminate.
Qed.

Lemma elem_len : forall F e v, denote_elem F e v -> 1 <= Zlength e.
Proof.
  intros F e v H. destruct (elem_head _ _ _ H) as (s & e' & -> & _).
  rewrite Zlength_cons. pose proof (Zlength_nonneg' e'). lia.
Qed.

(* skipping one element: the second half of itr_next *)
Lemma next_plain_elem : forall F e v tail i, denote_elem F e v ->
  next_plain (mk_itr (e ++ tail) i 0) = Some (mk_itr tail (i + Zlength e) 0).
Proof.
  intros F e v tail i H; destruct H.
  - destruct (simple_ok_tag _ _ H) as [_ H97].
    unfold next_plain. cbn. apply Z.eqb_neq in H97. rewrite H97. reflexivity.
  - unfold next_plain. cbn.
    pose proof (Zlength_nonneg' body) as Hn. apply Z.ltb_ge in Hn. rewrite Hn.
    rewrite skipn_Zlength_app. rewrite Zlength_cons. f_equal. f_equal. lia.
Qed.

Lemma next_range_elem : forall F e v tail i r, denote_elem F e v ->
  next_range (mk_itr (e ++ tail) i r) = Some (mk_itr (e ++ tail) i r).
Proof.
  intros F e v tail i r H. destruct (elem_head _ _ _ H) as (s & e' & -> & Hs).
  unfold next_range. cbn. apply Z.eqb_neq in Hs. rewrite Hs. reflexivity.
Qed.

Lemma get_elem : forall G F e v tail i, denote_elem F e v ->
  itr_get_gen G F (mk_itr (e ++ tail) i 0) = Some (e ++ tail).
Proof.
  intros G F e v tail i H. destruct (elem_head _ _ _ H) as (s & e' & -> & Hs).
  unfold itr_get_gen. cbn. apply Z.eqb_neq in Hs. rewrite Hs. reflexivity.
Qed.

(* ---- range_arg computes the Spec's i-th value -------------------------------- *)
Lemma wrap32_add_idem : forall s x, wrap32 (s + wrap32 x) = wrap32 (s + x).
Proof.
  intros. unfold wrap32.
  replace (s + ((x + 2 ^ 31) mod 2 ^ 32 - 2 ^ 31) + 2 ^ 31) with (s + (x + 2 ^ 31) mod 2 ^ 32) by lia.
  rewrite Zplus_mod_idemp_r. f_equal. f_equal. lia.
Qed.

Lemma wrap64_add_idem : forall s x, wrap64 (s + wrap64 x) = wrap64 (s + x).
Proof.
  intros. unfold wrap64.
  replace (s + ((x + 2 ^ 63) mod 2 ^ 64 - 2 ^ 63) + 2 ^ 63) with (s + (x + 2 ^ 63) mod 2 ^ 64) by lia.
  rewrite Zplus_mod_idemp_r. f_equal. f_equal. lia.
Qed.

Lemma is_bool_ty_cases : forall t, is_bool_ty t = true -> t = 84 \/ t = 70.
Proof.
  intros t H. unfold is_bool_ty in H. apply orb_true_iff in H. destruct H as [H|H]; apply Z.eqb_eq in H; auto.
Qed.

Lemma range_arg_spec : forall F dt dv st sv i tv,
  range_spec F dt dv st sv i = Some tv ->
  range_arg F (SV dt dv) (SV st sv) i = Some tv.
Proof.
  intros F dt dv st sv i tv H. unfold range_spec in H.
  destruct (is_bool_ty dt && is_bool_ty st) eqn:Eb.
  - apply andb_true_iff in Eb. destruct Eb as [Ed Es].
    apply is_bool_ty_cases in Ed. apply is_bool_ty_cases in Es.
    inversion H; subst tv; clear H. unfold bool_range_elem.
    destruct Ed as [-> | ->]; destruct Es as [-> | ->]; cbn;
      destruct (i =? 0); reflexivity.
  - destruct (dt =? st) eqn:Et; [|discriminate]. apply Z.eqb_eq in Et. subst st.
    unfold range_elem in H.
    destruct dv; try discriminate; destruct sv; try discriminate.
    + destruct ((dt =? 105) || (dt =? 99)) eqn:E; [|discriminate].
      inversion H; subst tv; clear H.
      apply orb_true_iff in E. destruct E as [E|E]; apply Z.eqb_eq in E; subst dt; cbn;
        now rewrite wrap32_add_idem, Z.mul_comm.
    + destruct (dt =? 104) eqn:E; [|discriminate]. apply Z.eqb_eq in E; subst dt.
      inversion H; subst tv; clear H. cbn. now rewrite wrap64_add_idem, Z.mul_comm.
    + destruct (dt =? 102) eqn:E; [|discriminate]. apply Z.eqb_eq in E; subst dt.
      inversion H; subst tv; clear H. reflexivity.
    + destruct (dt =? 100) eqn:E; [|discriminate]. apply Z.eqb_eq in E; subst dt.
      inversion H; subst tv; clear H. reflexivity.
Qed.

Lemma range_spec_ok : forall F dt dv st sv i t v,
  range_spec F dt dv st sv i = Some (t, v) ->
  simple_ok t v /\ st <> 97 /\ st <> 45.
Proof.
  intros F dt dv st sv i t v H. unfold range_spec in H.
  destruct (is_bool_ty dt && is_bool_ty st) eqn:Eb.
  - apply andb_true_iff in Eb. destruct Eb as [Ed Es].
    apply is_bool_ty_cases in Es.
    inversion H; subst; clear H.
    split; [|destruct Es as [-> | ->]; split; discriminate].
    destruct (xorb _ _); constructor.
  - destruct (dt =? st) eqn:Et; [|discriminate]. apply Z.eqb_eq in Et. subst st.
    unfold range_elem in H.
    destruct dv; try discriminate; destruct sv; try discriminate.
    + destruct ((dt =? 105) || (dt =? 99)) eqn:E; [|discriminate].
      inversion H; subst; clear H.
      apply orb_true_iff in E. destruct E as [E|E]; apply Z.eqb_eq in E; subst t;
        (split; [constructor | split; discriminate]).
    + destruct (dt =? 104) eqn:E; [|discriminate]. apply Z.eqb_eq in E; subst dt.
      inversion H; subst; clear H. split; [constructor | split; discriminate].
    + destruct (dt =? 102) eqn:E; [|discriminate]. apply Z.eqb_eq in E; subst dt.
      inversion H; subst; clear H. split; [constructor | split; discriminate].
    + destruct (dt =? 100) eqn:E; [|discriminate]. apply Z.eqb_eq in E; subst dt.
      inversion H; subst; clear H. split; [constructor | split; discriminate].
Qed.

(* ---- one step inside "N x value" --------------------------------------------- *)
Lemma to_nat_succ : forall m, 1 <= m -> Z.to_nat m = S (Z.to_nat (m - 1)).
Proof. intros. rewrite <- Z2Nat.inj_succ by lia. f_equal. lia. Qed.

Lemma step_rep : forall G F size n k e v rest junk vs i,
  0 <= k < n -> denote_elem F e v -> denote F rest vs ->
  i + 1 + Zlength e + Zlength rest = size ->
  let it := mk_itr (SRep n 0 :: e ++ rest ++ junk) i k in
  exists vs' it',
    repeat v (Z.to_nat (n - k)) ++ vs = v :: vs' /\
    idx it < size /\ head_fin it /\
    itr_get_gen G F it = Some (if G then e ++ rest ++ junk
                               else match e with s :: _ => [s] | [] => [] end) /\
    itr_next it = Some it' /\ itr_den F size it' vs'.
Proof.
  intros G F size n k e v rest junk vs i Hk He Hr Hsz it.
  pose proof (elem_len _ _ _ He) as Hel. pose proof (Zlength_nonneg' rest) as Hrl.
  exists (repeat v (Z.to_nat (n - k - 1)) ++ vs).
  assert (Hrep : repeat v (Z.to_nat (n - k)) ++ vs = v :: repeat v (Z.to_nat (n - k - 1)) ++ vs).
  { rewrite (to_nat_succ (n - k)) by lia. reflexivity. }
  assert (Hget : itr_get_gen G F it = Some (if G then e ++ rest ++ junk
                               else match e with s :: _ => [s] | [] => [] end)).
  { unfold itr_get_gen, it. cbn. destruct G; auto.
    destruct (elem_head _ _ _ He) as (s & e' & -> & _). reflexivity. }
  assert (Hfin : head_fin it).
  { exists (SRep n 0), (e ++ rest ++ junk). split; auto. intros _. exists n, 0. split; auto. lia. }
  destruct (Z.eq_dec (k + 1) n) as [Hlast | Hmore].
  - (* the last repetition: leave the range, skip the value *)
    exists (mk_itr (rest ++ junk) (i + 1 + Zlength e) 0).
    repeat split; auto.
    + cbn. lia.
    + unfold itr_next, next_range, it. cbn.
      replace ((k + 1 >=? n) && negb (n =? 0)) with true
        by (symmetry; apply andb_true_iff; split; [apply Z.geb_le; lia | apply negb_true_iff, Z.eqb_neq; lia]).
      cbn. apply (next_plain_elem F e v). exact He.
    + replace (n - k - 1) with 0 by lia. cbn.
      apply ID_at; auto; try lia.
  - exists (mk_itr (SRep n 0 :: e ++ rest ++ junk) i (k + 1)).
    repeat split; auto.
    + cbn. lia.
    + unfold itr_next, next_range, it. cbn.
      replace ((k + 1 >=? n) && negb (n =? 0)) with false
        by (symmetry; apply andb_false_iff; left; rewrite Z.geb_leb; apply Z.leb_gt; lia).
      unfold next_plain. cbn.
      replace (k + 1 =? 0) with false by (symmetry; apply Z.eqb_neq; lia). reflexivity.
    + replace (n - k - 1) with (n - (k + 1)) by lia.
      apply ID_rep; auto; try lia.
Qed.

(* ---- one step inside a range with delta ---------------------------------------- *)
Lemma step_range : forall G F size n hd k dt dv st sv es rest junk vs i,
  hd <> 0 -> 0 <= k < n ->
  range_from F dt dv st sv k (Z.to_nat (n - k)) = Some es -> denote F rest vs ->
  i + 3 + Zlength rest = size ->
  let it := mk_itr (SRep n hd :: SV dt dv :: SV st sv :: rest ++ junk) i k in
  exists t v0 vs' it',
    es ++ vs = Val t v0 :: vs' /\ simple_ok t v0 /\
    idx it < size /\ head_fin it /\
    itr_get_gen G F it = Some [SV t v0] /\
    itr_next it = Some it' /\ itr_den F size it' vs'.
Proof.
  intros G F size n hd k dt dv st sv es rest junk vs i Hhd Hk Hes Hr Hsz it.
  pose proof (Zlength_nonneg' rest) as Hrl.
  rewrite (to_nat_succ (n - k)) in Hes by lia. cbn [range_from] in Hes.
  destruct (range_spec F dt dv st sv k) as [[t v0]|] eqn:Espec; [|discriminate].
  destruct (range_from F dt dv st sv (k + 1) (Z.to_nat (n - k - 1))) as [r|] eqn:Er; [|discriminate].
  inversion Hes; subst es; clear Hes.
  destruct (range_spec_ok _ _ _ _ _ _ _ _ Espec) as (Hok & Hst97 & Hst45).
  exists t, v0, (r ++ vs).
  assert (Hget : itr_get_gen G F it = Some [SV t v0]).
  { unfold itr_get_gen, it. cbn -[range_arg]. apply Z.eqb_neq in Hhd. rewrite Hhd.
    rewrite (range_arg_spec _ _ _ _ _ _ _ Espec). reflexivity. }
  assert (Hfin : head_fin it).
  { exists (SRep n hd), (SV dt dv :: SV st sv :: rest ++ junk). split; auto.
    intros _. exists n, hd. split; auto. lia. }
  destruct (Z.eq_dec (k + 1) n) as [Hlast | Hmore].
  - exists (mk_itr (rest ++ junk) (i + 3) 0).
    repeat split; auto.
    + cbn. lia.
    + unfold itr_next, next_range, it. cbn.
      replace ((k + 1 >=? n) && negb (n =? 0)) with true
        by (symmetry; apply andb_true_iff; split; [apply Z.geb_le; lia | apply negb_true_iff, Z.eqb_neq; lia]).
      apply Z.eqb_neq in Hhd. rewrite Hhd. cbn.
      unfold next_plain. cbn. apply Z.eqb_neq in Hst97. rewrite Hst97.
      f_equal. f_equal. lia.
    + replace (n - k - 1) with 0 in Er by lia. cbn in Er. inversion Er; subst r. cbn.
      apply ID_at; auto; try lia.
  - exists (mk_itr (SRep n hd :: SV dt dv :: SV st sv :: rest ++ junk) i (k + 1)).
    repeat split; auto.
    + cbn. lia.
    + unfold itr_next, next_range, it. cbn.
      replace ((k + 1 >=? n) && negb (n =? 0)) with false
        by (symmetry; apply andb_false_iff; left; rewrite Z.geb_leb; apply Z.leb_gt; lia).
      unfold next_plain. cbn.
      replace (k + 1 =? 0) with false by (symmetry; apply Z.eqb_neq; lia). reflexivity.
    + apply ID_range; auto; try lia.
      replace (n - (k + 1)) with (n - k - 1) by lia. exact Er.
Qed.

(* ---- the step lemma ---------------------------------------------------------- *)
(* what get returns for the value v: with the fixed get a pointer into the
   list (the element's slots, then whatever follows) *)
Definition points_to (F : fops) (p : list slot) (v : value) : Prop :=
  exists e tail, p = e ++ tail /\ denote_elem F e v.

Lemma itr_den_inv : forall F size it vs, itr_den F size it vs ->
  (vs = [] /\ idx it = size) \/
  (exists v vs' p it',
     vs = v :: vs' /\ idx it < size /\ head_fin it /\
     itr_get F it = Some p /\ points_to F p v /\
     itr_next it = Some it' /\ itr_den F size it' vs').
Proof.
  intros F size it vs H. destruct H as [a junk vs i Hd Hsz | n k e v rest junk vs i Hk He Hr Hsz
                                       | n hd k dt dv st sv es rest junk vs i Hhd Hk Hes Hr Hsz].
  - destruct Hd as [| e v rest vs He Hr | n e v rest vs Hn He Hr | n hd dt dv st sv es rest vs Hhd Hn Hes Hr].
    + left. split; auto. cbn in *. rewrite Zlength_nil in Hsz. lia.
    + right. pose proof (elem_len _ _ _ He) as Hel. pose proof (Zlength_nonneg' rest) as Hrl.
      rewrite Zlength_app' in Hsz.
      exists v, vs, (e ++ rest ++ junk), (mk_itr (rest ++ junk) (i + Zlength e) 0).
      rewrite <- app_assoc.
      repeat split; auto.
      * cbn. lia.
      * destruct (elem_head _ _ _ He) as (s & e' & -> & Hs).
        exists s, (e' ++ rest ++ junk). split; auto. intros; contradiction.
      * apply (get_elem true F e v). exact He.
      * exists e, (rest ++ junk). split; auto.
      * unfold itr_next. rewrite (next_range_elem F e v) by exact He.
        apply (next_plain_elem F e v). exact He.
      * apply ID_at; auto; try lia.
    + right.
      assert (Hsz' : i + 1 + Zlength e + Zlength rest = size).
      { rewrite Zlength_cons, Zlength_app' in Hsz. lia. }
      destruct (step_rep true F size n 0 e v rest junk vs i ltac:(lia) He Hr Hsz')
        as (vs' & it' & Hrep & Hlt & Hfin & Hget & Hnext & Hden).
      rewrite Z.sub_0_r in Hrep.
      exists v, vs', (e ++ rest ++ junk), it'.
      cbn [app]. rewrite <- app_assoc.
      repeat split; auto. exists e, (rest ++ junk). split; auto.
    + right.
      assert (Hsz' : i + 3 + Zlength rest = size).
      { rewrite !Zlength_cons in Hsz. lia. }
      assert (Hes' : range_from F dt dv st sv 0 (Z.to_nat (n - 0)) = Some es)
        by (rewrite Z.sub_0_r; exact Hes).
      destruct (step_range true F size n hd 0 dt dv st sv es rest junk vs i Hhd ltac:(lia) Hes' Hr Hsz')
        as (t & v0 & vs' & it' & Heq & Hok & Hlt & Hfin & Hget & Hnext & Hden).
      exists (Val t v0), vs', [SV t v0], it'.
      cbn [app].
      repeat split; auto. exists [SV t v0], []. split; auto. constructor. exact Hok.
  - right.
    destruct (step_rep true F size n k e v rest junk vs i Hk He Hr Hsz)
      as (vs' & it' & Hrep & Hlt & Hfin & Hget & Hnext & Hden).
    exists v, vs', (e ++ rest ++ junk), it'.
    repeat split; auto. exists e, (rest ++ junk). split; auto.
  - right.
    destruct (step_range true F size n hd k dt dv st sv es rest junk vs i Hhd Hk Hes Hr Hsz)
      as (t & v0 & vs' & it' & Heq & Hok & Hlt & Hfin & Hget & Hnext & Hden).
    exists (Val t v0), vs', [SV t v0], it'.
    repeat split; auto. exists [SV t v0], []. split; auto. constructor. exact Hok.
Qed.

Lemma itr_den_init : forall F a vs junk,
  denote F a vs -> itr_den F (Zlength a) (itr_init (a ++ junk)) vs.
Proof. intros. unfold itr_init. apply ID_at; auto. Qed.
