(* C16 - the float arithmetic the extracted model runs with: Flocq's
   binary32/binary64 (round to nearest even) on bit patterns.  Only the
   correspondence run uses this instance; no theorem depends on it (they are
   stated for every [fops]).  NaN payloads are whatever Flocq's b32_plus /
   b32_mult choose; the comparison script canonicalises NaNs.  No proofs. *)
From Coq Require Import ZArith.
From Flocq Require Import IEEE754.BinarySingleNaN IEEE754.Binary IEEE754.Bits.
From RtoscV Require Import ArgVal.AvModel.

Definition fl32_of_int (n : Z) : Z :=
  bits_of_b32 (binary_normalize 24 128 eq_refl eq_refl mode_NE n 0 false).
Definition fl32_mul (a b : Z) : Z := bits_of_b32 (b32_mult mode_NE (b32_of_bits a) (b32_of_bits b)).
Definition fl32_add (a b : Z) : Z := bits_of_b32 (b32_plus mode_NE (b32_of_bits a) (b32_of_bits b)).
Definition fl64_of_int (n : Z) : Z :=
  bits_of_b64 (binary_normalize 53 1024 eq_refl eq_refl mode_NE n 0 false).
Definition fl64_mul (a b : Z) : Z := bits_of_b64 (b64_mult mode_NE (b64_of_bits a) (b64_of_bits b)).
Definition fl64_add (a b : Z) : Z := bits_of_b64 (b64_plus mode_NE (b64_of_bits a) (b64_of_bits b)).

Definition flocq_ops : fops :=
  {| f32_of_int := fl32_of_int; f32_mul := fl32_mul; f32_add := fl32_add;
     f64_of_int := fl64_of_int; f64_mul := fl64_mul; f64_add := fl64_add |}.

(* the entry points the driver calls *)
Definition m_eq := vals_eq flocq_ops.
Definition m_cmp := vals_cmp flocq_ops.
Definition m_iterate := iterate flocq_ops.
Definition m_avmessage := avmessage flocq_ops.
