(* C16 - the functions as they were before the "fix:" commits, and the
   witnesses that refute the property for them.  Each witness was replayed on
   the real code of the pinned tree (notes/C16.md, corpus/C16/).  The model
   (AvModel.v) is parameterised at exactly the places the fixes touched. *)
From Coq Require Import List ZArith Bool.
From RtoscV Require Import ArgVal.AvModel ArgVal.AvSpec ArgVal.AvCmpProofs.
Import ListNotations.
Local Open Scope Z_scope.

(* any float arithmetic will do: the witnesses contain no float range *)
Definition F0 : fops :=
  {| f32_of_int := fun _ => 0; f32_mul := fun _ _ => 0; f32_add := fun _ _ => 0;
     f64_of_int := fun _ => 0; f64_mul := fun _ _ => 0; f64_add := fun _ _ => 0 |}.

(* ---- D14: "lhs is a boolean array and the rhs type is non-zero" ---------------- *)
Definition arr_rule_D14 : arr_rule_t := fun lt rt =>
  if negb (lt =? rt) && negb ((lt =? 84) && negb (rt =? 0)) && negb ((lt =? 70) && negb (rt =? 0))
  then Some (if lt >? rt then 1 else -1) else None.

Definition cmp_D14 (a b : list slot) :=
  vals_cmp_gen true arr_rule_D14 blob_tail_fixed F0 (fuel_of a) a b (Zlength a) (Zlength b).

(* empty 'T' array against empty 'i' array: 0 one way, 1 the other, eq says different;
   [true false] against [nil]: 1 both ways *)
Theorem D14_antisym_refuted :
  exists a b va vb, denote F0 a va /\ denote F0 b vb /\ all_nonan va /\ all_nonan vb /\
    cmp_D14 a b = Some 0 /\ cmp_D14 b a = Some 1 /\
    vals_eq F0 a b (Zlength a) (Zlength b) = Some false.
Proof.
  exists [SArr 84 0], [SArr 105 0], [Arr 84 []], [Arr 105 []].
  split; [apply (den_arr F0 84 [] [] [] []); constructor|].
  split; [apply (den_arr F0 105 [] [] [] []); constructor|].
  repeat split; vm_compute; reflexivity.
Qed.

Theorem D14_antisym_refuted_nonempty :
  exists a b, cmp_D14 a b = Some 1 /\ cmp_D14 b a = Some 1.
Proof.
  exists [SArr 70 2; SV 84 VNone; SV 70 VNone], [SArr 78 1; SV 78 VNone].
  split; vm_compute; reflexivity.
Qed.

(* ---- D15: the next byte of the longer blob as result ---------------------------- *)
Definition blob_tail_D15 : blob_tail_t := fun longer_left ld rd minlen =>
  if longer_left
  then match nth_error ld (Z.to_nat minlen) with Some b => Some b | None => None end
  else match nth_error rd (Z.to_nat minlen) with Some b => Some (- b) | None => None end.

Definition cmp_D15 (a b : list slot) :=
  vals_cmp_gen true arr_rule_fixed blob_tail_D15 F0 (fuel_of a) a b (Zlength a) (Zlength b).

(* blob 01 02 against 01 02 00: cmp = 0 both ways, eq = false *)
Theorem D15_eq_iff_cmp0_refuted :
  exists a b va vb, denote F0 a va /\ denote F0 b vb /\ all_nonan va /\ all_nonan vb /\
    cmp_D15 a b = Some 0 /\ cmp_D15 b a = Some 0 /\
    vals_eq F0 a b (Zlength a) (Zlength b) = Some false.
Proof.
  exists [SV 98 (VB 2 [1; 2])], [SV 98 (VB 3 [1; 2; 0])],
         [Val 98 (VB 2 [1; 2])], [Val 98 (VB 3 [1; 2; 0])].
  split; [apply (single_den F0 98 (VB 2 [1; 2])); apply (ok_b [1; 2])|].
  split; [apply (single_den F0 98 (VB 3 [1; 2; 0])); apply (ok_b [1; 2; 0])|].
  repeat split; vm_compute; reflexivity.
Qed.

(* ---- D22: boolean arrays compared by elements, all other pairs by the type
        character, and 'I' 'N' 'S' lie between 'F' and 'T' (the code after the
        D14 fix, before "fix: array comparison was not transitive ...") ------------- *)
Definition arr_rule_D22 : arr_rule_t := fun lt rt =>
  if arr_types_differ lt rt then Some (if lt >? rt then 1 else -1) else None.

Definition cmp_D22 (a b : list slot) :=
  vals_cmp_gen true arr_rule_D22 blob_tail_fixed F0 (fuel_of a) a b (Zlength a) (Zlength b).

(* [true false] (type 'F') < [nil] < [false true] (type 'T') but
   [true false] > [false true] *)
Theorem D22_trans_refuted :
  exists a b c va vb vc,
    denote F0 a va /\ denote F0 b vb /\ denote F0 c vc /\
    all_nonan va /\ all_nonan vb /\ all_nonan vc /\
    cmp_D22 a b = Some (-1) /\ cmp_D22 b c = Some (-1) /\ cmp_D22 a c = Some 1.
Proof.
  exists [SArr 70 2; SV 84 VNone; SV 70 VNone], [SArr 78 1; SV 78 VNone],
         [SArr 84 2; SV 70 VNone; SV 84 VNone],
         [Arr 70 [Val 84 VNone; Val 70 VNone]], [Arr 78 [Val 78 VNone]],
         [Arr 84 [Val 70 VNone; Val 84 VNone]].
  split; [apply (den_arr F0 70 [SV 84 VNone; SV 70 VNone] _ [] []);
          [repeat (apply den_val; [constructor|]); constructor | constructor]|].
  split; [apply (den_arr F0 78 [SV 78 VNone] _ [] []);
          [repeat (apply den_val; [constructor|]); constructor | constructor]|].
  split; [apply (den_arr F0 84 [SV 70 VNone; SV 84 VNone] _ [] []);
          [repeat (apply den_val; [constructor|]); constructor | constructor]|].
  repeat split; vm_compute; reflexivity.
Qed.

(* with empty arrays: T[] == F[], F[] < N[], N[] < T[] *)
Theorem D22_trans_refuted_empty :
  cmp_D22 [SArr 84 0] [SArr 70 0] = Some 0 /\ cmp_D22 [SArr 70 0] [SArr 78 0] = Some (-1) /\
  cmp_D22 [SArr 84 0] [SArr 78 0] = Some 1.
Proof. repeat split; vm_compute; reflexivity. Qed.

(* ---- D23: rtosc_arg_val_itr_get copied only the slot behind a delta-less range
        header; for "N x [array]" the comparison then reads the elements behind
        the caller's one-slot buffer (None = out-of-bounds read) ---------------------- *)
Definition cmp_D23 (a b : list slot) :=
  vals_cmp_gen false arr_rule_fixed blob_tail_fixed F0 (fuel_of a) a b (Zlength a) (Zlength b).

Theorem D23_compress_refuted :
  exists a a' v, denote F0 a v /\ denote F0 a' v /\ all_nonan v /\
    cmp_D23 a' a' = Some 0 /\ cmp_D23 a a' = None /\
    iterate_from false F0 (fuel_of a) (itr_init a) (Zlength a) = None /\
    vals_cmp F0 a a' (Zlength a) (Zlength a') = Some 0.
Proof.
  exists [SRep 2 0; SArr 105 1; SV 105 (VI 1)],
         [SArr 105 1; SV 105 (VI 1); SArr 105 1; SV 105 (VI 1)],
         [Arr 105 [Val 105 (VI 1)]; Arr 105 [Val 105 (VI 1)]].
  split.
  { apply (D_rep F0 2 [SArr 105 1; SV 105 (VI 1)] (Arr 105 [Val 105 (VI 1)]) [] []);
      [discriminate | | constructor].
    apply (DE_arr F0 105 [SV 105 (VI 1)] [Val 105 (VI 1)]). apply den_val; constructor. }
  split.
  { apply (den_arr F0 105 [SV 105 (VI 1)] [Val 105 (VI 1)]); [apply den_val; constructor|].
    apply (den_arr F0 105 [SV 105 (VI 1)] [Val 105 (VI 1)] [] []); [apply den_val; constructor|constructor]. }
  repeat split; vm_compute; reflexivity.
Qed.

(* ---- D24: rtosc_avmessage stored one rtosc_arg_t per value, rtosc_amessage
        consumes one per value with payload: behind a T/F/N/I (or an array) every
        payload comes from the wrong entry.  The model of the old code reports
        None when a payload would be taken from a value that has none (the C
        code sends whatever its union holds: 1 for (true, 5)). ------------------------- *)
Theorem D24_message_refuted :
  exists a v, denote F0 a v /\
    avmessage_gen false F0 None [47; 97] a (Zlength a) = None /\
    message_enc [47; 97] v = Some [47; 97; 0; 0; 44; 84; 105; 0; 0; 0; 0; 5] /\
    avmessage F0 None [47; 97] a (Zlength a) = Some (12, None).
Proof.
  exists [SV 84 VNone; SV 105 (VI 5)], [Val 84 VNone; Val 105 (VI 5)].
  split; [repeat (apply den_val; [constructor|]); constructor|].
  repeat split; vm_compute; reflexivity.
Qed.

(* ---- not a defect, the reason for an exclusion: an endless range ("N = 0")
        equals every list it is a prefix pattern of, so equality cannot be
        transitive when endless ranges are admitted ------------------------------------ *)
Theorem endless_ranges_not_transitive :
  let inf := [SRep 0 0; SV 105 (VI 1)] in
  let a := [SV 105 (VI 1)] in
  let b := [SV 105 (VI 1); SV 105 (VI 1)] in
  vals_eq F0 a inf 1 2 = Some true /\ vals_eq F0 inf b 2 2 = Some true /\
  vals_eq F0 a b 1 2 = Some false.
Proof. repeat split; vm_compute; reflexivity. Qed.

(* the same inside arrays: [1 ...] equals [1] and [1 1] *)
Theorem endless_ranges_not_transitive_in_arrays :
  let inf := [SArr 105 3; SV 105 (VI 1); SRep 0 0; SV 105 (VI 1)] in
  let a := [SArr 105 1; SV 105 (VI 1)] in
  let b := [SArr 105 2; SV 105 (VI 1); SV 105 (VI 1)] in
  vals_eq F0 a inf 2 4 = Some true /\ vals_eq F0 inf b 4 3 = Some true /\
  vals_eq F0 a b 2 3 = Some false.
Proof. repeat split; vm_compute; reflexivity. Qed.

(* NaN: cmp says "smaller" in both directions *)
Theorem nan_not_antisymmetric :
  vals_cmp F0 [SV 102 (VF 2143289344)] [SV 102 (VF 0)] 1 1 = Some (-1) /\
  vals_cmp F0 [SV 102 (VF 0)] [SV 102 (VF 2143289344)] 1 1 = Some (-1).
Proof. split; vm_compute; reflexivity. Qed.

(* The laws without the side condition [all_nonan] are false of the CURRENT
   functions (and of the code: replayed, corpus/C16/nan.txt): a list holding a
   NaN is not equal to itself (cmp -1, eq false), it is "smaller" than [0.0] in
   both directions, 0.0 < NaN < 0.0 is not transitive, and "3 x NaN" does not
   compare equal to NaN NaN NaN.  Finding class nan-in-list. *)
Definition nanf : list slot := [SV 102 (VF 2143289344)].      (* f:7fc00000 *)
Definition zerof : list slot := [SV 102 (VF 0)].

Theorem nan_refuted : forall F,
  exists a b a3 a3' va vb v3,
    denote F a va /\ denote F b vb /\ denote F a3 v3 /\ denote F a3' v3 /\
    all_nonan vb /\ ~ all_nonan va /\
    (* not reflexive *)
    vals_cmp F a a (Zlength a) (Zlength a) = Some (-1) /\
    vals_eq F a a (Zlength a) (Zlength a) = Some false /\
    (* not antisymmetric *)
    vals_cmp F a b (Zlength a) (Zlength b) = Some (-1) /\
    vals_cmp F b a (Zlength b) (Zlength a) = Some (-1) /\
    (* not transitive: b < a, a < b, but b = b *)
    vals_cmp F b b (Zlength b) (Zlength b) = Some 0 /\
    (* not blind to compression: the two ways of writing NaN NaN NaN differ *)
    vals_cmp F a3 a3' (Zlength a3) (Zlength a3') = Some (-1) /\
    vals_eq F a3 a3' (Zlength a3) (Zlength a3') = Some false.
Proof.
  intro F.
  exists nanf, zerof, (SRep 3 0 :: nanf), (nanf ++ nanf ++ nanf),
         [Val 102 (VF 2143289344)], [Val 102 (VF 0)], (repeat (Val 102 (VF 2143289344)) 3).
  split; [apply den_val; constructor|].
  split; [apply den_val; constructor|].
  split; [apply (D_rep F 3 nanf (Val 102 (VF 2143289344)) [] []); [discriminate|repeat constructor|constructor]|].
  split; [repeat (apply den_val; [constructor|]); constructor|].
  split; [reflexivity|].
  split; [intro H; discriminate H|].
  repeat split; vm_compute; reflexivity.
Qed.

(* a NaN inside an array, and a double NaN: same failure *)
Theorem nan_refuted_array_double : forall F,
  let a := [SArr 102 1; SV 102 (VF 4290772993)] in
  let d := [SV 100 (VD 9221120237041090560)] in
  vals_cmp F a a 2 2 = Some (-1) /\ vals_eq F a a 2 2 = Some false /\
  vals_cmp F d d 1 1 = Some (-1) /\ vals_eq F d d 1 1 = Some false.
Proof. intro F. repeat split; vm_compute; reflexivity. Qed.
