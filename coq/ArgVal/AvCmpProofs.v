(* C16 - proofs about ArgVal/AvModel.v *)
From Coq Require Import List ZArith Bool Lia.
From RtoscV Require Import ArgVal.AvModel.
Import ListNotations.
Local Open Scope Z_scope.

(* ---- range_arg = start + i*delta ----------------------------------------- *)
Lemma wrap32_add_idem : forall s x, wrap32 (s + wrap32 x) = wrap32 (s + x).
Proof.
  intros. unfold wrap32.
  replace (s + ((x + 2 ^ 31) mod 2 ^ 32 - 2 ^ 31) + 2 ^ 31) with (s + (x + 2 ^ 31) mod 2 ^ 32) by lia.
  rewrite Zplus_mod_idemp_r. f_equal. f_equal. lia.
Qed.

Lemma wrap64_add_idem : forall s x, wrap64 (s + wrap64 x) = wrap64 (s + x).
Proof.
  intros. unfold wrap64.
  replace (s + ((x + 2 ^ 63) mod 2 ^ 64 - 2 ^ 63) + 2 ^ 63) with (s + (x + 2 ^ 63) mod 2 ^ 64) by lia.
  rewrite Zplus_mod_idemp_r. f_equal. f_equal. lia.
Qed.

Lemma range_arg_int32 : forall F t d s i, t = 105 \/ t = 99 ->
  range_arg F (SV t (VI d)) (SV t (VI s)) i = Some (t, VI (wrap32 (s + i * d))).
Proof.
  intros F t d s i [-> | ->]; cbn; now rewrite wrap32_add_idem.
Qed.

Lemma range_arg_int64 : forall F d s i,
  range_arg F (SV 104 (VH d)) (SV 104 (VH s)) i = Some (104, VH (wrap64 (s + i * d))).
Proof. intros; cbn; now rewrite wrap64_add_idem. Qed.
