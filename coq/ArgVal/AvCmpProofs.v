(* C16 - rtosc_arg_vals_eq / rtosc_arg_vals_cmp / iteration / rtosc_avmessage of
   the model compute, on every well-formed list, the Spec's function of the
   denotation; the order laws and compression invariance follow. *)
From Coq Require Import List ZArith Bool Lia.
From RtoscV Require Import ArgVal.AvModel ArgVal.AvSpec ArgVal.AvOrder ArgVal.AvSim ArgVal.AvSingle.
Import ListNotations.
Local Open Scope Z_scope.
Local Arguments Zlength : simpl never.

(* ---- arrays: the type rule is the comparison of classes --------------------------- *)
Lemma arr_differ_class : forall lt rt,
  arr_types_differ lt rt = negb (arr_class lt =? arr_class rt).
Proof.
  intros. unfold arr_types_differ, arr_class.
  destruct (Z.eqb_spec lt 84); destruct (Z.eqb_spec rt 84);
    destruct (Z.eqb_spec lt 70); destruct (Z.eqb_spec rt 70);
    destruct (Z.eqb_spec lt rt); subst; cbn [negb andb orb]; try lia; try reflexivity;
    repeat match goal with |- context [?a =? ?b] => destruct (Z.eqb_spec a b) end;
    cbn [negb andb orb]; try reflexivity; try lia.
Qed.

Lemma abs_arr : forall t es t' es',
  cmpa (abs (Arr t es)) (abs (Arr t' es')) =
  match arr_class t ?= arr_class t' with Eq => cmp_values es es' | o => o end.
Proof.
  intros. cbn [abs]. rewrite cmpa_node, lex_same_head, lex_single.
  destruct (arr_class t ?= arr_class t'); reflexivity.
Qed.

Lemma cmp_single_sim : forall F rec lp rp v w,
  points_to F lp v -> points_to F rp w -> nonan v = true -> nonan w = true ->
  (forall t es t' es' body body' tl tl',
      v = Arr t es -> w = Arr t' es' -> denote F body es -> denote F body' es' ->
      rec (body ++ tl) (body' ++ tl') (Zlength body) (Zlength body') =
      Some (z_of_cmp (cmp_values es es'))) ->
  cmp_single arr_rule_fixed blob_tail_fixed rec lp rp = Some (z_of_cmp (cmpa (abs v) (abs w))).
Proof.
  intros F rec lp rp v w (e & tl & -> & He) (e' & tl' & -> & He') Hn Hn' Hrec.
  destruct He as [t sv Hok | t body es Hd]; destruct He' as [t' sv' Hok' | t' body' es' Hd'].
  - cbn [app abs]. rewrite cmpa_leaf. apply cmp_single_val; auto.
  - cbn [abs]. rewrite cmpa_node. destruct Hok; reflexivity.
  - cbn [abs]. rewrite cmpa_node. destruct Hok'; reflexivity.
  - rewrite abs_arr. cbn [app]. unfold cmp_single. cbn [slot_type].
    change (97 =? 97) with true. cbv iota.
    change ((97 =? 105) || (97 =? 99) || (97 =? 114)) with false.
    change ((97 =? 73) || (97 =? 84) || (97 =? 70) || (97 =? 78)) with false.
    change (97 =? 102) with false. change (97 =? 100) with false. change (97 =? 104) with false.
    change (97 =? 116) with false. change (97 =? 109) with false.
    change ((97 =? 115) || (97 =? 83)) with false. change (97 =? 98) with false.
    cbv iota. unfold arr_rule_fixed. rewrite arr_differ_class.
    destruct (Z.compare_spec (arr_class t) (arr_class t')) as [H|H|H].
    + rewrite H, Z.eqb_refl. cbn [negb]. eapply Hrec; eauto.
    + replace (arr_class t =? arr_class t') with false by (symmetry; apply Z.eqb_neq; lia).
      cbn [negb]. replace (arr_class t >? arr_class t') with false
        by (symmetry; rewrite Z.gtb_ltb; apply Z.ltb_ge; lia). reflexivity.
    + replace (arr_class t =? arr_class t') with false by (symmetry; apply Z.eqb_neq; lia).
      cbn [negb]. replace (arr_class t >? arr_class t') with true
        by (symmetry; rewrite Z.gtb_ltb; apply Z.ltb_lt; lia). reflexivity.
Qed.

Lemma eq_single_sim : forall F rec lp rp v w,
  points_to F lp v -> points_to F rp w -> nonan v = true -> nonan w = true ->
  (forall t es t' es' body body' tl tl',
      v = Arr t es -> w = Arr t' es' -> denote F body es -> denote F body' es' ->
      rec (body ++ tl) (body' ++ tl') (Zlength body) (Zlength body') =
      Some (is_eq (cmp_values es es'))) ->
  eq_single rec lp rp = Some (is_eq (cmpa (abs v) (abs w))).
Proof.
  intros F rec lp rp v w (e & tl & -> & He) (e' & tl' & -> & He') Hn Hn' Hrec.
  destruct He as [t sv Hok | t body es Hd]; destruct He' as [t' sv' Hok' | t' body' es' Hd'].
  - cbn [app abs]. rewrite cmpa_leaf. apply eq_single_val; auto.
  - cbn [abs]. rewrite cmpa_node. destruct Hok; reflexivity.
  - cbn [abs]. rewrite cmpa_node. destruct Hok'; reflexivity.
  - rewrite abs_arr. cbn [app]. unfold eq_single. cbn [slot_type].
    change (97 =? 97) with true. cbv iota.
    change ((97 =? 105) || (97 =? 99) || (97 =? 114)) with false.
    change ((97 =? 73) || (97 =? 84) || (97 =? 70) || (97 =? 78)) with false.
    change (97 =? 102) with false. change (97 =? 100) with false. change (97 =? 104) with false.
    change (97 =? 116) with false. change (97 =? 109) with false.
    change ((97 =? 115) || (97 =? 83)) with false. change (97 =? 98) with false.
    cbv iota. rewrite arr_differ_class.
    destruct (Z.compare_spec (arr_class t) (arr_class t')) as [H|H|H].
    + rewrite H, Z.eqb_refl. cbn [negb]. eapply Hrec; eauto.
    + replace (arr_class t =? arr_class t') with false by (symmetry; apply Z.eqb_neq; lia).
      reflexivity.
    + replace (arr_class t =? arr_class t') with false by (symmetry; apply Z.eqb_neq; lia).
      reflexivity.
Qed.

(* ---- loop condition and the test after the loop ------------------------------------ *)
Lemma head_fin_type : forall it, head_fin it ->
  exists s rest, av it = s :: rest /\
    ((slot_type s =? 45) = false \/ exists n hd, s = SRep n hd /\ (n =? 0) = false).
Proof.
  intros it (s & rest & Hav & H). exists s, rest. split; auto.
  destruct (Z.eqb_spec (slot_type s) 45) as [E|E]; auto.
  right. destruct (H E) as (n & hd & -> & Hn). exists n, hd. split; auto. now apply Z.eqb_neq.
Qed.

Lemma has_next_both : forall l r ls rs,
  idx l < ls -> idx r < rs -> head_fin l -> head_fin r -> has_next l r ls rs = Some true.
Proof.
  intros l r ls rs Hl Hr Fl Fr. unfold has_next.
  replace (idx l <? ls) with true by (symmetry; apply Z.ltb_lt; lia).
  replace (idx r <? rs) with true by (symmetry; apply Z.ltb_lt; lia). cbn [andb].
  destruct (head_fin_type _ Fl) as (sl & restl & -> & [El | (nl & hl & -> & Hnl)]).
  - rewrite El. reflexivity.
  - cbn [slot_type]. change (45 =? 45) with true. cbn [negb].
    destruct (head_fin_type _ Fr) as (sr & restr & -> & [Er | (nr & hr & -> & Hnr)]).
    + rewrite Er. reflexivity.
    + cbn [slot_type]. change (45 =? 45) with true. cbn [negb]. rewrite Hnl. reflexivity.
Qed.

Lemma abort_side_more : forall it sz, idx it < sz -> head_fin it -> abort_side it sz = Some false.
Proof.
  intros it sz Hlt Hf. unfold abort_side.
  replace (idx it =? sz) with false by (symmetry; apply Z.eqb_neq; lia).
  destruct (head_fin_type _ Hf) as (s & rest & -> & [E | (n & hd & -> & Hn)]).
  - rewrite E. reflexivity.
  - cbn [slot_type]. change (45 =? 45) with true. cbv iota. now rewrite Hn.
Qed.

Lemma abort_side_done : forall it, abort_side it (idx it) = Some true.
Proof. intros. unfold abort_side. now rewrite Z.eqb_refl. Qed.

(* ---- fuel ---------------------------------------------------------------------------- *)
Lemma need_v_arr : forall t es, need_v (Arr t es) = S (need es).
Proof.
  intros. reflexivity.
Qed.

(* ---- rtosc_arg_vals_cmp -------------------------------------------------------------- *)
Lemma cmp_loop_sim : forall F fuel li ri ls rs lv rv rval,
  itr_den F ls li lv -> itr_den F rs ri rv ->
  forallb nonan lv = true -> forallb nonan rv = true ->
  (need lv < fuel)%nat ->
  cmp_loop true arr_rule_fixed blob_tail_fixed F fuel li ri ls rs rval =
  Some (if rval =? 0 then z_of_cmp (cmp_values lv rv) else rval).
Proof.
  intros F fuel. induction fuel as [|f IH]; intros li ri ls rs lv rv rval Hl Hr Nl Nr Hfuel; [lia|].
  cbn [cmp_loop].
  destruct (itr_den_inv _ _ _ _ Hl) as [[-> Hli] | (v & lv' & lp & li' & -> & Hlt & Hfl & Hgl & Hpl & Hnl & Hdl)].
  - (* left list exhausted *)
    assert (Hhn : has_next li ri ls rs = Some false).
    { unfold has_next. replace (idx li <? ls) with false by (symmetry; apply Z.ltb_ge; lia). reflexivity. }
    rewrite Hhn. cbn [andb]. destruct (rval =? 0) eqn:Erv; [|reflexivity].
    unfold eq_after_abort. rewrite <- Hli, abort_side_done.
    destruct (itr_den_inv _ _ _ _ Hr) as [[-> Hri] | (w & rv' & rp & ri' & -> & Hrt & Hfr & _)].
    + rewrite <- Hri, abort_side_done. reflexivity.
    + rewrite (abort_side_more ri rs) by auto.
      replace (idx li - idx li >? rs - idx ri) with false
        by (symmetry; rewrite Z.gtb_ltb; apply Z.ltb_ge; lia).
      reflexivity.
  - destruct (itr_den_inv _ _ _ _ Hr) as [[-> Hri] | (w & rv' & rp & ri' & -> & Hrt & Hfr & Hgr & Hpr & Hnr & Hdr)].
    + (* right list exhausted, left not *)
      assert (Hhn : has_next li ri ls rs = Some false).
      { unfold has_next. replace (idx ri <? rs) with false by (symmetry; apply Z.ltb_ge; lia).
        now rewrite andb_false_r. }
      rewrite Hhn. cbn [andb]. destruct (rval =? 0) eqn:Erv; [|reflexivity].
      unfold eq_after_abort. rewrite (abort_side_more li ls) by auto.
      replace (ls - idx li >? rs - idx ri) with true
        by (symmetry; rewrite Z.gtb_ltb; apply Z.ltb_lt; lia).
      reflexivity.
    + rewrite (has_next_both li ri ls rs) by auto. cbn [andb].
      cbn [need] in Hfuel.
      assert (Hfl' : (need lv' < f)%nat) by lia.
      cbn [forallb] in Nl, Nr. apply andb_true_iff in Nl. apply andb_true_iff in Nr.
      destruct Nl as [Nv Nl]. destruct Nr as [Nw Nr].
      destruct (rval =? 0) eqn:Erv.
      * unfold itr_get in Hgl, Hgr. rewrite Hgl, Hgr.
        rewrite (cmp_single_sim F _ lp rp v w Hpl Hpr Nv Nw).
        -- rewrite Hnl, Hnr. rewrite (IH li' ri' ls rs lv' rv' _ Hdl Hdr Nl Nr Hfl').
           unfold cmp_values. cbn [map lex]. fold (cmp_values lv' rv').
           destruct (cmpa (abs v) (abs w)); reflexivity.
        -- intros t es t' es' body body' tl tl' -> -> Hb Hb'.
           rewrite (IH (itr_init (body ++ tl)) (itr_init (body' ++ tl')) (Zlength body) (Zlength body') es es' 0).
           ++ reflexivity.
           ++ now apply itr_den_init.
           ++ now apply itr_den_init.
           ++ exact Nv.
           ++ exact Nw.
           ++ rewrite need_v_arr in Hfuel. lia.
      * (* rval already decided: one more evaluation of the condition, then return it *)
        reflexivity.
Qed.

(* ---- rtosc_arg_vals_eq ----------------------------------------------------------------- *)
Lemma eq_loop_sim : forall F fuel li ri ls rs lv rv rval,
  itr_den F ls li lv -> itr_den F rs ri rv ->
  forallb nonan lv = true -> forallb nonan rv = true ->
  (need lv < fuel)%nat ->
  eq_loop true F fuel li ri ls rs rval = Some (rval && is_eq (cmp_values lv rv)).
Proof.
  intros F fuel. induction fuel as [|f IH]; intros li ri ls rs lv rv rval Hl Hr Nl Nr Hfuel; [lia|].
  cbn [eq_loop].
  destruct (itr_den_inv _ _ _ _ Hl) as [[-> Hli] | (v & lv' & lp & li' & -> & Hlt & Hfl & Hgl & Hpl & Hnl & Hdl)].
  - assert (Hhn : has_next li ri ls rs = Some false).
    { unfold has_next. replace (idx li <? ls) with false by (symmetry; apply Z.ltb_ge; lia). reflexivity. }
    rewrite Hhn. cbn [andb]. destruct rval; [|reflexivity].
    unfold eq_after_abort. rewrite <- Hli, abort_side_done.
    destruct (itr_den_inv _ _ _ _ Hr) as [[-> Hri] | (w & rv' & rp & ri' & -> & Hrt & Hfr & _)].
    + rewrite <- Hri, abort_side_done. reflexivity.
    + rewrite (abort_side_more ri rs) by auto. reflexivity.
  - destruct (itr_den_inv _ _ _ _ Hr) as [[-> Hri] | (w & rv' & rp & ri' & -> & Hrt & Hfr & Hgr & Hpr & Hnr & Hdr)].
    + assert (Hhn : has_next li ri ls rs = Some false).
      { unfold has_next. replace (idx ri <? rs) with false by (symmetry; apply Z.ltb_ge; lia).
        now rewrite andb_false_r. }
      rewrite Hhn. cbn [andb]. destruct rval; [|reflexivity].
      unfold eq_after_abort. rewrite (abort_side_more li ls) by auto. reflexivity.
    + rewrite (has_next_both li ri ls rs) by auto. cbn [andb].
      cbn [need] in Hfuel.
      assert (Hfl' : (need lv' < f)%nat) by lia.
      cbn [forallb] in Nl, Nr. apply andb_true_iff in Nl. apply andb_true_iff in Nr.
      destruct Nl as [Nv Nl]. destruct Nr as [Nw Nr].
      destruct rval.
      * unfold itr_get in Hgl, Hgr. rewrite Hgl, Hgr.
        rewrite (eq_single_sim F _ lp rp v w Hpl Hpr Nv Nw).
        -- rewrite Hnl, Hnr. rewrite (IH li' ri' ls rs lv' rv' _ Hdl Hdr Nl Nr Hfl').
           unfold cmp_values. cbn [map lex]. fold (cmp_values lv' rv').
           destruct (cmpa (abs v) (abs w)); reflexivity.
        -- intros t es t' es' body body' tl tl' -> -> Hb Hb'.
           rewrite (IH (itr_init (body ++ tl)) (itr_init (body' ++ tl')) (Zlength body) (Zlength body') es es' true).
           ++ reflexivity.
           ++ now apply itr_den_init.
           ++ now apply itr_den_init.
           ++ exact Nv.
           ++ exact Nw.
           ++ rewrite need_v_arr in Hfuel. lia.
      * reflexivity.
Qed.
