(* C16 - rtosc_arg_vals_eq / rtosc_arg_vals_cmp / iteration / rtosc_avmessage of
   the model compute, on every well-formed list, the Spec's function of the
   denotation; the order laws and compression invariance follow. *)
From Coq Require Import List ZArith Bool Lia.
From RtoscV Require Osc.OscModel Osc.OscEncProofs.
From RtoscV Require Import ArgVal.AvModel ArgVal.AvSpec ArgVal.AvOrder ArgVal.AvSim ArgVal.AvSingle.
Import ListNotations.
Local Open Scope Z_scope.
Local Arguments Zlength : simpl never.

(* ---- arrays: the type rule is the comparison of classes --------------------------- *)
Lemma arr_differ_class : forall lt rt,
  arr_types_differ lt rt = negb (arr_class lt =? arr_class rt).
Proof.
  intros. unfold arr_types_differ, arr_class.
  destruct (Z.eqb_spec lt 84); destruct (Z.eqb_spec rt 84);
    destruct (Z.eqb_spec lt 70); destruct (Z.eqb_spec rt 70);
    destruct (Z.eqb_spec lt rt); subst; cbn [negb andb orb]; try lia; try reflexivity;
    repeat match goal with |- context [?a =? ?b] => destruct (Z.eqb_spec a b) end;
    cbn [negb andb orb]; try reflexivity; try lia.
Qed.

Lemma abs_arr : forall t es t' es',
  cmpa (abs (Arr t es)) (abs (Arr t' es')) =
  match arr_class t ?= arr_class t' with Eq => cmp_values es es' | o => o end.
Proof.
  intros. cbn [abs]. rewrite cmpa_node, lex_same_head, lex_single.
  destruct (arr_class t ?= arr_class t'); reflexivity.
Qed.

Lemma cmp_single_sim : forall F rec lp rp v w,
  points_to F lp v -> points_to F rp w -> nonan v = true -> nonan w = true ->
  (forall t es t' es' body body' tl tl',
      v = Arr t es -> w = Arr t' es' -> denote F body es -> denote F body' es' ->
      rec (body ++ tl) (body' ++ tl') (Zlength body) (Zlength body') =
      Some (z_of_cmp (cmp_values es es'))) ->
  cmp_single arr_rule_fixed blob_tail_fixed rec lp rp = Some (z_of_cmp (cmpa (abs v) (abs w))).
Proof.
  intros F rec lp rp v w (e & tl & -> & He) (e' & tl' & -> & He') Hn Hn' Hrec.
  destruct He as [t sv Hok | t body es Hd]; destruct He' as [t' sv' Hok' | t' body' es' Hd'].
  - cbn [app abs]. rewrite cmpa_leaf. apply cmp_single_val; auto.
  - cbn [abs]. rewrite cmpa_node. destruct Hok; reflexivity.
  - cbn [abs]. rewrite cmpa_node. destruct Hok'; reflexivity.
  - rewrite abs_arr. cbn [app]. unfold cmp_single. cbn [slot_type].
    change (97 =? 97) with true. cbv iota.
    change ((97 =? 105) || (97 =? 99) || (97 =? 114)) with false.
    change ((97 =? 73) || (97 =? 84) || (97 =? 70) || (97 =? 78)) with false.
    change (97 =? 102) with false. change (97 =? 100) with false. change (97 =? 104) with false.
    change (97 =? 116) with false. change (97 =? 109) with false.
    change ((97 =? 115) || (97 =? 83)) with false. change (97 =? 98) with false.
    cbv iota. unfold arr_rule_fixed. rewrite arr_differ_class.
    destruct (Z.compare_spec (arr_class t) (arr_class t')) as [H|H|H].
    + rewrite H, Z.eqb_refl. cbn [negb]. eapply Hrec; eauto.
    + replace (arr_class t =? arr_class t') with false by (symmetry; apply Z.eqb_neq; lia).
      cbn [negb]. replace (arr_class t >? arr_class t') with false
        by (symmetry; rewrite Z.gtb_ltb; apply Z.ltb_ge; lia). reflexivity.
    + replace (arr_class t =? arr_class t') with false by (symmetry; apply Z.eqb_neq; lia).
      cbn [negb]. replace (arr_class t >? arr_class t') with true
        by (symmetry; rewrite Z.gtb_ltb; apply Z.ltb_lt; lia). reflexivity.
Qed.

Lemma eq_single_sim : forall F rec lp rp v w,
  points_to F lp v -> points_to F rp w -> nonan v = true -> nonan w = true ->
  (forall t es t' es' body body' tl tl',
      v = Arr t es -> w = Arr t' es' -> denote F body es -> denote F body' es' ->
      rec (body ++ tl) (body' ++ tl') (Zlength body) (Zlength body') =
      Some (is_eq (cmp_values es es'))) ->
  eq_single rec lp rp = Some (is_eq (cmpa (abs v) (abs w))).
Proof.
  intros F rec lp rp v w (e & tl & -> & He) (e' & tl' & -> & He') Hn Hn' Hrec.
  destruct He as [t sv Hok | t body es Hd]; destruct He' as [t' sv' Hok' | t' body' es' Hd'].
  - cbn [app abs]. rewrite cmpa_leaf. apply eq_single_val; auto.
  - cbn [abs]. rewrite cmpa_node. destruct Hok; reflexivity.
  - cbn [abs]. rewrite cmpa_node. destruct Hok'; reflexivity.
  - rewrite abs_arr. cbn [app]. unfold eq_single. cbn [slot_type].
    change (97 =? 97) with true. cbv iota.
    change ((97 =? 105) || (97 =? 99) || (97 =? 114)) with false.
    change ((97 =? 73) || (97 =? 84) || (97 =? 70) || (97 =? 78)) with false.
    change (97 =? 102) with false. change (97 =? 100) with false. change (97 =? 104) with false.
    change (97 =? 116) with false. change (97 =? 109) with false.
    change ((97 =? 115) || (97 =? 83)) with false. change (97 =? 98) with false.
    cbv iota. rewrite arr_differ_class.
    destruct (Z.compare_spec (arr_class t) (arr_class t')) as [H|H|H].
    + rewrite H, Z.eqb_refl. cbn [negb]. eapply Hrec; eauto.
    + replace (arr_class t =? arr_class t') with false by (symmetry; apply Z.eqb_neq; lia).
      reflexivity.
    + replace (arr_class t =? arr_class t') with false by (symmetry; apply Z.eqb_neq; lia).
      reflexivity.
Qed.

(* ---- loop condition and the test after the loop ------------------------------------ *)
Lemma head_fin_type : forall it, head_fin it ->
  exists s rest, av it = s :: rest /\
    ((slot_type s =? 45) = false \/ exists n hd, s = SRep n hd /\ (n =? 0) = false).
Proof.
  intros it (s & rest & Hav & H). exists s, rest. split; auto.
  destruct (Z.eqb_spec (slot_type s) 45) as [E|E]; auto.
  right. destruct (H E) as (n & hd & -> & Hn). exists n, hd. split; auto. now apply Z.eqb_neq.
Qed.

Lemma has_next_both : forall l r ls rs,
  idx l < ls -> idx r < rs -> head_fin l -> head_fin r -> has_next l r ls rs = Some true.
Proof.
  intros l r ls rs Hl Hr Fl Fr. unfold has_next.
  replace (idx l <? ls) with true by (symmetry; apply Z.ltb_lt; lia).
  replace (idx r <? rs) with true by (symmetry; apply Z.ltb_lt; lia). cbn [andb].
  destruct (head_fin_type _ Fl) as (sl & restl & -> & [El | (nl & hl & -> & Hnl)]).
  - rewrite El. reflexivity.
  - cbn [slot_type]. change (45 =? 45) with true. cbn [negb].
    destruct (head_fin_type _ Fr) as (sr & restr & -> & [Er | (nr & hr & -> & Hnr)]).
    + rewrite Er. reflexivity.
    + cbn [slot_type]. change (45 =? 45) with true. cbn [negb]. rewrite Hnl. reflexivity.
Qed.

Lemma abort_side_more : forall it sz, idx it < sz -> head_fin it -> abort_side it sz = Some false.
Proof.
  intros it sz Hlt Hf. unfold abort_side.
  replace (idx it =? sz) with false by (symmetry; apply Z.eqb_neq; lia).
  destruct (head_fin_type _ Hf) as (s & rest & -> & [E | (n & hd & -> & Hn)]).
  - rewrite E. reflexivity.
  - cbn [slot_type]. change (45 =? 45) with true. cbv iota. now rewrite Hn.
Qed.

Lemma abort_side_done : forall it, abort_side it (idx it) = Some true.
Proof. intros. unfold abort_side. now rewrite Z.eqb_refl. Qed.

(* ---- fuel ---------------------------------------------------------------------------- *)
Lemma need_v_arr : forall t es, need_v (Arr t es) = S (need es).
Proof.
  intros. reflexivity.
Qed.

(* ---- rtosc_arg_vals_cmp -------------------------------------------------------------- *)
Lemma cmp_loop_sim : forall F fuel li ri ls rs lv rv rval,
  itr_den F ls li lv -> itr_den F rs ri rv ->
  forallb nonan lv = true -> forallb nonan rv = true ->
  (need lv < fuel)%nat ->
  cmp_loop true arr_rule_fixed blob_tail_fixed F fuel li ri ls rs rval =
  Some (if rval =? 0 then z_of_cmp (cmp_values lv rv) else rval).
Proof.
  intros F fuel. induction fuel as [|f IH]; intros li ri ls rs lv rv rval Hl Hr Nl Nr Hfuel; [lia|].
  cbn [cmp_loop].
  destruct (itr_den_inv _ _ _ _ Hl) as [[-> Hli] | (v & lv' & lp & li' & -> & Hlt & Hfl & Hgl & Hpl & Hnl & Hdl)].
  - (* left list exhausted *)
    assert (Hhn : has_next li ri ls rs = Some false).
    { unfold has_next. replace (idx li <? ls) with false by (symmetry; apply Z.ltb_ge; lia). reflexivity. }
    rewrite Hhn. cbn [andb]. destruct (rval =? 0) eqn:Erv; [|reflexivity].
    unfold eq_after_abort. rewrite <- Hli, abort_side_done.
    destruct (itr_den_inv _ _ _ _ Hr) as [[-> Hri] | (w & rv' & rp & ri' & -> & Hrt & Hfr & _)].
    + rewrite <- Hri, abort_side_done. reflexivity.
    + rewrite (abort_side_more ri rs) by auto.
      replace (idx li - idx li >? rs - idx ri) with false
        by (symmetry; rewrite Z.gtb_ltb; apply Z.ltb_ge; lia).
      reflexivity.
  - destruct (itr_den_inv _ _ _ _ Hr) as [[-> Hri] | (w & rv' & rp & ri' & -> & Hrt & Hfr & Hgr & Hpr & Hnr & Hdr)].
    + (* right list exhausted, left not *)
      assert (Hhn : has_next li ri ls rs = Some false).
      { unfold has_next. replace (idx ri <? rs) with false by (symmetry; apply Z.ltb_ge; lia).
        now rewrite andb_false_r. }
      rewrite Hhn. cbn [andb]. destruct (rval =? 0) eqn:Erv; [|reflexivity].
      unfold eq_after_abort. rewrite (abort_side_more li ls) by auto.
      replace (ls - idx li >? rs - idx ri) with true
        by (symmetry; rewrite Z.gtb_ltb; apply Z.ltb_lt; lia).
      reflexivity.
    + rewrite (has_next_both li ri ls rs) by auto. cbn [andb].
      cbn [need] in Hfuel.
      assert (Hfl' : (need lv' < f)%nat) by lia.
      cbn [forallb] in Nl, Nr. apply andb_true_iff in Nl. apply andb_true_iff in Nr.
      destruct Nl as [Nv Nl]. destruct Nr as [Nw Nr].
      destruct (rval =? 0) eqn:Erv.
      * unfold itr_get in Hgl, Hgr. rewrite Hgl, Hgr.
        rewrite (cmp_single_sim F _ lp rp v w Hpl Hpr Nv Nw).
        -- rewrite Hnl, Hnr. rewrite (IH li' ri' ls rs lv' rv' _ Hdl Hdr Nl Nr Hfl').
           unfold cmp_values. cbn [map lex]. fold (cmp_values lv' rv').
           destruct (cmpa (abs v) (abs w)); reflexivity.
        -- intros t es t' es' body body' tl tl' -> -> Hb Hb'.
           rewrite (IH (itr_init (body ++ tl)) (itr_init (body' ++ tl')) (Zlength body) (Zlength body') es es' 0).
           ++ reflexivity.
           ++ now apply itr_den_init.
           ++ now apply itr_den_init.
           ++ exact Nv.
           ++ exact Nw.
           ++ rewrite need_v_arr in Hfuel. lia.
      * (* rval already decided: one more evaluation of the condition, then return it *)
        reflexivity.
Qed.

(* ---- rtosc_arg_vals_eq ----------------------------------------------------------------- *)
Lemma eq_loop_sim : forall F fuel li ri ls rs lv rv rval,
  itr_den F ls li lv -> itr_den F rs ri rv ->
  forallb nonan lv = true -> forallb nonan rv = true ->
  (need lv < fuel)%nat ->
  eq_loop true F fuel li ri ls rs rval = Some (rval && is_eq (cmp_values lv rv)).
Proof.
  intros F fuel. induction fuel as [|f IH]; intros li ri ls rs lv rv rval Hl Hr Nl Nr Hfuel; [lia|].
  cbn [eq_loop].
  destruct (itr_den_inv _ _ _ _ Hl) as [[-> Hli] | (v & lv' & lp & li' & -> & Hlt & Hfl & Hgl & Hpl & Hnl & Hdl)].
  - assert (Hhn : has_next li ri ls rs = Some false).
    { unfold has_next. replace (idx li <? ls) with false by (symmetry; apply Z.ltb_ge; lia). reflexivity. }
    rewrite Hhn. cbn [andb]. destruct rval; [|reflexivity].
    unfold eq_after_abort. rewrite <- Hli, abort_side_done.
    destruct (itr_den_inv _ _ _ _ Hr) as [[-> Hri] | (w & rv' & rp & ri' & -> & Hrt & Hfr & _)].
    + rewrite <- Hri, abort_side_done. reflexivity.
    + rewrite (abort_side_more ri rs) by auto. reflexivity.
  - destruct (itr_den_inv _ _ _ _ Hr) as [[-> Hri] | (w & rv' & rp & ri' & -> & Hrt & Hfr & Hgr & Hpr & Hnr & Hdr)].
    + assert (Hhn : has_next li ri ls rs = Some false).
      { unfold has_next. replace (idx ri <? rs) with false by (symmetry; apply Z.ltb_ge; lia).
        now rewrite andb_false_r. }
      rewrite Hhn. cbn [andb]. destruct rval; [|reflexivity].
      unfold eq_after_abort. rewrite (abort_side_more li ls) by auto. reflexivity.
    + rewrite (has_next_both li ri ls rs) by auto. cbn [andb].
      cbn [need] in Hfuel.
      assert (Hfl' : (need lv' < f)%nat) by lia.
      cbn [forallb] in Nl, Nr. apply andb_true_iff in Nl. apply andb_true_iff in Nr.
      destruct Nl as [Nv Nl]. destruct Nr as [Nw Nr].
      destruct rval.
      * unfold itr_get in Hgl, Hgr. rewrite Hgl, Hgr.
        rewrite (eq_single_sim F _ lp rp v w Hpl Hpr Nv Nw).
        -- rewrite Hnl, Hnr. rewrite (IH li' ri' ls rs lv' rv' _ Hdl Hdr Nl Nr Hfl').
           unfold cmp_values. cbn [map lex]. fold (cmp_values lv' rv').
           destruct (cmpa (abs v) (abs w)); reflexivity.
        -- intros t es t' es' body body' tl tl' -> -> Hb Hb'.
           rewrite (IH (itr_init (body ++ tl)) (itr_init (body' ++ tl')) (Zlength body) (Zlength body') es es' true).
           ++ reflexivity.
           ++ now apply itr_den_init.
           ++ now apply itr_den_init.
           ++ exact Nv.
           ++ exact Nw.
           ++ rewrite need_v_arr in Hfuel. lia.
      * reflexivity.
Qed.

(* ---- fuel_of suffices ------------------------------------------------------------------ *)
Lemma weight_app : forall a b, weight (a ++ b) = (weight a + weight b)%nat.
Proof. induction a as [|s a IH]; intros; cbn [app weight fold_right]; auto. fold (weight (a ++ b)). fold (weight a). rewrite IH. lia. Qed.

Lemma need_app : forall l1 l2, (need (l1 ++ l2) <= need l1 + need l2)%nat.
Proof. induction l1 as [|v l1 IH]; intros; cbn [app need]; [lia|]. specialize (IH l2). lia. Qed.

Lemma need_repeat : forall v n, (need (repeat v n) <= n + need_v v)%nat.
Proof. induction n as [|n IH]; cbn [repeat need]; lia. Qed.

Lemma need_range : forall F dt dv st sv k i es,
  range_from F dt dv st sv i k = Some es -> need es = k.
Proof.
  intros F dt dv st sv. induction k as [|k IH]; intros i es H; cbn [range_from] in H.
  - inversion H. reflexivity.
  - destruct (range_spec F dt dv st sv i) as [[t v]|]; [|discriminate].
    destruct (range_from F dt dv st sv (i + 1) k) as [r|] eqn:E; [|discriminate].
    inversion H; subst. cbn [need need_v]. rewrite (IH _ _ E). lia.
Qed.

Lemma need_le_weight : forall F a va, denote F a va -> (need va <= weight a)%nat.
Proof.
  intros F a va H.
  induction H using denote_mut with
    (P0 := fun e v _ => (S (need_v v) <= weight e)%nat).
  - cbn. lia.
  - rewrite weight_app. cbn [need]. lia.
  - cbn [weight fold_right slot_weight]. fold (weight (e ++ rest)). rewrite weight_app.
    pose proof (need_app (repeat v (Z.to_nat n)) vs). pose proof (need_repeat v (Z.to_nat n)). lia.
  - cbn [weight fold_right slot_weight]. fold (weight rest).
    pose proof (need_app es vs). rewrite (need_range _ _ _ _ _ _ _ _ e) in H0. lia.
  - cbn. lia.
  - rewrite need_v_arr. cbn [weight fold_right slot_weight]. fold (weight body). lia.
Qed.

Lemma need_lt_fuel : forall F a va, denote F a va -> (need va < fuel_of a)%nat.
Proof. intros. unfold fuel_of. pose proof (need_le_weight _ _ _ H). lia. Qed.

(* ---- the entry points --------------------------------------------------------------------- *)
Definition all_nonan (vs : list value) : Prop := forallb nonan vs = true.

Lemma itr_den_top : forall F a vs, denote F a vs -> itr_den F (Zlength a) (itr_init a) vs.
Proof. intros. rewrite <- (app_nil_r a) at 2. now apply itr_den_init. Qed.

Theorem vals_cmp_spec : forall F a b va vb,
  denote F a va -> denote F b vb -> all_nonan va -> all_nonan vb ->
  vals_cmp F a b (Zlength a) (Zlength b) = Some (z_of_cmp (cmp_values va vb)).
Proof.
  intros F a b va vb Ha Hb Na Nb. unfold vals_cmp, vals_cmp_fuel, vals_cmp_gen.
  rewrite (cmp_loop_sim F (fuel_of a) _ _ _ _ va vb 0); auto using itr_den_top.
  eapply need_lt_fuel; eauto.
Qed.

Theorem vals_eq_spec : forall F a b va vb,
  denote F a va -> denote F b vb -> all_nonan va -> all_nonan vb ->
  vals_eq F a b (Zlength a) (Zlength b) = Some (is_eq (cmp_values va vb)).
Proof.
  intros F a b va vb Ha Hb Na Nb. unfold vals_eq, vals_eq_fuel, vals_eq_gen.
  rewrite (eq_loop_sim F (fuel_of a) _ _ _ _ va vb true); auto using itr_den_top.
  eapply need_lt_fuel; eauto.
Qed.

(* ---- what iteration yields ------------------------------------------------------------------ *)
Lemma iterate_sim : forall F fuel it size vs,
  itr_den F size it vs -> (need vs < fuel)%nat ->
  iterate_from true F fuel it size = Some vs.
Proof.
  intros F fuel. induction fuel as [|f IH]; intros it size vs Hd Hfuel; [lia|].
  cbn [iterate_from].
  destruct (itr_den_inv _ _ _ _ Hd) as [[-> Hi] | (v & vs' & p & it' & -> & Hlt & Hf & Hg & (e & tl & -> & He) & Hn & Hd')].
  - replace (idx it <? size) with false by (symmetry; apply Z.ltb_ge; lia). reflexivity.
  - replace (idx it <? size) with true by (symmetry; apply Z.ltb_lt; lia).
    unfold itr_get in Hg. rewrite Hg. cbn [need] in Hfuel.
    destruct He as [t sv Hok | t body es Hb].
    + cbn [app]. destruct (simple_ok_tag _ _ Hok) as [H45 H97].
      apply Z.eqb_neq in H45. apply Z.eqb_neq in H97. rewrite H45, H97. cbn [orb].
      rewrite Hn. rewrite (IH it' size vs' Hd') by lia. reflexivity.
    + cbn [app]. rewrite need_v_arr in Hfuel.
      rewrite (IH (itr_init (body ++ tl)) (Zlength body) es) by (try apply itr_den_init; auto; lia).
      rewrite Hn. rewrite (IH it' size vs' Hd') by lia. reflexivity.
Qed.

Theorem iterate_spec : forall F a va, denote F a va -> iterate F a (Zlength a) = Some va.
Proof.
  intros. unfold iterate. apply iterate_sim; [now apply itr_den_top | eapply need_lt_fuel; eauto].
Qed.

(* ---- rtosc_avmessage -------------------------------------------------------------------------- *)
Lemma need_length : forall vs, (length vs <= need vs)%nat.
Proof. induction vs as [|v vs IH]; cbn [length need]; lia. Qed.

Lemma count_vals_sim : forall F fuel it size vs,
  itr_den F size it vs -> (length vs < fuel)%nat ->
  count_vals fuel it size = Some (length vs).
Proof.
  intros F fuel. induction fuel as [|f IH]; intros it size vs Hd Hfuel; [lia|].
  cbn [count_vals].
  destruct (itr_den_inv _ _ _ _ Hd) as [[-> Hi] | (v & vs' & p & it' & -> & Hlt & Hf & Hg & Hp & Hn & Hd')].
  - replace (idx it <? size) with false by (symmetry; apply Z.ltb_ge; lia). reflexivity.
  - replace (idx it <? size) with true by (symmetry; apply Z.ltb_lt; lia).
    rewrite Hn. cbn [length] in *. rewrite (IH it' size vs' Hd') by lia. reflexivity.
Qed.

(* the slot the second pass copies type and union from *)
Definition head_of (s : slot) (v : value) : Prop :=
  match v with
  | Val t sv => s = SV t sv
  | Arr t _ => exists len, s = SArr t len
  end.

Lemma collect_sim : forall F size vs it,
  itr_den F size it vs ->
  exists heads, collect F (length vs) it = Some heads /\ Forall2 head_of heads vs.
Proof.
  intros F size vs. induction vs as [|v vs IH]; intros it Hd.
  - exists []. split; [reflexivity | constructor].
  - destruct (itr_den_inv _ _ _ _ Hd) as [[E _] | (v0 & vs' & p & it' & E & Hlt & Hf & Hg & (e & tl & -> & He) & Hn & Hd')];
      [discriminate|]. inversion E; subst v0 vs'; clear E.
    destruct (IH it' Hd') as (heads & Hc & Hh).
    cbn [length collect]. rewrite Hg.
    destruct He as [t sv Hok | t body es Hb]; cbn [app]; rewrite Hn, Hc.
    + eexists. split; [reflexivity|]. constructor; auto. reflexivity.
    + eexists. split; [reflexivity|]. constructor; auto. cbn. eauto.
Qed.

(* the strchr list of arg-val.c is has_reserved of rtosc.c *)
Lemma has_reserved_kind : forall t, has_reserved t = has_payload t.
Proof.
  intros. unfold has_reserved, has_payload, OscModel.kind_of.
  destruct (t =? 105), (t =? 115), (t =? 98), (t =? 102), (t =? 104), (t =? 116),
           (t =? 100), (t =? 83), (t =? 114), (t =? 109), (t =? 99); reflexivity.
Qed.

Lemma heads_payloads : forall heads vs, Forall2 head_of heads vs ->
  map slot_type heads = map vtype vs /\
  arg_payloads (map slot_type heads)
               (map slot_val (filter (fun s => has_reserved (slot_type s)) heads)) = payloads_of vs.
Proof.
  intros heads vs H. induction H as [|s v heads vs Hs Hr [IH1 IH2]]; [split; reflexivity|].
  destruct v as [t sv | t es].
  - cbn in Hs. subst s. cbn [map slot_type vtype filter payloads_of arg_payloads].
    split; [now rewrite IH1|]. rewrite <- has_reserved_kind.
    destruct (has_reserved t); cbn [map slot_val]; now rewrite IH2.
  - destruct Hs as (len & ->). cbn [map slot_type vtype filter payloads_of arg_payloads].
    split; [now rewrite IH1|].
    change (has_reserved 97) with false. cbv iota. exact IH2.
Qed.

Definition res_opt {A} (r : OscModel.res A) : option A :=
  match r with OscModel.Ok a => Some a | _ => None end.

(* rtosc_avmessage is rtosc_amessage on the tags and payloads of the written-out values *)
Theorem avmessage_spec : forall F buf addr a va,
  denote F a va ->
  avmessage F buf addr a (Zlength a) =
  match payloads_of va with
  | Some ps => res_opt (OscModel.amessage buf addr (map vtype va) ps)
  | None => None
  end.
Proof.
  intros F buf addr a va Hd. unfold avmessage, avmessage_gen.
  pose proof (itr_den_top F a va Hd) as Hi.
  rewrite (count_vals_sim F (fuel_of a) _ _ va Hi).
  - destruct (collect_sim F _ va _ Hi) as (heads & Hc & Hh). rewrite Hc.
    destruct (heads_payloads _ _ Hh) as [H1 H2]. rewrite H2, H1.
    destruct (payloads_of va); [|reflexivity].
    destruct (OscModel.amessage buf addr (map vtype va) l); reflexivity.
  - pose proof (need_length va). pose proof (need_lt_fuel _ _ _ Hd). lia.
Qed.

(* ---- ... and that is the OSC 1.0 encoding (C01's theorem applies) ------------------------------ *)
Definition top_ok (v : value) : Prop :=
  match v with Val t sv => simple_ok t sv | Arr _ _ => True end.

Lemma range_from_top_ok : forall F dt dv st sv k i es,
  range_from F dt dv st sv i k = Some es -> Forall top_ok es.
Proof.
  intros F dt dv st sv. induction k as [|k IH]; intros i es H; cbn [range_from] in H.
  - inversion H. constructor.
  - destruct (range_spec F dt dv st sv i) as [[t v]|] eqn:E; [|discriminate].
    destruct (range_from F dt dv st sv (i + 1) k) as [r|] eqn:Er; [|discriminate].
    inversion H; subst. constructor; [|eapply IH; eauto].
    cbn. eapply range_spec_ok; eauto.
Qed.

Lemma denote_top_ok : forall F a va, denote F a va -> Forall top_ok va.
Proof.
  intros F a va H.
  induction H using denote_mut with (P0 := fun e v _ => top_ok v).
  - constructor.
  - constructor; auto.
  - apply Forall_app. split; auto. apply Forall_forall. intros x Hx.
    apply repeat_spec in Hx. now subst.
  - apply Forall_app. split; auto. eapply range_from_top_ok; eauto.
  - exact s.
  - exact I.
Qed.

Lemma payload_ok : forall t sv p, simple_ok t sv -> arg_payload t sv = Some p ->
  OscModel.payload_fits (OscModel.kind_of t) p = true /\ OscEncProofs.payload_wf p.
Proof.
  intros t sv p H E. destruct H; cbn in E; try discriminate;
    try (inversion E; subst p; split; [reflexivity | exact I]).
  - (* m *) destruct m as [|a [|b [|c [|d [|? ?]]]]]; try discriminate.
    inversion E; subst p. split; [reflexivity | exact I].
  - destruct s as [s|]; [|discriminate]. inversion E; subst p. split; [reflexivity | exact I].
  - destruct s as [s|]; [|discriminate]. inversion E; subst p. split; [reflexivity | exact I].
  - inversion E; subst p. split; [reflexivity|]. cbn. split.
    + apply Zlength_nonneg'.
    + unfold OscModel.zlen. now rewrite Zlength_correct.
Qed.

Lemma payloads_args_wf : forall vs, Forall top_ok vs -> forall ps,
  payloads_of vs = Some ps -> OscEncProofs.args_wf (map vtype vs) ps.
Proof.
  intros vs H. induction H as [|v vs Hv Hr IH]; intros ps E.
  - inversion E. split; [reflexivity | constructor].
  - destruct v as [t sv | t es]; cbn [payloads_of map vtype] in *.
    + unfold has_payload in E. unfold OscEncProofs.args_wf. cbn [OscModel.args_match].
      destruct (OscModel.kind_of t) eqn:K;
        try (destruct (arg_payload t sv) as [p|] eqn:Ep; [|discriminate];
             destruct (payloads_of vs) as [ps'|] eqn:Er; [|discriminate];
             inversion E; subst ps; clear E;
             destruct (payload_ok t sv p Hv Ep) as [Hf Hw]; rewrite K in Hf;
             destruct (IH ps' eq_refl) as [Hm Hws];
             split; [rewrite Hf, Hm; reflexivity | constructor; auto]).
      exact (IH ps E).
    + unfold OscEncProofs.args_wf. cbn [OscModel.args_match].
      change (OscModel.kind_of 97) with OscModel.K0. cbv iota. exact (IH ps E).
Qed.

Theorem avmessage_is_osc : forall F addr a va ps,
  denote F a va -> payloads_of va = Some ps ->
  let enc := OscModel.enc_spec addr (map vtype va) ps in
  avmessage F None addr a (Zlength a) = Some (OscModel.zlen enc, None) /\
  forall buf,
    avmessage F (Some buf) addr a (Zlength a) =
    if OscModel.zlen buf <? OscModel.zlen enc
    then Some (0, Some (OscModel.zeros (OscModel.zlen buf)))
    else Some (OscModel.zlen enc, Some (enc ++ skipn (length enc) buf)).
Proof.
  intros F addr a va ps Hd Hp enc.
  pose proof (payloads_args_wf va (denote_top_ok F a va Hd) ps Hp) as Hwf.
  destruct (OscEncProofs.amessage_spec addr (map vtype va) ps Hwf) as [HN HS]. fold enc in HN, HS.
  unfold OscModel.byte in *.
  split.
  - rewrite (avmessage_spec F None addr a va Hd), Hp, HN. reflexivity.
  - intros buf. rewrite (avmessage_spec F (Some buf) addr a va Hd), Hp, (HS buf).
    destruct (OscModel.zlen buf <? OscModel.zlen enc); reflexivity.
Qed.

(* ---- the laws, on the model's functions --------------------------------------------------------- *)
Section Laws.
Variable F : fops.
Notation cmp a b := (vals_cmp F a b (Zlength a) (Zlength b)).
Notation eq a b := (vals_eq F a b (Zlength a) (Zlength b)).

Theorem law_refl : forall a va, denote F a va -> all_nonan va ->
  cmp a a = Some 0 /\ eq a a = Some true.
Proof.
  intros a va Ha Na.
  rewrite (vals_cmp_spec F a a va va), (vals_eq_spec F a a va va); auto.
  now rewrite cmp_values_refl.
Qed.

Theorem law_antisym : forall a b va vb,
  denote F a va -> denote F b vb -> all_nonan va -> all_nonan vb ->
  exists x, cmp a b = Some x /\ cmp b a = Some (- x) /\ -1 <= x <= 1.
Proof.
  intros a b va vb Ha Hb Na Nb.
  rewrite (vals_cmp_spec F a b va vb), (vals_cmp_spec F b a vb va); auto.
  rewrite (cmp_values_asym va vb).
  exists (z_of_cmp (cmp_values va vb)). destruct (cmp_values va vb); cbn; repeat split; lia.
Qed.

Theorem law_trans : forall a b c va vb vc,
  denote F a va -> denote F b vb -> denote F c vc ->
  all_nonan va -> all_nonan vb -> all_nonan vc ->
  forall x y, cmp a b = Some x -> cmp b c = Some y -> x <= 0 -> y <= 0 ->
  exists z, cmp a c = Some z /\ z <= 0 /\ (x < 0 \/ y < 0 -> z < 0).
Proof.
  intros a b c va vb vc Ha Hb Hc Na Nb Nc x y.
  rewrite (vals_cmp_spec F a b va vb), (vals_cmp_spec F b c vb vc), (vals_cmp_spec F a c va vc); auto.
  intros Hx Hy Lx Ly. inversion Hx; subst x; clear Hx. inversion Hy; subst y; clear Hy.
  destruct (cmp_values_trans va vb vc) as [H1 H2].
  - destruct (cmp_values va vb); cbn in Lx; try lia; discriminate.
  - destruct (cmp_values vb vc); cbn in Ly; try lia; discriminate.
  - exists (z_of_cmp (cmp_values va vc)). split; auto. split.
    + destruct (cmp_values va vc); cbn; try lia. congruence.
    + intros Hlt. rewrite H2; [cbn; lia|].
      destruct Hlt as [Hlt|Hlt]; [left | right];
        [destruct (cmp_values va vb) | destruct (cmp_values vb vc)]; cbn in Hlt; auto; lia.
Qed.

Theorem law_eq_iff_cmp0 : forall a b va vb,
  denote F a va -> denote F b vb -> all_nonan va -> all_nonan vb ->
  exists e x, eq a b = Some e /\ cmp a b = Some x /\ (e = true <-> x = 0).
Proof.
  intros a b va vb Ha Hb Na Nb.
  rewrite (vals_cmp_spec F a b va vb), (vals_eq_spec F a b va vb); auto.
  eexists. eexists. split; [reflexivity|]. split; [reflexivity|].
  destruct (cmp_values va vb); cbn; split; intros; auto; try discriminate; lia.
Qed.

(* replacing a run by its compressed form, or expanding it: a and a' denote the same values *)
Theorem law_compress : forall a a' v b vb addr,
  denote F a v -> denote F a' v -> denote F b vb -> all_nonan v -> all_nonan vb ->
  cmp a b = cmp a' b /\ cmp b a = cmp b a' /\ eq a b = eq a' b /\ eq b a = eq b a' /\
  cmp a a' = Some 0 /\ eq a a' = Some true /\
  iterate F a (Zlength a) = iterate F a' (Zlength a') /\
  forall buf, avmessage F buf addr a (Zlength a) = avmessage F buf addr a' (Zlength a').
Proof.
  intros a a' v b vb addr Ha Ha' Hb Nv Nb.
  rewrite (vals_cmp_spec F a b v vb), (vals_cmp_spec F a' b v vb),
          (vals_cmp_spec F b a vb v), (vals_cmp_spec F b a' vb v),
          (vals_eq_spec F a b v vb), (vals_eq_spec F a' b v vb),
          (vals_eq_spec F b a vb v), (vals_eq_spec F b a' vb v),
          (vals_cmp_spec F a a' v v), (vals_eq_spec F a a' v v); auto.
  rewrite cmp_values_refl.
  rewrite (iterate_spec F a v), (iterate_spec F a' v); auto.
  repeat split; try reflexivity.
  intros buf. rewrite (avmessage_spec F buf addr a v), (avmessage_spec F buf addr a' v); auto.
Qed.

(* iteration and message do not need the NaN exclusion *)
Theorem law_compress_iter_msg : forall a a' v addr ps,
  denote F a v -> denote F a' v -> payloads_of v = Some ps ->
  let enc := OscModel.enc_spec addr (map vtype v) ps in
  iterate F a (Zlength a) = Some v /\ iterate F a' (Zlength a') = Some v /\
  avmessage F None addr a (Zlength a) = Some (OscModel.zlen enc, None) /\
  avmessage F None addr a' (Zlength a') = Some (OscModel.zlen enc, None) /\
  forall buf, OscModel.zlen enc <= OscModel.zlen buf ->
    avmessage F (Some buf) addr a (Zlength a) = Some (OscModel.zlen enc, Some (enc ++ skipn (length enc) buf)) /\
    avmessage F (Some buf) addr a' (Zlength a') = Some (OscModel.zlen enc, Some (enc ++ skipn (length enc) buf)).
Proof.
  intros a a' v addr ps Ha Ha' Hp enc.
  rewrite (iterate_spec F a v), (iterate_spec F a' v); auto.
  destruct (avmessage_is_osc F addr a v ps Ha Hp) as [N1 S1].
  destruct (avmessage_is_osc F addr a' v ps Ha' Hp) as [N2 S2].
  fold enc in N1, S1, N2, S2.
  repeat split; auto; rewrite ?S1, ?S2;
    (replace (OscModel.zlen buf <? OscModel.zlen enc) with false by (symmetry; apply Z.ltb_ge; lia));
    reflexivity.
Qed.
End Laws.

(* ---- the per-type clauses: two single values of one type ------------------------------------------ *)
Lemma single_den : forall F t v, simple_ok t v -> denote F [SV t v] [Val t v].
Proof.
  intros. apply (D_elem F [SV t v] (Val t v) [] []); constructor; auto.
Qed.

Lemma single_cmp : forall F t v t' v',
  simple_ok t v -> simple_ok t' v' -> nonan (Val t v) = true -> nonan (Val t' v') = true ->
  vals_cmp F [SV t v] [SV t' v'] 1 1 = Some (z_of_cmp (lex Z.compare (skey t v) (skey t' v'))).
Proof.
  intros F t v t' v' H H' N N'.
  pose proof (vals_cmp_spec F [SV t v] [SV t' v'] _ _ (single_den F t v H) (single_den F t' v' H')) as E.
  unfold all_nonan in E. cbn [forallb] in E. rewrite N, N' in E. specialize (E eq_refl eq_refl).
  change (Zlength [SV t v]) with 1 in E. change (Zlength [SV t' v']) with 1 in E.
  rewrite E. unfold cmp_values. cbn [map lex abs]. rewrite cmpa_leaf.
  destruct (lex Z.compare (skey t v) (skey t' v')); reflexivity.
Qed.

Ltac side := first [constructor; fail | reflexivity | (constructor; reflexivity)].

Theorem numeric_int : forall F t x y, t = 105 \/ t = 99 \/ t = 114 ->
  vals_cmp F [SV t (VI x)] [SV t (VI y)] 1 1 = Some (z_of_cmp (x ?= y)).
Proof.
  intros F t x y [-> | [-> | ->]];
    (rewrite single_cmp; [unfold skey; now rewrite lex_same_head, lex_single | side ..]).
Qed.

Theorem numeric_int64 : forall F x y,
  vals_cmp F [SV 104 (VH x)] [SV 104 (VH y)] 1 1 = Some (z_of_cmp (x ?= y)).
Proof.
  intros. rewrite single_cmp; [unfold skey; now rewrite lex_same_head, lex_single | side ..].
Qed.

Theorem numeric_float : forall F x y, isnan32 x = false -> isnan32 y = false ->
  vals_cmp F [SV 102 (VF x)] [SV 102 (VF y)] 1 1 = Some (z_of_cmp (fkey32 x ?= fkey32 y)).
Proof.
  intros F x y Hx Hy.
  rewrite single_cmp; [unfold skey; now rewrite lex_same_head, lex_single | try side ..];
    cbn; now rewrite ?Hx, ?Hy.
Qed.

Theorem numeric_double : forall F x y, isnan64 x = false -> isnan64 y = false ->
  vals_cmp F [SV 100 (VD x)] [SV 100 (VD y)] 1 1 = Some (z_of_cmp (fkey64 x ?= fkey64 y)).
Proof.
  intros F x y Hx Hy.
  rewrite single_cmp; [unfold skey; now rewrite lex_same_head, lex_single | try side ..];
    cbn; now rewrite ?Hx, ?Hy.
Qed.

(* strings ('s' and 'S'): lexicographic on the bytes, a proper prefix first;
   NULL below every string *)
Theorem lexicographic : forall F t x y, t = 115 \/ t = 83 ->
  vals_cmp F [SV t (VS (Some x))] [SV t (VS (Some y))] 1 1 = Some (z_of_cmp (lex Z.compare x y)) /\
  vals_cmp F [SV t (VS None)] [SV t (VS (Some y))] 1 1 = Some (-1).
Proof.
  intros F t x y [-> | ->]; split;
    (rewrite single_cmp; [unfold skey; rewrite !lex_same_head; reflexivity | side ..]).
Qed.

Lemma lex_prefix_lt : forall d e, e <> [] -> lex Z.compare d (d ++ e) = Lt.
Proof.
  induction d as [|x d IH]; intros e He; cbn [app lex].
  - destruct e; [contradiction | reflexivity].
  - rewrite Z.compare_refl. auto.
Qed.

(* blobs: bytewise, and a proper prefix is smaller whatever follows it *)
Theorem blob_prefix : forall F d d',
  vals_cmp F [SV 98 (VB (Zlength d) d)] [SV 98 (VB (Zlength d') d')] 1 1 =
    Some (z_of_cmp (lex Z.compare d d')) /\
  forall e, e <> [] ->
    vals_cmp F [SV 98 (VB (Zlength d) d)] [SV 98 (VB (Zlength (d ++ e)) (d ++ e))] 1 1 = Some (-1) /\
    vals_cmp F [SV 98 (VB (Zlength (d ++ e)) (d ++ e))] [SV 98 (VB (Zlength d) d)] 1 1 = Some 1.
Proof.
  intros F d d'. split.
  - rewrite single_cmp; [unfold skey; now rewrite lex_same_head | side ..].
  - intros e He. split.
    + rewrite single_cmp; [unfold skey; now rewrite lex_same_head, lex_prefix_lt | side ..].
    + rewrite single_cmp; [unfold skey; rewrite lex_same_head | side ..].
      rewrite (lexZ_asym d (d ++ e)), lex_prefix_lt; auto.
Qed.

(* time tags: 'immediately' (1) before every other, the others numerically *)
Theorem immediately_first : forall F x y,
  (x <> 1 -> vals_cmp F [SV 116 (VT 1)] [SV 116 (VT x)] 1 1 = Some (-1) /\
             vals_cmp F [SV 116 (VT x)] [SV 116 (VT 1)] 1 1 = Some 1) /\
  (x <> 1 -> y <> 1 -> vals_cmp F [SV 116 (VT x)] [SV 116 (VT y)] 1 1 = Some (z_of_cmp (x ?= y))).
Proof.
  intros F x y. split.
  - intros Hx. apply Z.eqb_neq in Hx.
    split; (rewrite single_cmp; [unfold skey; rewrite lex_same_head; rewrite Hx; reflexivity | side ..]).
  - intros Hx Hy. apply Z.eqb_neq in Hx. apply Z.eqb_neq in Hy.
    rewrite single_cmp; [| side ..]. unfold skey. rewrite lex_same_head, Hx, Hy.
    now rewrite lex_same_head, lex_single.
Qed.

(* ---- the hypotheses are satisfiable: a list with a range with delta, a boolean
        array, a repeated string and a repeated array, written in two ways --------------------------- *)
Definition ex_values : list value :=
  [Val 105 (VI 1); Val 105 (VI 3); Val 105 (VI 5);
   Arr 84 [Val 84 VNone; Val 70 VNone];
   Val 115 (VS (Some [97])); Val 115 (VS (Some [97]));
   Arr 105 [Val 105 (VI 7)]; Arr 105 [Val 105 (VI 7)]].

Definition ex_compressed : list slot :=
  [SRep 3 1; SV 105 (VI 2); SV 105 (VI 1);
   SArr 84 2; SV 84 VNone; SV 70 VNone;
   SRep 2 0; SV 115 (VS (Some [97]));
   SRep 2 0; SArr 105 1; SV 105 (VI 7)].

Definition ex_plain : list slot :=
  [SV 105 (VI 1); SV 105 (VI 3); SV 105 (VI 5);
   SArr 84 2; SV 84 VNone; SV 70 VNone;
   SV 115 (VS (Some [97])); SV 115 (VS (Some [97]));
   SArr 105 1; SV 105 (VI 7); SArr 105 1; SV 105 (VI 7)].

Lemma den_val : forall F t v rest vs, simple_ok t v -> denote F rest vs ->
  denote F (SV t v :: rest) (Val t v :: vs).
Proof. intros. apply (D_elem F [SV t v] (Val t v) rest vs); auto. now constructor. Qed.

Lemma den_arr : forall F t body es rest vs, denote F body es -> denote F rest vs ->
  denote F (SArr t (Zlength body) :: body ++ rest) (Arr t es :: vs).
Proof. intros. apply (D_elem F (SArr t (Zlength body) :: body) (Arr t es) rest vs); auto. now constructor. Qed.

Theorem nonvacuous : forall F,
  denote F ex_compressed ex_values /\ denote F ex_plain ex_values /\ all_nonan ex_values /\
  ex_compressed <> ex_plain.
Proof.
  intros F. split; [|split; [|split; [reflexivity | discriminate]]].
  - unfold ex_compressed, ex_values.
    apply (D_range F 3 1 105 (VI 2) 105 (VI 1) [Val 105 (VI 1); Val 105 (VI 3); Val 105 (VI 5)]);
      try lia; [reflexivity|].
    apply (den_arr F 84 [SV 84 VNone; SV 70 VNone] [Val 84 VNone; Val 70 VNone]).
    { repeat (apply den_val; [constructor|]). constructor. }
    apply (D_rep F 2 [SV 115 (VS (Some [97]))] (Val 115 (VS (Some [97])))); try lia; [repeat constructor|].
    apply (D_rep F 2 [SArr 105 1; SV 105 (VI 7)] (Arr 105 [Val 105 (VI 7)]) [] []); try lia; [|constructor].
    apply (DE_arr F 105 [SV 105 (VI 7)] [Val 105 (VI 7)]).
    apply den_val; constructor.
  - unfold ex_plain, ex_values.
    repeat (apply den_val; [constructor|]).
    apply (den_arr F 84 [SV 84 VNone; SV 70 VNone] [Val 84 VNone; Val 70 VNone]).
    { repeat (apply den_val; [constructor|]). constructor. }
    repeat (apply den_val; [constructor|]).
    apply (den_arr F 105 [SV 105 (VI 7)] [Val 105 (VI 7)]).
    { apply den_val; constructor. }
    apply (den_arr F 105 [SV 105 (VI 7)] [Val 105 (VI 7)] [] []).
    { apply den_val; constructor. }
    constructor.
Qed.

(* a list has at most one denotation: "expand a = expand a'" is a statement about a function *)
Theorem denote_functional : forall F a v v', denote F a v -> denote F a v' -> v = v'.
Proof.
  intros F a v v' H H'. pose proof (iterate_spec F a v H) as E. rewrite (iterate_spec F a v' H') in E.
  now inversion E.
Qed.
