(* C16 - eq_single / cmp_single compute the comparison of keys. *)
From Coq Require Import List ZArith Bool Lia.
From RtoscV Require Import ArgVal.AvModel ArgVal.AvSpec ArgVal.AvOrder ArgVal.AvSim.
Import ListNotations.
Local Open Scope Z_scope.
Local Arguments Zlength : simpl never.

(* ---- three-way helpers -------------------------------------------------------- *)
Lemma cmp3_compare : forall a b, cmp3 a b = z_of_cmp (a ?= b).
Proof.
  intros. unfold cmp3. destruct (Z.compare_spec a b) as [H|H|H].
  - subst. now rewrite Z.eqb_refl.
  - replace (a =? b) with false by (symmetry; apply Z.eqb_neq; lia).
    replace (a >? b) with false by (symmetry; rewrite Z.gtb_ltb; apply Z.ltb_ge; lia). reflexivity.
  - replace (a =? b) with false by (symmetry; apply Z.eqb_neq; lia).
    replace (a >? b) with true by (symmetry; rewrite Z.gtb_ltb; apply Z.ltb_lt; lia). reflexivity.
Qed.

Lemma lex_bytes_lex : forall a b, lex_bytes a b = z_of_cmp (lex Z.compare a b).
Proof.
  induction a as [|x a IH]; intros [|y b]; cbn; auto.
  destruct (Z.compare_spec x y) as [H|H|H].
  - subst. rewrite Z.ltb_irrefl. apply IH.
  - replace (x <? y) with true by (symmetry; apply Z.ltb_lt; lia). reflexivity.
  - replace (x <? y) with false by (symmetry; apply Z.ltb_ge; lia).
    replace (y <? x) with true by (symmetry; apply Z.ltb_lt; lia). reflexivity.
Qed.

Lemma z_of_cmp_eq0 : forall c, (z_of_cmp c =? 0) = is_eq c.
Proof. destruct c; reflexivity. Qed.

Lemma lex_single : forall a b, lex Z.compare [a] [b] = (a ?= b).
Proof. intros. cbn. destruct (a ?= b); reflexivity. Qed.

(* ---- floats: C's == and > against the key --------------------------------------- *)
Lemma fcmp32 : forall a b, isnan32 a = false -> isnan32 b = false ->
  (if feq32 a b then 0 else if fgt32 a b then 1 else -1) = z_of_cmp (fkey32 a ?= fkey32 b).
Proof.
  intros a b Ha Hb. unfold feq32, fgt32. rewrite Ha, Hb. cbn.
  rewrite <- cmp3_compare. unfold cmp3. reflexivity.
Qed.

Lemma fcmp64 : forall a b, isnan64 a = false -> isnan64 b = false ->
  (if feq64 a b then 0 else if fgt64 a b then 1 else -1) = z_of_cmp (fkey64 a ?= fkey64 b).
Proof.
  intros a b Ha Hb. unfold feq64, fgt64. rewrite Ha, Hb. cbn.
  rewrite <- cmp3_compare. unfold cmp3. reflexivity.
Qed.

Lemma feq32_key : forall a b, isnan32 a = false -> isnan32 b = false ->
  feq32 a b = is_eq (fkey32 a ?= fkey32 b).
Proof.
  intros a b Ha Hb. unfold feq32. rewrite Ha, Hb. cbn.
  destruct (Z.compare_spec (fkey32 a) (fkey32 b)) as [H|H|H]; cbn.
  - rewrite H. apply Z.eqb_refl.
  - apply Z.eqb_neq; lia.
  - apply Z.eqb_neq; lia.
Qed.

Lemma feq64_key : forall a b, isnan64 a = false -> isnan64 b = false ->
  feq64 a b = is_eq (fkey64 a ?= fkey64 b).
Proof.
  intros a b Ha Hb. unfold feq64. rewrite Ha, Hb. cbn.
  destruct (Z.compare_spec (fkey64 a) (fkey64 b)) as [H|H|H]; cbn.
  - rewrite H. apply Z.eqb_refl.
  - apply Z.eqb_neq; lia.
  - apply Z.eqb_neq; lia.
Qed.

(* ---- time tags ---------------------------------------------------------------------- *)
Lemma tcmp : forall a b,
  (if a =? 1 then (if b =? 1 then 0 else -1) else if b =? 1 then 1 else cmp3 a b) =
  z_of_cmp (lex Z.compare [if a =? 1 then 0 else 1; a] [if b =? 1 then 0 else 1; b]).
Proof.
  intros a b. destruct (a =? 1) eqn:Ea; destruct (b =? 1) eqn:Eb; auto.
  - apply Z.eqb_eq in Ea. apply Z.eqb_eq in Eb. subst. reflexivity.
  - rewrite cmp3_compare. cbn. destruct (a ?= b); reflexivity.
Qed.

Lemma eqb_is_eq : forall a b, (a =? b) = is_eq (a ?= b).
Proof.
  intros. destruct (Z.compare_spec a b) as [H|H|H]; cbn.
  - subst. apply Z.eqb_refl.
  - apply Z.eqb_neq; lia.
  - apply Z.eqb_neq; lia.
Qed.

Lemma teq : forall a b,
  (a =? b) = is_eq (lex Z.compare [if a =? 1 then 0 else 1; a] [if b =? 1 then 0 else 1; b]).
Proof.
  intros a b. destruct (a =? 1) eqn:Ea; destruct (b =? 1) eqn:Eb.
  - apply Z.eqb_eq in Ea. apply Z.eqb_eq in Eb. subst. reflexivity.
  - apply Z.eqb_eq in Ea. apply Z.eqb_neq in Eb. subst.
    change (is_eq (lex Z.compare [0; 1] [1; b])) with false. apply Z.eqb_neq. lia.
  - apply Z.eqb_neq in Ea. apply Z.eqb_eq in Eb. subst.
    change (is_eq (lex Z.compare [1; a] [0; 1])) with false. apply Z.eqb_neq. lia.
  - rewrite eqb_is_eq. cbn. destruct (a ?= b); reflexivity.
Qed.

Lemma lex_same_head : forall t k k', lex Z.compare (t :: k) (t :: k') = lex Z.compare k k'.
Proof. intros. cbn [lex]. now rewrite Z.compare_refl. Qed.

Lemma lex_eq_length : forall a b, lex Z.compare a b = Eq -> length a = length b.
Proof.
  induction a as [|x a IH]; intros [|y b] H; cbn in H; try discriminate; auto.
  destruct (x ?= y); try discriminate. cbn. f_equal. auto.
Qed.

(* ---- memcmp --------------------------------------------------------------------------- *)
Lemma memcmp_all : forall a b n, Zlength a = n -> Zlength b = n ->
  memcmp a b n = Some (lex_bytes a b).
Proof.
  intros a b n Ha Hb. unfold memcmp.
  pose proof (Zlength_nonneg' a) as Hn.
  replace (n <? 0) with false by (symmetry; apply Z.ltb_ge; lia).
  replace (Zlength a <? n) with false by (symmetry; apply Z.ltb_ge; lia).
  replace (Zlength b <? n) with false by (symmetry; apply Z.ltb_ge; lia).
  cbn [orb]. rewrite !firstn_all2; auto.
  - rewrite <- Hb, Zlength_correct, Nat2Z.id. lia.
  - rewrite <- Ha, Zlength_correct, Nat2Z.id. lia.
Qed.

Lemma lex_firstn_min : forall (a b : list Z),
  lex Z.compare a b =
  match lex Z.compare (firstn (Nat.min (length a) (length b)) a)
                      (firstn (Nat.min (length a) (length b)) b) with
  | Eq => Nat.compare (length a) (length b)
  | o => o
  end.
Proof.
  induction a as [|x a IH]; intros [|y b]; cbn [length Nat.min firstn lex Nat.compare]; auto.
  destruct (x ?= y); auto.
Qed.

Lemma blob_cmp : forall ld rd,
  match memcmp ld rd (if Zlength ld <? Zlength rd then Zlength ld else Zlength rd) with
  | None => None
  | Some c =>
      if negb (Zlength ld =? Zlength rd) && (c =? 0)
      then blob_tail_fixed (Zlength ld >? Zlength rd) ld rd
             (if Zlength ld <? Zlength rd then Zlength ld else Zlength rd)
      else Some c
  end = Some (z_of_cmp (lex Z.compare ld rd)).
Proof.
  intros ld rd.
  pose proof (Zlength_nonneg' ld) as Hl. pose proof (Zlength_nonneg' rd) as Hr.
  set (m := if Zlength ld <? Zlength rd then Zlength ld else Zlength rd).
  assert (Hm : Z.to_nat m = Nat.min (length ld) (length rd)).
  { unfold m. rewrite !Zlength_correct.
    destruct (Z.ltb_spec (Z.of_nat (length ld)) (Z.of_nat (length rd))); rewrite Nat2Z.id; lia. }
  assert (Hmc : memcmp ld rd m = Some (lex_bytes (firstn (Z.to_nat m) ld) (firstn (Z.to_nat m) rd))).
  { unfold memcmp.
    replace (m <? 0) with false by (symmetry; apply Z.ltb_ge; unfold m; destruct (Zlength ld <? Zlength rd); lia).
    replace (Zlength ld <? m) with false
      by (symmetry; apply Z.ltb_ge; unfold m; destruct (Z.ltb_spec (Zlength ld) (Zlength rd)); lia).
    replace (Zlength rd <? m) with false
      by (symmetry; apply Z.ltb_ge; unfold m; destruct (Z.ltb_spec (Zlength ld) (Zlength rd)); lia).
    reflexivity. }
  rewrite Hmc, Hm, lex_bytes_lex, z_of_cmp_eq0.
  rewrite (lex_firstn_min ld rd).
  destruct (lex Z.compare (firstn (Nat.min (length ld) (length rd)) ld)
                          (firstn (Nat.min (length ld) (length rd)) rd)) eqn:E; cbn [is_eq andb].
  - rewrite andb_true_r. rewrite !Zlength_correct.
    destruct (Nat.compare_spec (length ld) (length rd)) as [H|H|H].
    + replace (Z.of_nat (length ld) =? Z.of_nat (length rd)) with true by (symmetry; apply Z.eqb_eq; lia).
      reflexivity.
    + replace (Z.of_nat (length ld) =? Z.of_nat (length rd)) with false by (symmetry; apply Z.eqb_neq; lia).
      cbn. replace (Z.of_nat (length ld) >? Z.of_nat (length rd)) with false
        by (symmetry; rewrite Z.gtb_ltb; apply Z.ltb_ge; lia). reflexivity.
    + replace (Z.of_nat (length ld) =? Z.of_nat (length rd)) with false by (symmetry; apply Z.eqb_neq; lia).
      cbn. replace (Z.of_nat (length ld) >? Z.of_nat (length rd)) with true
        by (symmetry; rewrite Z.gtb_ltb; apply Z.ltb_lt; lia). reflexivity.
  - rewrite andb_false_r. reflexivity.
  - rewrite andb_false_r. reflexivity.
Qed.

Lemma blob_eq : forall ld rd,
  (if Zlength ld =? Zlength rd
   then match memcmp ld rd (Zlength ld) with Some c => Some (c =? 0) | None => None end
   else Some false) = Some (is_eq (lex Z.compare ld rd)).
Proof.
  intros ld rd. destruct (Z.eqb_spec (Zlength ld) (Zlength rd)) as [H|H].
  - rewrite (memcmp_all ld rd (Zlength ld)) by auto.
    now rewrite lex_bytes_lex, z_of_cmp_eq0.
  - destruct (lex Z.compare ld rd) eqn:E; auto.
    apply lex_eq_length in E. rewrite !Zlength_correct in H. lia.
Qed.

Lemma cmpa_leaf : forall h h', cmpa (Node h []) (Node h' []) = lex Z.compare h h'.
Proof. intros. rewrite cmpa_node. destruct (lex Z.compare h h'); reflexivity. Qed.

(* ---- single values ----------------------------------------------------------------- *)
Local Arguments memcmp : simpl never.
Local Arguments lex_bytes : simpl never.
Local Arguments cmp3 : simpl never.
Local Arguments feq32 : simpl never.
Local Arguments fgt32 : simpl never.
Local Arguments feq64 : simpl never.
Local Arguments fgt64 : simpl never.
Local Arguments blob_tail_fixed : simpl never.

Ltac cbn_lhs :=
  match goal with |- ?L = ?R => let L' := eval cbn in L in change (L' = R) end.

Lemma nonan_f : forall t b, nonan (Val t (VF b)) = true -> isnan32 b = false.
Proof. intros t b H. cbn in H. now apply negb_true_iff in H. Qed.
Lemma nonan_d : forall t b, nonan (Val t (VD b)) = true -> isnan64 b = false.
Proof. intros t b H. cbn in H. now apply negb_true_iff in H. Qed.

Lemma cmp_single_val : forall rec t sv tl t' sv' tl',
  simple_ok t sv -> simple_ok t' sv' ->
  nonan (Val t sv) = true -> nonan (Val t' sv') = true ->
  cmp_single arr_rule_fixed blob_tail_fixed rec (SV t sv :: tl) (SV t' sv' :: tl') =
  Some (z_of_cmp (lex Z.compare (skey t sv) (skey t' sv'))).
Proof.
  intros rec t sv tl t' sv' tl' H H' Hn Hn'.
  destruct H; destruct H'; try reflexivity;
    unfold skey; rewrite lex_same_head; cbn_lhs.
  - now rewrite lex_single, cmp3_compare.
  - now rewrite lex_single, cmp3_compare.
  - now rewrite lex_single, cmp3_compare.
  - now rewrite lex_single, cmp3_compare.
  - now rewrite tcmp.
  - rewrite lex_single, fcmp32; auto; eapply nonan_f; eauto.
  - rewrite lex_single, fcmp64; auto; eapply nonan_d; eauto.
  - rewrite (memcmp_all m m0 4) by auto. now rewrite lex_bytes_lex.
  - destruct s as [x|]; destruct s0 as [y|]; try reflexivity.
    rewrite lex_same_head. now rewrite lex_bytes_lex.
  - destruct s as [x|]; destruct s0 as [y|]; try reflexivity.
    rewrite lex_same_head. now rewrite lex_bytes_lex.
  - apply blob_cmp.
Qed.

Lemma eq_single_val : forall rec t sv tl t' sv' tl',
  simple_ok t sv -> simple_ok t' sv' ->
  nonan (Val t sv) = true -> nonan (Val t' sv') = true ->
  eq_single rec (SV t sv :: tl) (SV t' sv' :: tl') =
  Some (is_eq (lex Z.compare (skey t sv) (skey t' sv'))).
Proof.
  intros rec t sv tl t' sv' tl' H H' Hn Hn'.
  destruct H; destruct H'; try reflexivity;
    unfold skey; rewrite lex_same_head; cbn_lhs.
  - now rewrite lex_single, eqb_is_eq.
  - now rewrite lex_single, eqb_is_eq.
  - now rewrite lex_single, eqb_is_eq.
  - now rewrite lex_single, eqb_is_eq.
  - now rewrite teq.
  - rewrite lex_single, feq32_key; auto; eapply nonan_f; eauto.
  - rewrite lex_single, feq64_key; auto; eapply nonan_d; eauto.
  - rewrite (memcmp_all m m0 4) by auto. now rewrite lex_bytes_lex, z_of_cmp_eq0.
  - destruct s as [x|]; destruct s0 as [y|]; try reflexivity.
    rewrite lex_same_head. now rewrite lex_bytes_lex, z_of_cmp_eq0.
  - destruct s as [x|]; destruct s0 as [y|]; try reflexivity.
    rewrite lex_same_head. now rewrite lex_bytes_lex, z_of_cmp_eq0.
  - apply blob_eq.
Qed.
