(* C19 - updateMapping produces ordered control points for a non-negative
   gain and min <= max (no overflow): the step from "gain > 0" to the
   hypothesis cp1 <= cp3 of the monotonicity theorem.  Real-number semantics
   of the mixed float/double expressions through Flocq. *)
From Coq Require Import List ZArith Bool Lia Reals Lra.
From Flocq Require Import Core.Core IEEE754.BinarySingleNaN IEEE754.Binary IEEE754.Bits.
From RtoscV Require Import Auto.F32 Auto.AutoModel Auto.AutoMapModel Auto.AutoMapProofs.
Import ListNotations.
Local Open Scope Z_scope.

Definition finite64 (x : f64) : Prop := is_finite 53 1024 x = true.
Definition val64 (x : f64) : R := B2R 53 1024 x.
Definition rnd64 (r : R) : R := round radix2 (FLT_exp (3 - 1024 - 53) 53) (round_mode mode_NE) r.

Lemma rnd64_le : forall x y, (x <= y)%R -> (rnd64 x <= rnd64 y)%R.
Proof.
  intros x y H. unfold rnd64. apply round_le; [|apply valid_rnd_round_mode|exact H].
  apply FLT_exp_valid. reflexivity.
Qed.

Lemma rnd64_0 : rnd64 0 = 0%R.
Proof. unfold rnd64. apply round_0. apply valid_rnd_round_mode. Qed.

Lemma overflow_not_finite64 : forall (x : f64) s,
  B2FF 53 1024 x = binary_overflow 53 1024 mode_NE s -> is_finite 53 1024 x = false.
Proof.
  intros x s H. destruct x; try reflexivity;
  exfalso; revert H; unfold B2FF, Binary.binary_overflow, BinarySingleNaN.binary_overflow, overflow_to_inf;
  cbn [SF2FF]; discriminate.
Qed.

(* (double)x is exact *)
Lemma to_double_val : forall x, finite32 x -> finite64 (to_double x) /\ val64 (to_double x) = val x.
Proof.
  intros x Fx. unfold finite32 in Fx. destruct x as [s|s|s pl e|s m e Hb]; try discriminate.
  - split; reflexivity.
  - unfold to_double, NE.
    pose proof (binary_normalize_correct 53 1024 p53 e53 mode_NE (cond_Zopp s (Z.pos m)) e s) as C.
    assert (G : generic_format radix2 (FLT_exp (3 - 1024 - 53) 53)
                  (F2R (Float radix2 (cond_Zopp s (Z.pos m)) e))).
    { apply (generic_inclusion_mag radix2 (FLT_exp (3 - 128 - 24) 24)).
      - intros _. unfold FLT_exp. lia.
      - apply (generic_format_B2R 24 128 (B754_finite 24 128 s m e Hb)). }
    rewrite round_generic in C; [|apply valid_rnd_round_mode|exact G].
    assert (L : (Rabs (F2R (Float radix2 (cond_Zopp s (Z.pos m)) e)) < bpow radix2 1024)%R).
    { apply Rlt_trans with (bpow radix2 128).
      - apply (abs_B2R_lt_emax 24 128 (B754_finite 24 128 s m e Hb)).
      - apply bpow_lt. lia. }
    rewrite Rlt_bool_true in C by exact L.
    destruct C as (C1 & C2 & _). split; [exact C2|exact C1].
Qed.

Lemma to_double_finite_arg : forall x, finite64 (to_double x) -> finite32 x.
Proof.
  intros x H. unfold finite64, finite32 in *.
  destruct x; try reflexivity; simpl in H; try discriminate; vm_compute in H; discriminate.
Qed.

(* (float)y rounds to nearest *)
Lemma to_single_val : forall y, finite32 (to_single y) ->
  finite64 y /\ val (to_single y) = rnd32 (val64 y).
Proof.
  intros y F. unfold finite32 in F. destruct y as [s|s|s pl e|s m e Hb]; try discriminate.
  - split; [reflexivity|]. simpl. unfold val64. simpl. symmetry. apply rnd32_0.
  - split; [reflexivity|]. unfold to_single, NE in *.
    pose proof (binary_normalize_correct 24 128 p24 e24 mode_NE (cond_Zopp s (Z.pos m)) e s) as C.
    destruct (Rlt_bool _ _).
    + destruct C as (C1 & _). exact C1.
    + apply overflow_not_finite in C. congruence.
Qed.

Lemma sub64_val : forall x y, finite64 (sub64 x y) ->
  finite64 x /\ finite64 y /\ val64 (sub64 x y) = rnd64 (val64 x - val64 y)%R.
Proof.
  intros x y H. unfold finite64 in *.
  assert (Fxy : is_finite 53 1024 x = true /\ is_finite 53 1024 y = true).
  { unfold sub64, b64_minus in H.
    destruct x as [sx|sx|sx px ex|sx mx ex Hx]; destruct y as [sy|sy|sy py ey|sy my ey Hy];
      simpl in *; try (split; reflexivity); try discriminate;
      try (destruct sx; destruct sy; simpl in H; discriminate). }
  destruct Fxy as [Fx Fy]. split; [assumption|]. split; [assumption|].
  unfold sub64, b64_minus in *.
  match goal with H : is_finite _ _ (Bminus _ _ ?hp ?he ?n ?m x y) = true |- _ =>
    pose proof (Bminus_correct 53 1024 hp he n m x y Fx Fy) as C end.
  destruct (Rlt_bool _ _).
  - destruct C as (C1 & _). exact C1.
  - destruct C as [C _]. apply overflow_not_finite64 in C. congruence.
Qed.

Lemma add64_val : forall x y, finite64 (add64 x y) ->
  finite64 x /\ finite64 y /\ val64 (add64 x y) = rnd64 (val64 x + val64 y)%R.
Proof.
  intros x y H. unfold finite64 in *.
  assert (Fxy : is_finite 53 1024 x = true /\ is_finite 53 1024 y = true).
  { unfold add64, b64_plus in H.
    destruct x as [sx|sx|sx px ex|sx mx ex Hx]; destruct y as [sy|sy|sy py ey|sy my ey Hy];
      simpl in *; try (split; reflexivity); try discriminate;
      try (destruct sx; destruct sy; simpl in H; discriminate). }
  destruct Fxy as [Fx Fy]. split; [assumption|]. split; [assumption|].
  unfold add64, b64_plus in *.
  match goal with H : is_finite _ _ (Bplus _ _ ?hp ?he ?n ?m x y) = true |- _ =>
    pose proof (Bplus_correct 53 1024 hp he n m x y Fx Fy) as C end.
  destruct (Rlt_bool _ _).
  - destruct C as (C1 & _). exact C1.
  - destruct C as [C _]. apply overflow_not_finite64 in C. congruence.
Qed.

(* division by a non-zero finite constant *)
Lemma div64_val : forall x y, val64 y <> 0%R -> finite64 (div64 x y) ->
  finite64 x /\ val64 (div64 x y) = rnd64 (val64 x / val64 y)%R.
Proof.
  intros x y Hy H. unfold finite64, div64, b64_div in *.
  match goal with H : is_finite _ _ (Bdiv _ _ ?hp ?he ?n ?m x y) = true |- _ =>
    pose proof (Bdiv_correct 53 1024 hp he n m x y Hy) as C end.
  destruct (Rlt_bool _ _).
  - destruct C as (C1 & C2 & _). split; [congruence|exact C1].
  - apply overflow_not_finite64 in C. congruence.
Qed.

Lemma val64_2 : val64 f64_2 = 2%R.
Proof. unfold val64, f64_2, double_of_int. vm_compute. lra. Qed.

Lemma val64_100 : val64 f64_100 = 100%R.
Proof. unfold val64, f64_100, double_of_int. vm_compute. lra. Qed.

Lemma sub32_finite_args : forall x y, finite32 (sub32 x y) -> finite32 x /\ finite32 y.
Proof.
  intros x y H. unfold sub32, b32_minus, finite32 in *.
  destruct x as [sx|sx|sx px ex|sx mx ex Hx]; destruct y as [sy|sy|sy py ey|sy my ey Hy];
    simpl in *; try (split; reflexivity); try discriminate;
    try (destruct sx; destruct sy; simpl in H; discriminate).
Qed.

Lemma rnd32_nonneg : forall x, (0 <= x)%R -> (0 <= rnd32 x)%R.
Proof. intros x H. rewrite <- rnd32_0. apply rnd32_le. assumption. Qed.

Lemma rnd64_nonneg : forall x, (0 <= x)%R -> (0 <= rnd64 x)%R.
Proof. intros x H. rewrite <- rnd64_0. apply rnd64_le. assumption. Qed.

(* range = (mx-mn)*gain/100.0 is non-negative for mn <= mx and gain >= 0 *)
Lemma map_range_nonneg : forall mn mx g,
  finite32 (map_range mn mx g) -> (val mn <= val mx)%R -> (0 <= val g)%R ->
  (0 <= val (map_range mn mx g))%R.
Proof.
  intros mn mx g F Hm Hg. unfold map_range in *.
  destruct (to_single_val _ F) as [F1 ->].
  assert (H100 : val64 f64_100 <> 0%R) by (rewrite val64_100; lra).
  destruct (div64_val _ _ H100 F1) as [F2 ->].
  pose proof (to_double_finite_arg _ F2) as F3.
  destruct (to_double_val _ F3) as [_ ->].
  destruct (mul32_val _ _ F3) as (-> & F4 & F5).
  destruct (sub32_finite_args _ _ F4) as [Fmx Fmn].
  rewrite (sub32_val _ _ Fmx Fmn F4). rewrite val64_100.
  apply rnd32_nonneg. apply rnd64_nonneg.
  apply Rmult_le_pos; [|lra].
  apply rnd32_nonneg. apply Rmult_le_pos; [|assumption].
  apply rnd32_nonneg. lra.
Qed.

(* updateMapping: control_points[1] <= control_points[3] *)
Lemma remap_ordered : forall s,
  finite32 (cp1 (remap s)) -> finite32 (cp3 (remap s)) ->
  (val (s_min s) <= val (s_max s))%R -> (0 <= val (gain s))%R ->
  (val (cp1 (remap s)) <= val (cp3 (remap s)))%R.
Proof.
  intros s F1 F3 Hm Hg. unfold remap in *. cbn [cp1 cp3] in *.
  set (c := map_center (s_min s) (s_max s) (offset s)) in *.
  set (r := map_range (s_min s) (s_max s) (gain s)) in *.
  unfold map_cp1, map_cp3 in *.
  assert (H2 : val64 f64_2 <> 0%R) by (rewrite val64_2; lra).
  destruct (to_single_val _ F1) as [A1 ->].
  destruct (sub64_val _ _ A1) as (A2 & A3 & ->).
  destruct (div64_val _ _ H2 A3) as [A4 ->].
  destruct (to_single_val _ F3) as [B1 ->].
  destruct (add64_val _ _ B1) as (_ & _ & ->).
  destruct (div64_val _ _ H2 A3) as [_ ->].
  pose proof (to_double_finite_arg _ A4) as Fr.
  pose proof (to_double_finite_arg _ A2) as Fc.
  destruct (to_double_val _ Fr) as [_ ->]. destruct (to_double_val _ Fc) as [_ ->].
  rewrite val64_2.
  assert (Hr : (0 <= val r)%R) by (apply map_range_nonneg; assumption).
  assert (Hh : (0 <= rnd64 (val r / 2))%R) by (apply rnd64_nonneg; lra).
  apply rnd32_le. apply rnd64_le. lra.
Qed.

(* monotonicity from the property's own hypotheses: after updateMapping with a
   non-negative gain and min <= max (no overflow), a larger slot value never
   gives a smaller output *)
Lemma remap_float_monotone : forall (expf_o : f32 -> f32) s0 v1 v2,
  let s := remap s0 in
  used s0 = true -> s_type s0 = ch_f -> s_scale s0 = 0 ->
  finite32 (s_min s0) -> finite32 (s_max s0) -> (val (s_min s0) <= val (s_max s0))%R ->
  (0 <= val (gain s0))%R ->
  finite32 (cp1 s) -> finite32 (cp3 s) ->
  (val v1 <= val v2)%R ->
  finite32 (lin v1 (cp1 s) (cp3 s)) -> finite32 (lin v2 (cp1 s) (cp3 s)) ->
  exists c1 c2, sub_output expf_o s v1 = [MsgF (s_path s) c1] /\
                sub_output expf_o s v2 = [MsgF (s_path s) c2] /\ (val c1 <= val c2)%R.
Proof.
  intros expf_o s0 v1 v2 s Hu Ht Hs Fmn Fmx Hm Hg F1 F3 Hv L1 L2.
  apply float_output_monotone; try assumption.
  apply remap_ordered; assumption.
Qed.

Lemma remap_int_monotone : forall (expf_o : f32 -> f32) s0 v1 v2 a b,
  let s := remap s0 in
  used s0 = true -> s_type s0 = ch_i ->
  finite32 (s_min s0) -> finite32 (s_max s0) ->
  val (s_min s0) = IZR a -> val (s_max s0) = IZR b -> a <= b ->
  -2147483648 <= a -> b <= 2147483647 ->
  (0 <= val (gain s0))%R ->
  finite32 (cp1 s) -> finite32 (cp3 s) ->
  (val v1 <= val v2)%R ->
  finite32 (lin v1 (cp1 s) (cp3 s)) -> finite32 (lin v2 (cp1 s) (cp3 s)) ->
  exists z1 z2, sub_output expf_o s v1 = [MsgI (s_path s) z1] /\
                sub_output expf_o s v2 = [MsgI (s_path s) z2] /\ z1 <= z2.
Proof.
  intros expf_o s0 v1 v2 a b s Hu Ht Fmn Fmx Ea Eb Hab Hlo Hhi Hg F1 F3 Hv L1 L2.
  apply (int_output_monotone expf_o s v1 v2 a b); try assumption.
  apply remap_ordered; try assumption.
  rewrite Ea, Eb. apply IZR_le. assumption.
Qed.

(* non-vacuity: the example sub-automation of AutoMapProofs is a remap with the
   default gain 100 *)
Definition ex_sub0 : sub :=
  mkSub true ch_f [47; 102; 97] (b32_of_bits 3212836864) (b32_of_bits 1092616192) 0 f32_100 f32_0 f32_0 f32_0.

Lemma ex_sub_is_remap : ex_sub = remap ex_sub0 /\ (0 <= val (gain ex_sub0))%R /\
  used ex_sub0 = true /\ s_type ex_sub0 = ch_f /\ s_scale ex_sub0 = 0.
Proof.
  split; [reflexivity|]. split; [|repeat split; reflexivity].
  cbn [gain ex_sub0]. replace (val f32_100) with 100%R; [lra|].
  unfold val, f32_100. vm_compute. lra.
Qed.
