(* C19 - IEEE-754 single/double helpers on top of Flocq 4.1 (IEEE754.Binary,
   IEEE754.Bits): the C expressions of automations.cpp evaluate float
   operands in binary32 and mixed float/double expressions in binary64
   (x86-64 SSE, FLT_EVAL_METHOD 0).  Conversions are written with
   binary_normalize (Flocq 4.1 has no Bconv).  No theorems in this file; the
   two precision facts are closed terms needed as arguments of Flocq's
   functions. *)
From Coq Require Import ZArith Bool.
From Flocq Require Import Core.Zaux Core.FLX IEEE754.BinarySingleNaN IEEE754.Binary IEEE754.Bits.
Local Open Scope Z_scope.

Definition f32 := binary32.
Definition f64 := binary64.
Definition NE : mode := mode_NE.

Definition p24 : Prec_gt_0 24 := eq_refl.
Definition e24 : Prec_lt_emax 24 128 := eq_refl.
Definition p53 : Prec_gt_0 53 := eq_refl.
Definition e53 : Prec_lt_emax 53 1024 := eq_refl.

Definition nan32 : f32 := proj1_sig default_nan_pl32.
Definition nan64 : f64 := proj1_sig default_nan_pl64.

(* (double)x : exact *)
Definition to_double (x : f32) : f64 :=
  match x with
  | B754_zero _ _ s => B754_zero 53 1024 s
  | B754_infinity _ _ s => B754_infinity 53 1024 s
  | B754_nan _ _ _ _ _ => nan64
  | B754_finite _ _ s m e _ => binary_normalize 53 1024 p53 e53 NE (cond_Zopp s (Zpos m)) e s
  end.

(* (float)x : round to nearest even *)
Definition to_single (x : f64) : f32 :=
  match x with
  | B754_zero _ _ s => B754_zero 24 128 s
  | B754_infinity _ _ s => B754_infinity 24 128 s
  | B754_nan _ _ _ _ _ => nan32
  | B754_finite _ _ s m e _ => binary_normalize 24 128 p24 e24 NE (cond_Zopp s (Zpos m)) e s
  end.

(* (double)n for an int n : exact *)
Definition double_of_int (n : Z) : f64 := binary_normalize 53 1024 p53 e53 NE n 0 false.

Definition add32 : f32 -> f32 -> f32 := b32_plus NE.
Definition sub32 : f32 -> f32 -> f32 := b32_minus NE.
Definition mul32 : f32 -> f32 -> f32 := b32_mult NE.
Definition add64 : f64 -> f64 -> f64 := b64_plus NE.
Definition sub64 : f64 -> f64 -> f64 := b64_minus NE.
Definition mul64 : f64 -> f64 -> f64 := b64_mult NE.
Definition div64 : f64 -> f64 -> f64 := b64_div NE.

(* x > y, x < y on floats (false when unordered) *)
Definition gt32 (x y : f32) : bool :=
  match b32_compare x y with Some Gt => true | _ => false end.
Definition lt32 (x y : f32) : bool :=
  match b32_compare x y with Some Lt => true | _ => false end.
Definition ge32 (x y : f32) : bool :=
  match b32_compare x y with Some Gt | Some Eq => true | _ => false end.
Definition eq32 (x y : f32) : bool :=
  match b32_compare x y with Some Eq => true | _ => false end.

(* roundf: to the nearest integer, halfway cases away from zero *)
Definition roundf (x : f32) : f32 := Bnearbyint 24 128 e24 unop_nan_pl32 mode_NA x.

(* (int)x for an integral float; None where the C conversion is undefined *)
Definition int_of_float (x : f32) : option Z :=
  if is_finite 24 128 x then
    let z := Btrunc 24 128 x in
    if (-2147483648 <=? z) && (z <=? 2147483647) then Some z else None
  else None.

(* constants *)
Definition f32_0 : f32 := b32_of_bits 0.
Definition f32_1 : f32 := b32_of_bits 1065353216.       (* 0x3f800000 *)
Definition f32_half : f32 := b32_of_bits 1056964608.    (* 0x3f000000 *)
Definition f32_100 : f32 := b32_of_bits 1120403456.     (* 0x42c80000 *)
Definition f64_half : f64 := b64_of_bits 4602678819172646912.   (* 0x3FE0000000000000 *)
Definition f64_2 : f64 := double_of_int 2.
Definition f64_100 : f64 := double_of_int 100.
Definition f64_127 : f64 := double_of_int 127.
Definition f64_16383 : f64 := double_of_int 16383.
