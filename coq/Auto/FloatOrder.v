(* C19 - IEEE-754 operations in the extended order (-inf < finite < +inf),
   generic in the format: a rounded result that overflows goes to the infinity
   of the sign of the exact result, so + and * by a non-negative factor stay
   monotone across overflow.  Used for binary32 and binary64. *)
From Coq Require Import ZArith Bool Lia Reals Lra.
From Flocq Require Import Core.Core IEEE754.BinarySingleNaN IEEE754.Binary.
Local Open Scope Z_scope.

Lemma Rlt_bool_false_inv : forall x y, Rlt_bool x y = false -> (y <= x)%R.
Proof.
  intros x y H. unfold Rlt_bool in H. destruct (Rcompare_spec x y); try discriminate; lra.
Qed.

Lemma Rlt_bool_true_inv : forall x y, Rlt_bool x y = true -> (x < y)%R.
Proof.
  intros x y H. unfold Rlt_bool in H. destruct (Rcompare_spec x y); try discriminate; lra.
Qed.

Section Ext.
Variable prec emax : Z.
Context (hp : Prec_gt_0 prec) (he : Prec_lt_emax prec emax).

Notation bf := (binary_float prec emax).
Notation fexp := (FLT_exp (3 - emax - prec) prec).

Definition Mx : R := bpow radix2 emax.
Definition rndx (r : R) : R := round radix2 fexp (round_mode mode_NE) r.

(* extended value: the infinities sit at +-2^emax, beyond every finite value *)
Definition xv (x : bf) : R :=
  match x with
  | B754_infinity _ _ false => Mx
  | B754_infinity _ _ true => (- Mx)%R
  | _ => B2R prec emax x
  end.

(* saturation at +-2^emax *)
Definition sat (t : R) : R :=
  if Rle_dec Mx t then Mx else if Rle_dec t (- Mx) then (- Mx)%R else t.

Definition nnan (x : bf) : Prop := is_nan prec emax x = false.
Definition fin (x : bf) : Prop := is_finite prec emax x = true.

Lemma Mx_pos : (0 < Mx)%R.
Proof. apply bpow_gt_0. Qed.

Lemma rndx_le : forall x y, (x <= y)%R -> (rndx x <= rndx y)%R.
Proof.
  intros x y H. unfold rndx. apply round_le; [|apply valid_rnd_round_mode|exact H].
  apply FLT_exp_valid. exact hp.
Qed.

Lemma rndx_0 : rndx 0 = 0%R.
Proof. unfold rndx. apply round_0. apply valid_rnd_round_mode. Qed.

Lemma sat_le : forall x y, (x <= y)%R -> (sat x <= sat y)%R.
Proof.
  intros x y H. pose proof Mx_pos. unfold sat.
  destruct (Rle_dec Mx x); destruct (Rle_dec Mx y); destruct (Rle_dec x (- Mx)); destruct (Rle_dec y (- Mx)); lra.
Qed.

Lemma sat_id : forall t, (Rabs t < Mx)%R -> sat t = t.
Proof.
  intros t H. apply Rabs_lt_inv in H. unfold sat.
  destruct (Rle_dec Mx t); [lra|]. destruct (Rle_dec t (- Mx)); lra.
Qed.

Lemma sat_hi : forall t, (Mx <= t)%R -> sat t = Mx.
Proof. intros t H. unfold sat. destruct (Rle_dec Mx t); [reflexivity|lra]. Qed.

Lemma sat_lo : forall t, (t <= - Mx)%R -> sat t = (- Mx)%R.
Proof.
  intros t H. pose proof Mx_pos. unfold sat. destruct (Rle_dec Mx t); [lra|].
  destruct (Rle_dec t (- Mx)); [reflexivity|lra].
Qed.

Lemma sat_bounds : forall t, (- Mx <= sat t <= Mx)%R.
Proof.
  intros t. pose proof Mx_pos. unfold sat.
  destruct (Rle_dec Mx t); [lra|]. destruct (Rle_dec t (- Mx)); lra.
Qed.

Lemma fin_lt : forall x : bf, fin x -> (- Mx < B2R prec emax x < Mx)%R.
Proof.
  intros x _. pose proof (abs_B2R_lt_emax prec emax x) as H. apply Rabs_lt_inv in H. exact H.
Qed.

Lemma fin_xv : forall x : bf, fin x -> xv x = B2R prec emax x.
Proof. intros x H. destruct x; try reflexivity; discriminate. Qed.

Lemma fin_nnan : forall x : bf, fin x -> nnan x.
Proof. intros x H. destruct x; try reflexivity; discriminate. Qed.

Lemma xv_bounds : forall x : bf, (- Mx <= xv x <= Mx)%R.
Proof.
  intros x. pose proof Mx_pos. destruct x as [s|s|s pl e|s m e Hb]; simpl.
  - lra.
  - destruct s; lra.
  - lra.
  - pose proof (fin_lt (B754_finite prec emax s m e Hb) eq_refl). simpl in H0. lra.
Qed.

(* a non-NaN value strictly inside the bounds is finite *)
Lemma xv_inside_fin : forall x : bf, nnan x -> (- Mx < xv x < Mx)%R -> fin x.
Proof.
  intros x Hn H. destruct x as [s|s|s pl e|s m e Hb]; try reflexivity; try discriminate.
  simpl in H. destruct s; lra.
Qed.

(* comparison of non-NaN values = comparison of the extended values *)
Lemma cmp_xv : forall x y : bf, nnan x -> nnan y ->
  Bcompare prec emax x y = Some (Rcompare (xv x) (xv y)).
Proof.
  intros x y Hx Hy. pose proof Mx_pos as HM.
  destruct x as [sx|sx|sx plx ex|sx mx ex Hbx]; try discriminate;
  destruct y as [sy|sy|sy ply ey|sy my ey Hby]; try discriminate;
  try (apply Bcompare_correct; reflexivity).
  - (* zero, inf *)
    destruct sy; simpl; [rewrite Rcompare_Gt by lra|rewrite Rcompare_Lt by lra]; reflexivity.
  - destruct sx; simpl; [rewrite Rcompare_Lt by lra|rewrite Rcompare_Gt by lra]; reflexivity.
  - destruct sx; destruct sy; simpl;
      [rewrite Rcompare_Eq by lra|rewrite Rcompare_Lt by lra|rewrite Rcompare_Gt by lra|rewrite Rcompare_Eq by lra];
      reflexivity.
  - pose proof (fin_lt (B754_finite prec emax sy my ey Hby) eq_refl) as Hf. simpl in Hf.
    destruct sx; simpl; [rewrite Rcompare_Lt by lra|rewrite Rcompare_Gt by lra]; reflexivity.
  - pose proof (fin_lt (B754_finite prec emax sx mx ex Hbx) eq_refl) as Hf. simpl in Hf.
    destruct sy; simpl; [rewrite Rcompare_Gt by lra|rewrite Rcompare_Lt by lra]; reflexivity.
Qed.

(* sign bit and sign of the value *)
Lemma sign_val : forall x : bf, fin x ->
  (Bsign prec emax x = true -> B2R prec emax x <= 0)%R /\
  (Bsign prec emax x = false -> 0 <= B2R prec emax x)%R.
Proof.
  intros x H. destruct x as [s|s|s pl e|s m e Hb]; try discriminate; simpl.
  - split; intros _; lra.
  - split; intro Hs; subst s; simpl.
    + apply F2R_le_0. simpl. lia.
    + apply F2R_ge_0. simpl. lia.
Qed.

Lemma overflow_is_inf : forall (x : bf) s,
  B2FF prec emax x = binary_overflow prec emax mode_NE s -> x = B754_infinity prec emax s.
Proof.
  intros x s H. unfold Binary.binary_overflow, BinarySingleNaN.binary_overflow, overflow_to_inf in H.
  cbn [SF2FF] in H. destruct x; simpl in H; try discriminate. inversion H. reflexivity.
Qed.

(* from |rounded| >= 2^emax and the sign of the exact value *)
Lemma sat_overflow : forall (t : R) (s : bool),
  Rlt_bool (Rabs (rndx t)) Mx = false ->
  (s = true -> t <= 0)%R -> (s = false -> 0 <= t)%R ->
  xv (B754_infinity prec emax s) = sat (rndx t).
Proof.
  intros t s Hov Hneg Hpos.
  assert (Hge : (Mx <= Rabs (rndx t))%R) by (apply Rlt_bool_false_inv; assumption).
  destruct s; simpl.
  - assert (rndx t <= 0)%R by (rewrite <- rndx_0; apply rndx_le; auto).
    rewrite Rabs_left1 in Hge by assumption. rewrite sat_lo by lra. reflexivity.
  - assert (0 <= rndx t)%R by (rewrite <- rndx_0; apply rndx_le; auto).
    rewrite Rabs_pos_eq in Hge by assumption. rewrite sat_hi by lra. reflexivity.
Qed.

Variable nan2 : bf -> bf -> { n : bf | is_nan prec emax n = true }.

(* x * y for finite operands: never NaN, saturated rounded product *)
Lemma mult_xv : forall x y : bf, fin x -> fin y ->
  nnan (Bmult prec emax hp he nan2 mode_NE x y) /\
  xv (Bmult prec emax hp he nan2 mode_NE x y) =
    sat (rndx (B2R prec emax x * B2R prec emax y)).
Proof.
  intros x y Fx Fy. pose proof (Bmult_correct prec emax hp he nan2 mode_NE x y) as C.
  match type of C with if ?b then _ else _ => destruct b eqn:E end.
  - destruct C as (C1 & C2 & _). unfold fin in *. rewrite Fx, Fy in C2. simpl in C2.
    split; [apply fin_nnan; exact C2|]. rewrite fin_xv by exact C2. rewrite C1.
    symmetry. apply sat_id. apply Rlt_bool_true_inv. exact E.
  - apply overflow_is_inf in C. rewrite C. split; [reflexivity|].
    destruct (sign_val x Fx) as [Nx Px]. destruct (sign_val y Fy) as [Ny Py].
    apply sat_overflow; [exact E| |].
    + intro Hs. destruct (Bsign prec emax x); destruct (Bsign prec emax y); simpl in Hs; try discriminate.
      * specialize (Nx eq_refl). specialize (Py eq_refl). nra.
      * specialize (Px eq_refl). specialize (Ny eq_refl). nra.
    + intro Hs. destruct (Bsign prec emax x); destruct (Bsign prec emax y); simpl in Hs; try discriminate.
      * specialize (Nx eq_refl). specialize (Ny eq_refl). nra.
      * specialize (Px eq_refl). specialize (Py eq_refl). nra.
Qed.

Lemma plus_xv : forall x y : bf, fin x -> fin y ->
  nnan (Bplus prec emax hp he nan2 mode_NE x y) /\
  xv (Bplus prec emax hp he nan2 mode_NE x y) =
    sat (rndx (B2R prec emax x + B2R prec emax y)).
Proof.
  intros x y Fx Fy. pose proof (Bplus_correct prec emax hp he nan2 mode_NE x y Fx Fy) as C.
  match type of C with if ?b then _ else _ => destruct b eqn:E end.
  - destruct C as (C1 & C2 & _).
    split; [apply fin_nnan; exact C2|]. rewrite fin_xv by exact C2. rewrite C1.
    symmetry. apply sat_id. apply Rlt_bool_true_inv. exact E.
  - destruct C as [C Hs]. apply overflow_is_inf in C. rewrite C. split; [reflexivity|].
    destruct (sign_val x Fx) as [Nx Px]. destruct (sign_val y Fy) as [Ny Py].
    apply sat_overflow; [exact E| |]; intro Hsx; rewrite Hsx in Hs; symmetry in Hs.
    + specialize (Nx Hsx). specialize (Ny Hs). lra.
    + specialize (Px Hsx). specialize (Py Hs). lra.
Qed.

Lemma minus_xv : forall x y : bf, fin x -> fin y ->
  nnan (Bminus prec emax hp he nan2 mode_NE x y) /\
  xv (Bminus prec emax hp he nan2 mode_NE x y) =
    sat (rndx (B2R prec emax x - B2R prec emax y)).
Proof.
  intros x y Fx Fy. pose proof (Bminus_correct prec emax hp he nan2 mode_NE x y Fx Fy) as C.
  match type of C with if ?b then _ else _ => destruct b eqn:E end.
  - destruct C as (C1 & C2 & _).
    split; [apply fin_nnan; exact C2|]. rewrite fin_xv by exact C2. rewrite C1.
    symmetry. apply sat_id. apply Rlt_bool_true_inv. exact E.
  - destruct C as [C Hs]. apply overflow_is_inf in C. rewrite C. split; [reflexivity|].
    destruct (sign_val x Fx) as [Nx Px]. destruct (sign_val y Fy) as [Ny Py].
    apply sat_overflow; [exact E| |]; intro Hsx; rewrite Hsx in Hs.
    + specialize (Nx Hsx). assert (Bsign prec emax y = false) by (destruct (Bsign prec emax y); [discriminate|reflexivity]).
      specialize (Py H). lra.
    + specialize (Px Hsx). assert (Bsign prec emax y = true) by (destruct (Bsign prec emax y); [reflexivity|discriminate]).
      specialize (Ny H). lra.
Qed.

End Ext.

Global Arguments Mx emax : simpl never.
Global Arguments sat emax t : simpl never.
Global Arguments rndx prec emax r : simpl never.
