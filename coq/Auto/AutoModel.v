(* C19 - model of the MIDI-learn bookkeeping of rtosc::AutomationMgr
   (src/cpp/automations.cpp): per slot the integers learning / midi_cc /
   midi_nrpn, the counter learn_queue_len, and the NRPN registers.  This part
   of the manager is pure integer code; which slot a MIDI message drives and
   with which raw value is returned as a list of [drive]s, the float mapping
   of the driven slot lives in AutoMapModel.v.

   The model follows the code after the D17 repair (clearSlot renumbers the
   queue only when the cleared slot was waiting) and the D18 repair (an
   incomplete NRPN sequence returns before the learn code); the previous
   functions are kept in AutoRegress.v.   No proofs in this file. *)
From Coq Require Import List ZArith Bool.
Import ListNotations.
Local Open Scope Z_scope.

Record qslot := mkQ { learning : Z; cc : Z; nrpn : Z }.
Record regs := mkR { parhi : Z; parlo : Z; valhi : Z; vallo : Z }.
Record qstate := mkQS { qslots : list qslot; qlen : Z; nregs : regs }.

(* the constructor: every slot -1/-1/-1, queue empty; the NRPN registers are
   left uninitialised by the code, so they are a parameter *)
Definition q_init (nslots : nat) (r : regs) : qstate :=
  mkQS (repeat (mkQ (-1) (-1) (-1)) nslots) 0 r.

Fixpoint upd_nth {A} (i : nat) (f : A -> A) (l : list A) : list A :=
  match l, i with
  | [], _ => []
  | x :: t, O => f x :: t
  | x :: t, S j => x :: upd_nth j f t
  end.

(* index of the first element satisfying p *)
Fixpoint find_index {A} (p : A -> bool) (l : list A) : option nat :=
  match l with
  | [] => None
  | x :: t => if p x then Some O
              else match find_index p t with Some i => Some (S i) | None => None end
  end.

(* indices of all elements satisfying p, ascending *)
Fixpoint find_all {A} (p : A -> bool) (l : list A) (base : nat) : list nat :=
  match l with
  | [] => []
  | x :: t => if p x then base :: find_all p t (S base) else find_all p t (S base)
  end.

(* ---- createBinding, line "if(start_midi_learn && learning == -1 &&
        midi_cc == -1) learning = ++learn_queue_len" ------------------------- *)
(* None: slots[slot] outside the array (createBinding has no range check) *)
Definition q_create (slot : nat) (learn : bool) (s : qstate) : option qstate :=
  match nth_error (qslots s) slot with
  | None => None
  | Some q =>
      if learn && (learning q =? -1) && (cc q =? -1)
      then Some (mkQS (upd_nth slot (fun q => mkQ (qlen s + 1) (cc q) (nrpn q)) (qslots s))
                      (qlen s + 1) (nregs s))
      else Some s
  end.

(* ---- clearSlot (queue part) ------------------------------------------------ *)
Definition dec_learning (q : qslot) : qslot := mkQ (learning q - 1) (cc q) (nrpn q).

Definition q_clear (slot : Z) (s : qstate) : qstate :=
  if (slot >=? Z.of_nat (length (qslots s))) || (slot <? 0) then s
  else
    match nth_error (qslots s) (Z.to_nat slot) with
    | None => s
    | Some q0 =>
        let l := learning q0 in
        let ql := if l >? 0 then qlen s - 1 else qlen s in
        let qs1 := map (fun q => if (l >? 0) && (learning q >? l) then dec_learning q else q)
                       (qslots s) in
        mkQS (upd_nth (Z.to_nat slot) (fun _ => mkQ (-1) (-1) (-1)) qs1) ql (nregs s)
    end.

(* ---- NRPN registers -------------------------------------------------------- *)
Definition C_dataentryhi := 6.
Definition C_dataentrylo := 38.
Definition C_nrpnhi := 99.
Definition C_nrpnlo := 98.

Definition is_nrpn_type (ty : Z) : bool :=
  (ty =? C_dataentryhi) || (ty =? C_dataentrylo) || (ty =? C_nrpnhi) || (ty =? C_nrpnlo).

Definition setparameternumber (ty v : Z) (r : regs) : regs :=
  if ty =? C_nrpnhi then mkR v (parlo r) (-1) (-1)
  else if ty =? C_nrpnlo then mkR (parhi r) v (-1) (-1)
  else if ty =? C_dataentryhi then
    if (parhi r >=? 0) && (parlo r >=? 0) then mkR (parhi r) (parlo r) v (vallo r) else r
  else if ty =? C_dataentrylo then
    if (parhi r >=? 0) && (parlo r >=? 0) then mkR (parhi r) (parlo r) (valhi r) v else r
  else r.

(* getnrpn(...) == 0 *)
Definition nrpn_complete (r : regs) : bool :=
  negb ((parhi r <? 0) || (parlo r <? 0) || (valhi r <? 0) || (vallo r <? 0)).

(* ---- handleMidi -------------------------------------------------------------- *)
(* setSlot(slot, num/den) with den = 127.0 or 16383.0 *)
Inductive drive := Drive (slot : nat) (num den : Z).

(* "No bound CC, now to see if there's something to learn" *)
Definition learn (is_nrpn : bool) (par val : Z) (s : qstate) : qstate * list drive :=
  match find_index (fun q => learning q =? 1) (qslots s) with
  | None => (s, [])
  | Some i =>
      let qs1 := upd_nth i (fun q => if is_nrpn then mkQ (-1) (cc q) par
                                     else mkQ (-1) par (nrpn q)) (qslots s) in
      let qs2 := map (fun q => if learning q >? 1 then dec_learning q else q) qs1 in
      (mkQS qs2 (qlen s - 1) (nregs s), [Drive i val 127])
  end.

(* result: new state, driven slots in order, return value *)
Definition q_midi (chan ty val : Z) (s : qstate) : qstate * list drive * Z :=
  if is_nrpn_type ty then
    let r := setparameternumber ty val (nregs s) in
    let s1 := mkQS (qslots s) (qlen s) r in
    if nrpn_complete r then
      let par := parhi r * 128 + parlo r in
      let value := valhi r * 128 + vallo r in
      match find_all (fun q => nrpn q =? par) (qslots s) 0 with
      | [] => let (s2, ds) := learn true par val s1 in (s2, ds, 0)
      | bound => (s1, map (fun i => Drive i value 16383) bound, 1)
      end
    else (s1, [], 0)
  else
    let par := chan * 128 + ty in
    match find_all (fun q => cc q =? par) (qslots s) 0 with
    | [] => let (s2, ds) := learn false par val s in (s2, ds, 0)
    | bound => (s, map (fun i => Drive i val 127) bound, 1)
    end.

(* ---- queue-level operation histories --------------------------------------- *)
Inductive qop :=
| QCreate (slot : nat) (learn : bool)   (* a createBinding that reached the learn line *)
| QClear (slot : Z)
| QMidi (chan ty val : Z).

Definition q_step (s : qstate) (o : qop) : option (qstate * list drive) :=
  match o with
  | QCreate slot l => match q_create slot l s with Some s' => Some (s', []) | None => None end
  | QClear slot => Some (q_clear slot s, [])
  | QMidi c t v => let '(s', ds, _) := q_midi c t v s in Some (s', ds)
  end.

Fixpoint q_run (ops : list qop) (s : qstate) : option (qstate * list (list drive)) :=
  match ops with
  | [] => Some (s, [])
  | o :: r =>
      match q_step s o with
      | None => None
      | Some (s', ds) =>
          match q_run r s' with
          | Some (s'', dss) => Some (s'', ds :: dss)
          | None => None
          end
      end
  end.
