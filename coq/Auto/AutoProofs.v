(* C19 - proofs about the learn-queue model (Auto/AutoModel.v): the per-slot
   integers refine a FIFO queue of requesting slots; bindings are unique and a
   bound controller drives exactly its slot. *)
From Coq Require Import List ZArith Bool Lia Arith ZifyBool.
From RtoscV Require Import Auto.AutoModel.
Import ListNotations.
Local Open Scope Z_scope.

(* ======================================================================== *)
(* Spec: a FIFO queue of slots that asked for MIDI learn                      *)
(* ======================================================================== *)
Record sstate := mkS {
  squeue : list nat;          (* slots that asked, oldest first *)
  sbind : list (Z * Z);       (* per slot: bound CC / bound NRPN, -1 = none *)
  sregs : regs }.

Definition s_init (nslots : nat) (r : regs) : sstate :=
  mkS [] (repeat (-1, -1) nslots) r.

Definition mem_nat (i : nat) (l : list nat) : bool := existsb (Nat.eqb i) l.
Definition rm_nat (i : nat) (l : list nat) : list nat := filter (fun x => negb (Nat.eqb x i)) l.

(* a successful createBinding with start_midi_learn: the slot joins the tail
   unless it already waits or is already bound to a CC *)
Definition s_create (slot : nat) (l : bool) (a : sstate) : option sstate :=
  match nth_error (sbind a) slot with
  | None => None
  | Some (c, _) =>
      if l && negb (mem_nat slot (squeue a)) && (c =? -1)
      then Some (mkS (squeue a ++ [slot]) (sbind a) (sregs a))
      else Some a
  end.

(* clearSlot: the slot leaves the queue (wherever it is) and loses its bindings *)
Definition s_clear (slot : Z) (a : sstate) : sstate :=
  if (slot >=? Z.of_nat (length (sbind a))) || (slot <? 0) then a
  else mkS (rm_nat (Z.to_nat slot) (squeue a))
           (upd_nth (Z.to_nat slot) (fun _ => (-1, -1)) (sbind a)) (sregs a).

(* a previously unbound controller: the slot that asked first gets it *)
Definition s_serve (is_nrpn : bool) (ctl val : Z) (a : sstate) : sstate * list drive :=
  match squeue a with
  | [] => (a, [])
  | h :: t =>
      (mkS t (upd_nth h (fun b => if is_nrpn then (fst b, ctl) else (ctl, snd b)) (sbind a)) (sregs a),
       [Drive h val 127])
  end.

Definition s_midi (chan ty val : Z) (a : sstate) : sstate * list drive * Z :=
  if is_nrpn_type ty then
    let r := setparameternumber ty val (sregs a) in
    let a1 := mkS (squeue a) (sbind a) r in
    if nrpn_complete r then
      let ctl := parhi r * 128 + parlo r in
      let value := valhi r * 128 + vallo r in
      match find_all (fun b => snd b =? ctl) (sbind a) 0 with
      | [] => let (a2, ds) := s_serve true ctl val a1 in (a2, ds, 0)
      | bound => (a1, map (fun i => Drive i value 16383) bound, 1)
      end
    else (a1, [], 0)
  else
    let ctl := chan * 128 + ty in
    match find_all (fun b => fst b =? ctl) (sbind a) 0 with
    | [] => let (a2, ds) := s_serve false ctl val a in (a2, ds, 0)
    | bound => (a, map (fun i => Drive i val 127) bound, 1)
    end.

Definition s_step (a : sstate) (o : qop) : option (sstate * list drive) :=
  match o with
  | QCreate slot l => match s_create slot l a with Some a' => Some (a', []) | None => None end
  | QClear slot => Some (s_clear slot a, [])
  | QMidi c t v => let '(a', ds, _) := s_midi c t v a in Some (a', ds)
  end.

Fixpoint s_run (ops : list qop) (a : sstate) : option (sstate * list (list drive)) :=
  match ops with
  | [] => Some (a, [])
  | o :: r =>
      match s_step a o with
      | None => None
      | Some (a', ds) =>
          match s_run r a' with
          | Some (a'', dss) => Some (a'', ds :: dss)
          | None => None
          end
      end
  end.

(* position of slot i in the queue, counted from 1; -1 if absent: what the
   code stores in slots[i].learning *)
Fixpoint pos1 (i : nat) (q : list nat) : Z :=
  match q with
  | [] => -1
  | h :: t => if Nat.eqb i h then 1
              else let r := pos1 i t in if r =? -1 then -1 else r + 1
  end.

(* the integers of state s represent queue q *)
Definition rep (s : qstate) (q : list nat) : Prop :=
  qlen s = Z.of_nat (length q) /\ NoDup q /\
  (forall i, In i q -> (i < length (qslots s))%nat) /\
  forall i qi, nth_error (qslots s) i = Some qi -> learning qi = pos1 i q.

Definition binds (s : qstate) : list (Z * Z) := map (fun q => (cc q, nrpn q)) (qslots s).

Definition abs (s : qstate) (a : sstate) : Prop :=
  rep s (squeue a) /\ binds s = sbind a /\ nregs s = sregs a.

(* "pending slots carry exactly 1..k, k = learn_queue_len" *)
Definition queue_inv (s : qstate) : Prop :=
  0 <= qlen s /\
  (forall i qi, nth_error (qslots s) i = Some qi -> learning qi = -1 \/ 1 <= learning qi <= qlen s) /\
  (forall k, 1 <= k <= qlen s ->
     exists i qi, nth_error (qslots s) i = Some qi /\ learning qi = k /\
       forall j qj, nth_error (qslots s) j = Some qj -> learning qj = k -> j = i).

(* no two slots share a controller *)
Definition uniq (s : qstate) : Prop :=
  forall i j qi qj, nth_error (qslots s) i = Some qi -> nth_error (qslots s) j = Some qj -> i <> j ->
    (cc qi <> -1 -> cc qi <> cc qj) /\ (nrpn qi <> -1 -> nrpn qi <> nrpn qj).

(* ======================================================================== *)
(* list lemmas                                                                *)
(* ======================================================================== *)
Lemma upd_nth_length : forall (A : Type) i (f : A -> A) l, length (upd_nth i f l) = length l.
Proof.
  intros A i f l. revert i. induction l as [|x l IH]; intros [|i]; simpl; auto.
Qed.

Lemma nth_error_upd_nth_same : forall (A : Type) i (f : A -> A) l,
  nth_error (upd_nth i f l) i = option_map f (nth_error l i).
Proof.
  intros A i f l. revert i. induction l as [|x l IH]; intros [|i]; simpl; auto.
Qed.

Lemma nth_error_upd_nth_other : forall (A : Type) i j (f : A -> A) l, i <> j ->
  nth_error (upd_nth i f l) j = nth_error l j.
Proof.
  intros A i j f l. revert i j. induction l as [|x l IH]; intros [|i] [|j] H; simpl; auto;
    try congruence; try (apply IH; congruence).
Qed.

Lemma map_upd_nth : forall (A B : Type) (g : A -> B) (f : A -> A) (f' : B -> B) i l,
  (forall x, g (f x) = f' (g x)) -> map g (upd_nth i f l) = upd_nth i f' (map g l).
Proof.
  intros A B g f f' i l H. revert i. induction l as [|x l IH]; intros [|i]; simpl; auto.
  - rewrite H. reflexivity.
  - rewrite IH. reflexivity.
Qed.

Lemma upd_nth_id : forall (A : Type) (f : A -> A) i l, (forall x, f x = x) -> upd_nth i f l = l.
Proof.
  intros A f i l H. revert i. induction l as [|x l IH]; intros [|i]; simpl; auto.
  - rewrite H. reflexivity.
  - rewrite IH. reflexivity.
Qed.

Lemma find_all_map : forall (A B : Type) (g : A -> B) (p : B -> bool) l base,
  find_all p (map g l) base = find_all (fun x => p (g x)) l base.
Proof.
  intros A B g p l. induction l as [|x l IH]; intro base; simpl; auto.
  rewrite IH. reflexivity.
Qed.

Lemma find_all_spec : forall (A : Type) (p : A -> bool) l base i,
  In i (find_all p l base) <->
  exists x, (base <= i)%nat /\ nth_error l (i - base) = Some x /\ p x = true.
Proof.
  intros A p l. induction l as [|x l IH]; intros base i; simpl.
  - split; [tauto|]. intros (y & _ & H & _). destruct (i - base)%nat; discriminate.
  - destruct (p x) eqn:E; simpl; rewrite IH; split.
    + intros [H|(y & H1 & H2 & H3)].
      * subst. exists x. rewrite Nat.sub_diag. auto.
      * exists y. split; [lia|]. split; [|assumption].
        replace (i - base)%nat with (S (i - S base)) by lia. assumption.
    + intros (y & H1 & H2 & H3).
      destruct (Nat.eq_dec i base) as [->|Hne]; [left; reflexivity|right].
      exists y. split; [lia|]. split; [|assumption].
      replace (i - base)%nat with (S (i - S base)) in H2 by lia. assumption.
    + intros (y & H1 & H2 & H3). exists y. split; [lia|]. split; [|assumption].
      replace (i - base)%nat with (S (i - S base)) by lia. assumption.
    + intros (y & H1 & H2 & H3).
      destruct (Nat.eq_dec i base) as [->|Hne].
      * rewrite Nat.sub_diag in H2. simpl in H2. inversion H2; subst. congruence.
      * exists y. split; [lia|]. split; [|assumption].
        replace (i - base)%nat with (S (i - S base)) in H2 by lia. assumption.
Qed.

Lemma find_all_nil : forall (A : Type) (p : A -> bool) l,
  find_all p l 0 = [] <-> forall i x, nth_error l i = Some x -> p x = false.
Proof.
  intros A p l. split.
  - intros H i x Hx. destruct (p x) eqn:E; [|reflexivity].
    assert (Hin : In i (find_all p l 0)).
    { apply find_all_spec. exists x. rewrite Nat.sub_0_r. repeat split; auto. lia. }
    rewrite H in Hin. destruct Hin.
  - intro H. destruct (find_all p l 0) as [|i t] eqn:E; [reflexivity|].
    assert (Hin : In i (find_all p l 0)) by (rewrite E; left; reflexivity).
    apply find_all_spec in Hin. destruct Hin as (x & _ & H2 & H3). rewrite Nat.sub_0_r in H2.
    rewrite (H _ _ H2) in H3. discriminate.
Qed.

(* exactly one element satisfies p: find_all returns that index *)
Lemma find_all_unique : forall (A : Type) (p : A -> bool) l i x,
  nth_error l i = Some x -> p x = true ->
  (forall j y, nth_error l j = Some y -> p y = true -> j = i) ->
  find_all p l 0 = [i].
Proof.
  intros A p l. 
  assert (G : forall l base i x, nth_error l i = Some x -> p x = true ->
            (forall j y, nth_error l j = Some y -> p y = true -> j = i) ->
            find_all p l base = [(base + i)%nat]).
  { clear l. induction l as [|z l IH]; intros base i x Hx Hp Hu.
    - destruct i; discriminate.
    - simpl. destruct i as [|i].
      + simpl in Hx. inversion Hx; subst. rewrite Hp. rewrite Nat.add_0_r. f_equal.
        assert (Hn : forall j y, nth_error l j = Some y -> p y = false).
        { intros j y Hy. destruct (p y) eqn:E; [|reflexivity].
          specialize (Hu (S j) y Hy E). discriminate. }
        clear -Hn. revert base. induction l as [|w l IH]; intro base; simpl; [reflexivity|].
        rewrite (Hn 0%nat w eq_refl). apply IH. intros j y Hy. apply (Hn (S j) y Hy).
      + simpl in Hx. destruct (p z) eqn:Ez.
        * specialize (Hu 0%nat z eq_refl Ez). discriminate.
        * rewrite (IH (S base) i x Hx Hp).
          -- f_equal. lia.
          -- intros j y Hy Hpy. specialize (Hu (S j) y Hy Hpy). lia. }
  intros i x Hx Hp Hu. rewrite (G l 0%nat i x Hx Hp Hu). reflexivity.
Qed.

Lemma find_index_some : forall (A : Type) (p : A -> bool) l i x,
  nth_error l i = Some x -> p x = true ->
  (forall j y, nth_error l j = Some y -> p y = true -> j = i) ->
  find_index p l = Some i.
Proof.
  intros A p l. induction l as [|z l IH]; intros i x Hx Hp Hu.
  - destruct i; discriminate.
  - simpl. destruct i as [|i].
    + simpl in Hx. inversion Hx; subst. rewrite Hp. reflexivity.
    + simpl in Hx. destruct (p z) eqn:Ez.
      * specialize (Hu 0%nat z eq_refl Ez). discriminate.
      * rewrite (IH i x Hx Hp); [reflexivity|].
        intros j y Hy Hpy. specialize (Hu (S j) y Hy Hpy). lia.
Qed.

Lemma find_index_none : forall (A : Type) (p : A -> bool) l,
  (forall j y, nth_error l j = Some y -> p y = false) -> find_index p l = None.
Proof.
  intros A p l. induction l as [|z l IH]; intro H; [reflexivity|].
  simpl. rewrite (H 0%nat z eq_refl). rewrite IH; [reflexivity|].
  intros j y Hy. apply (H (S j) y Hy).
Qed.

Lemma find_index_sound : forall (A : Type) (p : A -> bool) l i,
  find_index p l = Some i -> exists x, nth_error l i = Some x /\ p x = true.
Proof.
  intros A p l. induction l as [|z l IH]; intros i H; [discriminate|].
  simpl in H. destruct (p z) eqn:Ez.
  - inversion H; subst. exists z. auto.
  - destruct (find_index p l) as [k|] eqn:E; [|discriminate]. inversion H; subst.
    destruct (IH k eq_refl) as (x & H1 & H2). exists x. auto.
Qed.

Lemma nth_error_map_some : forall (A B : Type) (f : A -> B) l i y,
  nth_error (map f l) i = Some y -> exists x, nth_error l i = Some x /\ y = f x.
Proof.
  intros A B f l i y H. rewrite nth_error_map in H.
  destruct (nth_error l i) as [x|]; [|discriminate]. inversion H. exists x. auto.
Qed.

(* ======================================================================== *)
(* positions in the queue                                                     *)
(* ======================================================================== *)
Lemma pos1_range : forall i q, pos1 i q = -1 \/ 1 <= pos1 i q <= Z.of_nat (length q).
Proof.
  induction q as [|h t IH]; [left; reflexivity|].
  cbn [pos1 length]. destruct (Nat.eqb i h); [right; lia|].
  destruct (pos1 i t =? -1) eqn:E; [left; reflexivity|]. right. lia.
Qed.

Lemma pos1_notin : forall i q, ~ In i q <-> pos1 i q = -1.
Proof.
  induction q as [|h t IH]; [simpl; tauto|].
  cbn [pos1 In]. destruct (Nat.eqb i h) eqn:E.
  - apply Nat.eqb_eq in E. subst. split; [intro H; exfalso; apply H; auto|lia].
  - apply Nat.eqb_neq in E. destruct (pos1 i t =? -1) eqn:E2.
    + split; [reflexivity|]. intros _ [Hin|Hin]; [congruence|].
      assert (Hn : ~ In i t) by (apply IH; lia). contradiction.
    + pose proof (pos1_range i t) as Hr. split; [|lia]. intro Hn. exfalso.
      assert (Hn2 : ~ In i t) by tauto. apply IH in Hn2. lia.
Qed.

Lemma pos1_app_new : forall i q, ~ In i q -> pos1 i (q ++ [i]) = Z.of_nat (length q) + 1.
Proof.
  induction q as [|h t IH]; intro H.
  - simpl. rewrite Nat.eqb_refl. reflexivity.
  - cbn [app pos1 length]. destruct (Nat.eqb i h) eqn:E.
    + apply Nat.eqb_eq in E. subst. exfalso. apply H. left. reflexivity.
    + rewrite IH by (intro; apply H; right; assumption).
      destruct (Z.of_nat (length t) + 1 =? -1) eqn:E2; lia.
Qed.

Lemma pos1_app_other : forall i j q, j <> i -> pos1 j (q ++ [i]) = pos1 j q.
Proof.
  induction q as [|h t IH]; intro H.
  - simpl. apply Nat.eqb_neq in H. rewrite H. reflexivity.
  - cbn [app pos1]. rewrite IH by assumption. reflexivity.
Qed.

Lemma rm_nat_notin : forall i q, ~ In i q -> rm_nat i q = q.
Proof.
  induction q as [|h t IH]; intro H; [reflexivity|].
  cbn [rm_nat filter]. destruct (Nat.eqb h i) eqn:E.
  - apply Nat.eqb_eq in E. subst. exfalso. apply H. left. reflexivity.
  - simpl. f_equal. apply IH. intro. apply H. right. assumption.
Qed.

Lemma rm_nat_in : forall i j q, In j (rm_nat i q) <-> In j q /\ j <> i.
Proof.
  intros i j q. unfold rm_nat. rewrite filter_In. rewrite negb_true_iff, Nat.eqb_neq. tauto.
Qed.

Lemma rm_nat_nodup : forall i q, NoDup q -> NoDup (rm_nat i q).
Proof. intros i q H. apply NoDup_filter. assumption. Qed.

Lemma rm_nat_length : forall i q, NoDup q -> In i q ->
  Z.of_nat (length (rm_nat i q)) = Z.of_nat (length q) - 1.
Proof.
  induction q as [|h t IH]; intros Hd Hin; [destruct Hin|].
  inversion Hd as [|? ? Hnh Hdt]; subst. unfold rm_nat. cbn [filter]. fold (rm_nat i t).
  destruct (Nat.eqb h i) eqn:E; cbn [negb].
  - apply Nat.eqb_eq in E. subst h. rewrite rm_nat_notin by assumption. cbn [length]. lia.
  - apply Nat.eqb_neq in E. cbn [length]. destruct Hin as [->|Hin]; [congruence|].
    rewrite !Nat2Z.inj_succ. rewrite IH by assumption. lia.
Qed.

(* removing slot i: later slots move up by one *)
Ltac if_lia :=
  repeat match goal with
         | |- context [if ?b then _ else _] => let E := fresh "E" in destruct b eqn:E
         end; lia.

Lemma pos1_rm : forall i j q, NoDup q ->
  pos1 j (rm_nat i q) =
  if Nat.eqb j i then -1
  else if (pos1 i q >? 0) && (pos1 j q >? pos1 i q) then pos1 j q - 1 else pos1 j q.
Proof.
  intros i j q Hd. destruct (Nat.eqb j i) eqn:Eji.
  - apply Nat.eqb_eq in Eji. subst. apply pos1_notin. rewrite rm_nat_in. tauto.
  - induction q as [|h t IH]; [reflexivity|].
    inversion Hd as [|? ? Hnh Hdt]; subst. specialize (IH Hdt).
    unfold rm_nat. cbn [filter]. fold (rm_nat i t).
    pose proof (pos1_range i t) as Ri. pose proof (pos1_range j t) as Rj.
    destruct (Nat.eqb h i) eqn:Ehi; cbn [negb].
    + apply Nat.eqb_eq in Ehi. subst h.
      rewrite rm_nat_notin by assumption.
      cbn [pos1]. rewrite Nat.eqb_refl, Eji.
      destruct (pos1 j t =? -1) eqn:E2; if_lia.
    + cbn [pos1].
      assert (Eih : Nat.eqb i h = false).
      { apply Nat.eqb_neq. apply Nat.eqb_neq in Ehi. congruence. }
      rewrite Eih. rewrite IH.
      destruct (Nat.eqb j h) eqn:Ejh;
      destruct (pos1 i t =? -1) eqn:E1; destruct (pos1 j t =? -1) eqn:E2;
      destruct (pos1 i t >? 0) eqn:E3; destruct (pos1 j t >? pos1 i t) eqn:E4; cbn [andb];
      if_lia.
Qed.

(* the head of the queue is the slot with learning == 1; the others move up *)
Lemma pos1_head : forall h t j, NoDup (h :: t) ->
  (pos1 j (h :: t) = 1 <-> j = h) /\
  pos1 j t = if Nat.eqb j h then -1
             else if pos1 j (h :: t) >? 1 then pos1 j (h :: t) - 1 else pos1 j (h :: t).
Proof.
  intros h t j Hd. inversion Hd; subst. cbn [pos1].
  destruct (Nat.eqb j h) eqn:E.
  - apply Nat.eqb_eq in E. subst. split; [tauto|]. apply pos1_notin. assumption.
  - apply Nat.eqb_neq in E. pose proof (pos1_range j t).
    destruct (pos1 j t =? -1) eqn:E1.
    + split; [lia|]. simpl. lia.
    + split; [lia|]. destruct (pos1 j t + 1 >? 1) eqn:E2; lia.
Qed.

Lemma pos1_nth : forall q n i, NoDup q -> nth_error q n = Some i -> pos1 i q = Z.of_nat n + 1.
Proof.
  induction q as [|h t IH]; intros n i Hd Hn; [destruct n; discriminate|].
  inversion Hd; subst. destruct n as [|n]; cbn [pos1].
  - simpl in Hn. inversion Hn; subst. rewrite Nat.eqb_refl. reflexivity.
  - simpl in Hn. assert (Hin : In i t) by (eapply nth_error_In; eauto).
    destruct (Nat.eqb i h) eqn:E.
    + apply Nat.eqb_eq in E. subst. contradiction.
    + rewrite (IH n i H2 Hn). destruct (Z.of_nat n + 1 =? -1) eqn:E2; lia.
Qed.

Lemma pos1_inj : forall q i j, 1 <= pos1 i q -> pos1 i q = pos1 j q -> i = j.
Proof.
  induction q as [|h t IH]; intros i j H1 H2; [simpl in H1; lia|].
  cbn [pos1] in *. revert H1 H2.
  pose proof (pos1_range i t). pose proof (pos1_range j t).
  destruct (Nat.eqb i h) eqn:Ei; destruct (Nat.eqb j h) eqn:Ej.
  - intros _ _. apply Nat.eqb_eq in Ei. apply Nat.eqb_eq in Ej. congruence.
  - destruct (pos1 j t =? -1); lia.
  - destruct (pos1 i t =? -1); lia.
  - destruct (pos1 i t =? -1) eqn:E1; [lia|]. destruct (pos1 j t =? -1) eqn:E2; [lia|].
    intros H1 H2. apply IH; lia.
Qed.

(* ======================================================================== *)
(* the integers refine the FIFO queue                                          *)
(* ======================================================================== *)
Lemma mem_nat_In : forall i l, mem_nat i l = true <-> In i l.
Proof.
  intros i l. unfold mem_nat. rewrite existsb_exists. split.
  - intros (x & H1 & H2). apply Nat.eqb_eq in H2. subst. assumption.
  - intro H. exists i. split; [assumption|apply Nat.eqb_refl].
Qed.

Lemma NoDup_snoc : forall (i : nat) q, NoDup q -> ~ In i q -> NoDup (q ++ [i]).
Proof.
  induction q as [|h t IH]; intros Hd Hn; simpl.
  - constructor; [intros []|constructor].
  - inversion Hd as [|? ? Hh Ht]; subst. constructor.
    + intro Hin. apply in_app_or in Hin. destruct Hin as [Hin|[<-|[]]]; [contradiction|].
      apply Hn. left. reflexivity.
    + apply IH; [assumption|]. intro. apply Hn. right. assumption.
Qed.

Lemma binds_nth : forall s i,
  nth_error (binds s) i = option_map (fun q => (cc q, nrpn q)) (nth_error (qslots s) i).
Proof. intros. unfold binds. apply nth_error_map. Qed.

Lemma binds_length : forall s, length (binds s) = length (qslots s).
Proof. intros. unfold binds. apply map_length. Qed.

Lemma sim_create : forall s a slot l, abs s a ->
  match q_create slot l s with
  | Some s' => exists a', s_create slot l a = Some a' /\ abs s' a'
  | None => s_create slot l a = None
  end.
Proof.
  intros s a slot l ((Hlen & Hnd & Hbd & Hpos) & Hb & Hr).
  unfold q_create, s_create. rewrite <- Hb, binds_nth.
  destruct (nth_error (qslots s) slot) as [q0|] eqn:E0; cbn [option_map]; [|reflexivity].
  pose proof (Hpos _ _ E0) as Hl0.
  assert (Emem : (learning q0 =? -1) = negb (mem_nat slot (squeue a))).
  { destruct (mem_nat slot (squeue a)) eqn:Em; cbn [negb].
    - apply mem_nat_In in Em. destruct (pos1_range slot (squeue a)) as [Hr1|Hr1].
      + apply pos1_notin in Hr1. contradiction.
      + lia.
    - assert (~ In slot (squeue a)) by (intro Hin; apply mem_nat_In in Hin; congruence).
      apply pos1_notin in H. lia. }
  rewrite Emem.
  destruct (l && negb (mem_nat slot (squeue a)) && (cc q0 =? -1)) eqn:Ec.
  - eexists. split; [reflexivity|].
    assert (Hnin : ~ In slot (squeue a)).
    { intro Hin. apply mem_nat_In in Hin. rewrite Hin in Ec. rewrite andb_false_r in Ec. discriminate. }
    split; [|split].
    + split; [|split; [|split]]; cbn [qlen qslots squeue].
      * rewrite app_length. simpl. lia.
      * apply NoDup_snoc; assumption.
      * intros i Hin. rewrite upd_nth_length. apply in_app_or in Hin. destruct Hin as [Hin|[<-|[]]].
        -- apply Hbd. assumption.
        -- apply nth_error_Some. congruence.
      * intros i qi Hi. destruct (Nat.eq_dec i slot) as [->|Hne].
        -- rewrite nth_error_upd_nth_same, E0 in Hi. simpl in Hi. inversion Hi; subst. cbn [learning].
           rewrite pos1_app_new by assumption. lia.
        -- rewrite nth_error_upd_nth_other in Hi by congruence.
           rewrite pos1_app_other by assumption. apply Hpos. assumption.
    + cbn [sbind]. unfold binds. cbn [qslots].
      rewrite (map_upd_nth _ _ _ _ (fun b => b)) by reflexivity.
      rewrite upd_nth_id by reflexivity. reflexivity.
    + exact Hr.
  - eexists. split; [reflexivity|]. split; [|split]; try assumption.
    split; [|split; [|split]]; assumption.
Qed.

Lemma sim_clear : forall s a slot, abs s a -> abs (q_clear slot s) (s_clear slot a).
Proof.
  intros s a slot ((Hlen & Hnd & Hbd & Hpos) & Hb & Hr).
  unfold q_clear, s_clear. rewrite <- Hb, binds_length.
  destruct ((slot >=? Z.of_nat (length (qslots s))) || (slot <? 0)) eqn:Eg.
  - split; [|split]; try assumption. split; [|split; [|split]]; assumption.
  - set (n := Z.to_nat slot).
    assert (Hn : (n < length (qslots s))%nat) by (unfold n; lia).
    destruct (nth_error (qslots s) n) as [q0|] eqn:E0.
    2:{ apply nth_error_None in E0. lia. }
    pose proof (Hpos _ _ E0) as Hl0.
    pose proof (pos1_range n (squeue a)) as Hrg.
    split; [|split]; cbn [sbind sregs squeue nregs]; [|unfold binds; cbn [qslots]|assumption].
    + split; [|split; [|split]]; cbn [qlen qslots].
      * destruct (learning q0 >? 0) eqn:El.
        -- assert (Hin : In n (squeue a)).
           { destruct (in_dec Nat.eq_dec n (squeue a)) as [Hin|Hnin]; [assumption|].
             apply pos1_notin in Hnin. lia. }
           rewrite rm_nat_length by assumption. lia.
        -- assert (Hnin : ~ In n (squeue a)) by (apply pos1_notin; lia).
           rewrite rm_nat_notin by assumption. assumption.
      * apply rm_nat_nodup. assumption.
      * intros i Hin. apply rm_nat_in in Hin. rewrite upd_nth_length, map_length. apply Hbd. tauto.
      * intros i qi Hi. rewrite pos1_rm by assumption.
        destruct (Nat.eq_dec i n) as [->|Hne].
        -- rewrite nth_error_upd_nth_same, nth_error_map, E0 in Hi. simpl in Hi.
           inversion Hi; subst qi. rewrite Nat.eqb_refl. reflexivity.
        -- rewrite nth_error_upd_nth_other in Hi by congruence.
           apply nth_error_map_some in Hi. destruct Hi as (qi0 & Hi0 & ->).
           pose proof (Hpos _ _ Hi0) as Hli.
           assert (Ene : Nat.eqb i n = false) by (apply Nat.eqb_neq; assumption).
           rewrite Ene. rewrite <- Hl0, <- Hli.
           destruct ((learning q0 >? 0) && (learning qi0 >? learning q0)); reflexivity.
    + rewrite (map_upd_nth _ _ _ _ (fun _ => (-1, -1))) by reflexivity.
      rewrite map_map. f_equal. apply map_ext. intro q1.
      destruct ((learning q0 >? 0) && (learning q1 >? learning q0)); reflexivity.
Qed.

Lemma sim_learn : forall s a isn par val, abs s a ->
  let (s', ds) := learn isn par val s in
  let (a', ds') := s_serve isn par val a in
  ds = ds' /\ abs s' a'.
Proof.
  intros s a isn par val ((Hlen & Hnd & Hbd & Hpos) & Hb & Hr).
  unfold learn, s_serve. destruct (squeue a) as [|h t] eqn:Eq.
  - rewrite find_index_none.
    + split; [reflexivity|]. split; [|split]; try assumption.
      rewrite Eq. split; [|split; [|split]]; assumption.
    + intros j y Hy. rewrite (Hpos _ _ Hy). reflexivity.
  - assert (Hh : (h < length (qslots s))%nat) by (apply Hbd; left; reflexivity).
    destruct (nth_error (qslots s) h) as [qh|] eqn:Eh.
    2:{ apply nth_error_None in Eh. lia. }
    rewrite (find_index_some _ _ _ h qh Eh).
    + split; [reflexivity|]. split; [|split]; cbn [sbind sregs squeue nregs]; [| |assumption].
      * split; [|split; [|split]]; cbn [qlen qslots].
        -- rewrite Hlen. cbn [length]. lia.
        -- inversion Hnd; assumption.
        -- intros i Hin. rewrite map_length, upd_nth_length. apply Hbd. right. assumption.
        -- intros i qi Hi. apply nth_error_map_some in Hi. destruct Hi as (q1 & Hi & ->).
           destruct (pos1_head h t i Hnd) as [Hh1 Hh2]. rewrite Hh2.
           destruct (Nat.eq_dec i h) as [->|Hne].
           ++ rewrite nth_error_upd_nth_same, Eh in Hi. simpl in Hi. inversion Hi; subst.
              rewrite Nat.eqb_refl. destruct isn; reflexivity.
           ++ rewrite nth_error_upd_nth_other in Hi by congruence.
              assert (Ene : Nat.eqb i h = false) by (apply Nat.eqb_neq; assumption).
              rewrite Ene. rewrite <- (Hpos _ _ Hi).
              destruct (learning q1 >? 1); reflexivity.
      * rewrite <- Hb. unfold binds. cbn [qslots]. rewrite map_map.
        transitivity (map (fun q => (cc q, nrpn q))
                        (upd_nth h (fun q => if isn then mkQ (-1) (cc q) par else mkQ (-1) par (nrpn q))
                                 (qslots s))).
        { apply map_ext. intro q1. destruct (learning q1 >? 1); reflexivity. }
        apply map_upd_nth. intro q1. destruct isn; reflexivity.
    + rewrite (Hpos _ _ Eh). cbn [pos1]. rewrite Nat.eqb_refl. reflexivity.
    + intros j y Hy Hp. rewrite (Hpos _ _ Hy) in Hp.
      destruct (pos1_head h t j Hnd) as [Hh1 _]. apply Hh1. lia.
Qed.

Lemma abs_regs : forall s a r, abs s a ->
  abs (mkQS (qslots s) (qlen s) r) (mkS (squeue a) (sbind a) r).
Proof.
  intros s a r ((Hlen & Hnd & Hbd & Hpos) & Hb & Hr).
  split; [|split]; [|exact Hb|reflexivity].
  split; [|split; [|split]]; assumption.
Qed.

Lemma find_all_binds_cc : forall s a par, binds s = sbind a ->
  find_all (fun q => cc q =? par) (qslots s) 0 = find_all (fun b => fst b =? par) (sbind a) 0.
Proof. intros s a par Hb. rewrite <- Hb. unfold binds. rewrite find_all_map. reflexivity. Qed.

Lemma find_all_binds_nrpn : forall s a par, binds s = sbind a ->
  find_all (fun q => nrpn q =? par) (qslots s) 0 = find_all (fun b => snd b =? par) (sbind a) 0.
Proof. intros s a par Hb. rewrite <- Hb. unfold binds. rewrite find_all_map. reflexivity. Qed.

Lemma sim_midi : forall s a chan ty val, abs s a ->
  let '(s', ds, r) := q_midi chan ty val s in
  exists a', s_midi chan ty val a = (a', ds, r) /\ abs s' a'.
Proof.
  intros s a chan ty val Ha. pose proof Ha as (_ & Hb & Hr).
  unfold q_midi, s_midi. rewrite <- Hr.
  destruct (is_nrpn_type ty).
  - set (r := setparameternumber ty val (nregs s)).
    pose proof (abs_regs s a r Ha) as Ha1.
    destruct (nrpn_complete r).
    + rewrite <- (find_all_binds_nrpn s a _ Hb).
      destruct (find_all _ (qslots s) 0) as [|i0 l0].
      * pose proof (sim_learn _ _ true (parhi r * 128 + parlo r) val Ha1) as Hl.
        destruct (learn true _ val _) as [s2 ds].
        destruct (s_serve true _ val _) as [a2 ds2]. destruct Hl as [-> Hl].
        exists a2. split; [reflexivity|assumption].
      * eexists. split; [reflexivity|assumption].
    + eexists. split; [reflexivity|assumption].
  - rewrite <- (find_all_binds_cc s a _ Hb).
    destruct (find_all _ (qslots s) 0) as [|i0 l0].
    + pose proof (sim_learn _ _ false (chan * 128 + ty) val Ha) as Hl.
      destruct (learn false _ val s) as [s2 ds].
      destruct (s_serve false _ val a) as [a2 ds2]. destruct Hl as [-> Hl].
      exists a2. split; [reflexivity|assumption].
    + eexists. split; [reflexivity|assumption].
Qed.

Lemma sim_step : forall s a o, abs s a ->
  match q_step s o with
  | Some (s', ds) => exists a', s_step a o = Some (a', ds) /\ abs s' a'
  | None => s_step a o = None
  end.
Proof.
  intros s a o Ha. destruct o as [slot l|slot|c t v]; cbn [q_step s_step].
  - pose proof (sim_create s a slot l Ha) as H.
    destruct (q_create slot l s) as [s'|].
    + destruct H as (a' & -> & Ha'). exists a'. split; [reflexivity|assumption].
    + rewrite H. reflexivity.
  - eexists. split; [reflexivity|]. apply sim_clear. assumption.
  - pose proof (sim_midi s a c t v Ha) as H.
    destruct (q_midi c t v s) as [[s' ds] r]. destruct H as (a' & -> & Ha').
    exists a'. split; [reflexivity|assumption].
Qed.

Lemma sim_run : forall ops s a, abs s a ->
  match q_run ops s with
  | Some (s', dss) => exists a', s_run ops a = Some (a', dss) /\ abs s' a'
  | None => s_run ops a = None
  end.
Proof.
  induction ops as [|o ops IH]; intros s a Ha; cbn [q_run s_run].
  - exists a. split; [reflexivity|assumption].
  - pose proof (sim_step s a o Ha) as H.
    destruct (q_step s o) as [[s1 ds]|].
    + destruct H as (a1 & -> & Ha1). specialize (IH s1 a1 Ha1).
      destruct (q_run ops s1) as [[s2 dss]|].
      * destruct IH as (a2 & -> & Ha2). exists a2. split; [reflexivity|assumption].
      * rewrite IH. reflexivity.
    + rewrite H. reflexivity.
Qed.

Lemma map_repeat' : forall (A B : Type) (f : A -> B) x n, map f (repeat x n) = repeat (f x) n.
Proof. intros A B f x n. induction n as [|n IH]; simpl; [reflexivity|rewrite IH; reflexivity]. Qed.

Lemma abs_init : forall n r, abs (q_init n r) (s_init n r).
Proof.
  intros n r. split; [|split]; [|unfold binds, q_init, s_init; cbn [qslots sbind]; apply map_repeat'|reflexivity].
  split; [reflexivity|]. split; [constructor|]. split; [intros i []|].
  intros i qi Hi. apply nth_error_In in Hi. apply repeat_spec in Hi. subst. reflexivity.
Qed.

(* MIDI-learn requests are served in FIFO order: every history of the model is
   a history of the queue machine, with the same drives *)
Lemma learn_fifo : forall ops n r s dss, q_run ops (q_init n r) = Some (s, dss) ->
  exists a, s_run ops (s_init n r) = Some (a, dss) /\ abs s a.
Proof.
  intros ops n r s dss H. pose proof (sim_run ops _ _ (abs_init n r)) as G.
  rewrite H in G. exact G.
Qed.

Lemma rep_queue_inv : forall s q, rep s q -> queue_inv s.
Proof.
  intros s q (Hlen & Hnd & Hbd & Hpos). split; [lia|]. split.
  - intros i qi Hi. rewrite (Hpos _ _ Hi). rewrite Hlen. apply pos1_range.
  - intros k Hk.
    destruct (nth_error q (Z.to_nat (k - 1))) as [i|] eqn:Ei.
    2:{ apply nth_error_None in Ei. lia. }
    assert (Hin : In i q) by (eapply nth_error_In; eauto).
    destruct (nth_error (qslots s) i) as [qi|] eqn:Eqi.
    2:{ apply nth_error_None in Eqi. specialize (Hbd i Hin). lia. }
    assert (Hpi : pos1 i q = k) by (rewrite (pos1_nth q _ i Hnd Ei); lia).
    exists i, qi. split; [assumption|]. split; [rewrite (Hpos _ _ Eqi); assumption|].
    intros j qj Hj Hlj. rewrite (Hpos _ _ Hj) in Hlj.
    symmetry. apply (pos1_inj q i j); lia.
Qed.

Lemma run_queue_inv : forall ops n r s dss, q_run ops (q_init n r) = Some (s, dss) -> queue_inv s.
Proof.
  intros ops n r s dss H. destruct (learn_fifo _ _ _ _ _ H) as (a & _ & (Hrep & _)).
  eapply rep_queue_inv; eauto.
Qed.

(* ======================================================================== *)
(* bindings are unique; a bound controller drives exactly its slot            *)
(* ======================================================================== *)
Definition uniq_b (l : list (Z * Z)) : Prop :=
  forall i j b1 b2, nth_error l i = Some b1 -> nth_error l j = Some b2 -> i <> j ->
    (fst b1 <> -1 -> fst b1 <> fst b2) /\ (snd b1 <> -1 -> snd b1 <> snd b2).

Lemma uniq_binds : forall s, uniq s <-> uniq_b (binds s).
Proof.
  intro s. unfold uniq, uniq_b. split; intros H i j.
  - intros b1 b2 H1 H2 Hne. rewrite binds_nth in H1, H2.
    destruct (nth_error (qslots s) i) as [qi|] eqn:Ei; [|discriminate].
    destruct (nth_error (qslots s) j) as [qj|] eqn:Ej; [|discriminate].
    simpl in H1, H2. inversion H1; inversion H2; subst. simpl. eapply H; eauto.
  - intros qi qj H1 H2 Hne.
    specialize (H i j (cc qi, nrpn qi) (cc qj, nrpn qj)). rewrite !binds_nth, H1, H2 in H.
    apply H; auto.
Qed.

Lemma uniq_b_clear : forall l i, uniq_b l -> uniq_b (upd_nth i (fun _ => (-1, -1)) l).
Proof.
  intros l i H j k b1 b2 H1 H2 Hne.
  destruct (Nat.eq_dec j i) as [->|Hj].
  - rewrite nth_error_upd_nth_same in H1. destruct (nth_error l i); [|discriminate].
    simpl in H1. inversion H1; subst. simpl. split; intro; congruence.
  - rewrite nth_error_upd_nth_other in H1 by congruence.
    destruct (Nat.eq_dec k i) as [->|Hk].
    + rewrite nth_error_upd_nth_same in H2. destruct (nth_error l i); [|discriminate].
      simpl in H2. inversion H2; subst. simpl. split; intro; congruence.
    + rewrite nth_error_upd_nth_other in H2 by congruence. eapply H; eauto.
Qed.

Lemma uniq_b_bind_cc : forall l h ctl, uniq_b l ->
  find_all (fun b => fst b =? ctl) l 0 = [] ->
  uniq_b (upd_nth h (fun b => (ctl, snd b)) l).
Proof.
  intros l h ctl H Hn j k b1 b2 H1 H2 Hne.
  pose proof (proj1 (find_all_nil _ _ l) Hn) as Hfree.
  destruct (Nat.eq_dec j h) as [->|Hj]; destruct (Nat.eq_dec k h) as [->|Hk]; try congruence.
  - rewrite nth_error_upd_nth_same in H1. rewrite nth_error_upd_nth_other in H2 by congruence.
    destruct (nth_error l h) as [bh|] eqn:Eh; [|discriminate]. simpl in H1. inversion H1; subst.
    simpl. split.
    + intros _ E. specialize (Hfree _ _ H2). simpl in Hfree. lia.
    + apply (H h k bh b2); auto.
  - rewrite nth_error_upd_nth_other in H1 by congruence. rewrite nth_error_upd_nth_same in H2.
    destruct (nth_error l h) as [bh|] eqn:Eh; [|discriminate]. simpl in H2. inversion H2; subst.
    simpl. split.
    + intros _ E. specialize (Hfree _ _ H1). simpl in Hfree. lia.
    + apply (H j h b1 bh); auto.
  - rewrite nth_error_upd_nth_other in H1 by congruence.
    rewrite nth_error_upd_nth_other in H2 by congruence. eapply H; eauto.
Qed.

Lemma uniq_b_bind_nrpn : forall l h ctl, uniq_b l ->
  find_all (fun b => snd b =? ctl) l 0 = [] ->
  uniq_b (upd_nth h (fun b => (fst b, ctl)) l).
Proof.
  intros l h ctl H Hn j k b1 b2 H1 H2 Hne.
  pose proof (proj1 (find_all_nil _ _ l) Hn) as Hfree.
  destruct (Nat.eq_dec j h) as [->|Hj]; destruct (Nat.eq_dec k h) as [->|Hk]; try congruence.
  - rewrite nth_error_upd_nth_same in H1. rewrite nth_error_upd_nth_other in H2 by congruence.
    destruct (nth_error l h) as [bh|] eqn:Eh; [|discriminate]. simpl in H1. inversion H1; subst.
    simpl. split.
    + apply (H h k bh b2); auto.
    + intros _ E. specialize (Hfree _ _ H2). simpl in Hfree. lia.
  - rewrite nth_error_upd_nth_other in H1 by congruence. rewrite nth_error_upd_nth_same in H2.
    destruct (nth_error l h) as [bh|] eqn:Eh; [|discriminate]. simpl in H2. inversion H2; subst.
    simpl. split.
    + apply (H j h b1 bh); auto.
    + intros _ E. specialize (Hfree _ _ H1). simpl in Hfree. lia.
  - rewrite nth_error_upd_nth_other in H1 by congruence.
    rewrite nth_error_upd_nth_other in H2 by congruence. eapply H; eauto.
Qed.

Lemma s_step_uniq : forall a o a' ds, uniq_b (sbind a) -> s_step a o = Some (a', ds) -> uniq_b (sbind a').
Proof.
  intros a o a' ds Hu H. destruct o as [slot l|slot|c t v]; cbn [s_step] in H.
  - unfold s_create in H. destruct (nth_error (sbind a) slot) as [[c0 n0]|]; [|discriminate].
    destruct (l && negb (mem_nat slot (squeue a)) && (c0 =? -1)); inversion H; subst; assumption.
  - inversion H; subst. unfold s_clear.
    destruct ((slot >=? Z.of_nat (length (sbind a))) || (slot <? 0)); [assumption|].
    cbn [sbind]. apply uniq_b_clear. assumption.
  - unfold s_midi in H. destruct (is_nrpn_type t).
    + destruct (nrpn_complete _).
      * destruct (find_all _ (sbind a) 0) as [|i0 l0] eqn:Ef.
        -- unfold s_serve in H. cbn [squeue sbind sregs] in H.
           destruct (squeue a) as [|h tl]; inversion H; subst; cbn [sbind]; [assumption|].
           apply uniq_b_bind_nrpn; assumption.
        -- inversion H; subst. assumption.
      * inversion H; subst. assumption.
    + destruct (find_all _ (sbind a) 0) as [|i0 l0] eqn:Ef.
      * unfold s_serve in H. destruct (squeue a) as [|h tl]; inversion H; subst; cbn [sbind]; [assumption|].
        apply uniq_b_bind_cc; assumption.
      * inversion H; subst. assumption.
Qed.

Lemma s_run_uniq : forall ops a a' dss, uniq_b (sbind a) -> s_run ops a = Some (a', dss) -> uniq_b (sbind a').
Proof.
  induction ops as [|o ops IH]; intros a a' dss Hu H; cbn [s_run] in H.
  - inversion H; subst. assumption.
  - destruct (s_step a o) as [[a1 ds]|] eqn:E; [|discriminate].
    destruct (s_run ops a1) as [[a2 dss2]|] eqn:E2; [|discriminate]. inversion H; subst.
    eapply IH; [|eassumption]. eapply s_step_uniq; eauto.
Qed.

Lemma run_uniq : forall ops n r s dss, q_run ops (q_init n r) = Some (s, dss) -> uniq s.
Proof.
  intros ops n r s dss H. destruct (learn_fifo _ _ _ _ _ H) as (a & Hs & (_ & Hb & _)).
  apply uniq_binds. rewrite Hb. eapply s_run_uniq; [|eassumption].
  unfold s_init. cbn [sbind]. intros i j b1 b2 H1 H2 _.
  apply nth_error_In in H1. apply repeat_spec in H1. subst. simpl. split; intro; congruence.
Qed.

(* once bound, a controller drives exactly its slot: nothing else is driven,
   no binding and no queue position changes *)
Lemma bound_cc_drives_own : forall s i qi chan ty val,
  uniq s -> nth_error (qslots s) i = Some qi ->
  is_nrpn_type ty = false -> cc qi = chan * 128 + ty -> cc qi <> -1 ->
  q_midi chan ty val s = (s, [Drive i val 127], 1).
Proof.
  intros s i qi chan ty val Hu Hi Hty Hcc Hne. unfold q_midi. rewrite Hty.
  rewrite (find_all_unique _ (fun q => cc q =? chan * 128 + ty) (qslots s) i qi Hi).
  - reflexivity.
  - lia.
  - intros j qj Hj Hp. destruct (Nat.eq_dec j i) as [|Hji]; [assumption|].
    destruct (Hu i j qi qj Hi Hj (fun E => Hji (eq_sym E))) as [H1 _].
    exfalso. apply (H1 Hne). lia.
Qed.

Lemma bound_nrpn_drives_own : forall s i qi chan ty val,
  uniq s -> nth_error (qslots s) i = Some qi ->
  is_nrpn_type ty = true ->
  let r := setparameternumber ty val (nregs s) in
  nrpn_complete r = true -> nrpn qi = parhi r * 128 + parlo r -> nrpn qi <> -1 ->
  q_midi chan ty val s =
  (mkQS (qslots s) (qlen s) r, [Drive i (valhi r * 128 + vallo r) 16383], 1).
Proof.
  intros s i qi chan ty val Hu Hi Hty r Hc Hn Hne. unfold q_midi. rewrite Hty. fold r. rewrite Hc.
  rewrite (find_all_unique _ (fun q => nrpn q =? parhi r * 128 + parlo r) (qslots s) i qi Hi).
  - reflexivity.
  - lia.
  - intros j qj Hj Hp. destruct (Nat.eq_dec j i) as [|Hji]; [assumption|].
    destruct (Hu i j qi qj Hi Hj (fun E => Hji (eq_sym E))) as [_ H2].
    exfalso. apply (H2 Hne). lia.
Qed.
