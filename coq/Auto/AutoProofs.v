(* C19 - proofs about the learn-queue model (Auto/AutoModel.v). *)
From Coq Require Import List ZArith Bool Lia Arith.
From RtoscV Require Import Auto.AutoModel.
Import ListNotations.
Local Open Scope Z_scope.

Lemma upd_nth_length : forall (A : Type) i (f : A -> A) l, length (upd_nth i f l) = length l.
Proof.
  intros A i f l. revert i. induction l as [|x l IH]; intros [|i]; simpl; auto.
Qed.
