(* C19 - proofs about the value mapping (Auto/AutoMapModel.v): address and
   type of every emitted message, the clamp keeps values inside [min,max],
   toggles are booleans (structural, no real numbers), integer outputs stay
   inside integral bounds, monotonicity for ordered control points (via Flocq's
   real-number semantics of the IEEE operations). *)
From Coq Require Import List ZArith Bool Lia Reals Lra.
From Flocq Require Import Core.Core IEEE754.BinarySingleNaN IEEE754.Binary IEEE754.Bits.
From RtoscV Require Import Auto.F32 Auto.AutoModel Auto.AutoMapModel.
Import ListNotations.
Local Open Scope Z_scope.

(* ======================================================================== *)
(* Spec-side definitions                                                      *)
(* ======================================================================== *)
(* x <= y on floats: ordered and not greater *)
Definition fle (x y : f32) : Prop :=
  match b32_compare x y with Some Lt | Some Eq => True | _ => False end.

Definition not_nan (x : f32) : Prop := is_nan 24 128 x = false.

(* the message goes to the bound parameter's address with its type *)
Definition msg_for (s : sub) (m : msg) : Prop :=
  match m with
  | MsgI p _ => p = s_path s /\ s_type s = ch_i
  | MsgUB p => p = s_path s /\ s_type s = ch_i
  | MsgF p _ => p = s_path s /\ s_type s = ch_f
  | MsgT p _ => p = s_path s /\ (s_type s = ch_T \/ s_type s = ch_F)
  end.

(* ======================================================================== *)
(* address, type, toggles                                                     *)
(* ======================================================================== *)

Lemma sub_output_addr_type : forall (expf_o : f32 -> f32) s v m,
  In m (sub_output expf_o s v) -> used s = true /\ msg_for s m.
Proof.
  intros expf_o s v m H. unfold sub_output in H.
  destruct (used s); cbn [negb] in H; [|destruct H]. split; [reflexivity|].
  destruct (s_type s =? ch_i) eqn:Ei.
  - apply Z.eqb_eq in Ei.
    destruct (int_of_float _) as [z|]; destruct H as [<-|[]]; simpl; auto.
  - destruct (s_type s =? ch_f) eqn:Ef.
    + apply Z.eqb_eq in Ef. destruct H as [<-|[]]. simpl. auto.
    + destruct ((s_type s =? ch_T) || (s_type s =? ch_F)) eqn:Et; [|destruct H].
      destruct H as [<-|[]]. simpl. split; [reflexivity|].
      apply orb_true_iff in Et. destruct Et as [Et|Et]; apply Z.eqb_eq in Et; auto.
Qed.

(* one message per used sub-automation of a known type *)
Lemma sub_output_one : forall (expf_o : f32 -> f32) s v,
  used s = true -> (s_type s = ch_i \/ s_type s = ch_f \/ s_type s = ch_T) ->
  exists m, sub_output expf_o s v = [m].
Proof.
  intros expf_o s v Hu Ht. unfold sub_output. rewrite Hu. cbn [negb].
  destruct Ht as [Ht|[Ht|Ht]]; rewrite Ht; unfold ch_i, ch_f, ch_T, ch_F; simpl.
  - destruct (int_of_float _); eexists; reflexivity.
  - eexists; reflexivity.
  - eexists; reflexivity.
Qed.

(* ======================================================================== *)
(* the clamp: min <= out <= max, no real numbers involved                      *)
(* ======================================================================== *)
Lemma cmp_refl : forall x : f32, not_nan x -> b32_compare x x = Some Eq.
Proof.
  intros x Hx. unfold b32_compare, Bcompare, BinarySingleNaN.Bcompare.
  destruct x as [s|s|s pl e|s m e H]; try discriminate; simpl.
  - reflexivity.
  - destruct s; reflexivity.
  - destruct s; rewrite Z.compare_refl, Pos.compare_cont_refl; reflexivity.
Qed.

Lemma cmp_swap : forall x y : f32,
  b32_compare y x = match b32_compare x y with Some c => Some (CompOpp c) | None => None end.
Proof. intros. apply Bcompare_swap. Qed.

Lemma cmp_nan_l : forall x y : f32, not_nan x -> not_nan y -> exists c, b32_compare x y = Some c.
Proof.
  intros x y Hx Hy. unfold b32_compare, Bcompare, BinarySingleNaN.Bcompare.
  destruct x; destruct y; try discriminate; simpl; eexists; reflexivity.
Qed.

Lemma fle_refl : forall x, not_nan x -> fle x x.
Proof. intros x H. unfold fle. rewrite cmp_refl by assumption. exact I. Qed.

Lemma clamp_range : forall v mn mx, fle mn mx ->
  fle mn (clamp v mn mx) /\ fle (clamp v mn mx) mx.
Proof.
  intros v mn mx Hle. unfold clamp, gt32, ge32.
  assert (Hmn : not_nan mn /\ not_nan mx).
  { unfold fle, b32_compare, Bcompare, BinarySingleNaN.Bcompare in Hle.
    unfold not_nan. destruct mn; destruct mx; simpl in *; try tauto; auto. }
  destruct Hmn as [Hmn Hmx].
  destruct (b32_compare v mx) as [[| |]|] eqn:E1;
    try (split; [assumption|apply fle_refl; assumption]).
  - (* v = mx *)
    destruct (b32_compare v mn) as [[| |]|] eqn:E2; cbn [negb];
      try (split; [apply fle_refl; assumption|assumption]).
    + split; [unfold fle; rewrite cmp_swap, E2; exact I|unfold fle; rewrite E1; exact I].
    + split; [unfold fle; rewrite cmp_swap, E2; exact I|unfold fle; rewrite E1; exact I].
  - (* v < mx *)
    destruct (b32_compare v mn) as [[| |]|] eqn:E2; cbn [negb];
      try (split; [apply fle_refl; assumption|assumption]).
    + split; [unfold fle; rewrite cmp_swap, E2; exact I|unfold fle; rewrite E1; exact I].
    + split; [unfold fle; rewrite cmp_swap, E2; exact I|unfold fle; rewrite E1; exact I].
  - (* unordered: v is NaN, so v >= mn is false *)
    assert (E2 : b32_compare v mn = None).
    { unfold b32_compare, Bcompare, BinarySingleNaN.Bcompare in *.
      destruct v; destruct mx; destruct mn; simpl in *; try discriminate; try reflexivity. }
    rewrite E2. cbn [negb]. split; [apply fle_refl; assumption|assumption].
Qed.

(* float-typed linear parameter: the emitted value is inside [min,max] *)
Lemma float_output_in_range : forall (expf_o : f32 -> f32) s value,
  used s = true -> s_type s = ch_f -> s_scale s = 0 ->
  fle (s_min s) (s_max s) ->
  exists c, sub_output expf_o s value = [MsgF (s_path s) c] /\ fle (s_min s) c /\ fle c (s_max s).
Proof.
  intros expf_o s value Hu Ht Hs Hle. unfold sub_output. rewrite Hu, Ht, Hs. simpl.
  eexists. split; [reflexivity|]. apply clamp_range; assumption.
Qed.

(* toggles: true / false, true exactly above one half *)
Lemma toggle_output : forall (expf_o : f32 -> f32) s value,
  used s = true -> s_type s = ch_T ->
  sub_output expf_o s value = [MsgT (s_path s) (gt32 (lin value (cp1 s) (cp3 s)) f32_half)].
Proof.
  intros expf_o s value Hu Ht. unfold sub_output. rewrite Hu, Ht. reflexivity.
Qed.


(* ======================================================================== *)
(* real-number semantics (Flocq): finite results carry the rounded value      *)
(* ======================================================================== *)
Definition finite32 (x : f32) : Prop := is_finite 24 128 x = true.
Definition val (x : f32) : R := B2R 24 128 x.
Definition rnd32 (r : R) : R := round radix2 (FLT_exp (3 - 128 - 24) 24) (round_mode mode_NE) r.

Lemma overflow_not_finite : forall (x : f32) s,
  B2FF 24 128 x = binary_overflow 24 128 mode_NE s -> is_finite 24 128 x = false.
Proof.
  intros x s H. destruct x; try reflexivity;
  exfalso; revert H; unfold B2FF, Binary.binary_overflow, BinarySingleNaN.binary_overflow, overflow_to_inf;
  cbn [SF2FF]; discriminate.
Qed.

Lemma mul32_val : forall x y, finite32 (mul32 x y) ->
  val (mul32 x y) = rnd32 (val x * val y)%R /\ finite32 x /\ finite32 y.
Proof.
  intros x y H. unfold mul32, b32_mult in *. unfold finite32 in *.
  match goal with H : is_finite _ _ (Bmult _ _ ?hp ?he ?n ?m x y) = true |- _ =>
    pose proof (Bmult_correct 24 128 hp he n m x y) as C end.
  destruct (Rlt_bool _ _).
  - destruct C as (C1 & C2 & _). split; [exact C1|].
    rewrite H in C2. symmetry in C2. apply andb_true_iff in C2. exact C2.
  - apply overflow_not_finite in C. congruence.
Qed.

Lemma add32_finite_args : forall x y, finite32 (add32 x y) -> finite32 x /\ finite32 y.
Proof.
  intros x y H. unfold add32, b32_plus, finite32 in *.
  destruct x as [sx|sx|sx px ex|sx mx ex Hx]; destruct y as [sy|sy|sy py ey|sy my ey Hy];
    simpl in *; try (split; reflexivity); try discriminate;
    try (destruct sx; destruct sy; simpl in H; discriminate).
Qed.

Lemma add32_val : forall x y, finite32 (add32 x y) ->
  val (add32 x y) = rnd32 (val x + val y)%R /\ finite32 x /\ finite32 y.
Proof.
  intros x y H. destruct (add32_finite_args x y H) as [Fx Fy].
  split; [|split; assumption].
  unfold add32, b32_plus in *. unfold finite32 in *.
  match goal with H : is_finite _ _ (Bplus _ _ ?hp ?he ?n ?m x y) = true |- _ =>
    pose proof (Bplus_correct 24 128 hp he n m x y Fx Fy) as C end.
  destruct (Rlt_bool _ _).
  - destruct C as (C1 & _). exact C1.
  - destruct C as [C _]. apply overflow_not_finite in C. congruence.
Qed.

Lemma sub32_val : forall x y, finite32 x -> finite32 y -> finite32 (sub32 x y) ->
  val (sub32 x y) = rnd32 (val x - val y)%R.
Proof.
  intros x y Fx Fy H. unfold sub32, b32_minus in *. unfold finite32 in *.
  match goal with H : is_finite _ _ (Bminus _ _ ?hp ?he ?n ?m x y) = true |- _ =>
    pose proof (Bminus_correct 24 128 hp he n m x y Fx Fy) as C end.
  destruct (Rlt_bool _ _).
  - destruct C as (C1 & _). exact C1.
  - destruct C as [C _]. apply overflow_not_finite in C. congruence.
Qed.

Lemma rnd32_le : forall x y, (x <= y)%R -> (rnd32 x <= rnd32 y)%R.
Proof.
  intros x y H. unfold rnd32. apply round_le; [|apply valid_rnd_round_mode|exact H].
  apply FLT_exp_valid. reflexivity.
Qed.

Lemma rnd32_0 : rnd32 0 = 0%R.
Proof. unfold rnd32. apply round_0. apply valid_rnd_round_mode. Qed.

(* float v = value*(b-a) + a is monotone in value when a <= b (no overflow) *)
Lemma lin_monotone : forall v1 v2 a b,
  finite32 a -> finite32 b -> (val a <= val b)%R -> (val v1 <= val v2)%R ->
  finite32 (lin v1 a b) -> finite32 (lin v2 a b) ->
  (val (lin v1 a b) <= val (lin v2 a b))%R.
Proof.
  intros v1 v2 a b Fa Fb Hab Hv F1 F2. unfold lin in *.
  destruct (add32_val _ _ F1) as (E1 & Fm1 & _).
  destruct (add32_val _ _ F2) as (E2 & Fm2 & _).
  destruct (mul32_val _ _ Fm1) as (M1 & Fv1 & Fd).
  destruct (mul32_val _ _ Fm2) as (M2 & Fv2 & _).
  pose proof (sub32_val b a Fb Fa Fd) as D.
  rewrite E1, E2. apply rnd32_le. apply Rplus_le_compat_r.
  rewrite M1, M2. apply rnd32_le.
  apply Rmult_le_compat_r; [|assumption].
  rewrite D. rewrite <- rnd32_0. apply rnd32_le. lra.
Qed.

(* comparisons of finite floats are comparisons of their values *)
Lemma cmp_val : forall x y, finite32 x -> finite32 y ->
  b32_compare x y = Some (Rcompare (val x) (val y)).
Proof. intros x y Fx Fy. apply Bcompare_correct; assumption. Qed.

Lemma gt32_val : forall x y, finite32 x -> finite32 y -> gt32 x y = true <-> (val y < val x)%R.
Proof.
  intros x y Fx Fy. unfold gt32. rewrite cmp_val by assumption.
  destruct (Rcompare_spec (val x) (val y)); split; intro H0; try discriminate; try lra; reflexivity.
Qed.

Lemma lt32_val : forall x y, finite32 x -> finite32 y -> lt32 x y = true <-> (val x < val y)%R.
Proof.
  intros x y Fx Fy. unfold lt32. rewrite cmp_val by assumption.
  destruct (Rcompare_spec (val x) (val y)); split; intro H0; try discriminate; try lra; reflexivity.
Qed.

Lemma fle_val : forall x y, finite32 x -> finite32 y -> fle x y <-> (val x <= val y)%R.
Proof.
  intros x y Fx Fy. unfold fle. rewrite cmp_val by assumption.
  destruct (Rcompare_spec (val x) (val y)); split; intro H0; try tauto; try lra.
Qed.

Lemma ge32_val : forall x y, finite32 x -> finite32 y -> ge32 x y = true <-> (val y <= val x)%R.
Proof.
  intros x y Fx Fy. unfold ge32. rewrite cmp_val by assumption.
  destruct (Rcompare_spec (val x) (val y)); split; intro H0; try discriminate; try lra; reflexivity.
Qed.

Lemma clamp_val : forall v mn mx, finite32 v -> finite32 mn -> finite32 mx ->
  finite32 (clamp v mn mx) /\
  val (clamp v mn mx) =
    if Rlt_dec (val mx) (val v) then val mx
    else if Rlt_dec (val v) (val mn) then val mn else val v.
Proof.
  intros v mn mx Fv Fmn Fmx. unfold clamp.
  destruct (gt32 v mx) eqn:E1.
  - apply gt32_val in E1; try assumption. destruct (Rlt_dec (val mx) (val v)); [auto|lra].
  - assert (~ (val mx < val v)%R).
    { intro H. apply gt32_val in H; try assumption. congruence. }
    destruct (Rlt_dec (val mx) (val v)); [lra|].
    destruct (ge32 v mn) eqn:E2; cbn [negb].
    + apply ge32_val in E2; try assumption. destruct (Rlt_dec (val v) (val mn)); [lra|auto].
    + assert (~ (val mn <= val v)%R).
      { intro H1. apply ge32_val in H1; try assumption. congruence. }
      destruct (Rlt_dec (val v) (val mn)); [auto|lra].
Qed.

Lemma clamp_monotone : forall v1 v2 mn mx,
  finite32 v1 -> finite32 v2 -> finite32 mn -> finite32 mx ->
  (val mn <= val mx)%R -> (val v1 <= val v2)%R ->
  (val (clamp v1 mn mx) <= val (clamp v2 mn mx))%R.
Proof.
  intros v1 v2 mn mx F1 F2 Fmn Fmx Hm Hv.
  destruct (clamp_val v1 mn mx F1 Fmn Fmx) as [_ ->].
  destruct (clamp_val v2 mn mx F2 Fmn Fmx) as [_ ->].
  destruct (Rlt_dec (val mx) (val v1)); destruct (Rlt_dec (val mx) (val v2));
  destruct (Rlt_dec (val v1) (val mn)); destruct (Rlt_dec (val v2) (val mn)); lra.
Qed.

(* (int)roundf(c) for a finite c between integral bounds *)
Lemma int_of_roundf : forall c a b, finite32 c ->
  (IZR a <= val c <= IZR b)%R -> -2147483648 <= a -> b <= 2147483647 ->
  int_of_float (roundf c) = Some (ZnearestA (val c)) /\ a <= ZnearestA (val c) <= b.
Proof.
  intros c a b Fc [Ha Hb] Hlo Hhi.
  assert (Hk : a <= ZnearestA (val c) <= b).
  { split.
    - rewrite <- (Zrnd_IZR ZnearestA a). apply Zrnd_le; [apply valid_rnd_N|assumption].
    - rewrite <- (Zrnd_IZR ZnearestA b). apply Zrnd_le; [apply valid_rnd_N|assumption]. }
  split; [|assumption].
  unfold int_of_float, roundf.
  destruct (Bnearbyint_correct 24 128 e24 unop_nan_pl32 mode_NA c) as (R1 & R2 & _).
  rewrite R2. unfold finite32 in Fc. rewrite Fc.
  assert (Ez : Btrunc 24 128 (Bnearbyint 24 128 e24 unop_nan_pl32 mode_NA c) = ZnearestA (val c)).
  { apply eq_IZR. rewrite Btrunc_correct. rewrite R1.
    rewrite round_FIX_IZR. cbn [round_mode]. rewrite round_FIX_IZR.
    - fold (val c). rewrite Ztrunc_IZR. reflexivity.
    - exact e24. }
  rewrite Ez.
  assert (E : (-2147483648 <=? ZnearestA (val c)) && (ZnearestA (val c) <=? 2147483647) = true).
  { apply andb_true_iff. split; apply Z.leb_le; lia. }
  rewrite E. reflexivity.
Qed.

Lemma fle_between_finite : forall mn mx c, finite32 mn -> finite32 mx -> fle mn c -> fle c mx -> finite32 c.
Proof.
  intros mn mx c Fmn Fmx H1 H2. unfold finite32, fle, b32_compare, Bcompare, BinarySingleNaN.Bcompare in *.
  destruct c as [sc|sc|sc pc ec|sc mc ec Hc]; try reflexivity.
  - destruct sc.
    + destruct mn; simpl in *; try discriminate; try tauto; destruct s; tauto.
    + destruct mx; simpl in *; try discriminate; try tauto; destruct s; tauto.
  - destruct mn; simpl in *; tauto.
Qed.

Lemma b32_bits_inj : forall x y : f32, bits_of_b32 x = bits_of_b32 y -> x = y.
Proof.
  intros x y H. unfold bits_of_b32 in H.
  rewrite <- (binary_float_of_bits_of_binary_float 23 8 eq_refl eq_refl eq_refl x).
  rewrite <- (binary_float_of_bits_of_binary_float 23 8 eq_refl eq_refl eq_refl y).
  rewrite H. reflexivity.
Qed.

(* the default control points (gain 100, offset 0) are exactly the bounds *)
Definition default_points_exact (mn mx : f32) : bool :=
  let c := map_center mn mx f32_0 in
  let r := map_range mn mx f32_100 in
  (bits_of_b32 (map_cp1 c r) =? bits_of_b32 mn) && (bits_of_b32 (map_cp3 c r) =? bits_of_b32 mx).


(* int-typed parameter with integral bounds: the emitted integer is inside
   [min,max] *)
Lemma int_output_in_range : forall (expf_o : f32 -> f32) s value a b,
  used s = true -> s_type s = ch_i ->
  finite32 (s_min s) -> finite32 (s_max s) ->
  val (s_min s) = IZR a -> val (s_max s) = IZR b -> a <= b ->
  -2147483648 <= a -> b <= 2147483647 ->
  exists z, sub_output expf_o s value = [MsgI (s_path s) z] /\ a <= z <= b.
Proof.
  intros expf_o s value a b Hu Ht Fmn Fmx Ea Eb Hab Hlo Hhi.
  assert (Hle : fle (s_min s) (s_max s)).
  { apply fle_val; try assumption. rewrite Ea, Eb. apply IZR_le. assumption. }
  destruct (clamp_range (lin value (cp1 s) (cp3 s)) _ _ Hle) as [H1 H2].
  set (c := clamp (lin value (cp1 s) (cp3 s)) (s_min s) (s_max s)) in *.
  assert (Fc : finite32 c) by (apply (fle_between_finite (s_min s) (s_max s) c); assumption).
  apply fle_val in H1; try assumption. apply fle_val in H2; try assumption.
  rewrite Ea in H1. rewrite Eb in H2.
  destruct (int_of_roundf c a b Fc (conj H1 H2) Hlo Hhi) as [E Hk].
  unfold sub_output. rewrite Hu, Ht. simpl. fold c. rewrite E.
  eexists. split; [reflexivity|assumption].
Qed.

(* monotone: with ordered control points and no overflow a larger slot value
   never gives a smaller output *)
Lemma float_output_monotone : forall (expf_o : f32 -> f32) s v1 v2,
  used s = true -> s_type s = ch_f -> s_scale s = 0 ->
  finite32 (s_min s) -> finite32 (s_max s) -> (val (s_min s) <= val (s_max s))%R ->
  finite32 (cp1 s) -> finite32 (cp3 s) -> (val (cp1 s) <= val (cp3 s))%R ->
  (val v1 <= val v2)%R ->
  finite32 (lin v1 (cp1 s) (cp3 s)) -> finite32 (lin v2 (cp1 s) (cp3 s)) ->
  exists c1 c2, sub_output expf_o s v1 = [MsgF (s_path s) c1] /\
                sub_output expf_o s v2 = [MsgF (s_path s) c2] /\ (val c1 <= val c2)%R.
Proof.
  intros expf_o s v1 v2 Hu Ht Hs Fmn Fmx Hm Fa Fb Hab Hv F1 F2.
  unfold sub_output. rewrite Hu, Ht, Hs. simpl.
  eexists _, _. split; [reflexivity|]. split; [reflexivity|].
  apply clamp_monotone; try assumption.
  apply lin_monotone; assumption.
Qed.

Lemma int_output_monotone : forall (expf_o : f32 -> f32) s v1 v2 a b,
  used s = true -> s_type s = ch_i ->
  finite32 (s_min s) -> finite32 (s_max s) ->
  val (s_min s) = IZR a -> val (s_max s) = IZR b -> a <= b ->
  -2147483648 <= a -> b <= 2147483647 ->
  finite32 (cp1 s) -> finite32 (cp3 s) -> (val (cp1 s) <= val (cp3 s))%R ->
  (val v1 <= val v2)%R ->
  finite32 (lin v1 (cp1 s) (cp3 s)) -> finite32 (lin v2 (cp1 s) (cp3 s)) ->
  exists z1 z2, sub_output expf_o s v1 = [MsgI (s_path s) z1] /\
                sub_output expf_o s v2 = [MsgI (s_path s) z2] /\ z1 <= z2.
Proof.
  intros expf_o s v1 v2 a b Hu Ht Fmn Fmx Ea Eb Hab Hlo Hhi Fa Fb Hcp Hv F1 F2.
  assert (Hm : (val (s_min s) <= val (s_max s))%R) by (rewrite Ea, Eb; apply IZR_le; assumption).
  pose proof (clamp_monotone _ _ _ _ F1 F2 Fmn Fmx Hm (lin_monotone _ _ _ _ Fa Fb Hcp Hv F1 F2)) as Hc.
  destruct (clamp_val _ _ _ F1 Fmn Fmx) as [Fc1 V1].
  destruct (clamp_val _ _ _ F2 Fmn Fmx) as [Fc2 V2].
  set (c1 := clamp (lin v1 (cp1 s) (cp3 s)) (s_min s) (s_max s)) in *.
  set (c2 := clamp (lin v2 (cp1 s) (cp3 s)) (s_min s) (s_max s)) in *.
  assert (B1 : (IZR a <= val c1 <= IZR b)%R).
  { rewrite V1, <- Ea, <- Eb.
    destruct (Rlt_dec (val (s_max s)) (val (lin v1 (cp1 s) (cp3 s))));
    [|destruct (Rlt_dec (val (lin v1 (cp1 s) (cp3 s))) (val (s_min s)))]; lra. }
  assert (B2 : (IZR a <= val c2 <= IZR b)%R).
  { rewrite V2, <- Ea, <- Eb.
    destruct (Rlt_dec (val (s_max s)) (val (lin v2 (cp1 s) (cp3 s))));
    [|destruct (Rlt_dec (val (lin v2 (cp1 s) (cp3 s))) (val (s_min s)))]; lra. }
  destruct (int_of_roundf c1 a b Fc1 B1 Hlo Hhi) as [E1 _].
  destruct (int_of_roundf c2 a b Fc2 B2 Hlo Hhi) as [E2 _].
  unfold sub_output. rewrite Hu, Ht. simpl. fold c1 c2. rewrite E1, E2.
  eexists _, _. split; [reflexivity|]. split; [reflexivity|].
  apply Zrnd_le; [apply valid_rnd_N|assumption].
Qed.

(* at the default gain and offset the control points are the bounds: the slot
   value is mapped by v*(max-min)+min, 0 goes to min *)
Lemma default_linear : forall (logf_o expf_o : f32 -> f32) p mn mx v,
  p_type p = ch_f -> p_log p = false -> p_min p = Some mn -> p_max p = Some mx ->
  default_points_exact mn mx = true ->
  cp1 (bound_sub logf_o p) = mn /\ cp3 (bound_sub logf_o p) = mx /\
  sub_output expf_o (bound_sub logf_o p) v = [MsgF (p_path p) (clamp (lin v mn mx) mn mx)].
Proof.
  intros logf_o expf_o p mn mx v Ht Hl Hmn Hmx Hex. unfold default_points_exact in Hex.
  apply andb_true_iff in Hex. destruct Hex as [H1 H3].
  apply Z.eqb_eq in H1. apply Z.eqb_eq in H3. apply b32_bits_inj in H1. apply b32_bits_inj in H3.
  unfold bound_sub. rewrite Ht, Hl, Hmn, Hmx.
  unfold ch_f, ch_T. simpl Z.eqb. cbn iota. unfold remap. cbn [s_min s_max gain offset cp1 cp3].
  rewrite H1, H3. split; [reflexivity|]. split; [reflexivity|].
  unfold sub_output. cbn [used s_type s_path s_min s_max s_scale cp1 cp3 negb].
  unfold ch_i, ch_f. simpl. reflexivity.
Qed.

Lemma lin_zero : forall a b, finite32 (lin f32_0 a b) -> val (lin f32_0 a b) = val a.
Proof.
  intros a b F. unfold lin in *.
  destruct (add32_val _ _ F) as (E & Fm & Fa). destruct (mul32_val _ _ Fm) as (M & _ & _).
  rewrite E, M. unfold val at 1. unfold f32_0. simpl B2R at 1.
  replace (B2R 24 128 (b32_of_bits 0)) with 0%R by (vm_compute; reflexivity).
  rewrite Rmult_0_l, rnd32_0, Rplus_0_l.
  unfold rnd32, val. apply round_generic; [apply valid_rnd_round_mode|]. apply generic_format_B2R.
Qed.


Lemma default_points_examples :
  default_points_exact (b32_of_bits 0) (b32_of_bits 1123942400) = true /\        (* 0 .. 127 *)
  default_points_exact (b32_of_bits 3212836864) (b32_of_bits 1092616192) = true /\ (* -1 .. 10 *)
  default_points_exact (b32_of_bits 0) (b32_of_bits 1065353216) = true /\        (* 0 .. 1 *)
  default_points_exact (b32_of_bits 3263168512) (b32_of_bits 1115422720) = true.   (* -64 .. 63 *)
Proof. vm_compute. repeat split; reflexivity. Qed.

(* ======================================================================== *)
(* over whole histories: every message goes to a bound parameter              *)
(* ======================================================================== *)
Definition bound_params (ops : list mop) : list param :=
  flat_map (fun o => match o with MBind _ (Some p) _ => [p] | _ => [] end) ops.

(* the sub-automation carries the address and the type of a parameter that a
   createBinding of the history accepted *)
Definition sub_bound (PS : list param) (s : sub) : Prop :=
  used s = true -> exists p, In p PS /\ bindable p = true /\ s_path s = p_path p /\ s_type s = p_type p.

Definition msg_bound (PS : list param) (m : msg) : Prop :=
  exists p, In p PS /\ bindable p = true /\
    match m with
    | MsgI a _ | MsgUB a => a = p_path p /\ p_type p = ch_i
    | MsgF a _ => a = p_path p /\ p_type p = ch_f
    | MsgT a _ => a = p_path p /\ (p_type p = ch_T \/ p_type p = ch_F)
    end.

Definition all_subs (P : sub -> Prop) (st : mstate) : Prop := Forall (Forall P) (subs st).

Lemma Forall_upd_nth : forall (A : Type) (P : A -> Prop) i (f : A -> A) l,
  Forall P l -> (forall x, P x -> P (f x)) -> Forall P (upd_nth i f l).
Proof.
  intros A P i f l H Hf. revert i. induction H as [|x l Hx Hl IH]; intros [|i]; simpl; constructor; auto.
Qed.

Lemma set_sub_all : forall P st slot sb f, all_subs P st -> (forall x, P x -> P (f x)) ->
  all_subs P (set_sub st slot sb f).
Proof.
  intros P st slot sb f H Hf. unfold all_subs, set_sub. cbn [subs].
  apply Forall_upd_nth; [assumption|]. intros l Hl. apply Forall_upd_nth; assumption.
Qed.

Lemma sub_bound_weaken : forall PS PS' s, (forall p, In p PS -> In p PS') -> sub_bound PS s -> sub_bound PS' s.
Proof.
  intros PS PS' s Hin H Hu. destruct (H Hu) as (p & Hp & Hrest). exists p. split; [apply Hin; assumption|assumption].
Qed.

Lemma msg_bound_weaken : forall PS PS' m, (forall p, In p PS -> In p PS') -> msg_bound PS m -> msg_bound PS' m.
Proof.
  intros PS PS' m Hin (p & Hp & Hrest). exists p. split; [apply Hin; assumption|assumption].
Qed.

Lemma sub_output_bound : forall expf_o PS s v m, sub_bound PS s -> In m (sub_output expf_o s v) -> msg_bound PS m.
Proof.
  intros expf_o PS s v m Hs Hm. destruct (sub_output_addr_type _ _ _ _ Hm) as [Hu Hf].
  destruct (Hs Hu) as (p & Hp & Hb & Hpath & Hty). exists p. split; [assumption|]. split; [assumption|].
  destruct m; simpl in Hf; destruct Hf as [-> Hf]; rewrite <- Hty; auto.
Qed.

Lemma set_slot_bound : forall expf_o PS st slot v m, all_subs (sub_bound PS) st ->
  In m (set_slot expf_o slot v st) -> msg_bound PS m.
Proof.
  intros expf_o PS st slot v m H Hm. unfold set_slot in Hm.
  destruct (slot_in_range st slot); [|destruct Hm].
  destruct (nth_error (subs st) (Z.to_nat slot)) as [l|] eqn:E; [|destruct Hm].
  apply in_flat_map in Hm. destruct Hm as (s & Hs & Hm).
  apply nth_error_In in E. unfold all_subs in H. rewrite Forall_forall in H. specialize (H _ E).
  rewrite Forall_forall in H. eapply sub_output_bound; eauto.
Qed.

Lemma set_slot_sub_bound : forall expf_o PS st slot sb v m, all_subs (sub_bound PS) st ->
  In m (set_slot_sub expf_o slot sb v st) -> msg_bound PS m.
Proof.
  intros expf_o PS st slot sb v m H Hm. unfold set_slot_sub in Hm.
  destruct (in_range st slot sb); [|destruct Hm].
  destruct (get_sub st (Z.to_nat slot) (Z.to_nat sb)) as [s|] eqn:E; [|destruct Hm].
  unfold get_sub in E. destruct (nth_error (subs st) (Z.to_nat slot)) as [l|] eqn:El; [|discriminate].
  apply nth_error_In in El. apply nth_error_In in E.
  unfold all_subs in H. rewrite Forall_forall in H. specialize (H _ El).
  rewrite Forall_forall in H. eapply sub_output_bound; eauto.
Qed.

Lemma m_step_bound : forall logf_o expf_o PS st o st' ms r,
  all_subs (sub_bound PS) st -> m_step logf_o expf_o st o = Some (st', ms, r) ->
  let PS' := PS ++ bound_params [o] in
  all_subs (sub_bound PS') st' /\ Forall (msg_bound PS') ms.
Proof.
  intros logf_o expf_o PS st o st' ms r H Hs. cbn zeta.
  assert (Hw : forall p, In p PS -> In p (PS ++ bound_params [o])) by (intros; apply in_or_app; auto).
  assert (H' : all_subs (sub_bound (PS ++ bound_params [o])) st).
  { unfold all_subs in *. eapply Forall_impl; [|exact H]. intros l Hl.
    eapply Forall_impl; [|exact Hl]. intros s. apply sub_bound_weaken. assumption. }
  destruct o; cbn [m_step] in Hs.
  - (* createBinding *)
    destruct (create_binding logf_o slot p learn st) as [st1|] eqn:E; [|discriminate].
    inversion Hs; subst. split; [|constructor].
    unfold create_binding in E. destruct p as [p|]; [|inversion E; subst; assumption].
    destruct (bindable p) eqn:Eb; cbn [negb] in E; [|inversion E; subst; assumption].
    destruct (nth_error (subs st) slot) as [l|]; [|discriminate].
    destruct (find_index _ l) as [ind|]; [|inversion E; subst; assumption].
    destruct (q_create slot learn (q st)) as [q'|]; [|discriminate].
    inversion E; subst. unfold all_subs. cbn [subs].
    apply Forall_upd_nth; [exact H'|]. intros l0 Hl0. apply Forall_upd_nth; [assumption|].
    intros _ _ _. exists p. split.
    + apply in_or_app. right. simpl. auto.
    + split; [assumption|]. unfold bound_sub, remap. cbn [s_path s_type]. auto.
  - inversion Hs; subst. split; [|constructor]. unfold clear_slot.
    destruct (slot_in_range st slot); [|assumption].
    unfold all_subs. cbn [subs]. apply Forall_upd_nth; [exact H'|].
    intros l _. apply Forall_forall. intros s Hin. apply in_map_iff in Hin. destruct Hin as (s0 & <- & _).
    intro Hu. discriminate.
  - inversion Hs; subst. split; [|constructor]. unfold clear_slot_sub.
    destruct (in_range st slot sb); [|assumption].
    apply set_sub_all; [assumption|]. intros x _ Hu. discriminate.
  - inversion Hs; subst. split; [|constructor]. unfold set_gain.
    destruct (in_range st slot sb); [|assumption].
    apply set_sub_all; [assumption|]. intros x Hx. exact Hx.
  - inversion Hs; subst. split; [|constructor]. unfold set_offset.
    destruct (in_range st slot sb); [|assumption].
    apply set_sub_all; [assumption|]. intros x Hx. exact Hx.
  - inversion Hs; subst. split; [|constructor]. unfold update_mapping.
    destruct (in_range st slot sb); [|assumption].
    apply set_sub_all; [assumption|]. intros x Hx. exact Hx.
  - inversion Hs; subst. split; [assumption|]. apply Forall_forall. intros m Hm.
    eapply set_slot_bound; eauto.
  - inversion Hs; subst. split; [assumption|]. apply Forall_forall. intros m Hm.
    eapply set_slot_sub_bound; eauto.
  - unfold handle_midi in Hs. destruct (q_midi _ _ _ (q st)) as [[q' ds] ret].
    inversion Hs; subst. split; [exact H'|]. apply Forall_forall. intros m Hm.
    apply in_flat_map in Hm. destruct Hm as ([i num den] & _ & Hm).
    eapply set_slot_bound; [|exact Hm]. exact H'.
Qed.

Lemma bound_params_cons : forall o ops, bound_params (o :: ops) = bound_params [o] ++ bound_params ops.
Proof. intros. unfold bound_params. simpl. rewrite app_nil_r. reflexivity. Qed.

Lemma m_run_bound : forall logf_o expf_o ops PS st st' mss,
  all_subs (sub_bound PS) st -> m_run logf_o expf_o ops st = Some (st', mss) ->
  all_subs (sub_bound (PS ++ bound_params ops)) st' /\
  Forall (Forall (msg_bound (PS ++ bound_params ops))) mss.
Proof.
  intros logf_o expf_o. induction ops as [|o ops IH]; intros PS st st' mss H Hr; cbn [m_run] in Hr.
  - inversion Hr; subst. unfold bound_params. simpl. rewrite app_nil_r. split; [assumption|constructor].
  - destruct (m_step logf_o expf_o st o) as [[[st1 ms] r]|] eqn:E; [|discriminate].
    destruct (m_run logf_o expf_o ops st1) as [[st2 mss2]|] eqn:E2; [|discriminate].
    inversion Hr; subst.
    destruct (m_step_bound _ _ _ _ _ _ _ _ H E) as [H1 M1].
    destruct (IH _ _ _ _ H1 E2) as [H2 M2].
    rewrite bound_params_cons, app_assoc. split; [assumption|]. constructor; [|assumption].
    eapply Forall_impl; [|exact M1]. intros m. apply msg_bound_weaken.
    intros p Hp. apply in_or_app. left. assumption.
Qed.

(* every message ever emitted goes to the address of a parameter that a
   createBinding of the history accepted, with that parameter's type *)
Lemma run_addr_type : forall logf_o expf_o ops n per r st mss,
  m_run logf_o expf_o ops (m_init n per r) = Some (st, mss) ->
  Forall (Forall (msg_bound (bound_params ops))) mss.
Proof.
  intros logf_o expf_o ops n per r st mss H.
  apply (m_run_bound logf_o expf_o ops [] (m_init n per r) st mss); [|assumption].
  unfold all_subs, m_init. cbn [subs]. apply Forall_forall. intros l Hl. apply repeat_spec in Hl. subst.
  apply Forall_forall. intros s Hs. apply repeat_spec in Hs. subst. intro Hu. discriminate.
Qed.

(* ======================================================================== *)
(* non-vacuity                                                                *)
(* ======================================================================== *)
(* "/fa", float, -1 .. 10, linear *)
Definition ex_param : param :=
  mkParam [47; 102; 97] ch_f (Some (b32_of_bits 3212836864)) (Some (b32_of_bits 1092616192))
          false false false.
Definition ex_sub : sub := bound_sub (fun x => x) ex_param.
Definition ex_v1 : f32 := b32_of_bits 1048576000.   (* 0.25 *)
Definition ex_v2 : f32 := b32_of_bits 1056964608.   (* 0.5 *)

Lemma monotone_nonvacuous :
  used ex_sub = true /\ s_type ex_sub = ch_f /\ s_scale ex_sub = 0 /\
  finite32 (s_min ex_sub) /\ finite32 (s_max ex_sub) /\ (val (s_min ex_sub) <= val (s_max ex_sub))%R /\
  finite32 (cp1 ex_sub) /\ finite32 (cp3 ex_sub) /\ (val (cp1 ex_sub) <= val (cp3 ex_sub))%R /\
  (val ex_v1 <= val ex_v2)%R /\
  finite32 (lin ex_v1 (cp1 ex_sub) (cp3 ex_sub)) /\ finite32 (lin ex_v2 (cp1 ex_sub) (cp3 ex_sub)) /\
  bits_of_b32 (clamp (lin ex_v1 (cp1 ex_sub) (cp3 ex_sub)) (s_min ex_sub) (s_max ex_sub)) = 1071644672 /\
  bits_of_b32 (clamp (lin ex_v2 (cp1 ex_sub) (cp3 ex_sub)) (s_min ex_sub) (s_max ex_sub)) = 1083179008.
Proof.
  assert (L : forall x y, finite32 x -> finite32 y -> fle x y -> (val x <= val y)%R)
    by (intros x y Fx Fy H; apply fle_val; assumption).
  repeat split; try (vm_compute; reflexivity);
    apply L; try (vm_compute; reflexivity); vm_compute; exact I.
Qed.
