(* C19 - regression witness for the NaN defect of setSlotSub: the clamp as it
   was ("else if(v < mn)") lets NaN through.  Gain 3e38 on the parameter
   -1..10 overflows the control points to -inf/+inf; slot value 0.5 then gives
   inf - inf = NaN, which was sent to the float parameter (and, for an int
   parameter, converted with (int)NaN). *)
From Coq Require Import List ZArith Bool.
From Flocq Require Import IEEE754.Binary IEEE754.Bits.
From RtoscV Require Import Auto.F32 Auto.AutoModel Auto.AutoMapModel.
Import ListNotations.
Local Open Scope Z_scope.

Definition clamp_old (v mn mx : f32) : f32 :=
  if gt32 v mx then mx else if lt32 v mn then mn else v.

(* "/fa" -1..10 with gain 3e38 (0x7f61b1e6), after updateMapping *)
Definition huge_gain_sub : sub :=
  remap (mkSub true ch_f [47; 102; 97] (b32_of_bits 3212836864) (b32_of_bits 1092616192) 0
               (b32_of_bits 2137108966) f32_0 f32_0 f32_0).

Lemma nan_clamp_refuted :
  let v := lin f32_half (cp1 huge_gain_sub) (cp3 huge_gain_sub) in
  bits_of_b32 (cp1 huge_gain_sub) = 4286578688 /\      (* -inf *)
  bits_of_b32 (cp3 huge_gain_sub) = 2139095040 /\      (* +inf *)
  is_nan 24 128 (clamp_old v (s_min huge_gain_sub) (s_max huge_gain_sub)) = true /\
  (* the repaired clamp sends the minimum *)
  bits_of_b32 (clamp v (s_min huge_gain_sub) (s_max huge_gain_sub)) = 3212836864.
Proof. vm_compute. repeat split; reflexivity. Qed.
