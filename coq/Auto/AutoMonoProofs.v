(* C19 - monotonicity of the output mapping for ALL finite slot values,
   overflow included (stage 2): with control points that are not inverted
   (not (cp3 < cp1); NaN control points allowed) a larger finite slot value
   never gives a smaller output.  Overflow of v*(b-a) or of the sum goes to
   the infinity of the right sign and is clamped; NaN (inf-inf, 0*inf) is
   clamped to the minimum by the repaired clamp, and arises for all slot
   values or only at the lower end.  For infinite slot values the statement
   is false (witness at the end). *)
From Coq Require Import List ZArith Bool Lia Reals Lra.
From Flocq Require Import Core.Core IEEE754.BinarySingleNaN IEEE754.Binary IEEE754.Bits.
From RtoscV Require Import Auto.F32 Auto.FloatOrder Auto.AutoModel Auto.AutoMapModel Auto.AutoMapProofs.
Import ListNotations.
Local Open Scope Z_scope.

Notation x32 := (xv 24 128).
Notation M32 := (Mx 128).
Notation sat32 := (sat 128).

Lemma rnd32_rndx : forall r, rnd32 r = rndx 24 128 r.
Proof. reflexivity. Qed.

Lemma finite32_fin : forall x : f32, finite32 x <-> fin 24 128 x.
Proof. intro x. unfold finite32, fin. tauto. Qed.

Lemma x32_fin : forall x : f32, finite32 x -> x32 x = val x.
Proof. intros x H. apply fin_xv. exact H. Qed.

(* ---- the three operations in the extended order ---------------------------- *)
Lemma mul32_x : forall x y, finite32 x -> finite32 y ->
  not_nan (mul32 x y) /\ x32 (mul32 x y) = sat32 (rnd32 (val x * val y)).
Proof.
  intros x y Fx Fy. unfold mul32, b32_mult.
  match goal with |- context [Bmult _ _ ?hp ?he ?n _ x y] => exact (mult_xv 24 128 hp he n x y Fx Fy) end.
Qed.

Lemma add32_x : forall x y, finite32 x -> finite32 y ->
  not_nan (add32 x y) /\ x32 (add32 x y) = sat32 (rnd32 (val x + val y)).
Proof.
  intros x y Fx Fy. unfold add32, b32_plus.
  match goal with |- context [Bplus _ _ ?hp ?he ?n _ x y] => exact (plus_xv 24 128 hp he n x y Fx Fy) end.
Qed.

Lemma sub32_x : forall x y, finite32 x -> finite32 y ->
  not_nan (sub32 x y) /\ x32 (sub32 x y) = sat32 (rnd32 (val x - val y)).
Proof.
  intros x y Fx Fy. unfold sub32, b32_minus.
  match goal with |- context [Bminus _ _ ?hp ?he ?n _ x y] => exact (minus_xv 24 128 hp he n x y Fx Fy) end.
Qed.

Lemma satrnd_le : forall s t, (s <= t)%R -> (sat32 (rnd32 s) <= sat32 (rnd32 t))%R.
Proof. intros s t H. apply sat_le. apply rnd32_le. exact H. Qed.

(* ---- special values (structural) ------------------------------------------- *)
Lemma add32_nan_r : forall p a : f32, is_nan 24 128 a = true -> is_nan 24 128 (add32 p a) = true.
Proof. intros p a H. unfold add32, b32_plus, Bplus. destruct p; destruct a; try discriminate; reflexivity. Qed.

Lemma add32_nan_l : forall p a : f32, is_nan 24 128 p = true -> is_nan 24 128 (add32 p a) = true.
Proof. intros p a H. unfold add32, b32_plus, Bplus. destruct p; destruct a; try discriminate; reflexivity. Qed.

Lemma mul32_nan_r : forall v d : f32, is_nan 24 128 d = true -> is_nan 24 128 (mul32 v d) = true.
Proof. intros v d H. unfold mul32, b32_mult, Bmult. destruct v; destruct d; try discriminate; reflexivity. Qed.

Lemma sub32_nan_l : forall b a : f32, is_nan 24 128 b = true -> is_nan 24 128 (sub32 b a) = true.
Proof. intros b a H. unfold sub32, b32_minus, Bminus. destruct b; destruct a; try discriminate; reflexivity. Qed.

Lemma sub32_nan_r : forall b a : f32, is_nan 24 128 a = true -> is_nan 24 128 (sub32 b a) = true.
Proof. intros b a H. unfold sub32, b32_minus, Bminus. destruct b; destruct a; try discriminate; reflexivity. Qed.

Lemma add32_inf_l : forall s (a : f32), finite32 a -> add32 (B754_infinity 24 128 s) a = B754_infinity 24 128 s.
Proof. intros s a H. destruct a; try discriminate; reflexivity. Qed.

Lemma lin_nan_d : forall v a b, is_nan 24 128 (sub32 b a) = true -> is_nan 24 128 (lin v a b) = true.
Proof. intros v a b H. unfold lin. apply add32_nan_l. apply mul32_nan_r. exact H. Qed.

Lemma lin_nan_a : forall v a b, is_nan 24 128 a = true -> is_nan 24 128 (lin v a b) = true.
Proof. intros v a b H. unfold lin. apply add32_nan_r. exact H. Qed.

(* ---- the clamp in the extended order ---------------------------------------- *)
Lemma clamp_nan : forall r mn mx, is_nan 24 128 r = true -> clamp r mn mx = mn.
Proof.
  intros r mn mx H. unfold clamp, gt32, ge32, b32_compare, Bcompare, BinarySingleNaN.Bcompare.
  destruct r; try discriminate. simpl. reflexivity.
Qed.

Lemma cmp32_x : forall x y : f32, not_nan x -> not_nan y ->
  b32_compare x y = Some (Rcompare (x32 x) (x32 y)).
Proof. intros x y Hx Hy. apply cmp_xv; assumption. Qed.

Lemma clamp_x : forall r mn mx, not_nan r -> finite32 mn -> finite32 mx -> (val mn <= val mx)%R ->
  finite32 (clamp r mn mx) /\
  val (clamp r mn mx) =
    if Rlt_dec (val mx) (x32 r) then val mx
    else if Rlt_dec (x32 r) (val mn) then val mn else x32 r.
Proof.
  intros r mn mx Hr Fmn Fmx Hm.
  pose proof (fin_nnan 24 128 mn Fmn) as Nmn. pose proof (fin_nnan 24 128 mx Fmx) as Nmx.
  pose proof (fin_lt 24 128 mn Fmn) as Bmn. pose proof (fin_lt 24 128 mx Fmx) as Bmx.
  fold (val mn) in Bmn. fold (val mx) in Bmx.
  unfold clamp, gt32, ge32. rewrite (cmp32_x r mx Hr Nmx), (cmp32_x r mn Hr Nmn).
  rewrite (x32_fin mx Fmx), (x32_fin mn Fmn).
  destruct (Rcompare_spec (x32 r) (val mx)) as [H1|H1|H1].
  - destruct (Rlt_dec (val mx) (x32 r)); [lra|].
    destruct (Rcompare_spec (x32 r) (val mn)) as [H2|H2|H2]; cbn [negb].
    + destruct (Rlt_dec (x32 r) (val mn)); [auto|lra].
    + destruct (Rlt_dec (x32 r) (val mn)); [lra|].
      assert (Fr : finite32 r) by (apply (xv_inside_fin 24 128 r Hr); lra).
      split; [assumption|]. symmetry. apply x32_fin. assumption.
    + destruct (Rlt_dec (x32 r) (val mn)); [lra|].
      assert (Fr : finite32 r) by (apply (xv_inside_fin 24 128 r Hr); lra).
      split; [assumption|]. symmetry. apply x32_fin. assumption.
  - destruct (Rlt_dec (val mx) (x32 r)); [lra|].
    destruct (Rcompare_spec (x32 r) (val mn)) as [H2|H2|H2]; cbn [negb].
    + destruct (Rlt_dec (x32 r) (val mn)); [auto|lra].
    + destruct (Rlt_dec (x32 r) (val mn)); [lra|].
      assert (Fr : finite32 r) by (apply (xv_inside_fin 24 128 r Hr); lra).
      split; [assumption|]. symmetry. apply x32_fin. assumption.
    + destruct (Rlt_dec (x32 r) (val mn)); [lra|].
      assert (Fr : finite32 r) by (apply (xv_inside_fin 24 128 r Hr); lra).
      split; [assumption|]. symmetry. apply x32_fin. assumption.
  - destruct (Rlt_dec (val mx) (x32 r)); [auto|lra].
Qed.

Lemma clamp_mono_x : forall r1 r2 mn mx, not_nan r1 -> not_nan r2 ->
  finite32 mn -> finite32 mx -> (val mn <= val mx)%R -> (x32 r1 <= x32 r2)%R ->
  (val (clamp r1 mn mx) <= val (clamp r2 mn mx))%R.
Proof.
  intros r1 r2 mn mx N1 N2 Fmn Fmx Hm H.
  destruct (clamp_x r1 mn mx N1 Fmn Fmx Hm) as [_ ->].
  destruct (clamp_x r2 mn mx N2 Fmn Fmx Hm) as [_ ->].
  destruct (Rlt_dec (val mx) (x32 r1)); destruct (Rlt_dec (val mx) (x32 r2));
  destruct (Rlt_dec (x32 r1) (val mn)); destruct (Rlt_dec (x32 r2) (val mn)); lra.
Qed.

Lemma clamp_finite_any : forall r mn mx, finite32 mn -> finite32 mx -> (val mn <= val mx)%R ->
  finite32 (clamp r mn mx) /\ (val mn <= val (clamp r mn mx) <= val mx)%R.
Proof.
  intros r mn mx Fmn Fmx Hm. destruct (is_nan 24 128 r) eqn:E.
  - rewrite clamp_nan by assumption. split; [assumption|lra].
  - destruct (clamp_x r mn mx E Fmn Fmx Hm) as [F ->]. split; [assumption|].
    destruct (Rlt_dec (val mx) (x32 r)); [lra|]. destruct (Rlt_dec (x32 r) (val mn)); lra.
Qed.

(* ---- finite control points, finite non-negative difference ------------------ *)
Lemma step_add_mono : forall p1 p2 a : f32, not_nan p1 -> not_nan p2 -> finite32 a ->
  (x32 p1 <= x32 p2)%R ->
  not_nan (add32 p1 a) /\ not_nan (add32 p2 a) /\ (x32 (add32 p1 a) <= x32 (add32 p2 a))%R.
Proof.
  intros p1 p2 a N1 N2 Fa H.
  assert (G : forall p : f32, not_nan p ->
            not_nan (add32 p a) /\
            ((finite32 p /\ x32 (add32 p a) = sat32 (rnd32 (val p + val a))) \/
             (exists s, p = B754_infinity 24 128 s /\ add32 p a = p))).
  { intros p Np. destruct (is_finite 24 128 p) eqn:Fp.
    - destruct (add32_x p a Fp Fa) as [Hn Hx]. split; [assumption|]. left. split; assumption.
    - destruct p as [s|s|s pl e|s m e Hb]; try discriminate.
      rewrite add32_inf_l by assumption. split; [reflexivity|]. right. exists s. split; reflexivity. }
  destruct (G p1 N1) as [A1 C1]. destruct (G p2 N2) as [A2 C2].
  split; [assumption|]. split; [assumption|].
  pose proof (Mx_pos 128) as HM.
  destruct C1 as [[F1 E1]|(s1 & -> & E1)]; destruct C2 as [[F2 E2]|(s2 & -> & E2)].
  - rewrite E1, E2. apply satrnd_le. rewrite (x32_fin p1 F1), (x32_fin p2 F2) in H. lra.
  - rewrite E2. pose proof (fin_lt 24 128 p1 F1) as B1. rewrite (x32_fin p1 F1) in H. unfold val in H.
    pose proof (xv_bounds 24 128 (add32 p1 a)) as Bx.
    destruct s2; simpl in H |- *; lra.
  - rewrite E1. pose proof (fin_lt 24 128 p2 F2) as B2. rewrite (x32_fin p2 F2) in H. unfold val in H.
    pose proof (xv_bounds 24 128 (add32 p2 a)) as Bx.
    destruct s1; simpl in H |- *; lra.
  - rewrite E1, E2. exact H.
Qed.

Lemma lin_fin_mono : forall v1 v2 a b,
  finite32 v1 -> finite32 v2 -> (val v1 <= val v2)%R ->
  finite32 a -> finite32 (sub32 b a) -> (0 <= val (sub32 b a))%R ->
  not_nan (lin v1 a b) /\ not_nan (lin v2 a b) /\ (x32 (lin v1 a b) <= x32 (lin v2 a b))%R.
Proof.
  intros v1 v2 a b F1 F2 Hv Fa Fd Hd. unfold lin.
  destruct (mul32_x v1 _ F1 Fd) as [N1 E1]. destruct (mul32_x v2 _ F2 Fd) as [N2 E2].
  apply step_add_mono; try assumption.
  rewrite E1, E2. apply satrnd_le. apply Rmult_le_compat_r; assumption.
Qed.

(* ---- infinite difference, finite lower control point: a step function -------- *)
Lemma clamp_pinf : forall mn mx, finite32 mx -> clamp (B754_infinity 24 128 false) mn mx = mx.
Proof. intros mn mx H. destruct mx as [s|s|s pl e|s m e Hb]; try discriminate; reflexivity. Qed.

Lemma clamp_ninf : forall mn mx, finite32 mn -> finite32 mx -> clamp (B754_infinity 24 128 true) mn mx = mn.
Proof.
  intros mn mx H1 H2. destruct mx as [s|s|s pl e|s m e Hb]; try discriminate;
  destruct mn as [s'|s'|s' pl' e'|s' m' e' Hb']; try discriminate; reflexivity.
Qed.

Lemma lin_dinf : forall v a b mn mx,
  finite32 a -> finite32 mn -> finite32 mx ->
  sub32 b a = B754_infinity 24 128 false -> finite32 v ->
  clamp (lin v a b) mn mx = if Rlt_dec 0 (val v) then mx else mn.
Proof.
  intros v a b mn mx Fa Fmn Fmx Hd Fv. unfold lin. rewrite Hd.
  destruct v as [s|s|s pl e|s m e Hb]; try discriminate.
  - (* 0 * inf = NaN *)
    rewrite clamp_nan.
    + unfold val. simpl. destruct (Rlt_dec 0 0); [lra|reflexivity].
    + apply add32_nan_l. unfold mul32, b32_mult, Bmult. reflexivity.
  - assert (E : mul32 (B754_finite 24 128 s m e Hb) (B754_infinity 24 128 false) = B754_infinity 24 128 s).
    { unfold mul32, b32_mult, Bmult. simpl. destruct s; reflexivity. }
    rewrite E, add32_inf_l by assumption.
    destruct s.
    + rewrite clamp_ninf by assumption.
      assert (val (B754_finite 24 128 true m e Hb) < 0)%R by (unfold val; simpl; apply F2R_lt_0; simpl; lia).
      destruct (Rlt_dec 0 (val (B754_finite 24 128 true m e Hb))); [lra|reflexivity].
    + rewrite clamp_pinf by assumption.
      assert (0 < val (B754_finite 24 128 false m e Hb))%R by (unfold val; simpl; apply F2R_gt_0; simpl; lia).
      destruct (Rlt_dec 0 (val (B754_finite 24 128 false m e Hb))); [reflexivity|lra].
Qed.

(* ---- lower control point -inf: everything is clamped to the minimum ---------- *)
Lemma lin_a_ninf : forall v b mn mx, finite32 mn -> finite32 mx ->
  clamp (lin v (B754_infinity 24 128 true) b) mn mx = mn.
Proof.
  intros v b mn mx Fmn Fmx. unfold lin.
  set (p := mul32 v (sub32 b (B754_infinity 24 128 true))).
  destruct p as [s|s|s pl e|s m e Hb].
  - change (add32 (B754_zero 24 128 s) (B754_infinity 24 128 true)) with (B754_infinity 24 128 true).
    apply clamp_ninf; assumption.
  - destruct s.
    + change (add32 (B754_infinity 24 128 true) (B754_infinity 24 128 true)) with (B754_infinity 24 128 true).
      apply clamp_ninf; assumption.
    + apply clamp_nan. reflexivity.
  - apply clamp_nan. apply add32_nan_l. reflexivity.
  - change (add32 (B754_finite 24 128 s m e Hb) (B754_infinity 24 128 true)) with (B754_infinity 24 128 true).
    apply clamp_ninf; assumption.
Qed.

(* ---- both control points finite ------------------------------------------------ *)
Lemma lin_clamp_mono_fin : forall a b mn mx v1 v2,
  finite32 mn -> finite32 mx -> (val mn <= val mx)%R ->
  finite32 a -> finite32 b -> (val a <= val b)%R ->
  finite32 v1 -> finite32 v2 -> (val v1 <= val v2)%R ->
  (val (clamp (lin v1 a b) mn mx) <= val (clamp (lin v2 a b) mn mx))%R.
Proof.
  intros a b mn mx v1 v2 Fmn Fmx Hm Fa Fb Hle F1 F2 Hv.
  pose proof (Mx_pos 128) as HM.
  destruct (sub32_x b a Fb Fa) as [Nd Ed].
  assert (Hd0 : (0 <= x32 (sub32 b a))%R).
  { rewrite Ed. pose proof (sat_le 128 0 (rnd32 (val b - val a))) as S.
    rewrite (sat_id 128 0) in S by (rewrite Rabs_R0; lra). apply S.
    rewrite <- rnd32_0. apply rnd32_le. lra. }
  destruct (is_finite 24 128 (sub32 b a)) eqn:Fd.
  - destruct (lin_fin_mono v1 v2 a b F1 F2 Hv Fa Fd) as (N1 & N2 & Hx).
    { rewrite <- (x32_fin _ Fd). assumption. }
    apply clamp_mono_x; assumption.
  - assert (Ed0 : sub32 b a = B754_infinity 24 128 false).
    { destruct (sub32 b a) as [sd|sd|sd pld ed|sd md ed Hbd]; try discriminate.
      destruct sd; [simpl in Hd0; lra|reflexivity]. }
    rewrite (lin_dinf v1 a b mn mx Fa Fmn Fmx Ed0 F1), (lin_dinf v2 a b mn mx Fa Fmn Fmx Ed0 F2).
    destruct (Rlt_dec 0 (val v1)); destruct (Rlt_dec 0 (val v2)); lra.
Qed.

(* ======================================================================== *)
(* the theorem                                                                *)
(* ======================================================================== *)
Theorem lin_clamp_monotone : forall a b mn mx v1 v2,
  finite32 mn -> finite32 mx -> (val mn <= val mx)%R ->
  lt32 b a = false ->
  finite32 v1 -> finite32 v2 -> (val v1 <= val v2)%R ->
  finite32 (clamp (lin v1 a b) mn mx) /\ finite32 (clamp (lin v2 a b) mn mx) /\
  (val (clamp (lin v1 a b) mn mx) <= val (clamp (lin v2 a b) mn mx))%R.
Proof.
  intros a b mn mx v1 v2 Fmn Fmx Hm Hab F1 F2 Hv.
  destruct (clamp_finite_any (lin v1 a b) mn mx Fmn Fmx Hm) as [C1 _].
  destruct (clamp_finite_any (lin v2 a b) mn mx Fmn Fmx Hm) as [C2 _].
  split; [assumption|]. split; [assumption|].
  assert (Const : is_nan 24 128 (lin v1 a b) = true -> is_nan 24 128 (lin v2 a b) = true ->
                  (val (clamp (lin v1 a b) mn mx) <= val (clamp (lin v2 a b) mn mx))%R).
  { intros H1 H2. rewrite !clamp_nan by assumption. lra. }
  destruct (is_nan 24 128 a) eqn:Na; [apply Const; apply lin_nan_a; assumption|].
  destruct (is_nan 24 128 b) eqn:Nb.
  { apply Const; apply lin_nan_d; apply sub32_nan_l; assumption. }
  assert (Hle : (x32 a <= x32 b)%R).
  { unfold lt32 in Hab. rewrite (cmp32_x b a Nb Na) in Hab.
    destruct (Rcompare_spec (x32 b) (x32 a)); try discriminate; lra. }
  pose proof (Mx_pos 128) as HM.
  destruct (is_finite 24 128 a) eqn:Fa.
  - pose proof (fin_lt 24 128 a Fa) as Ba. rewrite (x32_fin a Fa) in Hle. unfold val in Hle.
    destruct (is_finite 24 128 b) eqn:Fb.
    + rewrite (x32_fin b Fb) in Hle. apply lin_clamp_mono_fin; assumption.
    + destruct b as [sb|sb|sb plb eb|sb mb eb Hbb]; try discriminate.
      destruct sb; [simpl in Hle; lra|].
      assert (Ed0 : sub32 (B754_infinity 24 128 false) a = B754_infinity 24 128 false).
      { destruct a; try discriminate; reflexivity. }
      rewrite (lin_dinf v1 a _ mn mx Fa Fmn Fmx Ed0 F1), (lin_dinf v2 a _ mn mx Fa Fmn Fmx Ed0 F2).
      destruct (Rlt_dec 0 (val v1)); destruct (Rlt_dec 0 (val v2)); lra.
  - destruct a as [sa|sa|sa pla ea|sa ma ea Hba]; try discriminate.
    destruct sa.
    + rewrite !lin_a_ninf by assumption. lra.
    + assert (Eb : b = B754_infinity 24 128 false).
      { destruct b as [sb|sb|sb plb eb|sb mb eb Hbb].
        - exfalso. simpl in Hle. lra.
        - destruct sb; [exfalso; simpl in Hle; lra|reflexivity].
        - discriminate.
        - exfalso. pose proof (fin_lt 24 128 (B754_finite 24 128 sb mb eb Hbb) eq_refl) as Bf.
          simpl in Hle, Bf. lra. }
      subst b. apply Const; apply lin_nan_d; reflexivity.
Qed.
