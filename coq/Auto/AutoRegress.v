(* C19 - regression witnesses for D17 and D18: clearSlot and handleMidi as they
   were before the repairs, with the refutations of the queue invariant and of
   FIFO service on the witnesses of DESIGN.md section 5. *)
From Coq Require Import List ZArith Bool Lia.
From RtoscV Require Import Auto.AutoModel Auto.AutoProofs.
Import ListNotations.
Local Open Scope Z_scope.

(* D17: "if(s.learning) learn_queue_len--;  for(i) if(slots[i].learning >
   s.learning) slots[i].learning--;"  - also for a slot that is not waiting *)
Definition q_clear_old (slot : Z) (s : qstate) : qstate :=
  if (slot >=? Z.of_nat (length (qslots s))) || (slot <? 0) then s
  else
    match nth_error (qslots s) (Z.to_nat slot) with
    | None => s
    | Some q0 =>
        let l := learning q0 in
        let ql := if l =? 0 then qlen s else qlen s - 1 in
        let qs1 := map (fun q => if learning q >? l then dec_learning q else q) (qslots s) in
        mkQS (upd_nth (Z.to_nat slot) (fun _ => mkQ (-1) (-1) (-1)) qs1) ql (nregs s)
    end.

(* D18: an incomplete NRPN sequence fell through to the learn code with
   is_nrpn = false and par_id = 0 *)
Definition q_midi_old (chan ty val : Z) (s : qstate) : qstate * list drive * Z :=
  if is_nrpn_type ty then
    let r := setparameternumber ty val (nregs s) in
    let s1 := mkQS (qslots s) (qlen s) r in
    if nrpn_complete r then
      let par := parhi r * 128 + parlo r in
      let value := valhi r * 128 + vallo r in
      match find_all (fun q => nrpn q =? par) (qslots s) 0 with
      | [] => let (s2, ds) := learn true par val s1 in (s2, ds, 0)
      | bound => (s1, map (fun i => Drive i value 16383) bound, 1)
      end
    else let (s2, ds) := learn false 0 val s1 in (s2, ds, 0)
  else
    let par := chan * 128 + ty in
    match find_all (fun q => cc q =? par) (qslots s) 0 with
    | [] => let (s2, ds) := learn false par val s in (s2, ds, 0)
    | bound => (s, map (fun i => Drive i val 127) bound, 1)
    end.

Definition r0 : regs := mkR (-1) (-1) (-1) (-1).

(* three slots, slot 1 asks for MIDI learn *)
Definition one_waiting : qstate :=
  match q_create 1 true (q_init 3 r0) with Some s => s | None => q_init 3 r0 end.

(* D17: clearing slot 0, which is not waiting, moves the waiter from 1 to 0:
   the invariant is gone and an unbound controller is no longer learned *)
Lemma d17_refuted :
  let s := q_clear_old 0 one_waiting in
  map learning (qslots s) = [-1; 0; -1] /\ qlen s = 0 /\
  q_midi 0 20 64 s = (s, [], 0) /\
  (* whereas the repaired clearSlot leaves the request in place and it is served *)
  map learning (qslots (q_clear 0 one_waiting)) = [-1; 1; -1] /\
  snd (fst (q_midi 0 20 64 (q_clear 0 one_waiting))) = [Drive 1 64 127].
Proof. vm_compute. repeat split; reflexivity. Qed.

Lemma d17_breaks_invariant : ~ (forall i qi, nth_error (qslots (q_clear_old 0 one_waiting)) i = Some qi ->
                                 learning qi = -1 \/ 1 <= learning qi <= qlen (q_clear_old 0 one_waiting)).
Proof.
  intro H. specialize (H 1%nat (mkQ 0 (-1) (-1)) eq_refl). cbn [learning] in H. lia.
Qed.

(* slots 0 and 1 ask, in this order *)
Definition two_waiting : qstate :=
  match q_create 0 true (q_init 3 r0) with
  | Some s => match q_create 1 true s with Some s' => s' | None => s end
  | None => q_init 3 r0
  end.

(* D18: the first two messages of the NRPN sequence 99 98 6 38 bind both
   waiting slots to controller 0; the repaired handleMidi binds nothing until
   the sequence is complete and then binds the first waiter to the NRPN *)
Lemma d18_refuted :
  let '(s1, _, _) := q_midi_old 0 99 1 two_waiting in
  let '(s2, _, _) := q_midi_old 0 98 2 s1 in
  map (fun q => (learning q, cc q, nrpn q)) (qslots s2) = [(-1, 0, -1); (-1, 0, -1); (-1, -1, -1)] /\
  let '(t1, _, _) := q_midi 0 99 1 two_waiting in
  let '(t2, _, _) := q_midi 0 98 2 t1 in
  let '(t3, _, _) := q_midi 0 6 3 t2 in
  let '(t4, ds, _) := q_midi 0 38 4 t3 in
  map (fun q => (learning q, cc q, nrpn q)) (qslots t2) = [(1, -1, -1); (2, -1, -1); (-1, -1, -1)] /\
  map (fun q => (learning q, cc q, nrpn q)) (qslots t4) = [(-1, -1, 130); (1, -1, -1); (-1, -1, -1)] /\
  ds = [Drive 0 4 127].
Proof. vm_compute. repeat split; reflexivity. Qed.
