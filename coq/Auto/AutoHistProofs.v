(* C19 - the learn-queue and in-range theorems over whole histories of the
   FULL model [m_run] (what the correspondence run executes):

   1. projection: the [q] component of [m_run] is [q_run] of the projected
      history [m_proj] - a createBinding counts when it reaches the learn line
      (port known, bindable, a free sub-automation in the slot), a clearSlot
      when the slot exists, every handleMidi; the other operations do not
      touch the bookkeeping.  So queue_inv / learn_fifo / uniq hold of m_run.
   2. the history invariant [sub_decl]: a used sub-automation carries path,
      type, min, max and scale of a parameter that a createBinding of the
      history accepted (gain / offset / updateMapping never change them), and
      so every emitted message is inside the DECLARED range of that parameter
      ([msg_ok]); MsgUB (undefined int conversion) occurs only for a parameter
      whose declared bounds are not ordered integers in int range. *)
From Coq Require Import List ZArith Bool Lia Reals Lra.
From Flocq Require Import Core.Core IEEE754.BinarySingleNaN IEEE754.Binary IEEE754.Bits.
From RtoscV Require Import Auto.F32 Auto.FloatOrder Auto.AutoModel Auto.AutoMapModel
  Auto.AutoProofs Auto.AutoMapProofs Auto.AutoLogProofs.
Import ListNotations.
Local Open Scope Z_scope.

(* ======================================================================== *)
(* 1. projection of a history onto the learn-queue operations                  *)
(* ======================================================================== *)
Definition m_proj1 (st : mstate) (o : mop) : list qop :=
  match o with
  | MBind slot (Some p) l =>
      if bindable p then
        match nth_error (subs st) slot with
        | Some sl => match find_index (fun s => negb (used s)) sl with
                     | Some _ => [QCreate slot l]
                     | None => []
                     end
        | None => [QCreate slot l]     (* outside the slot array: undefined in both models *)
        end
      else []
  | MBind _ None _ => []
  | MClearSlot slot => if slot_in_range st slot then [QClear slot] else []
  | MMidi c t v => [QMidi c t v]
  | _ => []
  end.

Fixpoint m_proj (logf_o expf_o : f32 -> f32) (ops : list mop) (st : mstate) : list qop :=
  match ops with
  | [] => []
  | o :: r => m_proj1 st o ++
              match m_step logf_o expf_o st o with
              | Some (st', _, _) => m_proj logf_o expf_o r st'
              | None => []
              end
  end.

(* what a handleMidi sends: setSlot of every driven slot, in order *)
Definition drive_msgs (expf_o : f32 -> f32) (st : mstate) (d : drive) : list msg :=
  match d with Drive i num den => set_slot expf_o (Z.of_nat i) (drive_value num den) st end.

Lemma q_run_app : forall a b s s1 s2 d1 d2,
  q_run a s = Some (s1, d1) -> q_run b s1 = Some (s2, d2) -> q_run (a ++ b) s = Some (s2, d1 ++ d2).
Proof.
  induction a as [|o a IH]; intros b s s1 s2 d1 d2 H1 H2; cbn [q_run app] in *.
  - inversion H1; subst. exact H2.
  - destruct (q_step s o) as [[s' ds]|]; [|discriminate].
    destruct (q_run a s') as [[s'' dss]|] eqn:E; [|discriminate].
    inversion H1; subst. rewrite (IH b s' s1 s2 dss d2 E H2). reflexivity.
Qed.

Lemma set_sub_q : forall st slot sb f, q (set_sub st slot sb f) = q st.
Proof. reflexivity. Qed.

Lemma m_step_proj : forall logf_o expf_o st o st' ms r,
  m_step logf_o expf_o st o = Some (st', ms, r) ->
  exists dss, q_run (m_proj1 st o) (q st) = Some (q st', dss) /\
    (forall c t v, o = MMidi c t v -> ms = flat_map (drive_msgs expf_o st') (concat dss)).
Proof.
  intros logf_o expf_o st o st' ms r H. destruct o; cbn [m_step m_proj1] in *.
  - (* createBinding *)
    destruct (create_binding logf_o slot p learn st) as [st1|] eqn:E; [|discriminate].
    inversion H; subst. unfold create_binding in E.
    destruct p as [p|]; [|inversion E; subst; exists []; split; [reflexivity|discriminate]].
    destruct (bindable p); cbn [negb] in E;
      [|inversion E; subst; exists []; split; [reflexivity|discriminate]].
    destruct (nth_error (subs st) slot) as [l|]; [|discriminate].
    destruct (find_index _ l) as [ind|]; [|inversion E; subst; exists []; split; [reflexivity|discriminate]].
    destruct (q_create slot learn (q st)) as [q'|] eqn:Eq; [|discriminate].
    inversion E; subst. exists [[]]. split; [|discriminate].
    cbn [q_run q_step q]. rewrite Eq. reflexivity.
  - inversion H; subst. unfold clear_slot. destruct (slot_in_range st slot).
    + exists [[]]. split; [reflexivity|discriminate].
    + exists []. split; [reflexivity|discriminate].
  - inversion H; subst. exists []. split; [|discriminate]. unfold clear_slot_sub.
    destruct (in_range st slot sb); reflexivity.
  - inversion H; subst. exists []. split; [|discriminate]. unfold set_gain.
    destruct (in_range st slot sb); reflexivity.
  - inversion H; subst. exists []. split; [|discriminate]. unfold set_offset.
    destruct (in_range st slot sb); reflexivity.
  - inversion H; subst. exists []. split; [|discriminate]. unfold update_mapping.
    destruct (in_range st slot sb); reflexivity.
  - inversion H; subst. exists []. split; [reflexivity|discriminate].
  - inversion H; subst. exists []. split; [reflexivity|discriminate].
  - unfold handle_midi in H. destruct (q_midi _ _ _ (q st)) as [[q' ds] ret] eqn:E.
    inversion H; subst. exists [ds]. split.
    + cbn [q_run q_step]. rewrite E. reflexivity.
    + intros c t v _. cbn [concat]. rewrite app_nil_r. reflexivity.
Qed.

Lemma m_run_proj : forall logf_o expf_o ops st st' mss,
  m_run logf_o expf_o ops st = Some (st', mss) ->
  exists dss, q_run (m_proj logf_o expf_o ops st) (q st) = Some (q st', dss).
Proof.
  intros logf_o expf_o. induction ops as [|o ops IH]; intros st st' mss H; cbn [m_run m_proj] in *.
  - inversion H; subst. exists []. reflexivity.
  - destruct (m_step logf_o expf_o st o) as [[[st1 ms] r]|] eqn:E; [|discriminate].
    destruct (m_run logf_o expf_o ops st1) as [[st2 mss2]|] eqn:E2; [|discriminate].
    inversion H; subst.
    destruct (m_step_proj _ _ _ _ _ _ _ E) as (d1 & H1 & _).
    destruct (IH _ _ _ E2) as (d2 & H2).
    exists (d1 ++ d2). eapply q_run_app; eauto.
Qed.

(* the learn-queue theorems, over the full model *)
Lemma m_learn_fifo : forall logf_o expf_o ops n per r st mss,
  m_run logf_o expf_o ops (m_init n per r) = Some (st, mss) ->
  exists a dss,
    s_run (m_proj logf_o expf_o ops (m_init n per r)) (s_init n r) = Some (a, dss) /\
    q_run (m_proj logf_o expf_o ops (m_init n per r)) (q_init n r) = Some (q st, dss) /\
    abs (q st) a.
Proof.
  intros logf_o expf_o ops n per r st mss H.
  destruct (m_run_proj _ _ _ _ _ _ H) as (dss & Hq). cbn [m_init q] in Hq.
  destruct (learn_fifo _ _ _ _ _ Hq) as (a & Ha & Hab).
  exists a, dss. auto.
Qed.

Lemma m_queue_inv : forall logf_o expf_o ops n per r st mss,
  m_run logf_o expf_o ops (m_init n per r) = Some (st, mss) -> queue_inv (q st) /\ uniq (q st).
Proof.
  intros logf_o expf_o ops n per r st mss H.
  destruct (m_run_proj _ _ _ _ _ _ H) as (dss & Hq). cbn [m_init q] in Hq.
  split; [eapply run_queue_inv; eauto|eapply run_uniq; eauto].
Qed.

(* a handleMidi of the full model sends exactly the setSlot messages of the slots
   the queue machine drives, with the raw value num/den *)
Lemma m_midi_msgs : forall logf_o expf_o st c t v st' ms r,
  m_step logf_o expf_o st (MMidi c t v) = Some (st', ms, r) ->
  let '(q', ds, ret) := q_midi c t v (q st) in
  st' = mkM q' (subs st) /\ r = ret /\ ms = flat_map (drive_msgs expf_o st') ds.
Proof.
  intros logf_o expf_o st c t v st' ms r H. cbn [m_step] in H. unfold handle_midi in H.
  destruct (q_midi c t v (q st)) as [[q' ds] ret]. inversion H; subst. auto.
Qed.

(* non-vacuity of the projection: bind with learn (accepted), bind an unknown port
   (dropped), clear another slot, an unbound controller: the first slot is served *)
Definition ex_hist_param : param :=
  mkParam [47; 102; 97] ch_f (Some (b32_of_bits 3212836864)) (Some (b32_of_bits 1092616192))
          false false false.
Definition ex_hist : list mop :=
  [MBind 0 (Some ex_hist_param) true; MBind 1 None true; MClearSlot 1; MMidi 0 20 64].

Lemma m_proj_nonvacuous :
  let id := fun x : f32 => x in
  m_proj id id ex_hist (m_init 2 1 (mkR 0 0 0 0)) = [QCreate 0 true; QClear 1; QMidi 0 20 64] /\
  match m_run id id ex_hist (m_init 2 1 (mkR 0 0 0 0)) with
  | Some (st, mss) =>
      map (fun x => (learning x, cc x)) (qslots (q st)) = [(-1, 20); (-1, -1)] /\
      map (map (fun m => match m with MsgF p _ => p | _ => [] end)) mss = [[]; []; []; [[47; 102; 97]]]
  | None => False
  end.
Proof. cbn zeta. split; vm_compute; [reflexivity|split; reflexivity]. Qed.

(* ======================================================================== *)
(* 2. every message is inside the declared range of the bound parameter       *)
(* ======================================================================== *)
Section Range.
Variable logf_o expf_o : f32 -> f32.
Variable eps : R.

(* declared bounds that are ordered integers in int range, linear scale *)
Definition int_bounds (p : param) (lo hi : Z) : Prop :=
  exists mn mx, p_min p = Some mn /\ p_max p = Some mx /\ p_log p = false /\
    finite32 mn /\ finite32 mx /\ val mn = IZR lo /\ val mx = IZR hi /\
    lo <= hi /\ -2147483648 <= lo /\ hi <= 2147483647.

(* the history invariant: path, type, min, max, scale of a used sub-automation
   are those createBinding stored for an accepted parameter *)
Definition sub_decl (PS : list param) (s : sub) : Prop :=
  used s = true ->
  exists p, In p PS /\ bindable p = true /\ s_path s = p_path p /\ s_type s = p_type p /\
    s_min s = s_min (bound_sub logf_o p) /\ s_max s = s_max (bound_sub logf_o p) /\
    s_scale s = s_scale (bound_sub logf_o p).

Definition msg_ok (PS : list param) (m : msg) : Prop :=
  exists p, In p PS /\ bindable p = true /\
    match m with
    | MsgF a c =>
        a = p_path p /\ p_type p = ch_f /\
        (p_log p = false -> forall mn mx, p_min p = Some mn -> p_max p = Some mx ->
           fle mn mx -> fle mn c /\ fle c mx) /\
        (p_log p = true -> exp_mono expf_o -> log_mono logf_o -> roundtrip logf_o expf_o eps ->
           forall mn mx, p_min p = Some mn -> p_max p = Some mx ->
           finite32 mn -> finite32 mx -> (0 < val mn)%R -> (val mn <= val mx)%R ->
           finite32 c /\ (val mn * (1 - eps) <= val c <= val mx * (1 + eps))%R)
    | MsgI a z => a = p_path p /\ p_type p = ch_i /\ forall lo hi, int_bounds p lo hi -> lo <= z <= hi
    | MsgUB a => a = p_path p /\ p_type p = ch_i /\ forall lo hi, ~ int_bounds p lo hi
    | MsgT a _ => a = p_path p /\ (p_type p = ch_T \/ p_type p = ch_F)
    end.

Lemma msg_ok_bound : forall PS m, msg_ok PS m -> msg_bound PS m.
Proof.
  intros PS m (p & Hp & Hb & H). exists p. split; [assumption|]. split; [assumption|].
  destruct m; intuition.
Qed.

(* what createBinding stores for a parameter that is not a toggle *)
Lemma bound_sub_decl : forall p mn mx, p_type p <> ch_T -> p_min p = Some mn -> p_max p = Some mx ->
  s_min (bound_sub logf_o p) = (if p_log p then logf_o mn else mn) /\
  s_max (bound_sub logf_o p) = (if p_log p then logf_o mx else mx) /\
  s_scale (bound_sub logf_o p) = (if p_log p then 1 else 0).
Proof.
  intros p mn mx Ht Hmn Hmx. unfold bound_sub, remap. cbn [s_min s_max s_scale].
  rewrite Hmn, Hmx. apply Z.eqb_neq in Ht. rewrite Ht. auto.
Qed.

Lemma in_singleton : forall (A : Type) (x y : A), In x [y] -> x = y.
Proof. intros A x y [H|[]]. auto. Qed.

Lemma sub_output_ok : forall PS s v m, sub_decl PS s -> In m (sub_output expf_o s v) -> msg_ok PS m.
Proof.
  intros PS s v m Hs Hm. destruct (sub_output_addr_type _ _ _ _ Hm) as [Hu Hf].
  destruct (Hs Hu) as (p & Hp & Hb & Hpath & Hty & Emn & Emx & Esc).
  exists p. split; [assumption|]. split; [assumption|].
  destruct m as [a z|a c|a b|a]; cbn [msg_for] in Hf.
  - (* int *)
    destruct Hf as [-> Ht]. split; [assumption|]. split; [congruence|].
    intros lo hi (mn & mx & Hmn & Hmx & Hlog & Fmn & Fmx & Vmn & Vmx & Hle & Hlo & Hhi).
    assert (Hnt : p_type p <> ch_T) by (rewrite <- Hty, Ht; discriminate).
    destruct (bound_sub_decl p mn mx Hnt Hmn Hmx) as (D1 & D2 & _). rewrite Hlog in D1, D2.
    rewrite D1 in Emn. rewrite D2 in Emx.
    destruct (int_output_in_range expf_o s v lo hi Hu Ht) as (z' & Ez & Hz);
      try (rewrite ?Emn, ?Emx; assumption).
    rewrite Ez in Hm. apply in_singleton in Hm. inversion Hm; subst. assumption.
  - (* float *)
    destruct Hf as [-> Ht]. split; [assumption|]. split; [congruence|].
    assert (Hnt : p_type p <> ch_T) by (rewrite <- Hty, Ht; discriminate).
    split.
    + intros Hlog mn mx Hmn Hmx Hle.
      destruct (bound_sub_decl p mn mx Hnt Hmn Hmx) as (D1 & D2 & D3). rewrite Hlog in D1, D2, D3.
      rewrite D1 in Emn. rewrite D2 in Emx. rewrite D3 in Esc.
      destruct (float_output_in_range expf_o s v Hu Ht Esc) as (c' & Ec & Hc).
      { rewrite Emn, Emx. assumption. }
      rewrite Ec in Hm. apply in_singleton in Hm.
      assert (Ecc : c = c') by (inversion Hm; reflexivity). rewrite Ecc.
      rewrite Emn, Emx in Hc. assumption.
    + intros Hlog He Hl Hr mn mx Hmn Hmx Fmn Fmx Hpos Hle.
      destruct (bound_sub_decl p mn mx Hnt Hmn Hmx) as (D1 & D2 & D3). rewrite Hlog in D1, D2, D3.
      rewrite D1 in Emn. rewrite D2 in Emx. rewrite D3 in Esc.
      destruct (log_in_range logf_o expf_o eps He Hl Hr s v mn mx Hu Ht Esc Fmn Fmx Hpos Hle Emn Emx)
        as (o & Eo & Fo & Ho).
      rewrite Eo in Hm. apply in_singleton in Hm.
      assert (Ecc : c = o) by (inversion Hm; reflexivity). rewrite Ecc. auto.
  - (* toggle *)
    destruct Hf as [-> Ht]. split; [assumption|]. rewrite <- Hty. assumption.
  - (* undefined int conversion *)
    destruct Hf as [-> Ht]. split; [assumption|]. split; [congruence|].
    intros lo hi (mn & mx & Hmn & Hmx & Hlog & Fmn & Fmx & Vmn & Vmx & Hle & Hlo & Hhi).
    assert (Hnt : p_type p <> ch_T) by (rewrite <- Hty, Ht; discriminate).
    destruct (bound_sub_decl p mn mx Hnt Hmn Hmx) as (D1 & D2 & _). rewrite Hlog in D1, D2.
    rewrite D1 in Emn. rewrite D2 in Emx.
    destruct (int_output_in_range expf_o s v lo hi Hu Ht) as (z' & Ez & Hz);
      try (rewrite ?Emn, ?Emx; assumption).
    rewrite Ez in Hm. apply in_singleton in Hm. discriminate.
Qed.

Lemma sub_decl_weaken : forall PS PS' s, (forall p, In p PS -> In p PS') -> sub_decl PS s -> sub_decl PS' s.
Proof.
  intros PS PS' s Hin H Hu. destruct (H Hu) as (p & Hp & Hrest). exists p. split; [apply Hin; assumption|assumption].
Qed.

Lemma msg_ok_weaken : forall PS PS' m, (forall p, In p PS -> In p PS') -> msg_ok PS m -> msg_ok PS' m.
Proof.
  intros PS PS' m Hin (p & Hp & Hrest). exists p. split; [apply Hin; assumption|assumption].
Qed.

Lemma set_slot_ok : forall PS st slot v m, all_subs (sub_decl PS) st ->
  In m (set_slot expf_o slot v st) -> msg_ok PS m.
Proof.
  intros PS st slot v m H Hm. unfold set_slot in Hm.
  destruct (slot_in_range st slot); [|destruct Hm].
  destruct (nth_error (subs st) (Z.to_nat slot)) as [l|] eqn:E; [|destruct Hm].
  apply in_flat_map in Hm. destruct Hm as (s & Hs & Hm).
  apply nth_error_In in E. unfold all_subs in H. rewrite Forall_forall in H. specialize (H _ E).
  rewrite Forall_forall in H. eapply sub_output_ok; eauto.
Qed.

Lemma set_slot_sub_ok : forall PS st slot sb v m, all_subs (sub_decl PS) st ->
  In m (set_slot_sub expf_o slot sb v st) -> msg_ok PS m.
Proof.
  intros PS st slot sb v m H Hm. unfold set_slot_sub in Hm.
  destruct (in_range st slot sb); [|destruct Hm].
  destruct (get_sub st (Z.to_nat slot) (Z.to_nat sb)) as [s|] eqn:E; [|destruct Hm].
  unfold get_sub in E. destruct (nth_error (subs st) (Z.to_nat slot)) as [l|] eqn:El; [|discriminate].
  apply nth_error_In in El. apply nth_error_In in E.
  unfold all_subs in H. rewrite Forall_forall in H. specialize (H _ El).
  rewrite Forall_forall in H. eapply sub_output_ok; eauto.
Qed.

Lemma m_step_ok : forall PS st o st' ms r,
  all_subs (sub_decl PS) st -> m_step logf_o expf_o st o = Some (st', ms, r) ->
  let PS' := PS ++ bound_params [o] in
  all_subs (sub_decl PS') st' /\ Forall (msg_ok PS') ms.
Proof.
  intros PS st o st' ms r H Hs. cbn zeta.
  assert (Hw : forall p, In p PS -> In p (PS ++ bound_params [o])) by (intros; apply in_or_app; auto).
  assert (H' : all_subs (sub_decl (PS ++ bound_params [o])) st).
  { unfold all_subs in *. eapply Forall_impl; [|exact H]. intros l Hl.
    eapply Forall_impl; [|exact Hl]. intros s. apply sub_decl_weaken. assumption. }
  destruct o; cbn [m_step] in Hs.
  - (* createBinding *)
    destruct (create_binding logf_o slot p learn st) as [st1|] eqn:E; [|discriminate].
    inversion Hs; subst. split; [|constructor].
    unfold create_binding in E. destruct p as [p|]; [|inversion E; subst; assumption].
    destruct (bindable p) eqn:Eb; cbn [negb] in E; [|inversion E; subst; assumption].
    destruct (nth_error (subs st) slot) as [l|]; [|discriminate].
    destruct (find_index _ l) as [ind|]; [|inversion E; subst; assumption].
    destruct (q_create slot learn (q st)) as [q'|]; [|discriminate].
    inversion E; subst. unfold all_subs. cbn [subs].
    apply Forall_upd_nth; [exact H'|]. intros l0 Hl0. apply Forall_upd_nth; [assumption|].
    intros _ _ _. exists p. split.
    + apply in_or_app. right. simpl. auto.
    + split; [assumption|]. unfold bound_sub, remap. cbn [s_path s_type s_min s_max s_scale]. auto 10.
  - inversion Hs; subst. split; [|constructor]. unfold clear_slot.
    destruct (slot_in_range st slot); [|assumption].
    unfold all_subs. cbn [subs]. apply Forall_upd_nth; [exact H'|].
    intros l _. apply Forall_forall. intros s Hin. apply in_map_iff in Hin. destruct Hin as (s0 & <- & _).
    intro Hu. discriminate.
  - inversion Hs; subst. split; [|constructor]. unfold clear_slot_sub.
    destruct (in_range st slot sb); [|assumption].
    apply set_sub_all; [assumption|]. intros x _ Hu. discriminate.
  - inversion Hs; subst. split; [|constructor]. unfold set_gain.
    destruct (in_range st slot sb); [|assumption].
    apply set_sub_all; [assumption|]. intros x Hx. exact Hx.
  - inversion Hs; subst. split; [|constructor]. unfold set_offset.
    destruct (in_range st slot sb); [|assumption].
    apply set_sub_all; [assumption|]. intros x Hx. exact Hx.
  - inversion Hs; subst. split; [|constructor]. unfold update_mapping.
    destruct (in_range st slot sb); [|assumption].
    apply set_sub_all; [assumption|]. intros x Hx. exact Hx.
  - inversion Hs; subst. split; [assumption|]. apply Forall_forall. intros m Hm.
    eapply set_slot_ok; eauto.
  - inversion Hs; subst. split; [assumption|]. apply Forall_forall. intros m Hm.
    eapply set_slot_sub_ok; eauto.
  - unfold handle_midi in Hs. destruct (q_midi _ _ _ (q st)) as [[q' ds] ret].
    inversion Hs; subst. split; [exact H'|]. apply Forall_forall. intros m Hm.
    apply in_flat_map in Hm. destruct Hm as ([i num den] & _ & Hm).
    eapply set_slot_ok; [|exact Hm]. exact H'.
Qed.

Lemma m_run_ok : forall ops PS st st' mss,
  all_subs (sub_decl PS) st -> m_run logf_o expf_o ops st = Some (st', mss) ->
  all_subs (sub_decl (PS ++ bound_params ops)) st' /\
  Forall (Forall (msg_ok (PS ++ bound_params ops))) mss.
Proof.
  induction ops as [|o ops IH]; intros PS st st' mss H Hr; cbn [m_run] in Hr.
  - inversion Hr; subst. unfold bound_params. simpl. rewrite app_nil_r. split; [assumption|constructor].
  - destruct (m_step logf_o expf_o st o) as [[[st1 ms] r]|] eqn:E; [|discriminate].
    destruct (m_run logf_o expf_o ops st1) as [[st2 mss2]|] eqn:E2; [|discriminate].
    inversion Hr; subst.
    destruct (m_step_ok _ _ _ _ _ _ H E) as [H1 M1].
    destruct (IH _ _ _ _ H1 E2) as [H2 M2].
    rewrite bound_params_cons, app_assoc. split; [assumption|]. constructor; [|assumption].
    eapply Forall_impl; [|exact M1]. intros m. apply msg_ok_weaken.
    intros p Hp. apply in_or_app. left. assumption.
Qed.

(* after ANY history: every emitted message is inside the declared range of a
   parameter that a createBinding of the history accepted, and every used
   sub-automation still carries that parameter's declared data *)
Lemma run_in_range : forall ops n per r st mss,
  m_run logf_o expf_o ops (m_init n per r) = Some (st, mss) ->
  Forall (Forall (msg_ok (bound_params ops))) mss /\ all_subs (sub_decl (bound_params ops)) st.
Proof.
  intros ops n per r st mss H.
  destruct (m_run_ok ops [] (m_init n per r) st mss) as [H1 H2]; [|assumption|split; assumption].
  unfold all_subs, m_init. cbn [subs]. apply Forall_forall. intros l Hl. apply repeat_spec in Hl. subst.
  apply Forall_forall. intros s Hs. apply repeat_spec in Hs. subst. intro Hu. discriminate.
Qed.

End Range.

(* non-vacuity: the declared bounds of "/pa" 0..127 (int) are int_bounds *)
Definition ex_int_param : param :=
  mkParam [47; 112; 97] ch_i (Some (b32_of_bits 0)) (Some (b32_of_bits 1123942400)) false false false.

Lemma int_bounds_nonvacuous : int_bounds ex_int_param 0 127 /\ bindable ex_int_param = true.
Proof.
  split; [|reflexivity].
  exists (b32_of_bits 0), (b32_of_bits 1123942400).
  repeat split; try reflexivity; try lia; vm_compute; lra.
Qed.

(* ======================================================================== *)
(* non-vacuity of the per-sub range theorems                                  *)
(* ======================================================================== *)
(* float_output_in_range: "/fa" -1..10, fresh binding *)
Lemma in_range_nonvacuous :
  used ex_sub = true /\ s_type ex_sub = ch_f /\ s_scale ex_sub = 0 /\ fle (s_min ex_sub) (s_max ex_sub) /\
  map (fun m => match m with MsgF _ c => bits_of_b32 c | _ => -1 end)
      (sub_output (fun x => x) ex_sub ex_v1) = [1071644672].
Proof. repeat split; try (vm_compute; reflexivity); try (vm_compute; exact I). Qed.

(* int_output_in_range: "/pa" 0..127, slot value 0.5 gives 64 *)
Definition ex_int_sub : sub := bound_sub (fun x => x) ex_int_param.
Lemma in_range_int_nonvacuous :
  used ex_int_sub = true /\ s_type ex_int_sub = ch_i /\
  finite32 (s_min ex_int_sub) /\ finite32 (s_max ex_int_sub) /\
  val (s_min ex_int_sub) = IZR 0 /\ val (s_max ex_int_sub) = IZR 127 /\
  sub_output (fun x => x) ex_int_sub (b32_of_bits 1056964608) = [MsgI [47; 112; 97] 64].
Proof.
  repeat split; try (vm_compute; reflexivity); vm_compute; lra.
Qed.

(* log_in_range: "/lga" 20..20000 log scale, with the identity as logf/expf *)
Definition ex_log_param : param :=
  mkParam [47; 108; 103; 97] ch_f (Some (b32_of_bits 1101004800)) (Some (b32_of_bits 1184645120))
          true false false.
Definition ex_log_sub : sub := bound_sub (fun x => x) ex_log_param.
Lemma log_in_range_nonvacuous :
  let mn := b32_of_bits 1101004800 in let mx := b32_of_bits 1184645120 in
  used ex_log_sub = true /\ s_type ex_log_sub = ch_f /\ s_scale ex_log_sub = 1 /\
  finite32 mn /\ finite32 mx /\ (0 < val mn)%R /\ (val mn <= val mx)%R /\
  s_min ex_log_sub = mn /\ s_max ex_log_sub = mx.
Proof.
  cbn zeta. repeat split; try (vm_compute; reflexivity); vm_compute; lra.
Qed.
