(* C19 - model of the value mapping of rtosc::AutomationMgr
   (createBinding, updateMapping, setSlot, setSlotSub, clearSlot,
   clearSlotSub, setSlotSubGain/Offset, handleMidi; src/cpp/automations.cpp)
   on IEEE-754 bit level (Auto/F32.v), composed with the learn-queue model
   of Auto/AutoModel.v.

   What the port lookup delivers (existence, type suffix, "min"/"max" after
   atof, "scale", "internal", "no learn") is the record [param]; logf / expf
   of the log-scale path are the Section variables [logf_o] / [expf_o]
   (extracted as function arguments and supplied by the driver).
   No proofs in this file. *)
From Coq Require Import List ZArith Bool.
From Flocq Require Import IEEE754.Binary IEEE754.Bits.
From RtoscV Require Import Auto.F32 Auto.AutoModel.
Import ListNotations.
Local Open Scope Z_scope.

Definition path := list Z.

(* type characters *)
Definition ch_i := 105.
Definition ch_f := 102.
Definition ch_T := 84.
Definition ch_F := 70.

Record param := mkParam {
  p_path : path;
  p_type : Z;                 (* ch_i / ch_f / ch_T from the port name's suffix *)
  p_min : option f32;         (* (float)atof(meta["min"]) if present *)
  p_max : option f32;
  p_log : bool;               (* meta["scale"] contains "log" *)
  p_internal : bool;
  p_nolearn : bool }.

Record sub := mkSub {
  used : bool;
  s_type : Z;
  s_path : path;
  s_min : f32; s_max : f32;
  s_scale : Z;                (* control_scale: 0 linear, 1 log *)
  gain : f32; offset : f32;
  cp1 : f32; cp3 : f32 }.     (* control_points[1], control_points[3] *)

Record mstate := mkM { q : qstate; subs : list (list sub) }.

(* messages handed to the backend; MsgUB = the int conversion was undefined *)
Inductive msg :=
| MsgI (p : path) (v : Z)
| MsgF (p : path) (v : f32)
| MsgT (p : path) (b : bool)
| MsgUB (p : path).

Definition fresh_sub : sub := mkSub false 0 [] f32_0 f32_0 0 f32_100 f32_0 f32_0 f32_0.

Definition m_init (nslots per_slot : nat) (r : regs) : mstate :=
  mkM (q_init nslots r) (repeat (repeat fresh_sub per_slot) nslots).

Definition get_sub (st : mstate) (slot sb : nat) : option sub :=
  match nth_error (subs st) slot with
  | Some l => nth_error l sb
  | None => None
  end.

Definition set_sub (st : mstate) (slot sb : nat) (f : sub -> sub) : mstate :=
  mkM (q st) (upd_nth slot (fun l => upd_nth sb f l) (subs st)).

Definition in_range (st : mstate) (slot sb : Z) : bool :=
  negb ((slot >=? Z.of_nat (length (subs st))) || (slot <? 0) ||
        (sb >=? Z.of_nat (match subs st with l :: _ => length l | [] => 0%nat end)) || (sb <? 0)).

Definition slot_in_range (st : mstate) (slot : Z) : bool :=
  negb ((slot >=? Z.of_nat (length (subs st))) || (slot <? 0)).

(* ---- updateMapping --------------------------------------------------------- *)
(*  float center = (mn+mx)*(0.5 + au.map.offset/100.0);
    float range  = (mx-mn)*au.map.gain/100.0;
    control_points[1] = center-range/2.0;  control_points[3] = center+range/2.0; *)
Definition map_center (mn mx off : f32) : f32 :=
  to_single (mul64 (to_double (add32 mn mx)) (add64 f64_half (div64 (to_double off) f64_100))).
Definition map_range (mn mx gn : f32) : f32 :=
  to_single (div64 (to_double (mul32 (sub32 mx mn) gn)) f64_100).
Definition map_cp1 (center range : f32) : f32 :=
  to_single (sub64 (to_double center) (div64 (to_double range) f64_2)).
Definition map_cp3 (center range : f32) : f32 :=
  to_single (add64 (to_double center) (div64 (to_double range) f64_2)).

Definition remap (s : sub) : sub :=
  let center := map_center (s_min s) (s_max s) (offset s) in
  let range := map_range (s_min s) (s_max s) (gain s) in
  mkSub (used s) (s_type s) (s_path s) (s_min s) (s_max s) (s_scale s) (gain s) (offset s)
        (map_cp1 center range) (map_cp3 center range).

Definition update_mapping (slot sb : Z) (st : mstate) : mstate :=
  if in_range st slot sb then set_sub st (Z.to_nat slot) (Z.to_nat sb) remap else st.

Section Oracles.
Variable logf_o : f32 -> f32.
Variable expf_o : f32 -> f32.

(* ---- setSlotSub ------------------------------------------------------------ *)
(* float v = value*(b-a) + a *)
Definition lin (value a b : f32) : f32 := add32 (mul32 value (sub32 b a)) a.

(* if(v > mx) v = mx; else if(!(v >= mn)) v = mn;   (after the NaN repair; the
   previous "else if(v < mn)" is kept in AutoMapRegress.v) *)
Definition clamp (v mn mx : f32) : f32 :=
  if gt32 v mx then mx else if negb (ge32 v mn) then mn else v.

Definition sub_output (s : sub) (value : f32) : list msg :=
  if negb (used s) then []
  else
    let v := lin value (cp1 s) (cp3 s) in
    if s_type s =? ch_i then
      match int_of_float (roundf (clamp v (s_min s) (s_max s))) with
      | Some z => [MsgI (s_path s) z]
      | None => [MsgUB (s_path s)]
      end
    else if s_type s =? ch_f then
      let c := clamp v (s_min s) (s_max s) in
      [MsgF (s_path s) (if s_scale s =? 1 then expf_o c else c)]
    else if (s_type s =? ch_T) || (s_type s =? ch_F) then
      [MsgT (s_path s) (gt32 v f32_half)]
    else [].

Definition set_slot_sub (slot sb : Z) (value : f32) (st : mstate) : list msg :=
  if in_range st slot sb then
    match get_sub st (Z.to_nat slot) (Z.to_nat sb) with
    | Some s => sub_output s value
    | None => []
    end
  else [].

(* setSlot: every sub in order *)
Definition set_slot (slot : Z) (value : f32) (st : mstate) : list msg :=
  if slot_in_range st slot then
    match nth_error (subs st) (Z.to_nat slot) with
    | Some l => flat_map (fun s => sub_output s value) l
    | None => []
    end
  else [].

(* ---- clearSlotSub / clearSlot --------------------------------------------- *)
Definition cleared (s : sub) : sub :=
  mkSub false 0 [] f32_0 f32_0 (s_scale s) f32_100 f32_0 (cp1 s) (cp3 s).

Definition clear_slot_sub (slot sb : Z) (st : mstate) : mstate :=
  if in_range st slot sb then set_sub st (Z.to_nat slot) (Z.to_nat sb) cleared else st.

Definition clear_slot (slot : Z) (st : mstate) : mstate :=
  if slot_in_range st slot then
    mkM (q_clear slot (q st)) (upd_nth (Z.to_nat slot) (map cleared) (subs st))
  else st.

(* ---- gain / offset ---------------------------------------------------------- *)
Definition set_gain (slot sb : Z) (g : f32) (st : mstate) : mstate :=
  if in_range st slot sb then
    set_sub st (Z.to_nat slot) (Z.to_nat sb)
      (fun s => mkSub (used s) (s_type s) (s_path s) (s_min s) (s_max s) (s_scale s) g (offset s) (cp1 s) (cp3 s))
  else st.

Definition set_offset (slot sb : Z) (o : f32) (st : mstate) : mstate :=
  if in_range st slot sb then
    set_sub st (Z.to_nat slot) (Z.to_nat sb)
      (fun s => mkSub (used s) (s_type s) (s_path s) (s_min s) (s_max s) (s_scale s) (gain s) o (cp1 s) (cp3 s))
  else st.

(* ---- createBinding ----------------------------------------------------------- *)
(* the early returns: unknown port, no bounds (unless :T), unlearnable *)
Definition bindable (p : param) : bool :=
  (match p_min p, p_max p with Some _, Some _ => true | _, _ => p_type p =? ch_T end)
  && negb (p_internal p || p_nolearn p).

Definition bound_sub (p : param) : sub :=
  let ty := p_type p in
  let mn0 := if ty =? ch_T then f32_0 else match p_min p with Some x => x | None => f32_0 end in
  let mx0 := if ty =? ch_T then f32_1 else match p_max p with Some x => x | None => f32_0 end in
  let mn := if p_log p then logf_o mn0 else mn0 in
  let mx := if p_log p then logf_o mx0 else mx0 in
  remap (mkSub true ty (p_path p) mn mx (if p_log p then 1 else 0) f32_100 f32_0 f32_0 f32_0).

(* None: slot outside the array (no range check in the code) *)
Definition create_binding (slot : nat) (po : option param) (learn : bool) (st : mstate)
  : option mstate :=
  match po with
  | None => Some st
  | Some p =>
      if negb (bindable p) then Some st
      else
        match nth_error (subs st) slot with
        | None => None
        | Some l =>
            match find_index (fun s => negb (used s)) l with
            | None => Some st
            | Some ind =>
                match q_create slot learn (q st) with
                | None => None
                | Some q' =>
                    Some (mkM q' (upd_nth slot (upd_nth ind (fun _ => bound_sub p)) (subs st)))
                end
            end
        end
  end.

(* ---- handleMidi ------------------------------------------------------------- *)
Definition drive_value (num den : Z) : f32 :=
  to_single (div64 (double_of_int num) (double_of_int den)).

Definition handle_midi (chan ty val : Z) (st : mstate) : mstate * list msg * Z :=
  let '(q', ds, ret) := q_midi chan ty val (q st) in
  let st' := mkM q' (subs st) in
  (st', flat_map (fun d => match d with Drive i num den =>
                             set_slot (Z.of_nat i) (drive_value num den) st' end) ds, ret).

(* ---- operation histories ---------------------------------------------------- *)
Inductive mop :=
| MBind (slot : nat) (p : option param) (learn : bool)
| MClearSlot (slot : Z)
| MClearSub (slot sb : Z)
| MGain (slot sb : Z) (g : f32)
| MOffset (slot sb : Z) (o : f32)
| MUpdate (slot sb : Z)
| MSetSlot (slot : Z) (v : f32)
| MSetSub (slot sb : Z) (v : f32)
| MMidi (chan ty val : Z).

Definition m_step (st : mstate) (o : mop) : option (mstate * list msg * Z) :=
  match o with
  | MBind slot p l => match create_binding slot p l st with Some st' => Some (st', [], 0) | None => None end
  | MClearSlot slot => Some (clear_slot slot st, [], 0)
  | MClearSub slot sb => Some (clear_slot_sub slot sb st, [], 0)
  | MGain slot sb g => Some (set_gain slot sb g st, [], 0)
  | MOffset slot sb o => Some (set_offset slot sb o st, [], 0)
  | MUpdate slot sb => Some (update_mapping slot sb st, [], 0)
  | MSetSlot slot v => Some (st, set_slot slot v st, 0)
  | MSetSub slot sb v => Some (st, set_slot_sub slot sb v st, 0)
  | MMidi c t v => Some (handle_midi c t v st)
  end.

(* state after a history and the messages of every operation *)
Fixpoint m_run (ops : list mop) (st : mstate) : option (mstate * list (list msg)) :=
  match ops with
  | [] => Some (st, [])
  | o :: r =>
      match m_step st o with
      | None => None
      | Some (st', ms, _) =>
          match m_run r st' with
          | Some (st'', mss) => Some (st'', ms :: mss)
          | None => None
          end
      end
  end.

End Oracles.
