(* C19 - log-scale parameters.  logf and expf are libm's; here they are arbitrary
   functions constrained by three hypotheses only:
     exp_mono  : expf is monotone on finite arguments (extended order, it may
                 overflow to +inf),
     log_mono  : logf is monotone on finite positive arguments and finite there,
     roundtrip : expf (logf x) is finite and within the relative error eps of x
                 for finite positive x.
   Proved from them: every emitted value lies in [min*(1-eps), max*(1+eps)] (the
   clamp works in the log domain, unconditionally), and the output is monotone
   in the slot value for all finite slot values and every non-negative gain. *)
From Coq Require Import List ZArith Bool Lia Reals Lra.
From Flocq Require Import Core.Core IEEE754.BinarySingleNaN IEEE754.Binary IEEE754.Bits.
From RtoscV Require Import Auto.F32 Auto.FloatOrder Auto.AutoModel Auto.AutoMapModel Auto.AutoMapProofs
  Auto.AutoRemapProofs Auto.AutoMonoProofs Auto.AutoCpProofs.
Import ListNotations.
Local Open Scope Z_scope.

Definition exp_mono (expf_o : f32 -> f32) : Prop :=
  forall x y, finite32 x -> finite32 y -> (val x <= val y)%R -> fle (expf_o x) (expf_o y).

Definition log_mono (logf_o : f32 -> f32) : Prop :=
  forall x y, finite32 x -> finite32 y -> (0 < val x)%R -> (val x <= val y)%R ->
    finite32 (logf_o x) /\ finite32 (logf_o y) /\ (val (logf_o x) <= val (logf_o y))%R.

Definition roundtrip (logf_o expf_o : f32 -> f32) (eps : R) : Prop :=
  forall x, finite32 x -> (0 < val x)%R ->
    finite32 (expf_o (logf_o x)) /\
    (Rabs (val (expf_o (logf_o x)) - val x) <= eps * val x)%R.

(* what a log-scale sub-automation sends *)
Lemma log_output : forall (expf_o : f32 -> f32) s v, used s = true -> s_type s = ch_f -> s_scale s = 1 ->
  sub_output expf_o s v = [MsgF (s_path s) (expf_o (clamp (lin v (cp1 s) (cp3 s)) (s_min s) (s_max s)))].
Proof. intros expf_o s v Hu Ht Hs. unfold sub_output. rewrite Hu, Ht, Hs. reflexivity. Qed.

(* in range: the clamp keeps the log-domain value in [logf min, logf max] whatever
   the slot value, gain and offset; expf brings it back to [min,max] up to eps *)
Theorem log_in_range : forall (logf_o expf_o : f32 -> f32) (eps : R),
  exp_mono expf_o -> log_mono logf_o -> roundtrip logf_o expf_o eps ->
  forall s v mn mx,
  used s = true -> s_type s = ch_f -> s_scale s = 1 ->
  finite32 mn -> finite32 mx -> (0 < val mn)%R -> (val mn <= val mx)%R ->
  s_min s = logf_o mn -> s_max s = logf_o mx ->
  exists o, sub_output expf_o s v = [MsgF (s_path s) o] /\ finite32 o /\
            (val mn * (1 - eps) <= val o <= val mx * (1 + eps))%R.
Proof.
  intros logf_o expf_o eps Hexp Hlog Hrt s v mn mx Hu Ht Hs Fmn Fmx Hpos Hle Emn Emx.
  rewrite (log_output expf_o s v Hu Ht Hs). eexists. split; [reflexivity|].
  destruct (Hlog mn mx Fmn Fmx Hpos Hle) as (Fl1 & Fl2 & Hl).
  rewrite Emn, Emx.
  destruct (clamp_finite_any (lin v (cp1 s) (cp3 s)) _ _ Fl1 Fl2 Hl) as [Fc [Hc1 Hc2]].
  set (c := clamp (lin v (cp1 s) (cp3 s)) (logf_o mn) (logf_o mx)) in *.
  pose proof (Hexp _ _ Fl1 Fc Hc1) as E1. pose proof (Hexp _ _ Fc Fl2 Hc2) as E2.
  destruct (Hrt mn Fmn Hpos) as [R1 B1].
  assert (Hposx : (0 < val mx)%R) by lra.
  destruct (Hrt mx Fmx Hposx) as [R2 B2].
  assert (Fo : finite32 (expf_o c)) by (apply (fle_between_finite _ _ _ R1 R2 E1 E2)).
  split; [exact Fo|].
  apply fle_val in E1; try assumption. apply fle_val in E2; try assumption.
  apply Rabs_le_inv in B1. apply Rabs_le_inv in B2. split; lra.
Qed.

(* monotone: after updateMapping with a gain that is not negative, for all finite
   slot values *)
Theorem log_monotone : forall (expf_o : f32 -> f32), exp_mono expf_o ->
  forall s0 v1 v2,
  let s := remap s0 in
  used s0 = true -> s_type s0 = ch_f -> s_scale s0 = 1 ->
  finite32 (s_min s0) -> finite32 (s_max s0) -> (val (s_min s0) <= val (s_max s0))%R ->
  nn32 (gain s0) ->
  finite32 v1 -> finite32 v2 -> (val v1 <= val v2)%R ->
  exists o1 o2, sub_output expf_o s v1 = [MsgF (s_path s) o1] /\
                sub_output expf_o s v2 = [MsgF (s_path s) o2] /\ fle o1 o2.
Proof.
  intros expf_o Hexp s0 v1 v2 s Hu Ht Hs Fmn Fmx Hm Hg F1 F2 Hv.
  pose proof (remap_not_inverted s0 Fmn Fmx Hm Hg) as Hcp.
  rewrite (log_output expf_o s v1), (log_output expf_o s v2); try assumption.
  eexists _, _. split; [reflexivity|]. split; [reflexivity|].
  destruct (lin_clamp_monotone (cp1 s) (cp3 s) (s_min s0) (s_max s0) v1 v2 Fmn Fmx Hm Hcp F1 F2 Hv)
    as (Fc1 & Fc2 & Hc).
  apply Hexp; assumption.
Qed.


(* the three hypotheses are consistent: the identity satisfies them with eps = 0 *)
Lemma oracle_hypotheses_consistent :
  exp_mono (fun x => x) /\ log_mono (fun x => x) /\ roundtrip (fun x => x) (fun x => x) 0.
Proof.
  split; [|split].
  - intros x y Fx Fy H. apply fle_val; assumption.
  - intros x y Fx Fy _ H. auto.
  - intros x Fx Hx. split; [assumption|]. rewrite Rminus_diag_eq by reflexivity. rewrite Rabs_R0. lra.
Qed.
