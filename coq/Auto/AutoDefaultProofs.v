(* C19 - the default mapping (gain 100, offset 0): for which ranges does
   updateMapping produce control points equal to the bounds?  Exactly when its
   four float operations are exact: min+max, (min+max)/2, max-min and
   (max-min)*100 representable in binary32 (no overflow).  Every integer range
   with |a+b| < 2^24 and (b-a)*100 < 2^24 is of that kind.  For other ranges
   (0.1 .. 0.7) the control points differ from the bounds by a few ulp (computed
   witness): "linear onto min..max" then holds only up to float rounding. *)
From Coq Require Import List ZArith Bool Lia Reals Lra.
From Flocq Require Import Core.Core IEEE754.BinarySingleNaN IEEE754.Binary IEEE754.Bits.
From RtoscV Require Import Auto.F32 Auto.FloatOrder Auto.AutoModel Auto.AutoMapModel Auto.AutoMapProofs
  Auto.AutoRemapProofs Auto.AutoMonoProofs Auto.AutoCpProofs.
Import ListNotations.
Local Open Scope Z_scope.

Definition F32 (x : R) : Prop := generic_format radix2 (FLT_exp (3 - 128 - 24) 24) x.
Definition F64 (x : R) : Prop := generic_format radix2 (FLT_exp (3 - 1024 - 53) 53) x.

Lemma rnd32_id : forall x, F32 x -> rnd32 x = x.
Proof. intros x H. unfold rnd32. apply round_generic; [apply valid_rnd_round_mode|exact H]. Qed.

Lemma rnd64_id : forall x, F64 x -> rnd64 x = x.
Proof. intros x H. unfold rnd64. apply round_generic; [apply valid_rnd_round_mode|exact H]. Qed.

Lemma F32_val : forall x : f32, F32 (val x).
Proof. intro x. apply generic_format_B2R. Qed.

Lemma F64_val : forall x : f64, F64 (val64 x).
Proof. intro x. apply generic_format_B2R. Qed.

Lemma F32_F64 : forall x, F32 x -> F64 x.
Proof.
  intros x H. apply (generic_inclusion_mag radix2 (FLT_exp (3 - 128 - 24) 24)); [|exact H].
  intros _. unfold FLT_exp. lia.
Qed.

(* half of a binary32 number is a binary64 number *)
Lemma F32_half_F64 : forall x, F32 x -> F64 (x / 2).
Proof.
  intros x H. apply FLT_format_generic in H; [|reflexivity]. destruct H as [[m e] Hx Hm He].
  simpl in Hm, He. apply generic_format_FLT. apply (FLT_spec radix2 _ _ _ (Float radix2 m (e - 1))).
  - rewrite Hx. unfold F2R. cbn [Fnum Fexp]. unfold Z.sub. rewrite bpow_plus.
    replace (bpow radix2 (- (1))) with (/ 2)%R by (simpl; unfold Z.pow_pos; simpl; lra). lra.
  - simpl. apply Z.lt_trans with (2 ^ 24); [exact Hm|reflexivity].
  - simpl. lia.
Qed.

(* ---- forward value lemmas: a bounded rounded result is finite ---------------------- *)
Lemma fwd32 : forall (z : f32) t, not_nan z -> x32 z = sat32 t -> (Rabs t < M32)%R ->
  finite32 z /\ val z = t.
Proof.
  intros z t N E B. rewrite (sat_id 128 t B) in E.
  assert (F : finite32 z).
  { apply (xv_inside_fin 24 128 z N). rewrite E. apply Rabs_lt_inv. exact B. }
  split; [exact F|]. rewrite <- (x32_fin z F). exact E.
Qed.

Lemma fwd64 : forall (z : f64) t, not_nan64 z -> x64 z = sat64 t -> (Rabs t < M64)%R ->
  finite64 z /\ val64 z = t.
Proof.
  intros z t N E B. rewrite (sat_id 1024 t B) in E.
  assert (F : finite64 z).
  { apply (xv_inside_fin 53 1024 z N). rewrite E. apply Rabs_lt_inv. exact B. }
  split; [exact F|]. rewrite <- (x64_fin z F). exact E.
Qed.

Lemma mul64_x : forall x y, finite64 x -> finite64 y ->
  not_nan64 (mul64 x y) /\ x64 (mul64 x y) = sat64 (rnd64 (val64 x * val64 y)).
Proof.
  intros x y Fx Fy. unfold mul64, b64_mult.
  match goal with |- context [Bmult _ _ ?hp ?he ?n _ x y] => exact (mult_xv 53 1024 hp he n x y Fx Fy) end.
Qed.

Lemma div64_fwd : forall x k, finite64 x -> finite64 k -> (1 <= val64 k)%R ->
  finite64 (div64 x k) /\ val64 (div64 x k) = rnd64 (val64 x / val64 k).
Proof.
  intros x k F Fk Hk.
  assert (Hk0 : B2R 53 1024 k <> 0%R) by (fold (val64 k); lra).
  unfold div64, b64_div, NE.
  match goal with |- context [Bdiv _ _ ?hp ?he ?n _ x k] =>
    pose proof (Bdiv_correct 53 1024 hp he n mode_NE x k Hk0) as C end.
  match type of C with if ?b then _ else _ => assert (Hno : b = true) end.
  { apply Rlt_bool_true. apply Rle_lt_trans with (Rabs (B2R 53 1024 x)).
    - apply abs_round_le_generic.
      + apply FLT_exp_valid. reflexivity.
      + apply valid_rnd_round_mode.
      + apply generic_format_abs. apply generic_format_B2R.
      + fold (val64 x) (val64 k). unfold Rdiv. rewrite Rabs_mult.
        rewrite <- (Rmult_1_r (Rabs (val64 x))) at 2.
        apply Rmult_le_compat_l; [apply Rabs_pos|].
        rewrite Rabs_pos_eq by (apply Rlt_le; apply Rinv_0_lt_compat; lra).
        rewrite <- Rinv_1. apply Rinv_le_contravar; lra.
    - apply abs_B2R_lt_emax. }
  rewrite Hno in C. destruct C as (C1 & C2 & _). unfold finite64 in *. rewrite F in C2.
  split; [exact C2|exact C1].
Qed.

Lemma M32_lt_M64 : (M32 < M64)%R.
Proof. unfold Mx. apply bpow_lt. lia. Qed.

Lemma val64_half : val64 f64_half = (1 / 2)%R.
Proof. unfold val64, f64_half. vm_compute. lra. Qed.

Lemma val_100 : val f32_100 = 100%R.
Proof. unfold val, f32_100. vm_compute. lra. Qed.

Lemma val_0 : val f32_0 = 0%R.
Proof. unfold val, f32_0. vm_compute. reflexivity. Qed.

(* ======================================================================== *)
(* exact default control points                                               *)
(* ======================================================================== *)
Theorem default_points_exact_if : forall mn mx : f32,
  finite32 mn -> finite32 mx ->
  F32 (val mn + val mx) -> F32 ((val mn + val mx) / 2) ->
  F32 (val mx - val mn) -> F32 ((val mx - val mn) * 100) ->
  (Rabs (val mn + val mx) < M32)%R -> (Rabs ((val mx - val mn) * 100) < M32)%R ->
  let c := map_center mn mx f32_0 in
  let r := map_range mn mx f32_100 in
  finite32 (map_cp1 c r) /\ finite32 (map_cp3 c r) /\
  val (map_cp1 c r) = val mn /\ val (map_cp3 c r) = val mx.
Proof.
  intros mn mx Fmn Fmx Hs Hh Hd Ht Bs Bt c r.
  pose proof (Mx_pos 128) as HM. pose proof M32_lt_M64 as HMM.
  pose proof (fin_lt 24 128 mn Fmn) as Bmn. pose proof (fin_lt 24 128 mx Fmx) as Bmx.
  fold (val mn) in Bmn. fold (val mx) in Bmx.
  (* center *)
  destruct (add32_x mn mx Fmn Fmx) as [Ns Es].
  destruct (fwd32 _ _ Ns Es) as [Fs Vs]. { rewrite rnd32_id by assumption. assumption. }
  rewrite rnd32_id in Vs by assumption.
  destruct (to_double_val _ Fs) as [FDs VDs].
  assert (F0 : finite32 f32_0) by reflexivity.
  destruct (to_double_val _ F0) as [FD0 VD0]. rewrite val_0 in VD0.
  destruct f64_100_ok as [F100 H100].
  destruct (div64_fwd _ _ FD0 F100 H100) as [Fq Vq].
  rewrite VD0 in Vq. unfold Rdiv in Vq. rewrite Rmult_0_l, rnd64_0 in Vq.
  assert (Fhalf : finite64 f64_half) by reflexivity.
  destruct (add64_x _ _ Fhalf Fq) as [Nw Ew].
  destruct (fwd64 _ _ Nw Ew) as [Fw Vw].
  { rewrite Vq, Rplus_0_r, val64_half. rewrite rnd64_id by (rewrite <- val64_half; apply F64_val).
    rewrite Rabs_pos_eq by lra.
    apply Rlt_trans with M32; [|assumption]. apply Rlt_le_trans with 1%R; [lra|].
    change 1%R with (bpow radix2 0). unfold Mx. apply bpow_le. lia. }
  rewrite Vq, Rplus_0_r, val64_half in Vw. rewrite rnd64_id in Vw by (rewrite <- val64_half; apply F64_val).
  destruct (mul64_x _ _ FDs Fw) as [Np Ep].
  assert (Ehalf : (val64 (to_double (add32 mn mx)) * val64 (add64 f64_half (div64 (to_double f32_0) f64_100))
                   = (val mn + val mx) / 2)%R) by (rewrite VDs, Vs, Vw; lra).
  rewrite Ehalf in Ep.
  assert (Bh : (Rabs ((val mn + val mx) / 2) < M32)%R).
  { unfold Rdiv. rewrite Rabs_mult. rewrite (Rabs_pos_eq (/ 2)) by lra.
    pose proof (Rabs_pos (val mn + val mx)). lra. }
  destruct (fwd64 _ _ Np Ep) as [Fp Vp].
  { rewrite rnd64_id by (apply F32_F64; assumption). lra. }
  rewrite rnd64_id in Vp by (apply F32_F64; assumption).
  destruct (to_single_x _ Fp) as [Nc Ec].
  destruct (fwd32 _ _ Nc Ec) as [Fc Vc]. { rewrite Vp, rnd32_id by assumption. assumption. }
  rewrite Vp, rnd32_id in Vc by assumption.
  fold (map_center mn mx f32_0) in Fc, Vc. fold c in Fc, Vc.
  (* range *)
  destruct (sub32_x mx mn Fmx Fmn) as [Nd Ed].
  assert (Bd : (Rabs (val mx - val mn) < M32)%R).
  { apply Rle_lt_trans with (Rabs ((val mx - val mn) * 100)); [|assumption].
    rewrite Rabs_mult. rewrite (Rabs_pos_eq 100) by lra. pose proof (Rabs_pos (val mx - val mn)). lra. }
  destruct (fwd32 _ _ Nd Ed) as [Fd Vd]. { rewrite rnd32_id by assumption. assumption. }
  rewrite rnd32_id in Vd by assumption.
  assert (F100f : finite32 f32_100) by reflexivity.
  destruct (mul32_x _ _ Fd F100f) as [Nt Et]. rewrite Vd, val_100 in Et.
  destruct (fwd32 _ _ Nt Et) as [Ft Vt]. { rewrite rnd32_id by assumption. assumption. }
  rewrite rnd32_id in Vt by assumption.
  destruct (to_double_val _ Ft) as [FDt VDt].
  destruct (div64_fwd _ _ FDt F100 H100) as [Fu Vu].
  rewrite VDt, Vt, val64_100 in Vu.
  replace ((val mx - val mn) * 100 / 100)%R with (val mx - val mn)%R in Vu by lra.
  rewrite rnd64_id in Vu by (apply F32_F64; assumption).
  destruct (to_single_x _ Fu) as [Nr Er].
  destruct (fwd32 _ _ Nr Er) as [Fr Vr]. { rewrite Vu, rnd32_id by assumption. assumption. }
  rewrite Vu, rnd32_id in Vr by assumption.
  fold (map_range mn mx f32_100) in Fr, Vr. fold r in Fr, Vr.
  (* half range *)
  destruct (to_double_val _ Fr) as [FDr VDr]. destruct (to_double_val _ Fc) as [FDc VDc].
  destruct f64_2_ok as [F2 H2].
  destruct (div64_fwd _ _ FDr F2 H2) as [Fh Vh]. rewrite VDr, Vr, val64_2 in Vh.
  rewrite rnd64_id in Vh by (apply F32_half_F64; assumption).
  (* control points *)
  destruct (sub64_x _ _ FDc Fh) as [N1 E1]. rewrite VDc, Vc, Vh in E1.
  replace ((val mn + val mx) / 2 - (val mx - val mn) / 2)%R with (val mn) in E1 by lra.
  rewrite rnd64_id in E1 by (apply F32_F64; apply F32_val).
  destruct (fwd64 _ _ N1 E1) as [G1 W1]. { apply Rabs_lt. lra. }
  destruct (to_single_x _ G1) as [N1' E1']. rewrite W1, rnd32_id in E1' by apply F32_val.
  destruct (fwd32 _ _ N1' E1') as [K1 Z1]. { apply Rabs_lt. lra. }
  destruct (add64_x _ _ FDc Fh) as [N3 E3]. rewrite VDc, Vc, Vh in E3.
  replace ((val mn + val mx) / 2 + (val mx - val mn) / 2)%R with (val mx) in E3 by lra.
  rewrite rnd64_id in E3 by (apply F32_F64; apply F32_val).
  destruct (fwd64 _ _ N3 E3) as [G3 W3]. { apply Rabs_lt. lra. }
  destruct (to_single_x _ G3) as [N3' E3']. rewrite W3, rnd32_id in E3' by apply F32_val.
  destruct (fwd32 _ _ N3' E3') as [K3 Z3]. { apply Rabs_lt. lra. }
  unfold map_cp1, map_cp3. repeat split; assumption.
Qed.

(* ---- integers ------------------------------------------------------------------------ *)
Lemma F32_int : forall n, Z.abs n < 2 ^ 24 -> F32 (IZR n).
Proof.
  intros n H. apply generic_format_FLT. apply (FLT_spec radix2 _ _ _ (Float radix2 n 0)).
  - unfold F2R. simpl. lra.
  - exact H.
  - simpl. lia.
Qed.

Lemma F32_half_int : forall n, Z.abs n < 2 ^ 24 -> F32 (IZR n / 2).
Proof.
  intros n H. apply generic_format_FLT. apply (FLT_spec radix2 _ _ _ (Float radix2 n (-1))).
  - unfold F2R. simpl. unfold Z.pow_pos. simpl. lra.
  - exact H.
  - simpl. lia.
Qed.

Lemma int_lt_M32 : forall n, Z.abs n < 2 ^ 24 -> (Rabs (IZR n) < M32)%R.
Proof.
  intros n H. rewrite <- abs_IZR. apply Rlt_trans with (IZR (2 ^ 24)).
  - apply IZR_lt. exact H.
  - unfold Mx. change (IZR (2 ^ 24)) with (bpow radix2 24). apply bpow_lt. lia.
Qed.

(* every integer range with |a+b| < 2^24 and |b-a|*100 < 2^24 has exact default
   control points *)
Theorem default_points_exact_int : forall (mn mx : f32) a b,
  finite32 mn -> finite32 mx -> val mn = IZR a -> val mx = IZR b ->
  Z.abs (a + b) < 2 ^ 24 -> Z.abs ((b - a) * 100) < 2 ^ 24 ->
  let c := map_center mn mx f32_0 in
  let r := map_range mn mx f32_100 in
  finite32 (map_cp1 c r) /\ finite32 (map_cp3 c r) /\
  val (map_cp1 c r) = IZR a /\ val (map_cp3 c r) = IZR b.
Proof.
  intros mn mx a b Fmn Fmx Ea Eb Hs Ht c r.
  assert (Hd : Z.abs (b - a) < 2 ^ 24) by lia.
  rewrite <- Ea, <- Eb. apply default_points_exact_if; try assumption; rewrite Ea, Eb.
  - rewrite <- plus_IZR. apply F32_int. assumption.
  - rewrite <- plus_IZR. apply F32_half_int. assumption.
  - rewrite <- minus_IZR. apply F32_int. assumption.
  - rewrite <- minus_IZR, <- mult_IZR. apply F32_int. assumption.
  - rewrite <- plus_IZR. apply int_lt_M32. assumption.
  - rewrite <- minus_IZR, <- mult_IZR. apply int_lt_M32. assumption.
Qed.

(* ---- the map between the exact control points ------------------------------------------ *)
Lemma lin_val : forall v a b, finite32 (lin v a b) ->
  val (lin v a b) = rnd32 (rnd32 (val v * rnd32 (val b - val a)) + val a).
Proof.
  intros v a b F. unfold lin in *.
  destruct (add32_val _ _ F) as (E & Fm & Fa). destruct (mul32_val _ _ Fm) as (M & Fv & Fd).
  destruct (sub32_finite_args _ _ Fd) as [Fb _].
  rewrite E, M, (sub32_val b a Fb Fa Fd). reflexivity.
Qed.

(* at the default gain and offset a range with exact arithmetic is mapped by
   v |-> fl(fl(v*(max-min)) + min): 0 goes to min, 1 goes to max *)
Theorem default_linear_exact : forall (a b : f32) (mn mx : R),
  val a = mn -> val b = mx -> F32 (mx - mn) ->
  (forall v, finite32 (lin v a b) -> val (lin v a b) = rnd32 (rnd32 (val v * (mx - mn)) + mn)) /\
  (finite32 (lin f32_0 a b) -> val (lin f32_0 a b) = mn) /\
  (finite32 (lin f32_1 a b) -> val (lin f32_1 a b) = mx).
Proof.
  intros a b mn mx Ea Eb Hd.
  assert (G : forall v, finite32 (lin v a b) -> val (lin v a b) = rnd32 (rnd32 (val v * (mx - mn)) + mn)).
  { intros v F. rewrite (lin_val v a b F), Ea, Eb. rewrite (rnd32_id (mx - mn)) by assumption. reflexivity. }
  split; [exact G|]. split; intro F; rewrite (G _ F).
  - rewrite val_0, Rmult_0_l, rnd32_0, Rplus_0_l. rewrite <- Ea. apply rnd32_id. apply F32_val.
  - replace (val f32_1) with 1%R by (unfold val, f32_1; vm_compute; lra).
    rewrite Rmult_1_l, (rnd32_id (mx - mn)) by assumption.
    replace (mx - mn + mn)%R with mx by lra. rewrite <- Eb. apply rnd32_id. apply F32_val.
Qed.

(* ---- a range whose default control points are NOT the bounds ---------------------------- *)
(* 0.1 .. 0.7: control_points[1] is three ulp above min, so slot value 0 is
   mapped to 0.10000002 and not to 0.1f *)
Lemma default_points_inexact_witness :
  let mn := b32_of_bits 1036831949 in let mx := b32_of_bits 1060320051 in
  let c := map_center mn mx f32_0 in let r := map_range mn mx f32_100 in
  default_points_exact mn mx = false /\
  bits_of_b32 (map_cp1 c r) = 1036831952 /\ bits_of_b32 (map_cp3 c r) = 1060320051 /\
  bits_of_b32 (clamp (lin f32_0 (map_cp1 c r) (map_cp3 c r)) mn mx) = 1036831952.
Proof. vm_compute. repeat split; reflexivity. Qed.
