(* C19 - updateMapping never inverts the control points: for finite bounds
   min <= max and a gain that is not negative (0 <= gain, +inf and NaN
   included) and ANY offset, not (cp3 < cp1) - overflow to infinity and NaN
   control points included.  Together with AutoMonoProofs this removes every
   side condition from the monotonicity theorem for finite slot values. *)
From Coq Require Import List ZArith Bool Lia Reals Lra.
From Flocq Require Import Core.Core IEEE754.BinarySingleNaN IEEE754.Binary IEEE754.Bits.
From RtoscV Require Import Auto.F32 Auto.FloatOrder Auto.AutoModel Auto.AutoMapModel Auto.AutoMapProofs
  Auto.AutoRemapProofs Auto.AutoMonoProofs.
Import ListNotations.
Local Open Scope Z_scope.

Notation x64 := (xv 53 1024).
Notation M64 := (Mx 1024).
Notation sat64 := (sat 1024).

Definition not_nan64 (x : f64) : Prop := is_nan 53 1024 x = false.

(* NaN, or ordered and not negative *)
Definition nn32 (x : f32) : Prop := is_nan 24 128 x = true \/ (not_nan x /\ (0 <= x32 x)%R).
Definition nn64 (x : f64) : Prop := is_nan 53 1024 x = true \/ (not_nan64 x /\ (0 <= x64 x)%R).

Lemma x64_fin : forall x : f64, finite64 x -> x64 x = val64 x.
Proof. intros x H. apply fin_xv. exact H. Qed.

Lemma satrnd32_nonneg : forall t, (0 <= t)%R -> (0 <= sat32 (rnd32 t))%R.
Proof.
  intros t H. pose proof (Mx_pos 128). rewrite <- (sat_id 128 0) at 1 by (rewrite Rabs_R0; assumption).
  rewrite <- rnd32_0. apply satrnd_le. assumption.
Qed.

Lemma satrnd64_le : forall s t, (s <= t)%R -> (sat64 (rnd64 s) <= sat64 (rnd64 t))%R.
Proof. intros s t H. apply sat_le. apply rnd64_le. exact H. Qed.

Lemma satrnd64_nonneg : forall t, (0 <= t)%R -> (0 <= sat64 (rnd64 t))%R.
Proof.
  intros t H. pose proof (Mx_pos 1024). rewrite <- (sat_id 1024 0) at 1 by (rewrite Rabs_R0; assumption).
  rewrite <- rnd64_0. apply satrnd64_le. assumption.
Qed.

(* a finite float with non-negative value and a non-zero mantissa has sign + *)
Lemma finite_nonneg_sign : forall s m e (H : SpecFloat.bounded 24 128 m e = true),
  (0 <= val (B754_finite 24 128 s m e H))%R -> s = false.
Proof.
  intros s m e H Hv. destruct s; [|reflexivity]. exfalso.
  assert (val (B754_finite 24 128 true m e H) < 0)%R by (unfold val; simpl; apply F2R_lt_0; simpl; lia). lra.
Qed.

(* ---- (mx - mn) * gain --------------------------------------------------------- *)
Lemma sub32_nonneg : forall mn mx, finite32 mn -> finite32 mx -> (val mn <= val mx)%R ->
  not_nan (sub32 mx mn) /\ (0 <= x32 (sub32 mx mn))%R.
Proof.
  intros mn mx Fmn Fmx H. destruct (sub32_x mx mn Fmx Fmn) as [N E]. split; [assumption|].
  rewrite E. apply satrnd32_nonneg. lra.
Qed.

Lemma mul32_nn : forall d g, not_nan d -> (0 <= x32 d)%R -> nn32 g -> nn32 (mul32 d g).
Proof.
  intros d g Nd Hd [Ng|[Ng Hg]].
  - left. apply mul32_nan_r. assumption.
  - pose proof (Mx_pos 128) as HM.
    destruct (is_finite 24 128 d) eqn:Fd; destruct (is_finite 24 128 g) eqn:Fg.
    + right. destruct (mul32_x d g Fd Fg) as [N E]. split; [assumption|]. rewrite E.
      apply satrnd32_nonneg. rewrite (x32_fin d Fd) in Hd. rewrite (x32_fin g Fg) in Hg.
      apply Rmult_le_pos; assumption.
    + (* g infinite: +inf *)
      destruct g as [sg|sg|sg plg eg|sg mg eg Hbg]; try discriminate.
      destruct sg; [simpl in Hg; lra|].
      destruct d as [sd|sd|sd pld ed|sd md ed Hbd]; try discriminate.
      * left. reflexivity.
      * rewrite (x32_fin _ Fd) in Hd. pose proof (finite_nonneg_sign _ _ _ _ Hd). subst sd.
        right. split; [reflexivity|]. simpl. lra.
    + (* d = +inf *)
      destruct d as [sd|sd|sd pld ed|sd md ed Hbd]; try discriminate.
      destruct sd; [simpl in Hd; lra|].
      destruct g as [sg|sg|sg plg eg|sg mg eg Hbg]; try discriminate.
      * left. reflexivity.
      * rewrite (x32_fin _ Fg) in Hg. pose proof (finite_nonneg_sign _ _ _ _ Hg). subst sg.
        right. split; [reflexivity|]. simpl. lra.
    + destruct d as [sd|sd|sd pld ed|sd md ed Hbd]; try discriminate.
      destruct g as [sg|sg|sg plg eg|sg mg eg Hbg]; try discriminate.
      destruct sd; [simpl in Hd; lra|]. destruct sg; [simpl in Hg; lra|].
      right. split; [reflexivity|]. simpl. lra.
Qed.

(* ---- conversions ----------------------------------------------------------------- *)
Lemma to_double_nn : forall x, nn32 x -> nn64 (to_double x).
Proof.
  intros x [N|[N H]].
  - left. destruct x; try discriminate. reflexivity.
  - pose proof (Mx_pos 128) as HM. pose proof (Mx_pos 1024) as HM'.
    destruct (is_finite 24 128 x) eqn:F.
    + right. destruct (to_double_val x F) as [F' E]. split; [apply (fin_nnan 53 1024); exact F'|].
      rewrite (x64_fin _ F'), E. rewrite (x32_fin x F) in H. exact H.
    + destruct x as [s|s|s pl e|s m e Hb]; try discriminate.
      destruct s; [simpl in H; lra|]. right. split; [reflexivity|]. simpl. lra.
Qed.

Lemma to_single_x : forall y : f64, finite64 y ->
  not_nan (to_single y) /\ x32 (to_single y) = sat32 (rnd32 (val64 y)).
Proof.
  intros y F. pose proof (Mx_pos 128) as HM.
  destruct y as [s|s|s pl e|s m e Hb]; try discriminate.
  - split; [reflexivity|]. unfold val64. simpl. rewrite rnd32_0. rewrite sat_id; [reflexivity|].
    rewrite Rabs_R0. assumption.
  - unfold to_single, NE.
    pose proof (binary_normalize_correct 24 128 p24 e24 mode_NE (cond_Zopp s (Z.pos m)) e s) as C.
    match type of C with if ?b then _ else _ => destruct b eqn:E end.
    + destruct C as (C1 & C2 & _). split; [apply (fin_nnan 24 128); exact C2|].
      rewrite (fin_xv 24 128) by exact C2. rewrite C1. symmetry. apply sat_id.
      apply Rlt_bool_true_inv. exact E.
    + apply (overflow_is_inf 24 128) in C. rewrite C. split; [reflexivity|].
      apply (sat_overflow 24 128 p24); [exact E| |]; intro Hs.
      * apply Rlt_bool_true_inv in Hs. unfold val64. simpl. lra.
      * apply Rlt_bool_false_inv in Hs. unfold val64. simpl. lra.
Qed.

Lemma to_single_nn : forall y, nn64 y -> nn32 (to_single y).
Proof.
  intros y [N|[N H]].
  - left. destruct y; try discriminate. reflexivity.
  - pose proof (Mx_pos 128) as HM. pose proof (Mx_pos 1024) as HM'.
    destruct (is_finite 53 1024 y) eqn:F.
    + right. destruct (to_single_x y F) as [N' E]. split; [assumption|]. rewrite E.
      apply satrnd32_nonneg. rewrite (x64_fin y F) in H. exact H.
    + destruct y as [s|s|s pl e|s m e Hb]; try discriminate.
      destruct s; [simpl in H; lra|]. right. split; [reflexivity|]. simpl. lra.
Qed.

(* to_single is monotone in the extended order *)
Lemma to_single_mono : forall y1 y2 : f64, not_nan64 y1 -> not_nan64 y2 -> (x64 y1 <= x64 y2)%R ->
  not_nan (to_single y1) /\ not_nan (to_single y2) /\ (x32 (to_single y1) <= x32 (to_single y2))%R.
Proof.
  intros y1 y2 N1 N2 H. pose proof (Mx_pos 128) as HM. pose proof (Mx_pos 1024) as HM'.
  assert (G : forall y : f64, not_nan64 y ->
            not_nan (to_single y) /\
            ((finite64 y /\ x32 (to_single y) = sat32 (rnd32 (val64 y))) \/
             (exists s, y = B754_infinity 53 1024 s /\ to_single y = B754_infinity 24 128 s))).
  { intros y Ny. destruct (is_finite 53 1024 y) eqn:Fy.
    - destruct (to_single_x y Fy) as [Hn Hx]. split; [assumption|]. left. split; assumption.
    - destruct y as [s|s|s pl e|s m e Hb]; try discriminate.
      split; [reflexivity|]. right. exists s. split; reflexivity. }
  destruct (G y1 N1) as [A1 C1]. destruct (G y2 N2) as [A2 C2].
  split; [assumption|]. split; [assumption|].
  destruct C1 as [[F1 E1]|(s1 & -> & E1)]; destruct C2 as [[F2 E2]|(s2 & -> & E2)].
  - rewrite E1, E2. apply satrnd_le. rewrite (x64_fin y1 F1), (x64_fin y2 F2) in H. exact H.
  - rewrite E2. pose proof (fin_lt 53 1024 y1 F1) as B1. rewrite (x64_fin y1 F1) in H. unfold val64 in H.
    pose proof (xv_bounds 24 128 (to_single y1)) as Bx.
    destruct s2; simpl in H |- *; lra.
  - rewrite E1. pose proof (fin_lt 53 1024 y2 F2) as B2. rewrite (x64_fin y2 F2) in H. unfold val64 in H.
    pose proof (xv_bounds 24 128 (to_single y2)) as Bx.
    destruct s1; simpl in H |- *; lra.
  - rewrite E1, E2. destruct s1; destruct s2; simpl in H |- *; lra.
Qed.

(* ---- division by a constant >= 1 ------------------------------------------------ *)
Lemma div64_nn : forall x k, finite64 k -> (1 <= val64 k)%R -> nn64 x -> nn64 (div64 x k).
Proof.
  intros x k Fk Hk [N|[N H]].
  - left. unfold div64, b64_div, Bdiv. destruct x; try discriminate. destruct k; reflexivity.
  - pose proof (Mx_pos 1024) as HM.
    assert (Sk : exists m e Hb, k = B754_finite 53 1024 false m e Hb).
    { destruct k as [s|s|s pl e|s m e Hb]; try discriminate.
      - unfold val64 in Hk. simpl in Hk. lra.
      - destruct s.
        + assert (val64 (B754_finite 53 1024 true m e Hb) < 0)%R
            by (unfold val64; simpl; apply F2R_lt_0; simpl; lia). lra.
        + eauto. }
    destruct (is_finite 53 1024 x) eqn:F.
    + right. rewrite (x64_fin x F) in H.
      assert (Hk0 : B2R 53 1024 k <> 0%R) by (fold (val64 k); lra).
      unfold div64, b64_div.
      unfold NE.
      match goal with |- context [Bdiv _ _ ?hp ?he ?n _ x k] =>
        pose proof (Bdiv_correct 53 1024 hp he n mode_NE x k Hk0) as C end.
      match type of C with if ?b then _ else _ => assert (Hno : b = true) end.
      { apply Rlt_bool_true. apply Rle_lt_trans with (Rabs (B2R 53 1024 x)).
        - apply abs_round_le_generic.
          + apply FLT_exp_valid. reflexivity.
          + apply valid_rnd_round_mode.
          + apply generic_format_abs. apply generic_format_B2R.
          + fold (val64 x) (val64 k). rewrite (Rabs_pos_eq (val64 x)) by assumption.
            rewrite Rabs_pos_eq.
            * apply Rle_trans with (val64 x / 1)%R; [|lra].
              unfold Rdiv. apply Rmult_le_compat_l; [assumption|].
              apply Rinv_le_contravar; lra.
            * unfold Rdiv. apply Rmult_le_pos; [assumption|]. apply Rlt_le. apply Rinv_0_lt_compat. lra.
        - apply abs_B2R_lt_emax. }
      rewrite Hno in C. destruct C as (C1 & C2 & _). rewrite F in C2.
      split; [apply (fin_nnan 53 1024); exact C2|].
      rewrite (fin_xv 53 1024) by exact C2. rewrite C1.
      fold (rnd64 (B2R 53 1024 x / B2R 53 1024 k)). rewrite <- rnd64_0. apply rnd64_le.
      fold (val64 x) (val64 k). unfold Rdiv. apply Rmult_le_pos; [assumption|].
      apply Rlt_le. apply Rinv_0_lt_compat. lra.
    + destruct x as [s|s|s pl e|s m e Hb]; try discriminate.
      destruct s; [simpl in H; lra|]. destruct Sk as (m & e & Hb & ->).
      right. split; [reflexivity|]. simpl. lra.
Qed.

Lemma f64_2_ok : finite64 f64_2 /\ (1 <= val64 f64_2)%R.
Proof. split; [reflexivity|rewrite val64_2; lra]. Qed.

Lemma f64_100_ok : finite64 f64_100 /\ (1 <= val64 f64_100)%R.
Proof. split; [reflexivity|rewrite val64_100; lra]. Qed.

(* ---- range and half-range are NaN or non-negative -------------------------------- *)
Lemma map_range_nn : forall mn mx g, finite32 mn -> finite32 mx -> (val mn <= val mx)%R ->
  nn32 g -> nn32 (map_range mn mx g).
Proof.
  intros mn mx g Fmn Fmx H Hg. unfold map_range.
  destruct (sub32_nonneg mn mx Fmn Fmx H) as [Nd Hd].
  apply to_single_nn. destruct f64_100_ok. apply div64_nn; try assumption.
  apply to_double_nn. apply mul32_nn; assumption.
Qed.

(* ---- center -/+ half-range -------------------------------------------------------- *)
Lemma lt32_pinf_l : forall y : f32, lt32 (B754_infinity 24 128 false) y = false.
Proof. intro y. destruct y as [s|s|s pl e|s m e Hb]; try reflexivity. destruct s; reflexivity. Qed.

Lemma lt32_ninf_r : forall x : f32, lt32 x (B754_infinity 24 128 true) = false.
Proof. intro x. destruct x as [s|s|s pl e|s m e Hb]; try reflexivity; destruct s; reflexivity. Qed.

Lemma lt32_nan_l : forall x y : f32, is_nan 24 128 x = true -> lt32 x y = false.
Proof. intros x y H. destruct x; try discriminate. reflexivity. Qed.

Lemma lt32_nan_r : forall x y : f32, is_nan 24 128 y = true -> lt32 x y = false.
Proof. intros x y H. destruct y; try discriminate. destruct x; reflexivity. Qed.

Lemma lt32_x_false : forall x y : f32, not_nan x -> not_nan y -> (x32 y <= x32 x)%R -> lt32 x y = false.
Proof.
  intros x y Nx Ny H. unfold lt32. rewrite (cmp32_x x y Nx Ny).
  destruct (Rcompare_spec (x32 x) (x32 y)); try reflexivity. lra.
Qed.

Lemma add64_x : forall x y, finite64 x -> finite64 y ->
  not_nan64 (add64 x y) /\ x64 (add64 x y) = sat64 (rnd64 (val64 x + val64 y)).
Proof.
  intros x y Fx Fy. unfold add64, b64_plus.
  match goal with |- context [Bplus _ _ ?hp ?he ?n _ x y] => exact (plus_xv 53 1024 hp he n x y Fx Fy) end.
Qed.

Lemma sub64_x : forall x y, finite64 x -> finite64 y ->
  not_nan64 (sub64 x y) /\ x64 (sub64 x y) = sat64 (rnd64 (val64 x - val64 y)).
Proof.
  intros x y Fx Fy. unfold sub64, b64_minus.
  match goal with |- context [Bminus _ _ ?hp ?he ?n _ x y] => exact (minus_xv 53 1024 hp he n x y Fx Fy) end.
Qed.

Lemma cp_not_inverted : forall (C h : f64), nn64 h ->
  lt32 (to_single (add64 C h)) (to_single (sub64 C h)) = false.
Proof.
  intros C h [Nh|[Nh Hh]].
  - apply lt32_nan_l. destruct h; try discriminate.
    unfold add64, b64_plus, Bplus. destruct C; reflexivity.
  - pose proof (Mx_pos 1024) as HM.
    destruct C as [sc|sc|sc plc ec|sc mc ec Hbc].
    + (* zero *)
      set (C := B754_zero 53 1024 sc). assert (FC : finite64 C) by reflexivity.
      destruct (is_finite 53 1024 h) eqn:Fh.
      * destruct (add64_x C h FC Fh) as [Na Ea]. destruct (sub64_x C h FC Fh) as [Ns Es].
        rewrite (x64_fin h Fh) in Hh.
        destruct (to_single_mono (sub64 C h) (add64 C h) Ns Na) as (N1 & N2 & Hx).
        { rewrite Ea, Es. apply satrnd64_le. lra. }
        apply lt32_x_false; assumption.
      * destruct h as [s|s|s pl e|s m e Hb]; try discriminate.
        destruct s; [simpl in Hh; lra|]. apply lt32_pinf_l.
    + (* infinite *)
      destruct sc.
      * (* -inf - h = -inf *)
        assert (E : to_single (sub64 (B754_infinity 53 1024 true) h) = B754_infinity 24 128 true).
        { destruct h as [s|s|s pl e|s m e Hb]; try discriminate; try reflexivity.
          destruct s; [simpl in Hh; lra|reflexivity]. }
        rewrite E. apply lt32_ninf_r.
      * assert (E : to_single (add64 (B754_infinity 53 1024 false) h) = B754_infinity 24 128 false).
        { destruct h as [s|s|s pl e|s m e Hb]; try discriminate; try reflexivity.
          destruct s; [simpl in Hh; lra|reflexivity]. }
        rewrite E. apply lt32_pinf_l.
    + apply lt32_nan_l. unfold add64, b64_plus, Bplus. destruct h; reflexivity.
    + set (C := B754_finite 53 1024 sc mc ec Hbc). assert (FC : finite64 C) by reflexivity.
      destruct (is_finite 53 1024 h) eqn:Fh.
      * destruct (add64_x C h FC Fh) as [Na Ea]. destruct (sub64_x C h FC Fh) as [Ns Es].
        rewrite (x64_fin h Fh) in Hh.
        destruct (to_single_mono (sub64 C h) (add64 C h) Ns Na) as (N1 & N2 & Hx).
        { rewrite Ea, Es. apply satrnd64_le. lra. }
        apply lt32_x_false; assumption.
      * destruct h as [s|s|s pl e|s m e Hb]; try discriminate.
        destruct s; [simpl in Hh; lra|]. apply lt32_pinf_l.
Qed.

(* updateMapping never inverts the control points *)
Theorem remap_not_inverted : forall s,
  finite32 (s_min s) -> finite32 (s_max s) -> (val (s_min s) <= val (s_max s))%R ->
  nn32 (gain s) ->
  lt32 (cp3 (remap s)) (cp1 (remap s)) = false.
Proof.
  intros s Fmn Fmx H Hg. unfold remap. cbn [cp1 cp3]. unfold map_cp1, map_cp3.
  apply cp_not_inverted. destruct f64_2_ok. apply div64_nn; try assumption.
  apply to_double_nn. apply map_range_nn; assumption.
Qed.

(* ======================================================================== *)
(* monotonicity without side conditions on the arithmetic                      *)
(* ======================================================================== *)
Lemma float_output_monotone_x : forall (expf_o : f32 -> f32) s v1 v2,
  used s = true -> s_type s = ch_f -> s_scale s = 0 ->
  finite32 (s_min s) -> finite32 (s_max s) -> (val (s_min s) <= val (s_max s))%R ->
  lt32 (cp3 s) (cp1 s) = false ->
  finite32 v1 -> finite32 v2 -> (val v1 <= val v2)%R ->
  exists c1 c2, sub_output expf_o s v1 = [MsgF (s_path s) c1] /\
                sub_output expf_o s v2 = [MsgF (s_path s) c2] /\
                finite32 c1 /\ finite32 c2 /\ (val c1 <= val c2)%R.
Proof.
  intros expf_o s v1 v2 Hu Ht Hs Fmn Fmx Hm Hcp F1 F2 Hv.
  unfold sub_output. rewrite Hu, Ht, Hs. simpl.
  eexists _, _. split; [reflexivity|]. split; [reflexivity|].
  apply lin_clamp_monotone; assumption.
Qed.

Lemma int_output_monotone_x : forall (expf_o : f32 -> f32) s v1 v2 a b,
  used s = true -> s_type s = ch_i ->
  finite32 (s_min s) -> finite32 (s_max s) ->
  val (s_min s) = IZR a -> val (s_max s) = IZR b -> a <= b ->
  -2147483648 <= a -> b <= 2147483647 ->
  lt32 (cp3 s) (cp1 s) = false ->
  finite32 v1 -> finite32 v2 -> (val v1 <= val v2)%R ->
  exists z1 z2, sub_output expf_o s v1 = [MsgI (s_path s) z1] /\
                sub_output expf_o s v2 = [MsgI (s_path s) z2] /\ z1 <= z2.
Proof.
  intros expf_o s v1 v2 a b Hu Ht Fmn Fmx Ea Eb Hab Hlo Hhi Hcp F1 F2 Hv.
  assert (Hm : (val (s_min s) <= val (s_max s))%R) by (rewrite Ea, Eb; apply IZR_le; assumption).
  destruct (lin_clamp_monotone (cp1 s) (cp3 s) (s_min s) (s_max s) v1 v2 Fmn Fmx Hm Hcp F1 F2 Hv)
    as (Fc1 & Fc2 & Hc).
  destruct (clamp_finite_any (lin v1 (cp1 s) (cp3 s)) _ _ Fmn Fmx Hm) as [_ B1].
  destruct (clamp_finite_any (lin v2 (cp1 s) (cp3 s)) _ _ Fmn Fmx Hm) as [_ B2].
  rewrite Ea, Eb in B1, B2.
  destruct (int_of_roundf _ a b Fc1 B1 Hlo Hhi) as [E1 _].
  destruct (int_of_roundf _ a b Fc2 B2 Hlo Hhi) as [E2 _].
  unfold sub_output. rewrite Hu, Ht. simpl. rewrite E1, E2.
  eexists _, _. split; [reflexivity|]. split; [reflexivity|].
  apply Zrnd_le; [apply valid_rnd_N|assumption].
Qed.

(* after updateMapping, for every gain that is not negative, every offset and
   all finite slot values *)
Theorem float_monotone_full : forall (expf_o : f32 -> f32) s0 v1 v2,
  let s := remap s0 in
  used s0 = true -> s_type s0 = ch_f -> s_scale s0 = 0 ->
  finite32 (s_min s0) -> finite32 (s_max s0) -> (val (s_min s0) <= val (s_max s0))%R ->
  nn32 (gain s0) ->
  finite32 v1 -> finite32 v2 -> (val v1 <= val v2)%R ->
  exists c1 c2, sub_output expf_o s v1 = [MsgF (s_path s) c1] /\
                sub_output expf_o s v2 = [MsgF (s_path s) c2] /\
                finite32 c1 /\ finite32 c2 /\ (val c1 <= val c2)%R.
Proof.
  intros expf_o s0 v1 v2 s Hu Ht Hs Fmn Fmx Hm Hg F1 F2 Hv.
  apply (float_output_monotone_x expf_o (remap s0) v1 v2); try assumption.
  apply remap_not_inverted; assumption.
Qed.

Theorem int_monotone_full : forall (expf_o : f32 -> f32) s0 v1 v2 a b,
  let s := remap s0 in
  used s0 = true -> s_type s0 = ch_i ->
  finite32 (s_min s0) -> finite32 (s_max s0) ->
  val (s_min s0) = IZR a -> val (s_max s0) = IZR b -> a <= b ->
  -2147483648 <= a -> b <= 2147483647 ->
  nn32 (gain s0) ->
  finite32 v1 -> finite32 v2 -> (val v1 <= val v2)%R ->
  exists z1 z2, sub_output expf_o s v1 = [MsgI (s_path s) z1] /\
                sub_output expf_o s v2 = [MsgI (s_path s) z2] /\ z1 <= z2.
Proof.
  intros expf_o s0 v1 v2 a b s Hu Ht Fmn Fmx Ea Eb Hab Hlo Hhi Hg F1 F2 Hv.
  apply (int_output_monotone_x expf_o (remap s0) v1 v2 a b); try assumption.
  apply remap_not_inverted; try assumption.
  rewrite Ea, Eb. apply IZR_le. assumption.
Qed.

Lemma nn32_of_nonneg : forall g, finite32 g -> (0 <= val g)%R -> nn32 g.
Proof.
  intros g F H. right. split; [apply (fin_nnan 24 128); exact F|]. rewrite (x32_fin g F). exact H.
Qed.

(* ======================================================================== *)
(* what remains false: an INFINITE slot value                                  *)
(* ======================================================================== *)
(* "/fe" 0.1 .. 0.7, gain 100, offset 3e38: both control points are 2.4e36, so
   b - a = 0.  A finite slot value gives a = 2.4e36, clamped to max; the slot
   value +inf gives inf * 0 = NaN, clamped to min. *)
Definition inf_witness_sub : sub :=
  remap (mkSub true ch_f [47; 102; 101] (b32_of_bits 1036831949) (b32_of_bits 1060320051) 0
               f32_100 (b32_of_bits 2137108966) f32_0 f32_0).
Definition inf_witness_v1 : f32 := b32_of_bits 1060144275.   (* 0.6895229 *)
Definition inf_witness_v2 : f32 := b32_of_bits 2139095040.   (* +inf *)

Lemma monotone_infinite_refuted :
  lt32 (cp3 inf_witness_sub) (cp1 inf_witness_sub) = false /\
  fle inf_witness_v1 inf_witness_v2 /\
  bits_of_b32 (clamp (lin inf_witness_v1 (cp1 inf_witness_sub) (cp3 inf_witness_sub))
                     (s_min inf_witness_sub) (s_max inf_witness_sub)) = 1060320051 /\   (* 0.7 = max *)
  bits_of_b32 (clamp (lin inf_witness_v2 (cp1 inf_witness_sub) (cp3 inf_witness_sub))
                     (s_min inf_witness_sub) (s_max inf_witness_sub)) = 1036831949.     (* 0.1 = min *)
Proof. vm_compute. repeat split; reflexivity. Qed.
