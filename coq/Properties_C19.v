(* C19 - Automation output in range; MIDI-learn served in order. *)
From Coq Require Import List ZArith.
From RtoscV Require Import Auto.AutoModel Auto.AutoProofs.
Import ListNotations.
Local Open Scope Z_scope.

Theorem C19_upd_nth_length : forall (A : Type) i (f : A -> A) l, length (upd_nth i f l) = length l.
Proof. exact upd_nth_length. Qed.
