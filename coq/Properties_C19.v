(* C19 - Automation output in range; MIDI-learn served in order.
   Only the property theorems, each closed by [exact]; proofs live in
   Auto/AutoProofs.v (learn queue, pure integers), Auto/AutoMapProofs.v (value
   mapping, IEEE-754 via Flocq) and Auto/AutoRegress.v (D17/D18 witnesses); the
   models in Auto/AutoModel.v, Auto/AutoMapModel.v, Auto/F32.v.

   [q_run ops (q_init n r) = Some (s, dss)]: s is the learn bookkeeping after the
   history ops of createBinding / clearSlot / handleMidi on n slots (the queue
   model alone; the theorems named C19_learn_fifo, C19_queue_inv are stated over
   the full model m_run through the projection m_proj), for ANY
   list ops and ANY initial NRPN registers r (the constructor leaves them
   uninitialised); dss are the slots driven by each operation.  None = a
   createBinding outside the slot array (no range check in the code). *)
From Coq Require Import List ZArith.
From Coq Require Import Reals.
From Flocq Require Import IEEE754.Binary IEEE754.Bits.
From RtoscV Require Import Auto.F32 Auto.AutoModel Auto.AutoMapModel Auto.AutoProofs Auto.AutoMapProofs Auto.AutoRemapProofs Auto.FloatOrder Auto.AutoMonoProofs Auto.AutoCpProofs Auto.AutoDefaultProofs Auto.AutoLogProofs Auto.AutoHistProofs Auto.AutoRegress Auto.AutoMapRegress.
Import ListNotations.
Local Open Scope Z_scope.

(* ---- over histories of the FULL model m_run (what the correspondence run
   executes).  [m_proj logf expf ops st0] is the history projected onto the
   learn bookkeeping: a createBinding counts when it reaches the learn line (port
   known, bindable, a free sub-automation in its slot - the early returns of
   createBinding drop the others), a clearSlot when the slot exists, every
   handleMidi; gain/offset/updateMapping/setSlot/clearSlotSub do not touch it. *)

(* the learn bookkeeping of the full model is the queue model run on the
   projected history *)
Theorem C19_history_projection : forall logf_o expf_o ops st st' mss,
  m_run logf_o expf_o ops st = Some (st', mss) ->
  exists dss, q_run (m_proj logf_o expf_o ops st) (q st) = Some (q st', dss).
Proof. exact m_run_proj. Qed.

(* slots that asked for MIDI learn are bound, one per previously unbound
   controller, in the order in which they asked, regardless of creates and
   clears in between: the history of the full model is a history of the FIFO
   queue machine [s_step] (append on request, remove on clear, pop the head on an
   unbound controller) with the same driven slots dss, and the per-slot integers
   are the positions in that queue *)
Theorem C19_learn_fifo : forall logf_o expf_o ops n per r st mss,
  m_run logf_o expf_o ops (m_init n per r) = Some (st, mss) ->
  exists a dss,
    s_run (m_proj logf_o expf_o ops (m_init n per r)) (s_init n r) = Some (a, dss) /\
    q_run (m_proj logf_o expf_o ops (m_init n per r)) (q_init n r) = Some (q st, dss) /\
    abs (q st) a.
Proof. exact m_learn_fifo. Qed.

(* the driven slots are what a handleMidi of the full model sends to: setSlot of
   each of them in order, with the raw value num/den *)
Theorem C19_midi_drives : forall logf_o expf_o st c t v st' ms r,
  m_step logf_o expf_o st (MMidi c t v) = Some (st', ms, r) ->
  let '(q', ds, ret) := q_midi c t v (q st) in
  st' = mkM q' (subs st) /\ r = ret /\ ms = flat_map (drive_msgs expf_o st') ds.
Proof. exact m_midi_msgs. Qed.

(* pending slots carry exactly 1..k, k = learn_queue_len, and no two slots are
   ever bound to the same controller - after any history of the full model *)
Theorem C19_queue_inv : forall logf_o expf_o ops n per r st mss,
  m_run logf_o expf_o ops (m_init n per r) = Some (st, mss) -> queue_inv (q st) /\ uniq (q st).
Proof. exact m_queue_inv. Qed.

(* the projection is not trivial: bind with learn, bind an unknown port (dropped),
   clear another slot, an unbound controller: slot 0 is bound to CC 20 and driven *)
Theorem C19_learn_fifo_nonvacuous :
  let id := fun x : f32 => x in
  m_proj id id ex_hist (m_init 2 1 (mkR 0 0 0 0)) = [QCreate 0 true; QClear 1; QMidi 0 20 64] /\
  match m_run id id ex_hist (m_init 2 1 (mkR 0 0 0 0)) with
  | Some (st, mss) =>
      map (fun x => (learning x, cc x)) (qslots (q st)) = [(-1, 20); (-1, -1)] /\
      map (map (fun m => match m with MsgF p _ => p | _ => [] end)) mss = [[]; []; []; [[47; 102; 97]]]
  | None => False
  end.
Proof. exact m_proj_nonvacuous. Qed.

(* ---- the same three facts about the queue model alone (any qop history) ---- *)
Theorem C19_queue_inv_qrun : forall ops n r s dss,
  q_run ops (q_init n r) = Some (s, dss) -> queue_inv s.
Proof. exact run_queue_inv. Qed.

Theorem C19_learn_fifo_qrun : forall ops n r s dss,
  q_run ops (q_init n r) = Some (s, dss) ->
  exists a, s_run ops (s_init n r) = Some (a, dss) /\ abs s a.
Proof. exact learn_fifo. Qed.

Theorem C19_bindings_unique_qrun : forall ops n r s dss,
  q_run ops (q_init n r) = Some (s, dss) -> uniq s.
Proof. exact run_uniq. Qed.

(* once bound a controller drives exactly its slot *)
Theorem C19_bound_drives_own : forall s i qi chan ty val,
  uniq s -> nth_error (qslots s) i = Some qi ->
  is_nrpn_type ty = false -> cc qi = chan * 128 + ty -> cc qi <> -1 ->
  q_midi chan ty val s = (s, [Drive i val 127], 1).
Proof. exact bound_cc_drives_own. Qed.

Theorem C19_bound_nrpn_drives_own : forall s i qi chan ty val,
  uniq s -> nth_error (qslots s) i = Some qi ->
  is_nrpn_type ty = true ->
  let r := setparameternumber ty val (nregs s) in
  nrpn_complete r = true -> nrpn qi = parhi r * 128 + parlo r -> nrpn qi <> -1 ->
  q_midi chan ty val s =
  (mkQS (qslots s) (qlen s) r, [Drive i (valhi r * 128 + vallo r) 16383], 1).
Proof. exact bound_nrpn_drives_own. Qed.

(* D17 regression: clearSlot as it was, on "slot 1 waits, clear slot 0" *)
Theorem C19_queue_inv_regress :
  let s := q_clear_old 0 one_waiting in
  map learning (qslots s) = [-1; 0; -1] /\ qlen s = 0 /\
  q_midi 0 20 64 s = (s, [], 0) /\
  map learning (qslots (q_clear 0 one_waiting)) = [-1; 1; -1] /\
  snd (fst (q_midi 0 20 64 (q_clear 0 one_waiting))) = [Drive 1 64 127].
Proof. exact d17_refuted. Qed.

(* D18 regression: handleMidi as it was, on "slots 0 and 1 wait, NRPN 99 98 6 38" *)
Theorem C19_learn_fifo_regress :
  let '(s1, _, _) := q_midi_old 0 99 1 two_waiting in
  let '(s2, _, _) := q_midi_old 0 98 2 s1 in
  map (fun q => (learning q, cc q, nrpn q)) (qslots s2) = [(-1, 0, -1); (-1, 0, -1); (-1, -1, -1)] /\
  let '(t1, _, _) := q_midi 0 99 1 two_waiting in
  let '(t2, _, _) := q_midi 0 98 2 t1 in
  let '(t3, _, _) := q_midi 0 6 3 t2 in
  let '(t4, ds, _) := q_midi 0 38 4 t3 in
  map (fun q => (learning q, cc q, nrpn q)) (qslots t2) = [(1, -1, -1); (2, -1, -1); (-1, -1, -1)] /\
  map (fun q => (learning q, cc q, nrpn q)) (qslots t4) = [(-1, -1, 130); (1, -1, -1); (-1, -1, -1)] /\
  ds = [Drive 0 4 127].
Proof. exact d18_refuted. Qed.

(* ---- the value mapping (IEEE-754 bit-level model, Flocq) -------------------- *)
(* [m_run logf expf ops (m_init n per r) = Some (st, mss)]: mss are the messages
   handed to the backend by every operation of the history ops (createBinding,
   clearSlot, clearSlotSub, setSlotSubGain/Offset, updateMapping, setSlot,
   setSlotSub, handleMidi), for ANY logf/expf. *)

(* every message an automation slot emits goes to the address of a parameter
   that a createBinding of the history accepted, with that parameter's type *)
Theorem C19_addr_type : forall logf_o expf_o ops n per r st mss,
  m_run logf_o expf_o ops (m_init n per r) = Some (st, mss) ->
  Forall (Forall (msg_bound (bound_params ops))) mss.
Proof. exact run_addr_type. Qed.

(* ... and with a value inside that parameter's DECLARED range, after any history:
   [msg_ok logf expf eps PS m] (Auto/AutoHistProofs.v): m goes to a parameter p of
   PS, bindable, with p's path and type, and
     float, linear scale: declared min <= max  ->  min <= value <= max (fle: no NaN);
     float, log scale (under the three libm hypotheses, declared 0 < min <= max):
                          value finite in [min*(1-eps), max*(1+eps)];
     int: declared bounds ordered integers lo..hi in int range -> lo <= value <= hi;
     MsgUB (the (int) conversion was undefined) ONLY for an int parameter whose
          declared bounds are NOT ordered integers in int range ([int_bounds]);
     toggles: true/false.
   The history invariant behind it ([sub_decl], second conjunct): every used
   sub-automation carries path, type, min, max and scale that createBinding
   stored for an accepted parameter - gain, offset and updateMapping never
   change them. *)
Theorem C19_in_range_history : forall logf_o expf_o eps ops n per r st mss,
  m_run logf_o expf_o ops (m_init n per r) = Some (st, mss) ->
  Forall (Forall (msg_ok logf_o expf_o eps (bound_params ops))) mss /\
  all_subs (sub_decl logf_o (bound_params ops)) st.
Proof. exact run_in_range. Qed.

Theorem C19_in_range_history_nonvacuous :
  int_bounds ex_int_param 0 127 /\ bindable ex_int_param = true.
Proof. exact int_bounds_nonvacuous. Qed.

(* a float-typed linear parameter receives a value inside [min,max], whatever
   the slot value, gain and offset (NaN and infinities included): by the clamp
   on the final value, no arithmetic fact needed *)
Theorem C19_in_range : forall (expf_o : f32 -> f32) s value,
  used s = true -> s_type s = ch_f -> s_scale s = 0 ->
  fle (s_min s) (s_max s) ->
  exists c, sub_output expf_o s value = [MsgF (s_path s) c] /\ fle (s_min s) c /\ fle c (s_max s).
Proof. exact float_output_in_range. Qed.

Theorem C19_in_range_nonvacuous :
  used ex_sub = true /\ s_type ex_sub = ch_f /\ s_scale ex_sub = 0 /\ fle (s_min ex_sub) (s_max ex_sub) /\
  map (fun m => match m with MsgF _ c => bits_of_b32 c | _ => -1 end)
      (sub_output (fun x => x) ex_sub ex_v1) = [1071644672].
Proof. exact in_range_nonvacuous. Qed.

(* an int-typed parameter with integral bounds a <= b receives an integer in [a,b] *)
Theorem C19_in_range_int : forall (expf_o : f32 -> f32) s value a b,
  used s = true -> s_type s = ch_i ->
  finite32 (s_min s) -> finite32 (s_max s) ->
  val (s_min s) = IZR a -> val (s_max s) = IZR b -> a <= b ->
  -2147483648 <= a -> b <= 2147483647 ->
  exists z, sub_output expf_o s value = [MsgI (s_path s) z] /\ a <= z <= b.
Proof. exact int_output_in_range. Qed.

Theorem C19_in_range_int_nonvacuous :
  used ex_int_sub = true /\ s_type ex_int_sub = ch_i /\
  finite32 (s_min ex_int_sub) /\ finite32 (s_max ex_int_sub) /\
  val (s_min ex_int_sub) = IZR 0 /\ val (s_max ex_int_sub) = IZR 127 /\
  sub_output (fun x => x) ex_int_sub (b32_of_bits 1056964608) = [MsgI [47; 112; 97] 64].
Proof. exact in_range_int_nonvacuous. Qed.

(* toggles receive true / false (true exactly when the mapped value exceeds 1/2) *)
Theorem C19_toggle : forall (expf_o : f32 -> f32) s value,
  used s = true -> s_type s = ch_T ->
  sub_output expf_o s value = [MsgT (s_path s) (gt32 (lin value (cp1 s) (cp3 s)) f32_half)].
Proof. exact toggle_output. Qed.

(* the value never decreases when the slot value increases (for positive gain).
   FULL STATEMENT: for all slot values that are numbers ("values in and outside
   [0,1]").  PROVED (_partial): for all FINITE slot values - side condition
   [finite32 v1], [finite32 v2]; for an infinite slot value the statement is false
   (C19_monotone_infinite_refuted; finding class infinite-slot-value, whose
   classifier is "one of the two slot values is infinite").  [remap s0] is the sub-automation after
   updateMapping; [nn32 (gain s0)]: the gain is not negative (0 <= gain; +inf and
   NaN gains included); the offset is arbitrary; no condition on overflow: a
   product or sum that overflows goes to the infinity of the right sign and is
   clamped, NaN (inf-inf, 0*inf) is clamped to the minimum and arises for all
   slot values or only below the step. *)
Theorem C19_monotone_partial : forall (expf_o : f32 -> f32) s0 v1 v2,
  let s := remap s0 in
  used s0 = true -> s_type s0 = ch_f -> s_scale s0 = 0 ->
  finite32 (s_min s0) -> finite32 (s_max s0) -> (val (s_min s0) <= val (s_max s0))%R ->
  nn32 (gain s0) ->
  finite32 v1 -> finite32 v2 -> (val v1 <= val v2)%R ->
  exists c1 c2, sub_output expf_o s v1 = [MsgF (s_path s) c1] /\
                sub_output expf_o s v2 = [MsgF (s_path s) c2] /\
                finite32 c1 /\ finite32 c2 /\ (val c1 <= val c2)%R.
Proof. exact float_monotone_full. Qed.

Theorem C19_monotone_int_partial : forall (expf_o : f32 -> f32) s0 v1 v2 a b,
  let s := remap s0 in
  used s0 = true -> s_type s0 = ch_i ->
  finite32 (s_min s0) -> finite32 (s_max s0) ->
  val (s_min s0) = IZR a -> val (s_max s0) = IZR b -> a <= b ->
  -2147483648 <= a -> b <= 2147483647 ->
  nn32 (gain s0) ->
  finite32 v1 -> finite32 v2 -> (val v1 <= val v2)%R ->
  exists z1 z2, sub_output expf_o s v1 = [MsgI (s_path s) z1] /\
                sub_output expf_o s v2 = [MsgI (s_path s) z2] /\ z1 <= z2.
Proof. exact int_monotone_full. Qed.

(* a finite non-negative gain is such a gain *)
Theorem C19_gain_nonneg : forall g, finite32 g -> (0 <= val g)%R -> nn32 g.
Proof. exact nn32_of_nonneg. Qed.

(* updateMapping never inverts the control points (overflow and NaN included) *)
Theorem C19_control_points_not_inverted : forall s,
  finite32 (s_min s) -> finite32 (s_max s) -> (val (s_min s) <= val (s_max s))%R ->
  nn32 (gain s) ->
  lt32 (cp3 (remap s)) (cp1 (remap s)) = false.
Proof. exact remap_not_inverted. Qed.

(* the mapping itself: any control points that are not inverted (NaN allowed),
   all finite slot values *)
Theorem C19_lin_clamp_monotone : forall a b mn mx v1 v2,
  finite32 mn -> finite32 mx -> (val mn <= val mx)%R ->
  lt32 b a = false ->
  finite32 v1 -> finite32 v2 -> (val v1 <= val v2)%R ->
  finite32 (clamp (lin v1 a b) mn mx) /\ finite32 (clamp (lin v2 a b) mn mx) /\
  (val (clamp (lin v1 a b) mn mx) <= val (clamp (lin v2 a b) mn mx))%R.
Proof. exact lin_clamp_monotone. Qed.

(* what remains false: with an INFINITE slot value the statement fails (equal
   control points: inf * 0 = NaN goes to the minimum, every finite slot value to
   the maximum).  Reproduced on the real code (corpus/C19/findings.txt); finding
   class infinite-slot-value. *)
Theorem C19_monotone_infinite_refuted :
  lt32 (cp3 inf_witness_sub) (cp1 inf_witness_sub) = false /\
  fle inf_witness_v1 inf_witness_v2 /\
  bits_of_b32 (clamp (lin inf_witness_v1 (cp1 inf_witness_sub) (cp3 inf_witness_sub))
                     (s_min inf_witness_sub) (s_max inf_witness_sub)) = 1060320051 /\
  bits_of_b32 (clamp (lin inf_witness_v2 (cp1 inf_witness_sub) (cp3 inf_witness_sub))
                     (s_min inf_witness_sub) (s_max inf_witness_sub)) = 1036831949.
Proof. exact monotone_infinite_refuted. Qed.

(* updateMapping orders the control points for gain >= 0 and min <= max *)
Theorem C19_control_points_ordered : forall s,
  finite32 (cp1 (remap s)) -> finite32 (cp3 (remap s)) ->
  (val (s_min s) <= val (s_max s))%R -> (0 <= val (gain s))%R ->
  (val (cp1 (remap s)) <= val (cp3 (remap s)))%R.
Proof. exact remap_ordered. Qed.

(* at the default gain and offset slot values map linearly onto min..max.
   FULL STATEMENT: for every declared range - false (C19_default_points_inexact_refuted;
   finding class default-points-inexact, whose classifier is the negation of this
   side condition, computed from the source's formula, plus "the emitted value is
   what the mapping through the computed control points gives"; the oracle of the
   correspondence run demands clamp(v*(max-min)+min) bit-exactly).
   PROVED: under the side condition [default_points_exact mn mx] (the control
   points updateMapping computes for gain 100 / offset 0 are bit-exactly the
   bounds - a decidable check, true for the ranges of C19_default_points_examples)
   a fresh binding maps v to clamp (v*(max-min)+min), and 0 goes to min. *)
Theorem C19_default_linear_partial : forall (logf_o expf_o : f32 -> f32) p mn mx v,
  p_type p = ch_f -> p_log p = false -> p_min p = Some mn -> p_max p = Some mx ->
  default_points_exact mn mx = true ->
  cp1 (bound_sub logf_o p) = mn /\ cp3 (bound_sub logf_o p) = mx /\
  sub_output expf_o (bound_sub logf_o p) v = [MsgF (p_path p) (clamp (lin v mn mx) mn mx)].
Proof. exact default_linear. Qed.

Theorem C19_default_linear_zero : forall a b,
  finite32 (lin f32_0 a b) -> val (lin f32_0 a b) = val a.
Proof. exact lin_zero. Qed.

Theorem C19_default_points_examples :
  default_points_exact (b32_of_bits 0) (b32_of_bits 1123942400) = true /\
  default_points_exact (b32_of_bits 3212836864) (b32_of_bits 1092616192) = true /\
  default_points_exact (b32_of_bits 0) (b32_of_bits 1065353216) = true /\
  default_points_exact (b32_of_bits 3263168512) (b32_of_bits 1115422720) = true.
Proof. exact default_points_examples. Qed.

(* the hypotheses of the monotonicity theorem are satisfiable: "/fa" in -1..10,
   slot values 0.25 and 0.5 give 1.75 and 4.5 *)
Theorem C19_monotone_nonvacuous :
  used ex_sub = true /\ s_type ex_sub = ch_f /\ s_scale ex_sub = 0 /\
  finite32 (s_min ex_sub) /\ finite32 (s_max ex_sub) /\ (val (s_min ex_sub) <= val (s_max ex_sub))%R /\
  finite32 (cp1 ex_sub) /\ finite32 (cp3 ex_sub) /\ (val (cp1 ex_sub) <= val (cp3 ex_sub))%R /\
  (val ex_v1 <= val ex_v2)%R /\
  finite32 (lin ex_v1 (cp1 ex_sub) (cp3 ex_sub)) /\ finite32 (lin ex_v2 (cp1 ex_sub) (cp3 ex_sub)) /\
  bits_of_b32 (clamp (lin ex_v1 (cp1 ex_sub) (cp3 ex_sub)) (s_min ex_sub) (s_max ex_sub)) = 1071644672 /\
  bits_of_b32 (clamp (lin ex_v2 (cp1 ex_sub) (cp3 ex_sub)) (s_min ex_sub) (s_max ex_sub)) = 1083179008.
Proof. exact monotone_nonvacuous. Qed.

Theorem C19_monotone_nonvacuous_remap :
  ex_sub = remap ex_sub0 /\ (0 <= val (gain ex_sub0))%R /\
  used ex_sub0 = true /\ s_type ex_sub0 = ch_f /\ s_scale ex_sub0 = 0.
Proof. exact ex_sub_is_remap. Qed.

(* regression: the clamp as it was lets NaN through (gain 3e38, slot value 0.5) *)
Theorem C19_in_range_regress :
  let v := lin f32_half (cp1 huge_gain_sub) (cp3 huge_gain_sub) in
  bits_of_b32 (cp1 huge_gain_sub) = 4286578688 /\
  bits_of_b32 (cp3 huge_gain_sub) = 2139095040 /\
  is_nan 24 128 (clamp_old v (s_min huge_gain_sub) (s_max huge_gain_sub)) = true /\
  bits_of_b32 (clamp v (s_min huge_gain_sub) (s_max huge_gain_sub)) = 3212836864.
Proof. exact nan_clamp_refuted. Qed.

(* ---- stage 2: the default mapping without the decidable side condition ------------------ *)
(* updateMapping at gain 100 / offset 0 yields control points equal to the bounds
   whenever its four binary32 operations are exact: min+max, (min+max)/2, max-min
   and (max-min)*100 representable ([F32]) and below 2^128 *)
Theorem C19_default_points_exact : forall mn mx : f32,
  finite32 mn -> finite32 mx ->
  F32 (val mn + val mx) -> F32 ((val mn + val mx) / 2) ->
  F32 (val mx - val mn) -> F32 ((val mx - val mn) * 100) ->
  (Rabs (val mn + val mx) < Mx 128)%R -> (Rabs ((val mx - val mn) * 100) < Mx 128)%R ->
  let c := map_center mn mx f32_0 in
  let r := map_range mn mx f32_100 in
  finite32 (map_cp1 c r) /\ finite32 (map_cp3 c r) /\
  val (map_cp1 c r) = val mn /\ val (map_cp3 c r) = val mx.
Proof. exact default_points_exact_if. Qed.

(* every integer range with |a+b| < 2^24 and |b-a|*100 < 2^24 is of that kind *)
Theorem C19_default_points_exact_int : forall (mn mx : f32) a b,
  finite32 mn -> finite32 mx -> val mn = IZR a -> val mx = IZR b ->
  Z.abs (a + b) < 2 ^ 24 -> Z.abs ((b - a) * 100) < 2 ^ 24 ->
  let c := map_center mn mx f32_0 in
  let r := map_range mn mx f32_100 in
  finite32 (map_cp1 c r) /\ finite32 (map_cp3 c r) /\
  val (map_cp1 c r) = IZR a /\ val (map_cp3 c r) = IZR b.
Proof. exact default_points_exact_int. Qed.

(* between such control points the slot value v is mapped to
   fl(fl(v*(max-min)) + min): 0 goes to min and 1 goes to max, exactly *)
Theorem C19_default_linear : forall (a b : f32) (mn mx : R),
  val a = mn -> val b = mx -> F32 (mx - mn) ->
  (forall v, finite32 (lin v a b) -> val (lin v a b) = rnd32 (rnd32 (val v * (mx - mn)) + mn)) /\
  (finite32 (lin f32_0 a b) -> val (lin f32_0 a b) = mn) /\
  (finite32 (lin f32_1 a b) -> val (lin f32_1 a b) = mx).
Proof. exact default_linear_exact. Qed.

(* for other ranges the statement "0 goes to min" is false at the last bits:
   0.1 .. 0.7 gets control_points[1] = min + 3 ulp (same on the real code) *)
Theorem C19_default_points_inexact_refuted :
  let mn := b32_of_bits 1036831949 in let mx := b32_of_bits 1060320051 in
  let c := map_center mn mx f32_0 in let r := map_range mn mx f32_100 in
  default_points_exact mn mx = false /\
  bits_of_b32 (map_cp1 c r) = 1036831952 /\ bits_of_b32 (map_cp3 c r) = 1060320051 /\
  bits_of_b32 (clamp (lin f32_0 (map_cp1 c r) (map_cp3 c r)) mn mx) = 1036831952.
Proof. exact default_points_inexact_witness. Qed.

(* ---- stage 2: log-scale parameters under oracle hypotheses -------------------------------- *)
(* logf / expf are libm's: arbitrary functions here, constrained only by
   [exp_mono], [log_mono] and [roundtrip ... eps] (Auto/AutoLogProofs.v; sampled on
   the real libm by the 'orc' stream of every run).  A log-scale parameter with
   declared bounds 0 < min <= max receives a value in [min*(1-eps), max*(1+eps)] -
   for every slot value, gain and offset: the clamp acts in the log domain *)
Theorem C19_log_in_range : forall (logf_o expf_o : f32 -> f32) (eps : R),
  exp_mono expf_o -> log_mono logf_o -> roundtrip logf_o expf_o eps ->
  forall s v mn mx,
  used s = true -> s_type s = ch_f -> s_scale s = 1 ->
  finite32 mn -> finite32 mx -> (0 < val mn)%R -> (val mn <= val mx)%R ->
  s_min s = logf_o mn -> s_max s = logf_o mx ->
  exists o, sub_output expf_o s v = [MsgF (s_path s) o] /\ finite32 o /\
            (val mn * (1 - eps) <= val o <= val mx * (1 + eps))%R.
Proof. exact log_in_range. Qed.

Theorem C19_log_in_range_nonvacuous :
  let mn := b32_of_bits 1101004800 in let mx := b32_of_bits 1184645120 in
  used ex_log_sub = true /\ s_type ex_log_sub = ch_f /\ s_scale ex_log_sub = 1 /\
  finite32 mn /\ finite32 mx /\ (0 < val mn)%R /\ (val mn <= val mx)%R /\
  s_min ex_log_sub = mn /\ s_max ex_log_sub = mx.
Proof. exact log_in_range_nonvacuous. Qed.

(* and its value never decreases when the (finite) slot value increases, for every
   gain that is not negative (_partial: finite slot values, as C19_monotone_partial) *)
Theorem C19_log_monotone_partial : forall (expf_o : f32 -> f32), exp_mono expf_o ->
  forall s0 v1 v2,
  let s := remap s0 in
  used s0 = true -> s_type s0 = ch_f -> s_scale s0 = 1 ->
  finite32 (s_min s0) -> finite32 (s_max s0) -> (val (s_min s0) <= val (s_max s0))%R ->
  nn32 (gain s0) ->
  finite32 v1 -> finite32 v2 -> (val v1 <= val v2)%R ->
  exists o1 o2, sub_output expf_o s v1 = [MsgF (s_path s) o1] /\
                sub_output expf_o s v2 = [MsgF (s_path s) o2] /\ fle o1 o2.
Proof. exact log_monotone. Qed.

(* the oracle hypotheses are satisfiable *)
Theorem C19_log_oracles_consistent :
  exp_mono (fun x => x) /\ log_mono (fun x => x) /\ roundtrip (fun x => x) (fun x => x) 0.
Proof. exact oracle_hypotheses_consistent. Qed.
