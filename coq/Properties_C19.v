(* C19 - Automation output in range; MIDI-learn served in order.
   Only the property theorems, each closed by [exact]; proofs live in
   Auto/AutoProofs.v (learn queue, pure integers), Auto/AutoMapProofs.v (value
   mapping, IEEE-754 via Flocq) and Auto/AutoRegress.v (D17/D18 witnesses); the
   models in Auto/AutoModel.v, Auto/AutoMapModel.v, Auto/F32.v.

   [q_run ops (q_init n r) = Some (s, dss)]: s is the learn bookkeeping after the
   history ops of createBinding / clearSlot / handleMidi on n slots, for ANY
   list ops and ANY initial NRPN registers r (the constructor leaves them
   uninitialised); dss are the slots driven by each operation.  None = a
   createBinding outside the slot array (no range check in the code). *)
From Coq Require Import List ZArith.
From RtoscV Require Import Auto.AutoModel Auto.AutoProofs Auto.AutoRegress.
Import ListNotations.
Local Open Scope Z_scope.

(* pending slots carry exactly 1..k, k = learn_queue_len *)
Theorem C19_queue_inv : forall ops n r s dss,
  q_run ops (q_init n r) = Some (s, dss) -> queue_inv s.
Proof. exact run_queue_inv. Qed.

(* slots that asked for MIDI learn are bound, one per previously unbound
   controller, in the order in which they asked, regardless of creates and
   clears in between: the model's history is a history of the FIFO queue
   machine [s_step] (append on request, remove on clear, pop the head on an
   unbound controller) with the same driven slots, and the per-slot integers
   are the positions in that queue *)
Theorem C19_learn_fifo : forall ops n r s dss,
  q_run ops (q_init n r) = Some (s, dss) ->
  exists a, s_run ops (s_init n r) = Some (a, dss) /\ abs s a.
Proof. exact learn_fifo. Qed.

(* no two slots are ever bound to the same controller *)
Theorem C19_bindings_unique : forall ops n r s dss,
  q_run ops (q_init n r) = Some (s, dss) -> uniq s.
Proof. exact run_uniq. Qed.

(* once bound a controller drives exactly its slot *)
Theorem C19_bound_drives_own : forall s i qi chan ty val,
  uniq s -> nth_error (qslots s) i = Some qi ->
  is_nrpn_type ty = false -> cc qi = chan * 128 + ty -> cc qi <> -1 ->
  q_midi chan ty val s = (s, [Drive i val 127], 1).
Proof. exact bound_cc_drives_own. Qed.

Theorem C19_bound_nrpn_drives_own : forall s i qi chan ty val,
  uniq s -> nth_error (qslots s) i = Some qi ->
  is_nrpn_type ty = true ->
  let r := setparameternumber ty val (nregs s) in
  nrpn_complete r = true -> nrpn qi = parhi r * 128 + parlo r -> nrpn qi <> -1 ->
  q_midi chan ty val s =
  (mkQS (qslots s) (qlen s) r, [Drive i (valhi r * 128 + vallo r) 16383], 1).
Proof. exact bound_nrpn_drives_own. Qed.

(* D17 regression: clearSlot as it was, on "slot 1 waits, clear slot 0" *)
Theorem C19_queue_inv_regress :
  let s := q_clear_old 0 one_waiting in
  map learning (qslots s) = [-1; 0; -1] /\ qlen s = 0 /\
  q_midi 0 20 64 s = (s, [], 0) /\
  map learning (qslots (q_clear 0 one_waiting)) = [-1; 1; -1] /\
  snd (fst (q_midi 0 20 64 (q_clear 0 one_waiting))) = [Drive 1 64 127].
Proof. exact d17_refuted. Qed.

(* D18 regression: handleMidi as it was, on "slots 0 and 1 wait, NRPN 99 98 6 38" *)
Theorem C19_learn_fifo_regress :
  let '(s1, _, _) := q_midi_old 0 99 1 two_waiting in
  let '(s2, _, _) := q_midi_old 0 98 2 s1 in
  map (fun q => (learning q, cc q, nrpn q)) (qslots s2) = [(-1, 0, -1); (-1, 0, -1); (-1, -1, -1)] /\
  let '(t1, _, _) := q_midi 0 99 1 two_waiting in
  let '(t2, _, _) := q_midi 0 98 2 t1 in
  let '(t3, _, _) := q_midi 0 6 3 t2 in
  let '(t4, ds, _) := q_midi 0 38 4 t3 in
  map (fun q => (learning q, cc q, nrpn q)) (qslots t2) = [(1, -1, -1); (2, -1, -1); (-1, -1, -1)] /\
  map (fun q => (learning q, cc q, nrpn q)) (qslots t4) = [(-1, -1, 130); (1, -1, -1); (-1, -1, -1)] /\
  ds = [Drive 0 4 127].
Proof. exact d18_refuted. Qed.
