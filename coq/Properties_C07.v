(* C07 - Validation of untrusted bytes is sound.  The buffer is an ARBITRARY
   list of bytes [m]; n = zlen m.  Reads outside the buffer are representable
   in the model (Oob) and non-termination within |m|+2 iterations is
   representable (Fuel); the theorems say neither happens. *)
From Coq Require Import List ZArith.
From RtoscV Require Import Osc.OscModel Osc.OscEncProofs Osc.OscReadProofs Osc.OscLenProofs
  Osc.OscTotalProofs Osc.OscValidProofs Osc.OscDecodeProofs Osc.OscRegress.
Import ListNotations.
Local Open Scope Z_scope.

(* rtosc_message_length: terminates, reads only inside the n bytes, and
   reports 0 or a length of at most n *)
Theorem C07_length_total : forall m,
  bytes_ok m -> zlen m < W32 - 16 ->
  exists L, message_length m (zlen m) = Ok L /\ (L = 0 \/ 0 < L <= zlen m).
Proof. exact message_length_total. Qed.

(* the same for the two-segment ring form used by ThreadLink *)
Theorem C07_ring_length_total : forall r,
  ring_ok r ->
  exists L, message_ring_length r = Ok L /\ (L = 0 \/ 0 < L <= ring_total r).
Proof. exact message_ring_length_total. Qed.

(* rtosc_valid_message_p: terminates and reads only inside the n bytes *)
Theorem C07_valid_total : forall m,
  bytes_ok m -> zlen m < W32 - 16 -> exists b, valid_message_p m (zlen m) = Ok b.
Proof. exact valid_message_total. Qed.

(* whenever the validity predicate accepts an ARBITRARY buffer (n < 2^27),
   every accessor - argument string, count, iterator, type and argument by
   index - succeeds, i.e. reads only inside the n bytes (a read outside is Oob
   in the model), and the string and blob payloads they designate lie inside
   the buffer ([payload_inside]: a string has its terminator inside, a blob
   has off + len <= n); the count equals the number of items the iterator
   yields and the types are the tags with brackets dropped *)
Theorem C07_valid_safe : forall m,
  bytes_ok m -> zlen m < 134217728 ->
  valid_message_p m (zlen m) = Ok true ->
  exists s tags l,
    arg_string m = Ok s /\ cstr_at m s = Ok tags /\
    narguments m = Ok (count_nonbracket tags) /\
    itr_all m = Ok l /\ zlen l = count_nonbracket tags /\
    map fst l = filter (fun t => negb (is_bracket t)) tags /\
    Forall (payload_inside m) (map snd l) /\
    forall idx, 0 <= idx < count_nonbracket tags ->
      exists t v, nth_error l (Z.to_nat idx) = Some (t, v) /\
                  type_at m idx = Ok t /\ argument m idx = Ok v.
Proof. exact valid_accessors_safe. Qed.

(* "... and returns what an independent OSC decoder returns": [ref_decode]
   (Osc/OscModel.v) is a decoder written from the OSC 1.0 text - OSC-strings
   at 4-aligned positions occupying |s|+1 bytes rounded up to a multiple of 4,
   a type tag string starting with ',', arguments in tag order - with none of
   the code's cursor arithmetic.  On EVERY accepted buffer it succeeds, and the
   accessors return exactly its type tags and its list of (tag, value). *)
Theorem C07_valid_decodes : forall m,
  bytes_ok m -> zlen m < 134217728 ->
  valid_message_p m (zlen m) = Ok true ->
  exists addr tags l s,
    ref_decode m = Ok (addr, tags, l) /\
    arg_string m = Ok s /\ cstr_at m s = Ok tags /\ itr_all m = Ok l.
Proof. exact valid_decodes. Qed.

(* and on the encoder's image that decoding is the inverse of the OSC 1.0
   encoder: the original types and values *)
Theorem C07_canonical_decodes : forall a tags args rest,
  msg_wf a tags args ->
  itr_all (enc_spec a tags args ++ rest) = Ok (dec_spec tags args (args_off a tags)) /\
  narguments (enc_spec a tags args ++ rest) = Ok (count_nonbracket tags) /\
  forall idx, 0 <= idx < count_nonbracket tags ->
    exists t v, nth_error (dec_spec tags args (args_off a tags)) (Z.to_nat idx) = Some (t, v) /\
                type_at (enc_spec a tags args ++ rest) idx = Ok t /\
                argument (enc_spec a tags args ++ rest) idx = Ok v.
Proof.
  exact (fun a tags args rest WF =>
           conj (itr_all_enc a tags args rest WF)
                (conj (narguments_enc a tags args rest WF)
                      (fun idx Hi => argument_enc a tags args rest idx WF Hi))).
Qed.

(* the premise of C07_valid_safe is satisfiable by every canonical message:
   the validator accepts every OSC 1.0 encoding whose address starts with '/'
   and is printable (completeness on the encoder's image) *)
Theorem C07_valid_accepts_canonical : forall (a' : list byte) tags args,
  let a : list byte := (47 : byte) :: a' in
  msg_wf a tags args -> printable a -> zlen (enc_spec a tags args) < W32 ->
  valid_message_p (enc_spec a tags args) (zlen (enc_spec a tags args)) = Ok true.
Proof. exact valid_enc. Qed.

(* regression witnesses (all repaired by "fix:" commits): *)
(* a blob length that wraps the 32-bit position was accepted, argument 1 then
   lies outside the buffer *)
Theorem C07_pinned_wrapping_blob_refuted :
  valid_message_p_pinned d5b 12 = Ok true /\ argument d5b 1 = Oob /\
  valid_message_p d5b 12 = Ok false.
Proof. exact valid_pinned_accepts_wrapping_blob. Qed.

(* a bundle element size that wraps: the pinned length loop does not terminate *)
Theorem C07_pinned_bundle_loop_refuted :
  message_length_pinned d5c 20 = Fuel /\ message_length d5c 20 = Ok 0.
Proof. exact length_pinned_loops. Qed.

(* the pinned validator read msg[0] of an empty buffer *)
Theorem C07_pinned_empty_refuted :
  valid_message_p_pinned [] 0 = Oob /\ valid_message_p [] 0 = Ok false.
Proof. exact valid_pinned_reads_empty. Qed.

(* non-vacuity: the three witness buffers are arbitrary byte lists in range *)
Theorem C07_nonvacuous : bytes_ok d5b /\ bytes_ok d5c /\ zlen d5c < W32 - 16.
Proof. exact witnesses_bytes_ok. Qed.

(* ... and the premise "accepted" of C07_valid_safe / C07_valid_decodes is
   inhabited, here by a buffer that is NOT a canonical encoding (non-NUL
   padding byte); canonical ones by C07_valid_accepts_canonical *)
Theorem C07_accepted_nonvacuous :
  bytes_ok acc_noncanon /\ zlen acc_noncanon < 134217728 /\
  valid_message_p acc_noncanon (zlen acc_noncanon) = Ok true.
Proof. exact accepted_witness. Qed.
