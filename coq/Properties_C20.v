(* C20 - A learned MIDI controller drives exactly its parameter, within its
   range.  Only the property theorems, each closed by [exact]; proofs live in
   Midi/MidiProofs.v, the model in Midi/MidiModel.v, the Spec in Midi/MidiSpec.v. *)
From Coq Require Import List ZArith QArith.
From RtoscV Require Import Midi.MidiModel Midi.MidiSpec Midi.MidiProofs Midi.MidiFloat Midi.MidiProto Midi.MidiNrt Midi.MidiSilent Midi.MidiInv Midi.MidiRefine Midi.MidiRound Midi.MidiValues Midi.MidiCapacity Midi.MidiCross Midi.MidiRegress Midi.MidiHandshake Midi.MidiTotal.
Import ListNotations.
Local Open Scope Z_scope.

(* 7-bit coarse / 14-bit with a fine controller: the controller's first
   mapping entry selects one value slot, which becomes v*128 + old mod 128
   (coarse) or (old/128)*128 + v (fine), and exactly that slot's callback is
   run on the new value *)
Theorem C20_compose_14bit : forall s id v t old c,
  find_map id (mapping s) = Some t ->
  nthZ (values s) (me_ind t) = Some old ->
  nthZ (callbacks s) (me_ind t) = Some c ->
  0 <= v < 128 -> 0 <= old < 16384 ->
  exists vs,
    updZ (values s) (me_ind t) (compose14 (me_coarse t) v old) = Some vs /\
    store_handleCC s id v =
      Some ({| mapping := mapping s; callbacks := callbacks s; values := vs |},
            Some (run_cb c (compose14 (me_coarse t) v old))) /\
    0 <= compose14 (me_coarse t) v old < 16384.
Proof. exact compose_14bit. Qed.

(* D19, repaired (fix: snapshots say which controller's midi-use-CC they
   answer, only such a snapshot releases a pending controller, a midi-use-CC
   that finds no address is answered with the unchanged mapping).  The witness
   against the functions as they were (MidiRegress: rt_deliver_old released the
   oldest pending controller on every midi-bind, nrt_useFreeID_old did not
   answer when no address was queued): controller 5 takes two queued
   addresses, p1's assignment is lost, the never-assigned controller 0 drives
   p2. *)
Theorem C20_d19_regress :
  exists ports evs tr fin,
    run_old19 ports world0 evs = (tr, Some fin) /\
    assigned_targets 5 tr = [(0, true); (1, true)] /\
    nth_error evs 20 = Some (ECC 5 67 1 false) /\ nth_error tr 20 = Some [] /\
    inv_find 1 (inv_map (wn fin)) = Some (2, 5, -1, {| bmin := (0, 0); bmax := (1, 0) |}) /\
    assigned_targets 0 tr = [] /\
    nth_error evs 21 = Some (ECC 0 9 1 false) /\
    option_map msgs_of (nth_error tr 21) = Some [ {| maddr := 2; mvalue := VFloat (bi_float {| bmin := (-3, -1); bmax := (11, -2) |} 9) |} ] /\
    nocross evs tr = false.
Proof. exact d19_refuted. Qed.

(* the same history on the repaired functions: 5 is not offered a second time,
   takes p0 only and drives it, p1 stays queued until 5 is free again, 0 is
   silent; the records are the abstract specification's although a bind crosses
   the offer (nocross = false) *)
Theorem C20_d19_repaired :
  exists tr fin,
    run d19_ports world0 d19_history = (tr, Some fin) /\
    nocross d19_history tr = false /\
    tr = arun d19_ports astate0 d19_history /\
    nth_error tr 12 = Some [] /\
    assigned_targets 5 tr = [(0, true)] /\
    nth_error tr 17 = Some [OM {| maddr := 0; mvalue := VInt 66 |}] /\
    nth_error tr 20 = Some [OU 5] /\
    learnQ (wn fin) = [(1, true)] /\ chN fin = [5] /\
    assigned_targets 0 tr = [] /\
    nth_error tr 21 = Some [].
Proof. exact d19_repaired. Qed.

(* Within the parameter's [min,max] and monotone - for the EXECUTABLE model
   (run_cb = the callbacks with rf := r24, rd := r53), no rounding hypothesis:
   MidiRound proves rnd p emin = Flocq's round-to-nearest-even onto FLT(emin,p)
   (rnd_is_round) and derives rounding_ok from round_le, round_generic,
   relative_error_N_FLT and FLT_format_plus_small (these go through Flocq and
   the standard library's real numbers: see Print Assumptions).  float24 = a
   float (|m| < 2^24, e >= -149); every binary32 pattern decodes to one
   (float24_of_bits).  'i' ports: between the integer parts of the bounds. *)
Theorem C20_bijection_range : forall p a x,
  float24 (pmin p) -> float24 (pmax p) -> (dy2Q (pmin p) <= dy2Q (pmax p))%Q -> 0 <= x < 16384 ->
  maddr (run_cb (mk_cb p a) x) = a /\ mval_in_range p (mvalue (run_cb (mk_cb p a) x)).
Proof. exact cb_range_exec. Qed.

(* grows with the 14-bit input ... *)
Theorem C20_bijection_monotone : forall p a x1 x2,
  float24 (pmin p) -> float24 (pmax p) -> (dy2Q (pmin p) <= dy2Q (pmax p))%Q ->
  0 <= x1 -> x1 <= x2 -> x2 < 16384 ->
  mval_le (mvalue (run_cb (mk_cb p a) x1)) (mvalue (run_cb (mk_cb p a) x2)).
Proof. exact cb_monotone_exec. Qed.

(* ... and with the 7-bit value v of the coarse or of the fine controller *)
Theorem C20_bijection_monotone_7bit : forall p a c v1 v2 old,
  float24 (pmin p) -> float24 (pmax p) -> (dy2Q (pmin p) <= dy2Q (pmax p))%Q ->
  0 <= v1 -> v1 <= v2 -> v2 < 128 -> 0 <= old < 16384 ->
  mval_le (mvalue (run_cb (mk_cb p a) (compose14 c v1 old)))
          (mvalue (run_cb (mk_cb p a) (compose14 c v2 old))).
Proof. exact cb_monotone_7bit. Qed.

(* Learning in a history in which no midi-bind crosses a midi-use-CC.
   nocross (MidiSpec; the same predicate as `nocross` of tools/props/C20.py,
   evaluated by the model driver on every generated history and compared):
     N1  a midi-bind that is not the answer to a midi-use-CC (map / unMap /
         clear) is sent only when every pending controller's answer is already
         on its way (pending controllers = answering binds in flight);
     N2  no controller is offered while such a bind is on its way.
   (The former known finding bind-crosses-use-cc lay inside its complement; it
   was repaired - D19, C20_d19_regress - and C20_learn_once now covers the
   crossing histories too.)  (Stages
   1-3 required "nothing is pending" in N1; C20_nocross_wider_nonvacuous is a
   history admitted now and not before.)  Then, for every
   history over at most 32 distinct controllers and at every event (fresh_run,
   MidiProto): no snapshot on either side holds a controller twice, and each
   midi-use-CC <id> that reaches the non-realtime side finds a queued address
   (the oldest: useFreeID takes the head) and a controller that occurs in no
   entry of the current snapshot - so it is never given a second address.
   Without nocross: "no controller twice" and "never a second address" hold
   for all histories (C20_learn_once); "finds a queued address" does not (after
   a crossing clear() a midi-use-CC may find none: it is then answered with the
   unchanged mapping, MidiCross.clear_cross_survives).
   The predicate is the STRICT one (fresh_run_total, MidiTotal: a step that
   fails makes it False); every event is admissible ([evok]: mapped addresses in
   the port table, controller ids >= 0, 7-bit values), so by C20_crash_free no
   step fails and the claim covers every event of the history. *)
Theorem C20_nocross_learn_partial : forall ports evs tr fin U,
  (length U <= 32)%nat -> incl (ccids evs) U -> Forall (evok ports) evs ->
  run ports world0 evs = (tr, fin) -> nocross evs tr = true ->
  fresh_run_total ports world0 evs /\ length tr = length evs /\ exists w, fin = Some w.
Proof. exact nocross_fresh_total. Qed.

Theorem C20_nocross_learn_nonvacuous :
  (length [5; 6] <= 32)%nat /\ incl (ccids tot_history) [5; 6] /\ Forall (evok tot_ports) tot_history /\
  exists tr fin, run tot_ports world0 tot_history = (tr, Some fin) /\ nocross tot_history tr = true /\
    assigned_targets 5 tr = [(1, true)] /\ assigned_targets 6 tr = [(1, false)].
Proof. exact total_nonvacuous. Qed.

(* FULL (no side condition on the history - the two halves may exchange their
   messages in every order, binds of map / unMap / clear crossing offers
   included; at most 32 distinct controllers = the pending ring's capacity):
   at every event (fresh_run0_total: pre_ok0 at every event, and no step fails) no snapshot on either side holds
   a controller twice, and each midi-use-CC <id> that reaches the non-realtime
   side is for a controller that occurs in no entry of the current snapshot -
   it is never given a second address.  This is D19's negation; it was false
   before the fix (C20_d19_regress). *)
Theorem C20_learn_once : forall ports evs U,
  (length U <= 32)%nat -> incl (ccids evs) U -> Forall (evok ports) evs ->
  fresh_run0_total ports world0 evs /\
  exists tr w, run ports world0 evs = (tr, Some w) /\ length tr = length evs.
Proof. exact learn_once_total. Qed.

(* FULL: after every history that runs to its end the realtime side's pending
   ring (pq_rep: its slots from pos_r on, psize of them) holds exactly the
   controllers the records imply (pending_of, MidiSpec: offered controllers
   enter at the back, every delivered answering bind removes the front;
   `pending_before` of the plug-in, compared with the model's value and with
   the real ring on every generated history), each once, and they are: the
   controllers whose answering bind is on its way, then those whose
   midi-use-CC is on its way - the controllers whose answer is outstanding. *)
Theorem C20_pending_exact : forall ports evs tr w U,
  (length U <= 32)%nat -> incl (ccids evs) U -> Forall (fun x => 0 <= x) (ccids evs) ->
  run ports world0 evs = (tr, Some w) ->
  pq_rep (pending (wr w)) (pending_of evs tr) /\ NoDup (pending_of evs tr) /\
  exists A, pending_of evs tr = A ++ chN w /\ (length A <= length (chR w))%nat.
Proof. exact pending_exact. Qed.

(* a history admitted by nocross and not by the earlier side condition: the
   bind of unMap p1 is sent while controller 5 is pending (its answer is ahead
   of that bind in the queue); records = the abstract specification's, 5 drives
   p0 and only p0, 6 drives nothing after the unMap *)
Theorem C20_nocross_wider_nonvacuous :
  exists tr fin w9,
    run cross_ports world0 answered_pending_history = (tr, Some fin) /\
    nocross answered_pending_history tr = true /\
    tr = arun cross_ports astate0 answered_pending_history /\
    snd (run cross_ports world0 (firstn 9 answered_pending_history)) = Some w9 /\
    psize (pending (wr w9)) = 1 /\
    pending_of (firstn 9 answered_pending_history) (firstn 9 tr) = [5] /\
    nth_error tr 9 = Some [OB] /\
    assigned_targets 5 tr = [(0, true)] /\
    option_map msgs_of (nth_error tr 12) = Some [ {| maddr := 0; mvalue := VInt 65 |} ] /\
    nth_error tr 13 = Some [].
Proof. exact nocross_wider_example. Qed.

(* controllers that are not assigned produce no parameter message: a
   controller with no entry in the realtime side's snapshot yields none
   (which controllers have entries: C20_learn_oldest_partial, C20_unmap_stops,
   C20_bind_installs; no controller has two, in any history: C20_learn_once) *)
Theorem C20_unassigned_silent : forall r id v r' m used,
  ~ In id (mids (omap (rstorage r))) ->
  rt_handleCC r id v = Some (r', m, used) -> m = None.
Proof. exact unassigned_silent. Qed.

(* The invariant of the whole system (MidiInv), for ALL histories: the handshake
   invariant of C20_learn_once / C20_pending_exact (MidiHandshake.HP) and J =
   inv_map, mapping, callback and value
   vectors of the non-realtime side are consistent (NI: every inv_map entry's
   slot holds the callback of its address's port and its coarse/fine
   controllers are exactly the mapping entries pointing to that slot; queued
   (address, kind)s are unassigned), every snapshot in flight and the one the
   realtime side holds is well formed (SW: indices in range, one slot per
   address, one controller per slot and kind, values below 2^14), the pending
   ring is in bounds.  Inv init, and every admissible event - map / unMap /
   clear / CC / either delivery, in whatever order - executes without
   out-of-range access / new T[-1] / null dereference (step <> None) and
   re-establishes Inv. *)
Theorem C20_inv_init : forall U ports, Inv U ports world0.
Proof. exact Inv_init. Qed.

Theorem C20_inv_step : forall U ports w e,
  (length U <= 32)%nat -> Inv U ports w -> ev_ok U e -> evok ports e ->
  exists w' o, step ports w e = Some (w', o) /\ Inv U ports w'.
Proof. exact Inv_step. Qed.

(* FULL, lifted over histories: every history (<= 32 controllers, 7-bit
   values, mapped addresses in the port table), with the two halves' messages
   delivered in any order, runs to its end - no crash - and ends in a
   consistent state.  (Before the D19 fix: a write past the end in killMap,
   corpus/C20/witnesses.txt.) *)
Theorem C20_crash_free : forall ports evs tr fin U,
  (length U <= 32)%nat -> incl (ccids evs) U -> Forall (evok ports) evs ->
  run ports world0 evs = (tr, fin) ->
  length tr = length evs /\ exists w, fin = Some w /\ J ports w.
Proof. exact crash_free. Qed.

(* assigned to the oldest queued address, other bindings unaffected - first or
   second controller of the address alike: in a consistent state useFreeID(id)
   with a fresh id sends a well-formed snapshot in which id has exactly the
   entry (id, queued kind, loc), slot loc holds the callback of the queued
   address's port, the controller of the address's other kind (if any) has
   its entry at the same slot loc (so C20_compose_14bit composes both into one
   14-bit value for that address), and the assignment function akind changes
   at (address, kind) only. *)
Theorem C20_learn_oldest : forall ports n id a c q, NI ports n -> learnQ n = (a, c) :: q ->
  0 <= id -> ~ In id (mids (omap (nstorage n))) ->
  exists n' s' p loc,
    nrt_useFreeID ports n id = Some (n', [RBind s' id]) /\ NI ports n' /\ nstorage n' = Some s' /\
    learnQ n' = q /\ SW ports s' /\ nthZ ports a = Some p /\
    find_map id (mapping s') = Some (id, c, loc) /\
    nthZ (callbacks s') loc = Some (mk_cb p a) /\
    (akind n a (negb c) <> -1 ->
       find_map (akind n a (negb c)) (mapping s') = Some (akind n a (negb c), negb c, loc)) /\
    (forall a2 c2, akind n' a2 c2 = if (a2 =? a) && Bool.eqb c2 c then id else akind n a2 c2).
Proof. exact learn_shares_slot. Qed.

(* unmapping an address stops its controller from driving it, the others keep
   their entries *)
Theorem C20_unmap_stops : forall n a (c : bool) im s,
  inv_find a (inv_map n) = Some im -> nstorage n = Some s ->
  NoDup (mids (mapping s)) ->
  let kill := if c then im_co im else im_fi im in
  kill <> -1 ->
  forall n' out, nrt_unmap n a c = Some (n', out) ->
  exists s', out = [RBind s' (-1)] /\ nstorage n' = Some s' /\
    find_map kill (mapping s') = None /\
    (forall v, store_handleCC s' kill v = Some (s', None)) /\
    (forall id', id' <> kill -> find_map id' (mapping s') = find_map id' (mapping s)) /\
    callbacks s' = callbacks s /\ learnQ n' = learnQ n.
Proof. exact unmap_stops. Qed.

(* after a midi-bind the realtime side works from the snapshot it carried *)
Theorem C20_bind_installs : forall r ns ans r', rt_deliver r (RBind ns ans) = Some r' ->
  exists s', rstorage r' = Some s' /\ mapping s' = mapping ns /\ callbacks s' = callbacks ns.
Proof. exact bind_installs. Qed.

(* FULL, history level: in every history a parameter message is produced only
   by a controller value whose controller was assigned before - a midi-use-CC
   for it reached the non-realtime side while an address was queued
   (assigned_after collects exactly those) - and by no other event.  Strict
   predicate (silent_run_total: a failing step makes it False), admissible events. *)
Theorem C20_unassigned_silent_history : forall ports evs U,
  (length U <= 32)%nat -> incl (ccids evs) U -> Forall (evok ports) evs ->
  silent_run_total ports world0 [] evs.
Proof. exact silent_all_total. Qed.

(* FULL: refinement against the abstract specification MidiSpec.astep (a finite
   map controller -> (address, coarse|fine), a FIFO of addresses waiting to
   learn, the realtime side's delayed copy, the last 7-bit value of every
   controller in it, the 14-bit value of an address = coarse*128 + fine pushed
   through the port's callback, the controllers on offer with the rule "an
   answer releases the controller it answers"; no slots, index vectors,
   inv_map, cloneValues or ring): on EVERY history - the realtime and the
   non-realtime half exchanging their messages in every admissible order - the
   model emits, event by event, exactly the records the specification emits:
   same queue traffic, same assignments (oldest queued address), and every
   parameter message with exactly the specification's address AND value; none
   for unassigned controllers; unMap / clear / relearn change only what the
   table says; the two 7-bit halves survive every rebuilt snapshot
   (cloneValues).  Before the D19 fix this was false (C20_d19_regress) and
   proved for nocross histories only.  Bound: <= 32 controllers (tight:
   C20_capacity_refuted). *)
Theorem C20_refines_spec : forall ports evs tr fin U,
  (length U <= 32)%nat -> incl (ccids evs) U -> Forall (evok ports) evs ->
  run ports world0 evs = (tr, fin) ->
  tr = arun ports astate0 evs.
Proof. exact refine_values. Qed.

(* The bound "<= 32 controllers" of the history-level theorems above is a
   real side condition: 40 addresses queued, 34 controllers offered at once,
   the 33rd (id 32) again - an admissible, nocross history on which
   controller 32 is offered twice and takes two queued addresses (the
   PendingQueue holds 32 ids).  Reproduced on the real code (notes/C20.md).
   It needs more than 32 queued addresses, outside the property's quantifier
   (2..4 addresses): an observation, not a finding. *)
Theorem C20_capacity_refuted :
  exists tr fin,
    run cap_ports world0 cap_history = (tr, Some fin) /\
    Forall (evok cap_ports) cap_history /\
    nocross cap_history tr = true /\
    length (nodup Z.eq_dec (ccids cap_history)) = 34%nat /\
    offers_of 32 tr = 2%nat /\
    assigned_targets 32 tr = [(32, true); (34, true)] /\
    offers_of 31 tr = 1%nat /\ assigned_targets 31 tr = [(31, true)].
Proof. exact capacity_refuted. Qed.
