(* C16 - Argument-value comparison is a coherent order, blind to range
   compression.  Only the property theorems, each closed by [exact]; proofs in
   ArgVal/AvCmpProofs.v (and AvOrder/AvSim/AvSingle), the model in
   ArgVal/AvModel.v, the Spec side (denotation of the flat layout, keys) in
   ArgVal/AvSpec.v.

   Reading.  [denote F a va]: the slot list a is well formed (finite ranges,
   "N x value" over one value or one whole array, ranges with delta whose
   i-th value start + i*delta is defined) and stands for the written-out
   values va.  "Replacing a run by its compressed form or expanding it" is
   [denote F a v /\ denote F a' v].  [all_nonan]: no NaN among the values
   (C's == and > are no order on NaN).  The laws are named _partial because of
   this side condition: the property text has no such exception and without it
   they are false of model and code (C16_nan_refuted; finding class
   nan-in-list, whose classifier is "not all_nonan" of a list the failure
   names).  Full statement of each: the same without the all_nonan premises.  Sizes are passed in slots as in C.
   F is the float arithmetic used by ranges with a float delta: every
   theorem holds for every F.  Comparison results of the model are -1/0/1
   (memcmp/strcmp are modelled by their sign). *)
From Coq Require Import List ZArith Reals.
From Flocq Require Import Core IEEE754.BinarySingleNaN IEEE754.Binary IEEE754.Bits.
From RtoscV Require Osc.OscModel.
From RtoscV Require Import ArgVal.AvModel ArgVal.AvSpec ArgVal.AvCmpProofs ArgVal.AvRegress ArgVal.AvFloat ArgVal.AvFlocq.
Import ListNotations.
Local Open Scope Z_scope.

(* the model's cmp is the lexicographic comparison of the keys of the written-out
   values (tag, then number / bytes; arrays: class of the element type, then the
   elements; a proper prefix first), eq is "that comparison says equal" *)
Theorem C16_cmp_is_key_order_partial : forall F a b va vb,
  denote F a va -> denote F b vb -> all_nonan va -> all_nonan vb ->
  vals_cmp F a b (Zlength a) (Zlength b) = Some (z_of_cmp (cmp_values va vb)).
Proof. exact vals_cmp_spec. Qed.

Theorem C16_eq_is_key_equality_partial : forall F a b va vb,
  denote F a va -> denote F b vb -> all_nonan va -> all_nonan vb ->
  vals_eq F a b (Zlength a) (Zlength b) = Some (is_eq (cmp_values va vb)).
Proof. exact vals_eq_spec. Qed.

Theorem C16_refl_partial : forall F a va, denote F a va -> all_nonan va ->
  vals_cmp F a a (Zlength a) (Zlength a) = Some 0 /\
  vals_eq F a a (Zlength a) (Zlength a) = Some true.
Proof. exact law_refl. Qed.

(* antisymmetric: cmp b a = - cmp a b (results are -1, 0, 1) *)
Theorem C16_antisym_partial : forall F a b va vb,
  denote F a va -> denote F b vb -> all_nonan va -> all_nonan vb ->
  exists x, vals_cmp F a b (Zlength a) (Zlength b) = Some x /\
            vals_cmp F b a (Zlength b) (Zlength a) = Some (- x) /\ -1 <= x <= 1.
Proof. exact law_antisym. Qed.

(* transitive: a <= b and b <= c give a <= c, strictly if one of the two is strict
   (so also: a == b and b == c give a == c) *)
Theorem C16_trans_partial : forall F a b c va vb vc,
  denote F a va -> denote F b vb -> denote F c vc ->
  all_nonan va -> all_nonan vb -> all_nonan vc ->
  forall x y,
    vals_cmp F a b (Zlength a) (Zlength b) = Some x ->
    vals_cmp F b c (Zlength b) (Zlength c) = Some y -> x <= 0 -> y <= 0 ->
  exists z, vals_cmp F a c (Zlength a) (Zlength c) = Some z /\ z <= 0 /\ (x < 0 \/ y < 0 -> z < 0).
Proof. exact law_trans. Qed.

Theorem C16_eq_iff_cmp0_partial : forall F a b va vb,
  denote F a va -> denote F b vb -> all_nonan va -> all_nonan vb ->
  exists e x, vals_eq F a b (Zlength a) (Zlength b) = Some e /\
              vals_cmp F a b (Zlength a) (Zlength b) = Some x /\ (e = true <-> x = 0).
Proof. exact law_eq_iff_cmp0. Qed.

(* numbers numerically: i c r (32 bit), h (64 bit), f d by the monotone key of
   the non-NaN bit pattern *)
Theorem C16_numeric_int : forall F t x y, t = 105 \/ t = 99 \/ t = 114 ->
  vals_cmp F [SV t (VI x)] [SV t (VI y)] 1 1 = Some (z_of_cmp (x ?= y)).
Proof. exact numeric_int. Qed.

Theorem C16_numeric_int64 : forall F x y,
  vals_cmp F [SV 104 (VH x)] [SV 104 (VH y)] 1 1 = Some (z_of_cmp (x ?= y)).
Proof. exact numeric_int64. Qed.

Theorem C16_numeric_float : forall F x y, isnan32 x = false -> isnan32 y = false ->
  vals_cmp F [SV 102 (VF x)] [SV 102 (VF y)] 1 1 = Some (z_of_cmp (fkey32 x ?= fkey32 y)).
Proof. exact numeric_float. Qed.

Theorem C16_numeric_double : forall F x y, isnan64 x = false -> isnan64 y = false ->
  vals_cmp F [SV 100 (VD x)] [SV 100 (VD y)] 1 1 = Some (z_of_cmp (fkey64 x ?= fkey64 y)).
Proof. exact numeric_double. Qed.

(* strings lexicographically (a proper prefix first); NULL below every string *)
Theorem C16_lexicographic : forall F t x y, t = 115 \/ t = 83 ->
  vals_cmp F [SV t (VS (Some x))] [SV t (VS (Some y))] 1 1 = Some (z_of_cmp (lex Z.compare x y)) /\
  vals_cmp F [SV t (VS None)] [SV t (VS (Some y))] 1 1 = Some (-1).
Proof. exact lexicographic. Qed.

(* blobs bytewise, a proper prefix first whatever byte follows it *)
Theorem C16_blob_prefix : forall F d d',
  vals_cmp F [SV 98 (VB (Zlength d) d)] [SV 98 (VB (Zlength d') d')] 1 1 =
    Some (z_of_cmp (lex Z.compare d d')) /\
  forall e, e <> [] ->
    vals_cmp F [SV 98 (VB (Zlength d) d)] [SV 98 (VB (Zlength (d ++ e)) (d ++ e))] 1 1 = Some (-1) /\
    vals_cmp F [SV 98 (VB (Zlength (d ++ e)) (d ++ e))] [SV 98 (VB (Zlength d) d)] 1 1 = Some 1.
Proof. exact blob_prefix. Qed.

(* 'immediately' (time tag 1) before every other time tag; the others numerically *)
Theorem C16_immediately_first : forall F x y,
  (x <> 1 -> vals_cmp F [SV 116 (VT 1)] [SV 116 (VT x)] 1 1 = Some (-1) /\
             vals_cmp F [SV 116 (VT x)] [SV 116 (VT 1)] 1 1 = Some 1) /\
  (x <> 1 -> y <> 1 -> vals_cmp F [SV 116 (VT x)] [SV 116 (VT y)] 1 1 = Some (z_of_cmp (x ?= y))).
Proof. exact immediately_first. Qed.

(* the i-th value the iterator computes for a range with delta is start + i*delta *)
Theorem C16_range_arg : forall F dt dv st sv i tv,
  range_spec F dt dv st sv i = Some tv -> range_arg F (SV dt dv) (SV st sv) i = Some tv.
Proof. exact AvSim.range_arg_spec. Qed.

(* blind to compression: two ways of writing the same values give the same
   equality, order (against every third list, and 0 between them), iteration
   and message *)
Theorem C16_compress_invariant_partial : forall F a a' v b vb addr,
  denote F a v -> denote F a' v -> denote F b vb -> all_nonan v -> all_nonan vb ->
  vals_cmp F a b (Zlength a) (Zlength b) = vals_cmp F a' b (Zlength a') (Zlength b) /\
  vals_cmp F b a (Zlength b) (Zlength a) = vals_cmp F b a' (Zlength b) (Zlength a') /\
  vals_eq F a b (Zlength a) (Zlength b) = vals_eq F a' b (Zlength a') (Zlength b) /\
  vals_eq F b a (Zlength b) (Zlength a) = vals_eq F b a' (Zlength b) (Zlength a') /\
  vals_cmp F a a' (Zlength a) (Zlength a') = Some 0 /\
  vals_eq F a a' (Zlength a) (Zlength a') = Some true /\
  iterate F a (Zlength a) = iterate F a' (Zlength a') /\
  forall buf, avmessage F buf addr a (Zlength a) = avmessage F buf addr a' (Zlength a').
Proof. exact law_compress. Qed.

(* what iteration yields / the message built from the list are functions of the
   written-out values alone (NaN allowed): iteration yields exactly those
   values; the message rtosc_avmessage builds is the OSC 1.0 encoding
   (Osc/OscModel.enc_spec, the Spec encoder of C01) of the address, the tags of
   the written-out values and the payloads of those that have one - the NULL
   probe returns its size, a destination that is large enough receives exactly
   these bytes at its front and is untouched behind them.  A top-level array
   is sent as the bare tag 'a' (97) without payload: its elements are NOT in
   the message ([vtype], [payloads_of] in ArgVal/AvSpec.v).  Precondition
   [payloads_of v = Some ps]: no top-level string is NULL. *)
Theorem C16_iterate_message : forall F a a' v addr ps,
  denote F a v -> denote F a' v -> payloads_of v = Some ps ->
  let enc := OscModel.enc_spec addr (map vtype v) ps in
  iterate F a (Zlength a) = Some v /\ iterate F a' (Zlength a') = Some v /\
  avmessage F None addr a (Zlength a) = Some (OscModel.zlen enc, None) /\
  avmessage F None addr a' (Zlength a') = Some (OscModel.zlen enc, None) /\
  forall buf, OscModel.zlen enc <= OscModel.zlen buf ->
    avmessage F (Some buf) addr a (Zlength a) = Some (OscModel.zlen enc, Some (enc ++ skipn (length enc) buf)) /\
    avmessage F (Some buf) addr a' (Zlength a') = Some (OscModel.zlen enc, Some (enc ++ skipn (length enc) buf)).
Proof. exact law_compress_iter_msg. Qed.

(* for every destination (also one that is too small: zero-filled, 0 returned)
   rtosc_avmessage is rtosc_amessage on those tags and payloads *)
Theorem C16_message_is_osc_encoding : forall F addr a va ps,
  denote F a va -> payloads_of va = Some ps ->
  let enc := OscModel.enc_spec addr (map vtype va) ps in
  avmessage F None addr a (Zlength a) = Some (OscModel.zlen enc, None) /\
  forall buf,
    avmessage F (Some buf) addr a (Zlength a) =
    if OscModel.zlen buf <? OscModel.zlen enc
    then Some (0, Some (OscModel.zeros (OscModel.zlen buf)))
    else Some (OscModel.zlen enc, Some (enc ++ skipn (length enc) buf)).
Proof. exact avmessage_is_osc. Qed.

(* the list of tags rtosc_avmessage keeps a payload for (its strchr) is exactly
   has_reserved of rtosc.c *)
Theorem C16_payload_tags_agree : forall t, has_reserved t = has_payload t.
Proof. exact has_reserved_kind. Qed.

(* a slot list stands for at most one list of values *)
Theorem C16_denote_functional : forall F a v v', denote F a v -> denote F a v' -> v = v'.
Proof. exact denote_functional. Qed.

(* the hypotheses are satisfiable: one list of 8 values (range with delta,
   boolean array, repeated string, repeated array) written in two ways *)
Theorem C16_nonvacuous : forall F,
  denote F ex_compressed ex_values /\ denote F ex_plain ex_values /\ all_nonan ex_values /\
  ex_compressed <> ex_plain.
Proof. exact nonvacuous. Qed.

(* ---- floats against IEEE 754 (Flocq 4.1; proofs in ArgVal/AvFlocq.v).  These
   are the only theorems of this file that mention Flocq; the axioms Print
   Assumptions lists for them are the ones Flocq's own development brings. -------- *)

(* the order key of two bit patterns that are not NaN compares as the IEEE
   comparison of the floats they encode; +0 and -0 have the same key and
   compare Eq; nothing else is identified *)
Theorem C16_float_key_is_IEEE_order : forall a b, 0 <= a < 2 ^ 32 -> 0 <= b < 2 ^ 32 ->
  isnan32 a = false -> isnan32 b = false ->
  Bcompare 24 128 (b32_of_bits a) (b32_of_bits b) = Some (fkey32 a ?= fkey32 b).
Proof. exact fkey32_Bcompare. Qed.

Theorem C16_double_key_is_IEEE_order : forall a b, 0 <= a < 2 ^ 64 -> 0 <= b < 2 ^ 64 ->
  isnan64 a = false -> isnan64 b = false ->
  Bcompare 53 1024 (b64_of_bits a) (b64_of_bits b) = Some (fkey64 a ?= fkey64 b).
Proof. exact fkey64_Bcompare. Qed.

(* isnan32/64 is "unordered with everything" *)
Theorem C16_float_nan_is_IEEE_unordered : forall a b, 0 <= a < 2 ^ 32 -> 0 <= b < 2 ^ 32 ->
  isnan32 a = true \/ isnan32 b = true ->
  Bcompare 24 128 (b32_of_bits a) (b32_of_bits b) = None.
Proof. exact isnan32_Bcompare. Qed.

Theorem C16_double_nan_is_IEEE_unordered : forall a b, 0 <= a < 2 ^ 64 -> 0 <= b < 2 ^ 64 ->
  isnan64 a = true \/ isnan64 b = true ->
  Bcompare 53 1024 (b64_of_bits a) (b64_of_bits b) = None.
Proof. exact isnan64_Bcompare. Qed.

(* the model's == and > (the ones eq_single / cmp_single use) are IEEE equality
   and IEEE less-than with the operands swapped, for every pair of bit
   patterns, NaN included *)
Theorem C16_float_eq_gt_are_IEEE : forall a b, 0 <= a < 2 ^ 32 -> 0 <= b < 2 ^ 32 ->
  feq32 a b = Beqb (B2BSN 24 128 (b32_of_bits a)) (B2BSN 24 128 (b32_of_bits b)) /\
  fgt32 a b = Bltb (B2BSN 24 128 (b32_of_bits b)) (B2BSN 24 128 (b32_of_bits a)).
Proof. exact feq32_Beqb. Qed.

Theorem C16_double_eq_gt_are_IEEE : forall a b, 0 <= a < 2 ^ 64 -> 0 <= b < 2 ^ 64 ->
  feq64 a b = Beqb (B2BSN 53 1024 (b64_of_bits a)) (B2BSN 53 1024 (b64_of_bits b)) /\
  fgt64 a b = Bltb (B2BSN 53 1024 (b64_of_bits b)) (B2BSN 53 1024 (b64_of_bits a)).
Proof. exact feq64_Beqb. Qed.

(* floats numerically: whenever IEEE orders the two values (as c), cmp is c *)
Theorem C16_numeric_float_IEEE : forall F x y c, 0 <= x < 2 ^ 32 -> 0 <= y < 2 ^ 32 ->
  Bcompare 24 128 (b32_of_bits x) (b32_of_bits y) = Some c ->
  vals_cmp F [SV 102 (VF x)] [SV 102 (VF y)] 1 1 = Some (z_of_cmp c).
Proof. exact numeric_float_IEEE32. Qed.

Theorem C16_numeric_double_IEEE : forall F x y c, 0 <= x < 2 ^ 64 -> 0 <= y < 2 ^ 64 ->
  Bcompare 53 1024 (b64_of_bits x) (b64_of_bits y) = Some c ->
  vals_cmp F [SV 100 (VD x)] [SV 100 (VD y)] 1 1 = Some (z_of_cmp c).
Proof. exact numeric_double_IEEE64. Qed.

(* ranges with a float delta, for the model run with Flocq's arithmetic (the
   instance the correspondence run uses): the i-th value is
   start (+) ((float)i (x) delta) in binary32 / binary64, round to nearest even *)
Theorem C16_range_arg_flocq32 : forall d s i,
  range_arg flocq_ops (SV 102 (VF d)) (SV 102 (VF s)) i =
  Some (102, VF (bits_of_b32 (b32_plus mode_NE (b32_of_bits s)
                                (b32_mult mode_NE (i2f32 i) (b32_of_bits d))))).
Proof. exact range_arg_flocq32. Qed.

Theorem C16_range_arg_flocq64 : forall d s i,
  range_arg flocq_ops (SV 100 (VD d)) (SV 100 (VD s)) i =
  Some (100, VD (bits_of_b64 (b64_plus mode_NE (b64_of_bits s)
                                (b64_mult mode_NE (i2f64 i) (b64_of_bits d))))).
Proof. exact range_arg_flocq64. Qed.

(* ... which, when delta and start are finite and no step overflows, is the real
   number rnd (start + rnd (rnd i * delta)) *)
Theorem C16_range_arg_flocq32_real : forall d s i,
  let rnd := round radix2 (SpecFloat.fexp 24 128) (round_mode mode_NE) in
  let fd := b32_of_bits d in
  let fs := b32_of_bits s in
  let ri := rnd (IZR i) in
  let p := rnd (ri * B2R 24 128 fd)%R in
  let r := rnd (B2R 24 128 fs + p)%R in
  is_finite 24 128 fd = true -> is_finite 24 128 fs = true ->
  (Rabs ri < bpow radix2 128)%R -> (Rabs p < bpow radix2 128)%R -> (Rabs r < bpow radix2 128)%R ->
  exists res, range_arg flocq_ops (SV 102 (VF d)) (SV 102 (VF s)) i = Some (102, VF (bits_of_b32 res)) /\
              B2R 24 128 res = r /\ is_finite 24 128 res = true.
Proof. exact range_arg_flocq32_real. Qed.

Theorem C16_range_arg_flocq64_real : forall d s i,
  let rnd := round radix2 (SpecFloat.fexp 53 1024) (round_mode mode_NE) in
  let fd := b64_of_bits d in
  let fs := b64_of_bits s in
  let ri := rnd (IZR i) in
  let p := rnd (ri * B2R 53 1024 fd)%R in
  let r := rnd (B2R 53 1024 fs + p)%R in
  is_finite 53 1024 fd = true -> is_finite 53 1024 fs = true ->
  (Rabs ri < bpow radix2 1024)%R -> (Rabs p < bpow radix2 1024)%R -> (Rabs r < bpow radix2 1024)%R ->
  exists res, range_arg flocq_ops (SV 100 (VD d)) (SV 100 (VD s)) i = Some (100, VD (bits_of_b64 res)) /\
              B2R 53 1024 res = r /\ is_finite 53 1024 res = true.
Proof. exact range_arg_flocq64_real. Qed.

(* the laws for the instance the correspondence run executes *)
Theorem C16_cmp_is_key_order_flocq_partial : forall a b va vb,
  denote flocq_ops a va -> denote flocq_ops b vb -> all_nonan va -> all_nonan vb ->
  vals_cmp flocq_ops a b (Zlength a) (Zlength b) = Some (z_of_cmp (cmp_values va vb)).
Proof. exact (vals_cmp_spec flocq_ops). Qed.

(* ---- the side condition all_nonan cannot be dropped: with a NaN the CURRENT
   functions (and the code: corpus/C16/nan.txt) are not reflexive (cmp -1, eq
   false), not antisymmetric (NaN < 0.0 and 0.0 < NaN), hence not transitive
   (0.0 < NaN < 0.0), and "3 x NaN" is not equal to NaN NaN NaN --------------- *)
Theorem C16_nan_refuted : forall F,
  exists a b a3 a3' va vb v3,
    denote F a va /\ denote F b vb /\ denote F a3 v3 /\ denote F a3' v3 /\
    all_nonan vb /\ ~ all_nonan va /\
    vals_cmp F a a (Zlength a) (Zlength a) = Some (-1) /\
    vals_eq F a a (Zlength a) (Zlength a) = Some false /\
    vals_cmp F a b (Zlength a) (Zlength b) = Some (-1) /\
    vals_cmp F b a (Zlength b) (Zlength a) = Some (-1) /\
    vals_cmp F b b (Zlength b) (Zlength b) = Some 0 /\
    vals_cmp F a3 a3' (Zlength a3) (Zlength a3') = Some (-1) /\
    vals_eq F a3 a3' (Zlength a3) (Zlength a3') = Some false.
Proof. exact nan_refuted. Qed.

(* ---- regressions: the functions as they were BEFORE the fix: commits (kept
   in ArgVal/AvRegress.v) violate the property; witnesses replayed on the
   pinned tree, see notes/C16.md and corpus/C16/defects.txt ------------------------ *)

(* D14: empty 'T' array against empty 'i' array: cmp 0, reverse 1, eq false *)
Theorem C16_old_D14_antisym_refuted :
  exists a b va vb, denote F0 a va /\ denote F0 b vb /\ all_nonan va /\ all_nonan vb /\
    cmp_D14 a b = Some 0 /\ cmp_D14 b a = Some 1 /\
    vals_eq F0 a b (Zlength a) (Zlength b) = Some false.
Proof. exact D14_antisym_refuted. Qed.

(* D15: blob 01 02 against 01 02 00: cmp 0 both ways, eq false *)
Theorem C16_old_D15_eq_iff_cmp0_refuted :
  exists a b va vb, denote F0 a va /\ denote F0 b vb /\ all_nonan va /\ all_nonan vb /\
    cmp_D15 a b = Some 0 /\ cmp_D15 b a = Some 0 /\
    vals_eq F0 a b (Zlength a) (Zlength b) = Some false.
Proof. exact D15_eq_iff_cmp0_refuted. Qed.

(* D22: [true false]:F < [nil] < [false true]:T but [true false] > [false true] *)
Theorem C16_old_D22_trans_refuted :
  exists a b c va vb vc,
    denote F0 a va /\ denote F0 b vb /\ denote F0 c vc /\
    all_nonan va /\ all_nonan vb /\ all_nonan vc /\
    cmp_D22 a b = Some (-1) /\ cmp_D22 b c = Some (-1) /\ cmp_D22 a c = Some 1.
Proof. exact D22_trans_refuted. Qed.

(* D23: 2x[1] against [1][1]: the old iterator makes cmp read out of bounds (None),
   also when only iterating; the repaired one gives 0 *)
Theorem C16_old_D23_compress_refuted :
  exists a a' v, denote F0 a v /\ denote F0 a' v /\ all_nonan v /\
    cmp_D23 a' a' = Some 0 /\ cmp_D23 a a' = None /\
    iterate_from false F0 (fuel_of a) (itr_init a) (Zlength a) = None /\
    vals_cmp F0 a a' (Zlength a) (Zlength a') = Some 0.
Proof. exact D23_compress_refuted. Qed.

(* D24: (true, 5): the old rtosc_avmessage takes the integer's payload from the
   entry of 'true' (None in the model: that value has no payload) *)
Theorem C16_old_D24_message_refuted :
  exists a v, denote F0 a v /\
    avmessage_gen false F0 None [47; 97] a (Zlength a) = None /\
    message_enc [47; 97] v = Some [47; 97; 0; 0; 44; 84; 105; 0; 0; 0; 0; 5] /\
    avmessage F0 None [47; 97] a (Zlength a) = Some (12, None).
Proof. exact D24_message_refuted. Qed.
