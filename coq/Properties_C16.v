(* C16 - Argument-value comparison is a coherent order, blind to range
   compression.  Only the property theorems, each closed by [exact]; proofs in
   ArgVal/AvCmpProofs.v (and AvOrder/AvSim/AvSingle), the model in
   ArgVal/AvModel.v, the Spec side (denotation of the flat layout, keys) in
   ArgVal/AvSpec.v.

   Reading.  [denote F a va]: the slot list a is well formed (finite ranges,
   "N x value" over one value or one whole array, ranges with delta whose
   i-th value start + i*delta is defined) and stands for the written-out
   values va.  "Replacing a run by its compressed form or expanding it" is
   [denote F a v /\ denote F a' v].  [all_nonan]: no NaN among the values
   (C's == and > are no order on NaN).  Sizes are passed in slots as in C.
   F is the float arithmetic used by ranges with a float delta: every
   theorem holds for every F.  Comparison results of the model are -1/0/1
   (memcmp/strcmp are modelled by their sign). *)
From Coq Require Import List ZArith.
From RtoscV Require Import ArgVal.AvModel ArgVal.AvSpec ArgVal.AvCmpProofs ArgVal.AvRegress.
Import ListNotations.
Local Open Scope Z_scope.

(* the model's cmp is the lexicographic comparison of the keys of the written-out
   values (tag, then number / bytes; arrays: class of the element type, then the
   elements; a proper prefix first), eq is "that comparison says equal" *)
Theorem C16_cmp_is_key_order : forall F a b va vb,
  denote F a va -> denote F b vb -> all_nonan va -> all_nonan vb ->
  vals_cmp F a b (Zlength a) (Zlength b) = Some (z_of_cmp (cmp_values va vb)).
Proof. exact vals_cmp_spec. Qed.

Theorem C16_eq_is_key_equality : forall F a b va vb,
  denote F a va -> denote F b vb -> all_nonan va -> all_nonan vb ->
  vals_eq F a b (Zlength a) (Zlength b) = Some (is_eq (cmp_values va vb)).
Proof. exact vals_eq_spec. Qed.

Theorem C16_refl : forall F a va, denote F a va -> all_nonan va ->
  vals_cmp F a a (Zlength a) (Zlength a) = Some 0 /\
  vals_eq F a a (Zlength a) (Zlength a) = Some true.
Proof. exact law_refl. Qed.

(* antisymmetric: cmp b a = - cmp a b (results are -1, 0, 1) *)
Theorem C16_antisym : forall F a b va vb,
  denote F a va -> denote F b vb -> all_nonan va -> all_nonan vb ->
  exists x, vals_cmp F a b (Zlength a) (Zlength b) = Some x /\
            vals_cmp F b a (Zlength b) (Zlength a) = Some (- x) /\ -1 <= x <= 1.
Proof. exact law_antisym. Qed.

(* transitive: a <= b and b <= c give a <= c, strictly if one of the two is strict
   (so also: a == b and b == c give a == c) *)
Theorem C16_trans : forall F a b c va vb vc,
  denote F a va -> denote F b vb -> denote F c vc ->
  all_nonan va -> all_nonan vb -> all_nonan vc ->
  forall x y,
    vals_cmp F a b (Zlength a) (Zlength b) = Some x ->
    vals_cmp F b c (Zlength b) (Zlength c) = Some y -> x <= 0 -> y <= 0 ->
  exists z, vals_cmp F a c (Zlength a) (Zlength c) = Some z /\ z <= 0 /\ (x < 0 \/ y < 0 -> z < 0).
Proof. exact law_trans. Qed.

Theorem C16_eq_iff_cmp0 : forall F a b va vb,
  denote F a va -> denote F b vb -> all_nonan va -> all_nonan vb ->
  exists e x, vals_eq F a b (Zlength a) (Zlength b) = Some e /\
              vals_cmp F a b (Zlength a) (Zlength b) = Some x /\ (e = true <-> x = 0).
Proof. exact law_eq_iff_cmp0. Qed.

(* numbers numerically: i c r (32 bit), h (64 bit), f d by the monotone key of
   the non-NaN bit pattern *)
Theorem C16_numeric_int : forall F t x y, t = 105 \/ t = 99 \/ t = 114 ->
  vals_cmp F [SV t (VI x)] [SV t (VI y)] 1 1 = Some (z_of_cmp (x ?= y)).
Proof. exact numeric_int. Qed.

Theorem C16_numeric_int64 : forall F x y,
  vals_cmp F [SV 104 (VH x)] [SV 104 (VH y)] 1 1 = Some (z_of_cmp (x ?= y)).
Proof. exact numeric_int64. Qed.

Theorem C16_numeric_float : forall F x y, isnan32 x = false -> isnan32 y = false ->
  vals_cmp F [SV 102 (VF x)] [SV 102 (VF y)] 1 1 = Some (z_of_cmp (fkey32 x ?= fkey32 y)).
Proof. exact numeric_float. Qed.

Theorem C16_numeric_double : forall F x y, isnan64 x = false -> isnan64 y = false ->
  vals_cmp F [SV 100 (VD x)] [SV 100 (VD y)] 1 1 = Some (z_of_cmp (fkey64 x ?= fkey64 y)).
Proof. exact numeric_double. Qed.

(* strings lexicographically (a proper prefix first); NULL below every string *)
Theorem C16_lexicographic : forall F t x y, t = 115 \/ t = 83 ->
  vals_cmp F [SV t (VS (Some x))] [SV t (VS (Some y))] 1 1 = Some (z_of_cmp (lex Z.compare x y)) /\
  vals_cmp F [SV t (VS None)] [SV t (VS (Some y))] 1 1 = Some (-1).
Proof. exact lexicographic. Qed.

(* blobs bytewise, a proper prefix first whatever byte follows it *)
Theorem C16_blob_prefix : forall F d d',
  vals_cmp F [SV 98 (VB (Zlength d) d)] [SV 98 (VB (Zlength d') d')] 1 1 =
    Some (z_of_cmp (lex Z.compare d d')) /\
  forall e, e <> [] ->
    vals_cmp F [SV 98 (VB (Zlength d) d)] [SV 98 (VB (Zlength (d ++ e)) (d ++ e))] 1 1 = Some (-1) /\
    vals_cmp F [SV 98 (VB (Zlength (d ++ e)) (d ++ e))] [SV 98 (VB (Zlength d) d)] 1 1 = Some 1.
Proof. exact blob_prefix. Qed.

(* 'immediately' (time tag 1) before every other time tag; the others numerically *)
Theorem C16_immediately_first : forall F x y,
  (x <> 1 -> vals_cmp F [SV 116 (VT 1)] [SV 116 (VT x)] 1 1 = Some (-1) /\
             vals_cmp F [SV 116 (VT x)] [SV 116 (VT 1)] 1 1 = Some 1) /\
  (x <> 1 -> y <> 1 -> vals_cmp F [SV 116 (VT x)] [SV 116 (VT y)] 1 1 = Some (z_of_cmp (x ?= y))).
Proof. exact immediately_first. Qed.

(* the i-th value the iterator computes for a range with delta is start + i*delta *)
Theorem C16_range_arg : forall F dt dv st sv i tv,
  range_spec F dt dv st sv i = Some tv -> range_arg F (SV dt dv) (SV st sv) i = Some tv.
Proof. exact AvSim.range_arg_spec. Qed.

(* blind to compression: two ways of writing the same values give the same
   equality, order (against every third list, and 0 between them), iteration
   and message *)
Theorem C16_compress_invariant : forall F a a' v b vb addr,
  denote F a v -> denote F a' v -> denote F b vb -> all_nonan v -> all_nonan vb ->
  vals_cmp F a b (Zlength a) (Zlength b) = vals_cmp F a' b (Zlength a') (Zlength b) /\
  vals_cmp F b a (Zlength b) (Zlength a) = vals_cmp F b a' (Zlength b) (Zlength a') /\
  vals_eq F a b (Zlength a) (Zlength b) = vals_eq F a' b (Zlength a') (Zlength b) /\
  vals_eq F b a (Zlength b) (Zlength a) = vals_eq F b a' (Zlength b) (Zlength a') /\
  vals_cmp F a a' (Zlength a) (Zlength a') = Some 0 /\
  vals_eq F a a' (Zlength a) (Zlength a') = Some true /\
  iterate F a (Zlength a) = iterate F a' (Zlength a') /\
  avmessage F addr a (Zlength a) = avmessage F addr a' (Zlength a').
Proof. exact law_compress. Qed.

(* what iteration yields / the message built from the list are functions of the
   written-out values alone (NaN allowed): iteration yields exactly those
   values, the message is the one rtosc_amessage builds from their tags and
   payloads *)
Theorem C16_iterate_message : forall F a a' v addr,
  denote F a v -> denote F a' v ->
  iterate F a (Zlength a) = Some v /\ iterate F a' (Zlength a') = Some v /\
  avmessage F addr a (Zlength a) = message_of addr v /\
  avmessage F addr a' (Zlength a') = message_of addr v.
Proof. exact law_compress_iter_msg. Qed.

(* a slot list stands for at most one list of values *)
Theorem C16_denote_functional : forall F a v v', denote F a v -> denote F a v' -> v = v'.
Proof. exact denote_functional. Qed.

(* the hypotheses are satisfiable: one list of 8 values (range with delta,
   boolean array, repeated string, repeated array) written in two ways *)
Theorem C16_nonvacuous : forall F,
  denote F ex_compressed ex_values /\ denote F ex_plain ex_values /\ all_nonan ex_values /\
  ex_compressed <> ex_plain.
Proof. exact nonvacuous. Qed.

(* ---- regressions: the functions as they were BEFORE the fix: commits (kept
   in ArgVal/AvRegress.v) violate the property; witnesses replayed on the
   pinned tree, see notes/C16.md and corpus/C16/defects.txt ------------------------ *)

(* D14: empty 'T' array against empty 'i' array: cmp 0, reverse 1, eq false *)
Theorem C16_old_D14_antisym_refuted :
  exists a b va vb, denote F0 a va /\ denote F0 b vb /\ all_nonan va /\ all_nonan vb /\
    cmp_D14 a b = Some 0 /\ cmp_D14 b a = Some 1 /\
    vals_eq F0 a b (Zlength a) (Zlength b) = Some false.
Proof. exact D14_antisym_refuted. Qed.

(* D15: blob 01 02 against 01 02 00: cmp 0 both ways, eq false *)
Theorem C16_old_D15_eq_iff_cmp0_refuted :
  exists a b va vb, denote F0 a va /\ denote F0 b vb /\ all_nonan va /\ all_nonan vb /\
    cmp_D15 a b = Some 0 /\ cmp_D15 b a = Some 0 /\
    vals_eq F0 a b (Zlength a) (Zlength b) = Some false.
Proof. exact D15_eq_iff_cmp0_refuted. Qed.

(* D22: [true false]:F < [nil] < [false true]:T but [true false] > [false true] *)
Theorem C16_old_D22_trans_refuted :
  exists a b c va vb vc,
    denote F0 a va /\ denote F0 b vb /\ denote F0 c vc /\
    all_nonan va /\ all_nonan vb /\ all_nonan vc /\
    cmp_D22 a b = Some (-1) /\ cmp_D22 b c = Some (-1) /\ cmp_D22 a c = Some 1.
Proof. exact D22_trans_refuted. Qed.

(* D23: 2x[1] against [1][1]: the old iterator makes cmp read out of bounds (None),
   also when only iterating; the repaired one gives 0 *)
Theorem C16_old_D23_compress_refuted :
  exists a a' v, denote F0 a v /\ denote F0 a' v /\ all_nonan v /\
    cmp_D23 a' a' = Some 0 /\ cmp_D23 a a' = None /\
    iterate_from false F0 (fuel_of a) (itr_init a) (Zlength a) = None /\
    vals_cmp F0 a a' (Zlength a) (Zlength a') = Some 0.
Proof. exact D23_compress_refuted. Qed.

(* D24: (true, 5): the old rtosc_avmessage takes the integer's payload from the
   entry of 'true' (None in the model: that value has no payload) *)
Theorem C16_old_D24_message_refuted :
  exists a v, denote F0 a v /\
    avmessage_gen false F0 [47; 97] a (Zlength a) = None /\
    message_of [47; 97] v = Some [47; 97; 0; 0; 44; 84; 105; 0; 0; 0; 0; 5] /\
    avmessage F0 [47; 97] a (Zlength a) = message_of [47; 97] v.
Proof. exact D24_message_refuted. Qed.
