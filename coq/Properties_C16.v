(* C16 - Argument-value comparison is a coherent order, blind to range
   compression.  Only the property theorems, each closed by [exact]; proofs in
   ArgVal/AvCmpProofs.v, the model in ArgVal/AvModel.v. *)
From Coq Require Import List ZArith.
From RtoscV Require Import ArgVal.AvModel ArgVal.AvCmpProofs.
Import ListNotations.
Local Open Scope Z_scope.

(* the i-th value of an integer range is start + i*delta (32-bit wrap) *)
Theorem C16_range_arg_int32 : forall F t d s i, t = 105 \/ t = 99 ->
  range_arg F (SV t (VI d)) (SV t (VI s)) i = Some (t, VI (wrap32 (s + i * d))).
Proof. exact range_arg_int32. Qed.
