(* C08 - Bundles compose and decompose losslessly, including nesting.
   Elements are an inductive tree (Osc/OscModel.v: elem), so nesting depth and
   element counts are unbounded. *)
From Coq Require Import List ZArith.
From RtoscV Require Import Osc.OscModel Osc.OscEncProofs Osc.OscReadProofs Osc.OscLenProofs
  Osc.OscBundleProofs Osc.OscRegress.
Import ListNotations.
Local Open Scope Z_scope.

(* composing: rtosc_bundle over well-formed elements yields exactly the bundle
   layout (recognised magic, time tag, length-prefixed elements).  Each element
   pointer designates [elem_mem e junk]: the element, then - only if it is a
   nested bundle - a zero word, then arbitrary bytes (a message element is
   self-delimiting whatever follows it in memory) *)
Theorem C08_compose : forall buf ttag es junks,
  Forall elem_wf es -> length junks = length es ->
  let B := elem_bytes (Bun ttag es) in
  bundle buf ttag (map (fun p => elem_mem (fst p) (snd p)) (combine es junks)) =
  if zlen buf <? zlen B then Ok (0, zeros (zlen buf))
  else Ok (zlen B, B ++ zeros (zlen buf - zlen B)).
Proof. exact bundle_spec. Qed.

(* decomposing: recognised as a bundle, time tag preserved, same number of
   elements, each element at its offset with its exact size and byte-identical *)
Theorem C08_decompose : forall ttag es rest,
  elem_wf (Bun ttag es) ->
  let B := elem_bytes (Bun ttag es) in
  let m := B ++ rest in
  bundle_p m = Ok true /\
  bundle_timetag m = Ok ttag /\
  bundle_elements m (zlen B) = Ok (zlen es) /\
  forall i e, nth_error es i = Some e ->
    bundle_fetch m (Z.of_nat i) = Ok (16 + boff i (map elem_bytes es) + 4) /\
    bundle_size m (Z.of_nat i) = Ok (zlen (elem_bytes e)) /\
    exists tl, from m (16 + boff i (map elem_bytes es) + 4) = elem_bytes e ++ tl.
Proof. exact readers_spec. Qed.

(* the length function reports the bundle's total length *)
Theorem C08_total : forall ttag es,
  elem_wf (Bun ttag es) ->
  message_length (elem_bytes (Bun ttag es)) (zlen (elem_bytes (Bun ttag es)))
  = Ok (zlen (elem_bytes (Bun ttag es))).
Proof. exact message_length_bundle_exact. Qed.

(* ... also when measured without a bound, as rtosc_bundle does for its
   elements: a message whatever follows it, a nested bundle when a zero word
   follows it in memory ([elem_tail]) *)
Theorem C08_element_length : forall e rest,
  elem_wf e ->
  message_length (elem_bytes e ++ elem_tail e ++ rest) SIZE_MAX = Ok (zlen (elem_bytes e)).
Proof. exact message_length_elem. Qed.

(* subtree_serialize (src/cpp/subtree-serialize.cpp) builds the bundle of the
   captured replies by appending: for every capacity either the whole bundle
   (time tag 0xdeadbeef0a0b0c0d) followed by zeros, or 0; the destination
   never changes its length (no write outside it) *)
Theorem C08_subtree_serialize : forall buf msgs,
  Forall (fun m => 0 < zlen m < 4294967296) msgs ->
  let B := bundle_magic ++ be64 SUBTREE_TT ++ body msgs in
  exists b', subtree_serialize buf msgs = Ok ((if zlen buf <? zlen B then 0 else zlen B), b') /\
             zlen b' = zlen buf /\
             (zlen B <= zlen buf -> b' = B ++ zeros (zlen buf - zlen B)).
Proof. exact subtree_serialize_spec. Qed.

(* a plain message is never mistaken for a bundle *)
Theorem C08_msg_not_bundle : forall a tags args rest,
  msg_wf a tags args -> not_bundle_addr a ->
  bundle_p (enc_spec a tags args ++ rest) = Ok false.
Proof. exact message_not_bundle. Qed.

(* non-vacuity: a bundle holding a message and an empty nested bundle *)
Theorem C08_nonvacuous :
  elem_wf (Bun 7 [Msg (enc_spec [47; 97; 98] [115; 91; 105; 98; 93; 84]
                         [PStr [104; 101; 108; 108; 111]; P4 4294967295; PBlob 3 (Some [1; 2; 3])]);
                  Bun 1 []]).
Proof. exact example_bundle_wf. Qed.
