(* C02 - Fixed-buffer discipline: never write past the caller's buffer, fail
   closed.  The destination is an arbitrary byte list [buf] of capacity
   [zlen buf]; the models of rtosc_amessage / rtosc_bundle apply their writes
   with [apply_chunks], which reports Oob for any write outside the
   destination - so "the result is Ok ..." below includes "no write outside
   [buffer, buffer+len)". *)
From Coq Require Import List ZArith.
From RtoscV Require Import Osc.OscModel Osc.OscEncProofs Osc.OscReadProofs Osc.OscLenProofs
  Osc.OscBundleProofs Osc.OscRegress.
Import ListNotations.
Local Open Scope Z_scope.

(* messages, every capacity: NULL probe = needed size; too small -> 0 and an
   all-zero buffer; otherwise exactly the encoding, the bytes behind it
   untouched, and its size returned *)
Theorem C02_message_every_capacity : forall a tags args,
  args_wf tags args -> code_range a tags args ->
  let enc := enc_spec a tags args in
  amessage None a tags args = Ok (zlen enc, None) /\
  forall buf,
    amessage (Some buf) a tags args =
    if zlen buf <? zlen enc then Ok (0, Some (zeros (zlen buf)))
    else Ok (zlen enc, Some (enc ++ skipn (length enc) buf)).
Proof. exact amessage_spec_r. Qed.

(* the constructor read at a fixed capacity [cap]: an encoding that does not
   fit is replaced by an all-zero buffer (the empty message) and 0 is
   returned, nothing is written outside.  This is what the fixed-capacity
   callers rely on - RtData::reply / broadcast build into a 8192-byte stack
   buffer, ThreadLink::write / writeArray into MaxMsg bytes.  The callers
   themselves are NOT modelled: they are tied to this statement only by the
   correspondence streams rt and tl (tools/props/C02.py), which demand that
   they forward exactly this result for their capacity *)
Theorem C02_fixed_capacity : forall cap a tags args buf,
  args_wf tags args -> code_range a tags args -> zlen buf = cap ->
  let enc := enc_spec a tags args in
  amessage (Some buf) a tags args =
  if cap <? zlen enc then Ok (0, Some (zeros cap))
  else Ok (zlen enc, Some (enc ++ skipn (length enc) buf)).
Proof. exact amessage_fixed_capacity_r. Qed.

(* the write pass applied to a zeroed region of exactly its own span leaves
   what follows untouched (the frame lemma behind "never writes outside") *)
Theorem C02_chunks_frame : forall cs tail,
  skips_ok cs ->
  apply_chunks (zeros (zlen (chunk_bytes cs)) ++ tail) cs = Ok (chunk_bytes cs ++ tail).
Proof. exact apply_chunks_zeroed. Qed.

(* bundles, every capacity (elements: well-formed messages or bundles, each
   followed in memory by a zero word and then anything) *)
Theorem C02_bundle_every_capacity : forall buf ttag es junks,
  Forall elem_wf es -> length junks = length es ->
  let B := elem_bytes (Bun ttag es) in
  bundle buf ttag (map (fun p => elem_mem (fst p) (snd p)) (combine es junks)) =
  if zlen buf <? zlen B then Ok (0, zeros (zlen buf))
  else Ok (zlen B, B ++ zeros (zlen buf - zlen B)).
Proof. exact bundle_spec. Qed.

(* regression witness: the pinned rtosc_bundle ignored the capacity (repaired
   by "fix: rtosc_bundle wrote past the caller's buffer") *)
Theorem C02_bundle_pinned_refuted :
  bundle_pinned (repeat 170 10) 0 [] = Oob /\
  bundle (repeat 170 10) 0 [] = Ok (0, repeat 0 10).
Proof. exact bundle_pinned_overflows. Qed.

Theorem C02_nonvacuous :
  args_wf [115; 91; 105; 98; 93; 84]
          [PStr [104; 101; 108; 108; 111]; P4 4294967295; PBlob 3 (Some [1; 2; 3])].
Proof. exact (msg_wf_args_wf _ _ _ (proj1 example_msg_wf)). Qed.
