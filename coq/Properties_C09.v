(* C09 - Walking a port tree enumerates exactly its dispatchable addresses.
   Only the property theorems, each closed by [exact]; model in
   Ports/WalkModel.v (walk_ports, walk_ports_recurse0, walk_ports_recurse,
   bundle_foreach as coded), proofs in Ports/WalkProofs.v, Ports/EnumProofs.v,
   Ports/DecProofs.v, Ports/DispatchWalk.v. *)
From Coq Require Import List ZArith Bool.
From RtoscV Require Import Match.PatSpec Match.MatchModel Ports.NameModel Ports.PathModel Ports.WalkModel
     Ports.WalkProofs Ports.WalkRegress Ports.DecProofs Ports.EnumProofs
     Ports.DispatchModel Ports.DispatchProofs Ports.TreeProofs Ports.DispatchWalk
     Ports.LookupGen Ports.NamesModel Ports.NamesOk Ports.SnipRegress
     Ports.WalkRt Ports.EnabledModel Ports.EnabledProofs Ports.WalkRtExample
     Ports.LookupSpec Ports.DispatchAlias.
Import ListNotations.
Local Open Scope Z_scope.

(* the caller's buffer holds, as a string, exactly what it held before - "/"
   if it was empty - for every tree, every oracle, every initial content *)
Theorem C09_buffer_restored : forall rt root buf out b,
  walk rt root buf = WOk out b -> b = norm buf.
Proof. exact walk_buffer_restored. Qed.

(* Every leaf under every concrete address - each '#N' at any level expanded
   to 0..N-1, leaf names with any number of '#' - exactly once, nothing else,
   in table order.  [sport_wf]: leaf names are sequences of literal text and
   '#N' (0 <= N), sub-tree names sequences of components "text/" or "text#N/"
   (at least one); literal text is non-empty and holds no '#' / ':'; what
   follows a '#N' does not begin with a digit; the argument part is empty or
   ":..." without '#'.  (A sub-tree name whose '#N' is followed by text - a#2b/ -
   is outside this shape; since the commit "fix: walk_ports wrote a '/' behind
   every index ..." the code walks it correctly, see C09_index_slash_pinned_refuted
   and the tie; the component structure of sport_wf does not describe it.) *)
Theorem C09_enumerates : forall root,
  Forall sport_wf root ->
  walk None (map render_port root) [] = WOk (spec_addrs root) [47].
Proof. exact walk_enumerates. Qed.

(* the '#'-free instance of stage 1 (side condition [plain]) *)
Theorem C09_enumerates_hashfree : forall root,
  Forall plain root ->
  walk None (map render_port root) [] = WOk (spec_addrs root) [47].
Proof. exact walk_enumerates_hashfree. Qed.

(* what the walk prints with snprintf("%d") is read back exactly by atoi
   (walk_ports, bundle_foreach) and by the matcher's saturating reader, for
   every index *)
Theorem C09_decimal_roundtrip : forall n rest,
  0 <= n -> starts_with_digit rest = false ->
  atoi (dec n ++ rest) = n /\ skip_digits (dec n ++ rest) = rest /\
  (n <= umax -> read_u (dec n ++ rest) = n).
Proof.
  exact (fun n rest Hn Hr =>
    match atoi_dec n rest Hn Hr with
    | conj A (conj B _) => conj A (conj B (fun Hu => read_u_dec n rest (conj Hn Hu) Hr))
    end).
Qed.

(* ORACLE-RELATIVE (this theorem and the next): o_null / o_disabled are the
   model's stand-ins for "the child object pointer is NULL" and "port_is_enabled
   returns false"; step_port consults them by definition, so the two statements
   say how the oracle's answers are USED (which address it is asked about, what
   a skipped sub-tree still reports, that nothing else is skipped), not where the
   answers come from.  Where they come from: C09_oracle_disabled /
   C09_oracle_selfoff below (the oracle built by the model of port_is_enabled
   from the toggles' answers), which the tie runs against the real code.

   pruning: with a runtime object a sub-tree (one-component literal name) is
   skipped exactly when the oracle reports its child object NULL or its 'enabled
   by' port answering false, and visited - with the address extended by its name -
   otherwise; without a runtime object it is always visited *)
Theorem C09_pruning : forall walk_sub rt ids i qn qm qs buf,
  has_char 35 qn = false -> qn <> [] ->
  let b := buf ++ upto_colon qn in
  let b' := if last_is_slash b then b else b ++ [47] in
  step_port walk_sub rt ids i (Port qn qm (Some qs)) buf =
  match rt with
  | Some o => if o_null o b' || o_disabled o b'
              then WOk (skipped_reports rt ids i (Port qn qm (Some qs)) b') b'
              else walk_sub (Port qn qm (Some qs)) (ids ++ [i]) b'
  | None => walk_sub (Port qn qm (Some qs)) (ids ++ [i]) b'
  end.
Proof. exact step_port_plain_subtree. Qed.

(* the same for enumerated and multi-component sub-tree names ("a#3/b#2/c/"):
   the sub-walk is attempted on every expansion of the name, in order; each is
   skipped exactly when the oracle reports a NULL object or a false 'enabled
   by' for THAT address, and visited otherwise *)
Theorem C09_pruning_enumerated : forall walk_sub rt ids i cs a m qs buf,
  Forall comp_wf cs -> cs <> [] -> args_wf a ->
  let q := Port (flatten (comps_segs cs) ++ a) m (Some qs) in
  step_port walk_sub rt ids i q buf =
  run_all (fun b => if pruned rt b then WOk (skipped_reports rt ids i q b) b else walk_sub q (ids ++ [i]) b)
          (map (fun x => buf ++ x) (expand (comps_segs cs))) [] buf.
Proof. exact step_port_subtree. Qed.

(* a table disabled through its self: port reports its enabling port only *)
Theorem C09_self_disabled : forall o ids n m t buf0,
  o_selfoff o (norm buf0) = true ->
  walk_port (Some o) ids (Port n m (Some t)) buf0 =
  match self_toggle t (norm buf0) with
  | Some (j, a) => WOk [(ids ++ [j], a)] (norm buf0)
  | None => WFail
  end.
Proof. exact walk_self_disabled. Qed.

(* D6 (regression witness): bundle_foreach before the "fix:" commit walked the
   leaf a#2/b#3 as /a0/b#3, /a1/b#3; the repaired one yields the six concrete
   addresses of the Spec *)
Theorem C09_multi_hash_leaf_pinned_refuted :
  bundle_addrs_pinned d6_name [47] =
    Some [[47;97;48;47;98;35;51]; [47;97;49;47;98;35;51]] /\
  bundle_addrs (S (length d6_name)) d6_name [47] =
    Some (map (app [47]) (expand [Lit [97]; Enum 2; Lit [47;98]; Enum 3])) /\
  bundle_addrs_pinned d6_name [47] <>
    Some (map (app [47]) (expand [Lit [97]; Enum 2; Lit [47;98]; Enum 3])).
Proof. exact multi_hash_leaf_pinned_refuted. Qed.

(* computed instances with '#N' at two levels of a sub-tree name and in a leaf
   name with two enumerations (one of them two-digit) *)
Theorem C09_enumerates_example :
  walk None (map render_port ex_numeric_s) [] = WOk (spec_addrs ex_numeric_s) [47].
Proof. exact walk_is_spec_example. Qed.

Theorem C09_nonvacuous : Forall plain ex_plain /\
  spec_addrs ex_plain = [([0;0;0;0]%nat, [47;97;47;98;47;99;47;100;47;101])].
Proof. exact ex_plain_ok. Qed.

(* sport_wf is met by "a#3/b#2/c/" -> { "e", "v#2/w#11:i" } (138 addresses) *)
Theorem C09_enumerates_nonvacuous : Forall sport_wf ex_wf /\ length (spec_addrs ex_wf) = 138%nat /\
  map pname (map render_port ex_wf) = [[97;35;51;47;98;35;50;47;99;47]].
Proof. exact ex_wf_ok. Qed.

(* Every (port, address) the walk reports, sent as a message with a type
   string the port admits, is dispatched to that very port: the callbacks
   invoked are exactly the chain of ports along the reported index path - one
   per level, objects handed down by the parents, the last one the reported
   leaf - with and without a location buffer (hashed or linear lookup:
   tree_ok covers both), and matches = 1.  Composition of C09_enumerates with
   C05's matcher (path_complete) and C04's tree dispatch
   (C04_exactly_one_leaf).  Side conditions: names of the shape the macros
   produce ([dok]: sub-tree ports one or more components "text/" or "text#N/"
   - the recursion callbacks skip as many components as the name has -, N < 10^9,
   7-bit literal text without : { * #, no two '#N' adjacent, a leaf name does
   not end in '/'), and pairwise non-overlapping sibling names
   ([table_disjoint]: no message is matched by two ports of one table - the
   reading C04 uses).  hp / tid: any result of the perfect-hash search and any
   table identities.
   PARTIAL: C09's text has no condition on sibling names; without table_disjoint
   (names_ok below) the statement is false of the faithful model -
   C09_dispatchable_refuted.  The side condition is the complement of the finding
   dispatch-leading-zero-alias together with "no sibling's name a prefix of
   another's" (C18's proviso; C04 calls every matching port). *)
Theorem C09_dispatchable_partial : forall hp tid root id a ty o,
  Forall sport_wf root -> Forall dok root -> table_disjoint root ->
  tree_ok (to_tree hp tid root) ->
  forall out b, walk None (map render_port root) [] = WOk out b ->
  In (id, a) out -> leaf_admits root id ty ->
  let t := to_tree hp tid root in
  rev (log (dispatch t a ty true o)) = chain id t (strip a) ty o (Some [47]) /\
  rev (log (dispatch t a ty false o)) = chain id t (strip a) ty o None /\
  matches (dispatch t a ty true o) = 1 /\
  leaf_count (chain id t (strip a) ty o (Some [47])) = 1 /\
  length (chain id t (strip a) ty o (Some [47])) = length id.
Proof. exact walk_dispatchable. Qed.

(* the hypotheses hold for "a#12/" -> { "c#2/x:i" } and the reported pair
   ([0;0], "/a11/c1/x") with type string "i" (24 pairs in all) *)
Theorem C09_dispatchable_nonvacuous :
  Forall sport_wf ex_d /\ Forall dok ex_d /\ table_disjoint ex_d /\
  tree_ok (to_tree no_hash_search one_id ex_d) /\
  leaf_admits ex_d [0%nat; 0%nat] [105] /\
  (exists out b, walk None (map render_port ex_d) [] = WOk out b /\
                 In ([0%nat; 0%nat], [47; 97; 49; 49; 47; 99; 49; 47; 120]) out /\ length out = 24%nat).
Proof. exact ex_d_ok. Qed.

(* The same with a DECIDABLE hypothesis in place of dok / table_disjoint:
   names_ok root = true (coq/Ports/NamesModel.v; evaluated on every generated
   tree by the tie): names of the macro shape (sub-tree names of one or more
   components; literal text may hold digits, the text behind a '#N' does not
   begin with one), and no two ports of a table clash (NamesModel.clashb:
   reading both path parts in step - literal characters must agree, '#N' against
   '#M' goes on behind both - one name ends, or a '#N' meets a literal digit).  table_disjoint follows by
   C05's soundness direction (whatever a name matches spells it, C05_no_spurious):
   two names spelling comparable strings clash (NamesOk.clash_sound; two digit
   runs at one place, each followed by a non-digit or the end, are equal or one
   string ends there). *)
Theorem C09_dispatchable_names_ok_partial : forall hp tid root id a ty o,
  names_ok root = true -> tree_ok (to_tree hp tid root) ->
  forall out b, walk None (map render_port root) [] = WOk out b ->
  In (id, a) out -> leaf_admits root id ty ->
  let t := to_tree hp tid root in
  rev (log (dispatch t a ty true o)) = chain id t (strip a) ty o (Some [47]) /\
  rev (log (dispatch t a ty false o)) = chain id t (strip a) ty o None /\
  matches (dispatch t a ty true o) = 1 /\
  leaf_count (chain id t (strip a) ty o (Some [47])) = 1 /\
  length (chain id t (strip a) ty o (Some [47])) = length id.
Proof. exact walk_dispatchable_names. Qed.

(* REFUTED as the text has it (no sibling condition): siblings a#4b, a01b - names of the
   documented shape, 1 <= N, no concrete name a prefix of another (names_shape, enums_pos,
   sibling_prefix_free), the table is what the library builds (tree_ok), the leaf admits the
   empty type string.  The walk reports ([1], "/a01b"); dispatching /a01b runs the callbacks
   of port 0 (a#4b: "01" is an index below 4, C05) AND of port 1, with and without a
   location buffer, d.matches = 2: not the chain of the reported port alone.  names_ok and
   no_digit_facing are false for this table (the side conditions of the two _partial
   theorems).  Same shape as C18_lookup_refuted; replayed on the real code
   (corpus/C09/findings.txt).  Finding (proposed): dispatch-leading-zero-alias. *)
Theorem C09_dispatchable_refuted :
  let t := to_tree no_hash_search one_id alias_stree in
  (names_shape alias_stree = true /\ enums_pos alias_stree = true /\ sibling_prefix_free alias_stree = true) /\
  (names_ok alias_stree = false /\ no_digit_facing alias_stree = false) /\
  tree_ok t /\ leaf_admits alias_stree [1%nat] [] /\
  exists out b, walk None (map render_port alias_stree) [] = WOk out b /\
    In ([1%nat], alias_msg) out /\
    dispatch t alias_msg [] true 1 =
    {| loc := Some [47]; matches := 2; obj := 1; dport := Some (2, 1);
       log := [Ev 2 1 [97; 48; 49; 98] 1 (Some alias_msg) (Some (2, 1)) true;
               Ev 2 0 [97; 48; 49; 98] 1 (Some alias_msg) (Some (2, 0)) true] |} /\
    dispatch t alias_msg [] false 1 =
    {| loc := None; matches := 0; obj := 1; dport := Some (2, 1);
       log := [Ev 2 1 [97; 48; 49; 98] 1 None (Some (2, 1)) true;
               Ev 2 0 [97; 48; 49; 98] 1 None (Some (2, 0)) true] |} /\
    rev (log (dispatch t alias_msg [] true 1)) <> chain [1%nat] t (strip alias_msg) [] 1 (Some [47]) /\
    matches (dispatch t alias_msg [] true 1) <> 1.
Proof. exact walk_dispatch_refuted. Qed.

Theorem C09_names_ok_sound : forall root, names_ok root = true ->
  Forall sport_wf root /\ Forall dok root /\ table_disjoint root /\ Forall lok root /\ lookup_disjoint root.
Proof. exact names_ok_sound. Qed.

(* names_ok holds for { "xa", "xb#2/y#11:i", "c#12/" -> { "xa:T:F", "d" } } (siblings sharing
   first characters), fails for { a#4b, a01b } and for { x, xy } *)
Theorem C09_names_ok_nonvacuous :
  names_ok ex_names = true /\
  names_ok [SPort [Lit [97]; Enum 4; Lit [98]] [] None None;
            SPort [Lit [97; 48; 49; 98]] [] None None] = false /\
  names_ok [SPort [Lit [120]] [] None None;
            SPort [Lit [120; 121]] [] None None] = false /\
  (exists out b, walk None (map render_port ex_names) [] = WOk out b /\ length out = 47%nat /\
                 In ([2%nat; 0%nat], [47; 99; 49; 49; 47; 120; 97]) out) /\
  apropos (map render_port ex_names) [47; 99; 49; 49; 47; 120; 97] = AFound [2%nat; 0%nat].
Proof. exact ex_names_ok. Qed.

(* A multi-component sub-tree name ("a/b/", "a#3/b#2/c/") paired with the macro
   recursion callbacks (rRecurCb ...): since the commit "fix: the recursion
   callbacks skipped one component of the message ..." SNIP skips as many
   components as the matched name has, the walked addresses dispatch to the
   reported leaf and names_ok accepts such names (structured by components),
   so C09_dispatchable_partial / C09_dispatchable_names_ok_partial / C18_lookup_names_ok_partial cover them. *)
Theorem C09_multicomponent_macro :
  walk None (map render_port ex_multi) [] = WOk [([0%nat; 0%nat], [47; 97; 47; 98; 47; 120])] [47] /\
  (let d := dispatch (to_tree no_hash_search one_id ex_multi) [47; 97; 47; 98; 47; 120] [] true 0 in
   matches d = 1 /\ leaf_count (log d) = 1 /\ length (log d) = 2%nat) /\
  names_ok ex_multi = true /\ names_ok ex_multi2 = true /\
  (exists out b, walk None (map render_port ex_multi2) [] = WOk out b /\ length out = 138%nat /\
                 In ([0%nat; 1%nat], [47; 97; 50; 47; 98; 49; 47; 99; 47; 118; 49; 47; 119; 49; 48]) out) /\
  apropos (map render_port ex_multi2) [47; 97; 50; 47; 98; 49; 47; 99; 47; 118; 49; 47; 119; 49; 48] = AFound [0%nat; 1%nat].
Proof. exact multicomponent_macro. Qed.

(* regression witness: before that commit SNIP stripped ONE component: the
   address /a/b/x the walk reports for { "a/b/" -> { "x" } } reached no leaf
   (the inner table was handed "b/x"): matches = 0, no leaf callback.
   Reproduced on the real code: corpus/C09/defects.txt. *)
Theorem C09_multicomponent_macro_pinned_refuted :
  walk None (map render_port ex_multi) [] = WOk [([0%nat; 0%nat], [47; 97; 47; 98; 47; 120])] [47] /\
  (let d := dispatch_pinned (to_tree no_hash_search one_id ex_multi) [47; 97; 47; 98; 47; 120] [] true 0 in
   matches d = 0 /\ leaf_count (log d) = 0 /\ length (log d) = 1%nat) /\
  (let d := dispatch (to_tree no_hash_search one_id ex_multi) [47; 97; 47; 98; 47; 120] [] true 0 in
   matches d = 1 /\ leaf_count (log d) = 1 /\ length (log d) = 2%nat).
Proof. exact multicomponent_macro_pinned_refuted. Qed.

(* 'enabled by' naming a port inside the sub-tree it disables (sub/tg, arr#3/tg):
   what a skipped sub-tree still reports is a port of its own table, at the
   skipped sub-tree's own expanded address followed by that port's name *)
Theorem C09_enabling_port_address : forall qn m sub b j a,
  sub_toggle (Port qn m (Some sub)) b = Some (j, a) ->
  exists e', a = b ++ e' /\ index_op sub e' = Some j.
Proof. exact sub_toggle_addr. Qed.

(* regression witness: before the commit "fix: the enabling port inside a disabled
   enumerated sub-tree ..." that address was collapsePath(buffer ++ "../" ++ value):
   for arr#3/ (enabled by arr#3/tg) skipped at /arr1/ it was /arr#3/tg - an address
   nothing dispatches; repaired: /arr1/tg.  Replayed: corpus/C09/defects.txt *)
Theorem C09_enabled_inside_enumerated_pinned_refuted :
  sub_toggle_pinned en_port [47;97;114;114;49;47] = Some (0%nat, [47;97;114;114;35;51;47;116;103]) /\
  sub_toggle en_port [47;97;114;114;49;47] = Some (0%nat, [47;97;114;114;49;47;116;103]).
Proof. exact enabled_inside_enumerated_pinned_refuted. Qed.

(* regression witness: walk_ports_recurse0 before the "fix:" commit wrote a '/'
   behind every index, so the sub-tree name a#2b/ was walked as /a0/b/, /a1/b/
   (addresses it does not match); repaired: /a0b/, /a1b/ *)
Theorem C09_index_slash_pinned_refuted :
  recurse0_pinned 6 probe slash_name [47] [47] =
    WOk [([0%nat], [47;97;48;47;98;47]); ([0%nat], [47;97;49;47;98;47])] [47;97;49;47;98;47] /\
  recurse0 6 probe slash_name [47] [47] =
    WOk (map (fun a => ([0%nat], 47 :: a)) (expand [Lit [97]; Enum 2; Lit [98; 47]])) [47;97;49;98;47].
Proof. exact recurse0_slash_pinned_refuted. Qed.

(* ---- the walk with a runtime object, as a whole ---------------------------------- *)
(* the erase loop's test "the string got shorter than old_end" (the model's
   explicit failure in loop_ports) never fires: whatever a port of the table does
   to the buffer, an extension of what it was given comes back - every tree, every
   oracle, well-formed names or not *)
Theorem C09_erase_check_dead : forall rt ids i q buf o b,
  step_port (fun q ids' b => walk_port rt ids' q b) rt ids i q buf = WOk o b ->
  Nat.ltb (length b) (length buf) = false.
Proof. exact erase_check_dead. Qed.

(* For EVERY oracle: what the walk reports is the Spec's enumeration with the
   sub-trees the oracle prunes left out (spec_rt in Ports/WalkRt.v: a pruned
   sub-tree contributes the enabling port inside it, if there is one; a table
   switched off through self: contributes its enabling port; every other sub-tree
   is visited under every expansion of its name), the buffer is restored, and the
   walk does not fail.  [defined_visit]: wherever the oracle switches a visited
   table off through self:, that port names a port of the table (the code:
   assert(ask_port)); it holds for the oracle built from the toggles' answers
   (C09_selfoff_defined).  Oracle-relative as above. *)
Theorem C09_enumerates_rt : forall o root,
  Forall sport_wf root -> defined_visit o [47] root = true ->
  walk (Some o) (map render_port root) [] = WOk (spec_walk_rt o root) [47].
Proof. exact walk_enumerates_rt. Qed.

Theorem C09_walk_total_rt : forall o root,
  Forall sport_wf root -> defined_visit o [47] root = true ->
  walk (Some o) (map render_port root) [] <> WFail.
Proof. exact walk_rt_total. Qed.

(* an oracle that prunes nothing: the static enumeration *)
Theorem C09_enumerates_rt_none : forall p ids pre, spec_rt o_none ids pre p = spec_addrs_port ids pre p.
Proof. exact spec_rt_none. Qed.

(* ---- where the oracle's answers come from: port_is_enabled ------------------------- *)
(* Ports/EnabledModel.v: enabled_query = the metadata lookup of 'enabled by', the
   sub-port test, Ports::operator[] on the asked table, the location string and
   collapsePath; port_enabled = the toggle's answer (ans t n: toggle n of the
   object behind the table reached at t); oracle_of = the walk's oracle built from
   it (the tie's model runs with THIS oracle, computed from the runtime state, not
   with the generator's list of pruned addresses).
   The oracle says "disabled" at x exactly when the tree has a sub-tree port q in a
   table t reached at b, x one of the expansions of q's name at b, for which
   port_is_enabled(q, loc = x, base = t, relative_to_parent, portname_from_base)
   returns false *)
Theorem C09_oracle_disabled : forall ans nulls root buf x,
  o_disabled (oracle_of ans nulls root buf) x = true <->
  exists t b q qn m sub, table_at root (norm buf) t b /\ In q t /\ q = Port qn m (Some sub) /\
    In x (expansions qn b) /\ port_enabled ans q t b x true true = Some false.
Proof. exact oracle_disabled_iff. Qed.

(* ... and "switched off through self:" at x exactly when a table reached at x has
   a self: port for which port_is_enabled(self:, loc = x, base = t, not relative)
   returns false *)
Theorem C09_oracle_selfoff : forall ans nulls root buf x,
  o_selfoff (oracle_of ans nulls root buf) x = true <->
  exists t, table_at root (norm buf) t x /\ self_site ans t x = [(true, x)].
Proof. exact oracle_selfoff_iff. Qed.

(* the port a pruned sub-tree still reports (sub_toggle of the walk model) is the
   port port_is_enabled asked - same index, the sub-tree's own address followed by
   the toggle's name, which collapsePath leaves as it is when it has no ".." *)
Theorem C09_pruned_reports_asked_port : forall q base loc j n a,
  enabled_query q base loc true true = QAsk true j n a ->
  sub_toggle q loc = Some (j, loc ++ n) /\ exists pos, collapse_str (loc ++ n) = Some (pos, a).
Proof. exact query_inside_sub_toggle. Qed.

Theorem C09_collapse_nodots : forall p cs,
  components p = Some cs -> Forall (fun c => is_dotdot c = false) cs ->
  exists pos, collapse_str p = Some (pos, p).
Proof. exact collapse_nodots. Qed.

(* a table the derived oracle switches off has the enabling port (self: a leaf) *)
Theorem C09_selfoff_defined : forall ans t b,
  (forall i sp, index_op t self_key = Some i -> nth_error t i = Some sp -> psub sp = None) ->
  self_site ans t b = [(true, b)] -> self_toggle t b <> None.
Proof. exact self_site_defined. Qed.

(* computed: { tg, sub/ (enabled by tg) -> {x}, arr#2/ (enabled by arr#2/on) -> {on, y} },
   tg and the "on" behind /arr1/ answering false *)
Theorem C09_enabled_example :
  enabled_query (Port [115;117;98;47] (Some m_tg) (Some [Port [120] None None])) ex_rt [47;115;117;98;47] true true
    = QAsk false 0%nat [116;103] [47;116;103] /\
  enabled_query (Port [97;114;114;35;50;47] (Some m_on)
                      (Some [Port [111;110;58;58;84;58;70] None None; Port [121] None None]))
                ex_rt [47;97;114;114;49;47] true true
    = QAsk true 0%nat [111;110] [47;97;114;114;49;47;111;110] /\
  off_table ans_ex ex_rt [47] = [(false, [47;115;117;98;47]); (false, [47;97;114;114;49;47])] /\
  walk_rt ans_ex [] ex_rt [] =
    WOk [([0%nat], [47;116;103]);
         ([2%nat; 0%nat], [47;97;114;114;48;47;111;110]); ([2%nat; 1%nat], [47;97;114;114;48;47;121]);
         ([2%nat; 0%nat], [47;97;114;114;49;47;111;110])] [47] /\
  walk_rt (fun _ _ => true) [] ex_rt [] = walk None ex_rt [].
Proof. exact enabled_example. Qed.

(* the hypotheses of C09_enumerates_rt hold for that tree and the oracle built
   from those answers; 4 of the 6 static addresses are reported *)
Theorem C09_enumerates_rt_nonvacuous :
  map render_port ex_rt_s = ex_rt /\
  Forall sport_wf ex_rt_s /\
  defined_visit o_ex [47] ex_rt_s = true /\
  o_disabled o_ex [47;115;117;98;47] = true /\ o_disabled o_ex [47;97;114;114;49;47] = true /\
  o_disabled o_ex [47;97;114;114;48;47] = false /\
  spec_walk_rt o_ex ex_rt_s =
    [([0%nat], [47;116;103]);
     ([2%nat; 0%nat], [47;97;114;114;48;47;111;110]); ([2%nat; 1%nat], [47;97;114;114;48;47;121]);
     ([2%nat; 0%nat], [47;97;114;114;49;47;111;110])] /\
  length (spec_addrs ex_rt_s) = 6%nat.
Proof. exact walk_rt_nonvacuous. Qed.
