(* C09 - Walking a port tree enumerates exactly its dispatchable addresses.
   Only the property theorems, each closed by [exact]; model in
   Ports/WalkModel.v (walk_ports, walk_ports_recurse0, walk_ports_recurse,
   bundle_foreach as coded), proofs in Ports/WalkProofs.v.

   Full statement (kept visible; NOT proved in this generality):
     forall root (well-formed structured tree, '#N' at any level),
       walk None (map render_port root) [] = WOk (spec_addrs root) [47]
   i.e. every leaf under every expansion exactly once, nothing else, in table
   order.  It is proved below for all '#'-free trees (any depth, any width,
   multi-component names, argument parts); for trees with '#N' the equality is
   checked on every run by the tie and by the Python Spec oracle, and computed
   in Coq for the examples at the end (the missing piece is the round trip of
   snprintf("%d") / atoi, a lemma about NameModel.dec / atoi). *)
From Coq Require Import List ZArith Bool.
From RtoscV Require Import Match.PatSpec Match.MatchModel Ports.NameModel Ports.PathModel Ports.WalkModel Ports.WalkProofs Ports.WalkRegress.
Import ListNotations.
Local Open Scope Z_scope.

(* the caller's buffer holds, as a string, exactly what it held before - "/"
   if it was empty - for every tree, every oracle, every initial content *)
Theorem C09_buffer_restored : forall rt root buf out b,
  walk rt root buf = WOk out b -> b = norm buf.
Proof. exact walk_buffer_restored. Qed.

(* side condition [plain]: no '#' in any name *)
Theorem C09_enumerates_partial : forall root,
  Forall plain root ->
  walk None (map render_port root) [] = WOk (spec_addrs root) [47].
Proof. exact walk_enumerates_hashfree. Qed.

(* pruning: with a runtime object a sub-tree (one-component literal name) is
   skipped exactly when its child object is NULL or its 'enabled by' port
   answers false, and visited - with the address extended by its name -
   otherwise; without a runtime object it is always visited *)
Theorem C09_pruning : forall walk_sub rt ids i qn qm qs buf,
  has_char 35 qn = false -> qn <> [] ->
  let b := buf ++ upto_colon qn in
  let b' := if last_is_slash b then b else b ++ [47] in
  step_port walk_sub rt ids i (Port qn qm (Some qs)) buf =
  match rt with
  | Some o => if o_null o b' || o_disabled o b' then WOk [] b'
              else walk_sub (Port qn qm (Some qs)) (ids ++ [i]) b'
  | None => walk_sub (Port qn qm (Some qs)) (ids ++ [i]) b'
  end.
Proof. exact step_port_plain_subtree. Qed.

(* a table disabled through its self: port reports its enabling port only *)
Theorem C09_self_disabled : forall o ids n m t buf0,
  o_selfoff o (norm buf0) = true ->
  walk_port (Some o) ids (Port n m (Some t)) buf0 =
  match self_toggle t (norm buf0) with
  | Some (j, a) => WOk [(ids ++ [j], a)] (norm buf0)
  | None => WFail
  end.
Proof. exact walk_self_disabled. Qed.

(* D6 (regression witness): bundle_foreach before the "fix:" commit walked the
   leaf a#2/b#3 as /a0/b#3, /a1/b#3; the repaired one yields the six concrete
   addresses of the Spec *)
Theorem C09_multi_hash_leaf_pinned_refuted :
  bundle_addrs_pinned d6_name [47] =
    Some [[47;97;48;47;98;35;51]; [47;97;49;47;98;35;51]] /\
  bundle_addrs (S (length d6_name)) d6_name [47] =
    Some (map (app [47]) (expand [Lit [97]; Enum 2; Lit [47;98]; Enum 3])) /\
  bundle_addrs_pinned d6_name [47] <>
    Some (map (app [47]) (expand [Lit [97]; Enum 2; Lit [47;98]; Enum 3])).
Proof. exact multi_hash_leaf_pinned_refuted. Qed.

(* computed instances with '#N' at two levels of a sub-tree name and in a leaf
   name with two enumerations (one of them two-digit) *)
Theorem C09_enumerates_example :
  walk None (map render_port ex_numeric_s) [] = WOk (spec_addrs ex_numeric_s) [47].
Proof. exact walk_is_spec_example. Qed.

Theorem C09_nonvacuous : Forall plain ex_plain /\
  spec_addrs ex_plain = [([0;0;0;0]%nat, [47;97;47;98;47;99;47;100;47;101])].
Proof. exact ex_plain_ok. Qed.
