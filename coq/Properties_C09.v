(* C09 - Walking a port tree enumerates exactly its dispatchable addresses.
   Only the property theorems, each closed by [exact]. *)
From Coq Require Import List ZArith.
From RtoscV Require Import Ports.NameModel Ports.PathModel Ports.WalkModel.
Import ListNotations.
Local Open Scope Z_scope.

Theorem C09_placeholder_example :
  walk None [Port [97;35;50;47] None (Some [Port [98;35;50] None None])] [] =
  WOk [([0;0]%nat, [47;97;48;47;98;48]); ([0;0]%nat, [47;97;48;47;98;49]);
       ([0;0]%nat, [47;97;49;47;98;48]); ([0;0]%nat, [47;97;49;47;98;49])] [47].
Proof. exact (eq_refl). Qed.
