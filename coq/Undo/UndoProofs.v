(* C15 - proofs about the UndoHistory model (Undo/UndoModel.v). *)
From Coq Require Import List ZArith Bool Lia Arith.
From RtoscV Require Import Undo.UndoModel.
Import ListNotations.
Local Open Scope Z_scope.

(* ---- Spec-side definitions ------------------------------------------------ *)
(* the cursor is inside the deque *)
Definition pos_ok (s : hstate) : Prop := (pos s <= length (hist s))%nat.

(* "seeks beyond either end stop at the end" *)
Definition clamp_dist (s : hstate) (k : Z) : Z :=
  Z.max (- Z.of_nat (pos s)) (Z.min (Z.of_nat (length (hist s)) - Z.of_nat (pos s)) k).

Lemma seek_clamped : forall s k, pos_ok s -> seek k s = seek (clamp_dist s k) s.
Proof.
  intros s k H. unfold pos_ok in H. unfold seek, clamp_dist.
  set (p := Z.of_nat (pos s)). set (n := Z.of_nat (length (hist s))).
  assert (Hpn : 0 <= p <= n) by (unfold p, n; lia).
  destruct (p + k <? 0) eqn:E1; destruct (p + k >? n) eqn:E2;
  destruct (p + Z.max (- p) (Z.min (n - p) k) <? 0) eqn:E3;
  destruct (p + Z.max (- p) (Z.min (n - p) k) >? n) eqn:E4; try lia;
  match goal with |- (if ?a =? 0 then _ else _) = (if ?b =? 0 then _ else _) =>
    replace b with a by lia; reflexivity end.
Qed.
