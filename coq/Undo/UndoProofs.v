(* C15 - proofs about the UndoHistory model (Undo/UndoModel.v). *)
From Coq Require Import List ZArith Bool Lia Arith.
From RtoscV Require Import Undo.UndoModel.
Import ListNotations.
Local Open Scope Z_scope.

(* ======================================================================== *)
(* Spec-side definitions (what the property text talks about)                *)
(* ======================================================================== *)

(* the cursor is inside the deque *)
Definition pos_ok (s : hstate) : Prop := (pos s <= length (hist s))%nat.

(* "seeks beyond either end stop at the end" *)
Definition clamp_dist (s : hstate) (k : Z) : Z :=
  Z.max (- Z.of_nat (pos s)) (Z.min (Z.of_nat (length (hist s)) - Z.of_nat (pos s)) k).

(* "one message per event that sets its address to the event's old value" *)
Definition set_old (e : ev) : msg := SetMsg (eaddr e) (ety e) (eold e).
Definition set_new (e : ev) : msg := SetMsg (eaddr e) (ety e) (enew e).


(* the applied events, newest first *)
Definition applied_newest_first (s : hstate) : list ev := rev (firstn (pos s) (hist s)).
(* the undone events, oldest first *)
Definition undone_oldest_first (s : hstate) : list ev := skipn (pos s) (hist s).

(* the n most recent entries *)
Definition lastn {A} (n : nat) (l : list A) : list A := skipn (length l - n) l.

(* "recorded within two seconds" *)
Definition recent (now : Z) (a : addr) (e : ev) : Prop := eaddr e = a /\ now - etime e <= 2.

(* any two retained events of one address were recorded more than 2 s apart *)
Fixpoint sep (l : list ev) : Prop :=
  match l with
  | [] => True
  | e :: t => Forall (fun x => eaddr x = eaddr e -> etime x - etime e > 2) t /\ sep t
  end.

Definition time_inv (s : hstate) : Prop :=
  sep (hist s) /\ Forall (fun e => etime e <= clock s) (hist s).

(* admissible histories: the clock only advances *)
Definition op_ok (o : op) : Prop := match o with Tick d => 0 <= d | _ => True end.

Definition size_ok (s : hstate) : Prop := pos_ok s /\ (length (hist s) <= max_history_size)%nat.

(* ======================================================================== *)
(* addresses                                                                  *)
(* ======================================================================== *)
Lemma addr_eqb_eq : forall a b, addr_eqb a b = true <-> a = b.
Proof.
  induction a as [|x a IH]; destruct b as [|y b]; simpl; split; intro H; try congruence; try reflexivity.
  - apply andb_true_iff in H. destruct H as [H1 H2]. apply Z.eqb_eq in H1. apply IH in H2. congruence.
  - inversion H; subst. apply andb_true_iff. split. apply Z.eqb_refl. apply IH. reflexivity.
Qed.

Lemma addr_eqb_refl : forall a, addr_eqb a a = true.
Proof. intro a. apply addr_eqb_eq. reflexivity. Qed.

Lemma addr_eqb_neq : forall a b, addr_eqb a b = false <-> a <> b.
Proof.
  intros a b. split; intro H.
  - intro E. apply addr_eqb_eq in E. congruence.
  - destruct (addr_eqb a b) eqn:E; [|reflexivity]. apply addr_eqb_eq in E. contradiction.
Qed.

(* ======================================================================== *)
(* seek                                                                       *)
(* ======================================================================== *)
Lemma firstn_S_nth : forall (A : Type) (h : list A) p e,
  nth_error h p = Some e -> firstn (S p) h = firstn p h ++ [e].
Proof.
  induction h as [|x h IH]; intros p e H.
  - destruct p; discriminate.
  - destruct p as [|p].
    + simpl in H. inversion H; subst. reflexivity.
    + simpl in H. change (firstn (S (S p)) (x :: h)) with (x :: firstn (S p) h).
      rewrite (IH _ _ H). reflexivity.
Qed.

Lemma skipn_nth : forall (A : Type) (h : list A) p e,
  nth_error h p = Some e -> skipn p h = e :: skipn (S p) h.
Proof.
  induction h as [|x h IH]; intros p e H.
  - destruct p; discriminate.
  - destruct p as [|p].
    + simpl in H. inversion H; subst. reflexivity.
    + simpl in H. change (skipn (S p) (x :: h)) with (skipn p h).
      rewrite (IH _ _ H). reflexivity.
Qed.

Lemma rewind_loop_spec : forall n h p, (n <= p <= length h)%nat ->
  rewind_loop n h p = Some ((p - n)%nat, flat_map rewind (firstn n (rev (firstn p h)))).
Proof.
  induction n as [|n IH]; intros h p Hp.
  - simpl. rewrite Nat.sub_0_r. reflexivity.
  - destruct p as [|p]; [lia|].
    cbn [rewind_loop].
    destruct (nth_error h p) as [e|] eqn:E.
    2:{ apply nth_error_None in E. lia. }
    rewrite IH by lia.
    rewrite (firstn_S_nth _ _ _ _ E). rewrite rev_app_distr.
    change (rev [e] ++ rev (firstn p h)) with (e :: rev (firstn p h)).
    cbn [firstn flat_map]. f_equal.
Qed.

Lemma replay_loop_spec : forall n h p, (p + n <= length h)%nat ->
  replay_loop n h p = Some ((p + n)%nat, flat_map replay (firstn n (skipn p h))).
Proof.
  induction n as [|n IH]; intros h p Hp.
  - simpl. rewrite Nat.add_0_r. reflexivity.
  - cbn [replay_loop].
    destruct (nth_error h p) as [e|] eqn:E.
    2:{ apply nth_error_None in E. lia. }
    rewrite IH by lia.
    rewrite (skipn_nth _ _ _ _ E). cbn [firstn flat_map].
    f_equal. f_equal. lia.
Qed.

Lemma seek_back_gen : forall s (k : nat), pos_ok s -> (k <= pos s)%nat ->
  seek (- Z.of_nat k) s =
  Some (mkH (hist s) (pos s - k) (clock s), flat_map rewind (firstn k (applied_newest_first s))).
Proof.
  intros [h p c] k Hok Hk. unfold pos_ok in Hok. simpl in *.
  unfold seek, applied_newest_first. cbn [hist pos clock].
  destruct (Z.of_nat p + - Z.of_nat k <? 0) eqn:E1; [lia|].
  destruct (Z.of_nat p + - Z.of_nat k >? Z.of_nat (length h)) eqn:E2; [lia|].
  destruct (- Z.of_nat k =? 0) eqn:E3.
  - assert (k = 0)%nat by lia. subst k. simpl. rewrite Nat.sub_0_r. reflexivity.
  - destruct (- Z.of_nat k <? 0) eqn:E4; [|lia].
    rewrite Z.opp_involutive, Nat2Z.id.
    rewrite rewind_loop_spec by lia. reflexivity.
Qed.

Lemma seek_forward_gen : forall s (k : nat), (pos s + k <= length (hist s))%nat ->
  seek (Z.of_nat k) s =
  Some (mkH (hist s) (pos s + k) (clock s), flat_map replay (firstn k (undone_oldest_first s))).
Proof.
  intros [h p c] k Hk. simpl in *.
  unfold seek, undone_oldest_first. cbn [hist pos clock].
  destruct (Z.of_nat p + Z.of_nat k <? 0) eqn:E1; [lia|].
  destruct (Z.of_nat p + Z.of_nat k >? Z.of_nat (length h)) eqn:E2; [lia|].
  destruct (Z.of_nat k =? 0) eqn:E3.
  - assert (k = 0)%nat by lia. subst k. simpl. rewrite Nat.add_0_r. reflexivity.
  - destruct (Z.of_nat k <? 0) eqn:E4; [lia|].
    rewrite Nat2Z.id.
    rewrite replay_loop_spec by lia. reflexivity.
Qed.

Lemma flat_map_rewind_fit : forall l, flat_map rewind l = map set_old l.
Proof. induction l as [|e l IH]; [reflexivity|]. simpl. rewrite IH. reflexivity. Qed.

Lemma flat_map_replay_fit : forall l, flat_map replay l = map set_new l.
Proof. induction l as [|e l IH]; [reflexivity|]. simpl. rewrite IH. reflexivity. Qed.

(* seeking back k steps emits, newest first, one message per event that sets
   its address to the event's old value *)
Lemma seek_back : forall s (k : nat), pos_ok s -> (k <= pos s)%nat ->
  seek (- Z.of_nat k) s =
  Some (mkH (hist s) (pos s - k) (clock s), map set_old (firstn k (applied_newest_first s))).
Proof.
  intros s k Hok Hk. rewrite seek_back_gen by assumption.
  rewrite flat_map_rewind_fit. reflexivity.
Qed.

(* seeking forward replays the new values oldest first *)
Lemma seek_forward : forall s (k : nat), (pos s + k <= length (hist s))%nat ->
  seek (Z.of_nat k) s =
  Some (mkH (hist s) (pos s + k) (clock s), map set_new (firstn k (undone_oldest_first s))).
Proof.
  intros s k Hk. rewrite seek_forward_gen by assumption.
  rewrite flat_map_replay_fit. reflexivity.
Qed.

Lemma seek_clamped : forall s k, pos_ok s -> seek k s = seek (clamp_dist s k) s.
Proof.
  intros s k H. unfold pos_ok in H. unfold seek, clamp_dist.
  set (p := Z.of_nat (pos s)). set (n := Z.of_nat (length (hist s))).
  assert (Hpn : 0 <= p <= n) by (unfold p, n; lia).
  destruct (p + k <? 0) eqn:E1; destruct (p + k >? n) eqn:E2;
  destruct (p + Z.max (- p) (Z.min (n - p) k) <? 0) eqn:E3;
  destruct (p + Z.max (- p) (Z.min (n - p) k) >? n) eqn:E4; try lia;
  match goal with |- (if ?a =? 0 then _ else _) = (if ?b =? 0 then _ else _) =>
    replace b with a by lia; reflexivity end.
Qed.

(* a seek never indexes outside the deque, leaves the events alone and lands
   on the clamped position *)
Lemma seek_total : forall s k, pos_ok s ->
  exists ms, seek k s =
    Some (mkH (hist s) (Z.to_nat (Z.of_nat (pos s) + clamp_dist s k)) (clock s), ms).
Proof.
  intros s k Hok. rewrite seek_clamped by assumption.
  pose proof Hok as Hok'. unfold pos_ok in Hok'.
  remember (clamp_dist s k) as c eqn:Ec.
  assert (Hc : - Z.of_nat (pos s) <= c <= Z.of_nat (length (hist s)) - Z.of_nat (pos s))
    by (subst c; unfold clamp_dist; lia).
  clear Ec.
  destruct (Z_lt_le_dec c 0) as [Hneg|Hpos].
  - assert (E : c = - Z.of_nat (Z.to_nat (- c))) by lia. rewrite E.
    rewrite seek_back_gen by (try assumption; lia).
    eexists. f_equal. f_equal. f_equal. lia.
  - assert (E : c = Z.of_nat (Z.to_nat c)) by lia. rewrite E.
    rewrite seek_forward_gen by lia.
    eexists. f_equal. f_equal. f_equal. lia.
Qed.

(* ======================================================================== *)
(* record                                                                     *)
(* ======================================================================== *)
(* first old value, last new value, time of the last recording *)
Definition merged (now : Z) (a : addr) (ty nw : Z) (h : ev) : ev := mkEv now a ty (eold h) nw.

Lemma merge_scan_length : forall now a ty nw l l',
  merge_scan now a ty nw l = Some l' -> length l' = length l.
Proof.
  induction l as [|h t IH]; intros l' H; cbn [merge_scan] in H; [discriminate|].
  destruct (now - etime h >? 2).
  - destruct (merge_scan now a ty nw t) as [t'|]; [|discriminate].
    inversion H; subst. simpl. f_equal. apply IH. reflexivity.
  - destruct (addr_eqb a (eaddr h)).
    + inversion H; subst. reflexivity.
    + destruct (merge_scan now a ty nw t) as [t'|]; [|discriminate].
      inversion H; subst. simpl. f_equal. apply IH. reflexivity.
Qed.

Lemma merge_scan_some : forall now a ty nw l l',
  merge_scan now a ty nw l = Some l' ->
  exists l1 h l2, l = l1 ++ h :: l2 /\ recent now a h /\
                  Forall (fun e => ~ recent now a e) l1 /\
                  l' = l1 ++ merged now a ty nw h :: l2.
Proof.
  induction l as [|h t IH]; intros l' H; cbn [merge_scan] in H; [discriminate|].
  destruct (now - etime h >? 2) eqn:E1.
  - destruct (merge_scan now a ty nw t) as [t'|]; [|discriminate].
    inversion H; subst. destruct (IH _ eq_refl) as (l1 & h0 & l2 & -> & Hr & Hn & ->).
    exists (h :: l1), h0, l2. repeat split; try assumption; try apply Hr.
    constructor; [|assumption]. unfold recent. lia.
  - destruct (addr_eqb a (eaddr h)) eqn:E2.
    + inversion H; subst. apply addr_eqb_eq in E2.
      exists [], h, t. repeat split; auto. lia.
    + destruct (merge_scan now a ty nw t) as [t'|]; [|discriminate].
      inversion H; subst. destruct (IH _ eq_refl) as (l1 & h0 & l2 & -> & Hr & Hn & ->).
      exists (h :: l1), h0, l2. repeat split; try assumption; try apply Hr.
      constructor; [|assumption]. apply addr_eqb_neq in E2. unfold recent. intros [Ha _]. congruence.
Qed.

Lemma merge_scan_none : forall now a ty nw l,
  merge_scan now a ty nw l = None <-> Forall (fun e => ~ recent now a e) l.
Proof.
  induction l as [|h t IH]; cbn [merge_scan].
  - split; auto.
  - destruct (now - etime h >? 2) eqn:E1.
    + destruct (merge_scan now a ty nw t) as [t'|].
      * split; [discriminate|]. intro H. inversion H; subst. apply IH in H3. discriminate.
      * split; [|reflexivity]. intros _. constructor; [unfold recent; lia|]. apply IH. reflexivity.
    + destruct (addr_eqb a (eaddr h)) eqn:E2.
      * split; [discriminate|]. intro H. inversion H; subst. exfalso. apply H2.
        apply addr_eqb_eq in E2. unfold recent. split; [congruence|lia].
      * apply addr_eqb_neq in E2.
        destruct (merge_scan now a ty nw t) as [t'|].
        -- split; [discriminate|]. intro H. inversion H; subst. apply IH in H3. discriminate.
        -- split; [|reflexivity]. intros _. constructor; [unfold recent; intros [Ha _]; congruence|].
           apply IH. reflexivity.
Qed.

Lemma firstn_idem : forall (A : Type) p (h : list A), firstn p (firstn p h) = firstn p h.
Proof. intros. rewrite firstn_firstn, Nat.min_id. reflexivity. Qed.

Lemma record_char : forall a ty old nw s, pos_ok s ->
  record a ty old nw s =
  match merge_scan (clock s) a ty nw (rev (firstn (pos s) (hist s))) with
  | Some l => mkH (rev l) (pos s) (clock s)
  | None =>
      let h2 := firstn (pos s) (hist s) ++ [mkEv (clock s) a ty old nw] in
      if Nat.ltb max_history_size (length h2) then mkH (tl h2) (pos s) (clock s)
      else mkH h2 (S (pos s)) (clock s)
  end.
Proof.
  intros a ty old nw [h p c] Hok. unfold pos_ok in Hok. unfold record. cbn [hist pos clock] in *.
  set (h1 := if Nat.eqb (length h) p then h else firstn p h).
  assert (Hh1 : h1 = firstn p h).
  { unfold h1. destruct (Nat.eqb (length h) p) eqn:E; [|reflexivity].
    apply Nat.eqb_eq in E. subst p. rewrite firstn_all. reflexivity. }
  clearbody h1. subst h1. rewrite firstn_idem.
  rewrite (skipn_all2 (firstn p h)) by (rewrite firstn_length; lia).
  destruct (Nat.eqb p 0) eqn:E0.
  - apply Nat.eqb_eq in E0. subst p. reflexivity.
  - destruct (merge_scan c a ty nw (rev (firstn p h))) as [l|]; [|reflexivity].
    rewrite app_nil_r. reflexivity.
Qed.

(* recording after an undo discards the undone tail: the result does not
   depend on it, and nothing is left to redo *)
Lemma record_truncate : forall a ty old nw s, pos_ok s ->
  record a ty old nw s = record a ty old nw (mkH (firstn (pos s) (hist s)) (pos s) (clock s)).
Proof.
  intros a ty old nw s Hok. rewrite record_char by assumption.
  rewrite (record_char a ty old nw (mkH _ _ _)).
  - cbn [hist pos clock]. rewrite firstn_idem. reflexivity.
  - unfold pos_ok in *. cbn [hist pos]. rewrite firstn_length. lia.
Qed.

Lemma record_pos_end : forall a ty old nw s, pos_ok s ->
  pos (record a ty old nw s) = length (hist (record a ty old nw s)).
Proof.
  intros a ty old nw s Hok. rewrite record_char by assumption. unfold pos_ok in Hok.
  assert (Hl : length (firstn (pos s) (hist s)) = pos s) by (rewrite firstn_length; lia).
  destruct (merge_scan _ _ _ _ _) as [l|] eqn:E.
  - apply merge_scan_length in E. cbn [hist pos]. rewrite rev_length in *. lia.
  - cbn zeta. destruct (Nat.ltb _ _) eqn:E2; cbn [hist pos].
    + destruct (firstn (pos s) (hist s)) as [|x t]; simpl in *; [lia|]. rewrite app_length. simpl. lia.
    + rewrite app_length. simpl. lia.
Qed.

(* no retained event of that address within two seconds: the event is
   appended and only the 20 most recent are retained *)
Lemma record_append : forall a ty old nw s, size_ok s ->
  Forall (fun e => ~ recent (clock s) a e) (firstn (pos s) (hist s)) ->
  let h' := lastn max_history_size (firstn (pos s) (hist s) ++ [mkEv (clock s) a ty old nw]) in
  record a ty old nw s = mkH h' (length h') (clock s).
Proof.
  intros a ty old nw s [Hok Hsz] Hno. cbn zeta.
  rewrite record_char by assumption.
  assert (E : merge_scan (clock s) a ty nw (rev (firstn (pos s) (hist s))) = None).
  { apply merge_scan_none. apply Forall_rev. exact Hno. }
  rewrite E. cbn zeta. unfold pos_ok in Hok.
  assert (Hl : length (firstn (pos s) (hist s)) = pos s) by (rewrite firstn_length; lia).
  unfold lastn. rewrite app_length. cbn [length]. rewrite Hl.
  unfold max_history_size in *.
  destruct (Nat.ltb 20 (pos s + 1)) eqn:E2.
  - apply Nat.ltb_lt in E2. assert (pos s = 20)%nat by lia.
    replace (pos s + 1 - 20)%nat with 1%nat by lia.
    change (skipn 1 (firstn (pos s) (hist s) ++ [mkEv (clock s) a ty old nw]))
      with (tl (firstn (pos s) (hist s) ++ [mkEv (clock s) a ty old nw])).
    f_equal.
    destruct (firstn (pos s) (hist s)) as [|x t]; simpl in *; [lia|]. rewrite app_length. simpl. lia.
  - apply Nat.ltb_ge in E2. replace (pos s + 1 - 20)%nat with 0%nat by lia.
    cbn [skipn]. f_equal. rewrite app_length. simpl. lia.
Qed.

(* a retained (applied) event of that address within two seconds: the newest
   such event takes the new value and the time, nothing else changes *)
Lemma record_merge_newest : forall a ty old nw s, pos_ok s ->
  Exists (recent (clock s) a) (firstn (pos s) (hist s)) ->
  exists l1 h l2, firstn (pos s) (hist s) = l1 ++ h :: l2 /\ recent (clock s) a h /\
    Forall (fun e => ~ recent (clock s) a e) l2 /\
    record a ty old nw s = mkH (l1 ++ merged (clock s) a ty nw h :: l2) (pos s) (clock s).
Proof.
  intros a ty old nw s Hok Hex. rewrite record_char by assumption.
  destruct (merge_scan _ _ _ _ _) as [l|] eqn:E.
  - apply merge_scan_some in E. destruct E as (l1 & h & l2 & E1 & Hr & Hn & ->).
    exists (rev l2), h, (rev l1). split; [|split; [exact Hr|split]].
    + rewrite <- (rev_involutive (firstn (pos s) (hist s))). rewrite E1.
      rewrite rev_app_distr. simpl. rewrite <- app_assoc. reflexivity.
    + apply Forall_rev. exact Hn.
    + rewrite rev_app_distr. simpl. rewrite <- app_assoc. reflexivity.
  - exfalso. apply merge_scan_none in E. apply Forall_rev in E. rewrite rev_involutive in E.
    apply Exists_exists in Hex. destruct Hex as (x & Hin & Hr).
    rewrite Forall_forall in E. exact (E x Hin Hr).
Qed.

(* ======================================================================== *)
(* the time invariant: same-address events lie more than 2 s apart           *)
(* ======================================================================== *)
Definition apart (x y : ev) : Prop := eaddr y = eaddr x -> etime y - etime x > 2.

Lemma sep_app : forall l1 l2,
  sep (l1 ++ l2) <-> sep l1 /\ sep l2 /\ Forall (fun x => Forall (apart x) l2) l1.
Proof.
  induction l1 as [|e l1 IH]; intro l2; cbn [sep app].
  - split; [intro H; repeat split; auto|tauto].
  - split.
    + intros [H1 H2]. apply Forall_app in H1. apply IH in H2.
      destruct H1 as [H1a H1b]. destruct H2 as (H2a & H2b & H2c).
      repeat split; try assumption. constructor; assumption.
    + intros ((H1 & H2) & H3 & H4). inversion H4; subst.
      split. apply Forall_app. split; assumption.
      apply IH. repeat split; assumption.
Qed.

Lemma sep_firstn : forall n l, sep l -> sep (firstn n l).
Proof.
  intros n l H. rewrite <- (firstn_skipn n l) in H. apply sep_app in H. tauto.
Qed.

Lemma sep_tl : forall l, sep l -> sep (tl l).
Proof. intros [|x l] H; [exact I|]. destruct H. assumption. Qed.

Lemma Forall_firstn : forall (A : Type) (P : A -> Prop) n l, Forall P l -> Forall P (firstn n l).
Proof.
  intros A P n l H. rewrite <- (firstn_skipn n l) in H. apply Forall_app in H. tauto.
Qed.

Lemma Forall_tl : forall (A : Type) (P : A -> Prop) l, Forall P l -> Forall P (tl l).
Proof. intros A P [|x l] H; [constructor|]. inversion H; assumption. Qed.

(* in a separated list whose times do not exceed [now], an event of address a
   recorded within 2 s is the newest event of a, and the only recent one *)
Lemma recent_is_newest : forall now a l1 h l2,
  sep (l1 ++ h :: l2) -> recent now a h ->
  Forall (fun e => ~ recent now a e) l2 ->
  Forall (fun e => eaddr e <> a) l2.
Proof.
  intros now a l1 h l2 Hs [Ha Ht] Hn.
  apply sep_app in Hs. destruct Hs as (_ & Hs & _). destruct Hs as [Hh _].
  rewrite Forall_forall in *. intros y Hy E.
  specialize (Hh y Hy). specialize (Hn y Hy).
  assert (etime y - etime h > 2) by (apply Hh; congruence).
  apply Hn. unfold recent. split; [assumption|]. lia.
Qed.

Lemma recent_is_only : forall now a l1 h l2,
  sep (l1 ++ h :: l2) -> etime h <= now -> recent now a h ->
  Forall (fun e => ~ recent now a e) l1.
Proof.
  intros now a l1 h l2 Hs Hb [Ha Ht].
  apply sep_app in Hs. destruct Hs as (_ & _ & Hs).
  rewrite Forall_forall in *. intros x Hx [E1 E2].
  specialize (Hs x Hx). inversion Hs as [|? ? H1 H2]; subst.
  assert (etime h - etime x > 2) by (apply H1; congruence). lia.
Qed.

Lemma time_inv_record : forall a ty old nw s, pos_ok s -> time_inv s ->
  time_inv (record a ty old nw s).
Proof.
  intros a ty old nw s Hok [Hs Hb].
  set (pre := firstn (pos s) (hist s)).
  assert (Hsp : sep pre) by (apply sep_firstn; assumption).
  assert (Hbp : Forall (fun e => etime e <= clock s) pre) by (apply Forall_firstn; assumption).
  rewrite record_char by assumption. fold pre.
  destruct (merge_scan (clock s) a ty nw (rev pre)) as [l|] eqn:E.
  - apply merge_scan_some in E. destruct E as (l1 & h & l2 & E1 & Hr & Hn & ->).
    assert (Epre : pre = rev l2 ++ h :: rev l1).
    { rewrite <- (rev_involutive pre). rewrite E1. rewrite rev_app_distr. simpl.
      rewrite <- app_assoc. reflexivity. }
    rewrite rev_app_distr. simpl. rewrite <- app_assoc. cbn [app].
    rewrite Epre in Hsp, Hbp.
    assert (Hna : Forall (fun e => eaddr e <> a) (rev l1)).
    { eapply recent_is_newest; eauto. apply Forall_rev. assumption. }
    apply Forall_app in Hbp. destruct Hbp as [Hb1 Hb2]. inversion Hb2; subst.
    split; cbn [hist clock].
    + apply sep_app in Hsp. destruct Hsp as (S1 & S2 & S3).
      apply sep_app. split; [assumption|]. split.
      * destruct S2 as [S2a S2b]. split; [|assumption].
        rewrite Forall_forall in *. intros y Hy E. exfalso. apply (Hna y Hy).
        destruct Hr. simpl in E. congruence.
      * rewrite Forall_forall in *. intros x Hx. specialize (S3 x Hx). inversion S3 as [|? ? H5 H6]; subst.
        constructor; [|assumption].
        unfold apart in *. cbn [merged eaddr etime]. intro E.
        destruct Hr as [Hr1 Hr2].
        assert (etime h - etime x > 2) by (apply H5; congruence). lia.
    + apply Forall_app. split; [assumption|]. constructor; [simpl; lia|assumption].
  - apply merge_scan_none in E. apply Forall_rev in E. rewrite rev_involutive in E.
    cbn zeta.
    assert (S2 : sep (pre ++ [mkEv (clock s) a ty old nw])).
    { apply sep_app. split; [assumption|]. split; [simpl; auto|].
      rewrite Forall_forall in *. intros x Hx. constructor; [|constructor].
      unfold apart. cbn [eaddr etime]. intro Ea.
      specialize (E x Hx). unfold recent in E.
      destruct (Z_le_gt_dec (clock s - etime x) 2); [|lia]. exfalso. apply E. split; [congruence|lia]. }
    assert (B2 : Forall (fun e => etime e <= clock s) (pre ++ [mkEv (clock s) a ty old nw])).
    { apply Forall_app. split; [assumption|]. constructor; [simpl; lia|constructor]. }
    destruct (Nat.ltb _ _); split; cbn [hist clock];
      try apply sep_tl; try apply Forall_tl; assumption.
Qed.

(* ======================================================================== *)
(* invariants of whole histories                                              *)
(* ======================================================================== *)
Definition inv (s : hstate) : Prop := size_ok s /\ time_inv s.

Lemma inv_init : inv init.
Proof.
  unfold inv, size_ok, pos_ok, time_inv, init, max_history_size. simpl.
  repeat split; auto; lia.
Qed.

Lemma size_ok_record : forall a ty old nw s, size_ok s -> size_ok (record a ty old nw s).
Proof.
  intros a ty old nw s [Hok Hsz]. unfold size_ok, pos_ok.
  rewrite <- record_pos_end by assumption. split; [lia|].
  rewrite record_char by assumption. unfold pos_ok in Hok. unfold max_history_size in *.
  assert (Hl : length (firstn (pos s) (hist s)) = pos s) by (rewrite firstn_length; lia).
  destruct (merge_scan _ _ _ _ _) as [l|] eqn:E.
  - apply merge_scan_length in E. cbn [pos]. lia.
  - cbn zeta. rewrite app_length. cbn [length]. rewrite Hl.
    destruct (Nat.ltb 20 (pos s + 1)) eqn:E2; cbn [pos].
    + lia.
    + apply Nat.ltb_ge in E2. lia.
Qed.

Lemma step_inv : forall s o s' ms, inv s -> op_ok o -> step s o = Some (s', ms) -> inv s'.
Proof.
  intros s o s' ms [Hsz Ht] Hop H. destruct o as [a ty old nw|k|d]; cbn [step] in H.
  - inversion H; subst. split.
    + apply size_ok_record. assumption.
    + apply time_inv_record; [apply Hsz|assumption].
  - destruct Hsz as [Hok Hsz].
    destruct (seek_total s k Hok) as [ms' E]. rewrite E in H. inversion H; subst.
    unfold inv, size_ok, pos_ok, time_inv. cbn [hist pos clock].
    repeat split; try assumption; try apply Ht.
    unfold pos_ok in Hok. unfold clamp_dist. lia.
  - inversion H; subst. simpl in Hop.
    unfold inv, size_ok, pos_ok, time_inv. cbn [hist pos clock].
    repeat split; try apply Hsz; try apply Ht.
    destruct Ht as [_ Hb]. rewrite Forall_forall in *. intros x Hx. specialize (Hb x Hx). lia.
Qed.

Lemma step_total : forall s o, pos_ok s -> exists r, step s o = Some r.
Proof.
  intros s o Hok. destruct o as [a ty old nw|k|d]; cbn [step]; try (eexists; reflexivity).
  destruct (seek_total s k Hok) as [ms E]. rewrite E. eexists; reflexivity.
Qed.

(* no operation history ever indexes outside the deque, and the invariants
   hold after it *)
Lemma run_inv : forall ops s, inv s -> Forall op_ok ops ->
  exists s' mss, run ops s = Some (s', mss) /\ inv s'.
Proof.
  induction ops as [|o ops IH]; intros s Hi Hops.
  - exists s, []. split; [reflexivity|assumption].
  - inversion Hops; subst. cbn [run].
    destruct (step_total s o) as [[s1 ms] E]; [apply Hi|]. rewrite E.
    pose proof (step_inv _ _ _ _ Hi H1 E) as Hi1.
    destruct (IH s1 Hi1 H2) as (s' & mss & E2 & Hi2). rewrite E2.
    exists s', (ms :: mss). split; [reflexivity|assumption].
Qed.

Lemma run_preserves : forall (P : hstate -> Prop) (Q : op -> Prop),
  (forall s o s' ms, P s -> Q o -> step s o = Some (s', ms) -> P s') ->
  forall ops s s' mss, P s -> Forall Q ops -> run ops s = Some (s', mss) -> P s'.
Proof.
  intros P Q Hstep. induction ops as [|o ops IH]; intros s s' mss Hp Hq H; cbn [run] in H.
  - inversion H; subst. assumption.
  - inversion Hq; subst.
    destruct (step s o) as [[s1 ms]|] eqn:E; [|discriminate].
    destruct (run ops s1) as [[s2 mss2]|] eqn:E2; [|discriminate].
    inversion H; subst. apply (IH s1 s' mss2); [|assumption|assumption].
    apply (Hstep s o s1 ms); assumption.
Qed.

Lemma step_size : forall s o s' ms, size_ok s -> True -> step s o = Some (s', ms) -> size_ok s'.
Proof.
  intros s o s' ms Hsz _ H. destruct o as [a ty old nw|k|d]; cbn [step] in H.
  - inversion H; subst. apply size_ok_record. assumption.
  - destruct Hsz as [Hok Hsz].
    destruct (seek_total s k Hok) as [ms' E]. rewrite E in H. inversion H; subst.
    unfold size_ok, pos_ok. cbn [hist pos]. split; [|assumption].
    unfold pos_ok in Hok. unfold clamp_dist. lia.
  - inversion H; subst. exact Hsz.
Qed.

Lemma size_ok_init : size_ok init.
Proof. apply inv_init. Qed.

(* the 20-event cap and the cursor bound hold after every history, whatever
   the operations *)
Lemma run_size : forall ops s mss, run ops init = Some (s, mss) -> size_ok s.
Proof.
  intros ops s mss H.
  apply (run_preserves size_ok (fun _ => True) step_size ops init s mss);
    [apply size_ok_init| |assumption].
  apply Forall_forall. auto.
Qed.

Lemma run_total : forall ops, exists s mss, run ops init = Some (s, mss).
Proof.
  assert (G : forall ops s, size_ok s -> exists s' mss, run ops s = Some (s', mss)).
  { induction ops as [|o ops IH]; intros s Hs.
    - exists s, []. reflexivity.
    - cbn [run]. destruct (step_total s o) as [[s1 ms] E]; [apply Hs|]. rewrite E.
      destruct (IH s1) as (s' & mss & E2). { eapply step_size; eauto. }
      rewrite E2. eexists _, _. reflexivity. }
  intro ops. apply G. apply size_ok_init.
Qed.

Lemma run_time : forall ops s mss, Forall op_ok ops -> run ops init = Some (s, mss) -> inv s.
Proof.
  intros ops s mss Hf H.
  apply (run_preserves inv op_ok step_inv ops init s mss); [apply inv_init|assumption|assumption].
Qed.

(* ---- the property clauses over whole histories ---------------------------- *)
Lemma hist_seek_back : forall ops s mss (k : nat),
  run ops init = Some (s, mss) -> (k <= pos s)%nat ->
  seek (- Z.of_nat k) s =
  Some (mkH (hist s) (pos s - k) (clock s), map set_old (firstn k (applied_newest_first s))).
Proof.
  intros ops s mss k H Hk. destruct (run_size _ _ _ H) as [Hok _].
  apply seek_back; assumption.
Qed.

Lemma hist_seek_forward : forall ops s mss (k : nat),
  run ops init = Some (s, mss) -> (pos s + k <= length (hist s))%nat ->
  seek (Z.of_nat k) s =
  Some (mkH (hist s) (pos s + k) (clock s), map set_new (firstn k (undone_oldest_first s))).
Proof.
  intros ops s mss k H Hk. apply seek_forward; assumption.
Qed.

Lemma hist_seek_clamped : forall ops s mss k,
  run ops init = Some (s, mss) -> seek k s = seek (clamp_dist s k) s.
Proof.
  intros ops s mss k H. apply seek_clamped. apply (run_size _ _ _ H).
Qed.

Lemma hist_truncate : forall ops s mss a ty old nw,
  run ops init = Some (s, mss) ->
  record a ty old nw s = record a ty old nw (mkH (firstn (pos s) (hist s)) (pos s) (clock s)) /\
  pos (record a ty old nw s) = length (hist (record a ty old nw s)).
Proof.
  intros ops s mss a ty old nw H. destruct (run_size _ _ _ H) as [Hok _].
  split; [apply record_truncate|apply record_pos_end]; assumption.
Qed.

Lemma hist_cap : forall ops s mss, run ops init = Some (s, mss) ->
  (pos s <= length (hist s) <= 20)%nat.
Proof. intros ops s mss H. destruct (run_size _ _ _ H) as [Hok Hsz]. split; assumption. Qed.

Lemma hist_append : forall ops s mss a ty old nw,
  run ops init = Some (s, mss) ->
  Forall (fun e => ~ recent (clock s) a e) (firstn (pos s) (hist s)) ->
  let h' := lastn 20 (firstn (pos s) (hist s) ++ [mkEv (clock s) a ty old nw]) in
  record a ty old nw s = mkH h' (length h') (clock s).
Proof.
  intros ops s mss a ty old nw H Hno. apply record_append; [apply (run_size _ _ _ H)|assumption].
Qed.

(* the merge clause at full strength: in every history whose clock steps are
   non-negative, a record whose address has a retained applied event recorded
   at most two seconds earlier merges into that event - which is the newest
   event of the address and the only recent one - keeping its old value *)
Lemma hist_merge : forall ops s mss a ty old nw,
  Forall op_ok ops -> run ops init = Some (s, mss) ->
  Exists (recent (clock s) a) (firstn (pos s) (hist s)) ->
  exists l1 h l2, firstn (pos s) (hist s) = l1 ++ h :: l2 /\ recent (clock s) a h /\
    Forall (fun e => eaddr e <> a) l2 /\
    Forall (fun e => ~ recent (clock s) a e) l1 /\
    record a ty old nw s = mkH (l1 ++ merged (clock s) a ty nw h :: l2) (pos s) (clock s).
Proof.
  intros ops s mss a ty old nw Hop H Hex.
  destruct (run_time _ _ _ Hop H) as [[Hok _] [Hs Hb]].
  destruct (record_merge_newest a ty old nw s Hok Hex) as (l1 & h & l2 & E & Hr & Hn & Hrec).
  exists l1, h, l2.
  assert (Hsp : sep (l1 ++ h :: l2)) by (rewrite <- E; apply sep_firstn; assumption).
  assert (Hbp : Forall (fun e => etime e <= clock s) (l1 ++ h :: l2))
    by (rewrite <- E; apply Forall_firstn; assumption).
  apply Forall_app in Hbp. destruct Hbp as [_ Hbp]. inversion Hbp; subst.
  repeat split; try assumption; try apply Hr.
  - eapply recent_is_newest; eauto.
  - eapply recent_is_only; eauto.
Qed.

Lemma hist_separated : forall ops s mss,
  Forall op_ok ops -> run ops init = Some (s, mss) -> sep (hist s).
Proof. intros ops s mss Hop H. apply (run_time _ _ _ Hop H). Qed.

(* ======================================================================== *)
(* end to end: the application's values and the chain of old/new values      *)
(* ======================================================================== *)
(* starting from store f, every event's old value is the value the store
   has when the event is reached (what C14's ports record) *)
Fixpoint chain_ok (l : list ev) (f : store) : Prop :=
  match l with
  | [] => True
  | e :: t => f (eaddr e) = eold e /\ chain_ok t (upd f (eaddr e) (enew e))
  end.

(* the store after replaying the new values of l *)
Definition run_new (l : list ev) (f : store) : store :=
  fold_left (fun g e => upd g (eaddr e) (enew e)) l f.

(* "the value it had before its oldest retained change" / "the latest value" *)
Definition value_before_oldest (h : list ev) (a : addr) (dflt : Z) : Z :=
  match find (fun e => addr_eqb (eaddr e) a) h with Some e => eold e | None => dflt end.
Definition value_latest (h : list ev) (a : addr) (dflt : Z) : Z :=
  match find (fun e => addr_eqb (eaddr e) a) (rev h) with Some e => enew e | None => dflt end.

Definition e_inv (st : store * hstate) : Prop :=
  let (f, s) := st in
  inv s /\
  exists base, chain_ok (hist s) base /\
               forall a, f a = run_new (firstn (pos s) (hist s)) base a.

Definition eop_ok (o : eop) : Prop :=
  match o with ETick d => 0 <= d | _ => True end.

Lemma upd_same : forall f a v, upd f a v a = v.
Proof. intros. unfold upd. rewrite addr_eqb_refl. reflexivity. Qed.

Lemma upd_other : forall f a v x, x <> a -> upd f a v x = f x.
Proof. intros f a v x H. unfold upd. apply addr_eqb_neq in H. rewrite H. reflexivity. Qed.

Lemma upd_ext : forall f g a v, (forall x, f x = g x) -> forall x, upd f a v x = upd g a v x.
Proof. intros f g a v H x. unfold upd. destruct (addr_eqb x a); auto. Qed.

Lemma upd_comm : forall f a v b w, a <> b ->
  forall x, upd (upd f a v) b w x = upd (upd f b w) a v x.
Proof.
  intros f a v b w H x. unfold upd.
  destruct (addr_eqb x b) eqn:E1; destruct (addr_eqb x a) eqn:E2; try reflexivity.
  apply addr_eqb_eq in E1. apply addr_eqb_eq in E2. congruence.
Qed.

Lemma chain_ok_ext : forall l f g, (forall x, f x = g x) -> chain_ok l f -> chain_ok l g.
Proof.
  induction l as [|e l IH]; intros f g H Hc; [exact I|].
  destruct Hc as [H1 H2]. split; [rewrite <- H; assumption|].
  eapply IH; [|eassumption]. apply upd_ext. assumption.
Qed.

Lemma run_new_ext : forall l f g, (forall x, f x = g x) -> forall x, run_new l f x = run_new l g x.
Proof.
  induction l as [|e l IH]; intros f g H x; [apply H|].
  unfold run_new. cbn [fold_left]. apply IH. apply upd_ext. assumption.
Qed.

Lemma run_new_app : forall l1 l2 f, run_new (l1 ++ l2) f = run_new l2 (run_new l1 f).
Proof. intros. unfold run_new. apply fold_left_app. Qed.

Lemma run_new_cons : forall e l f, run_new (e :: l) f = run_new l (upd f (eaddr e) (enew e)).
Proof. reflexivity. Qed.

Lemma chain_ok_app : forall l1 l2 f,
  chain_ok (l1 ++ l2) f <-> chain_ok l1 f /\ chain_ok l2 (run_new l1 f).
Proof.
  induction l1 as [|e l1 IH]; intros l2 f; cbn [app chain_ok].
  - unfold run_new. simpl. tauto.
  - rewrite run_new_cons. rewrite IH. tauto.
Qed.

Lemma run_new_notouch : forall a l f, Forall (fun e => eaddr e <> a) l -> run_new l f a = f a.
Proof.
  induction l as [|e l IH]; intros f H; [reflexivity|].
  inversion H; subst. rewrite run_new_cons. rewrite IH by assumption.
  apply upd_other. congruence.
Qed.

Lemma run_new_notouch_upd : forall a v l f, Forall (fun e => eaddr e <> a) l ->
  forall x, run_new l (upd f a v) x = upd (run_new l f) a v x.
Proof.
  induction l as [|e l IH]; intros f H x; [reflexivity|].
  inversion H; subst. rewrite !run_new_cons.
  rewrite <- IH by assumption. apply run_new_ext. intro y. apply upd_comm. congruence.
Qed.

Lemma chain_ok_notouch : forall a v w l f, Forall (fun e => eaddr e <> a) l ->
  chain_ok l (upd f a w) -> chain_ok l (upd f a v).
Proof.
  induction l as [|e l IH]; intros f H Hc; [exact I|].
  inversion H as [|? ? Ha Hl]; subst. destruct Hc as [Hc1 Hc2].
  split.
  - rewrite upd_other in * by assumption. assumption.
  - eapply chain_ok_ext; [intro y; symmetry; apply upd_comm; congruence|].
    apply IH; [assumption|].
    eapply chain_ok_ext; [|exact Hc2]. intro y. apply upd_comm. congruence.
Qed.

Lemma apply_set_new : forall l f x, apply_msgs f (map set_new l) x = run_new l f x.
Proof.
  induction l as [|e l IH]; intros f x; [reflexivity|].
  unfold apply_msgs. cbn [map fold_left]. apply IH.
Qed.

(* undoing the k newest applied events of a consistent chain gives the store
   of the shorter prefix *)
Lemma apply_set_old : forall k pre base f,
  chain_ok pre base -> (forall a, f a = run_new pre base a) -> (k <= length pre)%nat ->
  forall x, apply_msgs f (map set_old (firstn k (rev pre))) x =
            run_new (firstn (length pre - k) pre) base x.
Proof.
  induction k as [|k IH]; intros pre base f Hc Hf Hk x.
  - cbn [firstn map]. unfold apply_msgs. cbn [fold_left].
    rewrite Nat.sub_0_r, firstn_all. apply Hf.
  - destruct (rev pre) as [|e r] eqn:Er.
    { apply (f_equal (@length ev)) in Er. rewrite rev_length in Er. simpl in Er. lia. }
    assert (Ep : pre = rev r ++ [e]).
    { rewrite <- (rev_involutive pre). rewrite Er. reflexivity. }
    cbn [firstn map]. unfold apply_msgs. cbn [fold_left]. fold (apply_msgs (apply_msg f (set_old e)) (map set_old (firstn k r))).
    subst pre. rewrite app_length in *. cbn [length] in *.
    apply chain_ok_app in Hc. destruct Hc as [Hc1 [Hc2 _]].
    rewrite <- (rev_involutive r) at 1.
    rewrite (IH (rev r) base).
    + replace (length (rev r) + 1 - S k)%nat with (length (rev r) - k)%nat by lia.
      rewrite firstn_app. replace (length (rev r) - k - length (rev r))%nat with 0%nat by lia.
      cbn [firstn]. rewrite app_nil_r. reflexivity.
    + assumption.
    + intro a. cbn [apply_msg set_old]. unfold upd at 1.
      destruct (addr_eqb a (eaddr e)) eqn:E.
      * apply addr_eqb_eq in E. subst a. symmetry. exact Hc2.
      * rewrite Hf. rewrite run_new_app. unfold run_new at 1. cbn [fold_left].
        unfold upd. rewrite E. reflexivity.
    + lia.
Qed.

Lemma chain_base_value : forall l base a e,
  chain_ok l base -> find (fun e => addr_eqb (eaddr e) a) l = Some e -> base a = eold e.
Proof.
  induction l as [|x l IH]; intros base a e Hc Hf; [discriminate|].
  destruct Hc as [H1 H2]. cbn [find] in Hf.
  destruct (addr_eqb (eaddr x) a) eqn:E.
  - inversion Hf; subst. apply addr_eqb_eq in E. subst a. assumption.
  - rewrite <- (IH _ _ _ H2 Hf). rewrite upd_other; [reflexivity|].
    apply addr_eqb_neq in E. congruence.
Qed.

Lemma find_none_notouch : forall l a,
  find (fun e => addr_eqb (eaddr e) a) l = None -> Forall (fun e => eaddr e <> a) l.
Proof.
  induction l as [|x l IH]; intros a H; [constructor|].
  cbn [find] in H. destruct (addr_eqb (eaddr x) a) eqn:E; [discriminate|].
  constructor; [apply addr_eqb_neq; assumption|apply IH; assumption].
Qed.

Lemma run_new_latest : forall l f a, run_new l f a = value_latest l a (f a).
Proof.
  intros l. induction l as [|e l IH] using rev_ind; intros f a; [reflexivity|].
  rewrite run_new_app. unfold value_latest. rewrite rev_app_distr. cbn [rev app find].
  unfold run_new at 1. cbn [fold_left]. unfold upd.
  destruct (addr_eqb (eaddr e) a) eqn:E.
  - apply addr_eqb_eq in E. subst a. rewrite addr_eqb_refl. reflexivity.
  - assert (E' : addr_eqb a (eaddr e) = false).
    { apply addr_eqb_neq. apply addr_eqb_neq in E. congruence. }
    rewrite E'. apply IH.
Qed.

Lemma record_cases : forall a ty old nw s, pos_ok s -> time_inv s ->
  (exists l1 h l2, firstn (pos s) (hist s) = l1 ++ h :: l2 /\ eaddr h = a /\
      Forall (fun e => eaddr e <> a) l2 /\
      record a ty old nw s = mkH (l1 ++ merged (clock s) a ty nw h :: l2) (pos s) (clock s)) \/
  (let h2 := firstn (pos s) (hist s) ++ [mkEv (clock s) a ty old nw] in
   record a ty old nw s =
   if Nat.ltb max_history_size (length h2) then mkH (tl h2) (pos s) (clock s)
   else mkH h2 (S (pos s)) (clock s)).
Proof.
  intros a ty old nw s Hok [Hs Hb]. rewrite record_char by assumption.
  destruct (merge_scan _ _ _ _ _) as [l|] eqn:E; [left|right; reflexivity].
  apply merge_scan_some in E. destruct E as (l1 & h & l2 & E1 & Hr & Hn & ->).
  assert (Epre : firstn (pos s) (hist s) = rev l2 ++ h :: rev l1).
  { rewrite <- (rev_involutive (firstn (pos s) (hist s))). rewrite E1. rewrite rev_app_distr. simpl.
    rewrite <- app_assoc. reflexivity. }
  exists (rev l2), h, (rev l1). split; [assumption|]. split; [apply Hr|]. split.
  - eapply recent_is_newest with (l1 := rev l2); eauto.
    + rewrite <- Epre. apply sep_firstn. assumption.
    + apply Forall_rev. assumption.
  - rewrite rev_app_distr. simpl. rewrite <- app_assoc. reflexivity.
Qed.

Lemma e_change : forall f s a ty v, e_inv (f, s) -> f a <> v ->
  e_inv (upd f a v, record a ty (f a) v s).
Proof.
  intros f s a ty v (Hinv & base & Hc & Hf) Hne.
  pose proof Hinv as [[Hok Hsz] Ht].
  split; [apply (step_inv s (Record a ty (f a) v) _ [] Hinv I eq_refl)|].
  pose proof Hok as Hok'. unfold pos_ok in Hok'.
  assert (Hl : length (firstn (pos s) (hist s)) = pos s) by (rewrite firstn_length; lia).
  assert (Hcp : chain_ok (firstn (pos s) (hist s)) base).
  { rewrite <- (firstn_skipn (pos s) (hist s)) in Hc. apply chain_ok_app in Hc. tauto. }
  destruct (record_cases a ty (f a) v s Hok Ht) as [(l1 & h & l2 & Ep & Eh & Hn & ->)| ->].
  - exists base. cbn [hist pos]. rewrite Ep in Hcp, Hf, Hl.
    apply chain_ok_app in Hcp. destruct Hcp as [C1 [C2 C3]]. rewrite Eh in C2, C3.
    split.
    + apply chain_ok_app. split; [assumption|]. split; [exact C2|].
      cbn [merged eaddr enew]. eapply chain_ok_notouch; eauto.
    + intro x. rewrite firstn_all2 by (rewrite app_length in *; cbn [length] in *; lia).
      rewrite run_new_app, run_new_cons. cbn [merged eaddr enew].
      rewrite run_new_notouch_upd by assumption.
      specialize (Hf x). rewrite run_new_app, run_new_cons, Eh in Hf.
      rewrite run_new_notouch_upd in Hf by assumption.
      unfold upd in *. destruct (addr_eqb x a); [reflexivity|assumption].
  - cbn zeta.
    set (e := mkEv (clock s) a ty (f a) v).
    assert (C2 : chain_ok (firstn (pos s) (hist s) ++ [e]) base).
    { apply chain_ok_app. split; [assumption|]. split; [|exact I]. cbn [e eaddr eold]. symmetry. apply Hf. }
    assert (F2 : forall x, upd f a v x = run_new (firstn (pos s) (hist s) ++ [e]) base x).
    { intro x. rewrite run_new_app. unfold run_new at 1. cbn [fold_left e eaddr enew].
      apply upd_ext. assumption. }
    assert (L2 : length (firstn (pos s) (hist s) ++ [e]) = S (pos s)) by (rewrite app_length; simpl; lia).
    destruct (Nat.ltb _ _); cbn [hist pos].
    + destruct (firstn (pos s) (hist s) ++ [e]) as [|x0 t] eqn:E0; [discriminate|].
      exists (upd base (eaddr x0) (enew x0)). cbn [tl]. destruct C2 as [_ C2].
      split; [assumption|]. intro x. rewrite firstn_all2 by (simpl in L2; lia).
      rewrite F2. reflexivity.
    + exists base. split; [assumption|]. intro x. rewrite firstn_all2 by lia. apply F2.
Qed.

Lemma seek_cases : forall s k s' ms, pos_ok s -> seek k s = Some (s', ms) ->
  (exists n : nat, (n <= pos s)%nat /\ s' = mkH (hist s) (pos s - n) (clock s) /\
                   ms = map set_old (firstn n (applied_newest_first s))) \/
  (exists n : nat, (pos s + n <= length (hist s))%nat /\ s' = mkH (hist s) (pos s + n) (clock s) /\
                   ms = map set_new (firstn n (undone_oldest_first s))).
Proof.
  intros s k s' ms Hok H. rewrite seek_clamped in H by assumption.
  pose proof Hok as Hok'. unfold pos_ok in Hok'.
  remember (clamp_dist s k) as c eqn:Ec.
  assert (Hc : - Z.of_nat (pos s) <= c <= Z.of_nat (length (hist s)) - Z.of_nat (pos s))
    by (subst c; unfold clamp_dist; lia).
  clear Ec.
  destruct (Z_lt_le_dec c 0) as [Hneg|Hpos].
  - left. assert (E : c = - Z.of_nat (Z.to_nat (- c))) by lia. rewrite E in H.
    rewrite seek_back in H by (try assumption; lia). inversion H; subst.
    exists (Z.to_nat (- c)). split; [lia|]. split; reflexivity.
  - right. assert (E : c = Z.of_nat (Z.to_nat c)) by lia. rewrite E in H.
    rewrite seek_forward in H by (try assumption; lia). inversion H; subst.
    exists (Z.to_nat c). split; [lia|]. split; reflexivity.
Qed.

Lemma e_seek : forall f s k s' ms, e_inv (f, s) -> seek k s = Some (s', ms) ->
  e_inv (apply_msgs f ms, s').
Proof.
  intros f s k s' ms (Hinv & base & Hc & Hf) H.
  pose proof Hinv as [[Hok Hsz] Ht].
  pose proof (step_inv s (Seek k) s' ms Hinv I H) as Hinv'.
  pose proof Hok as Hok'. unfold pos_ok in Hok'.
  assert (Hl : length (firstn (pos s) (hist s)) = pos s) by (rewrite firstn_length; lia).
  assert (Hcp : chain_ok (firstn (pos s) (hist s)) base).
  { rewrite <- (firstn_skipn (pos s) (hist s)) in Hc. apply chain_ok_app in Hc. tauto. }
  destruct (seek_cases s k s' ms Hok H) as [(n & Hn & -> & ->)|(n & Hn & -> & ->)].
  - split; [assumption|]. exists base. cbn [hist pos]. split; [assumption|].
    intro x. unfold applied_newest_first.
    rewrite (apply_set_old n (firstn (pos s) (hist s)) base f Hcp Hf) by lia.
    rewrite Hl. rewrite firstn_firstn. rewrite Nat.min_l by lia. reflexivity.
  - split; [assumption|]. exists base. cbn [hist pos]. split; [assumption|].
    intro x. unfold undone_oldest_first. rewrite apply_set_new.
    rewrite <- (firstn_skipn (pos s) (hist s)) at 2.
    rewrite <- Hl at 2. rewrite firstn_app_2. rewrite run_new_app.
    apply run_new_ext. assumption.
Qed.

Lemma estep_inv : forall st o st' ms, e_inv st -> eop_ok o -> estep st o = Some (st', ms) -> e_inv st'.
Proof.
  intros [f s] o st' ms Hi Hop H. destruct o as [a ty v|k|d]; cbn [estep] in H.
  - destruct (f a =? v) eqn:E.
    + inversion H; subst. assumption.
    + inversion H; subst. apply e_change; [assumption|]. apply Z.eqb_neq. assumption.
  - destruct (seek k s) as [[s1 ms1]|] eqn:E; [|discriminate]. inversion H; subst.
    eapply e_seek; eauto.
  - inversion H; subst. destruct Hi as (Hinv & Hb).
    split; [apply (step_inv s (Tick d) _ [] Hinv Hop eq_refl)|]. assumption.
Qed.

Lemma estep_total : forall f s o, pos_ok s -> exists r, estep (f, s) o = Some r.
Proof.
  intros f s o Hok. destruct o as [a ty v|k|d]; cbn [estep].
  - destruct (f a =? v); eexists; reflexivity.
  - destruct (seek_total s k Hok) as [ms E]. rewrite E. eexists; reflexivity.
  - eexists; reflexivity.
Qed.

Lemma e_inv_init : forall f0, e_inv (f0, init).
Proof.
  intro f0. split; [apply inv_init|].
  exists f0. split; [exact I|]. intro a. reflexivity.
Qed.

Lemma erun_inv : forall ops st, e_inv st -> Forall eop_ok ops ->
  exists st', erun ops st = Some st' /\ e_inv st'.
Proof.
  induction ops as [|o ops IH]; intros st Hi Hops.
  - exists st. split; [reflexivity|assumption].
  - inversion Hops; subst. cbn [erun]. destruct st as [f s].
    destruct (estep_total f s o) as [[st1 ms] E]. { destruct Hi as [[[Hok _] _] _]. exact Hok. }
    rewrite E. apply IH; [|assumption]. eapply estep_inv; eauto.
Qed.

(* undoing everything retained returns every parameter to the value it had
   before its oldest retained change (parameters without a retained change keep
   their value); redoing everything returns the latest values *)
Lemma e_undo_all : forall f s, e_inv (f, s) ->
  exists f' s' ms, estep (f, s) (ESeek (- Z.of_nat (pos s))) = Some ((f', s'), ms) /\
    pos s' = 0%nat /\ hist s' = hist s /\
    forall a, f' a = value_before_oldest (hist s) a (f a).
Proof.
  intros f s Hi. pose proof Hi as (Hinv & base & Hc & Hf).
  pose proof Hinv as [[Hok Hsz] Ht].
  cbn [estep]. rewrite seek_back by (try assumption; lia).
  eexists _, _, _. split; [reflexivity|]. cbn [pos hist]. split; [lia|]. split; [reflexivity|].
  intro a.
  assert (Hcp : chain_ok (firstn (pos s) (hist s)) base).
  { rewrite <- (firstn_skipn (pos s) (hist s)) in Hc. apply chain_ok_app in Hc. tauto. }
  pose proof Hok as Hok'. unfold pos_ok in Hok'.
  assert (Hl : length (firstn (pos s) (hist s)) = pos s) by (rewrite firstn_length; lia).
  unfold applied_newest_first.
  rewrite (apply_set_old (pos s) (firstn (pos s) (hist s)) base f Hcp Hf) by lia.
  rewrite Hl, Nat.sub_diag. cbn [firstn]. unfold run_new. cbn [fold_left].
  unfold value_before_oldest.
  destruct (find (fun e => addr_eqb (eaddr e) a) (hist s)) as [e|] eqn:E.
  - exact (chain_base_value (hist s) base a e Hc E).
  - apply find_none_notouch in E. rewrite Hf. symmetry. apply run_new_notouch.
    apply Forall_firstn. assumption.
Qed.

Lemma e_redo_all : forall f s, e_inv (f, s) ->
  exists f' s' ms,
    estep (f, s) (ESeek (Z.of_nat (length (hist s) - pos s))) = Some ((f', s'), ms) /\
    pos s' = length (hist s) /\ hist s' = hist s /\
    forall a, f' a = value_latest (hist s) a (f a).
Proof.
  intros f s Hi. pose proof Hi as (Hinv & base & Hc & Hf).
  pose proof Hinv as [[Hok Hsz] Ht]. pose proof Hok as Hok'. unfold pos_ok in Hok'.
  cbn [estep]. rewrite seek_forward by (try assumption; lia).
  eexists _, _, _. split; [reflexivity|]. cbn [pos hist]. split; [lia|]. split; [reflexivity|].
  intro a. unfold undone_oldest_first.
  rewrite firstn_all2 by (rewrite skipn_length; lia).
  rewrite apply_set_new.
  assert (Hl : length (firstn (pos s) (hist s)) = pos s) by (rewrite firstn_length; lia).
  (* f = run_new pre base, so run_new post f = run_new hist base; its value at a
     is the latest new value for a in hist, or base a = f a if a is untouched *)
  assert (E1 : run_new (skipn (pos s) (hist s)) f a = run_new (hist s) base a).
  { rewrite <- (firstn_skipn (pos s) (hist s)) at 2. rewrite run_new_app.
    apply run_new_ext. assumption. }
  rewrite E1. rewrite run_new_latest. unfold value_latest.
  destruct (find (fun e => addr_eqb (eaddr e) a) (rev (hist s))) as [e|] eqn:E; [reflexivity|].
  apply find_none_notouch in E. apply Forall_rev in E. rewrite rev_involutive in E.
  rewrite Hf. symmetry. apply run_new_notouch. apply Forall_firstn. assumption.
Qed.

(* over whole end-to-end histories *)
Lemma e2e_undo_redo : forall ops f0, Forall eop_ok ops ->
  exists f s, erun ops (f0, init) = Some (f, s) /\
    (exists f' s' ms, estep (f, s) (ESeek (- Z.of_nat (pos s))) = Some ((f', s'), ms) /\
       pos s' = 0%nat /\ forall a, f' a = value_before_oldest (hist s) a (f a)) /\
    (exists f' s' ms, estep (f, s) (ESeek (Z.of_nat (length (hist s) - pos s))) = Some ((f', s'), ms) /\
       pos s' = length (hist s) /\ forall a, f' a = value_latest (hist s) a (f a)).
Proof.
  intros ops f0 Hops.
  destruct (erun_inv ops (f0, init) (e_inv_init f0) Hops) as ([f s] & E & Hi).
  exists f, s. split; [assumption|]. split.
  - destruct (e_undo_all f s Hi) as (f' & s' & ms & H1 & H2 & _ & H3). eauto 8.
  - destruct (e_redo_all f s Hi) as (f' & s' & ms & H1 & H2 & _ & H3). eauto 8.
Qed.

(* ======================================================================== *)
(* non-vacuity                                                                *)
(* ======================================================================== *)
Definition ex_A : addr := [47; 97].
Definition ex_B : addr := [47; 98].
(* A, B, one second, A (merges past B), two seconds: /a is still recent and is
   not the newest event *)
Definition ex_ops : list op :=
  [Record ex_A 105 0 1; Record ex_B 105 0 5; Tick 1; Record ex_A 105 1 2; Tick 2].

Lemma merge_nonvacuous :
  exists s mss, Forall op_ok ex_ops /\ run ex_ops init = Some (s, mss) /\
    Exists (recent (clock s) ex_A) (firstn (pos s) (hist s)) /\
    hist s = [mkEv 1001 ex_A 105 0 2; mkEv 1000 ex_B 105 0 5] /\
    hist (record ex_A 105 2 3 s) = [mkEv 1003 ex_A 105 0 3; mkEv 1000 ex_B 105 0 5].
Proof.
  eexists _, _. split; [|split; [vm_compute; reflexivity|]].
  - repeat constructor; simpl; lia.
  - split; [|split; reflexivity].
    apply Exists_cons_hd. split; [reflexivity|]. vm_compute. discriminate.
Qed.

Definition ex_eops : list eop :=
  [Change ex_A 105 7; ETick 5; Change ex_B 105 3; Change ex_A 105 9; ESeek (-1)].

Lemma e2e_nonvacuous :
  Forall eop_ok ex_eops /\
  exists f s, erun ex_eops (zero_store, init) = Some (f, s) /\
    pos s = 2%nat /\ length (hist s) = 3%nat /\ f ex_A = 7 /\ f ex_B = 3.
Proof.
  split.
  - repeat constructor; simpl; lia.
  - eexists _, _. split; [vm_compute; reflexivity|]. repeat split; reflexivity.
Qed.
