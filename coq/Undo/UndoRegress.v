(* C15 - regression witness for D13: mergeEvent as it was before the repair
   (the scan stopped at the first entry older than two seconds).  Kept so
   that the refutation of the merge clause for the old code stays checked. *)
From Coq Require Import List ZArith Bool Lia.
From RtoscV Require Import Undo.UndoModel Undo.UndoProofs.
Import ListNotations.
Local Open Scope Z_scope.

Fixpoint merge_scan_old (now : Z) (a : addr) (ty nw : Z) (l : list ev) : option (list ev) :=
  match l with
  | [] => None
  | h :: t =>
      if now - etime h >? 2 then None                  (* break *)
      else if addr_eqb a (eaddr h) then Some (mkEv now a ty (eold h) nw :: t)
      else match merge_scan_old now a ty nw t with Some t' => Some (h :: t') | None => None end
  end.

Definition record_old (a : addr) (ty old nw : Z) (s : hstate) : hstate :=
  let h1 := if Nat.eqb (length (hist s)) (pos s) then hist s else firstn (pos s) (hist s) in
  let now := clock s in
  match (if Nat.eqb (pos s) 0 then None
         else merge_scan_old now a ty nw (rev (firstn (pos s) h1))) with
  | Some l => mkH (rev l ++ skipn (pos s) h1) (pos s) now
  | None =>
      let h2 := h1 ++ [mkEv now a ty old nw] in
      let p2 := S (pos s) in
      if Nat.ltb max_history_size (length h2)
      then mkH (tl h2) (Nat.pred p2) now
      else mkH h2 p2 now
  end.

Definition tick (d : Z) (s : hstate) : hstate := mkH (hist s) (pos s) (clock s + d).

Definition A : addr := [47; 97].
Definition B : addr := [47; 98].

(* A@0 B@0 A@1, then two seconds pass *)
Definition d13_state : hstate :=
  tick 2 (record_old A 105 1 2 (tick 1 (record_old B 105 0 5 (record_old A 105 0 1 init)))).

(* the event of /a was recorded two seconds ago, yet recording /a again
   appends a second event for /a instead of merging *)
Lemma merge_old_refuted :
  Exists (recent (clock d13_state) A) (firstn (pos d13_state) (hist d13_state)) /\
  length (hist (record_old A 105 2 3 d13_state)) = S (length (hist d13_state)) /\
  ~ sep (hist (record_old A 105 2 3 d13_state)).
Proof.
  split; [|split].
  - vm_compute. apply Exists_cons_hd. split; [reflexivity|discriminate].
  - vm_compute. reflexivity.
  - assert (E : hist (record_old A 105 2 3 d13_state) =
                [mkEv 1001 A 105 0 2; mkEv 1000 B 105 0 5; mkEv 1003 A 105 2 3])
      by (vm_compute; reflexivity).
    rewrite E. cbn [sep]. intros [H _]. inversion H as [|? ? _ H2]. inversion H2 as [|? ? H3 _].
    specialize (H3 eq_refl). cbn [etime] in H3. lia.
Qed.

(* the repaired scan merges on the same history *)
Lemma merge_fixed_on_witness :
  hist (record A 105 2 3 d13_state) =
  [mkEv 1003 A 105 0 3; mkEv 1000 B 105 0 5].
Proof. vm_compute. reflexivity. Qed.

(* ---- long addresses: rewind / replay with the fixed 256-byte buffer --------- *)
(* before the repair: rtosc_amessage(tmp, 256, ...) fails for a set-message
   longer than 256 bytes; rewind then handed the zeroed buffer (an empty
   message) to the callback, replay skipped the callback *)
Inductive msg_old := SetMsgOld (a : addr) (ty : Z) (v : Z) | EmptyMsgOld.

(* size of "<addr> ,<t> <4 bytes>" as vsosc_null computes it *)
Definition set_len (a : addr) : Z :=
  let l := Z.of_nat (length a) in (l + (4 - l mod 4)) + 4 + 4.
Definition fits (a : addr) : bool := set_len a <=? 256.

Definition rewind_old (e : ev) : list msg_old :=
  if fits (eaddr e) then [SetMsgOld (eaddr e) (ety e) (eold e)] else [EmptyMsgOld].
Definition replay_old (e : ev) : list msg_old :=
  if fits (eaddr e) then [SetMsgOld (eaddr e) (ety e) (enew e)] else [].

(* "/" followed by 247 'L': 248 bytes, set-message 260 bytes *)
Definition long_addr : addr := 47 :: repeat 76 247.
Definition long_ev : ev := mkEv 1000 long_addr 105 1 2.

Lemma long_address_refuted :
  set_len long_addr = 260 /\
  rewind_old long_ev = [EmptyMsgOld] /\ replay_old long_ev = [] /\
  (* the repaired functions deliver the set-messages *)
  rewind long_ev = [SetMsg long_addr 105 1] /\ replay long_ev = [SetMsg long_addr 105 2].
Proof. vm_compute. repeat split; reflexivity. Qed.
