(* C15 - totality of the end-to-end model on the quantifier's histories: a set
   message of [pop_ok] never makes [pstep] undefined (no callback reads outside
   its field or meets an argument its specification does not promise, every
   "/undo_change" it emits is recordable), seeks and clock steps never do; so
   [prun] of such a history from a well-formed table is defined and the
   theorems conditional on "prun ... = Some" speak about every such history. *)
From Coq Require Import List ZArith Bool Lia.
From RtoscV Require Import Ports.SugarModel Ports.SugarProofs Ports.SugarReplay.
From RtoscV Require Import Undo.UndoModel Undo.UndoProofs Undo.UndoPortsModel Undo.UndoPortsProofs.
Import ListNotations.
Local Open Scope Z_scope.

(* the element an address names lies inside the field *)
Lemma idx_in_range : forall c path idx,
  indexed (pk c) = true -> p_hash (pe c) = indexed (pk c) -> addr_match c path = Some idx ->
  (Z.to_nat (boils_idx (pe c) path) < Z.to_nat (pn c))%nat.
Proof.
  intros c path idx Ei Hh H. destruct (addr_match_facts c path idx H) as [Ep Hi].
  rewrite Ei in Hi, Hh. destruct Hi as (d & r & Ed & Hd & Hlt).
  unfold boils_idx. rewrite Hh, Ep, skipn_length_app. subst idx. cbn [skip_nondigit]. rewrite Hd.
  pose proof (atoi_acc_nonneg (d :: r) 0 ltac:(lia)). lia.
Qed.

Lemma nth_error_lt : forall (A : Type) (l : list A) i, (i < length l)%nat -> exists x, nth_error l i = Some x.
Proof.
  intros A l i H. destruct (nth_error l i) as [x|] eqn:E; [exists x; reflexivity|].
  apply nth_error_None in E. lia.
Qed.

(* a matching port's callback is defined on every message of its specification *)
Lemma step_defined : forall c st path idx args,
  port_ok c -> contents_ok (c, st) -> addr_match c path = Some idx ->
  in_spec (pk c) args = true ->
  exists st' o, SugarModel.step (pk c) (pe c) (47 :: path) path st args = Some (st', o).
Proof.
  intros c st path idx args (Hkind & _ & _ & _ & Hh & _) [Hlen Hgood] Ha Hs.
  cbn [fst snd] in Hlen, Hgood.
  assert (ONE : cell_len c = 1%nat -> exists v, st = [v]).
  { intro E. rewrite E in Hlen. destruct st as [|v [|w r]]; try discriminate. exists v. reflexivity. }
  assert (ELT : indexed (pk c) = true -> cell_len c = Z.to_nat (pn c) ->
                exists cur, nth_error st (Z.to_nat (boils_idx (pe c) path)) = Some cur).
  { intros Ei El. apply nth_error_lt. rewrite Hlen, El. exact (idx_in_range c path idx Ei Hh Ha). }
  unfold cell_len in ONE, ELT.
  destruct (pk c) eqn:K; cbn [SugarModel.step];
    try (destruct Hkind as [Hk|[Hk|[Hk|[l Hk]]]]; discriminate).
  - (* KP *) destruct (ONE eq_refl) as [v ->]. destruct args as [|a [|b r]]; try discriminate.
    + eexists _, _. reflexivity.
    + destruct a; try discriminate. eexists _, _. reflexivity.
  - (* KF *) destruct (ONE eq_refl) as [v ->]. destruct args as [|a [|b r]]; try discriminate.
    + eexists _, _. reflexivity.
    + destruct a; try discriminate. eexists _, _. reflexivity.
  - (* KI *) destruct (ONE eq_refl) as [v ->]. destruct args as [|a [|b r]]; try discriminate.
    + eexists _, _. reflexivity.
    + destruct a; try discriminate. eexists _, _. reflexivity.
  - (* KO *) destruct (ONE eq_refl) as [v ->]. destruct args as [|a [|b r]]; try discriminate.
    + eexists _, _. reflexivity.
    + destruct a; try discriminate; eexists _, _; reflexivity.
  - (* KT *) destruct (ONE eq_refl) as [v ->]. destruct args as [|a [|b r]]; try discriminate.
    + eexists _, _. reflexivity.
    + destruct a; try discriminate; cbn [scalar rToggleCb arg_T]; destruct (negb _); eexists _, _; reflexivity.
  - (* KAI *) destruct (ELT eq_refl eq_refl) as [cur En]. unfold rArrayICb, at_idx. rewrite En.
    destruct args as [|a [|b r]]; try discriminate.
    + eexists _, _. reflexivity.
    + destruct a; try discriminate. eexists _, _. reflexivity.
  - (* KAF *) destruct (ELT eq_refl eq_refl) as [cur En]. unfold rArrayFCb, at_idx. rewrite En.
    destruct args as [|a [|b r]]; try discriminate.
    + eexists _, _. reflexivity.
    + destruct a; try discriminate. eexists _, _. reflexivity.
  - (* KAO *) destruct (ELT eq_refl eq_refl) as [cur En]. unfold rArrayOptionCb, at_idx. rewrite En.
    destruct args as [|a [|b r]]; try discriminate.
    + eexists _, _. reflexivity.
    + destruct a; try discriminate; eexists _, _; reflexivity.
  - (* KAT *) destruct (ELT eq_refl eq_refl) as [cur En]. unfold rArrayTCb, at_idx. rewrite En.
    destruct args as [|a [|b r]]; try discriminate.
    + eexists _, _. reflexivity.
    + destruct a; try discriminate; eexists _, _; reflexivity.
  - (* KPS *) destruct args as [|a [|b r]]; [| destruct a; discriminate | discriminate]. unfold rParamsCb.
    destruct (Z.of_nat (length st) <? len) eqn:E; [|eexists _, _; reflexivity].
    apply Z.ltb_lt in E. rewrite Hlen in E. unfold cell_len in E. rewrite K in E. lia.
  - (* KCO *) destruct (Hgood eq_refl) as (v & n & -> & _).
    destruct args as [|a [|b r]]; try discriminate.
    + eexists _, _. reflexivity.
    + destruct a; try discriminate; eexists _, _; reflexivity.
Qed.

(* ---- a set message of the quantifier is always executed ---- *)
Lemma pset_total : forall ps U t s path args,
  table_ok ps -> one_spelling ps U -> pinv ps U (t, s) -> pop_ok ps U (PSet path args) ->
  exists st' n, pstep (t, s) (PSet path args) = Some (st', [], n).
Proof.
  intros ps U t s path args [Hpo Hun] H1s (Hps & Hcells & Hei & Hev) (Hm & Hloc & Hconf).
  cbn [fst snd] in Hps, Hcells, Hei, Hev. cbn [pstep].
  assert (Hu : uniq (ports t)) by (rewrite Hps; exact Hun).
  destruct (locate t path Hu) as [Hn|t1 c st t2 Et Ho Hn1 Hn2].
  - rewrite (dispatch_miss t path args Hn). cbn [record_outs]. eexists _, _. reflexivity.
  - subst t. rewrite (dispatch_here t1 c st t2 path args Hn1 Hn2).
    destruct (port_match c path args) eqn:PM; [|cbn [record_outs]; eexists _, _; reflexivity].
    assert (Hin : In c ps).
    { rewrite <- Hps. unfold ports. rewrite map_app. apply in_or_app. right. left. reflexivity. }
    assert (Hpc : port_ok c) by (rewrite Forall_forall in Hpo; exact (Hpo c Hin)).
    assert (Hcc : contents_ok (c, st)).
    { unfold cells_ok in Hcells. apply Forall_app in Hcells. destruct Hcells as [_ Hc2]. inversion Hc2; assumption. }
    unfold owns in Ho. destruct (addr_match c path) as [idx|] eqn:Ha; [|discriminate].
    assert (Hsp : in_spec (pk c) args = true).
    { unfold port_match in PM. rewrite Ha in PM. exact PM. }
    destruct (step_defined c st path idx args Hpc Hcc Ha Hsp) as (st' & o & ST). rewrite ST.
    destruct (undoable (pk c)) eqn:Hund.
    + destruct (Hconf c Hin PM Hund) as [Hcf Hca].
      destruct (cell_set c st path idx args st' o s Hpc Hcc Hund Ha Hcf Hca Hloc ST)
        as (old & new & _ & _ & _ & _ & _ & _ & Rec & _).
      rewrite Rec. eexists _, _. reflexivity.
    + destruct Hpc as (Hkind & _).
      destruct Hkind as [Hk|Hk]; [rewrite Hk in Hund; discriminate|].
      destruct (plain_step (pk c) (pe c) (47 :: path) path st args st' o Hk Hloc ST) as [Ue _].
      rewrite record_outs_undo, Ue. cbn [record_outs]. eexists _, _. reflexivity.
Qed.

(* every operation of the quantifier is executed and keeps the invariant *)
Lemma pstep_total : forall ps U st o,
  table_ok ps -> one_spelling ps U -> pinv ps U st -> pop_ok ps U o ->
  exists st' ms n, pstep st o = Some (st', ms, n) /\ pinv ps U st'.
Proof.
  intros ps U [t s] o Ht H1s Hi Ho.
  assert (E : exists st' ms n, pstep (t, s) o = Some (st', ms, n)).
  { destruct o as [path args|k|d].
    - destruct (pset_total ps U t s path args Ht H1s Hi Ho) as (st' & n & E). eexists _, _, _. exact E.
    - destruct (pseek_inv ps U t s k Ht H1s Hi) as (t1 & s1 & ms1 & E & _). eexists _, _, _. exact E.
    - cbn [pstep]. eexists _, _, _. reflexivity. }
  destruct E as (st' & ms & n & E). exists st', ms, n. split; [exact E|].
  exact (pstep_inv ps U (t, s) o st' ms n Ht H1s Hi Ho E).
Qed.

Lemma prun_total : forall ps U ops st,
  table_ok ps -> one_spelling ps U -> pinv ps U st -> Forall (pop_ok ps U) ops ->
  exists st', prun ops st = Some st' /\ pinv ps U st'.
Proof.
  intros ps U ops. induction ops as [|o r IH]; intros st Ht H1s Hi Hops.
  - exists st. split; [reflexivity|exact Hi].
  - inversion Hops as [|? ? Ho Hr]; subst. cbn [prun].
    destruct (pstep_total ps U st o Ht H1s Hi Ho) as (st1 & ms & n & E & Hi1). rewrite E.
    exact (IH st1 Ht H1s Hi1 Hr).
Qed.

(* from a well-formed table: every history of the quantifier runs *)
Lemma prun_total_init : forall ps U t0 ops,
  table_ok ps -> one_spelling ps U -> ports t0 = ps -> cells_ok t0 -> Forall (pop_ok ps U) ops ->
  exists t s, prun ops (t0, init) = Some (t, s) /\ pinv ps U (t, s).
Proof.
  intros ps U t0 ops Ht H1s Hp Hc Hops.
  destruct (prun_total ps U ops (t0, init) Ht H1s (pinv_init ps U t0 Hp Hc) Hops) as ([t s] & E & Hi).
  exists t, s. split; assumption.
Qed.
