(* C15 - end-to-end histories through C14's parameter ports.

   The application is a table of macro-generated ports (Ports/SugarModel.v:
   one callback model per macro of include/rtosc/port-sugar.h) with the
   contents of their fields.  A set message is dispatched to every port whose
   name and argument specification it matches (Ports::dispatch calls all of
   them, in table order); what the callbacks pass to
   reply("/undo_change", "s<t><t>", loc, old, new) is recorded by the history
   (Undo/UndoModel.v), in program order.  A seek hands the history's
   set-messages "<addr> ,<t> v" back to the same dispatch with recording
   disabled (harness/h_C15.cpp, as test/undo-test.cpp does): a message whose
   type tag is not in the port's argument specification reaches no port.

   Integer payloads are signed here (as in SugarModel), floats are binary32
   bit patterns; the driver prints both as 32-bit patterns.

   No proofs in this file. *)
From Coq Require Import List ZArith Bool.
From RtoscV Require Import Ports.SugarModel Undo.UndoModel.
Import ListNotations.
Local Open Scope Z_scope.

(* a port: callback kind, what the callback reads from its metadata, and the
   N of "name#N" (array kinds) *)
Record port := mkPort { pk : kind; pe : penv; pn : Z }.
Notation cell := (port * list Z)%type (only parsing).   (* a port and the contents of its field *)
Notation table := (list (port * list Z)) (only parsing).

(* the text behind the port's name, None if the path does not begin with it *)
Fixpoint strip_prefix (p s : str) : option str :=
  match p, s with
  | [], _ => Some s
  | x :: p', y :: s' => if x =? y then strip_prefix p' s' else None
  | _ :: _, [] => None
  end.

(* rtosc_match(port.name, m): "name::spec" matches the name alone, "name#N::spec"
   the name followed by a decimal number below N; the message's type tags
   must be one of the alternatives of the specification (SugarModel.in_spec) *)
Definition addr_match (c : port) (path : str) : option str :=
  match strip_prefix (p_name (pe c)) path with
  | Some idxtext =>
    if forallb is_digit idxtext && dispatch_guard (pk c) (pn c) idxtext [] then Some idxtext else None
  | None => None
  end.
Definition port_match (c : port) (path : str) (args : list arg) : bool :=
  match addr_match c path with
  | Some _ => in_spec (pk c) args
  | None => false
  end.

(* Ports::dispatch(m, d, true) on a table of leaf ports: every matching port's
   callback runs, data.loc = "/" ++ the matched part of the message; result:
   the table afterwards, what the callbacks emitted, d.matches *)
Fixpoint dispatch (t : table) (path : str) (args : list arg) : option (table * list out * Z) :=
  match t with
  | [] => Some ([], [], 0)
  | (c, st) :: r =>
    if port_match c path args then
      match SugarModel.step (pk c) (pe c) (47 :: path) path st args with
      | None => None
      | Some (st', o) =>
        match dispatch r path args with
        | None => None
        | Some (r', o', n) => Some ((c, st') :: r', o ++ o', n + 1)
        end
      end
    else
      match dispatch r path args with
      | None => None
      | Some (r', o', n) => Some ((c, st) :: r', o', n)
      end
  end.

(* RtData::reply(path, args, ...) of the application: "/undo_change" goes to
   UndoHistory::recordEvent, everything else is dropped.  The history model
   stores (address, one type tag, old, new): an "/undo_change" of any other
   shape is not representable (None) *)
Definition record_out (s : hstate) (o : out) : option hstate :=
  match o with
  | Reply m =>
    if str_eqb (o_path m) undo_path then
      match o_args m with
      | [As l; a; b] =>
        match arg_val a, arg_val b with
        | Some x, Some y => if tag a =? tag b then Some (record l (tag a) x y s) else None
        | _, _ => None
        end
      | _ => None
      end
    else Some s
  | Bcast _ => Some s
  end.

Fixpoint record_outs (s : hstate) (os : list out) : option hstate :=
  match os with
  | [] => Some s
  | o :: r => match record_out s o with Some s' => record_outs s' r | None => None end
  end.

(* the argument of a set-message built by rewind / replay *)
Definition arg_of (ty v : Z) : option arg :=
  if ty =? 105 then Some (Ai v) else if ty =? 99 then Some (Ac v)
  else if ty =? 102 then Some (Af v) else None.

(* the history's callback: dispatch the set-message, recording disabled;
   result: the table and the number of ports reached *)
Fixpoint replay_msgs (t : table) (ms : list msg) : option (table * Z) :=
  match ms with
  | [] => Some (t, 0)
  | SetMsg a ty v :: r =>
    match a, arg_of ty v with
    | 47 :: path, Some x =>
      match dispatch t path [x] with
      | Some (t', _, n) =>
        match replay_msgs t' r with
        | Some (t'', n') => Some (t'', n + n')
        | None => None
        end
      | None => None
      end
    | _, _ => None      (* no address / a payload type no port emits: not representable *)
    end
  end.

Inductive pop :=
| PSet (path : str) (args : list arg)     (* a message "/<path>" with these arguments arrives *)
| PSeek (k : Z)
| PTick (d : Z).

(* one operation: state afterwards, the history's messages, ports reached *)
Definition pstep (st : table * hstate) (o : pop) : option ((table * hstate) * list msg * Z) :=
  let (t, s) := st in
  match o with
  | PSet path args =>
    match dispatch t path args with
    | Some (t', outs, n) =>
      match record_outs s outs with
      | Some s' => Some ((t', s'), [], n)
      | None => None
      end
    | None => None
    end
  | PSeek k =>
    match seek k s with
    | Some (s', ms) =>
      match replay_msgs t ms with
      | Some (t', n) => Some ((t', s'), ms, n)
      | None => None
      end
    | None => None
    end
  | PTick d => Some ((t, mkH (hist s) (pos s) (clock s + d)), [], 0)
  end.

Fixpoint prun (ops : list pop) (st : table * hstate) : option (table * hstate) :=
  match ops with
  | [] => Some st
  | o :: r => match pstep st o with Some (st', _, _) => prun r st' | None => None end
  end.

(* the plain history step under a name of its own (SugarModel has a [step] too) *)
Definition hstep : hstate -> UndoModel.op -> option (hstate * list msg) := UndoModel.step.
