(* C15 - the end-to-end model through C14's ports (Undo/UndoPortsModel.v)
   refines the abstract application of Undo/UndoModel.v (a store address ->
   value, [estep]): what the ports record is what [Change] records, what a seek
   does to the fields of the ports is what [apply_msgs] does to the store.
   The link is C14's contract of one set message (Ports/SugarReplay.v:
   [step_slot_facts] - the event carries the address, the old and the new
   value with the port's own argument type; a replayed value is stored as it
   is).  With it the undo-all / redo-all theorem of the abstract application
   holds of the fields of the ports. *)
From Coq Require Import List ZArith Bool Lia.
From RtoscV Require Import Ports.SugarModel Ports.SugarProofs Ports.SugarReplay.
From RtoscV Require Import Undo.UndoModel Undo.UndoProofs Undo.UndoPortsModel.
Import ListNotations.
Local Open Scope Z_scope.

(* ---- well-formed tables ---- *)
Definition undoable (k : kind) : bool :=
  match k with KP | KI | KF | KO | KAI | KAF | KAO | KCO => true | _ => false end.

Lemma undoable_kind : forall k, undoable k = true -> undo_kind k.
Proof.
  intros k H. unfold undo_kind, numeric_kind.
  destruct k; try discriminate; tauto.
Qed.

(* on these float patterns the ports' "!=" is inequality of the bit patterns:
   ordered (val_ok), not -0.0, counted from 0 *)
Definition canon (k : kind) (v : Z) : Prop :=
  match k with KF | KAF => 0 <= v /\ v <> 2147483648 | _ => True end.
Definition good (c : port) (v : Z) : Prop := stable (pe c) (pk c) v /\ canon (pk c) v.

Definition cell_len (c : port) : nat :=
  match pk c with
  | KAI | KAF | KAO | KAT => Z.to_nat (pn c)
  | KPS len => Z.to_nat len
  | KCO => 2%nat
  | _ => 1%nat
  end.

Definition port_ok (c : port) : Prop :=
  let k := pk c in let e := pe c in
  (undoable k = true \/ k = KT \/ k = KAT \/ exists len, k = KPS len) /\
  env_ok e k /\ bounds_ordered (kind_key k) (p_min e) (p_max e) /\ map_in_range e /\
  p_hash e = indexed k /\
  (forall b, p_min e = Some b -> canon k b) /\ (forall b, p_max e = Some b -> canon k b).

Definition contents_ok (c : cell) : Prop :=
  length (snd c) = cell_len (fst c) /\
  (undoable (pk (fst c)) = true ->
   match pk (fst c) with
   | KCO => exists v n, snd c = [v; n] /\ good (fst c) v
   | _ => Forall (good (fst c)) (snd c)
   end).

Definition owns (c : port) (path : str) : bool :=
  match addr_match c path with Some _ => true | None => false end.

(* no two ports of the table answer the same address *)
Fixpoint uniq (ps : list port) : Prop :=
  match ps with
  | [] => True
  | c :: r => (forall path, owns c path = true -> forallb (fun c' => negb (owns c' path)) r = true) /\ uniq r
  end.

Definition ports (t : table) : list port := map fst t.

(* ---- the abstract store of a table ---- *)
Definition idx_of (k : kind) (idxtext : str) : nat :=
  if indexed k then Z.to_nat (atoi_acc 0 idxtext) else 0%nat.

Definition cell_value (c : cell) (path : str) : option Z :=
  match addr_match (fst c) path with
  | Some idxtext =>
    if undoable (pk (fst c)) then nth_error (snd c) (idx_of (pk (fst c)) idxtext) else None
  | None => None
  end.

Fixpoint lookup (t : table) (path : str) : option Z :=
  match t with
  | [] => None
  | c :: r => if owns (fst c) path then cell_value c path else lookup r path
  end.

Fixpoint mem (p : str) (U : list str) : bool :=
  match U with [] => false | q :: r => str_eqb p q || mem p r end.

(* the value at an address, for the spellings in U (the addresses a history uses) *)
Definition abs (U : list str) (t : table) : store :=
  fun a => match a with
           | c :: path => if (c =? 47) && mem path U
                          then match lookup t path with Some v => v | None => 0 end else 0
           | [] => 0
           end.

(* one spelling per element: two addresses of U that one port answers name different entries *)
Definition one_spelling (ps : list port) (U : list str) : Prop :=
  forall c p p' i i', In c ps -> In p U -> In p' U ->
    addr_match c p = Some i -> addr_match c p' = Some i' ->
    idx_of (pk c) i = idx_of (pk c) i' -> p = p'.

(* ---- dispatch on a table without shared addresses ---- *)
Lemma port_match_owns : forall c path args, port_match c path args = true -> owns c path = true.
Proof. intros c path args H. unfold port_match in H. unfold owns. destruct (addr_match c path); [reflexivity|discriminate]. Qed.

Lemma dispatch_miss : forall t path args,
  forallb (fun c' => negb (owns c' path)) (ports t) = true ->
  dispatch t path args = Some (t, [], 0).
Proof.
  induction t as [|[c st] r IH]; intros path args H; [reflexivity|].
  cbn [ports map forallb fst] in H. apply andb_true_iff in H. destruct H as [H1 H2].
  cbn [dispatch]. destruct (port_match c path args) eqn:E.
  - apply port_match_owns in E. rewrite E in H1. discriminate.
  - rewrite (IH path args H2). reflexivity.
Qed.

Lemma lookup_miss : forall t path,
  forallb (fun c' => negb (owns c' path)) (ports t) = true -> lookup t path = None.
Proof.
  induction t as [|[c st] r IH]; intros path H; [reflexivity|].
  cbn [ports map forallb fst] in H. apply andb_true_iff in H. destruct H as [H1 H2].
  cbn [lookup fst]. destruct (owns c path); [discriminate|]. apply IH. exact H2.
Qed.

(* the one cell that answers the address, if any *)
Inductive located (t : table) (path : str) : Prop :=
| Nowhere : forallb (fun c' => negb (owns c' path)) (ports t) = true -> located t path
| Here : forall t1 c st t2, t = t1 ++ (c, st) :: t2 -> owns c path = true ->
    forallb (fun c' => negb (owns c' path)) (ports t1) = true ->
    forallb (fun c' => negb (owns c' path)) (ports t2) = true -> located t path.

Lemma locate : forall t path, uniq (ports t) -> located t path.
Proof.
  induction t as [|[c st] r IH]; intros path Hu; [apply Nowhere; reflexivity|].
  cbn [ports map fst uniq] in Hu. destruct Hu as [Hc Hr].
  destruct (owns c path) eqn:E.
  - apply (Here _ _ [] c st r); [reflexivity|exact E|reflexivity|]. apply Hc. exact E.
  - destruct (IH path Hr) as [Hn|t1 c' st' t2 Et Ho H1 H2].
    + apply Nowhere. cbn [ports map forallb fst]. rewrite E. exact Hn.
    + apply (Here _ _ ((c, st) :: t1) c' st' t2); [rewrite Et; reflexivity|exact Ho| |exact H2].
      cbn [ports map forallb fst]. rewrite E. exact H1.
Qed.

Lemma dispatch_here : forall t1 c st t2 path args,
  forallb (fun c' => negb (owns c' path)) (ports t1) = true ->
  forallb (fun c' => negb (owns c' path)) (ports t2) = true ->
  dispatch (t1 ++ (c, st) :: t2) path args =
  if port_match c path args then
    match SugarModel.step (pk c) (pe c) (47 :: path) path st args with
    | Some (st', o) => Some (t1 ++ (c, st') :: t2, o, 1)
    | None => None
    end
  else Some (t1 ++ (c, st) :: t2, [], 0).
Proof.
  induction t1 as [|[c1 s1] r IH]; intros c st t2 path args H1 H2.
  - cbn [app dispatch]. rewrite (dispatch_miss t2 path args H2).
    destruct (port_match c path args); [|reflexivity].
    destruct (SugarModel.step (pk c) (pe c) (47 :: path) path st args) as [[st' o]|]; [|reflexivity].
    rewrite app_nil_r. reflexivity.
  - cbn [ports map forallb fst] in H1. apply andb_true_iff in H1. destruct H1 as [Ha Hb].
    cbn [app dispatch]. destruct (port_match c1 path args) eqn:E.
    + apply port_match_owns in E. rewrite E in Ha. discriminate.
    + rewrite (IH c st t2 path args Hb H2).
      destruct (port_match c path args); [|reflexivity].
      destruct (SugarModel.step (pk c) (pe c) (47 :: path) path st args) as [[st' o]|]; reflexivity.
Qed.

Lemma lookup_here : forall t1 c st t2 path,
  forallb (fun c' => negb (owns c' path)) (ports t1) = true -> owns c path = true ->
  lookup (t1 ++ (c, st) :: t2) path = cell_value (c, st) path.
Proof.
  induction t1 as [|[c1 s1] r IH]; intros c st t2 path H1 Ho.
  - cbn [app lookup fst]. rewrite Ho. reflexivity.
  - cbn [ports map forallb fst] in H1. apply andb_true_iff in H1. destruct H1 as [Ha Hb].
    cbn [app lookup fst]. destruct (owns c1 path); [discriminate|]. apply IH; assumption.
Qed.

(* elsewhere the lookup does not see the contents of the cell *)
Lemma lookup_other : forall t1 c st st' t2 path,
  owns c path = false ->
  lookup (t1 ++ (c, st') :: t2) path = lookup (t1 ++ (c, st) :: t2) path.
Proof.
  induction t1 as [|[c1 s1] r IH]; intros c st st' t2 path Ho.
  - cbn [app lookup fst]. rewrite Ho. reflexivity.
  - cbn [app lookup fst]. destruct (owns c1 path); [reflexivity|]. apply IH. exact Ho.
Qed.

Lemma lookup_same_cell : forall t1 c st st' t2 path,
  owns c path = true -> cell_value (c, st') path = cell_value (c, st) path ->
  lookup (t1 ++ (c, st') :: t2) path = lookup (t1 ++ (c, st) :: t2) path.
Proof.
  induction t1 as [|[c1 s1] r IH]; intros c st st' t2 path Ho Hv.
  - cbn [app lookup fst]. rewrite Ho. exact Hv.
  - cbn [app lookup fst]. destruct (owns c1 path); [reflexivity|]. apply IH; assumption.
Qed.

(* ---- addresses ---- *)
Lemma strip_prefix_app : forall p s r, strip_prefix p s = Some r -> s = p ++ r.
Proof.
  induction p as [|x p IH]; intros s r H; [inversion H; reflexivity|].
  destruct s as [|y s]; [discriminate|]. cbn [strip_prefix] in H.
  destruct (x =? y) eqn:E; [|discriminate]. apply Z.eqb_eq in E. subst y.
  cbn [app]. f_equal. apply IH. exact H.
Qed.

Lemma atoi_acc_nonneg : forall m acc, 0 <= acc -> 0 <= atoi_acc acc m.
Proof.
  induction m as [|c r IH]; intros acc H; [exact H|].
  cbn [atoi_acc]. destruct (is_digit c) eqn:E; [|exact H].
  apply IH. unfold is_digit in E. lia.
Qed.

Lemma addr_match_facts : forall c path idx,
  addr_match c path = Some idx ->
  path = p_name (pe c) ++ idx /\
  (if indexed (pk c)
   then exists d r, idx = d :: r /\ is_digit d = true /\ atoi_acc 0 idx < pn c
   else idx = []).
Proof.
  intros c path idx H. unfold addr_match in H.
  destruct (strip_prefix (p_name (pe c)) path) as [i|] eqn:E; [|discriminate].
  destruct (forallb is_digit i && dispatch_guard (pk c) (pn c) i []) eqn:G; [|discriminate].
  inversion H; subst i. split; [apply strip_prefix_app; exact E|].
  apply andb_true_iff in G. destruct G as [_ G]. unfold dispatch_guard in G.
  apply andb_true_iff in G. destruct G as [_ G].
  destruct (indexed (pk c)).
  - destruct idx as [|d r]; [discriminate|]. apply andb_true_iff in G. destruct G as [G1 G2].
    exists d, r. split; [reflexivity|]. split; [exact G1|]. apply Z.ltb_lt. exact G2.
  - destruct idx; [reflexivity|discriminate].
Qed.

Lemma slot_idx : forall c path idx,
  undoable (pk c) = true -> p_hash (pe c) = indexed (pk c) ->
  addr_match c path = Some idx ->
  slot (pk c) (pe c) path = idx_of (pk c) idx /\ (idx_of (pk c) idx < cell_len c)%nat.
Proof.
  intros c path idx Hu Hh H. destruct (addr_match_facts c path idx H) as [Ep Hi].
  unfold slot, idx_of, cell_len.
  assert (AR : indexed (pk c) = true ->
               Z.to_nat (boils_idx (pe c) path) = Z.to_nat (atoi_acc 0 idx) /\
               (Z.to_nat (atoi_acc 0 idx) < Z.to_nat (pn c))%nat).
  { intro Ei. rewrite Ei in Hi, Hh. destruct Hi as (d & r & Ed & Hd & Hlt).
    unfold boils_idx. rewrite Hh, Ep, skipn_length_app. subst idx. cbn [skip_nondigit]. rewrite Hd.
    split; [reflexivity|].
    pose proof (atoi_acc_nonneg (d :: r) 0 ltac:(lia)). lia. }
  destruct (pk c); try discriminate; cbn [indexed is_array orb] in *;
    try (split; [reflexivity|lia]); apply AR; reflexivity.
Qed.

(* a port that is not indexed answers one address only *)
Lemma scalar_one_address : forall c p p' i i',
  indexed (pk c) = false -> addr_match c p = Some i -> addr_match c p' = Some i' -> p = p'.
Proof.
  intros c p p' i i' Hi H H'.
  destruct (addr_match_facts c p i H) as [E1 F1]. destruct (addr_match_facts c p' i' H') as [E2 F2].
  rewrite Hi in F1, F2. subst. reflexivity.
Qed.

(* ---- what the history records of a callback's output ---- *)
Lemma record_outs_undo : forall os s, record_outs s os = record_outs s (undo_events os).
Proof.
  induction os as [|o r IH]; intro s; [reflexivity|].
  unfold undo_events. cbn [filter]. destruct o as [m|m]; cbn [is_undo].
  - destruct (str_eqb (o_path m) undo_path) eqn:E.
    + cbn [record_outs record_out]. rewrite E.
      destruct (o_args m) as [|x [|a [|b [|y r']]]]; try reflexivity;
        destruct x; try reflexivity.
      destruct (arg_val a), (arg_val b); try reflexivity.
      destruct (tag a =? tag b); [apply IH|reflexivity].
    + cbn [record_outs record_out]. rewrite E. apply IH.
  - cbn [record_outs record_out]. apply IH.
Qed.

Lemma fkey_inj : forall a b, 0 <= a -> a <> 2147483648 -> 0 <= b -> b <> 2147483648 ->
  fkey a = fkey b -> a = b.
Proof.
  intros a b Ha Ha' Hb Hb' H. unfold fkey in H.
  destruct (a <? 2147483648) eqn:Ea; destruct (b <? 2147483648) eqn:Eb; lia.
Qed.

Lemma good_key_eqb : forall c x y, good c x -> good c y ->
  (kind_key (pk c) x =? kind_key (pk c) y) = (x =? y).
Proof.
  intros c x y [_ Cx] [_ Cy]. unfold canon in Cx, Cy.
  assert (F : (fkey x =? fkey y) = (x =? y) \/ kind_key (pk c) = zkey).
  { destruct (pk c); try (right; reflexivity); left;
      destruct Cx, Cy; destruct (x =? y) eqn:E;
      [apply Z.eqb_eq in E; subst; apply Z.eqb_refl | apply Z.eqb_neq; intro F; apply Z.eqb_neq in E; apply E; apply fkey_inj; assumption
      |apply Z.eqb_eq in E; subst; apply Z.eqb_refl | apply Z.eqb_neq; intro F; apply Z.eqb_neq in E; apply E; apply fkey_inj; assumption]. }
  destruct F as [F|F]; [|rewrite F; reflexivity].
  destruct (pk c); try reflexivity; exact F.
Qed.

Lemma arg_val_tag_event : forall k v w,
  arg_val (event_arg k v) = Some v /\ tag (event_arg k v) = tag (event_arg k w).
Proof. intros k v w. destruct k; split; reflexivity. Qed.

(* the arguments of a set message on a float port are canonical patterns *)
Definition args_canon (k : kind) (args : list arg) : Prop :=
  forall a v, In a args -> arg_val a = Some v -> canon k v.

Lemma contents_forall : forall c (st : list Z), pk c <> KCO ->
  (match pk c with
   | KCO => exists v n, st = [v; n] /\ good c v
   | _ => Forall (good c) st
   end) <-> Forall (good c) st.
Proof. intros c st H. destruct (pk c); try reflexivity. contradiction. Qed.

(* ---- one set message on the cell that answers it ---- *)
Lemma cell_set : forall c st path idx args st' outs s,
  port_ok c -> contents_ok (c, st) -> undoable (pk c) = true ->
  addr_match c path = Some idx -> conf (pe c) (pk c) args -> args_canon (pk c) args ->
  47 :: path <> undo_path ->
  SugarModel.step (pk c) (pe c) (47 :: path) path st args = Some (st', outs) ->
  exists old new,
    cell_value (c, st) path = Some old /\ cell_value (c, st') path = Some new /\
    contents_ok (c, st') /\ good c old /\ good c new /\
    (forall p' i', addr_match c p' = Some i' -> idx_of (pk c) i' <> idx_of (pk c) idx ->
                   cell_value (c, st') p' = cell_value (c, st) p') /\
    record_outs s outs =
      Some (if old =? new then s else record (47 :: path) (tag (event_arg (pk c) 0)) old new s) /\
    (forall v, args = [event_arg (pk c) v] -> good c v -> new = v).
Proof.
  intros c st path idx args st' outs s Hp Hc Hu Ha Hcf Hca Hloc H.
  destruct Hp as (_ & Henv & Hord & Hmap & Hh & Cmn & Cmx).
  destruct Hc as [Hlen Hgood]. cbn [fst snd] in Hlen, Hgood. specialize (Hgood Hu).
  destruct (slot_idx c path idx Hu Hh Ha) as [Es Hlt].
  assert (Hst : stored_stable (pe c) (pk c) st).
  { unfold stored_stable. destruct (pk c) eqn:Ek; try discriminate;
      try (eapply Forall_impl; [|exact Hgood]; intros x [Hx _]; rewrite Ek in Hx; exact Hx).
    destruct Hgood as (v & n & E & [G _]). rewrite Ek in G. exists v, n. split; assumption. }
  pose proof (step_slot_facts (pk c) (pe c) (47 :: path) path st args st' outs
                (undoable_kind _ Hu) Henv Hord Hmap Hcf Hst Hloc H)
    as (old & new & N1 & N2 & L & Fr & So & Sn & Ue & Rp & Pk).
  rewrite Es in N1, N2, Fr.
  assert (Go : good c old).
  { split; [exact So|].
    assert (Fo : (pk c = KF \/ pk c = KAF) -> canon (pk c) old).
    { intro Hk. assert (Hf : Forall (good c) st) by (destruct Hk as [E|E]; rewrite E in Hgood; exact Hgood).
      exact (proj2 (Forall_nth_error _ _ _ _ _ Hf N1)). }
    destruct (pk c) eqn:Ek; try exact I; apply Fo; auto. }
  assert (Gn : good c new).
  { split; [exact Sn|].
    assert (Fl : (pk c = KF \/ pk c = KAF) -> canon (pk c) new).
    { intro Hk. apply (Pk (canon (pk c)) Hk).
      - exact (proj2 Go).
      - intros b Eb. apply (Hca (Af b) b); [rewrite Eb; left; reflexivity|reflexivity].
      - exact Cmn.
      - exact Cmx. }
    destruct (pk c) eqn:Ek; try exact I; apply Fl; auto. }
  exists old, new.
  assert (CV : forall sx, cell_value (c, sx) path = nth_error sx (idx_of (pk c) idx)).
  { intro sx. unfold cell_value. cbn [fst snd]. rewrite Ha, Hu. reflexivity. }
  split; [rewrite CV; exact N1|]. split; [rewrite CV; exact N2|].
  split.
  { split; cbn [fst snd]; [rewrite L; exact Hlen|]. intros _.
    assert (Hco : pk c = KCO \/ pk c <> KCO) by (destruct (pk c); (left; reflexivity) || (right; discriminate)).
    destruct Hco as [E|Hn].
    - rewrite E in Hgood |- *. destruct Hgood as (v & n & Est & G). subst st. cbn [length] in L.
      destruct st' as [|x [|y [|z r]]]; try discriminate.
      rewrite E in N2. unfold idx_of in N2. cbn [indexed is_array orb nth_error] in N2. inversion N2; subst x.
      exists new, y. split; [reflexivity|exact Gn].
    - apply (contents_forall c st' Hn). apply (contents_forall c st Hn) in Hgood.
      apply Forall_forall. intros x Hx. apply In_nth_error in Hx. destruct Hx as [j Hj].
      destruct (Nat.eq_dec j (idx_of (pk c) idx)) as [Ej|Ej].
      + subst j. rewrite N2 in Hj. inversion Hj; subst x. exact Gn.
      + rewrite (Fr j Ej Hn) in Hj. exact (Forall_nth_error _ _ _ _ _ Hgood Hj). }
  split; [exact Go|]. split; [exact Gn|].
  split.
  { intros p' i' Ha' Hne. unfold cell_value. cbn [fst snd]. rewrite Ha', Hu.
    apply Fr; [exact Hne|].
    intro Ek. apply Hne. unfold idx_of. rewrite Ek. reflexivity. }
  split.
  { rewrite record_outs_undo, Ue, (good_key_eqb c old new Go Gn).
    destruct (old =? new); [reflexivity|].
    cbn [record_outs record_out mk o_path o_args]. rewrite str_eqb_refl.
    destruct (arg_val_tag_event (pk c) old new) as [A1 T1].
    destruct (arg_val_tag_event (pk c) new old) as [A2 _].
    destruct (arg_val_tag_event (pk c) old 0) as [_ T0].
    rewrite A1, A2, T1, Z.eqb_refl, <- T1, T0. reflexivity. }
  intros v Ev [Sv _]. exact (Rp v Ev Sv).
Qed.

(* ---- the kinds that emit no undo event (toggles, the alias of rParams) ---- *)
Lemma plain_step : forall k e loc m st args st' outs,
  (k = KT \/ k = KAT \/ exists len, k = KPS len) -> loc <> undo_path ->
  SugarModel.step k e loc m st args = Some (st', outs) ->
  undo_events outs = [] /\ length st' = length st.
Proof.
  intros k e loc m st args st' outs Hk Hloc H.
  assert (Q : forall x, is_undo (Reply (mk loc x)) = false) by (intro x; apply is_undo_query; exact Hloc).
  destruct Hk as [Hk|[Hk|[len Hk]]]; subst k; cbn [SugarModel.step] in H.
  - unfold scalar in H. destruct st as [|v [|w r]]; try discriminate.
    destruct (rToggleCb e loc v args) as [[v' o]|] eqn:E; [|discriminate]. inversion H; subst st' outs.
    split; [|reflexivity]. unfold rToggleCb in E.
    destruct args as [|a [|b r]]; try discriminate.
    + inversion E; subst. unfold undo_events. cbn [filter]. rewrite Q. reflexivity.
    + destruct (arg_T a); [|discriminate]. destruct (negb (v =? z)); inversion E; reflexivity.
  - unfold rArrayTCb, at_idx in H.
    destruct (nth_error st (Z.to_nat (boils_idx e m))) as [cur|]; [|discriminate].
    destruct (rArrayTCb_elem e loc cur args) as [[v' o]|] eqn:E; [|discriminate]. inversion H; subst st' outs.
    split; [|apply length_upd]. unfold rArrayTCb_elem in E.
    destruct args as [|a [|b r]]; try discriminate.
    + inversion E; subst. unfold undo_events. cbn [filter]. rewrite Q. reflexivity.
    + destruct (arg_T a); [|discriminate]. destruct (negb (cur =? z)); inversion E; reflexivity.
  - unfold rParamsCb in H. destruct args; [|discriminate].
    destruct (Z.of_nat (length st) <? len); [discriminate|]. inversion H; subst st' outs.
    split; [|reflexivity]. unfold undo_events. cbn [filter]. rewrite Q. reflexivity.
Qed.

(* ---- the invariant of an end-to-end history ---- *)
Definition cells_ok (t : table) : Prop := Forall contents_ok t.
Definition table_ok (ps : list port) : Prop := Forall port_ok ps /\ uniq ps.

(* a retained event replays: its address is answered by an undoable port of the
   table, it carries that port's own type tag, both values are stored as they are *)
Definition ev_ok (ps : list port) (U : list str) (e : ev) : Prop :=
  exists path c idx, eaddr e = 47 :: path /\ mem path U = true /\ 47 :: path <> undo_path /\ In c ps /\
    addr_match c path = Some idx /\ undoable (pk c) = true /\
    ety e = tag (event_arg (pk c) 0) /\ good c (eold e) /\ good c (enew e).

Definition pinv (ps : list port) (U : list str) (st : table * hstate) : Prop :=
  ports (fst st) = ps /\ cells_ok (fst st) /\ e_inv (abs U (fst st), snd st) /\
  Forall (ev_ok ps U) (hist (snd st)).

(* the operations of the quantifier: addresses from U, never "/undo_change";
   what reaches a port is a set message the port's kind is driven with (C14's
   quantifier), float values canonical; the clock does not run backwards *)
Definition pop_ok (ps : list port) (U : list str) (o : pop) : Prop :=
  match o with
  | PTick d => 0 <= d
  | PSeek _ => True
  | PSet path args =>
    mem path U = true /\ 47 :: path <> undo_path /\
    forall c, In c ps -> port_match c path args = true -> undoable (pk c) = true ->
              conf (pe c) (pk c) args /\ args_canon (pk c) args
  end.

Lemma mem_In : forall p U, mem p U = true -> In p U.
Proof.
  induction U as [|q r IH]; intro H; [discriminate|]. cbn [mem] in H.
  apply orb_true_iff in H. destruct H as [H|H]; [left; symmetry; apply str_eqb_eq; exact H|right; apply IH; exact H].
Qed.

Lemma owner_unique : forall ps c c' path, uniq ps -> In c ps -> In c' ps ->
  owns c path = true -> owns c' path = true -> c = c'.
Proof.
  induction ps as [|x r IH]; intros c c' path Hu Hc Hc' Ho Ho'; [destruct Hc|].
  destruct Hu as [Hx Hr].
  assert (Q : forall y, In y r -> owns x path = true -> owns y path = true -> False).
  { intros y Hy H1 H2. pose proof (Hx path H1) as F. rewrite forallb_forall in F.
    specialize (F y Hy). rewrite H2 in F. discriminate. }
  destruct Hc as [Hc|Hc]; destruct Hc' as [Hc'|Hc']; subst.
  - reflexivity.
  - exfalso. exact (Q c' Hc' Ho Ho').
  - exfalso. exact (Q c Hc Ho' Ho).
  - exact (IH c c' path Hr Hc Hc' Ho Ho').
Qed.

Lemma e_inv_ext : forall f g s, e_inv (f, s) -> (forall a, g a = f a) -> e_inv (g, s).
Proof.
  intros f g s (Hi & base & Hc & Hf) E. split; [exact Hi|]. exists base. split; [exact Hc|].
  intro a. rewrite E. apply Hf.
Qed.

Lemma ports_replace : forall t1 c st st' t2,
  ports (t1 ++ (c, st') :: t2) = ports (t1 ++ (c, st) :: t2).
Proof. intros. unfold ports. rewrite !map_app. reflexivity. Qed.

Lemma cells_replace : forall t1 c st st' t2,
  cells_ok (t1 ++ (c, st) :: t2) -> contents_ok (c, st') -> cells_ok (t1 ++ (c, st') :: t2).
Proof.
  intros t1 c st st' t2 H Hc. unfold cells_ok in *. apply Forall_app in H. destruct H as [H1 H2].
  apply Forall_app. split; [exact H1|]. inversion H2; subst. constructor; assumption.
Qed.

(* the abstract store after the cell's entry for the address changed *)
Lemma abs_update : forall ps U t1 c st st' t2 path idx new,
  one_spelling ps U -> In c ps -> mem path U = true ->
  addr_match c path = Some idx ->
  forallb (fun c' => negb (owns c' path)) (ports t1) = true ->
  cell_value (c, st') path = Some new ->
  (forall p' i', addr_match c p' = Some i' -> idx_of (pk c) i' <> idx_of (pk c) idx ->
                 cell_value (c, st') p' = cell_value (c, st) p') ->
  forall a, abs U (t1 ++ (c, st') :: t2) a = upd (abs U (t1 ++ (c, st) :: t2)) (47 :: path) new a.
Proof.
  intros ps U t1 c st st' t2 path idx new H1s Hin Hm Ha Hn1 Hv Hfr a.
  assert (Ho : owns c path = true) by (unfold owns; rewrite Ha; reflexivity).
  unfold upd. destruct (addr_eqb a (47 :: path)) eqn:E.
  - apply addr_eqb_eq in E. subst a. unfold abs. rewrite Z.eqb_refl, Hm. cbn [andb].
    rewrite (lookup_here t1 c st' t2 path Hn1 Ho), Hv. reflexivity.
  - apply addr_eqb_neq in E. unfold abs. destruct a as [|x p']; [reflexivity|].
    destruct ((x =? 47) && mem p' U) eqn:G; [|reflexivity].
    apply andb_true_iff in G. destruct G as [Gx Gm]. apply Z.eqb_eq in Gx. subst x.
    assert (Hne : p' <> path) by (intro F; apply E; subst; reflexivity).
    destruct (owns c p') eqn:Op.
    + unfold owns in Op. destruct (addr_match c p') as [i'|] eqn:Ap; [|discriminate].
      assert (Hd : idx_of (pk c) i' <> idx_of (pk c) idx).
      { intro F. apply Hne. exact (H1s c p' path i' idx Hin (mem_In _ _ Gm) (mem_In _ _ Hm) Ap Ha F). }
      assert (EL : lookup (t1 ++ (c, st') :: t2) p' = lookup (t1 ++ (c, st) :: t2) p').
      { apply lookup_same_cell; [unfold owns; rewrite Ap; reflexivity|exact (Hfr p' i' Ap Hd)]. }
      rewrite EL. reflexivity.
    + assert (EL : lookup (t1 ++ (c, st') :: t2) p' = lookup (t1 ++ (c, st) :: t2) p')
        by (apply lookup_other; exact Op).
      rewrite EL. reflexivity.
Qed.

(* the events after a record *)
Lemma record_events : forall (P : ev -> Prop) a ty old nw s,
  pos_ok s -> time_inv s -> Forall P (hist s) ->
  (forall h, In h (hist s) -> eaddr h = a -> P (mkEv (clock s) a ty (eold h) nw)) ->
  P (mkEv (clock s) a ty old nw) ->
  Forall P (hist (record a ty old nw s)).
Proof.
  intros P a ty old nw s Hok Ht Hall Hm Hn.
  assert (Hf : Forall P (firstn (pos s) (hist s))) by (apply Forall_firstn; exact Hall).
  destruct (record_cases a ty old nw s Hok Ht) as [(l1 & h & l2 & E & Ea & _ & R)|R].
  - rewrite R. cbn [hist]. rewrite E in Hf. apply Forall_app in Hf. destruct Hf as [F1 F2].
    inversion F2; subst. apply Forall_app. split; [exact F1|]. constructor; [|assumption].
    unfold merged. apply Hm; [|reflexivity].
    assert (Hi : In h (firstn (pos s) (hist s))) by (rewrite E; apply in_or_app; right; left; reflexivity).
    rewrite <- (firstn_skipn (pos s) (hist s)). apply in_or_app. left. exact Hi.
  - cbv zeta in R. rewrite R.
    assert (Hx : Forall P (firstn (pos s) (hist s) ++ [mkEv (clock s) a ty old nw])).
    { apply Forall_app. split; [exact Hf|]. constructor; [exact Hn|constructor]. }
    destruct (Nat.ltb _ _); cbn [hist]; [apply Forall_tl|]; exact Hx.
Qed.

(* ---- a set message keeps the invariant ---- *)
Lemma pset_inv : forall ps U t s path args t' s' ms n,
  table_ok ps -> one_spelling ps U -> pinv ps U (t, s) -> pop_ok ps U (PSet path args) ->
  pstep (t, s) (PSet path args) = Some ((t', s'), ms, n) -> pinv ps U (t', s').
Proof.
  intros ps U t s path args t' s' ms n [Hpo Hun] H1s (Hps & Hcells & Hei & Hev) (Hm & Hloc & Hconf) H.
  cbn [fst snd] in Hps, Hcells, Hei, Hev.
  cbn [pstep] in H.
  destruct (dispatch t path args) as [[[t1' outs] n']|] eqn:D; [|discriminate].
  destruct (record_outs s outs) as [s1|] eqn:R; [|discriminate]. inversion H; subst t1' s1 ms n'. clear H.
  assert (Same : t' = t -> outs = [] -> pinv ps U (t', s')).
  { intros Et Eo. subst t' outs. cbn in R. inversion R; subst s'.
    split; [exact Hps|]. split; [exact Hcells|]. split; assumption. }
  assert (Hu : uniq (ports t)) by (rewrite Hps; exact Hun).
  destruct (locate t path Hu) as [Hn|t1 c st t2 Et Ho Hn1 Hn2].
  - rewrite (dispatch_miss t path args Hn) in D. inversion D; subst. apply Same; reflexivity.
  - subst t. rewrite (dispatch_here t1 c st t2 path args Hn1 Hn2) in D.
    destruct (port_match c path args) eqn:PM; [|inversion D; subst; apply Same; reflexivity].
    destruct (SugarModel.step (pk c) (pe c) (47 :: path) path st args) as [[st' o]|] eqn:ST; [|discriminate].
    inversion D; subst t' outs n. clear D.
    assert (Hin : In c ps).
    { rewrite <- Hps. unfold ports. rewrite map_app. apply in_or_app. right. left. reflexivity. }
    assert (Hpc : port_ok c) by (rewrite Forall_forall in Hpo; exact (Hpo c Hin)).
    assert (Hcc : contents_ok (c, st)).
    { unfold cells_ok in Hcells. apply Forall_app in Hcells. destruct Hcells as [_ Hc2]. inversion Hc2; assumption. }
    unfold owns in Ho. destruct (addr_match c path) as [idx|] eqn:Ha; [|discriminate].
    destruct (undoable (pk c)) eqn:Hund.
    + (* a numeric / option port *)
      destruct (Hconf c Hin PM Hund) as [Hcf Hca].
      destruct (cell_set c st path idx args st' o s Hpc Hcc Hund Ha Hcf Hca Hloc ST)
        as (old & new & V1 & V2 & Hc' & Go & Gn & Fr & Rec & _).
      rewrite R in Rec. inversion Rec as [Es']. clear Rec.
      pose proof (abs_update ps U t1 c st st' t2 path idx new H1s Hin Hm Ha Hn1 V2 Fr) as Habs.
      assert (Hold : abs U (t1 ++ (c, st) :: t2) (47 :: path) = old).
      { unfold abs. rewrite Z.eqb_refl, Hm. cbn [andb].
        rewrite (lookup_here t1 c st t2 path Hn1); [rewrite V1; reflexivity|].
        unfold owns. rewrite Ha. reflexivity. }
      split; [cbn [fst]; rewrite (ports_replace t1 c st st' t2); exact Hps|].
      split; [cbn [fst]; exact (cells_replace t1 c st st' t2 Hcells Hc')|].
      cbn [fst snd]. destruct (old =? new) eqn:Eon.
      * apply Z.eqb_eq in Eon. subst new s'. split; [|exact Hev].
        apply (e_inv_ext _ _ _ Hei). intro a. rewrite Habs. unfold upd.
        destruct (addr_eqb a (47 :: path)) eqn:E; [|reflexivity].
        apply addr_eqb_eq in E. subst a. symmetry. exact Hold.
      * apply Z.eqb_neq in Eon. subst s'. split.
        { apply (e_inv_ext (upd (abs U (t1 ++ (c, st) :: t2)) (47 :: path) new)); [|exact Habs].
          rewrite <- Hold. apply e_change; [exact Hei|]. rewrite Hold. exact Eon. }
        destruct Hei as ([[Hok _] Ht] & _).
        apply record_events; try assumption.
        { intros h Hh Eh. rewrite Forall_forall in Hev.
          destruct (Hev h Hh) as (p2 & c2 & i2 & A1 & A2 & A2' & A3 & A4 & A5 & A6 & A7 & A8).
          rewrite Eh in A1. inversion A1; subst p2.
          assert (c2 = c).
          { apply (owner_unique ps c2 c path Hun A3 Hin); unfold owns; [rewrite A4|rewrite Ha]; reflexivity. }
          subst c2.
          exists path, c, idx. cbn [eaddr ety eold enew].
          split; [reflexivity|]. split; [exact Hm|]. split; [exact Hloc|]. split; [exact Hin|]. split; [exact Ha|].
          split; [exact Hund|]. split; [reflexivity|]. split; [exact A7|exact Gn]. }
        { exists path, c, idx. cbn [eaddr ety eold enew].
          split; [reflexivity|]. split; [exact Hm|]. split; [exact Hloc|]. split; [exact Hin|]. split; [exact Ha|].
          split; [exact Hund|]. split; [reflexivity|]. split; [exact Go|exact Gn]. }
    + (* a toggle or the alias of rParams: no event, nothing the store sees *)
      destruct Hpc as (Hkind & _).
      destruct Hkind as [Hk|Hk]; [rewrite Hk in Hund; discriminate|].
      destruct (plain_step (pk c) (pe c) (47 :: path) path st args st' o Hk Hloc ST) as [Ue Hl].
      rewrite record_outs_undo, Ue in R. cbn in R. inversion R; subst s'.
      split; [cbn [fst]; rewrite (ports_replace t1 c st st' t2); exact Hps|].
      split.
      { cbn [fst]. apply (cells_replace t1 c st st' t2 Hcells). destruct Hcc as [L _].
        split; cbn [fst snd] in *; [rewrite Hl; exact L|]. intro F. rewrite F in Hund. discriminate. }
      split; [|exact Hev]. cbn [fst snd].
      apply (e_inv_ext _ _ _ Hei). intro a. unfold abs. destruct a as [|x p']; [reflexivity|].
      destruct ((x =? 47) && mem p' U); [|reflexivity].
      assert (EL : lookup (t1 ++ (c, st') :: t2) p' = lookup (t1 ++ (c, st) :: t2) p').
      { destruct (owns c p') eqn:Op; [|apply lookup_other; exact Op].
        apply lookup_same_cell; [exact Op|]. unfold cell_value. cbn [fst snd]. rewrite Hund.
        destruct (addr_match c p'); reflexivity. }
      rewrite EL. reflexivity.
Qed.

(* ---- a seek: the history's messages reach their ports and store their values ---- *)
Lemma arg_of_event : forall k v, undoable k = true -> arg_of (tag (event_arg k 0)) v = Some (event_arg k v).
Proof. intros k v H. destruct k; try discriminate; reflexivity. Qed.

Lemma owner_located : forall t path c, In c (ports t) -> owns c path = true ->
  forallb (fun c' => negb (owns c' path)) (ports t) = true -> False.
Proof.
  intros t path c Hin Ho F. rewrite forallb_forall in F. specialize (F c Hin). rewrite Ho in F. discriminate.
Qed.

Lemma replay_one : forall ps U t path c idx v,
  table_ok ps -> one_spelling ps U -> ports t = ps -> cells_ok t ->
  mem path U = true -> 47 :: path <> undo_path -> In c ps -> addr_match c path = Some idx ->
  undoable (pk c) = true -> good c v ->
  exists t' outs, dispatch t path [event_arg (pk c) v] = Some (t', outs, 1) /\
    ports t' = ps /\ cells_ok t' /\
    forall a, abs U t' a = upd (abs U t) (47 :: path) v a.
Proof.
  intros ps U t path c idx v [Hpo Hun] H1s Hps Hcells Hm Hloc Hin Ha Hund Gv.
  assert (Ho : owns c path = true) by (unfold owns; rewrite Ha; reflexivity).
  assert (Hu : uniq (ports t)) by (rewrite Hps; exact Hun).
  destruct (locate t path Hu) as [Hn|t1 c1 st t2 Et Ho1 Hn1 Hn2].
  { exfalso. apply (owner_located t path c); [rewrite Hps; exact Hin|exact Ho|exact Hn]. }
  subst t.
  assert (Hin1 : In c1 ps).
  { rewrite <- Hps. unfold ports. rewrite map_app. apply in_or_app. right. left. reflexivity. }
  assert (Ec : c1 = c) by (exact (owner_unique ps c1 c path Hun Hin1 Hin Ho1 Ho)). subst c1.
  assert (Hpc : port_ok c) by (rewrite Forall_forall in Hpo; exact (Hpo c Hin)).
  assert (Hcc : contents_ok (c, st)).
  { unfold cells_ok in Hcells. apply Forall_app in Hcells. destruct Hcells as [_ Hc2]. inversion Hc2; assumption. }
  pose proof (undoable_kind _ Hund) as Hk.
  destruct Gv as [Sv Cv].
  destruct (replay_conf (pk c) (pe c) v Hk Sv) as [Hcf Hsp].
  rewrite (dispatch_here t1 c st t2 path _ Hn1 Hn2).
  unfold port_match. rewrite Ha, Hsp.
  assert (Hca : args_canon (pk c) [event_arg (pk c) v]).
  { intros a w [Ea|[]] Ew. subst a. destruct (arg_val_tag_event (pk c) v v) as [A _]. rewrite A in Ew.
    inversion Ew; subst w. exact Cv. }
  pose proof Hpc as (_ & Henv & _ & _ & Hh & _ & _).
  pose proof Hcc as [Hlen Hgood]. cbn [fst snd] in Hlen, Hgood. specialize (Hgood Hund).
  destruct (slot_idx c path idx Hund Hh Ha) as [Es Hlt].
  assert (Hst : stored_stable (pe c) (pk c) st).
  { unfold stored_stable. destruct (pk c) eqn:Ek; try discriminate;
      try (eapply Forall_impl; [|exact Hgood]; intros x [Hx _]; rewrite Ek in Hx; exact Hx).
    destruct Hgood as (x & n & E & [G _]). rewrite Ek in G. exists x, n. split; assumption. }
  destruct (step_replay_total (pk c) (pe c) (47 :: path) path st v Hk Henv Hst Sv) as (st' & o & ST).
  { rewrite Es. unfold cell_len in Hlen, Hlt. destruct (pk c); try discriminate; try exact I;
      try exact Hlen; rewrite Hlen; exact Hlt. }
  rewrite ST.
  destruct (cell_set c st path idx _ st' o init Hpc Hcc Hund Ha Hcf Hca Hloc ST)
    as (old & new & V1 & V2 & Hc' & Go & Gn & Fr & _ & Rp).
  assert (En : new = v) by (apply Rp; [reflexivity|split; assumption]). subst new.
  exists (t1 ++ (c, st') :: t2), o. split; [reflexivity|].
  split; [rewrite (ports_replace t1 c st st' t2); exact Hps|].
  split; [exact (cells_replace t1 c st st' t2 Hcells Hc')|].
  exact (abs_update ps U t1 c st st' t2 path idx v H1s Hin Hm Ha Hn1 V2 Fr).
Qed.

Definition msg_ok (ps : list port) (U : list str) (m : msg) : Prop :=
  exists path c idx v, m = SetMsg (47 :: path) (tag (event_arg (pk c) 0)) v /\
    mem path U = true /\ 47 :: path <> undo_path /\ In c ps /\ addr_match c path = Some idx /\
    undoable (pk c) = true /\ good c v.

Lemma ev_msgs_ok : forall ps U e, ev_ok ps U e -> msg_ok ps U (set_old e) /\ msg_ok ps U (set_new e).
Proof.
  intros ps U e (path & c & idx & A1 & A2 & A2' & A3 & A4 & A5 & A6 & A7 & A8).
  unfold set_old, set_new. rewrite A1, A6.
  split; exists path, c, idx; eexists; (split; [reflexivity|]); repeat (split; [assumption|]); assumption.
Qed.

Lemma apply_msgs_ext : forall ms f g, (forall a, f a = g a) ->
  forall a, apply_msgs f ms a = apply_msgs g ms a.
Proof.
  induction ms as [|m r IH]; intros f g H a; [apply H|].
  unfold apply_msgs. cbn [fold_left]. apply IH. intro x. destruct m. cbn [apply_msg]. apply upd_ext. exact H.
Qed.

Lemma replay_all : forall ps U ms t,
  table_ok ps -> one_spelling ps U -> ports t = ps -> cells_ok t -> Forall (msg_ok ps U) ms ->
  exists t', replay_msgs t ms = Some (t', Z.of_nat (length ms)) /\ ports t' = ps /\ cells_ok t' /\
             forall a, abs U t' a = apply_msgs (abs U t) ms a.
Proof.
  intros ps U ms. induction ms as [|m r IH]; intros t Ht H1s Hps Hc Hms.
  - exists t. split; [reflexivity|]. split; [exact Hps|]. split; [exact Hc|]. reflexivity.
  - apply Forall_cons_iff in Hms. destruct Hms as [Hm Hr].
    destruct Hm as (path & c & idx & v & Em & A2 & A2' & A3 & A4 & A5 & A6). subst m.
    destruct (replay_one ps U t path c idx v Ht H1s Hps Hc A2 A2' A3 A4 A5 A6) as (t1 & o & D & P1 & C1 & Ab).
    destruct (IH t1 Ht H1s P1 C1 Hr) as (t2 & R2 & P2 & C2 & Ab2).
    exists t2. cbn [replay_msgs]. rewrite (arg_of_event (pk c) v A5), D, R2.
    split; [f_equal; f_equal; cbn [length]; lia|]. split; [exact P2|]. split; [exact C2|].
    intro a. rewrite Ab2. unfold apply_msgs at 2. cbn [fold_left apply_msg].
    apply apply_msgs_ext. exact Ab.
Qed.

Lemma Forall_skipn : forall (A : Type) (P : A -> Prop) n l, Forall P l -> Forall P (skipn n l).
Proof.
  intros A P n. induction n as [|n IH]; intros l H; [exact H|].
  destruct l; [constructor|]. inversion H; subst. cbn [skipn]. apply IH. assumption.
Qed.

Lemma in_firstn : forall (A : Type) n (l : list A) x, In x (firstn n l) -> In x l.
Proof.
  intros A n. induction n as [|n IH]; intros l x H; [destruct H|].
  destruct l; [destruct H|]. cbn [firstn] in H. destruct H as [H|H]; [left; exact H|right; apply IH; exact H].
Qed.

Lemma pseek_inv : forall ps U t s k,
  table_ok ps -> one_spelling ps U -> pinv ps U (t, s) ->
  exists t' s' ms, pstep (t, s) (PSeek k) = Some ((t', s'), ms, Z.of_nat (length ms)) /\
    seek k s = Some (s', ms) /\ pinv ps U (t', s') /\
    forall a, abs U t' a = apply_msgs (abs U t) ms a.
Proof.
  intros ps U t s k Ht H1s (Hps & Hcells & Hei & Hev). cbn [fst snd] in *.
  pose proof Hei as ([[Hok _] _] & _).
  destruct (seek_total s k Hok) as (ms & Hs).
  set (s' := mkH (hist s) (Z.to_nat (Z.of_nat (pos s) + clamp_dist s k)) (clock s)) in *.
  assert (Hms : Forall (msg_ok ps U) ms).
  { assert (Ho : Forall (fun e => msg_ok ps U (set_old e) /\ msg_ok ps U (set_new e)) (hist s)).
    { eapply Forall_impl; [|exact Hev]. intros e He. apply ev_msgs_ok. exact He. }
    destruct (seek_cases s k s' ms Hok Hs) as [(n & _ & _ & E)|(n & _ & _ & E)]; subst ms.
    - unfold applied_newest_first. apply Forall_forall. intros m Hm. apply in_map_iff in Hm.
      destruct Hm as (e & Ee & Hi). subst m.
      assert (In e (hist s)).
      { apply in_firstn in Hi. apply in_rev in Hi. apply in_firstn in Hi. exact Hi. }
      rewrite Forall_forall in Ho. apply (Ho e). assumption.
    - unfold undone_oldest_first. apply Forall_forall. intros m Hm. apply in_map_iff in Hm.
      destruct Hm as (e & Ee & Hi). subst m.
      assert (In e (hist s)).
      { apply in_firstn in Hi. rewrite <- (firstn_skipn (pos s) (hist s)). apply in_or_app. right. exact Hi. }
      rewrite Forall_forall in Ho. apply (Ho e). assumption. }
  destruct (replay_all ps U ms t Ht H1s Hps Hcells Hms) as (t' & R & P' & C' & Ab).
  exists t', s', ms. cbn [pstep]. rewrite Hs, R.
  split; [reflexivity|]. split; [reflexivity|]. split; [|exact Ab].
  split; [exact P'|]. split; [exact C'|]. cbn [fst snd]. split; [|exact Hev].
  apply (e_inv_ext (apply_msgs (abs U t) ms)); [|exact Ab].
  exact (e_seek (abs U t) s k s' ms Hei Hs).
Qed.

(* ---- whole histories ---- *)
Lemma pstep_inv : forall ps U st o st' ms n,
  table_ok ps -> one_spelling ps U -> pinv ps U st -> pop_ok ps U o ->
  pstep st o = Some (st', ms, n) -> pinv ps U st'.
Proof.
  intros ps U [t s] o [t' s'] ms n Ht H1s Hi Ho H. destruct o as [path args|k|d].
  - exact (pset_inv ps U t s path args t' s' ms n Ht H1s Hi Ho H).
  - destruct (pseek_inv ps U t s k Ht H1s Hi) as (t1 & s1 & ms1 & E & _ & Hi' & _).
    rewrite E in H. inversion H; subst. exact Hi'.
  - cbn [pstep] in H. inversion H; subst t' s' ms n. destruct Hi as (Hps & Hc & Hei & Hev). cbn [fst snd] in *.
    split; [exact Hps|]. split; [exact Hc|]. split; [|exact Hev]. cbn [fst snd].
    exact (estep_inv (abs U t, s) (ETick d) _ [] Hei Ho eq_refl).
Qed.

Lemma prun_inv : forall ps U ops st st',
  table_ok ps -> one_spelling ps U -> pinv ps U st -> Forall (pop_ok ps U) ops ->
  prun ops st = Some st' -> pinv ps U st'.
Proof.
  intros ps U ops. induction ops as [|o r IH]; intros st st' Ht H1s Hi Hops H.
  - cbn in H. inversion H; subst. exact Hi.
  - inversion Hops as [|? ? Ho Hr]; subst. cbn [prun] in H.
    destruct (pstep st o) as [[[st1 ms] n]|] eqn:E; [|discriminate].
    apply (IH st1 st' Ht H1s); [|exact Hr|exact H].
    exact (pstep_inv ps U st o st1 ms n Ht H1s Hi Ho E).
Qed.

Lemma pinv_init : forall ps U t0, ports t0 = ps -> cells_ok t0 -> pinv ps U (t0, init).
Proof.
  intros ps U t0 Hp Hc. split; [exact Hp|]. split; [exact Hc|]. split; [apply e_inv_init|constructor].
Qed.

(* the end-to-end theorem on the fields of the ports: after any history of set
   messages, seeks and clock steps, undoing everything retained delivers every
   undo message to a port and returns every parameter to the value it had
   before its oldest retained change; redoing everything returns the latest values *)
Lemma ports_undo_redo : forall ps U t0 ops t s,
  table_ok ps -> one_spelling ps U -> ports t0 = ps -> cells_ok t0 ->
  Forall (pop_ok ps U) ops -> prun ops (t0, init) = Some (t, s) ->
  (exists t' s' ms,
     pstep (t, s) (PSeek (- Z.of_nat (pos s))) = Some ((t', s'), ms, Z.of_nat (length ms)) /\
     pos s' = 0%nat /\ cells_ok t' /\
     forall a, abs U t' a = value_before_oldest (hist s) a (abs U t a)) /\
  (exists t' s' ms,
     pstep (t, s) (PSeek (Z.of_nat (length (hist s) - pos s))) = Some ((t', s'), ms, Z.of_nat (length ms)) /\
     pos s' = length (hist s) /\ cells_ok t' /\
     forall a, abs U t' a = value_latest (hist s) a (abs U t a)).
Proof.
  intros ps U t0 ops t s Ht H1s Hp Hc Hops H.
  pose proof (prun_inv ps U ops (t0, init) (t, s) Ht H1s (pinv_init ps U t0 Hp Hc) Hops H) as Hi.
  pose proof Hi as (_ & _ & Hei & _). cbn [fst snd] in Hei.
  split.
  - destruct (pseek_inv ps U t s (- Z.of_nat (pos s)) Ht H1s Hi) as (t' & s' & ms & E & Hs & (_ & C' & _ & _) & Ab).
    destruct (e_undo_all (abs U t) s Hei) as (f' & s1 & ms1 & Ee & Hp0 & _ & Hv).
    cbn [estep] in Ee. rewrite Hs in Ee. inversion Ee; subst f' s1 ms1.
    exists t', s', ms. split; [exact E|]. split; [exact Hp0|]. split; [exact C'|].
    intro a. rewrite Ab. apply Hv.
  - destruct (pseek_inv ps U t s (Z.of_nat (length (hist s) - pos s)) Ht H1s Hi) as (t' & s' & ms & E & Hs & (_ & C' & _ & _) & Ab).
    destruct (e_redo_all (abs U t) s Hei) as (f' & s1 & ms1 & Ee & Hp0 & _ & Hv).
    cbn [estep] in Ee. rewrite Hs in Ee. inversion Ee; subst f' s1 ms1.
    exists t', s', ms. split; [exact E|]. split; [exact Hp0|]. split; [exact C'|].
    intro a. rewrite Ab. apply Hv.
Qed.

(* ---- tables whose names begin with different characters share no address ---- *)
Definition head_of (c : port) : Z := match p_name (pe c) with h :: _ => h | [] => 0 end.

Lemma owns_head : forall c path, p_name (pe c) <> [] -> owns c path = true ->
  exists r, path = head_of c :: r.
Proof.
  intros c path Hne Ho. unfold owns in Ho. destruct (addr_match c path) as [i|] eqn:E; [|discriminate].
  destruct (addr_match_facts c path i E) as [Ep _]. unfold head_of.
  destruct (p_name (pe c)) as [|h t]; [contradiction|]. exists (t ++ i). rewrite Ep. reflexivity.
Qed.

Lemma uniq_by_head : forall ps, (forall c, In c ps -> p_name (pe c) <> []) ->
  NoDup (map head_of ps) -> uniq ps.
Proof.
  induction ps as [|c r IH]; intros Hne Hnd; [exact I|].
  cbn [map] in Hnd. inversion Hnd as [|? ? Hni Hnd']; subst. split.
  - intros path Ho. destruct (owns_head c path (Hne c (or_introl eq_refl)) Ho) as [rest Ep].
    apply forallb_forall. intros c' Hc'. apply negb_true_iff.
    destruct (owns c' path) eqn:O; [|reflexivity]. exfalso.
    destruct (owns_head c' path (Hne c' (or_intror Hc')) O) as [rest' Ep'].
    rewrite Ep in Ep'. inversion Ep' as [Eh]. apply Hni. rewrite Eh. apply in_map. exact Hc'.
  - apply IH; [intros c' Hc'; apply Hne; right; exact Hc'|exact Hnd'].
Qed.

(* ---- non-vacuity: a clamped integer, an integer array and a toggle ---- *)
Definition ex_pi : port :=      (* rParamI(i, rLinear(-100, 100)) *)
  mkPort KI {| p_name := [105]; p_hash := false; p_min := Some (-100); p_max := Some 100; p_map := [] |} 0.
Definition ex_pn : port :=      (* rArrayI(n, 4) *)
  mkPort KAI {| p_name := [110]; p_hash := true; p_min := None; p_max := None; p_map := [] |} 4.
Definition ex_pt : port :=      (* rToggle(t) *)
  mkPort KT {| p_name := [116]; p_hash := false; p_min := None; p_max := None; p_map := [] |} 0.
Definition ex_ports : list port := [ex_pi; ex_pn; ex_pt].
Definition ex_table : list (port * list Z) := [(ex_pi, [0]); (ex_pn, [0; 0; 0; 0]); (ex_pt, [0])].
Definition ex_U : list str := [[105]; [110; 49]; [110; 50]; [116]].
(* /i := 500 (stored 100), /n1 := 5, 3 s, /t := T, /n1 := 7, undo one step, /n2 := -3 *)
Definition ex_pops : list pop :=
  [PSet [105] [Ai 500]; PSet [110; 49] [Ai 5]; PTick 3; PSet [116] [ATrue];
   PSet [110; 49] [Ai 7]; PSeek (-1); PSet [110; 50] [Ai (-3)]].

Lemma ex_table_ok : table_ok ex_ports.
Proof.
  split.
  - assert (B : forall (k : kind) (mn mx : option Z), mn = None \/ mx = None \/ (mn = Some (-100) /\ mx = Some 100) ->
                bounds_ordered zkey mn mx).
    { intros k mn mx [E|[E|[E1 E2]]] lo hi H1 H2; subst; try discriminate.
      inversion H1; inversion H2; subst; unfold zkey; lia. }
    constructor; [|constructor; [|constructor; [|constructor]]]; unfold port_ok; cbn [pk pe ex_pi ex_pn ex_pt].
    + split; [left; reflexivity|]. split; [exact I|]. split; [apply (B KI); tauto|].
      split; [constructor|]. split; [reflexivity|]. split; intros; exact I.
    + split; [left; reflexivity|]. split; [split; intros b Hb; discriminate Hb|]. split; [apply (B KAI); tauto|].
      split; [constructor|]. split; [reflexivity|]. split; intros; exact I.
    + split; [right; left; reflexivity|]. split; [exact I|]. split; [apply (B KT); tauto|].
      split; [constructor|]. split; [reflexivity|]. split; intros; exact I.
  - apply uniq_by_head.
    + intros c [H|[H|[H|[]]]]; subst c; discriminate.
    + cbn. repeat constructor; cbn; intuition discriminate.
Qed.

Lemma ex_one_spelling : one_spelling ex_ports ex_U.
Proof.
  intros c p p' i i' Hc Hp Hp' A A' E.
  destruct Hc as [Hc|[Hc|[Hc|[]]]]; subst c;
    destruct Hp as [Hp|[Hp|[Hp|[Hp|[]]]]]; subst p; vm_compute in A; try discriminate;
    destruct Hp' as [Hp'|[Hp'|[Hp'|[Hp'|[]]]]]; subst p'; vm_compute in A'; try discriminate;
    try reflexivity; inversion A; inversion A'; subst; vm_compute in E; discriminate.
Qed.

Lemma ex_cells_ok : cells_ok ex_table.
Proof.
  repeat constructor; cbn; try discriminate; try (intros lo Hl; inversion Hl; subst; unfold zkey; lia);
    try (unfold char_range; lia).
Qed.

Ltac ex_pset :=
  split; [reflexivity|]; split; [discriminate|];
  let c := fresh "c" in let H := fresh "H" in let PM := fresh "PM" in let Hu := fresh "Hu" in
  intros c [H|[H|[H|[]]]] PM Hu; subst c; vm_compute in PM; try discriminate; try discriminate Hu;
  (split; [cbn; constructor; unfold char_range; lia | intros a v Ha Hv; exact I]).

Lemma ex_pops_ok : Forall (pop_ok ex_ports ex_U) ex_pops.
Proof.
  unfold ex_pops.
  constructor; [ex_pset|]. constructor; [ex_pset|]. constructor; [cbn; lia|].
  constructor; [ex_pset|]. constructor; [ex_pset|]. constructor; [exact I|].
  constructor; [ex_pset|]. constructor.
Qed.

Lemma ports_nonvacuous :
  table_ok ex_ports /\ one_spelling ex_ports ex_U /\ cells_ok ex_table /\
  Forall (pop_ok ex_ports ex_U) ex_pops /\
  exists t s, prun ex_pops (ex_table, init) = Some (t, s) /\
    t = [(ex_pi, [100]); (ex_pn, [0; 5; -3; 0]); (ex_pt, [1])] /\
    hist s = [mkEv 1000 [47; 105] 105 0 100; mkEv 1000 [47; 110; 49] 105 0 5;
              mkEv 1003 [47; 110; 50] 105 0 (-3)] /\ pos s = 3%nat.
Proof.
  split; [exact ex_table_ok|]. split; [exact ex_one_spelling|]. split; [exact ex_cells_ok|].
  split; [exact ex_pops_ok|]. eexists _, _. split; [vm_compute; reflexivity|].
  split; [reflexivity|]. split; reflexivity.
Qed.

(* the event's type tag matters: the set-message built from an event that carries
   'c' payloads for an element of "n#4::i" reaches no port and restores nothing *)
Lemma wrong_tag_not_replayed :
  replay_msgs [(ex_pn, [0; 5; 0; 0])] [SetMsg [47; 110; 49] 99 0] = Some ([(ex_pn, [0; 5; 0; 0])], 0) /\
  replay_msgs [(ex_pn, [0; 5; 0; 0])] [SetMsg [47; 110; 49] 105 0] = Some ([(ex_pn, [0; 0; 0; 0])], 1).
Proof. split; vm_compute; reflexivity. Qed.
