(* C15 - the end-to-end model through C14's ports (Undo/UndoPortsModel.v)
   refines the abstract application of Undo/UndoModel.v (a store address ->
   value, [estep]): what the ports record is what [Change] records, what a seek
   does to the fields of the ports is what [apply_msgs] does to the store.
   The link is C14's contract of one set message (Ports/SugarReplay.v:
   [step_slot_facts] - the event carries the address, the old and the new
   value with the port's own argument type; a replayed value is stored as it
   is).  With it the undo-all / redo-all theorem of the abstract application
   holds of the fields of the ports. *)
From Coq Require Import List ZArith Bool Lia.
From RtoscV Require Import Ports.SugarModel Ports.SugarProofs Ports.SugarReplay.
From RtoscV Require Import Undo.UndoModel Undo.UndoProofs Undo.UndoPortsModel.
Import ListNotations.
Local Open Scope Z_scope.

(* ---- well-formed tables ---- *)
Definition undoable (k : kind) : bool :=
  match k with KP | KI | KF | KO | KAI | KAF | KAO | KCO => true | _ => false end.

Lemma undoable_kind : forall k, undoable k = true -> undo_kind k.
Proof.
  intros k H. unfold undo_kind, numeric_kind.
  destruct k; try discriminate; tauto.
Qed.

(* on these float patterns the ports' "!=" is inequality of the bit patterns:
   ordered (val_ok), not -0.0, counted from 0 *)
Definition canon (k : kind) (v : Z) : Prop :=
  match k with KF | KAF => 0 <= v /\ v <> 2147483648 | _ => True end.
Definition good (c : port) (v : Z) : Prop := stable (pe c) (pk c) v /\ canon (pk c) v.

Definition cell_len (c : port) : nat :=
  match pk c with
  | KAI | KAF | KAO | KAT => Z.to_nat (pn c)
  | KPS len => Z.to_nat len
  | KCO => 2%nat
  | _ => 1%nat
  end.

Definition port_ok (c : port) : Prop :=
  let k := pk c in let e := pe c in
  (undoable k = true \/ k = KT \/ k = KAT \/ exists len, k = KPS len) /\
  env_ok e k /\ bounds_ordered (kind_key k) (p_min e) (p_max e) /\ map_in_range e /\
  p_hash e = indexed k /\
  (forall b, p_min e = Some b -> canon k b) /\ (forall b, p_max e = Some b -> canon k b).

Definition contents_ok (c : cell) : Prop :=
  length (snd c) = cell_len (fst c) /\
  (undoable (pk (fst c)) = true ->
   match pk (fst c) with
   | KCO => exists v n, snd c = [v; n] /\ good (fst c) v
   | _ => Forall (good (fst c)) (snd c)
   end).

Definition owns (c : port) (path : str) : bool :=
  match addr_match c path with Some _ => true | None => false end.

(* no two ports of the table answer the same address *)
Fixpoint uniq (ps : list port) : Prop :=
  match ps with
  | [] => True
  | c :: r => (forall path, owns c path = true -> forallb (fun c' => negb (owns c' path)) r = true) /\ uniq r
  end.

Definition ports (t : table) : list port := map fst t.

(* ---- the abstract store of a table ---- *)
Definition idx_of (k : kind) (idxtext : str) : nat :=
  if indexed k then Z.to_nat (atoi_acc 0 idxtext) else 0%nat.

Definition cell_value (c : cell) (path : str) : option Z :=
  match addr_match (fst c) path with
  | Some idxtext =>
    if undoable (pk (fst c)) then nth_error (snd c) (idx_of (pk (fst c)) idxtext) else None
  | None => None
  end.

Fixpoint lookup (t : table) (path : str) : option Z :=
  match t with
  | [] => None
  | c :: r => if owns (fst c) path then cell_value c path else lookup r path
  end.

Fixpoint mem (p : str) (U : list str) : bool :=
  match U with [] => false | q :: r => str_eqb p q || mem p r end.

(* the value at an address, for the spellings in U (the addresses a history uses) *)
Definition abs (U : list str) (t : table) : store :=
  fun a => match a with
           | c :: path => if (c =? 47) && mem path U
                          then match lookup t path with Some v => v | None => 0 end else 0
           | [] => 0
           end.

(* one spelling per element: two addresses of U that one port answers name different entries *)
Definition one_spelling (ps : list port) (U : list str) : Prop :=
  forall c p p' i i', In c ps -> In p U -> In p' U ->
    addr_match c p = Some i -> addr_match c p' = Some i' ->
    idx_of (pk c) i = idx_of (pk c) i' -> p = p'.

(* ---- dispatch on a table without shared addresses ---- *)
Lemma port_match_owns : forall c path args, port_match c path args = true -> owns c path = true.
Proof. intros c path args H. unfold port_match in H. unfold owns. destruct (addr_match c path); [reflexivity|discriminate]. Qed.

Lemma dispatch_miss : forall t path args,
  forallb (fun c' => negb (owns c' path)) (ports t) = true ->
  dispatch t path args = Some (t, [], 0).
Proof.
  induction t as [|[c st] r IH]; intros path args H; [reflexivity|].
  cbn [ports map forallb fst] in H. apply andb_true_iff in H. destruct H as [H1 H2].
  cbn [dispatch]. destruct (port_match c path args) eqn:E.
  - apply port_match_owns in E. rewrite E in H1. discriminate.
  - rewrite (IH path args H2). reflexivity.
Qed.

Lemma lookup_miss : forall t path,
  forallb (fun c' => negb (owns c' path)) (ports t) = true -> lookup t path = None.
Proof.
  induction t as [|[c st] r IH]; intros path H; [reflexivity|].
  cbn [ports map forallb fst] in H. apply andb_true_iff in H. destruct H as [H1 H2].
  cbn [lookup fst]. destruct (owns c path); [discriminate|]. apply IH. exact H2.
Qed.

(* the one cell that answers the address, if any *)
Inductive located (t : table) (path : str) : Prop :=
| Nowhere : forallb (fun c' => negb (owns c' path)) (ports t) = true -> located t path
| Here : forall t1 c st t2, t = t1 ++ (c, st) :: t2 -> owns c path = true ->
    forallb (fun c' => negb (owns c' path)) (ports t1) = true ->
    forallb (fun c' => negb (owns c' path)) (ports t2) = true -> located t path.

Lemma locate : forall t path, uniq (ports t) -> located t path.
Proof.
  induction t as [|[c st] r IH]; intros path Hu; [apply Nowhere; reflexivity|].
  cbn [ports map fst uniq] in Hu. destruct Hu as [Hc Hr].
  destruct (owns c path) eqn:E.
  - apply (Here _ _ [] c st r); [reflexivity|exact E|reflexivity|]. apply Hc. exact E.
  - destruct (IH path Hr) as [Hn|t1 c' st' t2 Et Ho H1 H2].
    + apply Nowhere. cbn [ports map forallb fst]. rewrite E. exact Hn.
    + apply (Here _ _ ((c, st) :: t1) c' st' t2); [rewrite Et; reflexivity|exact Ho| |exact H2].
      cbn [ports map forallb fst]. rewrite E. exact H1.
Qed.

Lemma dispatch_here : forall t1 c st t2 path args,
  forallb (fun c' => negb (owns c' path)) (ports t1) = true ->
  forallb (fun c' => negb (owns c' path)) (ports t2) = true ->
  dispatch (t1 ++ (c, st) :: t2) path args =
  if port_match c path args then
    match SugarModel.step (pk c) (pe c) (47 :: path) path st args with
    | Some (st', o) => Some (t1 ++ (c, st') :: t2, o, 1)
    | None => None
    end
  else Some (t1 ++ (c, st) :: t2, [], 0).
Proof.
  induction t1 as [|[c1 s1] r IH]; intros c st t2 path args H1 H2.
  - cbn [app dispatch]. rewrite (dispatch_miss t2 path args H2).
    destruct (port_match c path args); [|reflexivity].
    destruct (SugarModel.step (pk c) (pe c) (47 :: path) path st args) as [[st' o]|]; [|reflexivity].
    rewrite app_nil_r. reflexivity.
  - cbn [ports map forallb fst] in H1. apply andb_true_iff in H1. destruct H1 as [Ha Hb].
    cbn [app dispatch]. destruct (port_match c1 path args) eqn:E.
    + apply port_match_owns in E. rewrite E in Ha. discriminate.
    + rewrite (IH c st t2 path args Hb H2).
      destruct (port_match c path args); [|reflexivity].
      destruct (SugarModel.step (pk c) (pe c) (47 :: path) path st args) as [[st' o]|]; reflexivity.
Qed.

Lemma lookup_here : forall t1 c st t2 path,
  forallb (fun c' => negb (owns c' path)) (ports t1) = true -> owns c path = true ->
  lookup (t1 ++ (c, st) :: t2) path = cell_value (c, st) path.
Proof.
  induction t1 as [|[c1 s1] r IH]; intros c st t2 path H1 Ho.
  - cbn [app lookup fst]. rewrite Ho. reflexivity.
  - cbn [ports map forallb fst] in H1. apply andb_true_iff in H1. destruct H1 as [Ha Hb].
    cbn [app lookup fst]. destruct (owns c1 path); [discriminate|]. apply IH; assumption.
Qed.

(* elsewhere the lookup does not see the contents of the cell *)
Lemma lookup_other : forall t1 c st st' t2 path,
  owns c path = false ->
  lookup (t1 ++ (c, st') :: t2) path = lookup (t1 ++ (c, st) :: t2) path.
Proof.
  induction t1 as [|[c1 s1] r IH]; intros c st st' t2 path Ho.
  - cbn [app lookup fst]. rewrite Ho. reflexivity.
  - cbn [app lookup fst]. destruct (owns c1 path); [reflexivity|]. apply IH. exact Ho.
Qed.

Lemma lookup_same_cell : forall t1 c st st' t2 path,
  owns c path = true -> cell_value (c, st') path = cell_value (c, st) path ->
  lookup (t1 ++ (c, st') :: t2) path = lookup (t1 ++ (c, st) :: t2) path.
Proof.
  induction t1 as [|[c1 s1] r IH]; intros c st st' t2 path Ho Hv.
  - cbn [app lookup fst]. rewrite Ho. exact Hv.
  - cbn [app lookup fst]. destruct (owns c1 path); [reflexivity|]. apply IH; assumption.
Qed.

(* ---- addresses ---- *)
Lemma strip_prefix_app : forall p s r, strip_prefix p s = Some r -> s = p ++ r.
Proof.
  induction p as [|x p IH]; intros s r H; [inversion H; reflexivity|].
  destruct s as [|y s]; [discriminate|]. cbn [strip_prefix] in H.
  destruct (x =? y) eqn:E; [|discriminate]. apply Z.eqb_eq in E. subst y.
  cbn [app]. f_equal. apply IH. exact H.
Qed.

Lemma atoi_acc_nonneg : forall m acc, 0 <= acc -> 0 <= atoi_acc acc m.
Proof.
  induction m as [|c r IH]; intros acc H; [exact H|].
  cbn [atoi_acc]. destruct (is_digit c) eqn:E; [|exact H].
  apply IH. unfold is_digit in E. lia.
Qed.

Lemma addr_match_facts : forall c path idx,
  addr_match c path = Some idx ->
  path = p_name (pe c) ++ idx /\
  (if indexed (pk c)
   then exists d r, idx = d :: r /\ is_digit d = true /\ atoi_acc 0 idx < pn c
   else idx = []).
Proof.
  intros c path idx H. unfold addr_match in H.
  destruct (strip_prefix (p_name (pe c)) path) as [i|] eqn:E; [|discriminate].
  destruct (forallb is_digit i && dispatch_guard (pk c) (pn c) i []) eqn:G; [|discriminate].
  inversion H; subst i. split; [apply strip_prefix_app; exact E|].
  apply andb_true_iff in G. destruct G as [_ G]. unfold dispatch_guard in G.
  apply andb_true_iff in G. destruct G as [_ G].
  destruct (indexed (pk c)).
  - destruct idx as [|d r]; [discriminate|]. apply andb_true_iff in G. destruct G as [G1 G2].
    exists d, r. split; [reflexivity|]. split; [exact G1|]. apply Z.ltb_lt. exact G2.
  - destruct idx; [reflexivity|discriminate].
Qed.

Lemma slot_idx : forall c path idx,
  undoable (pk c) = true -> p_hash (pe c) = indexed (pk c) ->
  addr_match c path = Some idx ->
  slot (pk c) (pe c) path = idx_of (pk c) idx /\ (idx_of (pk c) idx < cell_len c)%nat.
Proof.
  intros c path idx Hu Hh H. destruct (addr_match_facts c path idx H) as [Ep Hi].
  unfold slot, idx_of, cell_len.
  assert (AR : indexed (pk c) = true ->
               Z.to_nat (boils_idx (pe c) path) = Z.to_nat (atoi_acc 0 idx) /\
               (Z.to_nat (atoi_acc 0 idx) < Z.to_nat (pn c))%nat).
  { intro Ei. rewrite Ei in Hi, Hh. destruct Hi as (d & r & Ed & Hd & Hlt).
    unfold boils_idx. rewrite Hh, Ep, skipn_length_app. subst idx. cbn [skip_nondigit]. rewrite Hd.
    split; [reflexivity|].
    pose proof (atoi_acc_nonneg (d :: r) 0 ltac:(lia)). lia. }
  destruct (pk c); try discriminate; cbn [indexed is_array orb] in *;
    try (split; [reflexivity|lia]); apply AR; reflexivity.
Qed.

(* a port that is not indexed answers one address only *)
Lemma scalar_one_address : forall c p p' i i',
  indexed (pk c) = false -> addr_match c p = Some i -> addr_match c p' = Some i' -> p = p'.
Proof.
  intros c p p' i i' Hi H H'.
  destruct (addr_match_facts c p i H) as [E1 F1]. destruct (addr_match_facts c p' i' H') as [E2 F2].
  rewrite Hi in F1, F2. subst. reflexivity.
Qed.

(* ---- what the history records of a callback's output ---- *)
Lemma record_outs_undo : forall os s, record_outs s os = record_outs s (undo_events os).
Proof.
  induction os as [|o r IH]; intro s; [reflexivity|].
  unfold undo_events. cbn [filter]. destruct o as [m|m]; cbn [is_undo].
  - destruct (str_eqb (o_path m) undo_path) eqn:E.
    + cbn [record_outs record_out]. rewrite E.
      destruct (o_args m) as [|x [|a [|b [|y r']]]]; try reflexivity;
        destruct x; try reflexivity.
      destruct (arg_val a), (arg_val b); try reflexivity.
      destruct (tag a =? tag b); [apply IH|reflexivity].
    + cbn [record_outs record_out]. rewrite E. apply IH.
  - cbn [record_outs record_out]. apply IH.
Qed.

Lemma fkey_inj : forall a b, 0 <= a -> a <> 2147483648 -> 0 <= b -> b <> 2147483648 ->
  fkey a = fkey b -> a = b.
Proof.
  intros a b Ha Ha' Hb Hb' H. unfold fkey in H.
  destruct (a <? 2147483648) eqn:Ea; destruct (b <? 2147483648) eqn:Eb; lia.
Qed.

Lemma good_key_eqb : forall c x y, good c x -> good c y ->
  (kind_key (pk c) x =? kind_key (pk c) y) = (x =? y).
Proof.
  intros c x y [_ Cx] [_ Cy]. unfold canon in Cx, Cy.
  assert (F : (fkey x =? fkey y) = (x =? y) \/ kind_key (pk c) = zkey).
  { destruct (pk c); try (right; reflexivity); left;
      destruct Cx, Cy; destruct (x =? y) eqn:E;
      [apply Z.eqb_eq in E; subst; apply Z.eqb_refl | apply Z.eqb_neq; intro F; apply Z.eqb_neq in E; apply E; apply fkey_inj; assumption
      |apply Z.eqb_eq in E; subst; apply Z.eqb_refl | apply Z.eqb_neq; intro F; apply Z.eqb_neq in E; apply E; apply fkey_inj; assumption]. }
  destruct F as [F|F]; [|rewrite F; reflexivity].
  destruct (pk c); try reflexivity; exact F.
Qed.

Lemma arg_val_tag_event : forall k v w,
  arg_val (event_arg k v) = Some v /\ tag (event_arg k v) = tag (event_arg k w).
Proof. intros k v w. destruct k; split; reflexivity. Qed.

(* the arguments of a set message on a float port are canonical patterns *)
Definition args_canon (k : kind) (args : list arg) : Prop :=
  forall a v, In a args -> arg_val a = Some v -> canon k v.

Lemma contents_forall : forall c (st : list Z), pk c <> KCO ->
  (match pk c with
   | KCO => exists v n, st = [v; n] /\ good c v
   | _ => Forall (good c) st
   end) <-> Forall (good c) st.
Proof. intros c st H. destruct (pk c); try reflexivity. contradiction. Qed.

(* ---- one set message on the cell that answers it ---- *)
Lemma cell_set : forall c st path idx args st' outs s,
  port_ok c -> contents_ok (c, st) -> undoable (pk c) = true ->
  addr_match c path = Some idx -> conf (pe c) (pk c) args -> args_canon (pk c) args ->
  47 :: path <> undo_path ->
  SugarModel.step (pk c) (pe c) (47 :: path) path st args = Some (st', outs) ->
  exists old new,
    cell_value (c, st) path = Some old /\ cell_value (c, st') path = Some new /\
    contents_ok (c, st') /\ good c old /\ good c new /\
    (forall p' i', addr_match c p' = Some i' -> idx_of (pk c) i' <> idx_of (pk c) idx ->
                   cell_value (c, st') p' = cell_value (c, st) p') /\
    record_outs s outs =
      Some (if old =? new then s else record (47 :: path) (tag (event_arg (pk c) 0)) old new s) /\
    (forall v, args = [event_arg (pk c) v] -> good c v -> new = v).
Proof.
  intros c st path idx args st' outs s Hp Hc Hu Ha Hcf Hca Hloc H.
  destruct Hp as (_ & Henv & Hord & Hmap & Hh & Cmn & Cmx).
  destruct Hc as [Hlen Hgood]. cbn [fst snd] in Hlen, Hgood. specialize (Hgood Hu).
  destruct (slot_idx c path idx Hu Hh Ha) as [Es Hlt].
  assert (Hst : stored_stable (pe c) (pk c) st).
  { unfold stored_stable. destruct (pk c) eqn:Ek; try discriminate;
      try (eapply Forall_impl; [|exact Hgood]; intros x [Hx _]; rewrite Ek in Hx; exact Hx).
    destruct Hgood as (v & n & E & [G _]). rewrite Ek in G. exists v, n. split; assumption. }
  pose proof (step_slot_facts (pk c) (pe c) (47 :: path) path st args st' outs
                (undoable_kind _ Hu) Henv Hord Hmap Hcf Hst Hloc H)
    as (old & new & N1 & N2 & L & Fr & So & Sn & Ue & Rp & Pk).
  rewrite Es in N1, N2, Fr.
  assert (Go : good c old).
  { split; [exact So|].
    assert (Fo : (pk c = KF \/ pk c = KAF) -> canon (pk c) old).
    { intro Hk. assert (Hf : Forall (good c) st) by (destruct Hk as [E|E]; rewrite E in Hgood; exact Hgood).
      exact (proj2 (Forall_nth_error _ _ _ _ _ Hf N1)). }
    destruct (pk c) eqn:Ek; try exact I; apply Fo; auto. }
  assert (Gn : good c new).
  { split; [exact Sn|].
    assert (Fl : (pk c = KF \/ pk c = KAF) -> canon (pk c) new).
    { intro Hk. apply (Pk (canon (pk c)) Hk).
      - exact (proj2 Go).
      - intros b Eb. apply (Hca (Af b) b); [rewrite Eb; left; reflexivity|reflexivity].
      - exact Cmn.
      - exact Cmx. }
    destruct (pk c) eqn:Ek; try exact I; apply Fl; auto. }
  exists old, new.
  assert (CV : forall sx, cell_value (c, sx) path = nth_error sx (idx_of (pk c) idx)).
  { intro sx. unfold cell_value. cbn [fst snd]. rewrite Ha, Hu. reflexivity. }
  split; [rewrite CV; exact N1|]. split; [rewrite CV; exact N2|].
  split.
  { split; cbn [fst snd]; [rewrite L; exact Hlen|]. intros _.
    assert (Hco : pk c = KCO \/ pk c <> KCO) by (destruct (pk c); (left; reflexivity) || (right; discriminate)).
    destruct Hco as [E|Hn].
    - rewrite E in Hgood |- *. destruct Hgood as (v & n & Est & G). subst st. cbn [length] in L.
      destruct st' as [|x [|y [|z r]]]; try discriminate.
      rewrite E in N2. unfold idx_of in N2. cbn [indexed is_array orb nth_error] in N2. inversion N2; subst x.
      exists new, y. split; [reflexivity|exact Gn].
    - apply (contents_forall c st' Hn). apply (contents_forall c st Hn) in Hgood.
      apply Forall_forall. intros x Hx. apply In_nth_error in Hx. destruct Hx as [j Hj].
      destruct (Nat.eq_dec j (idx_of (pk c) idx)) as [Ej|Ej].
      + subst j. rewrite N2 in Hj. inversion Hj; subst x. exact Gn.
      + rewrite (Fr j Ej Hn) in Hj. exact (Forall_nth_error _ _ _ _ _ Hgood Hj). }
  split; [exact Go|]. split; [exact Gn|].
  split.
  { intros p' i' Ha' Hne. unfold cell_value. cbn [fst snd]. rewrite Ha', Hu.
    apply Fr; [exact Hne|].
    intro Ek. apply Hne. unfold idx_of. rewrite Ek. reflexivity. }
  split.
  { rewrite record_outs_undo, Ue, (good_key_eqb c old new Go Gn).
    destruct (old =? new); [reflexivity|].
    cbn [record_outs record_out mk o_path o_args]. rewrite str_eqb_refl.
    destruct (arg_val_tag_event (pk c) old new) as [A1 T1].
    destruct (arg_val_tag_event (pk c) new old) as [A2 _].
    destruct (arg_val_tag_event (pk c) old 0) as [_ T0].
    rewrite A1, A2, T1, Z.eqb_refl, <- T1, T0. reflexivity. }
  intros v Ev [Sv _]. exact (Rp v Ev Sv).
Qed.
