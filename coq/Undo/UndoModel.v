(* C15 - model of rtosc::UndoHistory (src/cpp/undo-history.cpp) with the
   clock made explicit, and of the little application loop around it
   (a parameter port records "/undo_change" when its value changes; undo
   messages are dispatched back with recording disabled, test/undo-test.cpp).

   An event is the stored "/undo_change s<t><t> addr old new" message together
   with the time stamp of the deque entry.  Numeric payloads are 32-bit
   patterns (types i f c all occupy four bytes), addresses are byte strings
   without the terminator.  [history[i]] is [nth_error hist i]: an index
   outside the deque is representable (None) and the seek functions return
   None in that case.  The model follows the code after the D13 repair
   (mergeEvent skips entries older than two seconds instead of stopping at
   the first one); the previous scan is kept in UndoRegress.v.

   No proofs in this file. *)
From Coq Require Import List ZArith Bool.
Import ListNotations.
Local Open Scope Z_scope.

Definition addr := list Z.

Record ev := mkEv { etime : Z; eaddr : addr; ety : Z; eold : Z; enew : Z }.

(* deque + history_pos, and the harness clock read by time(NULL) *)
Record hstate := mkH { hist : list ev; pos : nat; clock : Z }.

Definition init : hstate := mkH [] 0 1000.

(* !strcmp(a, b) *)
Fixpoint addr_eqb (a b : addr) : bool :=
  match a, b with
  | [], [] => true
  | x :: a', y :: b' => (x =? y) && addr_eqb a' b'
  | _, _ => false
  end.

(* ---- the messages handed to the callback -------------------------------- *)
Inductive msg :=
| SetMsg (a : addr) (ty : Z) (v : Z).   (* "<addr> ,<ty> v" *)

(* UndoHistoryImpl::rewind / replay: the set-message built from argument 1 / 2
   of the event.  After the long-address repair the buffer is sized from the
   message (static 256 bytes or a heap block), so the callback always gets the
   message; the previous fixed-buffer functions are kept in UndoRegress.v *)
Definition rewind (e : ev) : list msg := [SetMsg (eaddr e) (ety e) (eold e)].
Definition replay (e : ev) : list msg := [SetMsg (eaddr e) (ety e) (enew e)].

(* ---- mergeEvent ---------------------------------------------------------- *)
(* the loop "for(i = history_pos-1; i >= 0; --i)" over the entries newest
   first; result = the same list with the merged entry, None = return false *)
Fixpoint merge_scan (now : Z) (a : addr) (ty nw : Z) (l : list ev) : option (list ev) :=
  match l with
  | [] => None
  | h :: t =>
      if now - etime h >? 2 then                       (* difftime(now, t) > 2: continue *)
        match merge_scan now a ty nw t with Some t' => Some (h :: t') | None => None end
      else if addr_eqb a (eaddr h) then
        (* args = {addr of msg, old of history[i], new of msg}, types of msg *)
        Some (mkEv now a ty (eold h) nw :: t)
      else
        match merge_scan now a ty nw t with Some t' => Some (h :: t') | None => None end
  end.

Definition max_history_size : nat := 20.

(* UndoHistory::recordEvent *)
Definition record (a : addr) (ty old nw : Z) (s : hstate) : hstate :=
  let h1 := if Nat.eqb (length (hist s)) (pos s) then hist s else firstn (pos s) (hist s) in
  let now := clock s in
  match (if Nat.eqb (pos s) 0 then None
         else merge_scan now a ty nw (rev (firstn (pos s) h1))) with
  | Some l => mkH (rev l ++ skipn (pos s) h1) (pos s) now
  | None =>
      let h2 := h1 ++ [mkEv now a ty old nw] in
      let p2 := S (pos s) in
      if Nat.ltb max_history_size (length h2)
      then mkH (tl h2) (Nat.pred p2) now
      else mkH h2 p2 now
  end.

(* ---- seekHistory --------------------------------------------------------- *)
(* while(distance++) rewind(history[--history_pos]) *)
Fixpoint rewind_loop (n : nat) (h : list ev) (p : nat) : option (nat * list msg) :=
  match n with
  | O => Some (p, [])
  | S n' =>
      match p with
      | O => None
      | S p' =>
          match nth_error h p' with
          | None => None
          | Some e =>
              match rewind_loop n' h p' with
              | Some (q, ms) => Some (q, rewind e ++ ms)
              | None => None
              end
          end
      end
  end.

(* while(distance--) replay(history[history_pos++]) *)
Fixpoint replay_loop (n : nat) (h : list ev) (p : nat) : option (nat * list msg) :=
  match n with
  | O => Some (p, [])
  | S n' =>
      match nth_error h p with
      | None => None
      | Some e =>
          match replay_loop n' h (S p) with
          | Some (q, ms) => Some (q, replay e ++ ms)
          | None => None
          end
      end
  end.

Definition seek (k : Z) (s : hstate) : option (hstate * list msg) :=
  let p := Z.of_nat (pos s) in
  let n := Z.of_nat (length (hist s)) in
  let dest := p + k in
  let k1 := if dest <? 0 then k - dest else k in
  let k2 := if dest >? n then n - p else k1 in
  if k2 =? 0 then Some (s, [])
  else
    match (if k2 <? 0 then rewind_loop (Z.to_nat (- k2)) (hist s) (pos s)
           else replay_loop (Z.to_nat k2) (hist s) (pos s)) with
    | Some (q, ms) => Some (mkH (hist s) q (clock s), ms)
    | None => None
    end.

(* ---- operation histories -------------------------------------------------- *)
Inductive op :=
| Record (a : addr) (ty old nw : Z)
| Seek (k : Z)
| Tick (d : Z).

Definition step (s : hstate) (o : op) : option (hstate * list msg) :=
  match o with
  | Record a ty old nw => Some (record a ty old nw s, [])
  | Seek k => seek k s
  | Tick d => Some (mkH (hist s) (pos s) (clock s + d), [])
  end.

(* state after the history and the messages of every operation *)
Fixpoint run (ops : list op) (s : hstate) : option (hstate * list (list msg)) :=
  match ops with
  | [] => Some (s, [])
  | o :: r =>
      match step s o with
      | None => None
      | Some (s', ms) =>
          match run r s' with
          | Some (s'', mss) => Some (s'', ms :: mss)
          | None => None
          end
      end
  end.

(* ---- the application around it (end-to-end histories) -------------------- *)
Definition store := addr -> Z.

Definition upd (f : store) (a : addr) (v : Z) : store :=
  fun x => if addr_eqb x a then v else f x.

Definition apply_msg (f : store) (m : msg) : store :=
  match m with SetMsg a _ v => upd f a v end.

Definition apply_msgs (f : store) (ms : list msg) : store := fold_left apply_msg ms f.

Inductive eop :=
| Change (a : addr) (ty v : Z)   (* a set message reaches the port of a *)
| ESeek (k : Z)
| ETick (d : Z).

(* rCAPPLY: if(old != var) reply("/undo_change", ..., loc, old, var); set *)
Definition estep (st : store * hstate) (o : eop) : option ((store * hstate) * list msg) :=
  let (f, s) := st in
  match o with
  | Change a ty v =>
      if f a =? v then Some ((f, s), [])
      else Some ((upd f a v, record a ty (f a) v s), [])
  | ESeek k =>
      match seek k s with
      | Some (s', ms) => Some ((apply_msgs f ms, s'), ms)
      | None => None
      end
  | ETick d => Some ((f, mkH (hist s) (pos s) (clock s + d)), [])
  end.

Fixpoint erun (ops : list eop) (st : store * hstate) : option (store * hstate) :=
  match ops with
  | [] => Some st
  | o :: r => match estep st o with Some (st', _) => erun r st' | None => None end
  end.

Definition zero_store : store := fun _ => 0.
