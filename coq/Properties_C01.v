(* C01 - OSC 1.0 wire format: encoding is spec-exact, decoding is lossless.
   Only the property theorems, each closed by [exact]. Model: Osc/OscModel.v
   (enc_spec is the OSC 1.0 text; size_null / amessage / the readers follow
   src/rtosc.c).  For all addresses, type-tag strings and argument lists.

   Which constructors: the theorems here are about the measuring pass and
   rtosc_amessage (argument array).  rtosc_avmessage (argument-value list) is
   proved in C16 (C16_iterate_message: its message is enc_spec of the expanded
   values, through this codec).  rtosc_vmessage / rtosc_message (varargs) turn
   their va_list into an argument array and call rtosc_amessage; that unpacking
   (default argument promotions) is not modelled: it is tied to these theorems
   only by the correspondence run, which calls it through a hand-built va_list
   and demands the same bytes (streams msg and cap).
   [code_range]: total size < 2^32 and blob lengths < 2^31 - the region in
   which the unbounded-Z model of the encoder is the code's unsigned/int32
   arithmetic. *)
From Coq Require Import List ZArith.
From RtoscV Require Import Osc.OscModel Osc.OscEncProofs Osc.OscReadProofs Osc.OscLenProofs Osc.OscContentProofs Osc.OscRegress.
Import ListNotations.
Local Open Scope Z_scope.

(* the measuring pass (vsosc_null, also the NULL-buffer probe) returns the
   length of the OSC 1.0 encoding *)
Theorem C01_size_is_spec : forall a tags args,
  args_wf tags args -> code_range a tags args ->
  size_null a tags args = Ok (zlen (enc_spec a tags args)).
Proof. exact size_null_spec_r. Qed.

(* rtosc_amessage writes exactly the OSC 1.0 encoding and returns its length
   (here: into a buffer that is large enough; every capacity is C02) *)
Theorem C01_bytes_are_spec : forall a tags args,
  args_wf tags args -> code_range a tags args ->
  let enc := enc_spec a tags args in
  amessage None a tags args = Ok (zlen enc, None) /\
  forall buf,
    amessage (Some buf) a tags args =
    if zlen buf <? zlen enc then Ok (0, Some (zeros (zlen buf)))
    else Ok (zlen enc, Some (enc ++ skipn (length enc) buf)).
Proof. exact amessage_spec_r. Qed.

(* the length function reports that same length for those bytes, whatever
   follows them in memory and whatever bound >= the length is passed *)
Theorem C01_length_roundtrip : forall a tags args rest n,
  msg_wf a tags args -> not_bundle_addr a ->
  zlen (enc_spec a tags args) < W32 ->
  zlen (enc_spec a tags args) <= n ->
  message_length (enc_spec a tags args ++ rest) n = Ok (zlen (enc_spec a tags args)).
Proof. exact message_length_enc. Qed.

(* the iterator yields exactly the original types (brackets dropped) with
   bit-identical numbers and the offsets at which strings/blobs were encoded *)
Theorem C01_iter : forall a tags args rest,
  msg_wf a tags args ->
  itr_all (enc_spec a tags args ++ rest) = Ok (dec_spec tags args (args_off a tags)).
Proof. exact itr_all_enc. Qed.

Theorem C01_iter_types : forall tags args p,
  args_match tags args = true ->
  map fst (dec_spec tags args p) = filter (fun t => negb (is_bracket t)) tags.
Proof. exact dec_spec_types. Qed.

(* the argument count equals the number of values the iterator yields *)
Theorem C01_count : forall a tags args rest,
  msg_wf a tags args ->
  narguments (enc_spec a tags args ++ rest) = Ok (count_nonbracket tags) /\
  zlen (dec_spec tags args (args_off a tags)) = count_nonbracket tags.
Proof.
  exact (fun a tags args rest WF =>
           conj (narguments_enc a tags args rest WF)
                (dec_spec_length tags args (args_off a tags) (wf_match _ _ _ WF))).
Qed.

(* type-by-index and argument-by-index return the idx-th item of that list *)
Theorem C01_decode_by_index : forall a tags args rest idx,
  msg_wf a tags args -> 0 <= idx < count_nonbracket tags ->
  exists t v, nth_error (dec_spec tags args (args_off a tags)) (Z.to_nat idx) = Some (t, v) /\
              type_at (enc_spec a tags args ++ rest) idx = Ok t /\
              argument (enc_spec a tags args ++ rest) idx = Ok v.
Proof. exact argument_enc. Qed.

(* ... and those offsets designate the original bytes: at a string's offset the
   message holds exactly its characters up to the terminator, at a blob's
   offset exactly its len bytes ([content_ok] walks tags, arguments and
   offsets exactly as [dec_spec] does) *)
Theorem C01_content : forall a tags args rest,
  msg_wf a tags args ->
  content_ok (enc_spec a tags args ++ rest) tags args (args_off a tags).
Proof. exact content_enc. Qed.

(* the argument string accessor points at the type tags *)
Theorem C01_argument_string : forall a tags args rest,
  msg_wf a tags args ->
  arg_string (enc_spec a tags args ++ rest) = Ok (tags_off a) /\
  cstr_at (enc_spec a tags args ++ rest) (tags_off a) = Ok tags.
Proof.
  exact (fun a tags args rest WF =>
           conj (arg_string_enc a tags args rest WF) (tags_enc a tags args rest WF)).
Qed.

(* regression witness: the counting loop of the pinned tree disagrees with the
   iterator on "[i]" (repaired by the commit "fix: rtosc_narguments ...") *)
Theorem C01_count_pinned_refuted :
  exists tags, count_next_nonbracket tags <> count_nonbracket tags.
Proof. exact narguments_pinned_refuted. Qed.

(* the hypotheses are satisfiable: "/ab" ",s[ib]T" with a 5-byte string, an
   int and a 3-byte blob *)
Theorem C01_nonvacuous :
  msg_wf [47; 97; 98] [115; 91; 105; 98; 93; 84]
         [PStr [104; 101; 108; 108; 111]; P4 4294967295; PBlob 3 (Some [1; 2; 3])]
  /\ not_bundle_addr [47; 97; 98].
Proof. exact example_msg_wf. Qed.

Theorem C01_code_range_nonvacuous :
  code_range [47; 97; 98] [115; 91; 105; 98; 93; 84]
             [PStr [104; 101; 108; 108; 111]; P4 4294967295; PBlob 3 (Some [1; 2; 3])].
Proof. exact example_code_range. Qed.
