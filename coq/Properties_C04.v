(* C04 - Dispatch delivers a message to exactly the port it addresses.
   Only the property theorems, each closed by [exact]; proofs live in
   Ports/DispatchProofs.v and Ports/DispatchRegress.v, the model in
   Ports/DispatchModel.v (matcher: Match/MatchModel.v, C05).

   Two layers.  (1) One table of Ports::dispatch and ANY callback functions:
   the pure functions scan_hits / lookup_hit say which ports a loop calls, the
   *_fold / *_hit theorems say the loops call exactly those, in order.
   (2) The whole descent through a port TREE of any depth (Ports/TreeProofs.v):
   a root dispatch logs exactly spec_events - level by level the ports whose
   name matches, each with the object handed down, the location so far and its
   own Port - and leaves matches = number of leaf callbacks (+ default-handler
   calls), loc = "/", obj restored (C04_tree_dispatch_loc, C04_tree_dispatch_noloc); the property
   statements C04_loc_full_address, C04_matches_count, C04_port_pointer,
   C04_exactly_one_leaf, C04_tree_strategy_independent are corollaries. *)
From Coq Require Import List ZArith.
From RtoscV Require Import Match.PatSpec Match.MatchModel Match.MatchProofs
     Ports.DispatchModel Ports.DispatchProofs Ports.DispatchRegress Ports.TreeProofs
     Ports.DispatchReuse Ports.DispatchReuseProofs.
Import ListNotations.
Local Open Scope Z_scope.

(* the set of callbacks invoked does not depend on the lookup strategy: for
   every table the (repaired) library decides to hash, every address (any
   bytes 0..255 - byte_str only says the list holds bytes; the letter table has
   256 entries since the fix "the perfect-hash letter table was indexed with a
   plain char") and every type string, the hashed lookup hits port j iff the
   linear scan does; it never fails (no read outside assoc).  pos / assoc are
   ANY result of the search. *)
Theorem C04_strategy_independent : forall T H m args,
  tables_of T = Some H -> lit_table T -> assoc_ok T -> addr_chars m -> byte_str m ->
  lookup_hit T H m args <> LErr /\
  forall j name sub,
    lookup_hit T H m args = LHit j name sub <->
    exists pe, In (j, name, sub, pe) (scan_hits (t_ports T) 0 m args).
Proof. exact hashed_eq_linear. Qed.

(* whatever pos / assoc / remap are (valid or not): a port the hashed branch
   invokes is a port whose name matches the message *)
Theorem C04_hash_sound : forall T H m args j name sub,
  lit_table T -> addr_chars m -> lookup_hit T H m args = LHit j name sub ->
  nth_error (t_ports T) (Z.to_nat j) = Some (name, sub) /\
  exists pe, rtosc_match name m args = Some (true, Some pe).
Proof. exact hashed_sound. Qed.

(* the loops invoke exactly the matching ports, once each, in port order *)
Theorem C04_exactly_matching_noloc : forall cb tid ports i m args obj0 st,
  scan_noloc cb tid ports i m args obj0 st =
  fold_left (step_noloc cb tid m obj0) (scan_hits ports i m args) st.
Proof. exact scan_noloc_fold. Qed.

Theorem C04_exactly_matching_linear : forall cb tid ports i m args obj0 old st,
  scan_loc cb tid ports i m args obj0 old st =
  fold_left (step_loc cb tid m obj0 old) (scan_hits ports i m args) st.
Proof. exact scan_loc_fold. Qed.

Theorem C04_exactly_matching_hashed : forall cb dh T H m args obj0 old st,
  lookup_loc cb dh T H m args obj0 old st =
  match lookup_hit T H m args with
  | LErr => add_log st EvError
  | LMiss => if t_dflt T then call_default dh m obj0 st else st
  | LHit i name sub => step_hashed cb (t_id T) m obj0 old st i name sub
  end.
Proof. exact lookup_loc_hit. Qed.

Theorem C04_scan_hits_are_matches : forall ports i m args j name sub pe,
  In (j, name, sub, pe) (scan_hits ports i m args) <->
  exists n, j = i + Z.of_nat n /\ nth_error ports n = Some (name, sub) /\
            rtosc_match name m args = Some (true, Some pe).
Proof. exact scan_hits_in. Qed.

(* a hashed table delivers a message to at most one port *)
Theorem C04_one_port : forall T H m args j1 n1 s1 p1 j2 n2 s2 p2,
  tables_of T = Some H -> lit_table T -> assoc_ok T -> addr_chars m -> byte_str m ->
  In (j1, n1, s1, p1) (scan_hits (t_ports T) 0 m args) ->
  In (j2, n2, s2, p2) (scan_hits (t_ports T) 0 m args) -> j1 = j2.
Proof. exact hashed_table_unique. Qed.

(* the callback sees its own Port in d.port, loc = old location + its name
   (the matched text for '#' names), matches already counts it if it is a leaf *)
Theorem C04_port_pointer_and_loc : forall cb tid m obj0 old st i name sub pe,
  loc st = Some old ->
  step_loc cb tid m obj0 old st (i, name, sub, pe) =
  restore old (set_obj (cb i m
    {| loc := Some (old ++ (if is_pattern name then firstn (length m - length pe) m else upto_colon name));
       matches := if sub then matches st else matches st + 1;
       obj := obj st; dport := Some (tid, i); log := log st |}) obj0).
Proof. exact callback_sees. Qed.

(* the location buffer is back to what it was after the table was served *)
Theorem C04_loc_restored_linear : forall cb tid ports i m args obj0 old st,
  keeps_loc cb -> loc st = Some old ->
  loc (scan_loc cb tid ports i m args obj0 old st) = Some old.
Proof. exact scan_loc_restores. Qed.

Theorem C04_loc_restored_hashed : forall cb dh T H m args obj0 old st,
  keeps_loc cb -> (forall m d, loc (dh m d) = loc d) -> loc st = Some old ->
  loc (lookup_loc cb dh T H m args obj0 old st) = Some old.
Proof. exact lookup_loc_restores. Qed.

(* the default handler (hashed branch) runs only when no port matches; the two
   scans: C04_unhashed_same_calls; the whole tree: C04_default_handler_every_path *)
Theorem C04_default_handler_only_when_no_port_matches : forall T H m args,
  tables_of T = Some H -> lit_table T -> assoc_ok T -> addr_chars m -> byte_str m ->
  lookup_hit T H m args = LMiss -> scan_hits (t_ports T) 0 m args = [].
Proof. exact default_only_when_no_match. Qed.

(* every key's remap slot holds the key's index when no two keys hash alike *)
Theorem C04_remap_slot : forall hs j h,
  Forall (fun h => 0 <= h) hs -> has_dups hs = false -> nth_error hs j = Some h ->
  h < Z.of_nat (length (find_remap hs)) /\
  nth_error (find_remap hs) (Z.to_nat h) = Some (Z.of_nat j).
Proof. exact find_remap_hit. Qed.

(* ---- the pinned functions (before the fix: commits) ----------------------- *)
(* D3: {ab,ba,aa,bb}: /ab reaches port 0 without a location buffer, nothing with one *)
Theorem C04_pinned_refuted :
  run_old tab_d3 [47; 97; 98] false = [0] /\ run_old tab_d3 [47; 97; 98] true = [].
Proof. exact d3_refuted. Qed.

(* D20: {c, a/b}: /a/b reaches port 1 without a location buffer, nothing with one *)
Theorem C04_multicomponent_refuted :
  run_old tab_d20 [47; 97; 47; 98] false = [1] /\ run_old tab_d20 [47; 97; 47; 98] true = [].
Proof. exact d20_refuted. Qed.

(* D23: {a, bcd}: /ab reaches nothing without a location buffer, port a with one *)
Theorem C04_prefix_refuted :
  run_old tab_d23 [47; 97; 98] false = [] /\ run_old tab_d23 [47; 97; 98] true = [0].
Proof. exact d23_refuted. Qed.

Theorem C04_witnesses_repaired :
  run_new (widen tab_d3) [47; 97; 98] true = [0] /\ run_new (widen tab_d3) [47; 97; 98] false = [0] /\
  run_new (widen tab_d20) [47; 97; 47; 98] true = [1] /\ run_new (widen tab_d20) [47; 97; 47; 98] false = [1] /\
  run_new (widen tab_d23) [47; 97; 98] true = [] /\ run_new (widen tab_d23) [47; 97; 98] false = [].
Proof. exact witnesses_repaired. Qed.

(* the letter table as pinned (127 entries, plain-char index): {ab,cd,ef} is
   hashed, and the lookup of "/\xe9\xe9" and of "/\x7f" reads outside the
   table (None = index outside the vector; on the real code: ASan
   heap-buffer-overflow in Ports::dispatch) *)
Theorem C04_highbyte_refuted :
  tables_of (tab_hi 127) <> None /\
  hash_of_old [0] (assoc_ace 127) [233; 233] = None /\
  hash_of_old [0] (assoc_ace 127) [127] = None.
Proof. exact highbyte_refuted. Qed.

(* repaired (256 entries, unsigned index): every byte has its entry; the
   lookup finds no port and logs nothing, with and without buffer; /ab still
   reaches port 0 *)
Theorem C04_highbyte_repaired :
  hash_of [0] (assoc_ace 256) [233; 233] = Some 2 /\
  hash_of [0] (assoc_ace 256) [127] = Some 1 /\
  log (dispatch_table (leaf_cb (tab_hi 256)) no_dh (tab_hi 256) [47; 233; 233] [] true (init_state true 1)) = [] /\
  log (dispatch_table (leaf_cb (tab_hi 256)) no_dh (tab_hi 256) [47; 233; 233] [] true (init_state false 1)) = [] /\
  run_new (tab_hi 256) [47; 97; 98] true = [0].
Proof. exact highbyte_repaired. Qed.

(* the default handler as pinned: for /zz the hashed table {ab,cd,ef} runs it
   with a location buffer and not without; the unhashed {a#2,cd} never runs it:
   whether the catch-all sees a message depended on the lookup strategy *)
Theorem C04_default_path_refuted :
  dflt_old (with_dflt (tab_hi 127)) [47; 122; 122] true = 1%nat /\
  dflt_old (with_dflt (tab_hi 127)) [47; 122; 122] false = 0%nat /\
  dflt_old tab_lin [47; 122; 122] true = 0%nat /\
  dflt_old tab_lin [47; 122; 122] false = 0%nat.
Proof. exact default_path_refuted. Qed.

(* repaired: once on every path, never when a port matches *)
Theorem C04_default_path_repaired :
  dflt_new (with_dflt (tab_hi 256)) [47; 122; 122] true = 1%nat /\
  dflt_new (with_dflt (tab_hi 256)) [47; 122; 122] false = 1%nat /\
  dflt_new tab_lin [47; 122; 122] true = 1%nat /\
  dflt_new tab_lin [47; 122; 122] false = 1%nat /\
  dflt_new tab_lin [47; 97; 49] true = 0%nat /\ dflt_new tab_lin [47; 97; 49] false = 0%nat /\
  dflt_new (with_dflt (tab_hi 256)) [47; 99; 100] true = 0%nat /\
  dflt_new (with_dflt (tab_hi 256)) [47; 99; 100] false = 0%nat.
Proof. exact default_path_repaired. Qed.

(* the hypotheses of C04_strategy_independent hold for {a:i, bc/, ba} *)
Theorem C04_nonvacuous :
  (exists H, tables_of tab_ex = Some H /\
     lookup_hit tab_ex H [98; 99; 47; 120] [] = LHit 1 [98; 99; 47] true /\
     lookup_hit tab_ex H [97] [105] = LHit 0 [97; 58; 105] false /\
     lookup_hit tab_ex H [97] [102] = LMiss) /\
  lit_table tab_ex /\ assoc_ok tab_ex.
Proof. exact tab_ex_ok. Qed.

(* ======================================================================== *)
(* the tree                                                                  *)
(* ======================================================================== *)
(* root_ok t m: every table of t is either not hashed by the library (then
   nothing is asked of its names) or literal with a 256-entry assoc of
   non-negative values (what find_assoc builds); flags and sub-trees agree; the
   address is a list of bytes (0..255, ANY of them - no 7-bit restriction)
   without NUL and ':' *)

(* what a root dispatch does, with a location buffer ... *)
Theorem C04_tree_dispatch_loc : forall t m args o,
  tree_ok t -> addr_chars (strip m) -> byte_str (strip m) ->
  exists dp, dispatch t m args true o =
    {| loc := Some [47]; matches := leaf_count (spec_events t m args o true); obj := o;
       dport := dp; log := rev (spec_events t m args o true) |}.
Proof. exact dispatch_with_loc. Qed.

(* ... and without one: any tree, any names, any address *)
Theorem C04_tree_dispatch_noloc : forall t m args o,
  exists dp, dispatch t m args false o =
    {| loc := None; matches := 0; obj := o; dport := dp;
       log := rev (spec_events t m args o false) |}.
Proof. exact dispatch_without_loc. Qed.

(* matches = number of leaf callbacks invoked over the whole descent (a
   default-handler call counts as one); loc is back to "/", obj restored *)
Theorem C04_matches_count : forall t m args o, root_ok t m ->
  let d := dispatch t m args true o in
  matches d = leaf_count (log d) /\ loc d = Some [47] /\ obj d = o.
Proof. exact tree_matches_count. Qed.

(* every callback, at every depth, sees its own Port in d.port *)
Theorem C04_port_pointer : forall t m args o,
  Forall ev_port_ok (log (dispatch t m args false o)) /\
  (root_ok t m -> Forall ev_port_ok (log (dispatch t m args true o))).
Proof. exact tree_port_pointer. Qed.

(* names of the documented form (literal text, #N and alternatives {a,b,..}
   that hold no '/' and no ':', ANY number of address components - "a#2/b#3/",
   "x/y/", "a#2/k#2:i", "{on,off}/", "p{q,r}#2:i"; sub-tree ports with a
   trailing '/', leaves without): every callback's loc is a prefix of the full address
   "/" ++ address, a leaf's loc IS the full address *)
Theorem C04_loc_full_address : forall t m args o,
  root_ok t m -> names_ok t -> addr_ok (strip m) ->
  Forall (ev_loc_ok (47 :: strip m)) (log (dispatch t m args true o)).
Proof. exact tree_loc_full_address. Qed.

(* a message addressed to one leaf (at every level exactly the port on the
   path matches): the callbacks are exactly the chain along the path - one per
   level, objects threaded down by the parents - exactly one of them a leaf,
   matches = 1, and the same chain runs without a location buffer *)
Theorem C04_exactly_one_leaf : forall path t m args o,
  root_ok t m -> addressed path t (strip m) args ->
  rev (log (dispatch t m args true o)) = chain path t (strip m) args o (Some [47]) /\
  rev (log (dispatch t m args false o)) = chain path t (strip m) args o None /\
  matches (dispatch t m args true o) = 1 /\
  leaf_count (chain path t (strip m) args o (Some [47])) = 1 /\
  length (chain path t (strip m) args o (Some [47])) = length path.
Proof. exact tree_exactly_one_leaf. Qed.

(* the same callbacks (table, port, message pointer, object, leaf flag, port
   pointer) AND the same default-handler calls (table, message pointer,
   object), in the same order, with and without a location buffer; only the
   loc field differs (strip_ev keeps every event and blanks its loc).  Before
   the fix "a table's default handler ... ran only when the table had a perfect
   hash" this held only modulo the default-handler calls
   (C04_default_path_refuted). *)
Theorem C04_tree_strategy_independent : forall t m args o, root_ok t m ->
  strip_loc (rev (log (dispatch t m args true o))) = rev (log (dispatch t m args false o)).
Proof. exact tree_strategy_independent. Qed.

(* strip_loc drops nothing: as many default-handler calls after as before *)
Theorem C04_strip_keeps_default_calls : forall l,
  length (filter (fun e => match e with EvDefault _ _ _ _ => true | _ => false end) (strip_loc l)) =
  length (filter (fun e => match e with EvDefault _ _ _ _ => true | _ => false end) l).
Proof. exact strip_loc_defaults. Qed.

(* when no port of the root table matches, both runs consist of exactly the
   call of its default handler (nothing if it has none), whatever lookup
   strategy the table got *)
Theorem C04_default_handler_every_path : forall t m args o b,
  scan_hits (t_ports (tab_of t)) 0 (strip m) args = [] ->
  spec_events t m args o b =
  if t_dflt (tab_of t)
  then [EvDefault (t_id (tab_of t)) (strip m) o (if b then Some [47] else None)] else [].
Proof. exact tree_default_both_runs. Qed.

(* spec_events is computed with fuel (the depth of the tree); its out-of-fuel
   value [EvError] is never what the equalities above are about: for every
   tree, message, object, with or without buffer *)
Theorem C04_spec_events_no_error : forall t m args o b, ~ In EvError (spec_events t m args o b).
Proof. exact spec_events_no_error. Qed.

(* and a root dispatch never logs the model's error event (letter table read
   out of range / match without end pointer / out of fuel) *)
Theorem C04_no_error : forall t m args o,
  ~ In EvError (log (dispatch t m args false o)) /\
  (root_ok t m -> ~ In EvError (log (dispatch t m args true o))).
Proof. exact tree_no_error. Qed.

(* tables with a '#' or '{' name (or a multi-component literal name) are never
   hashed; an unhashed table is served by the same scan with and without
   buffer, whatever its names are, followed in both runs by the default
   handler iff there is one and no port matched (after_scan) *)
Theorem C04_unhashed_tables : forall T,
  (exists p, In p (t_ports T) /\ (is_pattern (fst p) = true \/ inner_slash (fst p) = true)) ->
  tables_of T = None.
Proof. exact unhashed_tables. Qed.

Theorem C04_unhashed_same_calls : forall cb dh T m args st l,
  tables_of T = None -> loc st = Some l -> l <> [] ->
  dispatch_table cb dh T m args false st =
  after_scan T (scan_hits (t_ports T) 0 m args) (call_default dh m (obj st))
    (fold_left (step_loc cb (t_id T) m (obj st) l) (scan_hits (t_ports T) 0 m args) st) /\
  forall st', loc st' = None ->
  dispatch_table cb dh T m args false st' =
  after_scan T (scan_hits (t_ports T) 0 m args) (call_default_noloc dh m (obj st'))
    (fold_left (step_noloc cb (t_id T) m (obj st')) (scan_hits (t_ports T) 0 m args) st').
Proof. exact unhashed_same_calls. Qed.

(* the recursion contract (SNIP of the rRecur*Cb callbacks after the commit
   "fix: the recursion callbacks ... skipped one component") for a sub-tree
   name of any number of components: the table below receives exactly what
   follows the text the name matched; that text is what went into loc.
   Names with alternatives included ("{on,off}/", "a#2{x,y}/"): alts_plain
   asks only that an alternative holds no '/' and no ':' *)
Theorem C04_snip_strips_matched_name : forall p m pe,
  wf_pat p -> alts_plain p -> subtree p = true -> path_spec p m pe ->
  snipk (render p) m = pe /\ m = app_of (render p) m pe ++ pe.
Proof. exact snip_strips_matched_name. Qed.

(* the object handed down by an enumerated parent "k#N..." is chosen by the
   number the address spells at the '#' (rBOILS_BEGIN after the commit "fix:
   array ports took their index from the first digit of the address"): digits
   in the literal text k do not count; a name without '#' hands down index 0 *)
(* PARTIAL: proved for a name whose text k in front of the first '#' is spelled by the
   address literally (the message is k ++ x ++ r).  The full statement - k any segments
   without '#', the address spelling them as the pattern language says, i.e. one of the
   alternatives for a group {a,b}:
     forall pre ds tl s x r, (forall d, ~ In (Enum d) pre) -> spells pre s ->
       x <> [] -> digits x -> starts_with_digit r = false ->
       port_index (render_segs (pre ++ [Enum ds]) ++ tl) (s ++ x ++ r) = dec x
   is false of the faithful model: C04_index_behind_alternatives_refuted.  The side
   condition "no alternative group in front of the first '#'" is the complement of the
   known finding index-behind-alternatives (tools/props/C04.py alt_before_hash). *)
Theorem C04_index_at_hash_partial : forall k rest x r,
  ~ In 35 k -> x <> [] -> digits x -> starts_with_digit r = false ->
  port_index (k ++ 35 :: rest) (k ++ x ++ r) = dec x.
Proof. exact port_index_at_hash. Qed.

(* a12b#4/ addressed by a12b03/x satisfies the hypotheses: the index handed down is 3
   (the digits of the literal text and the leading zero do not count) *)
Theorem C04_index_at_hash_nonvacuous :
  let k := [97; 49; 50; 98] in let rest := [52; 47] in let x := [48; 51] in let r := [47; 120] in
  ~ In 35 k /\ x <> [] /\ digits x /\ starts_with_digit r = false /\
  port_index (k ++ 35 :: rest) (k ++ x ++ r) = 3 /\ dec x = 3.
Proof. exact port_index_at_hash_nonvacuous. Qed.

(* REFUTED (known finding index-behind-alternatives, not repaired): behind an alternative
   group the index is read at the wrong place.  { p{q,r}#2/ -> { x } } with /pq1/x: the
   name is "p" {q,r} #2 "/", the address spells "pq", index "1", rest "/x"; port_index
   gives 0 (rBOILS_BEGIN skips 6 characters - the length of the TEXT p{q,r} - and finds no
   digit), so the child callback runs with object 132 (index 0), not 133 (index 1), with
   and without a location buffer.  Replayed on the real code: corpus/C04/findings.txt. *)
Theorem C04_index_behind_alternatives_refuted :
  exists pre ds tl s x r,
    (forall d, ~ In (Enum d) pre) /\ spells pre s /\ x <> [] /\ digits x /\ dec x < dec ds /\
    starts_with_digit r = false /\
    t_ports tab_iba_root = [(render_segs (pre ++ [Enum ds]) ++ tl, true)] /\
    strip msg_iba = s ++ x ++ r /\
    dec x = 1 /\
    port_index (render_segs (pre ++ [Enum ds]) ++ tl) (s ++ x ++ r) = 0 /\
    child_obj 1 0 0 (dec x) = 133 /\
    dispatch tree_iba msg_iba [] true 1 =
    {| loc := Some [47]; matches := 1; obj := 1; dport := Some (1, 0);
       log := [Ev 1 0 [120] 132 (Some [47; 112; 113; 49; 47; 120]) (Some (1, 0)) true;
               Ev 0 0 [112; 113; 49; 47; 120] 1 (Some [47; 112; 113; 49; 47]) (Some (0, 0)) false] |} /\
    dispatch tree_iba msg_iba [] false 1 =
    {| loc := None; matches := 0; obj := 1; dport := Some (1, 0);
       log := [Ev 1 0 [120] 132 None (Some (1, 0)) true;
               Ev 0 0 [112; 113; 49; 47; 120] 1 None (Some (0, 0)) false] |}.
Proof. exact index_behind_alternatives_refuted. Qed.

(* names of several components: { a#2/b#3/ -> { x, u/v/ -> { w } }, a#2/k#2:i }
   satisfies the hypotheses; /a1/b2/u/v/w runs the chain of three callbacks
   with loc "/a1/b2/", "/a1/b2/u/v/", "/a1/b2/u/v/w"; /a1/k0 (types "i") runs
   the enumerated two-component leaf with loc "/a1/k0" *)
Theorem C04_multicomponent_names_nonvacuous :
  (root_ok tree_mc msg_mc /\ root_ok tree_mc msg_mc2) /\
  (names_ok tree_mc /\ addr_ok (strip msg_mc) /\ addr_ok (strip msg_mc2)) /\
  (addressed [0%nat; 1%nat; 0%nat] tree_mc (strip msg_mc) [] /\
   addressed [1%nat] tree_mc (strip msg_mc2) [105]) /\
  dispatch tree_mc msg_mc [] true 1 =
  {| loc := Some [47]; matches := 1; obj := 1; dport := Some (2, 0);
     log := [Ev 2 0 [119] 17448 (Some [47; 97; 49; 47; 98; 50; 47; 117; 47; 118; 47; 119]) (Some (2, 0)) true;
             Ev 1 1 [117; 47; 118; 47; 119] 133 (Some [47; 97; 49; 47; 98; 50; 47; 117; 47; 118; 47]) (Some (1, 1)) false;
             Ev 0 0 [97; 49; 47; 98; 50; 47; 117; 47; 118; 47; 119] 1 (Some [47; 97; 49; 47; 98; 50; 47]) (Some (0, 0)) false] |} /\
  dispatch tree_mc msg_mc2 [105] true 1 =
  {| loc := Some [47]; matches := 1; obj := 1; dport := Some (0, 1);
     log := [Ev 0 1 [97; 49; 47; 107; 48] 1 (Some [47; 97; 49; 47; 107; 48]) (Some (0, 1)) true] |}.
Proof. exact (conj tree_mc_ok (conj tree_mc_names (conj tree_mc_addressed tree_mc_run))). Qed.

(* an address with bytes >= 0x80: "/a1/\xe9\xff" satisfies root_ok, descends
   into the hashed table { b, c:i } and is delivered to no port there, in both
   runs *)
Theorem C04_eight_bit_nonvacuous :
  root_ok tree_ex msg_hi /\
  dispatch tree_ex msg_hi [] true 1 =
  {| loc := Some [47]; matches := 0; obj := 1; dport := Some (0, 0);
     log := [Ev 0 0 [97; 49; 47; 233; 255] 1 (Some [47; 97; 49; 47]) (Some (0, 0)) false] |} /\
  dispatch tree_ex msg_hi [] false 1 =
  {| loc := None; matches := 0; obj := 1; dport := Some (0, 0);
     log := [Ev 0 0 [97; 49; 47; 233; 255] 1 None (Some (0, 0)) false] |}.
Proof. exact tree_ex_highbyte. Qed.

(* the hypotheses hold for { a#2/ -> { b, c:i } (hashed), d } and /a1/c *)
Theorem C04_tree_nonvacuous :
  (root_ok tree_ex msg_ex /\ tables_of tab_inner <> None) /\
  (names_ok tree_ex /\ addr_ok (strip msg_ex)) /\
  addressed [0%nat; 1%nat] tree_ex (strip msg_ex) [105] /\
  dispatch tree_ex msg_ex [105] true 1 =
  {| loc := Some [47]; matches := 1; obj := 1; dport := Some (1, 1);
     log := [Ev 1 1 [99] 133 (Some [47; 97; 49; 47; 99]) (Some (1, 1)) true;
             Ev 0 0 [97; 49; 47; 99] 1 (Some [47; 97; 49; 47]) (Some (0, 0)) false] |}.
Proof. exact (conj tree_ex_ok (conj tree_ex_names (conj tree_ex_addressed tree_ex_run))). Qed.

(* "When a location buffer is supplied the callback sees the full address in it" on a REUSED
   RtData: whatever C string the buffer held before the root dispatch (an earlier address, a
   reply text) and whatever d.matches held, the run is the run on a fresh buffer - so every
   statement above about `dispatch t m args true o` holds for it *)
Theorem C04_reused_buffer_as_fresh : forall t m args stale m0 o,
  dispatch_reused t m args stale m0 o = dispatch t m args true o.
Proof. exact dispatch_reused_as_fresh. Qed.

Theorem C04_reused_buffer_nonvacuous :
  let leaf := Node {| t_id := 1; t_dflt := false; t_ports := [([120;121], false)]; t_pos := []; t_assoc := [] |} [None] in
  let root := Node {| t_id := 0; t_dflt := false; t_ports := [([97;98;47], true)]; t_pos := []; t_assoc := [] |} [Some leaf] in
  map (fun e => match e with Ev _ _ _ _ l _ _ => l | _ => None end)
      (rev (log (dispatch_reused root [47;97;98;47;120;121] [] [115;99;114;97;116;99;104] 5 1)))
  = [Some [47;97;98;47]; Some [47;97;98;47;120;121]].
Proof. exact dispatch_reused_nonvacuous. Qed.

(* ---- port names of the full documented pattern form: alternatives {a,b,..} ---------
   The tree theorems above never restricted names (spec_events is stated with C05's
   matcher, which handles alternatives); C04_loc_full_address and
   C04_snip_strips_matched_name hold for names_ok / alts_plain names, i.e. with
   alternatives that hold no '/' and no ':'.  What did not hold for the pinned code: *)

(* generate_minimal_hash looked for '#' only: { {ab,cd}x, ef, gh } got a perfect hash,
   and the hashed lookup compares the message with the TEXT of the name: /abx reaches
   {ab,cd}x without a location buffer and nothing with one; /{ab,cd}x reaches it with a
   buffer only; and the linear scan appended the name's text: in { {ab,cd}x, e#2 } the
   callback behind /cdx saw the loc "/{ab,cd}x" *)
Theorem C04_alternatives_refuted :
  seen_noalt tab_alt_hashed [47; 97; 98; 120] false = [(0, None)] /\
  seen_noalt tab_alt_hashed [47; 97; 98; 120] true = [] /\
  seen_noalt tab_alt_hashed [47; 123; 97; 98; 44; 99; 100; 125; 120] false = [] /\
  seen_noalt tab_alt_hashed [47; 123; 97; 98; 44; 99; 100; 125; 120] true =
    [(0, Some [47; 123; 97; 98; 44; 99; 100; 125; 120])] /\
  seen_noalt tab_alt_lin [47; 99; 100; 120] true = [(0, Some [47; 123; 97; 98; 44; 99; 100; 125; 120])].
Proof. exact alt_names_refuted. Qed.

(* repaired (two fix: commits): a table with a '{' name is never hashed, the loc text of
   such a name is the matched part of the message *)
Theorem C04_alternatives_repaired :
  seen_new tab_alt_hashed [47; 97; 98; 120] false = [(0, None)] /\
  seen_new tab_alt_hashed [47; 97; 98; 120] true = [(0, Some [47; 97; 98; 120])] /\
  seen_new tab_alt_hashed [47; 123; 97; 98; 44; 99; 100; 125; 120] false = [] /\
  seen_new tab_alt_hashed [47; 123; 97; 98; 44; 99; 100; 125; 120] true = [] /\
  seen_new tab_alt_lin [47; 99; 100; 120] true = [(0, Some [47; 99; 100; 120])] /\
  tables_of tab_alt_hashed = None.
Proof. exact alt_names_repaired. Qed.

(* { {on,off}/ -> { x, y:i }, p{q,r}#2:i } satisfies the hypotheses of the tree theorems
   (root_ok, names_ok, an addressed path); /off/y (types "i") runs the chain of two
   callbacks with loc "/off/" and "/off/y", /pr1 runs the leaf with loc "/pr1"; the same
   callbacks without a location buffer *)
Theorem C04_alternatives_nonvacuous :
  (root_ok tree_alt msg_alt /\ root_ok tree_alt msg_alt2) /\
  (names_ok tree_alt /\ addr_ok (strip msg_alt) /\ addr_ok (strip msg_alt2)) /\
  (addressed [0%nat; 1%nat] tree_alt (strip msg_alt) [105] /\
   addressed [1%nat] tree_alt (strip msg_alt2) [105]) /\
  dispatch tree_alt msg_alt [105] true 1 =
  {| loc := Some [47]; matches := 1; obj := 1; dport := Some (1, 1);
     log := [Ev 1 1 [121] 132 (Some [47; 111; 102; 102; 47; 121]) (Some (1, 1)) true;
             Ev 0 0 [111; 102; 102; 47; 121] 1 (Some [47; 111; 102; 102; 47]) (Some (0, 0)) false] |} /\
  dispatch tree_alt msg_alt [105] false 1 =
  {| loc := None; matches := 0; obj := 1; dport := Some (1, 1);
     log := [Ev 1 1 [121] 132 None (Some (1, 1)) true;
             Ev 0 0 [111; 102; 102; 47; 121] 1 None (Some (0, 0)) false] |} /\
  dispatch tree_alt msg_alt2 [105] true 1 =
  {| loc := Some [47]; matches := 1; obj := 1; dport := Some (0, 1);
     log := [Ev 0 1 [112; 114; 49] 1 (Some [47; 112; 114; 49]) (Some (0, 1)) true] |} /\
  dispatch tree_alt msg_alt2 [105] false 1 =
  {| loc := None; matches := 0; obj := 1; dport := Some (0, 1);
     log := [Ev 0 1 [112; 114; 49] 1 None (Some (0, 1)) true] |}.
Proof. exact (conj tree_alt_ok (conj tree_alt_names (conj tree_alt_addressed tree_alt_run))). Qed.
