(* C04 - Dispatch delivers a message to exactly the port it addresses.
   Only the property theorems, each closed by [exact]. *)
From Coq Require Import List ZArith.
From RtoscV Require Import Match.PatSpec Match.MatchModel Ports.DispatchModel Ports.DispatchProofs.
Import ListNotations.
Local Open Scope Z_scope.

Theorem C04_d3_falls_back : tables_of tab_d3 = None.
Proof. exact d3_falls_back. Qed.
