(* C01/C02: the measuring pass and the writing pass of rtosc_amessage produce
   exactly the OSC 1.0 encoding, for every capacity. *)
From Coq Require Import List ZArith Bool Lia.
From RtoscV Require Import Osc.OscModel Osc.OscBase.
Import ListNotations.
Local Open Scope Z_scope.
Ltac Zify.zify_post_hook ::= Z.div_mod_to_equations.

(* what the constructors require of their arguments *)
Definition payload_wf (p : payload) : Prop :=
  match p with
  | PBlob len d => 0 <= len /\ match d with Some bs => zlen bs = len | None => True end
  | _ => True
  end.

Definition args_wf (tags : list byte) (args : list payload) : Prop :=
  args_match tags args = true /\ Forall payload_wf args.

Lemma nreserved_nonneg tags : 0 <= nreserved tags.
Proof.
  induction tags as [|t ts IH]; cbn [nreserved]; [lia|].
  unfold has_reserved. destruct (kind_of t); lia.
Qed.

Lemma nreserved_0_args tags args :
  nreserved tags = 0 -> args_match tags args = true -> args = [].
Proof.
  revert args. induction tags as [|t ts IH]; intros args H0 Hm; cbn [nreserved args_match] in *.
  - destruct args; [reflexivity | discriminate].
  - pose proof (nreserved_nonneg ts). unfold has_reserved in H0.
    destruct (kind_of t); try lia. apply IH; [lia | assumption].
Qed.

Lemma zlen_enc_payload p : payload_wf p ->
  zlen (enc_payload p) =
  match p with
  | P4 _ => 4 | P8 _ => 8
  | PStr s => align4 (zlen s)
  | PBlob len _ => 4 + len + (4 - len mod 4) mod 4
  end.
Proof.
  destruct p as [b|b|s|len d]; intros H; cbn [enc_payload].
  - reflexivity.
  - reflexivity.
  - apply zlen_pad4z.
  - destruct H as [Hl Hd]. rewrite !zlen_app, zlen_be32.
    rewrite (zlen_zeros ((4 - len mod 4) mod 4)) by lia.
    destruct d as [bs|]; [rewrite Hd | rewrite zlen_zeros by lia]; lia.
Qed.

Lemma align4'_blob pos len : pos mod 4 = 0 ->
  align4' (pos + 4 + len) = pos + 4 + len + (4 - len mod 4) mod 4.
Proof.
  intros H. unfold align4'. destruct ((pos + 4 + len) mod 4 =? 0) eqn:E;
    [apply Z.eqb_eq in E | apply Z.eqb_neq in E]; lia.
Qed.

Lemma enc_payload_mod4 p : payload_wf p -> zlen (enc_payload p) mod 4 = 0.
Proof.
  intros H. rewrite zlen_enc_payload by assumption.
  destruct p as [b|b|s|len d]; unfold align4; lia.
Qed.

Lemma size_args_spec tags : forall args pos,
  args_match tags args = true -> Forall payload_wf args -> pos mod 4 = 0 ->
  size_args (nreserved tags) tags args pos = Ok (pos + zlen (concat (map enc_payload args))).
Proof.
  induction tags as [|t ts IH]; intros args pos Hm Hw Hp.
  - cbn [args_match] in Hm. destruct args; [|discriminate]. cbn. f_equal. lia.
  - pose proof (nreserved_nonneg ts) as Hnn.
    cbn [size_args nreserved]. cbn [args_match] in Hm. unfold has_reserved.
    destruct (kind_of t) eqn:K.
    + (* K4 *)
      destruct args as [|p ps]; [discriminate|]. apply andb_prop in Hm as [Hf Hm].
      destruct p; try discriminate. inversion Hw as [|? ? Hw1 Hw2]; subst.
      replace (1 + nreserved ts =? 0) with false by (symmetry; apply Z.eqb_neq; lia).
      replace (1 + nreserved ts - 1) with (nreserved ts) by lia. cbn [tl].
      rewrite IH by (auto; lia). cbn [map concat]. rewrite zlen_app. f_equal.
      change (zlen (enc_payload (P4 bits))) with 4. lia.
    + destruct args as [|p ps]; [discriminate|]. apply andb_prop in Hm as [Hf Hm].
      destruct p; try discriminate. inversion Hw as [|? ? Hw1 Hw2]; subst.
      replace (1 + nreserved ts =? 0) with false by (symmetry; apply Z.eqb_neq; lia).
      replace (1 + nreserved ts - 1) with (nreserved ts) by lia. cbn [tl].
      rewrite IH by (auto; lia). cbn [map concat]. rewrite zlen_app. f_equal.
      change (zlen (enc_payload (P8 bits))) with 8. lia.
    + destruct args as [|p ps]; [discriminate|]. apply andb_prop in Hm as [Hf Hm].
      destruct p; try discriminate. inversion Hw as [|? ? Hw1 Hw2]; subst.
      replace (1 + nreserved ts =? 0) with false by (symmetry; apply Z.eqb_neq; lia).
      replace (1 + nreserved ts - 1) with (nreserved ts) by lia.
      rewrite IH; [|assumption|assumption|apply align4_mod].
      cbn [map concat]. rewrite zlen_app. f_equal.
      rewrite (zlen_enc_payload (PStr s)) by exact I. rewrite align4_add by assumption. lia.
    + destruct args as [|p ps]; [discriminate|]. apply andb_prop in Hm as [Hf Hm].
      destruct p; try discriminate. inversion Hw as [|? ? Hw1 Hw2]; subst.
      replace (1 + nreserved ts =? 0) with false by (symmetry; apply Z.eqb_neq; lia).
      replace (1 + nreserved ts - 1) with (nreserved ts) by lia.
      rewrite align4'_blob by assumption.
      rewrite IH; [|assumption|assumption|lia].
      cbn [map concat]. rewrite zlen_app. f_equal.
      rewrite (zlen_enc_payload (PBlob len data)) by assumption. lia.
    + replace (0 + nreserved ts) with (nreserved ts) by lia.
      destruct (nreserved ts =? 0) eqn:E.
      * apply Z.eqb_eq in E. rewrite (nreserved_0_args ts args E Hm). cbn. f_equal. lia.
      * apply IH; assumption.
Qed.

Lemma zlen_enc_spec a tags args :
  zlen (enc_spec a tags args) =
  align4 (align4 (zlen a) + 1 + zlen tags) + zlen (concat (map enc_payload args)).
Proof.
  unfold enc_spec. rewrite !zlen_app, !zlen_pad4z, zlen_cons.
  pose proof (align4_mod (zlen a)) as H. revert H.
  generalize (align4 (zlen a)). intros z H. unfold align4. lia.
Qed.

Theorem size_null_spec a tags args :
  args_wf tags args -> size_null a tags args = Ok (zlen (enc_spec a tags args)).
Proof.
  intros [Hm Hw]. unfold size_null. rewrite size_args_spec; try assumption.
  - rewrite zlen_enc_spec. reflexivity.
  - apply align4_mod.
Qed.

(* ---- the writing pass ----------------------------------------------------- *)
(* what a chunk list leaves in a zeroed region, and how long it is *)
Fixpoint chunk_bytes (cs : list chunk) : list byte :=
  match cs with
  | [] => []
  | Wr bs :: r => bs ++ chunk_bytes r
  | Skip n :: r => zeros n ++ chunk_bytes r
  end.

Fixpoint skips_ok (cs : list chunk) : Prop :=
  match cs with
  | [] => True
  | Wr _ :: r => skips_ok r
  | Skip n :: r => 0 <= n /\ skips_ok r
  end.

Lemma skipn_zlen_app (l1 l2 : list byte) : skipn (length l1) (l1 ++ l2) = l2.
Proof. rewrite skipn_app, skipn_all, Nat.sub_diag. reflexivity. Qed.

Lemma firstn_zlen_app (l1 l2 : list byte) : firstn (length l1) (l1 ++ l2) = l1.
Proof. rewrite firstn_app, firstn_all, Nat.sub_diag. cbn. apply app_nil_r. Qed.

(* on a region that starts with as many zero bytes as the chunks span, the
   chunks leave exactly chunk_bytes and do not touch what follows *)
Lemma apply_chunks_zeroed cs : forall tail,
  skips_ok cs ->
  apply_chunks (zeros (zlen (chunk_bytes cs)) ++ tail) cs = Ok (chunk_bytes cs ++ tail).
Proof.
  induction cs as [|c cs IH]; intros tail Hs.
  - reflexivity.
  - destruct c as [bs|n]; cbn [chunk_bytes apply_chunks skips_ok] in *.
    + rewrite (zlen_app bs (chunk_bytes cs)).
      rewrite zeros_add by apply zlen_nonneg. rewrite <- app_assoc.
      replace (zlen bs <=? zlen (zeros (zlen bs) ++ zeros (zlen (chunk_bytes cs)) ++ tail)) with true.
      2:{ symmetry. apply Z.leb_le. rewrite zlen_app, zlen_zeros by apply zlen_nonneg.
          pose proof (zlen_nonneg (zeros (zlen (chunk_bytes cs)) ++ tail)). lia. }
      replace (length bs) with (length (zeros (zlen bs))) by (rewrite length_zeros; unfold zlen; lia).
      rewrite skipn_zlen_app. rewrite IH by assumption. cbn [bind]. rewrite <- app_assoc. reflexivity.
    + destruct Hs as [Hn Hs]. rewrite (zlen_app (zeros n) (chunk_bytes cs)), zlen_zeros by assumption.
      rewrite zeros_add by (auto using zlen_nonneg). rewrite <- app_assoc.
      replace ((0 <=? n) && (n <=? zlen (zeros n ++ zeros (zlen (chunk_bytes cs)) ++ tail))) with true.
      2:{ symmetry. apply andb_true_intro. split; [apply Z.leb_le; lia|]. apply Z.leb_le.
          rewrite zlen_app, zlen_zeros by assumption.
          pose proof (zlen_nonneg (zeros (zlen (chunk_bytes cs)) ++ tail)). lia. }
      replace (Z.to_nat n) with (length (zeros n)) by apply length_zeros.
      rewrite skipn_zlen_app, firstn_zlen_app. rewrite IH by assumption. cbn [bind].
      rewrite <- app_assoc. reflexivity.
Qed.

Lemma write_args_spec tags : forall args pos,
  args_match tags args = true -> Forall payload_wf args -> pos mod 4 = 0 ->
  exists cs, write_args (nreserved tags) tags args pos =
             Ok (cs, pos + zlen (concat (map enc_payload args)))
             /\ chunk_bytes cs = concat (map enc_payload args) /\ skips_ok cs.
Proof.
  induction tags as [|t ts IH]; intros args pos Hm Hw Hp.
  - cbn [args_match] in Hm. destruct args; [|discriminate]. exists []. cbn.
    repeat split. f_equal. f_equal. lia.
  - pose proof (nreserved_nonneg ts) as Hnn.
    cbn [write_args nreserved]. cbn [args_match] in Hm. unfold has_reserved.
    destruct (kind_of t) eqn:K.
    + destruct args as [|p ps]; [discriminate|]. apply andb_prop in Hm as [Hf Hm].
      destruct p; try discriminate. inversion Hw as [|? ? Hw1 Hw2]; subst.
      replace (1 + nreserved ts =? 0) with false by (symmetry; apply Z.eqb_neq; lia).
      replace (1 + nreserved ts - 1) with (nreserved ts) by lia.
      destruct (IH ps (pos + 4) Hm Hw2 ltac:(lia)) as (cs & -> & Hb & Hs).
      cbn [bind fst snd]. eexists. split; [|split].
      * f_equal. f_equal. cbn [map concat]. rewrite zlen_app.
        change (zlen (enc_payload (P4 bits))) with 4. lia.
      * cbn [chunk_bytes map concat enc_payload]. rewrite Hb. reflexivity.
      * exact Hs.
    + destruct args as [|p ps]; [discriminate|]. apply andb_prop in Hm as [Hf Hm].
      destruct p; try discriminate. inversion Hw as [|? ? Hw1 Hw2]; subst.
      replace (1 + nreserved ts =? 0) with false by (symmetry; apply Z.eqb_neq; lia).
      replace (1 + nreserved ts - 1) with (nreserved ts) by lia.
      destruct (IH ps (pos + 8) Hm Hw2 ltac:(lia)) as (cs & -> & Hb & Hs).
      cbn [bind fst snd]. eexists. split; [|split].
      * f_equal. f_equal. cbn [map concat]. rewrite zlen_app.
        change (zlen (enc_payload (P8 bits))) with 8. lia.
      * cbn [chunk_bytes map concat enc_payload]. rewrite Hb. reflexivity.
      * exact Hs.
    + destruct args as [|p ps]; [discriminate|]. apply andb_prop in Hm as [Hf Hm].
      destruct p; try discriminate. inversion Hw as [|? ? Hw1 Hw2]; subst.
      replace (1 + nreserved ts =? 0) with false by (symmetry; apply Z.eqb_neq; lia).
      replace (1 + nreserved ts - 1) with (nreserved ts) by lia.
      destruct (IH ps (align4 (pos + zlen s)) Hm Hw2 (align4_mod _)) as (cs & -> & Hb & Hs).
      cbn [bind fst snd]. eexists. split; [|split].
      * f_equal. f_equal. cbn [map concat]. rewrite zlen_app.
        rewrite (zlen_enc_payload (PStr s)) by exact I. rewrite align4_add by assumption. lia.
      * cbn [chunk_bytes map concat enc_payload]. rewrite Hb. unfold pad4z.
        rewrite <- app_assoc. f_equal. f_equal. f_equal. lia.
      * cbn [skips_ok]. split; [lia | exact Hs].
    + destruct args as [|p ps]; [discriminate|]. apply andb_prop in Hm as [Hf Hm].
      destruct p as [| | |len d]; try discriminate. inversion Hw as [|? ? Hw1 Hw2]; subst.
      destruct Hw1 as [Hl Hd].
      replace (1 + nreserved ts =? 0) with false by (symmetry; apply Z.eqb_neq; lia).
      replace (1 + nreserved ts - 1) with (nreserved ts) by lia.
      rewrite align4'_blob by assumption.
      destruct (IH ps (pos + 4 + len + (4 - len mod 4) mod 4) Hm Hw2 ltac:(lia)) as (cs & Hcs & Hb & Hs).
      assert (Hpad : chunk_bytes (if (pos + 4 + len) mod 4 =? 0 then []
                                  else [Skip (4 - (pos + 4 + len) mod 4)])
                     = zeros ((4 - len mod 4) mod 4)
                     /\ skips_ok (if (pos + 4 + len) mod 4 =? 0 then []
                                  else [Skip (4 - (pos + 4 + len) mod 4)])).
      { destruct ((pos + 4 + len) mod 4 =? 0) eqn:E.
        - apply Z.eqb_eq in E. split; [|exact I]. cbn [chunk_bytes]. rewrite zeros_neg by lia. reflexivity.
        - apply Z.eqb_neq in E. split; [|cbn [skips_ok]; lia]. cbn [chunk_bytes]. rewrite app_nil_r. f_equal. lia. }
      destruct Hpad as [Hpb Hps].
      destruct d as [bs|].
      * rewrite Hd, Z.eqb_refl. rewrite Hcs. cbn [bind fst snd]. eexists. split; [|split].
        -- f_equal. f_equal. cbn [map concat]. rewrite zlen_app.
           rewrite (zlen_enc_payload (PBlob len (Some bs))) by (split; assumption). lia.
        -- cbn [chunk_bytes map concat enc_payload].
           assert (Hcb : forall x y, chunk_bytes (x ++ y) = chunk_bytes x ++ chunk_bytes y).
           { intros x y. induction x as [|[b'|n'] x IHx]; cbn [app chunk_bytes];
               [reflexivity | rewrite IHx, app_assoc; reflexivity | rewrite IHx, app_assoc; reflexivity]. }
           rewrite Hcb, Hpb, Hb. rewrite <- !app_assoc. reflexivity.
        -- cbn [skips_ok].
           assert (Hso : forall x y, skips_ok x -> skips_ok y -> skips_ok (x ++ y)).
           { intros x y Hx Hy. induction x as [|[b'|n'] x IHx]; cbn [app skips_ok] in *;
               [assumption | auto | destruct Hx; auto]. }
           apply Hso; assumption.
      * replace (len <? 0) with false by (symmetry; apply Z.ltb_ge; lia).
        rewrite Hcs. cbn [bind fst snd]. eexists. split; [|split].
        -- f_equal. f_equal. cbn [map concat]. rewrite zlen_app.
           rewrite (zlen_enc_payload (PBlob len None)) by (split; [assumption|exact I]). lia.
        -- cbn [chunk_bytes map concat enc_payload].
           assert (Hcb : forall x y, chunk_bytes (x ++ y) = chunk_bytes x ++ chunk_bytes y).
           { intros x y. induction x as [|[b'|n'] x IHx]; cbn [app chunk_bytes];
               [reflexivity | rewrite IHx, app_assoc; reflexivity | rewrite IHx, app_assoc; reflexivity]. }
           rewrite Hcb, Hpb, Hb. rewrite <- !app_assoc. reflexivity.
        -- cbn [skips_ok]. split; [assumption|].
           assert (Hso : forall x y, skips_ok x -> skips_ok y -> skips_ok (x ++ y)).
           { intros x y Hx Hy. induction x as [|[b'|n'] x IHx]; cbn [app skips_ok] in *;
               [assumption | auto | destruct Hx; auto]. }
           apply Hso; assumption.
    + replace (0 + nreserved ts) with (nreserved ts) by lia.
      destruct (nreserved ts =? 0) eqn:E.
      * apply Z.eqb_eq in E. rewrite (nreserved_0_args ts args E Hm). exists []. cbn.
        repeat split. f_equal. f_equal. lia.
      * apply IH; assumption.
Qed.

Lemma msg_chunks_spec a tags args :
  args_wf tags args ->
  exists cs, msg_chunks a tags args = Ok (cs, zlen (enc_spec a tags args))
             /\ chunk_bytes cs = enc_spec a tags args /\ skips_ok cs.
Proof.
  intros [Hm Hw]. unfold msg_chunks.
  destruct (write_args_spec tags args (align4 (align4 (zlen a) + 1 + zlen tags)) Hm Hw (align4_mod _))
    as (cs & -> & Hb & Hs).
  cbn [bind fst snd]. eexists. split; [|split].
  - rewrite zlen_enc_spec. reflexivity.
  - cbn [chunk_bytes]. rewrite Hb. unfold enc_spec, pad4z. rewrite <- !app_assoc.
    do 4 f_equal. f_equal.
    rewrite zlen_cons. pose proof (align4_mod (zlen a)). lia.
  - cbn [skips_ok]. pose proof (Z.mod_pos_bound (zlen a) 4).
    pose proof (Z.mod_pos_bound (align4 (zlen a) + 1 + zlen tags) 4). repeat split; try lia. exact Hs.
Qed.

(* rtosc_amessage, for every destination: the NULL probe returns the size of
   the OSC 1.0 encoding; a destination that is too small is zero-filled and 0
   is returned; otherwise exactly the encoding is written at the front, the
   rest of the destination is untouched, and the size is returned.  In
   particular the model never reports an out-of-bounds write. *)
Theorem amessage_spec a tags args :
  args_wf tags args ->
  let enc := enc_spec a tags args in
  amessage None a tags args = Ok (zlen enc, None) /\
  forall buf,
    amessage (Some buf) a tags args =
    if zlen buf <? zlen enc then Ok (0, Some (zeros (zlen buf)))
    else Ok (zlen enc, Some (enc ++ skipn (length enc) buf)).
Proof.
  intros Hwf enc. unfold amessage. rewrite (size_null_spec a tags args Hwf). cbn [bind].
  split; [reflexivity|]. intros buf. fold enc.
  destruct (zlen buf <? zlen enc) eqn:E; [reflexivity|].
  destruct (msg_chunks_spec a tags args Hwf) as (cs & -> & Hb & Hs). cbn [bind fst snd]. fold enc in Hb.
  rewrite <- Hb at 1. rewrite apply_chunks_zeroed by assumption. cbn [bind]. rewrite Hb.
  f_equal. f_equal. f_equal. f_equal. unfold zlen. rewrite Nat2Z.id. reflexivity.
Qed.

(* the fixed-capacity callers (RtData::reply/broadcast: 8192-byte stack buffer;
   ThreadLink::write/writeArray: MaxMsg) are instances of [amessage_spec] *)
Corollary amessage_fixed_capacity cap a tags args buf :
  args_wf tags args -> zlen buf = cap ->
  let enc := enc_spec a tags args in
  amessage (Some buf) a tags args =
  if cap <? zlen enc then Ok (0, Some (zeros cap))
  else Ok (zlen enc, Some (enc ++ skipn (length enc) buf)).
Proof.
  intros Hwf Hc enc. destruct (amessage_spec a tags args Hwf) as [_ H].
  rewrite (H buf). fold enc. rewrite Hc. reflexivity.
Qed.

(* ---- the region in which the encoder model IS the code ------------------------
   The model measures and writes in unbounded Z; the code measures with
   `unsigned` and takes blob lengths as int32.  The property theorems are
   stated inside [code_range], where no wrap-around can occur; outside it
   model and code differ and nothing is claimed. *)
Definition blob_small (p : payload) : Prop :=
  match p with PBlob len _ => len < 2147483648 | _ => True end.
Definition code_range (a tags : list byte) (args : list payload) : Prop :=
  zlen (enc_spec a tags args) < 4294967296 /\ Forall blob_small args.

Theorem size_null_spec_r a tags args :
  args_wf tags args -> code_range a tags args ->
  size_null a tags args = Ok (zlen (enc_spec a tags args)).
Proof. intros H _. exact (size_null_spec a tags args H). Qed.

Theorem amessage_spec_r a tags args :
  args_wf tags args -> code_range a tags args ->
  let enc := enc_spec a tags args in
  amessage None a tags args = Ok (zlen enc, None) /\
  forall buf,
    amessage (Some buf) a tags args =
    if zlen buf <? zlen enc then Ok (0, Some (zeros (zlen buf)))
    else Ok (zlen enc, Some (enc ++ skipn (length enc) buf)).
Proof. intros H _. exact (amessage_spec a tags args H). Qed.

Corollary amessage_fixed_capacity_r cap a tags args buf :
  args_wf tags args -> code_range a tags args -> zlen buf = cap ->
  let enc := enc_spec a tags args in
  amessage (Some buf) a tags args =
  if cap <? zlen enc then Ok (0, Some (zeros cap))
  else Ok (zlen enc, Some (enc ++ skipn (length enc) buf)).
Proof. intros H _. exact (amessage_fixed_capacity cap a tags args buf H). Qed.
