(* C01: reading the OSC 1.0 encoding back through the accessors and the
   iterator yields the original types and values. *)
From Coq Require Import List ZArith Bool Lia.
From RtoscV Require Import Osc.OscModel Osc.OscBase Osc.OscEncProofs.
Import ListNotations.
Local Open Scope Z_scope.
Ltac Zify.zify_post_hook ::= Z.div_mod_to_equations.

Definition nonul (s : list byte) : Prop := Forall (fun c => c <> 0) s.

Lemma eqb0 c : c <> 0 -> (c =? 0) = false.
Proof. intros H. now apply Z.eqb_neq. Qed.

(* ---- scanning lemmas ------------------------------------------------------ *)
Lemma find0_app s r i : nonul s -> find0 (s ++ 0 :: r) i = Ok (i + zlen s).
Proof.
  revert i. induction s as [|c s IH]; intros i H; cbn [app find0].
  - change (0 =? 0) with true. cbn iota. f_equal. unfold zlen. cbn [length]. lia.
  - inversion H as [|? ? Hc Hs]; subst. rewrite (eqb0 c Hc), IH by assumption.
    rewrite zlen_cons. f_equal. lia.
Qed.

Lemma findnz_zeros k c r i : 0 <= k -> c <> 0 -> findnz (zeros k ++ c :: r) i = Ok (i + k).
Proof.
  intros Hk Hc. revert i. pattern k. apply natlike_ind; [| |exact Hk].
  - intros i. cbn [zeros Z.to_nat repeat app findnz]. rewrite (eqb0 c Hc). f_equal. lia.
  - intros x Hx IH i. rewrite <- Z.add_1_r, zeros_succ by assumption. cbn [app findnz].
    change (0 =? 0) with true. cbn iota. rewrite IH. f_equal. lia.
Qed.

Lemma cstr_app s r : nonul s -> cstr (s ++ 0 :: r) = Ok s.
Proof.
  induction s as [|c s IH]; intros H; cbn [app cstr]; [reflexivity|].
  inversion H as [|? ? Hc Hs]; subst. rewrite (eqb0 c Hc), IH by assumption. reflexivity.
Qed.

Lemma from_app_add (x y : list byte) k : 0 <= k -> from (x ++ y) (zlen x + k) = from y k.
Proof.
  intros Hk. rewrite from_add by (auto using zlen_nonneg). rewrite from_app_len. reflexivity.
Qed.

Lemma from_zeros_add k (y : list byte) j : 0 <= k -> 0 <= j -> from (zeros k ++ y) (k + j) = from y j.
Proof.
  intros Hk Hj. rewrite <- (zlen_zeros k Hk) at 2. apply from_app_add. assumption.
Qed.

Lemma from_zeros_len k (y : list byte) : 0 <= k -> from (zeros k ++ y) k = y.
Proof.
  intros Hk. rewrite <- (zlen_zeros k Hk) at 2. apply from_app_len.
Qed.

Lemma from_cons1 (c : byte) l : from (c :: l) 1 = l.
Proof. rewrite from_eq. reflexivity. Qed.

Lemma from_nonneg_cons (c : byte) l k : 0 <= k -> from (c :: l) (1 + k) = from l k.
Proof.
  intros Hk. rewrite !from_eq. replace (Z.to_nat (1 + k)) with (S (Z.to_nat k)) by lia. reflexivity.
Qed.

Lemma rd_from m p b t : 0 <= p -> from m p = b :: t -> rd m p = Ok b.
Proof.
  intros Hp H. rewrite rd_eq. replace (p <? 0) with false by (symmetry; apply Z.ltb_ge; lia).
  rewrite from_eq in H. revert m H. generalize (Z.to_nat p) as n.
  induction n as [|n IH]; intros m H; destruct m as [|x m]; cbn [skipn nth_error] in *; try discriminate.
  - inversion H; reflexivity.
  - apply IH. exact H.
Qed.

Lemma from_step m p b t : 0 <= p -> from m p = b :: t -> from m (p + 1) = t.
Proof. intros Hp H. rewrite from_add by lia. rewrite H. apply from_cons1. Qed.

Lemma rd32_from m p x t : 0 <= p -> 0 <= x < 4294967296 ->
  from m p = be32 x ++ t -> rd32 m p = Ok x.
Proof.
  intros Hp Hx H. unfold rd32. unfold be32 in H. cbn [app] in H.
  rewrite (rd_from m p _ _ Hp H). pose proof (from_step m p _ _ Hp H) as H1.
  rewrite (rd_from m (p + 1) _ _ ltac:(lia) H1). pose proof (from_step m (p + 1) _ _ ltac:(lia) H1) as H2.
  replace (p + 1 + 1) with (p + 2) in H2 by lia.
  rewrite (rd_from m (p + 2) _ _ ltac:(lia) H2). pose proof (from_step m (p + 2) _ _ ltac:(lia) H2) as H3.
  replace (p + 2 + 1) with (p + 3) in H3 by lia.
  rewrite (rd_from m (p + 3) _ _ ltac:(lia) H3). cbn [bind]. f_equal. exact (unbe32_be32 x Hx).
Qed.

Lemma from_skip m p (x t : list byte) : 0 <= p -> from m p = x ++ t -> from m (p + zlen x) = t.
Proof.
  intros Hp H. rewrite from_add by (auto using zlen_nonneg). rewrite H. apply from_app_len.
Qed.

Lemma rd64_from m p x t : 0 <= p -> 0 <= x < 18446744073709551616 ->
  from m p = be64 x ++ t -> rd64 m p = Ok x.
Proof.
  intros Hp Hx H. unfold rd64, be64 in *. rewrite <- app_assoc in H.
  assert (Hhi : 0 <= x / 4294967296 mod 4294967296 < 4294967296) by lia.
  assert (Hlo : 0 <= x mod 4294967296 < 4294967296) by lia.
  rewrite (rd32_from m p _ _ Hp Hhi H).
  pose proof (from_skip m p _ _ Hp H) as H1. rewrite zlen_be32 in H1.
  assert (Hp4 : 0 <= p + 4) by lia.
  rewrite (rd32_from m (p + 4) _ _ Hp4 Hlo H1). cbn [bind]. f_equal. lia.
Qed.

Lemma strz_from m p s t : 0 <= p -> nonul s -> from m p = s ++ 0 :: t -> strz m p = Ok (p + zlen s).
Proof.
  intros Hp Hs H. unfold strz. replace (p <? 0) with false by (symmetry; apply Z.ltb_ge; lia).
  rewrite H. apply find0_app. assumption.
Qed.

Lemma cstr_at_from m p s t : 0 <= p -> nonul s -> from m p = s ++ 0 :: t -> cstr_at m p = Ok s.
Proof.
  intros Hp Hs H. unfold cstr_at. replace (p <? 0) with false by (symmetry; apply Z.ltb_ge; lia).
  rewrite H. apply cstr_app. assumption.
Qed.

(* zeros k with k >= 1 starts with a NUL *)
Lemma zeros_pos k : 1 <= k -> zeros k = 0 :: zeros (k - 1).
Proof. intros H. replace k with ((k - 1) + 1) at 1 by lia. apply zeros_succ. lia. Qed.

(* ---- what the constructors require, for reading back ---------------------- *)
Definition payload_rd_wf (p : payload) : Prop :=
  match p with
  | P4 b => 0 <= b < 4294967296
  | P8 b => 0 <= b < 18446744073709551616
  | PStr s => nonul s
  | PBlob len d => 0 <= len < 4294967292 /\ match d with Some bs => zlen bs = len | None => True end
  end.

Lemma payload_rd_wf_wf p : payload_rd_wf p -> payload_wf p.
Proof. destruct p; cbn; intros H; try exact I. destruct H; split; [lia | assumption]. Qed.

Record msg_wf (a tags : list byte) (args : list payload) : Prop := {
  wf_addr_ne : a <> [];
  wf_addr : nonul a;
  wf_tags : nonul tags;
  wf_match : args_match tags args = true;
  wf_args : Forall payload_rd_wf args }.

Lemma msg_wf_args_wf a tags args : msg_wf a tags args -> args_wf tags args.
Proof.
  intros H. split; [apply H|]. eapply Forall_impl; [|apply H]. apply payload_rd_wf_wf.
Qed.

(* offsets inside the encoding *)
Definition tags_off (a : list byte) : Z := align4 (zlen a) + 1.
Definition args_off (a tags : list byte) : Z := align4 (align4 (zlen a) + 1 + zlen tags).

Lemma enc_layout a tags args :
  enc_spec a tags args =
  a ++ zeros (4 - zlen a mod 4) ++ (44 :: tags) ++ zeros (4 - (1 + zlen tags) mod 4)
    ++ concat (map enc_payload args).
Proof. unfold enc_spec, pad4z. rewrite zlen_cons, <- !app_assoc. reflexivity. Qed.

Section Reading.
Variables (a tags : list byte) (args : list payload) (rest : list byte).
Hypothesis WF : msg_wf a tags args.
Let m := enc_spec a tags args ++ rest.
Let P := concat (map enc_payload args) ++ rest.

Lemma m_layout :
  m = a ++ zeros (4 - zlen a mod 4) ++ (44 :: tags) ++ zeros (4 - (1 + zlen tags) mod 4) ++ P.
Proof. unfold m, P. rewrite enc_layout, <- !app_assoc. reflexivity. Qed.

Lemma from_tags : from m (tags_off a) = tags ++ zeros (4 - (1 + zlen tags) mod 4) ++ P.
Proof.
  rewrite m_layout. unfold tags_off, align4.
  replace (zlen a + (4 - zlen a mod 4) + 1) with (zlen a + ((4 - zlen a mod 4) + 1)) by lia.
  rewrite from_app_add by lia.
  rewrite from_zeros_add by lia. cbn [app]. apply from_cons1.
Qed.

Lemma from_args : from m (args_off a tags) = P.
Proof.
  assert (H : args_off a tags = tags_off a + (zlen tags + (4 - (1 + zlen tags) mod 4))).
  { unfold args_off, tags_off. pose proof (align4_mod (zlen a)). unfold align4 in *. lia. }
  rewrite H. rewrite from_add by (unfold tags_off, align4; pose proof (zlen_nonneg a); pose proof (zlen_nonneg tags); lia).
  rewrite from_tags. rewrite from_app_add by lia.
  apply from_zeros_len. lia.
Qed.

Lemma arg_string_enc : arg_string m = Ok (tags_off a).
Proof.
  destruct WF as [Hne Ha Ht _ _].
  assert (Hd : exists a0 a', a = a0 :: a') by (destruct a as [|x y]; [congruence | eauto]).
  destruct Hd as (a0 & a' & Hd).
  pose proof m_layout as ML. rewrite Hd in ML, Ha. unfold tags_off. rewrite Hd.
  inversion Ha as [|? ? Ha0 Ha']; subst x l.
  unfold arg_string.
  assert (Hk : 1 <= 4 - zlen (a0 :: a') mod 4) by lia.
  assert (H1 : from m 1 = a' ++ 0 :: zeros (4 - zlen (a0 :: a') mod 4 - 1) ++ (44 :: tags) ++
                          zeros (4 - (1 + zlen tags) mod 4) ++ P).
  { rewrite ML. cbn [app]. rewrite from_cons1. rewrite (zeros_pos _ Hk). reflexivity. }
  assert (Hone : 0 <= 1) by lia.
  rewrite (strz_from m 1 _ _ Hone Ha' H1). cbn [bind].
  assert (H2 : from m (1 + zlen a' + 1) = zeros (4 - zlen (a0 :: a') mod 4 - 1) ++ (44 :: tags) ++
                          zeros (4 - (1 + zlen tags) mod 4) ++ P).
  { pose proof (zlen_nonneg a').
    replace (1 + zlen a' + 1) with (1 + (zlen a' + 1)) by lia.
    rewrite (from_add m 1 (zlen a' + 1)) by lia. rewrite H1.
    rewrite from_app_add by lia. apply from_cons1. }
  rewrite H2. cbn [app]. rewrite findnz_zeros by lia. cbn [bind]. f_equal.
  unfold align4. rewrite zlen_cons. lia.
Qed.

Lemma tags_enc : cstr_at m (tags_off a) = Ok tags.
Proof.
  destruct WF as [_ _ Ht _ _].
  assert (Hk : 1 <= 4 - (1 + zlen tags) mod 4) by lia.
  eapply cstr_at_from; [unfold tags_off, align4; pose proof (zlen_nonneg a); lia | exact Ht |].
  rewrite from_tags, (zeros_pos _ Hk). reflexivity.
Qed.

Theorem narguments_enc : narguments m = Ok (count_nonbracket tags).
Proof. unfold narguments. rewrite arg_string_enc. cbn [bind]. rewrite tags_enc. reflexivity. Qed.

Theorem type_at_enc idx : type_at m idx = Ok (type_in tags (Z.to_nat idx)).
Proof. unfold type_at. rewrite arg_string_enc. cbn [bind]. rewrite tags_enc. reflexivity. Qed.

Lemma arg_start_enc : arg_start m = Ok (args_off a tags).
Proof.
  destruct WF as [_ _ Ht _ _].
  assert (Hk : 1 <= 4 - (1 + zlen tags) mod 4) by lia.
  unfold arg_start. rewrite arg_string_enc. cbn [bind].
  erewrite strz_from; [| unfold tags_off, align4; pose proof (zlen_nonneg a); lia | exact Ht |
                         rewrite from_tags, (zeros_pos _ Hk); reflexivity].
  cbn [bind]. f_equal. unfold args_off, tags_off. pose proof (align4_mod (zlen a)).
  unfold align4 in *. lia.
Qed.

End Reading.

(* ---- the values the iterator must yield ----------------------------------- *)
Definition const_val (t : byte) : argval :=
  if t =? 84 then VT true else if t =? 70 then VT false else V0.

(* the decoded view of (tags, args) when the argument bytes start at p *)
Fixpoint dec_spec (tags : list byte) (args : list payload) (p : Z) : list (byte * argval) :=
  match tags with
  | [] => []
  | t :: ts =>
      if is_bracket t then dec_spec ts args p else
      match kind_of t, args with
      | K0, _ => (t, const_val t) :: dec_spec ts args p
      | _, P4 b :: r => (t, V4 b) :: dec_spec ts r (p + 4)
      | _, P8 b :: r => (t, V8 b) :: dec_spec ts r (p + 8)
      | _, PStr s :: r => (t, VStr p) :: dec_spec ts r (p + zlen (pad4z s))
      | _, PBlob len d :: r => (t, VBlob len (p + 4)) :: dec_spec ts r (p + zlen (enc_payload (PBlob len d)))
      | _, [] => []
      end
  end.

Lemma bracket_K0 t : is_bracket t = true -> kind_of t = K0.
Proof.
  unfold is_bracket. intros H. apply orb_prop in H as [H|H]; apply Z.eqb_eq in H; subst; reflexivity.
Qed.

Lemma arg_size_enc m p t pl r :
  0 <= p -> payload_rd_wf pl -> payload_fits (kind_of t) pl = true ->
  from m p = enc_payload pl ++ r ->
  arg_size m p t = Ok (zlen (enc_payload pl)).
Proof.
  intros Hp Hw Hf H. unfold arg_size.
  destruct (kind_of t) eqn:K; destruct pl as [b|b|s|len d]; try discriminate; cbn [enc_payload] in *.
  - reflexivity.
  - reflexivity.
  - unfold pad4z in H. assert (Hk : 1 <= 4 - zlen s mod 4) by lia.
    rewrite (zeros_pos _ Hk), <- app_assoc in H. cbn [app] in H.
    rewrite (strz_from m p _ _ Hp Hw H). cbn [bind]. f_equal.
    unfold pad4z. rewrite zlen_app, zlen_zeros by lia. lia.
  - destruct Hw as [Hl Hd]. rewrite <- app_assoc in H.
    assert (Hl32 : 0 <= len < 4294967296) by lia.
    rewrite (rd32_from m p len _ Hp Hl32 H). cbn [bind]. f_equal.
    rewrite !zlen_app, zlen_be32, (zlen_zeros ((4 - len mod 4) mod 4)) by lia.
    assert (Hbody : zlen (match d with Some bs => bs | None => zeros len end) = len).
    { destruct d; [assumption | apply zlen_zeros; lia]. }
    rewrite Hbody. destruct (len mod 4 =? 0) eqn:E;
      [apply Z.eqb_eq in E | apply Z.eqb_neq in E]; lia.
Qed.

Lemma extract_arg_enc m p t pl r :
  0 <= p -> payload_rd_wf pl -> payload_fits (kind_of t) pl = true ->
  from m p = enc_payload pl ++ r ->
  extract_arg m p t =
  Ok (match pl with
      | P4 b => V4 b | P8 b => V8 b | PStr _ => VStr p | PBlob len _ => VBlob len (p + 4)
      end).
Proof.
  intros Hp Hw Hf H. unfold extract_arg.
  destruct (kind_of t) eqn:K; destruct pl as [b|b|s|len d]; try discriminate; cbn [enc_payload] in *.
  - rewrite (rd32_from m p _ _ Hp Hw H). reflexivity.
  - rewrite (rd64_from m p _ _ Hp Hw H). reflexivity.
  - reflexivity.
  - destruct Hw as [Hl Hd]. rewrite <- app_assoc in H.
    assert (Hl32 : 0 <= len < 4294967296) by lia.
    rewrite (rd32_from m p len _ Hp Hl32 H). reflexivity.
Qed.

Lemma itr_go_enc m tags : forall args p rest,
  0 <= p -> args_match tags args = true -> Forall payload_rd_wf args ->
  from m p = concat (map enc_payload args) ++ rest ->
  itr_go m tags p = Ok (dec_spec tags args p).
Proof.
  induction tags as [|t ts IH]; intros args p rest Hp Hm Hw H; [reflexivity|].
  cbn [itr_go dec_spec]. destruct (is_bracket t) eqn:B.
  - cbn [args_match] in Hm. rewrite (bracket_K0 t B) in Hm. eapply IH; eassumption.
  - cbn [args_match] in Hm. destruct (kind_of t) eqn:K.
    all: try (destruct args as [|pl ps]; [discriminate|];
              apply andb_prop in Hm as [Hf Hm]; rewrite <- K in Hf;
              inversion Hw as [|? ? Hw1 Hw2]; subst;
              cbn [map concat] in H; rewrite <- app_assoc in H;
              rewrite (extract_arg_enc m p t pl _ Hp Hw1 Hf H); cbn [bind];
              rewrite (arg_size_enc m p t pl _ Hp Hw1 Hf H); cbn [bind];
              pose proof (from_skip m p _ _ Hp H) as Hnext;
              pose proof (zlen_nonneg (enc_payload pl));
              rewrite (IH ps (p + zlen (enc_payload pl)) rest ltac:(lia) Hm Hw2 Hnext); cbn [bind];
              rewrite K in Hf;
              destruct pl as [b|b|s|len d]; try discriminate; reflexivity).
    (* K0 *)
    unfold extract_arg, arg_size. rewrite K. cbn [bind].
    replace (p + 0) with p by lia. rewrite (IH args p rest Hp Hm Hw H). reflexivity.
Qed.

Theorem itr_all_enc a tags args rest :
  msg_wf a tags args ->
  itr_all (enc_spec a tags args ++ rest) = Ok (dec_spec tags args (args_off a tags)).
Proof.
  intros WF. unfold itr_all.
  rewrite (arg_string_enc a tags args rest WF). cbn [bind].
  rewrite (tags_enc a tags args rest WF). cbn [bind].
  rewrite (arg_start_enc a tags args rest WF). cbn [bind].
  eapply itr_go_enc; [| apply WF | apply WF | apply (from_args a tags args rest)].
  unfold args_off, align4. pose proof (zlen_nonneg a). pose proof (zlen_nonneg tags). lia.
Qed.

(* the iterator yields exactly one item per non-bracket tag: the count
   accessor and the iterator agree *)
Lemma dec_spec_length tags : forall args p,
  args_match tags args = true ->
  zlen (dec_spec tags args p) = count_nonbracket tags.
Proof.
  induction tags as [|t ts IH]; intros args p Hm; [reflexivity|].
  cbn [dec_spec count_nonbracket]. destruct (is_bracket t) eqn:B.
  - cbn [args_match] in Hm. rewrite (bracket_K0 t B) in Hm. rewrite (IH args p Hm). lia.
  - cbn [args_match] in Hm. destruct (kind_of t) eqn:K.
    all: try (destruct args as [|pl ps]; [discriminate|];
              apply andb_prop in Hm as [Hf Hm];
              destruct pl as [b|b|s|len d]; try discriminate;
              rewrite zlen_cons, IH by assumption; lia).
    rewrite zlen_cons, IH by assumption. lia.
Qed.

(* the types and values are the original ones: tags in order (brackets
   dropped), numbers bit-identical, strings/blobs located where their bytes
   were encoded *)
Lemma dec_spec_types tags : forall args p,
  args_match tags args = true ->
  map fst (dec_spec tags args p) = filter (fun t => negb (is_bracket t)) tags.
Proof.
  induction tags as [|t ts IH]; intros args p Hm; [reflexivity|].
  cbn [dec_spec filter]. destruct (is_bracket t) eqn:B; cbn [negb].
  - cbn [args_match] in Hm. rewrite (bracket_K0 t B) in Hm. apply IH; assumption.
  - cbn [args_match] in Hm. destruct (kind_of t) eqn:K.
    all: try (destruct args as [|pl ps]; [discriminate|];
              apply andb_prop in Hm as [Hf Hm];
              destruct pl as [b|b|s|len d]; try discriminate;
              cbn [map fst]; f_equal; apply IH; assumption).
    cbn [map fst]. f_equal. apply IH; assumption.
Qed.

(* ---- argument by index ---------------------------------------------------- *)
Definition val_of_payload (pl : payload) (o : Z) : argval :=
  match pl with
  | P4 b => V4 b | P8 b => V8 b | PStr _ => VStr o | PBlob len _ => VBlob len (o + 4)
  end.

Lemma arg_off_go_skip m tags idx p :
  arg_off_go m (skip_brackets tags) idx p = arg_off_go m tags idx p.
Proof.
  induction tags as [|t ts IH]; [reflexivity|].
  cbn [skip_brackets]. destruct (is_bracket t) eqn:B; [|reflexivity].
  rewrite IH. cbn [arg_off_go]. rewrite B.
  destruct (idx <=? 0) eqn:E; [|reflexivity].
  destruct ts; cbn [arg_off_go]; rewrite E; reflexivity.
Qed.

(* the idx-th decoded item, the offset arg_off_go reaches, and what lies there *)
Lemma arg_off_go_enc m tags : forall args p rest idx,
  0 <= p -> args_match tags args = true -> Forall payload_rd_wf args ->
  from m p = concat (map enc_payload args) ++ rest ->
  0 <= idx < count_nonbracket tags ->
  exists t v, nth_error (dec_spec tags args p) (Z.to_nat idx) = Some (t, v) /\
              type_in tags (Z.to_nat idx) = t /\
              (kind_of t = K0 -> v = const_val t) /\
              (kind_of t <> K0 ->
               exists o, arg_off_go m tags idx p = Ok o /\ extract_arg m o t = Ok v).
Proof.
  induction tags as [|t ts IH]; intros args p rest idx Hp Hm Hw H Hi.
  - cbn [count_nonbracket] in Hi. lia.
  - cbn [count_nonbracket dec_spec type_in arg_off_go] in *. destruct (is_bracket t) eqn:B.
    + cbn [args_match] in Hm. rewrite (bracket_K0 t B) in Hm.
      destruct (IH args p rest idx Hp Hm Hw H ltac:(lia)) as (t' & v & Hn & Ht & Hk0 & Hk).
      exists t', v. repeat split; try assumption.
      intros Hne. destruct (Hk Hne) as (o & Ho & He). exists o. split; [|assumption].
      destruct (idx <=? 0) eqn:E; [|assumption].
      apply Z.leb_le in E. assert (idx = 0) by lia. subst idx.
      destruct ts; cbn [arg_off_go] in Ho |- *; exact Ho.
    + cbn [args_match] in Hm.
      destruct (Z.eq_dec idx 0) as [E0|E0].
      * subst idx. cbn [Z.to_nat]. change (0 <=? 0) with true. cbn iota.
        destruct (kind_of t) eqn:K.
        all: try (destruct args as [|pl ps]; [discriminate|];
                  apply andb_prop in Hm as [Hf Hm]; rewrite <- K in Hf;
                  inversion Hw as [|? ? Hw1 Hw2]; subst;
                  cbn [map concat] in H; rewrite <- app_assoc in H;
                  exists t, (val_of_payload pl p); split;
                  [rewrite K in Hf; destruct pl; try discriminate; reflexivity|];
                  split; [reflexivity|]; split; [intros HH; rewrite K in HH; discriminate|];
                  intros _; exists p; split; [reflexivity|];
                  rewrite (extract_arg_enc m p t pl _ Hp Hw1 Hf H); destruct pl; reflexivity).
        exists t, (const_val t). split; [reflexivity|]. split; [reflexivity|].
        split; [reflexivity|]. intros Hne; congruence.
      * replace (idx <=? 0) with false by (symmetry; apply Z.leb_gt; lia).
        replace (Z.to_nat idx) with (S (Z.to_nat (idx - 1))) by lia.
        destruct (kind_of t) eqn:K.
        all: try (destruct args as [|pl ps]; [discriminate|];
                  apply andb_prop in Hm as [Hf Hm]; rewrite <- K in Hf;
                  inversion Hw as [|? ? Hw1 Hw2]; subst;
                  cbn [map concat] in H; rewrite <- app_assoc in H;
                  rewrite (arg_size_enc m p t pl _ Hp Hw1 Hf H); cbn [bind];
                  pose proof (from_skip m p _ _ Hp H) as Hnext;
                  pose proof (zlen_nonneg (enc_payload pl));
                  destruct (IH ps (p + zlen (enc_payload pl)) rest (idx - 1) ltac:(lia) Hm Hw2 Hnext ltac:(lia))
                    as (t' & v & Hn & Ht & Hk0 & Hk);
                  exists t', v; rewrite K in Hf;
                  destruct pl as [b|b|s|len d]; try discriminate; cbn [nth_error];
                  repeat split; assumption).
        unfold arg_size. rewrite K. cbn [bind]. replace (p + 0) with p by lia.
        destruct (IH args p rest (idx - 1) Hp Hm Hw H ltac:(lia)) as (t' & v & Hn & Ht & Hk0 & Hk).
        exists t', v. cbn [nth_error]. repeat split; assumption.
Qed.

Theorem argument_enc a tags args rest idx :
  msg_wf a tags args -> 0 <= idx < count_nonbracket tags ->
  exists t v, nth_error (dec_spec tags args (args_off a tags)) (Z.to_nat idx) = Some (t, v) /\
              type_at (enc_spec a tags args ++ rest) idx = Ok t /\
              argument (enc_spec a tags args ++ rest) idx = Ok v.
Proof.
  intros WF Hi.
  assert (Hp : 0 <= args_off a tags).
  { unfold args_off, align4. pose proof (zlen_nonneg a). pose proof (zlen_nonneg tags). lia. }
  destruct (arg_off_go_enc (enc_spec a tags args ++ rest) tags args (args_off a tags) rest idx
              Hp (wf_match _ _ _ WF) (wf_args _ _ _ WF) (from_args a tags args rest) Hi)
    as (t & v & Hn & Ht & Hk0 & Hk).
  exists t, v. split; [assumption|].
  rewrite (type_at_enc a tags args rest WF). split; [rewrite Ht; reflexivity|].
  unfold argument, arg_off. rewrite (type_at_enc a tags args rest WF). cbn [bind]. rewrite Ht.
  unfold has_reserved. destruct (kind_of t) eqn:K.
  all: try (change (1 =? 0) with false; cbn iota;
            rewrite (arg_string_enc a tags args rest WF); cbn [bind];
            rewrite (tags_enc a tags args rest WF); cbn [bind];
            rewrite (arg_start_enc a tags args rest WF); cbn [bind];
            rewrite arg_off_go_skip;
            destruct (Hk ltac:(congruence)) as (o & -> & He); cbn [bind]; exact He).
  change (0 =? 0) with true. cbn iota. cbn [bind].
  rewrite (Hk0 eq_refl). unfold extract_arg. rewrite K. reflexivity.
Qed.
