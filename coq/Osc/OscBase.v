(* Basic lemmas about the byte-level vocabulary of OscModel. *)
From Coq Require Import List ZArith Bool Lia.
From RtoscV Require Import Osc.OscModel.
Import ListNotations.
Local Open Scope Z_scope.
Ltac Zify.zify_post_hook ::= Z.div_mod_to_equations.

Lemma zlen_nonneg {A} (l : list A) : 0 <= zlen l.
Proof. unfold zlen. lia. Qed.

Lemma zlen_nil {A} : zlen (@nil A) = 0.
Proof. reflexivity. Qed.

Lemma zlen_cons {A} (x : A) l : zlen (x :: l) = 1 + zlen l.
Proof. unfold zlen. cbn [length]. lia. Qed.

Lemma zlen_app {A} (l1 l2 : list A) : zlen (l1 ++ l2) = zlen l1 + zlen l2.
Proof. unfold zlen. rewrite app_length. lia. Qed.

Lemma zlen_zeros n : 0 <= n -> zlen (zeros n) = n.
Proof. intros H. unfold zlen, zeros. rewrite repeat_length. lia. Qed.

Lemma zeros_0 : zeros 0 = [].
Proof. reflexivity. Qed.

Lemma zeros_neg n : n <= 0 -> zeros n = [].
Proof. intros H. unfold zeros. replace (Z.to_nat n) with O by lia. reflexivity. Qed.

Lemma zeros_add a b : 0 <= a -> 0 <= b -> zeros (a + b) = zeros a ++ zeros b.
Proof.
  intros Ha Hb. unfold zeros. rewrite Z2Nat.inj_add by assumption. apply repeat_app.
Qed.

Lemma zeros_succ n : 0 <= n -> zeros (n + 1) = 0 :: zeros n.
Proof.
  intros H. unfold zeros. replace (Z.to_nat (n + 1)) with (S (Z.to_nat n)) by lia. reflexivity.
Qed.

Lemma length_zeros n : length (zeros n) = Z.to_nat n.
Proof. unfold zeros. apply repeat_length. Qed.

Lemma zlen_be32 x : zlen (be32 x) = 4.
Proof. reflexivity. Qed.

Lemma zlen_be64 x : zlen (be64 x) = 8.
Proof. reflexivity. Qed.

Lemma align4_mod pos : align4 pos mod 4 = 0.
Proof. unfold align4. lia. Qed.

Lemma align4_gt pos : pos < align4 pos <= pos + 4.
Proof. unfold align4. lia. Qed.

Lemma align4_add pos n : pos mod 4 = 0 -> align4 (pos + n) = pos + align4 n.
Proof. unfold align4. intros H. lia. Qed.

Lemma zlen_pad4z s : zlen (pad4z s) = align4 (zlen s).
Proof.
  unfold pad4z, align4. rewrite zlen_app, zlen_zeros; [reflexivity|].
  pose proof (Z.mod_pos_bound (zlen s) 4). lia.
Qed.

(* big-endian round trip *)
Lemma unbe32_be32 x : 0 <= x < 4294967296 ->
  match be32 x with [a; b; c; d] => unbe32 a b c d = x | _ => False end.
Proof. intros H. unfold be32, unbe32. lia. Qed.

Lemma be32_bytes x : Forall (fun b => 0 <= b < 256) (be32 x).
Proof. unfold be32. repeat constructor; lia. Qed.

(* reading *)
Lemma from_eq m i : from m i = skipn (Z.to_nat i) m.
Proof.
  unfold from. destruct (zlen m <=? i) eqn:E; [|reflexivity].
  apply Z.leb_le in E. symmetry. apply skipn_all2. unfold zlen in E. lia.
Qed.

Lemma rd_eq m i : rd m i = if i <? 0 then Oob else
  match nth_error m (Z.to_nat i) with Some b => Ok b | None => Oob end.
Proof.
  unfold rd. destruct (i <? 0) eqn:E0; [reflexivity|]. apply Z.ltb_ge in E0.
  destruct (zlen m <=? i) eqn:E; [|reflexivity].
  apply Z.leb_le in E. replace (nth_error m (Z.to_nat i)) with (@None byte); [reflexivity|].
  symmetry. apply nth_error_None. unfold zlen in E. lia.
Qed.

Lemma from_0 m : from m 0 = m.
Proof. rewrite from_eq. reflexivity. Qed.

Lemma from_app_len (l1 l2 : list byte) : from (l1 ++ l2) (zlen l1) = l2.
Proof.
  rewrite from_eq. unfold zlen. rewrite Nat2Z.id.
  rewrite skipn_app, skipn_all, Nat.sub_diag. reflexivity.
Qed.

Lemma skipn_skipn' {A} (a b : nat) (l : list A) : skipn a (skipn b l) = skipn (b + a) l.
Proof.
  revert l. induction b as [|b IH]; intros l; cbn [skipn Nat.add]; [reflexivity|].
  destruct l as [|x l]; [destruct a; reflexivity | apply IH].
Qed.

Lemma from_add m p k : 0 <= p -> 0 <= k -> from m (p + k) = from (from m p) k.
Proof.
  intros Hp Hk. rewrite !from_eq. rewrite Z2Nat.inj_add by assumption.
  symmetry. apply skipn_skipn'.
Qed.
