(* C07, last clause: on every accepted buffer the accessors return what the
   reference OSC 1.0 decoder (OscModel.ref_decode, written from the
   specification text) returns. *)
From Coq Require Import List ZArith Bool Lia.
From RtoscV Require Import Osc.OscModel Osc.OscBase Osc.OscEncProofs Osc.OscReadProofs
  Osc.OscLenProofs Osc.OscTotalProofs Osc.OscValidProofs.
Import ListNotations.
Local Open Scope Z_scope.
Ltac Zify.zify_post_hook ::= Z.div_mod_to_equations.

Lemma find0_cstr_len : forall l i e, find0 l i = Ok e -> exists s, cstr l = Ok s /\ e = i + zlen s.
Proof.
  induction l as [|c l IH]; intros i e H; cbn [find0 cstr] in *; [discriminate|].
  destruct (c =? 0).
  - inversion H; subst. exists []. split; [reflexivity|]. unfold zlen. cbn [length]. lia.
  - destruct (IH _ _ H) as (s & -> & He). exists (c :: s). split; [reflexivity|]. rewrite zlen_cons. lia.
Qed.

Lemma strz_cstr m p e : 0 <= p -> strz m p = Ok e -> exists s, cstr_at m p = Ok s /\ e = p + zlen s.
Proof.
  intros Hp H. unfold strz, cstr_at in *.
  replace (p <? 0) with false in * by (symmetry; apply Z.ltb_ge; lia).
  apply find0_cstr_len. exact H.
Qed.

(* the iterator's walk is the reference decoder's walk *)
Lemma itr_go_ref m (Hn : zlen m < 134217728) tags : forall p l,
  0 <= p -> itr_go m tags p = Ok l -> Forall (payload_inside m) (map snd l) ->
  ref_args m tags p = Ok l.
Proof.
  induction tags as [|t ts IH]; intros p l Hp H Hin.
  - cbn in H. inversion H. reflexivity.
  - cbn [itr_go ref_args] in *. destruct (is_bracket t); [apply IH; assumption|].
    destruct (extract_arg m p t) as [v0| |] eqn:Ev; cbn [bind] in H; try discriminate.
    destruct (arg_size m p t) as [sz| |] eqn:Es; cbn [bind] in H; try discriminate.
    destruct (itr_go m ts (p + sz)) as [rest| |] eqn:Er; cbn [bind] in H; try discriminate.
    inversion H; subst l. cbn [map snd] in Hin. inversion Hin as [|? ? Hv Hrest]; subst.
    unfold extract_arg in Ev. unfold arg_size in Es. destruct (kind_of t) eqn:K.
    + destruct (rd32 m p) as [v| |]; cbn [bind] in Ev; try discriminate. inversion Ev; inversion Es; subst.
      cbn [bind]. rewrite (IH (p + 4) rest ltac:(lia) Er Hrest). reflexivity.
    + destruct (rd64 m p) as [v| |]; cbn [bind] in Ev; try discriminate. inversion Ev; inversion Es; subst.
      cbn [bind]. rewrite (IH (p + 8) rest ltac:(lia) Er Hrest). reflexivity.
    + inversion Ev; subst v0.
      destruct (strz m p) as [e| |] eqn:Ee; cbn [bind] in Es; try discriminate. inversion Es; subst sz.
      destruct (strz_cstr m p e Hp Ee) as (s & Hs & He). unfold osc_string. rewrite Hs. cbn [bind snd].
      replace (p + (zlen s + (4 - zlen s mod 4))) with (p + (e - p + (4 - (e - p) mod 4)))
        by (subst e; replace (p + zlen s - p) with (zlen s) by lia; reflexivity).
      pose proof (zlen_nonneg s).
      assert (Hnext : 0 <= p + (e - p + (4 - (e - p) mod 4))) by lia.
      rewrite (IH (p + (e - p + (4 - (e - p) mod 4))) rest Hnext Er Hrest). reflexivity.
    + destruct (rd32 m p) as [len| |] eqn:El; cbn [bind] in Ev, Es; try discriminate.
      inversion Ev; subst v0. inversion Es; subst sz. cbn [bind].
      cbn in Hv. destruct Hv as (Hoff & Hlen & Hend).
      assert (Hsame : p + 4 + len + (4 - len mod 4) mod 4 =
                      p + (4 + (if len mod 4 =? 0 then len else (len + (4 - len mod 4)) mod 4294967296))).
      { destruct (len mod 4 =? 0) eqn:E4; [apply Z.eqb_eq in E4; lia | apply Z.eqb_neq in E4].
        rewrite (Z.mod_small (len + (4 - len mod 4))) by lia. lia. }
      assert (Hnext : 0 <= p + (4 + (if len mod 4 =? 0 then len else (len + (4 - len mod 4)) mod 4294967296)))
        by (destruct (len mod 4 =? 0); lia).
      rewrite Hsame, (IH _ rest Hnext Er Hrest). reflexivity.
    + inversion Ev; inversion Es; subst. replace (p + 0) with p in Er by lia.
      rewrite (IH p rest Hp Er Hrest). reflexivity.
Qed.

Lemma cstr_at_cons m p c s : 0 <= p -> rd m p = Ok c -> c <> 0 -> cstr_at m (p + 1) = Ok s ->
  cstr_at m p = Ok (c :: s).
Proof.
  intros Hp Hc Hc0 Hs. unfold cstr_at in *.
  replace (p <? 0) with false by (symmetry; apply Z.ltb_ge; lia).
  replace (p + 1 <? 0) with false in Hs by (symmetry; apply Z.ltb_ge; lia).
  rewrite rd_eq in Hc. replace (p <? 0) with false in Hc by (symmetry; apply Z.ltb_ge; lia).
  rewrite !from_eq in *. replace (Z.to_nat (p + 1)) with (S (Z.to_nat p)) in Hs by lia.
  destruct (nth_error m (Z.to_nat p)) as [c'|] eqn:En; [|discriminate]. inversion Hc; subst c'.
  rewrite (nth_skipn_cons m _ _ En). cbn [cstr]. rewrite (eqb0 c Hc0), Hs. reflexivity.
Qed.

(* every accepted buffer decodes, and the accessors return exactly what the
   reference decoder returns: the type tags and the list of (tag, value) *)
Theorem valid_decodes m :
  bytes_ok m -> zlen m < 134217728 ->
  valid_message_p m (zlen m) = Ok true ->
  exists addr tags l s,
    ref_decode m = Ok (addr, tags, l) /\
    arg_string m = Ok s /\ cstr_at m s = Ok tags /\ itr_all m = Ok l.
Proof.
  intros Hb Hn Hv.
  destruct (valid_layout m Hb Hn Hv)
    as (p0 & pos & e & tags & l & H0 & Hp0 & Hpos & Hp4 & Hc & He & Hen & Ht & Hl & Hin & Hargstr & Hitr).
  pose proof (zlen_nonneg m).
  destruct (strz_cstr m 0 p0 ltac:(lia) Hp0) as (addr & Haddr & Hp0l).
  pose proof (zlen_nonneg addr) as Hp0'.
  destruct (strz_cstr m (pos + 1) e ltac:(lia) He) as (tags2 & Ht2 & Hel).
  rewrite Ht in Ht2. inversion Ht2; subst tags2.
  assert (Htt : cstr_at m pos = Ok (44 :: tags)) by (apply cstr_at_cons; [lia | assumption | lia | assumption]).
  exists addr, tags, l, (pos + 1).
  split; [|split; [exact Hargstr | split; [exact Ht | exact Hitr]]].
  unfold ref_decode, osc_string. rewrite Haddr. cbn [bind fst snd].
  replace (0 + (zlen addr + (4 - zlen addr mod 4))) with pos by lia.
  rewrite Htt. cbn [bind fst snd]. change (44 =? 44) with true. cbn iota.
  rewrite zlen_cons.
  replace (pos + (1 + zlen tags + (4 - (1 + zlen tags) mod 4))) with (e + (4 - (e - pos) mod 4)) by lia.
  assert (Hstart : 0 <= e + (4 - (e - pos) mod 4)) by (pose proof (zlen_nonneg tags); lia).
  rewrite (itr_go_ref m Hn tags (e + (4 - (e - pos) mod 4)) l Hstart Hl Hin). reflexivity.
Qed.
