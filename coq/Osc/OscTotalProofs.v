(* C07: on an ARBITRARY byte buffer the length and validity functions read only
   inside the buffer (never Oob), terminate (never Fuel) and report a length
   that is 0 or at most n. *)
From Coq Require Import List ZArith Bool Lia.
From RtoscV Require Import Osc.OscModel Osc.OscBase Osc.OscEncProofs Osc.OscReadProofs Osc.OscLenProofs.
Import ListNotations.
Local Open Scope Z_scope.
Ltac Zify.zify_post_hook ::= Z.div_mod_to_equations.

Definition bytes_ok (m : list byte) : Prop := Forall (fun b => 0 <= b < 256) m.

(* a ring whose claimed lengths are backed by memory *)
Record ring_ok (r : ring) : Prop := {
  rk_n0 : 0 <= n0 r <= zlen (d0 r);
  rk_n1 : 0 <= n1 r <= zlen (d1 r);
  rk_b0 : bytes_ok (d0 r);
  rk_b1 : bytes_ok (d1 r);
  rk_tot : ring_total r < W32 - 16 }.

Lemma rd_total m i : bytes_ok m -> 0 <= i < zlen m -> exists b, rd m i = Ok b /\ 0 <= b < 256.
Proof.
  intros Hb Hi. rewrite rd_eq. replace (i <? 0) with false by (symmetry; apply Z.ltb_ge; lia).
  destruct (nth_error m (Z.to_nat i)) as [b|] eqn:E.
  - exists b. split; [reflexivity|]. apply nth_error_In in E.
    unfold bytes_ok in Hb. rewrite Forall_forall in Hb. apply Hb. exact E.
  - apply nth_error_None in E. unfold zlen in Hi. lia.
Qed.

Section Total.
Variable r : ring.
Hypothesis RK : ring_ok r.

Lemma deref_total pos : 0 <= pos -> exists b, deref r pos = Ok b /\ 0 <= b < 256.
Proof.
  intros Hp. destruct RK as [[H0a H0b] [H1a H1b] Hb0 Hb1 _]. unfold deref.
  destruct (pos <? n0 r) eqn:E0.
  - apply Z.ltb_lt in E0. apply rd_total; [assumption | lia].
  - apply Z.ltb_ge in E0. destruct (pos - n0 r <? n1 r) eqn:E1.
    + apply Z.ltb_lt in E1. apply rd_total; [assumption | lia].
    + exists 0. split; [reflexivity | lia].
Qed.

Lemma deref_beyond pos : ring_total r <= pos -> deref r pos = Ok 0.
Proof.
  intros Hp. destruct RK as [[H0a H0b] [H1a H1b] _ _ _]. unfold deref, ring_total in *.
  replace (pos <? n0 r) with false by (symmetry; apply Z.ltb_ge; lia).
  replace (pos - n0 r <? n1 r) with false by (symmetry; apply Z.ltb_ge; lia). reflexivity.
Qed.

Lemma total_nonneg : 0 <= ring_total r.
Proof. destruct RK as [[? ?] [? ?] _ _ _]. unfold ring_total. lia. Qed.

Lemma scan0_total : forall fuel pos,
  0 <= pos < W32 -> (Z.to_nat (ring_total r - pos) < fuel)%nat ->
  exists p, scan0 fuel r pos = Ok p /\ pos <= p < W32.
Proof.
  pose proof total_nonneg as Ht. pose proof (rk_tot r RK) as HW.
  induction fuel as [|fuel IH]; intros pos Hp Hf; [lia|].
  cbn [scan0]. destruct (Z_lt_le_dec pos (ring_total r)) as [Hlt|Hge].
  - destruct (deref_total pos ltac:(lia)) as (b & -> & Hb). cbn [bind].
    destruct (b =? 0) eqn:E; [exists pos; split; [reflexivity | lia]|].
    rewrite w32_small by (unfold W32 in *; lia).
    destruct (IH (pos + 1) ltac:(unfold W32 in *; lia) ltac:(lia)) as (p & Hs & Hp').
    exists p. split; [assumption | lia].
  - rewrite (deref_beyond pos Hge). cbn [bind]. change (0 =? 0) with true. cbn iota.
    exists pos. split; [reflexivity | lia].
Qed.

Lemma read_tags_total : forall fuel pos,
  0 <= pos < W32 -> (Z.to_nat (ring_total r - pos) < fuel)%nat ->
  exists ts, read_tags fuel r pos = Ok ts.
Proof.
  pose proof total_nonneg as Ht. pose proof (rk_tot r RK) as HW.
  induction fuel as [|fuel IH]; intros pos Hp Hf; [lia|].
  cbn [read_tags]. destruct (Z_lt_le_dec pos (ring_total r)) as [Hlt|Hge].
  - destruct (deref_total pos ltac:(lia)) as (b & -> & Hb). cbn [bind].
    destruct (b =? 0) eqn:E; [exists []; reflexivity|].
    rewrite w32_small by (unfold W32 in *; lia).
    destruct (IH (pos + 1) ltac:(unfold W32 in *; lia) ltac:(lia)) as (ts & ->).
    cbn [bind]. eexists; reflexivity.
  - rewrite (deref_beyond pos Hge). cbn [bind]. change (0 =? 0) with true. cbn iota.
    exists []. reflexivity.
Qed.

Lemma w32_range x : 0 <= w32 x < W32.
Proof. unfold w32, W32. lia. Qed.

Lemma deref32_total pos : 0 <= pos ->
  exists v, deref32 r pos = Ok v /\ 0 <= v < 4294967296.
Proof.
  intros Hp. unfold deref32.
  destruct (deref_total pos Hp) as (a & -> & Ha). cbn [bind].
  destruct (deref_total (w32 (pos + 1)) (proj1 (w32_range _))) as (b & -> & Hb). cbn [bind].
  destruct (deref_total (w32 (pos + 2)) (proj1 (w32_range _))) as (c & -> & Hc). cbn [bind].
  destruct (deref_total (w32 (pos + 3)) (proj1 (w32_range _))) as (d & -> & Hd). cbn [bind].
  eexists. split; [reflexivity|]. unfold unbe32. lia.
Qed.

Lemma is_magic_total l : forall i, 0 <= i -> exists b, is_magic r i l = Ok b.
Proof.
  induction l as [|c l IH]; intros i Hi; cbn [is_magic]; [eexists; reflexivity|].
  destruct (deref_total i Hi) as (x & -> & _). cbn [bind].
  destruct (x =? c); [apply IH; lia | eexists; reflexivity].
Qed.

(* the argument walk never runs past the tag list and never leaves [0, W32) *)
Lemma ring_args_total guard fuel aligned tags : forall pos,
  0 <= pos < W32 -> (Z.to_nat (ring_total r) < fuel)%nat ->
  exists fin, ring_args guard fuel r aligned (nreserved tags) tags pos = Ok fin /\ 0 <= fin.
Proof.
  pose proof total_nonneg as Ht. pose proof (rk_tot r RK) as HW.
  induction tags as [|t ts IH]; intros pos Hp Hf.
  - cbn. exists pos. split; [reflexivity | lia].
  - pose proof (nreserved_nonneg ts) as Hnn.
    cbn [ring_args nreserved]. unfold has_reserved. destruct (kind_of t) eqn:K.
    + replace (1 + nreserved ts =? 0) with false by (symmetry; apply Z.eqb_neq; lia).
      replace (1 + nreserved ts - 1) with (nreserved ts) by lia.
      apply IH; [apply w32_range | assumption].
    + replace (1 + nreserved ts =? 0) with false by (symmetry; apply Z.eqb_neq; lia).
      replace (1 + nreserved ts - 1) with (nreserved ts) by lia.
      apply IH; [apply w32_range | assumption].
    + replace (1 + nreserved ts =? 0) with false by (symmetry; apply Z.eqb_neq; lia).
      replace (1 + nreserved ts - 1) with (nreserved ts) by lia.
      destruct (scan0_total fuel pos Hp ltac:(lia)) as (e & -> & He). cbn [bind].
      apply IH; [apply w32_range | assumption].
    + replace (1 + nreserved ts =? 0) with false by (symmetry; apply Z.eqb_neq; lia).
      replace (1 + nreserved ts - 1) with (nreserved ts) by lia.
      destruct (deref32_total pos ltac:(lia)) as (i & -> & Hi). cbn [bind].
      destruct (guard && (ring_total r <? w32 (pos + 4) + i)).
      * exists (ring_total r + 1). split; [reflexivity | lia].
      * destruct ((w32 (pos + 4 + i) - aligned) mod 4 =? 0);
          (apply IH; [apply w32_range | assumption]).
    + replace (0 + nreserved ts) with (nreserved ts) by lia.
      destruct (nreserved ts =? 0) eqn:E.
      * exists pos. split; [reflexivity | lia].
      * apply IH; assumption.
Qed.

(* the repaired bundle walk: every iteration either stops or moves forward
   inside the ring *)
Lemma bundle_len_go_total : forall fuel pos,
  0 <= pos -> (Z.to_nat (ring_total r - pos) < fuel)%nat ->
  exists p, bundle_len_go fuel r pos = Ok p /\ 0 <= p.
Proof.
  pose proof total_nonneg as Ht. pose proof (rk_tot r RK) as HW.
  induction fuel as [|fuel IH]; intros pos Hp Hf; [lia|].
  cbn [bundle_len_go]. destruct (deref32_total pos Hp) as (adv & -> & Ha). cbn [bind].
  destruct (adv =? 0) eqn:E0; [exists pos; split; [reflexivity | lia]|]. apply Z.eqb_neq in E0.
  destruct (ring_total r - pos - 4 <? adv) eqn:E1.
  - exists (ring_total r + 1). split; [reflexivity | lia].
  - apply Z.ltb_ge in E1. rewrite w32_small by (unfold W32 in *; lia).
    apply IH; lia.
Qed.

Theorem message_ring_length_total :
  exists L, message_ring_length r = Ok L /\ (L = 0 \/ 0 < L <= ring_total r).
Proof.
  pose proof total_nonneg as Ht. pose proof (rk_tot r RK) as HW.
  assert (Hfuel : (Z.to_nat (ring_total r) < fuel_of r)%nat).
  { destruct RK as [[? ?] [? ?] _ _ _]. unfold fuel_of, ring_total, zlen in *. lia. }
  unfold message_ring_length, message_ring_length_gen.
  destruct (is_magic_total bundle_magic 0 ltac:(lia)) as (mg & ->). cbn [bind].
  destruct mg.
  - unfold bundle_ring_length.
    destruct (bundle_len_go_total (fuel_of r) 16 ltac:(lia) ltac:(lia)) as (p & -> & Hp). cbn [bind].
    eexists. split; [reflexivity|].
    destruct (p <=? ring_total r) eqn:E; [apply Z.leb_le in E; lia | left; reflexivity].
  - destruct (scan0_total (fuel_of r) 0 ltac:(unfold W32; lia) ltac:(lia)) as (p0 & -> & Hp0). cbn [bind].
    destruct (deref_total (w32 (p0 + 1)) (proj1 (w32_range _))) as (c1 & -> & _). cbn [bind].
    assert (Hpos : exists pos,
      (if negb (c1 =? 0) then Ok (w32 (p0 + 1)) else
       c2 <- deref r (w32 (p0 + 2)) ;;
       if negb (c2 =? 0) then Ok (w32 (p0 + 2)) else
       c3 <- deref r (w32 (p0 + 3)) ;;
       if negb (c3 =? 0) then Ok (w32 (p0 + 3)) else
       c4 <- deref r (w32 (p0 + 4)) ;; Ok (w32 (p0 + 4))) = Ok pos /\ 0 <= pos < W32).
    { destruct (negb (c1 =? 0)); [eexists; split; [reflexivity | apply w32_range]|].
      destruct (deref_total (w32 (p0 + 2)) (proj1 (w32_range _))) as (c2 & -> & _). cbn [bind].
      destruct (negb (c2 =? 0)); [eexists; split; [reflexivity | apply w32_range]|].
      destruct (deref_total (w32 (p0 + 3)) (proj1 (w32_range _))) as (c3 & -> & _). cbn [bind].
      destruct (negb (c3 =? 0)); [eexists; split; [reflexivity | apply w32_range]|].
      destruct (deref_total (w32 (p0 + 4)) (proj1 (w32_range _))) as (c4 & -> & _). cbn [bind].
      eexists; split; [reflexivity | apply w32_range]. }
    destruct Hpos as (pos & -> & Hpos). cbn [bind].
    destruct (deref_total pos ltac:(lia)) as (c & -> & _). cbn [bind].
    destruct (negb (c =? 44)); [exists 0; split; [reflexivity | left; reflexivity]|].
    destruct (read_tags_total (fuel_of r) (w32 (pos + 1)) (w32_range _) ltac:(pose proof (w32_range (pos + 1)); lia))
      as (tags & ->). cbn [bind].
    destruct (scan0_total (fuel_of r) (w32 (pos + 1)) (w32_range _) ltac:(pose proof (w32_range (pos + 1)); lia))
      as (e & -> & He). cbn [bind].
    destruct (ring_args_total true (fuel_of r) pos tags (w32 (e + (4 - (e - pos) mod 4))) (w32_range _) Hfuel)
      as (fin & -> & Hfin). cbn [bind].
    eexists. split; [reflexivity|].
    destruct (fin <=? ring_total r) eqn:E; [apply Z.leb_le in E; lia | left; reflexivity].
Qed.
End Total.

(* rtosc_message_length(msg, n) and rtosc_valid_message_p(msg, n) on an
   arbitrary buffer of exactly n bytes *)
Theorem message_length_total m :
  bytes_ok m -> zlen m < W32 - 16 ->
  exists L, message_length m (zlen m) = Ok L /\ (L = 0 \/ 0 < L <= zlen m).
Proof.
  intros Hb Hn. unfold message_length.
  set (r := {| d0 := m; n0 := zlen m; d1 := []; n1 := 0 |}).
  assert (RK : ring_ok r).
  { constructor; cbn [d0 n0 d1 n1 r]; try (pose proof (zlen_nonneg m); unfold zlen in *; cbn [length]; lia);
      [assumption | constructor | unfold ring_total; cbn [n0 n1 r]; lia]. }
  destruct (message_ring_length_total r RK) as (L & HL & Hb').
  exists L. split; [exact HL|]. unfold ring_total in Hb'. cbn [n0 n1 r] in Hb'. lia.
Qed.

Theorem valid_message_total m :
  bytes_ok m -> zlen m < W32 - 16 -> exists b, valid_message_p m (zlen m) = Ok b.
Proof.
  intros Hb Hn. unfold valid_message_p, valid_message_gen. cbn [andb].
  destruct (zlen m =? 0) eqn:E0; [eexists; reflexivity|]. apply Z.eqb_neq in E0.
  pose proof (zlen_nonneg m).
  destruct (rd_total m 0 Hb ltac:(lia)) as (c0 & -> & _). cbn [bind].
  destruct (negb (c0 =? 47)); [eexists; reflexivity|].
  replace (zlen m <? zlen m) with false by (symmetry; apply Z.ltb_ge; lia).
  destruct (path_scan m 0 (zlen m)) as [o1|]; [|eexists; reflexivity].
  destruct (4 <? comma_scan (from m o1) o1 (zlen m) - o1); [eexists; reflexivity|].
  destruct (negb (comma_scan (from m o1) o1 (zlen m) mod 4 =? 0)); [eexists; reflexivity|].
  destruct (message_length_total m Hb Hn) as (L & -> & _). cbn [bind]. eexists; reflexivity.
Qed.
