(* C08 / C02: bundles.  The builder (rtosc_bundle) produces exactly the bundle
   layout for every capacity, and the readers invert it, for element trees of
   any depth. *)
From Coq Require Import List ZArith Bool Lia.
From RtoscV Require Import Osc.OscModel Osc.OscBase Osc.OscEncProofs Osc.OscReadProofs Osc.OscLenProofs.
Import ListNotations.
Local Open Scope Z_scope.
Ltac Zify.zify_post_hook ::= Z.div_mod_to_equations.

(* ---- the flat view: a bundle body is a sequence of length-prefixed blocks - *)
Definition slot (b : list byte) : list byte := be32 (zlen b) ++ b.
Definition body (bs : list (list byte)) : list byte := concat (map slot bs).
Definition blk_ok (b : list byte) : Prop := 0 < zlen b /\ zlen b mod 4 = 0 /\ zlen b < 4294967296.

Definition z4 : list byte := [0; 0; 0; 0].

Lemma zlen_slot b : zlen (slot b) = 4 + zlen b.
Proof. unfold slot. rewrite zlen_app, zlen_be32. reflexivity. Qed.

Lemma body_cons b bs : body (b :: bs) = be32 (zlen b) ++ b ++ body bs.
Proof. unfold body, slot. cbn [map concat]. rewrite <- app_assoc. reflexivity. Qed.

Lemma zlen_body_cons b bs : zlen (body (b :: bs)) = 4 + zlen b + zlen (body bs).
Proof. rewrite body_cons, !zlen_app, zlen_be32. lia. Qed.

Lemma zlen_body_nonneg bs : 0 <= zlen (body bs).
Proof. apply zlen_nonneg. Qed.

(* offset of block i inside the body *)
Fixpoint boff (i : nat) (bs : list (list byte)) : Z :=
  match i, bs with
  | S i', b :: r => 4 + zlen b + boff i' r
  | _, _ => 0
  end.

Lemma boff_nonneg i bs : 0 <= boff i bs.
Proof.
  revert bs. induction i as [|i IH]; intros bs; destruct bs as [|b r]; cbn [boff]; try lia.
  pose proof (IH r). pose proof (zlen_nonneg b). lia.
Qed.

Lemma step4 s : s mod 4 = 0 -> (s / 4 + 1) * 4 = s + 4.
Proof. intros H. lia. Qed.

(* ---- rtosc_bundle_elements -------------------------------------------------- *)
Lemma bundle_elements_go_body bs : forall fuel m len pos n tail,
  Forall blk_ok bs -> 0 <= pos -> from m pos = body bs ++ tail ->
  len = pos + zlen (body bs) -> (length bs < fuel)%nat ->
  bundle_elements_go fuel m len pos n = Ok (n + zlen bs).
Proof.
  induction bs as [|b bs IH]; intros fuel m len pos n tail Hok Hp H Hlen Hf.
  - destruct fuel; [cbn in Hf; lia|]. cbn [bundle_elements_go].
    change (zlen (body [])) with 0 in Hlen.
    replace (len <=? pos) with true by (symmetry; apply Z.leb_le; lia).
    f_equal. unfold zlen. cbn [length]. lia.
  - destruct fuel; [cbn in Hf; lia|]. cbn [bundle_elements_go].
    inversion Hok as [|? ? (Hb0 & Hb4 & Hb32) Hok']; subst.
    rewrite zlen_body_cons in *. pose proof (zlen_body_nonneg bs).
    replace (pos + (4 + zlen b + zlen (body bs)) <=? pos) with false by (symmetry; apply Z.leb_gt; lia).
    rewrite body_cons, <- !app_assoc in H.
    assert (Hb : 0 <= zlen b < 4294967296) by lia.
    rewrite (rd32_from m pos (zlen b) _ Hp Hb H). cbn [bind].
    replace (zlen b =? 0) with false by (symmetry; apply Z.eqb_neq; lia).
    rewrite step4 by assumption.
    replace (pos + (4 + zlen b + zlen (body bs)) <? pos + (zlen b + 4)) with false
      by (symmetry; apply Z.ltb_ge; lia).
    pose proof (from_skip m pos _ _ Hp H) as H1. rewrite zlen_be32 in H1.
    pose proof (from_skip m (pos + 4) _ _ ltac:(lia) H1) as H2.
    replace (pos + 4 + zlen b) with (pos + (zlen b + 4)) in H2 by lia.
    rewrite (IH fuel m (pos + (4 + zlen b + zlen (body bs))) (pos + (zlen b + 4)) (n + 1) tail Hok' ltac:(lia) H2 ltac:(lia))
      by (cbn [length] in Hf; lia).
    f_equal. rewrite zlen_cons. lia.
Qed.

(* ---- rtosc_bundle_fetch / rtosc_bundle_size ---------------------------------- *)
Lemma bundle_fetch_go_body bs : forall fuel m elm pos k tail (i : nat),
  Forall blk_ok bs -> 0 <= pos -> from m pos = body bs ++ tail ->
  elm = k + Z.of_nat i -> (i < length bs)%nat -> (i < fuel)%nat ->
  exists b tl, nth_error bs i = Some b /\
    bundle_fetch_go fuel m elm pos k = Ok (pos + boff i bs + 4) /\
    from m (pos + boff i bs + 4) = b ++ tl.
Proof.
  induction bs as [|b bs IH]; intros fuel m elm pos k tail i Hok Hp H He Hi Hf.
  - cbn in Hi. lia.
  - destruct fuel; [lia|]. cbn [bundle_fetch_go].
    inversion Hok as [|? ? (Hb0 & Hb4 & Hb32) Hok']; subst.
    rewrite body_cons, <- !app_assoc in H.
    pose proof (from_skip m pos _ _ Hp H) as H1. rewrite zlen_be32 in H1.
    destruct i as [|i].
    + replace (k =? k + Z.of_nat 0) with true by (symmetry; apply Z.eqb_eq; lia).
      exists b, (body bs ++ tail). cbn [nth_error boff]. repeat split.
      * f_equal. lia.
      * replace (pos + 0 + 4) with (pos + 4) by lia. exact H1.
    + replace (k =? k + Z.of_nat (S i)) with false by (symmetry; apply Z.eqb_neq; lia).
      assert (Hb : 0 <= zlen b < 4294967296) by lia.
      rewrite (rd32_from m pos (zlen b) _ Hp Hb H). cbn [bind].
      replace (zlen b =? 0) with false by (symmetry; apply Z.eqb_neq; lia).
      rewrite step4 by assumption.
      pose proof (from_skip m (pos + 4) _ _ ltac:(lia) H1) as H2.
      replace (pos + 4 + zlen b) with (pos + (zlen b + 4)) in H2 by lia.
      destruct (IH fuel m (k + Z.of_nat (S i)) (pos + (zlen b + 4)) (k + 1) tail i Hok' ltac:(lia) H2
                   ltac:(lia) ltac:(cbn [length] in Hi; lia) ltac:(lia)) as (b' & tl & Hn & Hfe & Hfr).
      exists b', tl. cbn [nth_error boff]. repeat split; [assumption | |].
      * rewrite Hfe. f_equal. lia.
      * replace (pos + (4 + zlen b + boff i bs) + 4) with (pos + (zlen b + 4) + boff i bs + 4) by lia.
        exact Hfr.
Qed.

Lemma bundle_size_go_body bs : forall fuel m elm pos k last tail (i : nat),
  Forall blk_ok bs -> 0 <= pos -> from m pos = body bs ++ tail ->
  elm = k + Z.of_nat i -> (i < length bs)%nat -> (S i < fuel)%nat ->
  exists b, nth_error bs i = Some b /\
    bundle_size_go fuel m elm pos k last = Ok (zlen b).
Proof.
  induction bs as [|b bs IH]; intros fuel m elm pos k last tail i Hok Hp H He Hi Hf.
  - cbn in Hi. lia.
  - destruct fuel; [lia|]. cbn [bundle_size_go].
    inversion Hok as [|? ? (Hb0 & Hb4 & Hb32) Hok']; subst.
    rewrite body_cons, <- !app_assoc in H.
    pose proof (from_skip m pos _ _ Hp H) as H1. rewrite zlen_be32 in H1.
    replace (k =? k + Z.of_nat i + 1) with false by (symmetry; apply Z.eqb_neq; lia).
    assert (Hb : 0 <= zlen b < 4294967296) by lia.
    rewrite (rd32_from m pos (zlen b) _ Hp Hb H). cbn [bind].
    replace (zlen b =? 0) with false by (symmetry; apply Z.eqb_neq; lia).
    rewrite step4 by assumption.
    destruct i as [|i].
    + exists b. split; [reflexivity|].
      destruct fuel; [lia|]. cbn [bundle_size_go].
      replace (k + 1 =? k + Z.of_nat 0 + 1) with true by (symmetry; apply Z.eqb_eq; lia). reflexivity.
    + pose proof (from_skip m (pos + 4) _ _ ltac:(lia) H1) as H2.
      replace (pos + 4 + zlen b) with (pos + (zlen b + 4)) in H2 by lia.
      destruct (IH fuel m (k + Z.of_nat (S i)) (pos + (zlen b + 4)) (k + 1) (zlen b) tail i Hok' ltac:(lia) H2
                   ltac:(lia) ltac:(cbn [length] in Hi; lia) ltac:(lia)) as (b' & Hn & Hs).
      exists b'. split; [exact Hn | exact Hs].
Qed.

(* ---- the checked length walk over a bundle body ------------------------------- *)
Section Walk.
Variable r : ring.
Hypothesis seg1 : d1 r = [] /\ n1 r = 0.

Lemma bundle_len_go_body bs : forall fuel pos tail,
  Forall blk_ok bs -> 0 <= pos -> from (d0 r) pos = body bs ++ tail ->
  pos + zlen (body bs) <= n0 r -> pos + zlen (body bs) + 4 < W32 ->
  deref32 r (pos + zlen (body bs)) = Ok 0 ->
  (length bs < fuel)%nat ->
  bundle_len_go fuel r pos = Ok (pos + zlen (body bs)).
Proof.
  induction bs as [|b bs IH]; intros fuel pos tail Hok Hp H Hn Hw Hend Hf.
  - destruct fuel; [cbn in Hf; lia|]. cbn [bundle_len_go].
    change (zlen (body [])) with 0 in *. replace (pos + 0) with pos in * by lia.
    rewrite Hend. reflexivity.
  - destruct fuel; [cbn in Hf; lia|]. cbn [bundle_len_go].
    inversion Hok as [|? ? (Hb0 & Hb4 & Hb32) Hok']; subst.
    rewrite zlen_body_cons in *. pose proof (zlen_body_nonneg bs).
    rewrite body_cons, <- !app_assoc in H.
    assert (Hb : 0 <= zlen b < 4294967296) by lia.
    rewrite (deref32_from r pos (zlen b) _ Hp ltac:(lia) ltac:(lia) Hb H). cbn [bind].
    replace (zlen b =? 0) with false by (symmetry; apply Z.eqb_neq; lia).
    rewrite (ring_total_seg r seg1).
    replace (n0 r - pos - 4 <? zlen b) with false by (symmetry; apply Z.ltb_ge; lia).
    rewrite w32_small by (unfold W32 in *; lia).
    pose proof (from_skip (d0 r) pos _ _ Hp H) as H1. rewrite zlen_be32 in H1.
    pose proof (from_skip (d0 r) (pos + 4) _ _ ltac:(lia) H1) as H2.
    rewrite (IH fuel (pos + 4 + zlen b) tail Hok' ltac:(lia) H2 ltac:(lia) ltac:(lia)).
    + f_equal. lia.
    + replace (pos + 4 + zlen b + zlen (body bs)) with (pos + (4 + zlen b + zlen (body bs))) by lia.
      exact Hend.
    + cbn [length] in Hf. lia.
Qed.
End Walk.

(* ---- element trees ---------------------------------------------------------------- *)
Lemma elem_bytes_bun ttag es :
  elem_bytes (Bun ttag es) = bundle_magic ++ be64 ttag ++ body (map elem_bytes es).
Proof.
  cbn [elem_bytes]. f_equal. f_equal.
  induction es as [|e es IH]; [reflexivity|].
  cbn [map]. rewrite body_cons. rewrite IH. reflexivity.
Qed.

(* well-formed elements: encoded messages (address starting with something
   other than '#') and bundles of well-formed elements, sizes below 2^32 *)
Inductive elem_wf : elem -> Prop :=
| wf_msg a tags args :
    msg_wf a tags args -> not_bundle_addr a -> zlen (enc_spec a tags args) < 4294967296 - 8 ->
    elem_wf (Msg (enc_spec a tags args))
| wf_bun ttag es :
    0 <= ttag < 18446744073709551616 ->
    Forall elem_wf es ->
    zlen (elem_bytes (Bun ttag es)) < 4294967296 - 8 ->
    elem_wf (Bun ttag es).

Lemma enc_spec_mod4 a tags args : args_wf tags args ->
  zlen (enc_spec a tags args) mod 4 = 0 /\ 8 <= zlen (enc_spec a tags args).
Proof.
  intros [Hm Hw]. rewrite zlen_enc_spec.
  assert (Hc : zlen (concat (map enc_payload args)) mod 4 = 0).
  { clear Hm. induction Hw as [|p ps Hp Hps IH]; [reflexivity|].
    cbn [map concat]. rewrite zlen_app. pose proof (enc_payload_mod4 p Hp). lia. }
  pose proof (zlen_nonneg (concat (map enc_payload args))).
  pose proof (zlen_nonneg a). pose proof (zlen_nonneg tags). unfold align4. lia.
Qed.

Lemma zlen_bun ttag es :
  zlen (elem_bytes (Bun ttag es)) = 16 + zlen (body (map elem_bytes es)).
Proof. rewrite elem_bytes_bun, !zlen_app, zlen_be64. change (zlen bundle_magic) with 8. lia. Qed.

Lemma body_mod4 bs : Forall blk_ok bs -> zlen (body bs) mod 4 = 0.
Proof.
  induction 1 as [|b bs (H0 & H4 & H32) _ IH]; [reflexivity|].
  rewrite zlen_body_cons. lia.
Qed.

Lemma body_le b bs : In b bs -> 4 + zlen b <= zlen (body bs).
Proof.
  induction bs as [|x bs IH]; intros H; [destruct H|].
  rewrite zlen_body_cons. pose proof (zlen_body_nonneg bs). pose proof (zlen_nonneg x).
  destruct H as [->|H]; [lia | specialize (IH H); lia].
Qed.

Fixpoint elem_wf_blk (e : elem) (H : elem_wf e) {struct e} : blk_ok (elem_bytes e).
Proof.
  destruct e as [b | ttag es].
  - inversion H as [a tags args WF NB Hsz|]; subst. cbn [elem_bytes].
    destruct (enc_spec_mod4 a tags args (msg_wf_args_wf _ _ _ WF)). unfold blk_ok. lia.
  - assert (Hall : Forall blk_ok (map elem_bytes es)).
    { assert (Hes : Forall elem_wf es) by (inversion H; assumption).
      clear H. revert Hes.
      refine ((fix go (l : list elem) : Forall elem_wf l -> Forall blk_ok (map elem_bytes l) :=
                 match l with
                 | [] => fun _ => Forall_nil _
                 | x :: r => fun Hl => Forall_cons _ (elem_wf_blk x (Forall_inv Hl)) (go r (Forall_inv_tail Hl))
                 end) es). }
    inversion H as [|? ? Ht Hes Hsz]; subst.
    rewrite zlen_bun in *. pose proof (body_mod4 _ Hall). pose proof (zlen_body_nonneg (map elem_bytes es)).
    unfold blk_ok. rewrite zlen_bun. lia.
Qed.

Lemma elems_blk es : Forall elem_wf es -> Forall blk_ok (map elem_bytes es).
Proof.
  intros H. apply Forall_map. eapply Forall_impl; [|exact H]. intros e. apply elem_wf_blk.
Qed.

(* ---- rtosc_message_length of an element followed by a zero word ---------------- *)
Lemma is_magic_true r t :
  0 < n0 r -> 8 <= n0 r -> from (d0 r) 0 = bundle_magic ++ t ->
  is_magic r 0 bundle_magic = Ok true.
Proof.
  intros _ Hn H. unfold bundle_magic in *. cbn [app] in H. cbn [is_magic].
  rewrite (deref_from r 0 _ _ ltac:(lia) H). cbn [bind]. change (35 =? 35) with true. cbn iota.
  pose proof (from_step _ 0 _ _ ltac:(lia) H) as H1. change (0 + 1) with 1 in *.
  rewrite (deref_from r 1 _ _ ltac:(lia) H1). cbn [bind]. change (98 =? 98) with true. cbn iota.
  pose proof (from_step _ 1 _ _ ltac:(lia) H1) as H2. change (1 + 1) with 2 in *.
  rewrite (deref_from r 2 _ _ ltac:(lia) H2). cbn [bind]. change (117 =? 117) with true. cbn iota.
  pose proof (from_step _ 2 _ _ ltac:(lia) H2) as H3. change (2 + 1) with 3 in *.
  rewrite (deref_from r 3 _ _ ltac:(lia) H3). cbn [bind]. change (110 =? 110) with true. cbn iota.
  pose proof (from_step _ 3 _ _ ltac:(lia) H3) as H4. change (3 + 1) with 4 in *.
  rewrite (deref_from r 4 _ _ ltac:(lia) H4). cbn [bind]. change (100 =? 100) with true. cbn iota.
  pose proof (from_step _ 4 _ _ ltac:(lia) H4) as H5. change (4 + 1) with 5 in *.
  rewrite (deref_from r 5 _ _ ltac:(lia) H5). cbn [bind]. change (108 =? 108) with true. cbn iota.
  pose proof (from_step _ 5 _ _ ltac:(lia) H5) as H6. change (5 + 1) with 6 in *.
  rewrite (deref_from r 6 _ _ ltac:(lia) H6). cbn [bind]. change (101 =? 101) with true. cbn iota.
  pose proof (from_step _ 6 _ _ ltac:(lia) H6) as H7. change (6 + 1) with 7 in *.
  rewrite (deref_from r 7 _ _ ltac:(lia) H7). cbn [bind]. change (0 =? 0) with true. cbn iota.
  reflexivity.
Qed.

Lemma deref32_beyond r pos : 0 <= pos -> pos + 3 < W32 -> n0 r <= pos -> n1 r = 0 ->
  deref32 r pos = Ok 0.
Proof.
  intros Hp Hw Hn H1. unfold deref32. rewrite !w32_small by (unfold W32 in *; lia).
  unfold deref. rewrite H1.
  replace (pos <? n0 r) with false by (symmetry; apply Z.ltb_ge; lia).
  replace (pos + 1 <? n0 r) with false by (symmetry; apply Z.ltb_ge; lia).
  replace (pos + 2 <? n0 r) with false by (symmetry; apply Z.ltb_ge; lia).
  replace (pos + 3 <? n0 r) with false by (symmetry; apply Z.ltb_ge; lia).
  replace (pos - n0 r <? 0) with false by (symmetry; apply Z.ltb_ge; lia).
  replace (pos + 1 - n0 r <? 0) with false by (symmetry; apply Z.ltb_ge; lia).
  replace (pos + 2 - n0 r <? 0) with false by (symmetry; apply Z.ltb_ge; lia).
  replace (pos + 3 - n0 r <? 0) with false by (symmetry; apply Z.ltb_ge; lia).
  reflexivity.
Qed.

(* the length of a bundle, measured with bound n: either n is exactly its size
   (the readers' use) or a zero word follows it in memory (rtosc_bundle's use) *)
Lemma message_length_bun ttag es rest n :
  Forall blk_ok (map elem_bytes es) ->
  zlen (elem_bytes (Bun ttag es)) < 4294967296 - 8 ->
  (n = zlen (elem_bytes (Bun ttag es)) \/
   (zlen (elem_bytes (Bun ttag es)) + 4 <= n /\ exists rest', rest = z4 ++ rest')) ->
  message_length (elem_bytes (Bun ttag es) ++ rest) n = Ok (zlen (elem_bytes (Bun ttag es))).
Proof.
  intros Hall Hsz Hn.
  set (B := elem_bytes (Bun ttag es)) in *.
  set (m := B ++ rest).
  set (r := {| d0 := m; n0 := n; d1 := []; n1 := 0 |}).
  assert (seg1 : d1 r = [] /\ n1 r = 0) by (split; reflexivity).
  pose proof (zlen_bun ttag es) as HL. fold B in HL.
  pose proof (zlen_body_nonneg (map elem_bytes es)) as Hb0.
  assert (Hn16 : 16 <= n) by (destruct Hn as [->|[Hn _]]; lia).
  assert (HB : B = bundle_magic ++ be64 ttag ++ body (map elem_bytes es)) by apply elem_bytes_bun.
  unfold message_length. fold m. change {| d0 := m; n0 := n; d1 := []; n1 := 0 |} with r.
  unfold message_ring_length, message_ring_length_gen.
  assert (Hm0 : from (d0 r) 0 = bundle_magic ++ (be64 ttag ++ body (map elem_bytes es) ++ rest)).
  { cbn [d0 r]. rewrite from_0. unfold m. rewrite HB, <- !app_assoc. reflexivity. }
  rewrite (is_magic_true r _ ltac:(cbn [n0 r]; lia) ltac:(cbn [n0 r]; lia) Hm0). cbn [bind].
  unfold bundle_ring_length.
  assert (H16 : from (d0 r) 16 = body (map elem_bytes es) ++ rest).
  { pose proof (from_skip (d0 r) 0 _ _ ltac:(lia) Hm0) as H8. change (0 + zlen bundle_magic) with 8 in H8.
    pose proof (from_skip (d0 r) 8 _ _ ltac:(lia) H8) as H16. rewrite zlen_be64 in H16. exact H16. }
  assert (Hend : deref32 r (16 + zlen (body (map elem_bytes es))) = Ok 0).
  { destruct Hn as [Hn|[Hn [rest' Hr]]].
    - apply deref32_beyond; [lia | unfold W32; lia | cbn [n0 r]; lia | reflexivity].
    - assert (Hz : from (d0 r) (16 + zlen (body (map elem_bytes es))) = be32 0 ++ rest').
      { rewrite (from_skip (d0 r) 16 _ _ ltac:(lia) H16). rewrite Hr. reflexivity. }
      apply (deref32_from r _ 0 rest'); [lia | cbn [n0 r]; lia | unfold W32; lia | lia | exact Hz]. }
  rewrite (bundle_len_go_body r seg1 (map elem_bytes es) (fuel_of r) 16 rest Hall ltac:(lia) H16
             ltac:(cbn [n0 r]; destruct Hn as [->|[Hn _]]; lia) ltac:(unfold W32; lia) Hend).
  - cbn [bind]. rewrite (ring_total_seg r seg1). cbn [n0 r].
    replace (16 + zlen (body (map elem_bytes es)) <=? n) with true
      by (symmetry; apply Z.leb_le; destruct Hn as [->|[Hn _]]; lia).
    f_equal. lia.
  - unfold fuel_of. cbn [d0 d1 r length]. unfold m. rewrite app_length, HB, !app_length, map_length.
    assert (Hlen : (length (map elem_bytes es) <= length (body (map elem_bytes es)))%nat).
    { clear - Hall. induction Hall as [|b bs (H0 & _) _ IH]; [cbn; lia|].
      rewrite body_cons, !app_length. cbn [length]. unfold zlen in H0. lia. }
    rewrite map_length in Hlen. lia.
Qed.

(* what must follow an element in memory for the unbounded length function to
   delimit it: nothing for a message (it is self-delimiting, whatever follows),
   a zero word for a bundle (the API's precondition for nested bundles) *)
Definition elem_tail (e : elem) : list byte := match e with Msg _ => [] | Bun _ _ => z4 end.

Theorem message_length_elem e rest :
  elem_wf e ->
  message_length (elem_bytes e ++ elem_tail e ++ rest) SIZE_MAX = Ok (zlen (elem_bytes e)).
Proof.
  intros H. inversion H as [a tags args WF NB Hsz | ttag es Ht Hes Hsz]; subst.
  - cbn [elem_bytes elem_tail app]. apply message_length_enc; [assumption | assumption | unfold W32; lia | unfold SIZE_MAX; lia].
  - cbn [elem_tail]. apply message_length_bun; [apply elems_blk; assumption | assumption |].
    right. split; [unfold SIZE_MAX; lia | eexists; reflexivity].
Qed.

(* C08_total: the length function reports the bundle's total length *)
Theorem message_length_bundle_exact ttag es :
  elem_wf (Bun ttag es) ->
  message_length (elem_bytes (Bun ttag es)) (zlen (elem_bytes (Bun ttag es)))
  = Ok (zlen (elem_bytes (Bun ttag es))).
Proof.
  intros H. inversion H as [| ? ? Ht Hes Hsz]; subst.
  rewrite <- (app_nil_r (elem_bytes (Bun ttag es))) at 1.
  apply message_length_bun; [apply elems_blk; assumption | assumption | left; reflexivity].
Qed.

(* ---- rtosc_bundle -------------------------------------------------------------------- *)
(* the memory each element pointer designates: the element, a zero word if it
   is a bundle, then anything *)
Definition elem_mem (e : elem) (junk : list byte) : list byte := elem_bytes e ++ elem_tail e ++ junk.

Lemma bundle_sizes_elems es junks :
  Forall elem_wf es -> length junks = length es ->
  bundle_sizes (map (fun p => elem_mem (fst p) (snd p)) (combine es junks))
  = Ok (map (fun e => zlen (elem_bytes e)) es).
Proof.
  intros H. revert junks. induction H as [|e es He Hes IH]; intros junks Hl.
  - destruct junks; [reflexivity | discriminate].
  - destruct junks as [|j junks]; [discriminate|]. cbn [combine map bundle_sizes fst snd].
    change (elem_mem e j) with (elem_bytes e ++ elem_tail e ++ j). rewrite (message_length_elem e j He). cbn [bind].
    rewrite IH by (cbn in Hl; lia). reflexivity.
Qed.

Lemma bundle_chunks_elems es junks :
  length junks = length es ->
  exists cs, bundle_chunks (map (fun p => elem_mem (fst p) (snd p)) (combine es junks))
                           (map (fun e => zlen (elem_bytes e)) es) = Ok cs /\
             chunk_bytes cs = body (map elem_bytes es) /\ skips_ok cs.
Proof.
  revert junks. induction es as [|e es IH]; intros junks Hl.
  - destruct junks; [|discriminate]. exists []. repeat split.
  - destruct junks as [|j junks]; [discriminate|]. cbn [combine map bundle_chunks fst snd].
    destruct (IH junks ltac:(cbn in Hl; lia)) as (cs & Hcs & Hb & Hs).
    change (elem_mem e j) with (elem_bytes e ++ elem_tail e ++ j).
    replace (zlen (elem_bytes e ++ elem_tail e ++ j) <? zlen (elem_bytes e)) with false.
    2:{ symmetry. apply Z.ltb_ge. rewrite zlen_app. pose proof (zlen_nonneg (elem_tail e ++ j)). lia. }
    rewrite Hcs. cbn [bind]. eexists. split; [reflexivity|]. split.
    + cbn [chunk_bytes]. rewrite Hb, body_cons. f_equal. f_equal.
      unfold zlen. rewrite Nat2Z.id. apply firstn_zlen_app.
    + exact Hs.
Qed.

(* rtosc_bundle for every capacity: too small -> 0 and an all-zero buffer;
   otherwise the bundle layout at the front, zeros behind, size returned *)
Theorem bundle_spec buf ttag es junks :
  Forall elem_wf es -> length junks = length es ->
  let B := elem_bytes (Bun ttag es) in
  bundle buf ttag (map (fun p => elem_mem (fst p) (snd p)) (combine es junks)) =
  if zlen buf <? zlen B then Ok (0, zeros (zlen buf))
  else Ok (zlen B, B ++ zeros (zlen buf - zlen B)).
Proof.
  intros Hes Hl B. unfold bundle. rewrite (bundle_sizes_elems es junks Hes Hl). cbn [bind].
  assert (Htot : 16 + sumz (map (fun s => 4 + s) (map (fun e => zlen (elem_bytes e)) es)) = zlen B).
  { unfold B. rewrite zlen_bun. f_equal. clear. induction es as [|e es IH]; [reflexivity|].
    cbn [map sumz fold_right]. rewrite zlen_body_cons. unfold sumz in IH. rewrite IH. lia. }
  rewrite Htot. destruct (zlen buf <? zlen B) eqn:E; [reflexivity|]. apply Z.ltb_ge in E.
  destruct (bundle_chunks_elems es junks Hl) as (cs & -> & Hb & Hs). cbn [bind].
  set (cs' := Wr bundle_magic :: Wr (be64 ttag) :: cs).
  assert (Hcb : chunk_bytes cs' = B).
  { unfold cs', B. cbn [chunk_bytes]. rewrite Hb, elem_bytes_bun. reflexivity. }
  replace (zeros (zlen buf)) with (zeros (zlen (chunk_bytes cs')) ++ zeros (zlen buf - zlen B)).
  2:{ rewrite Hcb. rewrite <- zeros_add by (pose proof (zlen_nonneg B); lia). f_equal. lia. }
  rewrite apply_chunks_zeroed by exact Hs. cbn [bind]. rewrite Hcb. reflexivity.
Qed.

(* ---- the readers on a composed bundle ------------------------------------------------ *)
Theorem readers_spec ttag es rest :
  elem_wf (Bun ttag es) ->
  let B := elem_bytes (Bun ttag es) in
  let m := B ++ rest in
  bundle_p m = Ok true /\
  bundle_timetag m = Ok ttag /\
  bundle_elements m (zlen B) = Ok (zlen es) /\
  forall i e, nth_error es i = Some e ->
    bundle_fetch m (Z.of_nat i) = Ok (16 + boff i (map elem_bytes es) + 4) /\
    bundle_size m (Z.of_nat i) = Ok (zlen (elem_bytes e)) /\
    exists tl, from m (16 + boff i (map elem_bytes es) + 4) = elem_bytes e ++ tl.
Proof.
  intros H B m. inversion H as [| ? ? Ht Hes Hsz]; subst.
  pose proof (elems_blk es Hes) as Hall.
  assert (HB : B = bundle_magic ++ be64 ttag ++ body (map elem_bytes es)) by apply elem_bytes_bun.
  assert (Hm0 : from m 0 = bundle_magic ++ (be64 ttag ++ body (map elem_bytes es) ++ rest)).
  { rewrite from_0. unfold m. rewrite HB, <- !app_assoc. reflexivity. }
  pose proof (from_skip m 0 _ _ ltac:(lia) Hm0) as H8. change (0 + zlen bundle_magic) with 8 in H8.
  pose proof (from_skip m 8 _ _ ltac:(lia) H8) as H16. rewrite zlen_be64 in H16. change (8 + 8) with 16 in H16.
  assert (Hlen : (length es < S (length m))%nat).
  { unfold m. rewrite app_length, HB, !app_length.
    assert (Hl : (length (map elem_bytes es) <= length (body (map elem_bytes es)))%nat).
    { clear - Hall. induction Hall as [|b bs (H0 & _) _ IH]; [cbn; lia|].
      rewrite body_cons, !app_length. cbn [length]. unfold zlen in H0. lia. }
    rewrite map_length in Hl. lia. }
  split; [|split; [|split; [|intros i e H0; split; [|split]]]].
  - unfold bundle_p, m. rewrite HB. reflexivity.
  - unfold bundle_timetag. eapply rd64_from; [lia | exact Ht | exact H8].
  - unfold bundle_elements.
    rewrite (bundle_elements_go_body (map elem_bytes es) (S (length m)) m (zlen B) 16 0 rest Hall ltac:(lia) H16).
    + f_equal. unfold zlen. rewrite map_length. lia.
    + unfold B. rewrite zlen_bun. reflexivity.
    + rewrite map_length. exact Hlen.
  - assert (Hi : (i < length es)%nat) by (apply nth_error_Some; congruence).
    unfold bundle_fetch.
    destruct (bundle_fetch_go_body (map elem_bytes es) (S (length m)) m (Z.of_nat i) 16 0 rest i Hall
                ltac:(lia) H16 ltac:(lia) ltac:(rewrite map_length; exact Hi) ltac:(lia))
      as (b & tl & Hn & Hf & Hfr).
    exact Hf.
  - assert (Hi : (i < length es)%nat) by (apply nth_error_Some; congruence).
    unfold bundle_size.
    destruct (bundle_size_go_body (map elem_bytes es) (S (length m)) m (Z.of_nat i) 16 0 0 rest i Hall
                ltac:(lia) H16 ltac:(lia) ltac:(rewrite map_length; exact Hi) ltac:(lia))
      as (b & Hn & Hs).
    rewrite Hs. rewrite nth_error_map in Hn. rewrite H0 in Hn. cbn in Hn. inversion Hn. reflexivity.
  - assert (Hi : (i < length es)%nat) by (apply nth_error_Some; congruence).
    destruct (bundle_fetch_go_body (map elem_bytes es) (S (length m)) m (Z.of_nat i) 16 0 rest i Hall
                ltac:(lia) H16 ltac:(lia) ltac:(rewrite map_length; exact Hi) ltac:(lia))
      as (b & tl & Hn & Hf & Hfr).
    rewrite nth_error_map in Hn. rewrite H0 in Hn. cbn in Hn. inversion Hn; subst b.
    exists tl. exact Hfr.
Qed.

(* a message is never mistaken for a bundle *)
Lemma strcmp_addr a rest :
  nonul a -> a <> [] -> not_bundle_addr a -> strcmp_eq (a ++ 0 :: rest) bundle_magic = Ok false.
Proof.
  intros Hn Hne NB. unfold bundle_magic, not_bundle_addr, bundle7 in *.
  assert (Hz : forall c (l : list byte), nonul (c :: l) -> (c =? 0) = false)
    by (intros c l H; inversion H; subst; apply Z.eqb_neq; assumption).
  assert (Ht : forall c (l : list byte), nonul (c :: l) -> nonul l)
    by (intros c l H; inversion H; assumption).
  destruct a as [|a0 a]; [congruence|]. cbn [app strcmp_eq].
  destruct (Z.eqb_spec a0 35) as [->|]; [|reflexivity]. change (35 =? 0) with false. cbv iota. apply Ht in Hn.
  destruct a as [|a1 a]; [reflexivity|]. cbn [app strcmp_eq].
  destruct (Z.eqb_spec a1 98) as [->|]; [|reflexivity]. change (98 =? 0) with false. cbv iota. apply Ht in Hn.
  destruct a as [|a2 a]; [reflexivity|]. cbn [app strcmp_eq].
  destruct (Z.eqb_spec a2 117) as [->|]; [|reflexivity]. change (117 =? 0) with false. cbv iota. apply Ht in Hn.
  destruct a as [|a3 a]; [reflexivity|]. cbn [app strcmp_eq].
  destruct (Z.eqb_spec a3 110) as [->|]; [|reflexivity]. change (110 =? 0) with false. cbv iota. apply Ht in Hn.
  destruct a as [|a4 a]; [reflexivity|]. cbn [app strcmp_eq].
  destruct (Z.eqb_spec a4 100) as [->|]; [|reflexivity]. change (100 =? 0) with false. cbv iota. apply Ht in Hn.
  destruct a as [|a5 a]; [reflexivity|]. cbn [app strcmp_eq].
  destruct (Z.eqb_spec a5 108) as [->|]; [|reflexivity]. change (108 =? 0) with false. cbv iota. apply Ht in Hn.
  destruct a as [|a6 a]; [reflexivity|]. cbn [app strcmp_eq].
  destruct (Z.eqb_spec a6 101) as [->|]; [|reflexivity]. change (101 =? 0) with false. cbv iota. apply Ht in Hn.
  destruct a as [|a7 a]; [exfalso; apply NB; reflexivity|]. cbn [app strcmp_eq].
  rewrite (Hz a7 a Hn). reflexivity.
Qed.

Theorem message_not_bundle a tags args rest :
  msg_wf a tags args -> not_bundle_addr a ->
  bundle_p (enc_spec a tags args ++ rest) = Ok false.
Proof.
  intros WF NB. destruct WF as [Hne Ha _ _ _].
  unfold enc_spec, pad4z, bundle_p. rewrite <- !app_assoc.
  assert (Hk : 1 <= 4 - zlen a mod 4) by (pose proof (Z.mod_pos_bound (zlen a) 4 ltac:(lia)); lia).
  rewrite (zeros_pos _ Hk). cbn [app]. apply strcmp_addr; assumption.
Qed.

(* ---- subtree_serialize (src/cpp/subtree-serialize.cpp) ------------------- *)
Lemma append_all_zero : forall msgs buf, append_all buf 0 msgs = Ok (0, buf).
Proof.
  induction msgs as [|m r IH]; intros buf; cbn [append_all]; [reflexivity|].
  unfold append_bundle. change (0 =? 0) with true. rewrite orb_true_r. cbn [orb bind fst snd]. apply IH.
Qed.

(* appending onto a prefix P that is followed by zeros: everything fits ->
   the slots are laid down behind P; otherwise 0 is returned; the buffer never
   changes its length (no write outside) *)
Lemma append_all_spec : forall msgs P k,
  Forall (fun m => 0 < zlen m < 4294967296) msgs -> 0 < zlen P -> 0 <= k ->
  exists b', append_all (P ++ zeros k) (zlen P) msgs =
             Ok ((if k <? zlen (body msgs) then 0 else zlen P + zlen (body msgs)), b') /\
             zlen b' = zlen P + k /\
             (zlen (body msgs) <= k -> b' = P ++ body msgs ++ zeros (k - zlen (body msgs))).
Proof.
  induction msgs as [|m r IH]; intros P k Hm HP Hk.
  - cbn [append_all]. change (zlen (body [])) with 0.
    replace (k <? 0) with false by (symmetry; apply Z.ltb_ge; lia).
    eexists. split; [rewrite Z.add_0_r; reflexivity|]. split; [rewrite zlen_app, zlen_zeros by lia; reflexivity|].
    intros _. cbn [app]. rewrite Z.sub_0_r. reflexivity.
  - inversion Hm as [|? ? Hm1 Hmr]; subst. cbn [append_all]. unfold append_bundle.
    rewrite zlen_app, zlen_zeros by lia. rewrite zlen_body_cons.
    pose proof (zlen_body_nonneg r) as Hb.
    replace (zlen P =? 0) with false by (symmetry; apply Z.eqb_neq; lia).
    replace (zlen m =? 0) with false by (symmetry; apply Z.eqb_neq; lia). rewrite !orb_false_r.
    destruct (zlen P + k <? zlen P + zlen m + 4) eqn:E.
    + apply Z.ltb_lt in E. cbn [bind fst snd]. rewrite append_all_zero.
      replace (k <? 4 + zlen m + zlen (body r)) with true by (symmetry; apply Z.ltb_lt; lia).
      eexists. split; [reflexivity|]. split; [rewrite zlen_app, zlen_zeros by lia; reflexivity|]. intros; lia.
    + apply Z.ltb_ge in E.
      replace (Z.to_nat (zlen P)) with (length P) by (unfold zlen; lia).
      rewrite skipn_zlen_app, firstn_zlen_app.
      replace (zeros k) with (zeros (zlen (chunk_bytes [Wr (be32 (zlen m)); Wr m])) ++ zeros (k - 4 - zlen m)).
      2:{ cbn [chunk_bytes]. rewrite app_nil_r, zlen_app, zlen_be32. rewrite <- zeros_add by lia. f_equal. lia. }
      rewrite apply_chunks_zeroed by exact I. cbn [bind fst snd chunk_bytes]. rewrite app_nil_r.
      set (P' := P ++ be32 (zlen m) ++ m).
      assert (HP' : zlen P' = zlen P + zlen m + 4) by (unfold P'; rewrite !zlen_app, zlen_be32; lia).
      replace (P ++ (be32 (zlen m) ++ m) ++ zeros (k - 4 - zlen m)) with (P' ++ zeros (k - 4 - zlen m))
        by (unfold P'; rewrite <- !app_assoc; reflexivity).
      rewrite <- HP'.
      destruct (IH P' (k - 4 - zlen m) Hmr ltac:(lia) ltac:(lia)) as (b' & Hrun & Hlen & Hfit).
      rewrite Hrun. exists b'. split; [|split].
      * f_equal. f_equal.
        destruct (k - 4 - zlen m <? zlen (body r)) eqn:E2;
          [apply Z.ltb_lt in E2; replace (k <? 4 + zlen m + zlen (body r)) with true by (symmetry; apply Z.ltb_lt; lia); reflexivity
          |apply Z.ltb_ge in E2; replace (k <? 4 + zlen m + zlen (body r)) with false by (symmetry; apply Z.ltb_ge; lia); lia].
      * lia.
      * intros Hle. rewrite Hfit by lia. unfold P'. rewrite body_cons, <- !app_assoc. do 4 f_equal. f_equal. lia.
Qed.

(* subtree_serialize for every capacity: the bundle of the captured replies
   when it fits (time tag 0xdeadbeef0a0b0c0d), 0 otherwise; never a write
   outside the destination *)
Theorem subtree_serialize_spec buf msgs :
  Forall (fun m => 0 < zlen m < 4294967296) msgs ->
  let B := bundle_magic ++ be64 SUBTREE_TT ++ body msgs in
  exists b', subtree_serialize buf msgs = Ok ((if zlen buf <? zlen B then 0 else zlen B), b') /\
             zlen b' = zlen buf /\
             (zlen B <= zlen buf -> b' = B ++ zeros (zlen buf - zlen B)).
Proof.
  intros Hm B. unfold subtree_serialize.
  pose proof (bundle_spec buf SUBTREE_TT [] [] (Forall_nil _) eq_refl) as Hb.
  cbn [combine map] in Hb. rewrite Hb. clear Hb.
  assert (HB0 : elem_bytes (Bun SUBTREE_TT []) = bundle_magic ++ be64 SUBTREE_TT) by (rewrite elem_bytes_bun; cbn [map]; change (body []) with (@nil byte); rewrite app_nil_r; reflexivity).
  rewrite HB0. set (H0 := bundle_magic ++ be64 SUBTREE_TT).
  assert (HH0 : zlen H0 = 16) by reflexivity.
  assert (HBl : zlen B = 16 + zlen (body msgs)) by (unfold B; rewrite !zlen_app, zlen_be64; change (zlen bundle_magic) with 8; lia).
  pose proof (zlen_body_nonneg msgs) as Hbn. pose proof (zlen_nonneg buf).
  rewrite HH0. destruct (zlen buf <? 16) eqn:E16.
  - apply Z.ltb_lt in E16. cbn [bind fst snd]. rewrite append_all_zero.
    replace (zlen buf <? zlen B) with true by (symmetry; apply Z.ltb_lt; lia).
    eexists. split; [reflexivity|]. split; [apply zlen_zeros; lia | intros; lia].
  - apply Z.ltb_ge in E16. cbn [bind fst snd].
    destruct (append_all_spec msgs H0 (zlen buf - 16) Hm ltac:(lia) ltac:(lia)) as (b' & Hrun & Hlen & Hfit).
    rewrite HH0 in Hrun. rewrite Hrun. exists b'. split; [|split].
    + f_equal. f_equal.
      destruct (zlen buf - 16 <? zlen (body msgs)) eqn:E2;
        [apply Z.ltb_lt in E2; replace (zlen buf <? zlen B) with true by (symmetry; apply Z.ltb_lt; lia); reflexivity
        |apply Z.ltb_ge in E2; replace (zlen buf <? zlen B) with false by (symmetry; apply Z.ltb_ge; lia); lia].
    + lia.
    + intros Hle. rewrite Hfit by lia. replace (zlen buf - zlen B) with (zlen buf - 16 - zlen (body msgs)) by lia.
      unfold B, H0. rewrite <- !app_assoc. reflexivity.
Qed.
